/-
  Property C19 — The dependency container follows its simple reference model.
  Property theorems only; helper lemmas live in Tranp/Lemmas/DI.lean.
-/
import Tranp.Lemmas.DI

namespace Tranp.C19
open Tranp Tranp.DI

/-! ### witnesses used by the examples and counterexamples (the same factories as harness/c19.py) -/

def s0 : SymRef := ⟨0, false⟩
def s1 : SymRef := ⟨1, false⟩
def tStr : Nat := 100
def tInt : Nat := 101
/-- `class K0: def __init__(self)` -/
def f0 : Factory := ⟨0, some 0, []⟩
/-- `class K15` without `__init__` -/
def f15 : Factory := ⟨15, some 10, []⟩
/-- two closures of one `def clo(x: T_)`: same qualified name, annotations `S0` / `S1` -/
def f8 : Factory := ⟨8, some 6, [some s0]⟩
def f9 : Factory := ⟨9, some 6, [some s1]⟩
/-- `def fn18(s: str)` -/
def f18 : Factory := ⟨18, some 13, [some ⟨tStr, false⟩]⟩

/-- Forward simulation: from every reachable state, every op changes the abstract state exactly as `specStep`
    prescribes and produces the same output. -/
theorem refine (fuel : Nat) (ops : List Op) (op : Op) :
    abs (step fuel (run fuel State.init ops).1 op).1 = (specStep fuel (abs (run fuel State.init ops).1) op).1 ∧
    (step fuel (run fuel State.init ops).1 op).2 = (specStep fuel (abs (run fuel State.init ops).1) op).2 := by
  obtain ⟨_, he⟩ := step_ok fuel _ op (reach_wf fuel ops)
  rw [he]; exact ⟨rfl, rfl⟩

/-- non-vacuity: a run that binds, resolves (twice), clones and combines; the Spec gives the same outputs -/
example :
    let ops : List Op := [.newDI, .on 0 (.bind s0 f0), .on 0 (.resolve s0), .on 0 (.resolve s0), .clone 0, .combine 0 1,
      .on 2 (.resolve s0)]
    (run 5 State.init ops).2 = [.cont 0, .ok, .obj ⟨0, 0, []⟩, .obj ⟨0, 0, []⟩, .cont 1, .cont 2, .obj ⟨0, 0, []⟩] ∧
    (specRun 5 Spec.init ops).2 = (run 5 State.init ops).2 := by
  decide

/-- Whole runs: the concrete dictionaries and the Spec produce the same outputs for every op sequence, and the
    final states are related by `abs`. -/
theorem run_refines (fuel : Nat) (ops : List Op) :
    specRun fuel Spec.init ops = (abs (run fuel State.init ops).1, (run fuel State.init ops).2) :=
  (run_ok fuel ops State.init init_wf).2

example : (specRun 3 Spec.init [.newLazy [(0, .named 1 f0)], .on 0 (.can s0), .on 0 (.resolve s0)]).2
    = [.cont 0, .bool true, .obj ⟨0, 0, []⟩] := by decide

/-- One instance per binding generation: after a resolve of `(c, r)` returned `o`, every later resolve of the same
    symbol (in any spelling, `Gen` or `Gen[A]`) on the same container returns the very same `o`, whatever happened in
    between on any container, as long as no bind / rebind / unbind of that symbol on that container intervened. -/
theorem singleton (fuel : Nat) (pre mid : List Op) (c : Nat) (r r' : SymRef) (o : Obj)
    (hr : r'.accept = r.accept) (hmid : ∀ op ∈ mid, touches c r.accept op = false)
    (h1 : (step fuel (run fuel State.init pre).1 (.on c (.resolve r))).2 = .obj o) :
    (step fuel (run fuel (step fuel (run fuel State.init pre).1 (.on c (.resolve r))).1 mid).1 (.on c (.resolve r'))).2
      = .obj o := by
  have w0 := reach_wf fuel pre
  have w1 := step_wf (fuel := fuel) w0 (.on c (.resolve r))
  have w2 := run_wf (fuel := fuel) w1 mid
  rw [step_out w2, run_abs w1, step_abs w0]
  rw [step_out w0] at h1
  exact spec_singleton fuel _ mid c r r' o hr hmid h1

example :
    let pre : List Op := [.newDI, .on 0 (.bind ⟨4, true⟩ f0)]
    let mid : List Op := [.clone 0, .on 1 (.rebind ⟨4, false⟩ f15), .on 1 (.resolve ⟨4, false⟩), .on 0 (.bind s0 f15), .on 0 (.resolve s0)]
    (step 5 (run 5 State.init pre).1 (.on 0 (.resolve ⟨4, false⟩))).2 = .obj ⟨0, 0, []⟩ ∧
    (∀ op ∈ mid, touches 0 4 op = false) ∧
    (step 5 (run 5 (step 5 (run 5 State.init pre).1 (.on 0 (.resolve ⟨4, false⟩))).1 mid).1 (.on 0 (.resolve ⟨4, true⟩))).2
      = .obj ⟨0, 0, []⟩ := by decide

/-- Re-binding discards the old instance: whatever is resolved for the symbol after a successful `rebind` (until the
    next bind / rebind / unbind of it) was created after the rebind and by the new factory. -/
theorem rebind_fresh (fuel : Nat) (pre mid : List Op) (c : Nat) (r r' : SymRef) (f : Factory) (o : Obj)
    (hr : r'.accept = r.accept) (hmid : ∀ op ∈ mid, touches c r.accept op = false)
    (h0 : (step fuel (run fuel State.init pre).1 (.on c (.rebind r f))).2 = .ok)
    (h : (step fuel (run fuel (step fuel (run fuel State.init pre).1 (.on c (.rebind r f))).1 mid).1 (.on c (.resolve r'))).2
      = .obj o) :
    (run fuel State.init pre).1.next ≤ o.id ∧ o.fid = f.fid := by
  have w0 := reach_wf fuel pre
  have w1 := step_wf (fuel := fuel) w0 (.on c (.rebind r f))
  have w2 := run_wf (fuel := fuel) w1 mid
  rw [step_out w2, run_abs w1, step_abs w0] at h
  rw [step_out w0] at h0
  exact spec_rebind_fresh fuel _ mid c r r' f o hr hmid h0 h

example :
    let pre : List Op := [.newDI, .on 0 (.bind s0 f0), .on 0 (.resolve s0)]
    (run 5 State.init pre).1.next = 1 ∧
    (step 5 (run 5 State.init pre).1 (.on 0 (.rebind s0 f15))).2 = .ok ∧
    (step 5 (run 5 (step 5 (run 5 State.init pre).1 (.on 0 (.rebind s0 f15))).1 [.on 0 (.can s0)]).1 (.on 0 (.resolve s0))).2
      = .obj ⟨1, 15, []⟩ := by decide

/-- `combine a b`: for every symbol the result holds `b`'s entry (binding *and* instance) if `b` can resolve it,
    otherwise `a`'s. -/
def combine_right_statement : Prop :=
  ∀ (fuel : Nat) (ops : List Op) (a b k : Nat),
    (step fuel (run fuel State.init ops).1 (.combine a b)).2 = .cont k →
    ∀ s, look (abs (step fuel (run fuel State.init ops).1 (.combine a b)).1) k s =
      preferRight (look (abs (run fuel State.init ops).1) a s) (look (abs (run fuel State.init ops).1) b s)

/-- FALSE on the pinned code, first way (plain DI): `b` binds the symbol without having resolved it, `a` has an
    instance — the result pairs `b`'s factory with `a`'s instance (`{**a.instances, **b.instances}`, di.py:249). -/
theorem combine_right_counterexample : ¬ combine_right_statement := by
  intro h
  have := h 5 [.newDI, .on 0 (.bind s0 f0), .on 0 (.resolve s0), .newDI, .on 1 (.bind s0 f15)] 0 1 2 (by decide) 0
  revert this
  decide

/-- FALSE, second way (LazyDI): `b` only *defines* the symbol (never resolved), `a` has materialised it — `a`'s binding
    and instance survive, because the base registry of `a` is consulted before the merged definitions (di.py:371). -/
theorem combine_right_lazy_counterexample : ¬ combine_right_statement := by
  intro h
  have := h 5 [.newLazy [(0, .direct f0)], .on 0 (.resolve s0), .newLazy [(0, .named 12 f15)]] 0 1 2 (by decide) 0
  revert this
  decide

/-- The right operand wins whenever the left operand holds no instance for a symbol `b` binds without instance, and no
    materialised binding for a symbol `b` only defines (e.g. disjoint symbol sets, as in providers/syntax/entrypoints.py,
    or a left operand that was never resolved, or a right operand that resolved everything it binds). -/
theorem combine_right_partial (fuel : Nat) (ops : List Op) (a b k : Nat)
    (hk : (step fuel (run fuel State.init ops).1 (.combine a b)).2 = .cont k)
    (hns : ∀ s ea eb, look (abs (run fuel State.init ops).1) a s = some ea → look (abs (run fuel State.init ops).1) b s = some eb →
      (eb.lazy = true → ea.lazy = true) ∧ (eb.lazy = false → eb.inst = none → ea.inst = none)) :
    ∀ s, look (abs (step fuel (run fuel State.init ops).1 (.combine a b)).1) k s =
      preferRight (look (abs (run fuel State.init ops).1) a s) (look (abs (run fuel State.init ops).1) b s) := by
  have w0 := reach_wf fuel ops
  rw [step_out w0] at hk
  rw [step_abs w0]
  obtain ⟨sa, sb, ha, hb, hl⟩ := specStep_combine_look fuel _ a b k hk
  intro s
  rw [hl s]
  have la : look (abs (run fuel State.init ops).1) a s = sa.ents s := by simp [look, ha]
  have lb : look (abs (run fuel State.init ops).1) b s = sb.ents s := by simp [look, hb]
  rw [la, lb]
  apply combineEnt_right
  intro le re h1 h2
  exact hns s le re (by rw [la, h1]) (by rw [lb, h2])

example :
    let ops : List Op := [.newDI, .on 0 (.bind s0 f0), .on 0 (.resolve s0), .newDI, .on 1 (.bind s0 f15), .on 1 (.resolve s0),
      .on 1 (.bind s1 f0)]
    (step 5 (run 5 State.init ops).1 (.combine 0 1)).2 = .cont 2 ∧
    look (abs (step 5 (run 5 State.init ops).1 (.combine 0 1)).1) 2 0 = some ⟨.direct f15, false, some ⟨1, 15, []⟩⟩ ∧
    look (abs (step 5 (run 5 State.init ops).1 (.combine 0 1)).1) 2 1 = some ⟨.direct f0, false, none⟩ := by decide

/-- Frame: an op leaves every container it is not addressed to exactly as it was — in particular the operands of
    `combine` / `_clone` keep behaving as before whatever is done to the result, and vice versa. (The model has value
    semantics; that `_clone` / `combine` really copy the dictionaries is tied by the correspondence stream.) -/
theorem combine_frame (fuel : Nat) (ops : List Op) (op : Op) (j : Nat)
    (hj : j < (run fuel State.init ops).1.conts.length) (ht : op.target ≠ some j) :
    (step fuel (run fuel State.init ops).1 op).1.conts[j]? = (run fuel State.init ops).1.conts[j]? ∧
    ∀ s, look (abs (step fuel (run fuel State.init ops).1 op).1) j s = look (abs (run fuel State.init ops).1) j s := by
  have h := step_frame fuel _ op j hj ht
  refine ⟨h, fun s => ?_⟩
  simp only [look, abs, List.getElem?_map, h]

example :
    let ops : List Op := [.newDI, .on 0 (.bind s0 f0), .newDI, .combine 0 1]
    (2 < (run 5 State.init ops).1.conts.length) ∧
    (step 5 (run 5 State.init ops).1 (.on 2 (.rebind s0 f15))).1.conts[0]? = (run 5 State.init ops).1.conts[0]? := by decide

/-- A definition resolved in a clone is materialised there only: the original still holds the unresolved definition
    and, when asked later, creates an instance of its own (a younger one). -/
theorem lazy_materialise (fuel : Nat) (pre : List Op) (c : Nat) (r : SymRef) (e : SEntry) (o1 o2 : Obj)
    (he : look (abs (run fuel State.init pre).1) c r.accept = some e) (hl : e.lazy = true)
    (h1 : (step fuel (step fuel (run fuel State.init pre).1 (.clone c)).1
            (.on (run fuel State.init pre).1.conts.length (.resolve r))).2 = .obj o1) :
    look (abs (step fuel (step fuel (run fuel State.init pre).1 (.clone c)).1
            (.on (run fuel State.init pre).1.conts.length (.resolve r))).1) c r.accept = some e ∧
    ((step fuel (step fuel (step fuel (run fuel State.init pre).1 (.clone c)).1
            (.on (run fuel State.init pre).1.conts.length (.resolve r))).1 (.on c (.resolve r))).2 = .obj o2 →
      o1.id < o2.id) := by
  have w0 := reach_wf fuel pre
  have w1 := step_wf (fuel := fuel) w0 (.clone c)
  have w2 := step_wf (fuel := fuel) w1 (.on (run fuel State.init pre).1.conts.length (.resolve r))
  have hlen : (abs (run fuel State.init pre).1).conts.length = (run fuel State.init pre).1.conts.length := abs_length _
  rw [step_out w2, step_abs w1, step_abs w0]
  rw [step_out w1, step_abs w0] at h1
  rw [← hlen] at h1 ⊢
  exact spec_lazy_materialise fuel _ c r e o1 o2 he hl h1

example :
    let pre : List Op := [.newLazy [(0, .named 1 f0)]]
    look (abs (run 5 State.init pre).1) 0 0 = some ⟨.named 1 f0, true, none⟩ ∧
    (step 5 (step 5 (run 5 State.init pre).1 (.clone 0)).1 (.on 1 (.resolve s0))).2 = .obj ⟨0, 0, []⟩ ∧
    (step 5 (step 5 (step 5 (run 5 State.init pre).1 (.clone 0)).1 (.on 1 (.resolve s0))).1 (.on 0 (.resolve s0))).2
      = .obj ⟨1, 0, []⟩ := by decide

/-- Unknown symbols: when `can_resolve` answers False, `resolve` raises ValueError and changes nothing. -/
theorem unknown (fuel : Nat) (pre : List Op) (c : Nat) (r : SymRef)
    (h : (step (fuel + 1) (run (fuel + 1) State.init pre).1 (.on c (.can r))).2 = .bool false) :
    step (fuel + 1) (run (fuel + 1) State.init pre).1 (.on c (.resolve r)) = ((run (fuel + 1) State.init pre).1, .err .valueError) := by
  have w0 := reach_wf (fuel + 1) pre
  simp only [step] at h ⊢
  cases hc : (run (fuel + 1) State.init pre).1.conts[c]? with
  | none => simp [hc] at h
  | some k =>
    have hk : k.WF := w0 k (List.mem_of_getElem? hc)
    simp only [hc, stepCont, Out.bool.injEq] at h ⊢
    rw [resolve_unknown fuel k hk _ r h]
    simp [outObj, list_set_self _ _ _ hc]

example : (step 1 (run 1 State.init [.newLazy [(1, .direct f0)]]).1 (.on 0 (.can s0))).2 = .bool false := by decide

/-- ... and `invoke` of a factory whose first annotated parameter cannot be resolved, without remaining arguments, raises
    ValueError on the first call for its qualified name (in any state, reachable or not). -/
theorem unknown_invoke (fuel : Nat) (σ : State) (c : Nat) (k : Cont) (f : Factory) (q : Nat) (a : SymRef) (rest : List SymRef)
    (hk : σ.conts[c]? = some k) (hq : f.qual = some q) (hm : k.invocations.get? q = none)
    (hp : pluck f = a :: rest) (hc : k.canResolve a = false) :
    (step fuel σ (.on c (.invoke f []))).2 = .err .valueError := by
  have hc1 : Cont.canResolve { k with invocations := k.invocations.set q (a :: rest) } a = false := by
    simpa [Cont.canResolve, Cont.defined, Cont.innerBinded] using hc
  simp [step, hk, stepCont, invokeF, invokeWith, hq, hm, annosFor, hp, curryWith, hc1, assertInvoke, countAllow, outObj]

example :
    let σ := (run 3 State.init [.newDI]).1
    σ.conts[0]? = some { lazy := false } ∧ f18.qual = some 13 ∧ pluck f18 = [⟨tStr, false⟩] ∧
    (step 3 σ (.on 0 (.invoke f18 []))).2 = .err .valueError := by decide

/-- The invoke law: `invoke(factory, *args)` curries exactly the leading resolvable annotated parameters of the factory
    itself, raises ValueError unless the remaining arguments match the remaining annotated parameters one to one, and
    otherwise calls the factory (`fillStep`). -/
def invoke_fill_statement : Prop :=
  ∀ (fuel : Nat) (ops : List Op) (c : Nat) (f : Factory) (args : List Arg),
    (abs (step fuel (run fuel State.init ops).1 (.on c (.invoke f args))).1,
      (step fuel (run fuel State.init ops).1 (.on c (.invoke f args))).2)
    = fillStep fuel (abs (run fuel State.init ops).1) c f args

/-- FALSE, first way: the annotation cache is keyed by the qualified name (di.py:157-163), so the second closure of
    one `def` is curried with the first closure's annotations (here: with the instance of `S0` instead of `S1`). -/
theorem invoke_alias_counterexample : ¬ invoke_fill_statement := by
  intro h
  have := congrArg Prod.snd
    (h 5 [.newDI, .on 0 (.bind s0 f0), .on 0 (.bind s1 f15), .on 0 (.invoke f8 [])] 0 f9 [])
  revert this
  decide

/-- FALSE, second way: the signature check runs only on the first call per qualified name (di.py:171), so a later
    mismatched call (an `int` for `s: str`) returns an object instead of raising ValueError. -/
theorem invoke_second_counterexample : ¬ invoke_fill_statement := by
  intro h
  have := congrArg Prod.snd (h 5 [.newDI, .on 0 (.invoke f18 [⟨1, tStr⟩])] 0 f18 [⟨2, tInt⟩])
  revert this
  decide

/-- FALSE, third way: more remaining arguments than unresolved annotated parameters raise IndexError
    (`expect_types[index]`, di.py:215) instead of ValueError. -/
theorem invoke_extra_counterexample : ¬ invoke_fill_statement := by
  intro h
  have := congrArg Prod.snd (h 5 [.newDI] 0 f18 [⟨1, tStr⟩, ⟨2, tStr⟩])
  revert this
  decide

/-- The law holds for histories whose factories agree on their annotations per qualified name (`Coherent`), on every
    call for which the law does not demand ValueError (matching arities and classes) — and, ValueError included, on the
    first call per qualified name unless the code raises IndexError (surplus arguments). -/
theorem invoke_fill_partial (fuel : Nat) (ops : List Op) (c : Nat) (f : Factory) (args : List Arg) (fs : List Factory)
    (hco : Coherent fs) (hops : ∀ op ∈ ops, ∀ g ∈ op.facs, g ∈ fs) (hf : f ∈ fs) :
    ((fillStep fuel (abs (run fuel State.init ops).1) c f args).2 ≠ .err .valueError →
      (abs (step fuel (run fuel State.init ops).1 (.on c (.invoke f args))).1,
        (step fuel (run fuel State.init ops).1 (.on c (.invoke f args))).2)
      = fillStep fuel (abs (run fuel State.init ops).1) c f args) ∧
    ((∀ sc q, (abs (run fuel State.init ops).1).conts[c]? = some sc → f.qual = some q → sc.memo q = none) →
      (step fuel (run fuel State.init ops).1 (.on c (.invoke f args))).2 ≠ .err .indexError →
      (abs (step fuel (run fuel State.init ops).1 (.on c (.invoke f args))).1,
        (step fuel (run fuel State.init ops).1 (.on c (.invoke f args))).2)
      = fillStep fuel (abs (run fuel State.init ops).1) c f args) := by
  have w0 := reach_wf fuel ops
  have hg : SGood fs (abs (run fuel State.init ops).1) := by
    rw [run_abs init_wf]
    exact specRun_good hco fuel ops _ hops (init_good fs)
  obtain ⟨hA, hB⟩ := spec_invoke_fill fuel _ c f args fs hg hf
  rw [← (step_ok fuel _ (.on c (.invoke f args)) w0).2]
  exact ⟨hA, fun hm hne => hB hm (by rw [← step_out w0]; exact hne)⟩

/-- non-vacuity: a coherent universe (`f8` and `f18`; `f8`/`f9` together would not be), a history over it, a valid call:
    the law gives an object, and the hypotheses of both parts hold -/
example :
    let fs : List Factory := [f0, f8, f18]
    let ops : List Op := [.newDI, .on 0 (.bind s0 f0), .on 0 (.invoke f18 [⟨1, tStr⟩])]
    (∀ op ∈ ops, ∀ g ∈ op.facs, g ∈ fs) ∧
    (fillStep 5 (abs (run 5 State.init ops).1) 0 f8 []).2 = .obj ⟨2, 8, [.inst 1]⟩ ∧
    (step 5 (run 5 State.init ops).1 (.on 0 (.invoke f8 []))).2 = .obj ⟨2, 8, [.inst 1]⟩ := by decide

example : Coherent [f0, f8, f18] := by
  intro f hf g hg q h1 h2
  simp only [List.mem_cons, List.mem_nil_iff, or_false] at hf hg
  rcases hf with rfl | rfl | rfl <;> rcases hg with rfl | rfl | rfl <;> first | rfl | (simp [f0, f8, f18] at h1 h2; omega)

/-- Fuel is only a device: when the bindings of the history respect a rank (every annotated parameter of a factory
    bound to `s` ranks below `s` — an acyclic factory graph), resolution with more fuel than the rank of the symbol never
    runs out of fuel, i.e. RecursionError cannot occur (for histories whose factories agree on annotations per qualified
    name; a stale alias could otherwise send a factory to foreign parameters). Cyclic graphs are RecursionError in model
    and code alike (correspondence, corpus/C19/cycle-recursion.json). -/
theorem fuel_sufficient (fuel : Nat) (ops : List Op) (c : Nat) (fs : List Factory) (rk : Nat → Nat)
    (hco : Coherent fs) (hops : ∀ op ∈ ops, ∀ g ∈ op.facs, g ∈ fs) (hrk : ∀ op ∈ ops, op.BindsP (RankP rk)) :
    (∀ r, rk r.accept < fuel →
      (step fuel (run fuel State.init ops).1 (.on c (.resolve r))).2 ≠ .err .recursionError) ∧
    (∀ f args, f ∈ fs → (∀ a ∈ pluck f, rk a.accept < fuel) →
      (step fuel (run fuel State.init ops).1 (.on c (.invoke f args))).2 ≠ .err .recursionError) := by
  have w0 := reach_wf fuel ops
  have hg : SGood fs (abs (run fuel State.init ops).1) := by
    rw [run_abs init_wf]; exact specRun_good hco fuel ops _ hops (init_good fs)
  have hp : SEntsP (RankP rk) (abs (run fuel State.init ops).1) := by
    rw [run_abs init_wf]; exact specRun_entsP fuel ops _ hrk (init_entsP _)
  obtain ⟨h1, h2⟩ := spec_fuel_sufficient fuel _ c fs rk hco hg hp
  exact ⟨fun r hr => by rw [step_out w0]; exact h1 r hr, fun f args hf hr => by rw [step_out w0]; exact h2 f args hf hr⟩

/-- non-vacuity: `S1 ↦ K1(a: S0)`, `S0 ↦ K0()` is ranked by `rk s = s`; fuel 2 > rk S1 resolves, fuel 1 does not -/
example :
    let k1 : Factory := ⟨1, some 1, [some s0]⟩
    let ops : List Op := [.newDI, .on 0 (.bind s1 k1), .on 0 (.bind s0 f0)]
    (∀ op ∈ ops, op.BindsP (RankP (fun s => s))) ∧
    (step 2 (run 2 State.init ops).1 (.on 0 (.resolve s1))).2 = .obj ⟨1, 1, [.inst 0]⟩ ∧
    (step 1 (run 1 State.init ops).1 (.on 0 (.resolve s1))).2 = .err .recursionError := by
  refine ⟨?_, by decide, by decide⟩
  intro op hop
  simp only [List.mem_cons, List.mem_nil_iff, or_false] at hop
  rcases hop with rfl | rfl | rfl
  · trivial
  · intro a ha; simp [pluck, s0] at ha; subst ha; decide
  · intro a ha; simp [pluck, f0] at ha

end Tranp.C19
