/-
  Property C19 — The dependency container follows its simple reference model.
  Property theorems only; helper lemmas live in Tranp/Lemmas/DI.lean.
-/
import Tranp.Lemmas.DI
import Tranp.Lemmas.DIState
import Tranp.Lemmas.DIMethods
import Tranp.Generated.DIWiring
import Tranp.Generated.DIState

namespace Tranp.C19
open Tranp Tranp.DI Tranp.Generated.DIWiring

/-! ### witnesses used by the examples and counterexamples (the same factories as harness/c19.py) -/

def s0 : SymRef := ⟨0, false⟩
def s1 : SymRef := ⟨1, false⟩
def tStr : Nat := 100
def tInt : Nat := 101
/-- `class K0: def __init__(self)` -/
def f0 : Factory := ⟨0, 0, [], false⟩
/-- `class K15` without `__init__` -/
def f15 : Factory := ⟨15, 15, [], false⟩
/-- two closures of one `def clo(x: T_)`: same qualified name, two function objects, annotations `S0` / `S1` -/
def f8 : Factory := ⟨8, 8, [some s0], false⟩
def f9 : Factory := ⟨9, 9, [some s1], false⟩
/-- `def fn18(s: str)` -/
def f18 : Factory := ⟨18, 18, [some ⟨tStr, false⟩], false⟩

/-- Forward simulation: from every reachable state, every op changes the abstract state exactly as `specStep`
    prescribes and produces the same output. -/
theorem refine (fuel : Nat) (ops : List Op) (op : Op) :
    abs (step fuel (run fuel State.init ops).1 op).1 = (specStep fuel (abs (run fuel State.init ops).1) op).1 ∧
    (step fuel (run fuel State.init ops).1 op).2 = (specStep fuel (abs (run fuel State.init ops).1) op).2 := by
  obtain ⟨_, he⟩ := step_ok fuel _ op (reach_wf fuel ops)
  rw [he]; exact ⟨rfl, rfl⟩

/-- non-vacuity: a run that binds, resolves (twice), clones and combines; the Spec gives the same outputs -/
example :
    let ops : List Op := [.newDI, .on 0 (.bind s0 f0), .on 0 (.resolve s0), .on 0 (.resolve s0), .clone 0, .combine 0 1,
      .on 2 (.resolve s0)]
    (run 5 State.init ops).2 = [.cont 0, .ok, .obj ⟨0, 0, []⟩, .obj ⟨0, 0, []⟩, .cont 1, .cont 2, .obj ⟨0, 0, []⟩] ∧
    (specRun 5 Spec.init ops).2 = (run 5 State.init ops).2 := by
  decide

/-- Whole runs: the concrete dictionaries and the Spec produce the same outputs for every op sequence, and the
    final states are related by `abs`. -/
theorem run_refines (fuel : Nat) (ops : List Op) :
    specRun fuel Spec.init ops = (abs (run fuel State.init ops).1, (run fuel State.init ops).2) :=
  (run_ok fuel ops State.init init_wf).2

example : (specRun 3 Spec.init [.newLazy [(0, .named 1 f0)], .on 0 (.can s0), .on 0 (.resolve s0)]).2
    = [.cont 0, .bool true, .obj ⟨0, 0, []⟩] := by decide

/-- One instance per binding generation: after a resolve of `(c, r)` returned `o`, every later resolve of the same
    symbol (in any spelling, `Gen` or `Gen[A]`) on the same container returns the very same `o`, whatever happened in
    between on any container, as long as no bind / rebind / unbind of that symbol on that container intervened. -/
theorem singleton (fuel : Nat) (pre mid : List Op) (c : Nat) (r r' : SymRef) (o : Obj)
    (hr : r'.accept = r.accept) (hmid : ∀ op ∈ mid, touches c r.accept op = false)
    (h1 : (step fuel (run fuel State.init pre).1 (.on c (.resolve r))).2 = .obj o) :
    (step fuel (run fuel (step fuel (run fuel State.init pre).1 (.on c (.resolve r))).1 mid).1 (.on c (.resolve r'))).2
      = .obj o := by
  have w0 := reach_wf fuel pre
  have w1 := step_wf (fuel := fuel) w0 (.on c (.resolve r))
  have w2 := run_wf (fuel := fuel) w1 mid
  rw [step_out w2, run_abs w1, step_abs w0]
  rw [step_out w0] at h1
  exact spec_singleton fuel _ mid c r r' o hr hmid h1

example :
    let pre : List Op := [.newDI, .on 0 (.bind ⟨4, true⟩ f0)]
    let mid : List Op := [.clone 0, .on 1 (.rebind ⟨4, false⟩ f15), .on 1 (.resolve ⟨4, false⟩), .on 0 (.bind s0 f15), .on 0 (.resolve s0)]
    (step 5 (run 5 State.init pre).1 (.on 0 (.resolve ⟨4, false⟩))).2 = .obj ⟨0, 0, []⟩ ∧
    (∀ op ∈ mid, touches 0 4 op = false) ∧
    (step 5 (run 5 (step 5 (run 5 State.init pre).1 (.on 0 (.resolve ⟨4, false⟩))).1 mid).1 (.on 0 (.resolve ⟨4, true⟩))).2
      = .obj ⟨0, 0, []⟩ := by decide

/-- Re-binding discards the old instance: whatever is resolved for the symbol after a successful `rebind` (until the
    next bind / rebind / unbind of it) was created after the rebind and by the new factory. -/
theorem rebind_fresh (fuel : Nat) (pre mid : List Op) (c : Nat) (r r' : SymRef) (f : Factory) (o : Obj)
    (hr : r'.accept = r.accept) (hmid : ∀ op ∈ mid, touches c r.accept op = false)
    (h0 : (step fuel (run fuel State.init pre).1 (.on c (.rebind r f))).2 = .ok)
    (h : (step fuel (run fuel (step fuel (run fuel State.init pre).1 (.on c (.rebind r f))).1 mid).1 (.on c (.resolve r'))).2
      = .obj o) :
    (run fuel State.init pre).1.next ≤ o.id ∧ o.fid = f.fid := by
  have w0 := reach_wf fuel pre
  have w1 := step_wf (fuel := fuel) w0 (.on c (.rebind r f))
  have w2 := run_wf (fuel := fuel) w1 mid
  rw [step_out w2, run_abs w1, step_abs w0] at h
  rw [step_out w0] at h0
  exact spec_rebind_fresh fuel _ mid c r r' f o hr hmid h0 h

example :
    let pre : List Op := [.newDI, .on 0 (.bind s0 f0), .on 0 (.resolve s0)]
    (run 5 State.init pre).1.next = 1 ∧
    (step 5 (run 5 State.init pre).1 (.on 0 (.rebind s0 f15))).2 = .ok ∧
    (step 5 (run 5 (step 5 (run 5 State.init pre).1 (.on 0 (.rebind s0 f15))).1 [.on 0 (.can s0)]).1 (.on 0 (.resolve s0))).2
      = .obj ⟨1, 15, []⟩ := by decide

/-- `combine a b`: for every symbol the result holds `b`'s entry (binding *and* instance) if `b` can resolve it,
    otherwise `a`'s — for every history (repaired by 6d5a231; before, a left instance / a left materialised binding
    could survive). -/
theorem combine_right (fuel : Nat) (ops : List Op) (a b k : Nat)
    (hk : (step fuel (run fuel State.init ops).1 (.combine a b)).2 = .cont k) :
    ∀ s, look (abs (step fuel (run fuel State.init ops).1 (.combine a b)).1) k s =
      preferRight (look (abs (run fuel State.init ops).1) a s) (look (abs (run fuel State.init ops).1) b s) := by
  have w0 := reach_wf fuel ops
  rw [step_out w0] at hk
  rw [step_abs w0]
  obtain ⟨sa, sb, ha, hb, hl⟩ := specStep_combine_look fuel _ a b k hk
  intro s
  rw [hl s]
  simp [look, ha, hb]

/-- regression witness 1 (plain DI, corpus/C19/combine-left-instance.json): `b` binds the symbol without having resolved
    it, `a` has an instance — the result holds `b`'s binding *without* instance -/
example :
    let ops : List Op := [.newDI, .on 0 (.bind s0 f0), .on 0 (.resolve s0), .newDI, .on 1 (.bind s0 f15)]
    (step 5 (run 5 State.init ops).1 (.combine 0 1)).2 = .cont 2 ∧
    look (abs (step 5 (run 5 State.init ops).1 (.combine 0 1)).1) 2 0 = some ⟨.direct f15, false, none⟩ := by decide

/-- regression witness 2 (LazyDI, corpus/C19/combine-left-materialised-vs-right-lazy.json): `b` only defines the symbol,
    `a` has materialised it — the result holds `b`'s unresolved definition -/
example :
    let ops : List Op := [.newLazy [(0, .direct f0)], .on 0 (.resolve s0), .newLazy [(0, .named 12 f15)]]
    (step 5 (run 5 State.init ops).1 (.combine 0 1)).2 = .cont 2 ∧
    look (abs (step 5 (run 5 State.init ops).1 (.combine 0 1)).1) 2 0 = some ⟨.named 12 f15, true, none⟩ ∧
    (step 5 (step 5 (run 5 State.init ops).1 (.combine 0 1)).1 (.on 2 (.resolve s0))).2 = .obj ⟨1, 15, []⟩ := by decide

/-- Frame: an op leaves every container it is not addressed to exactly as it was — in particular the operands of
    `combine` / `_clone` keep behaving as before whatever is done to the result, and vice versa. (The model has value
    semantics; that `_clone` / `combine` really copy the dictionaries is tied by the correspondence stream.) -/
theorem combine_frame (fuel : Nat) (ops : List Op) (op : Op) (j : Nat)
    (hj : j < (run fuel State.init ops).1.conts.length) (ht : op.target ≠ some j) :
    (step fuel (run fuel State.init ops).1 op).1.conts[j]? = (run fuel State.init ops).1.conts[j]? ∧
    ∀ s, look (abs (step fuel (run fuel State.init ops).1 op).1) j s = look (abs (run fuel State.init ops).1) j s := by
  have h := step_frame fuel _ op j hj ht
  refine ⟨h, fun s => ?_⟩
  simp only [look, abs, List.getElem?_map, h]

example :
    let ops : List Op := [.newDI, .on 0 (.bind s0 f0), .newDI, .combine 0 1]
    (2 < (run 5 State.init ops).1.conts.length) ∧
    (step 5 (run 5 State.init ops).1 (.on 2 (.rebind s0 f15))).1.conts[0]? = (run 5 State.init ops).1.conts[0]? := by decide

/-- A definition resolved in a clone is materialised there only: the original still holds the unresolved definition
    and, when asked later, creates an instance of its own (a younger one). -/
theorem lazy_materialise (fuel : Nat) (pre : List Op) (c : Nat) (r : SymRef) (e : SEntry) (o1 o2 : Obj)
    (he : look (abs (run fuel State.init pre).1) c r.accept = some e) (hl : e.lazy = true)
    (h1 : (step fuel (step fuel (run fuel State.init pre).1 (.clone c)).1
            (.on (run fuel State.init pre).1.conts.length (.resolve r))).2 = .obj o1) :
    look (abs (step fuel (step fuel (run fuel State.init pre).1 (.clone c)).1
            (.on (run fuel State.init pre).1.conts.length (.resolve r))).1) c r.accept = some e ∧
    ((step fuel (step fuel (step fuel (run fuel State.init pre).1 (.clone c)).1
            (.on (run fuel State.init pre).1.conts.length (.resolve r))).1 (.on c (.resolve r))).2 = .obj o2 →
      o1.id < o2.id) := by
  have w0 := reach_wf fuel pre
  have w1 := step_wf (fuel := fuel) w0 (.clone c)
  have w2 := step_wf (fuel := fuel) w1 (.on (run fuel State.init pre).1.conts.length (.resolve r))
  have hlen : (abs (run fuel State.init pre).1).conts.length = (run fuel State.init pre).1.conts.length := abs_length _
  rw [step_out w2, step_abs w1, step_abs w0]
  rw [step_out w1, step_abs w0] at h1
  rw [← hlen] at h1 ⊢
  exact spec_lazy_materialise fuel _ c r e o1 o2 he hl h1

example :
    let pre : List Op := [.newLazy [(0, .named 1 f0)]]
    look (abs (run 5 State.init pre).1) 0 0 = some ⟨.named 1 f0, true, none⟩ ∧
    (step 5 (step 5 (run 5 State.init pre).1 (.clone 0)).1 (.on 1 (.resolve s0))).2 = .obj ⟨0, 0, []⟩ ∧
    (step 5 (step 5 (step 5 (run 5 State.init pre).1 (.clone 0)).1 (.on 1 (.resolve s0))).1 (.on 0 (.resolve s0))).2
      = .obj ⟨1, 0, []⟩ := by decide

/-- Unknown symbols: when `can_resolve` answers False, `resolve` raises ValueError and changes nothing. -/
theorem unknown (fuel : Nat) (pre : List Op) (c : Nat) (r : SymRef)
    (h : (step (fuel + 1) (run (fuel + 1) State.init pre).1 (.on c (.can r))).2 = .bool false) :
    step (fuel + 1) (run (fuel + 1) State.init pre).1 (.on c (.resolve r)) = ((run (fuel + 1) State.init pre).1, .err .valueError) := by
  have w0 := reach_wf (fuel + 1) pre
  simp only [step] at h ⊢
  cases hc : (run (fuel + 1) State.init pre).1.conts[c]? with
  | none => simp [hc] at h
  | some k =>
    have hk : k.WF := w0 k (List.mem_of_getElem? hc)
    simp only [hc, stepCont, Out.bool.injEq] at h ⊢
    rw [resolve_unknown fuel k hk _ r h]
    simp [outObj, list_set_self _ _ _ hc]

example : (step 1 (run 1 State.init [.newLazy [(1, .direct f0)]]).1 (.on 0 (.can s0))).2 = .bool false := by decide

/-- nested classes (`Reader.Setting` = 500, `Writer.Setting` = 501) are different symbols with different paths: binding
    one leaves the other unknown; a LazyDI *definition* of a nested class can be seen but never materialised, because its
    path is not an import path (`load_module_path` raises ModuleNotFoundError) -/
example :
    (run 3 State.init [.newLazy [(501, .direct f15)], .on 0 (.bind ⟨500, false⟩ f0), .on 0 (.can ⟨500, false⟩),
      .on 0 (.resolve ⟨500, false⟩), .on 0 (.can ⟨501, false⟩), .on 0 (.resolve ⟨501, false⟩), .on 0 (.unbind ⟨501, false⟩),
      .on 0 (.resolve ⟨500, false⟩), .on 0 (.resolve ⟨501, false⟩)]).2
    = [.cont 0, .ok, .bool true, .obj ⟨0, 0, []⟩, .bool true, .err .moduleNotFound, .ok, .obj ⟨0, 0, []⟩, .err .valueError] := by
  decide

/-- ... and `invoke` of a factory whose first annotated parameter cannot be resolved, without remaining arguments,
    raises ValueError — on every call. -/
theorem unknown_invoke (fuel : Nat) (pre : List Op) (c : Nat) (f : Factory) (a : SymRef) (rest : List SymRef)
    (hp : pluck f = a :: rest)
    (hc : (step fuel (run fuel State.init pre).1 (.on c (.can a))).2 = .bool false) :
    (step fuel (run fuel State.init pre).1 (.on c (.invoke f []))).2 = .err .valueError := by
  have w0 := reach_wf fuel pre
  rw [step_out w0] at hc ⊢
  simp only [specStep] at hc ⊢
  cases hk : (abs (run fuel State.init pre).1).conts[c]? with
  | none => simp [hk] at hc
  | some sc =>
    simp only [hk, sStepCont, Out.bool.injEq] at hc ⊢
    simp [sInvokeF, sInvokeFill, hp, sCurryWith, hc, validateFill, outObj]

example :
    pluck f18 = [⟨tStr, false⟩] ∧
    (step 3 (run 3 State.init [.newDI, .on 0 (.invoke f18 [⟨1, tStr⟩])]).1 (.on 0 (.can ⟨tStr, false⟩))).2 = .bool false ∧
    (step 3 (run 3 State.init [.newDI, .on 0 (.invoke f18 [⟨1, tStr⟩])]).1 (.on 0 (.invoke f18 []))).2 = .err .valueError := by
  decide

/-- The invoke law, for every history: `invoke(factory, *args)` curries exactly the leading resolvable annotated
    parameters of the factory itself, raises ValueError unless the remaining arguments match the remaining annotated
    parameters one to one, and otherwise calls the factory (`fillStep` / `sInvokeFill`). The annotation cache of the code
    is invisible (repaired by c3fd82c; before, the cache was keyed by the qualified name, validation ran once per name,
    and surplus arguments raised IndexError). -/
theorem invoke_fill (fuel : Nat) (ops : List Op) (c : Nat) (f : Factory) (args : List Arg) :
    (abs (step fuel (run fuel State.init ops).1 (.on c (.invoke f args))).1,
      (step fuel (run fuel State.init ops).1 (.on c (.invoke f args))).2)
    = fillStep fuel (abs (run fuel State.init ops).1) c f args := by
  have w0 := reach_wf fuel ops
  rw [← (step_ok fuel _ (.on c (.invoke f args)) w0).2]
  exact spec_invoke_fill fuel _ c f args

/-- regression witness 1 (corpus/C19/invoke-qualname-alias.json): the second closure of one `def` is curried with the
    instance of *its own* annotation `S1` (object 2), not with the first closure's `S0` (object 0) -/
example :
    (run 5 State.init [.newDI, .on 0 (.bind s0 f0), .on 0 (.bind s1 f15), .on 0 (.invoke f8 []), .on 0 (.invoke f9 [])]).2
      = [.cont 0, .ok, .ok, .obj ⟨1, 8, [.inst 0]⟩, .obj ⟨3, 9, [.inst 2]⟩] := by decide

/-- regression witness 2 (corpus/C19/invoke-second-call-unchecked.json): a later mismatched call raises ValueError -/
example :
    (run 5 State.init [.newDI, .on 0 (.invoke f18 [⟨1, tStr⟩]), .on 0 (.invoke f18 [⟨2, tInt⟩])]).2
      = [.cont 0, .obj ⟨0, 18, [.ext 1]⟩, .err .valueError] := by decide

/-- regression witness 3 (corpus/C19/invoke-surplus-args-indexerror.json): surplus arguments raise ValueError -/
example :
    (run 5 State.init [.newDI, .on 0 (.invoke f18 [⟨1, tStr⟩, ⟨2, tStr⟩])]).2 = [.cont 0, .err .valueError] := by decide

/-- Fuel is only a device: when the bindings of the history respect a rank (every annotated parameter of a factory
    bound to `s` ranks below `s` — an acyclic factory graph), resolution with more fuel than the rank of the symbol never
    runs out of fuel, i.e. RecursionError cannot occur. Cyclic graphs are RecursionError in model and code alike
    (correspondence, corpus/C19/cycle-recursion.json). -/
theorem fuel_sufficient (fuel : Nat) (ops : List Op) (c : Nat) (rk : Nat → Nat)
    (hrk : ∀ op ∈ ops, op.BindsP (RankP rk)) :
    (∀ r, rk r.accept < fuel →
      (step fuel (run fuel State.init ops).1 (.on c (.resolve r))).2 ≠ .err .recursionError) ∧
    (∀ f args, (∀ a ∈ pluck f, rk a.accept < fuel) →
      (step fuel (run fuel State.init ops).1 (.on c (.invoke f args))).2 ≠ .err .recursionError) := by
  have w0 := reach_wf fuel ops
  have hp : SEntsP (RankP rk) (abs (run fuel State.init ops).1) := by
    rw [run_abs init_wf]; exact specRun_entsP fuel ops _ hrk (init_entsP _)
  obtain ⟨h1, h2⟩ := spec_fuel_sufficient fuel _ c rk hp
  exact ⟨fun r hr => by rw [step_out w0]; exact h1 r hr, fun f args hr => by rw [step_out w0]; exact h2 f args hr⟩

/-- non-vacuity: `S1 ↦ K1(a: S0)`, `S0 ↦ K0()` is ranked by `rk s = s`; fuel 2 > rk S1 resolves, fuel 1 does not -/
example :
    let k1 : Factory := ⟨1, 1, [some s0], false⟩
    let ops : List Op := [.newDI, .on 0 (.bind s1 k1), .on 0 (.bind s0 f0)]
    (∀ op ∈ ops, op.BindsP (RankP (fun s => s))) ∧
    (step 2 (run 2 State.init ops).1 (.on 0 (.resolve s1))).2 = .obj ⟨1, 1, [.inst 0]⟩ ∧
    (step 1 (run 1 State.init ops).1 (.on 0 (.resolve s1))).2 = .err .recursionError := by
  refine ⟨?_, by decide, by decide⟩
  intro op hop
  simp only [List.mem_cons, List.mem_nil_iff, or_false] at hop
  rcases hop with rfl | rfl | rfl
  · trivial
  · intro a ha; simp [pluck, pluckA, Factory.annotated, s0] at ha; subst ha; decide
  · intro a ha; simp [pluck, pluckA, Factory.annotated, f0] at ha

/-! ### factories whose body raises -/

/-- `invoke` of a factory whose body raises never returns an object and creates none (the instance counter only moves
    for the dependencies that were resolved on the way) -/
theorem invoke_raising (fuel : Nat) (ops : List Op) (c : Nat) (f : Factory) (args : List Arg) (o : Obj) (hf : f.raises = true) :
    (step fuel (run fuel State.init ops).1 (.on c (.invoke f args))).2 ≠ .obj o := by
  have w0 := reach_wf fuel ops
  rw [step_out w0]
  simp only [specStep]
  cases (abs (run fuel State.init ops).1).conts[c]? with
  | none => simp
  | some sc =>
    simp only [sStepCont, sInvokeF]
    cases hres : (sInvokeFill (sResolveF fuel) sc (abs (run fuel State.init ops).1).next f args).2.2 with
    | error e => simp [outObj, hres]
    | ok o' => exact absurd hres (sInvokeFill_raising (sResolveF fuel) sc _ f args hf o')

/-- `resolve` of a symbol bound (or lazily defined) to a factory whose body raises: the call fails, *nothing is stored
    for the symbol* and its binding stays — so the next resolve calls the factory again, at any nesting depth and
    whatever else the failed attempt resolved on the way. -/
theorem resolve_raising (fuel : Nat) (ops : List Op) (c : Nat) (r : SymRef) (e : SEntry) (f : Factory) (o : Obj)
    (he : look (abs (run fuel State.init ops).1) c r.accept = some e) (hi : e.inst = none) (hl : e.inj.load = .ok f)
    (hf : f.raises = true) :
    (step fuel (run fuel State.init ops).1 (.on c (.resolve r))).2 ≠ .obj o ∧
    ∃ e', look (abs (step fuel (run fuel State.init ops).1 (.on c (.resolve r))).1) c r.accept = some e' ∧
      e'.inst = none ∧ e'.inj.load = .ok f := by
  have w0 := reach_wf fuel ops
  rw [step_out w0, step_abs w0]
  simp only [specStep]
  cases hc : (abs (run fuel State.init ops).1).conts[c]? with
  | none => simp [look, hc] at he
  | some sc =>
    have hsc : sc.ents r.accept = some e := by simpa [look, hc] using he
    obtain ⟨hq, hno⟩ := sResolveF_Q (s := r.accept) hf fuel sc (abs (run fuel State.init ops).1).next r ⟨e, hsc, hi, hl⟩
    simp only [sStepCont]
    rcases hres : sResolveF fuel sc (abs (run fuel State.init ops).1).next r with ⟨sc', nx', res⟩
    rw [hres] at hq hno
    constructor
    · cases res with
      | error err => simp [outObj]
      | ok o' => exact absurd rfl (hno rfl o')
    · obtain ⟨e', h1, h2, h3⟩ := hq
      exact ⟨e', by rw [look_set_self _ c sc _ _ _ hc]; exact h1, h2, h3⟩

/-- non-vacuity and the retry: `S1 ↦ k(a: S0)` whose body raises, `S0 ↦ K0`; the first resolve creates the `S0` instance and
    fails, the second fails again (the factory is called again), the instance of `S0` is there; a lazily defined raising
    factory is materialised and fails alike; after a rebind to a healthy factory the symbol resolves -/
example :
    let k : Factory := ⟨30, 30, [some s0], true⟩
    (run 4 State.init [.newLazy [(2, .named 7 k)], .on 0 (.bind s0 f0), .on 0 (.bind s1 k), .on 0 (.resolve s1), .on 0 (.resolve s1),
      .on 0 (.resolve s0), .on 0 (.resolve ⟨2, false⟩), .on 0 (.invoke k []), .on 0 (.rebind s1 f15), .on 0 (.resolve s1)]).2
    = [.cont 0, .ok, .ok, .err .notImplemented, .err .notImplemented, .obj ⟨0, 0, []⟩, .err .notImplemented, .err .notImplemented,
       .ok, .obj ⟨1, 15, []⟩] := by decide

/-! ### how tranp uses the container: one shared container, one combined container per module
    (providers/app.py `di_container`, providers/syntax/entrypoints.py `handler`) -/

/-- Sharing happens at combine time: an instance the left operand holds for a symbol the right operand does not know is
    the instance the combined container returns — and the left operand keeps returning it too. This is the law
    production relies on: `handler` resolves SyntaxParser / CacheProvider / SymbolMapping in the shared container
    *before* `shared_di.combine(dependency_di)`. -/
theorem combine_shares (fuel : Nat) (ops mid : List Op) (a b k x : Nat) (e : SEntry) (o : Obj) (f : Factory) (r : SymRef)
    (hk : (step (fuel + 1) (run (fuel + 1) State.init ops).1 (.combine a b)).2 = .cont k)
    (ha : look (abs (run (fuel + 1) State.init ops).1) a x = some e) (hl : e.lazy = false) (hi : e.inst = some o)
    (hf : e.inj.load = .ok f) (hb : look (abs (run (fuel + 1) State.init ops).1) b x = none)
    (hmid : ∀ op ∈ mid, touches k x op = false ∧ touches a x op = false) (hr : r.accept = x) :
    (step (fuel + 1) (run (fuel + 1) (step (fuel + 1) (run (fuel + 1) State.init ops).1 (.combine a b)).1 mid).1
      (.on k (.resolve r))).2 = .obj o ∧
    (step (fuel + 1) (run (fuel + 1) (step (fuel + 1) (run (fuel + 1) State.init ops).1 (.combine a b)).1 mid).1
      (.on a (.resolve r))).2 = .obj o := by
  have w0 := reach_wf (fuel + 1) ops
  have w1 := step_wf (fuel := fuel + 1) w0 (.combine a b)
  have w2 := run_wf (fuel := fuel + 1) w1 mid
  have hlk := combine_right (fuel + 1) ops a b k hk x
  rw [ha, hb] at hlk
  have hlt : a < (run (fuel + 1) State.init ops).1.conts.length := by
    have := look_lt ha; rwa [abs_length] at this
  have hla := (combine_frame (fuel + 1) ops (.combine a b) a hlt (by simp [Op.target])).2 x
  rw [ha] at hla
  rw [step_out w2, step_out w2, run_abs w1]
  exact ⟨spec_inst_persists fuel _ mid k x e o f r hlk hl hi hf (fun op h => (hmid op h).1) hr,
    spec_inst_persists fuel _ mid a x e o f r hla hl hi hf (fun op h => (hmid op h).2) hr⟩

/-- ... and only then: two slots in different containers never come to hold the same instance unless they did already.
    In particular an instance the shared container creates *after* the combine is not the one the combined container
    creates for the same symbol (and vice versa), and module-local symbols get one instance per module container.
    (Production does not rely on late sharing: the op log of real module loads resolves through a per-module container
    only symbols that are module-local or were resolved in the shared container before — stream `di-production`.) -/
theorem distinct_instances (fuel : Nat) (ops mid : List Op) (c1 c2 x1 x2 : Nat) (o1 o2 : Obj) (hne : c1 ≠ c2)
    (h1 : c1 < (run fuel State.init ops).1.conts.length) (h2 : c2 < (run fuel State.init ops).1.conts.length)
    (hempty : instOf (abs (run fuel State.init ops).1) c2 x2 = none)
    (ho1 : instOf (abs (run fuel (run fuel State.init ops).1 mid).1) c1 x1 = some o1)
    (ho2 : instOf (abs (run fuel (run fuel State.init ops).1 mid).1) c2 x2 = some o2) : o1.id ≠ o2.id := by
  have w0 := reach_wf fuel ops
  have hb : SpecB (abs (run fuel State.init ops).1) := by
    rw [run_abs init_wf]; exact specRun_bounded fuel ops _ init_bounded
  rw [run_abs w0] at ho1 ho2
  exact specRun_distinct fuel mid _ c1 c2 x1 x2 hne (by rw [abs_length]; exact h1) (by rw [abs_length]; exact h2) hb
    (fun o1 o2 _ h => by rw [hempty] at h; cases h) o1 o2 ho1 ho2

/-- the link between observations and slots: what a successful resolve returns is what the slot holds afterwards -/
theorem resolve_instOf (fuel : Nat) (ops : List Op) (c : Nat) (r : SymRef) (o : Obj)
    (h : (step fuel (run fuel State.init ops).1 (.on c (.resolve r))).2 = .obj o) :
    instOf (abs (step fuel (run fuel State.init ops).1 (.on c (.resolve r))).1) c r.accept = some o := by
  have w0 := reach_wf fuel ops
  rw [step_out w0] at h
  rw [step_abs w0]
  exact specStep_resolve_instOf fuel _ c r o h

/-- Module-local symbols never leak: a symbol a container does not know stays unknown to it (can_resolve False, hence
    ValueError by `unknown`) whatever is resolved, invoked, cloned or combined anywhere, until somebody binds it there.
    The shared container never learns Entry / Query / NodeResolver / Entrypoint / ModulePath. -/
theorem no_leak (fuel : Nat) (ops mid : List Op) (c x : Nat) (r : SymRef) (hr : r.accept = x)
    (hc : c < (run fuel State.init ops).1.conts.length) (he : look (abs (run fuel State.init ops).1) c x = none)
    (hmid : ∀ op ∈ mid, touches c x op = false) :
    look (abs (run fuel (run fuel State.init ops).1 mid).1) c x = none ∧
    (step fuel (run fuel (run fuel State.init ops).1 mid).1 (.on c (.can r))).2 = .bool false := by
  have w0 := reach_wf fuel ops
  have w1 := run_wf (fuel := fuel) w0 mid
  have hn : look (abs (run fuel (run fuel State.init ops).1 mid).1) c x = none := by
    rw [run_abs w0]
    exact specRun_none fuel mid _ c x (by rw [abs_length]; exact hc) hmid he
  refine ⟨hn, ?_⟩
  rw [step_out w1]
  simp only [specStep]
  cases hk : (abs (run fuel (run fuel State.init ops).1 mid).1).conts[c]? with
  | none =>
    exfalso
    have hlen := specRun_length_le fuel mid (abs (run fuel State.init ops).1)
    rw [← run_abs w0] at hlen
    have : c < (abs (run fuel (run fuel State.init ops).1 mid).1).conts.length := by
      rw [abs_length] at hlen ⊢; rw [abs_length] at hlen; omega
    rw [List.getElem?_eq_getElem this] at hk; cases hk
  | some sc =>
    have : sc.ents x = none := by simpa [look, hk] using hn
    simp [sStepCont, SCont.canResolve, hr, this]

theorem invokerFactory_inj (j k : Nat) (h : (invokerFactory j).fid = (invokerFactory k).fid) : j = k := by
  simp only [invokerFactory] at h; omega

/-- `Invoker` (and likewise `Locator`) resolved through a per-module container refers to that container, not to the
    shared one: `handler` re-binds both to closures over `new_di` right after the combine, and whatever is resolved for a
    symbol after a rebind was made by the new factory. (Without those two lines the module container would hand out
    the shared container's `invoke` — `combine_shares` — and `invoker(Node, …)` would look module-local symbols up in
    the shared container, which does not know them — `no_leak`.) -/
theorem module_invoker_local (fuel : Nat) (pre mid : List Op) (R : Roles) (s n : Nat) (deps : List (Nat × Injector))
    (mp : Factory) (r : SymRef) (o : Obj) (hr : r.accept = R.invoker) (hmp : R.modulePath ≠ R.invoker)
    (hmid : ∀ op ∈ mid, touches (n + 1) R.invoker op = false)
    (h0 : (step fuel (run fuel State.init (pre ++ R.preResolved.map (fun x => Op.on s (.resolve ⟨x, false⟩)) ++
        [.newLazy deps, .combine s n, .on (n + 1) (.rebind ⟨R.locator, false⟩ (locatorFactory (n + 1)))])).1
        (.on (n + 1) (.rebind ⟨R.invoker, false⟩ (invokerFactory (n + 1))))).2 = .ok)
    (h : (step fuel (run fuel State.init (pre ++ loadModuleOps R s n deps mp ++ mid)).1 (.on (n + 1) (.resolve r))).2 = .obj o) :
    o.fid = (invokerFactory (n + 1)).fid ∧ (s ≠ n + 1 → o.fid ≠ (invokerFactory s).fid) := by
  have hsplit : pre ++ loadModuleOps R s n deps mp ++ mid =
      (pre ++ R.preResolved.map (fun x => Op.on s (.resolve ⟨x, false⟩)) ++
        [.newLazy deps, .combine s n, .on (n + 1) (.rebind ⟨R.locator, false⟩ (locatorFactory (n + 1)))]) ++
      [.on (n + 1) (.rebind ⟨R.invoker, false⟩ (invokerFactory (n + 1)))] ++
      ([.on (n + 1) (.bind ⟨R.modulePath, false⟩ mp), .on (n + 1) (.resolve ⟨R.entrypoint, false⟩)] ++ mid) := by
    simp [loadModuleOps]
  rw [hsplit, run_append, run_snoc] at h
  have hmid' : ∀ op ∈ [Op.on (n + 1) (.bind ⟨R.modulePath, false⟩ mp), .on (n + 1) (.resolve ⟨R.entrypoint, false⟩)] ++ mid,
      touches (n + 1) (SymRef.mk R.invoker false).accept op = false := by
    intro op hop
    simp only [List.cons_append, List.nil_append, List.mem_cons] at hop
    rcases hop with rfl | rfl | hop
    · simp [touches, SymRef.accept, hmp]
    · rfl
    · exact hmid op hop
  obtain ⟨_, hfid⟩ := rebind_fresh fuel _ _ (n + 1) ⟨R.invoker, false⟩ r (invokerFactory (n + 1)) o hr hmid' h0 h
  exact ⟨hfid, fun hs he => hs (invokerFactory_inj _ _ (by rw [← he, hfid])).symm⟩

/-! a miniature of production: shared container with a parser (symbol 0, pre-resolved) and another shared symbol 5 that
    is *not* pre-resolved; per-module dependencies Entry (1, needs ModulePath 12 and the parser), Query (2, needs Invoker
    11 and Entry), Entrypoint (3, needs Query); two module loads -/

def miniR : Roles := ⟨10, 11, 12, 3, [0]⟩
def miniDefs : List (Nat × Injector) := [(0, .named 1 f0), (5, .named 2 f15)]
def miniDeps : List (Nat × Injector) :=
  [(1, .named 3 ⟨21, 21, [some ⟨12, false⟩, some ⟨0, false⟩], false⟩), (2, .named 4 ⟨22, 22, [some ⟨11, false⟩, some ⟨1, false⟩], false⟩),
   (3, .named 5 ⟨23, 23, [some ⟨2, true⟩], false⟩)]
def miniOps : List Op :=
  diContainerOps miniR 0 miniDefs ++ loadModuleOps miniR 0 1 miniDeps ⟨31, 31, [], false⟩ ++ loadModuleOps miniR 0 3 miniDeps ⟨32, 32, [], false⟩

/-- two loads succeed; module containers are 2 and 4; both entrypoints are built from their own Query / Entry / Invoker -/
example : (run 8 State.init miniOps).2 =
    [.cont 0, .ok, .ok,
     .obj ⟨0, 0, []⟩, .cont 1, .cont 2, .ok, .ok, .ok, .obj ⟨5, 23, [.inst 4]⟩,
     .obj ⟨0, 0, []⟩, .cont 3, .cont 4, .ok, .ok, .ok, .obj ⟨10, 23, [.inst 9]⟩] := by decide

/-- the pre-resolved parser is one object for the shared container and both modules; Entry is one object per module;
    each module's Invoker closes over its own container; the shared container does not know Entry -/
example :
    let σ := (run 8 State.init miniOps).1
    (step 8 σ (.on 2 (.resolve s0))).2 = .obj ⟨0, 0, []⟩ ∧ (step 8 σ (.on 4 (.resolve s0))).2 = .obj ⟨0, 0, []⟩ ∧
    (step 8 σ (.on 2 (.resolve s1))).2 = .obj ⟨3, 21, [.inst 2, .inst 0]⟩ ∧
    (step 8 σ (.on 4 (.resolve s1))).2 = .obj ⟨8, 21, [.inst 7, .inst 0]⟩ ∧
    (step 8 σ (.on 2 (.resolve ⟨11, false⟩))).2 = .obj ⟨1, (invokerFactory 2).fid, []⟩ ∧
    (step 8 σ (.on 4 (.resolve ⟨11, false⟩))).2 = .obj ⟨6, (invokerFactory 4).fid, []⟩ ∧
    (step 8 σ (.on 0 (.can s1))).2 = .bool false := by decide

/-- the law that does NOT hold (and that production does not use): shared symbol 5 is resolved first through module
    container 2, then in the shared container, then through module container 4 — three different objects -/
example :
    (run 8 (run 8 State.init miniOps).1 [.on 2 (.resolve ⟨5, false⟩), .on 0 (.resolve ⟨5, false⟩), .on 4 (.resolve ⟨5, false⟩)]).2
      = [.obj ⟨11, 15, []⟩, .obj ⟨12, 15, []⟩, .obj ⟨13, 15, []⟩] := by decide

/-! ### the shipped wiring (GENERATED: Tranp/Generated/DIWiring.lean from app/config.py, providers/app.py,
    providers/syntax/entrypoints.py on every run) -/

/-- the generated statement lists of `di_container` / `handler` are the derived operations the isolation theorems speak about -/
theorem production_wiring (s n : Nat) (mp : Factory) :
    diContainerGen n prodDefs = diContainerOps prodRoles n prodDefs ∧
    handlerGen s n prodDeps mp = loadModuleOps prodRoles s n prodDeps mp := ⟨rfl, rfl⟩

/-- symbols a table binds -/
def keysOf (t : List (Nat × Injector)) : List Nat := t.map (·.1)

/-- every annotated parameter of every factory in `t` is a symbol of `bound` -/
def closedIn (t : List (Nat × Injector)) (bound : List Nat) : Bool :=
  t.all fun kv => kv.2.facs.all fun f => (pluck f).all fun a => bound.contains a.accept

/-- the shipped wiring is closed: every annotated parameter of every shared factory is bound in the shared container,
    every annotated parameter of every per-module factory is bound in a module container; and the per-module symbols
    (and ModulePath) are disjoint from the shared ones — the side condition under which combine was safe even before 6d5a231 -/
theorem production_closed :
    closedIn prodDefs (prodRoles.locator :: prodRoles.invoker :: keysOf prodDefs) = true ∧
    closedIn prodDeps (prodRoles.locator :: prodRoles.invoker :: prodRoles.modulePath :: (keysOf prodDeps ++ keysOf prodDefs)) = true ∧
    (prodDefs.all fun kv => !(keysOf prodDeps).contains kv.1 && kv.1 != prodRoles.modulePath) = true := by
  decide +kernel

/-- the production dependency graph is acyclic: the generated rank certificate is respected by every binding `di_container`
    and `handler` make, on any heap and for any shared container -/
theorem production_acyclic (s n : Nat) (mp : Factory) (hmp : mp.params = []) :
    (∀ op ∈ diContainerOps prodRoles n prodDefs, op.BindsP (RankP prodRank)) ∧
    (∀ op ∈ loadModuleOps prodRoles s n prodDeps mp, op.BindsP (RankP prodRank)) := by
  have h1 : rankedB prodRank prodDefs = true := by decide +kernel
  have h2 : rankedB prodRank prodDeps = true := by decide +kernel
  constructor
  · intro op hop
    simp only [diContainerOps, List.mem_cons, List.mem_nil_iff, or_false] at hop
    rcases hop with rfl | rfl | rfl
    · exact rankedB_binds h1
    · exact RankP_nil _ _ _ rfl
    · exact RankP_nil _ _ _ rfl
  · intro op hop
    simp only [loadModuleOps, List.mem_append, List.mem_map, List.mem_cons, List.mem_nil_iff, or_false] at hop
    rcases hop with ⟨x, _, rfl⟩ | rfl | rfl | rfl | rfl | rfl | rfl
    · trivial
    · exact rankedB_binds h2
    · trivial
    · exact RankP_nil _ _ _ rfl
    · exact RankP_nil _ _ _ rfl
    · exact RankP_nil _ _ _ hmp
    · trivial

/-- hence resolution terminates without the fuel: in every history made of `di_container` / `handler` blocks (any heap
    positions, any interleaving) and ops that bind nothing new outside the rank, `resolve` with more fuel than the longest
    production chain never runs out of fuel -/
theorem production_terminates (fuel : Nat) (ops : List Op) (c : Nat) (r : SymRef) (hf : maxRank < fuel)
    (hops : ∀ op ∈ ops, (∃ n, op ∈ diContainerOps prodRoles n prodDefs) ∨
      (∃ s n mp, mp.params = [] ∧ op ∈ loadModuleOps prodRoles s n prodDeps mp) ∨ op.BindsP (RankP prodRank)) :
    (step fuel (run fuel State.init ops).1 (.on c (.resolve r))).2 ≠ .err .recursionError := by
  have hb : ∀ op ∈ ops, op.BindsP (RankP prodRank) := by
    intro op hop
    rcases hops op hop with ⟨n, h⟩ | ⟨s, n, mp, hmp, h⟩ | h
    · exact (production_acyclic 0 n ⟨0, 0, [], false⟩ rfl).1 op h
    · exact (production_acyclic s n mp hmp).2 op h
    · exact h
  have hr : prodRank r.accept ≤ maxRank := lookup_getD_le rankTable maxRank r.accept (by decide +kernel)
  exact (fuel_sufficient fuel ops c prodRank hb).1 r (by omega)

/-- `lambda: module_path` of two module loads -/
def mpA : Factory := ⟨9001, 9001, [], false⟩
def mpB : Factory := ⟨9002, 9002, [], false⟩

/-- production in the model: `di_container(default_definitions())`, then two `handler(module_path)` calls; the shared
    container is 0, the per-module containers are 2 and 4 -/
def prodOps : List Op := diContainerGen 0 prodDefs ++ handlerGen 0 1 prodDeps mpA ++ handlerGen 0 3 prodDeps mpB
def prodFuel : Nat := maxRank + 1
def prodState : State := (run prodFuel State.init prodOps).1
def localSyms : List Nat := prodRoles.locator :: prodRoles.invoker :: prodRoles.modulePath :: prodDeps.map (·.1)

/-- every statement of `di_container` and of both `handler` calls succeeds on the shipped definitions, and afterwards every
    shared definition can be resolved in the shared container and every symbol at all in a module container -/
theorem production_run_succeeds :
    ((run prodFuel State.init prodOps).2.all Out.isFine = true) ∧
    ((prodDefs.map (·.1)).all (fun x => (step prodFuel prodState (.on 0 (.resolve ⟨x, false⟩))).2.isObj) = true) ∧
    ((List.range symCount).all (fun x => (step prodFuel prodState (.on 4 (.resolve ⟨x, false⟩))).2.isObj) = true) := by
  decide +kernel

/-- `combine_shares` on the shipped wiring: the three symbols `handler` pre-resolves are one object for the shared
    container and for both module containers -/
theorem production_combine_shares :
    prodRoles.preResolved.all (fun x =>
      (step prodFuel prodState (.on 0 (.resolve ⟨x, false⟩))).2.isObj &&
      (step prodFuel prodState (.on 2 (.resolve ⟨x, false⟩))).2 == (step prodFuel prodState (.on 0 (.resolve ⟨x, false⟩))).2 &&
      (step prodFuel prodState (.on 4 (.resolve ⟨x, false⟩))).2 == (step prodFuel prodState (.on 0 (.resolve ⟨x, false⟩))).2) = true := by
  decide +kernel

/-- module-local symbols on the shipped wiring: the shared container does not know the per-module definitions nor
    ModulePath; both module containers hold their own, different instances of each; Locator / Invoker of a module
    container are the closures over that container -/
theorem production_locals_isolated :
    ((prodRoles.modulePath :: prodDeps.map (·.1)).all (fun x =>
      (step prodFuel prodState (.on 0 (.can ⟨x, false⟩))).2 == .bool false &&
      (instOf (abs prodState) 2 x).isSome && (instOf (abs prodState) 4 x).isSome &&
      (instOf (abs prodState) 2 x).map (·.id) != (instOf (abs prodState) 4 x).map (·.id)) = true) ∧
    ([0, 2, 4].all (fun k =>
      (match (step prodFuel prodState (.on k (.resolve ⟨prodRoles.invoker, false⟩))).2 with
       | .obj o => o.fid == (invokerFactory k).fid
       | _ => false) &&
      (match (step prodFuel prodState (.on k (.resolve ⟨prodRoles.locator, false⟩))).2 with
       | .obj o => o.fid == (locatorFactory k).fid
       | _ => false)) = true) := by
  decide +kernel

/-- production does not use late sharing: after the loads, whatever instance a module container holds for a symbol
    that is not module-local is the very instance the shared container holds -/
theorem production_no_private_copies :
    [2, 4].all (fun m => (List.range symCount).all (fun x =>
      localSyms.contains x || (instOf (abs prodState) m x).isNone || instOf (abs prodState) m x == instOf (abs prodState) 0 x)) = true := by
  decide +kernel

/-- The annotation cache is invisible, also under later bind / unbind: two reachable states with the same abstract state
    (same bindings, instances and counter — whatever was invoked before, successfully or not) react identically to every
    op. (A cache of the curried prefix per factory that is not invalidated by bind / unbind would break this; such a
    seeded mutation is caught by the search.) -/
theorem invoke_sees_current_bindings (fuel : Nat) (ops1 ops2 : List Op) (op : Op)
    (h : abs (run fuel State.init ops1).1 = abs (run fuel State.init ops2).1) :
    abs (step fuel (run fuel State.init ops1).1 op).1 = abs (step fuel (run fuel State.init ops2).1 op).1 ∧
    (step fuel (run fuel State.init ops1).1 op).2 = (step fuel (run fuel State.init ops2).1 op).2 := by
  have w1 := reach_wf fuel ops1
  have w2 := reach_wf fuel ops2
  rw [step_abs w1, step_abs w2, step_out w1, step_out w2, h]
  exact ⟨rfl, rfl⟩

/-- non-vacuity: the second history has a failed invoke more (its cache knows `f8`), the abstract states agree, the
    concrete ones do not -/
example :
    abs (run 3 State.init [.newDI, .on 0 (.bind s0 f0)]).1 = abs (run 3 State.init [.newDI, .on 0 (.invoke f8 []), .on 0 (.bind s0 f0)]).1 ∧
    (run 3 State.init [.newDI, .on 0 (.bind s0 f0)]).1 ≠ (run 3 State.init [.newDI, .on 0 (.invoke f8 []), .on 0 (.bind s0 f0)]).1 := by
  constructor
  · simp only [abs, Spec.mk.injEq]
    refine ⟨?_, by decide⟩
    have : (run 3 State.init [.newDI, .on 0 (.bind s0 f0)]).1.conts.map absC
        = (run 3 State.init [.newDI, .on 0 (.invoke f8 []), .on 0 (.bind s0 f0)]).1.conts.map absC := by
      simp only [run, step, stepCont, State.init, List.nil_append, List.getElem?_cons_zero, List.set_cons_zero, List.map_cons, List.map_nil]
      congr 1
    exact this
  · decide

/-- the curried prefix follows the bindings of the moment: `f8(x: S0)` takes its argument while `S0` is unbound, the
    instance once it is bound (an argument is then surplus: ValueError), and its argument again after the unbind -/
example :
    (run 3 State.init [.newDI, .on 0 (.invoke f8 [⟨1, 0⟩]), .on 0 (.bind s0 f0), .on 0 (.invoke f8 []), .on 0 (.invoke f8 [⟨2, 0⟩]),
      .on 0 (.unbind s0), .on 0 (.invoke f8 []), .on 0 (.invoke f8 [⟨3, 0⟩])]).2
    = [.cont 0, .obj ⟨0, 8, [.ext 1]⟩, .ok, .obj ⟨2, 8, [.inst 1]⟩, .err .valueError, .ok, .err .valueError, .obj ⟨3, 8, [.ext 3]⟩] := by
  decide

/-! ### whatever a factory returns: a stored instance is never made again -/

/-- `resolve` of a symbol whose slot holds an instance returns that instance and does nothing else: no factory is called
    (the instance counter does not move), no dictionary changes — in every state, whatever the instance is. The code
    tests `found_symbol not in self.__instances` (di.py:98), so this holds as well for a factory that returned None or
    a falsy object (the harness observes the number of factory calls for those). -/
theorem resolve_cached_creates_nothing (fuel : Nat) (σ : State) (i : Nat) (k : Cont) (r : SymRef) (f : Factory) (o : Obj)
    (hk : σ.conts[i]? = some k) (hf : k.injectors.get? r.accept = some f) (ho : k.instances.get? r.accept = some o) :
    step (fuel + 1) σ (.on i (.resolve r)) = (σ, .obj o) := by
  have hres : resolveF (fuel + 1) k σ.next r = (k, σ.next, .ok o) := by
    unfold resolveF
    have hin : k.innerBinded r = true := by simp [Cont.innerBinded, Dict.contains, hf]
    cases hl : k.lazy
    · simp [diResolveWith, hf, ho]
    · simp [lazyResolveWith, hin, diResolveWith, hf, ho]
  simp only [step, hk, stepCont, hres, outObj, list_set_self σ.conts i k hk]

/-- non-vacuity: after the first resolve the second one is the identity on the state (here through a lazy by-name definition) -/
example :
    let σ := (run 2 State.init [.newLazy [(0, .named 1 f0)], .on 0 (.resolve s0)]).1
    step 2 σ (.on 0 (.resolve s0)) = (σ, .obj ⟨0, 0, []⟩) := by decide

/-! ### the state of di.py and who writes it (generated: translate/gen_di_state.py reads the ast of di.py) -/

section DIStateTie
open Tranp.Generated.DIState

/-- the method of di.py a model op stands for, by the class of the receiver (`rebind` and `invoke` are inherited) -/
def entry (lazy : Bool) : ContOp → Meth
  | .bind _ _ => if lazy then .LazyDI_bind else .DI_bind
  | .rebind _ _ => .DI_rebind
  | .unbind _ => if lazy then .LazyDI_unbind else .DI_unbind
  | .resolve _ => if lazy then .LazyDI_resolve else .DI_resolve
  | .can _ => if lazy then .LazyDI_can_resolve else .DI_can_resolve
  | .invoke _ _ => .DI_invoke

/-- The two classes declare exactly the four dictionaries of the model `Cont` (and the translator found no other
    attribute, class- or module-level variable, or caching decorator — it raises otherwise). -/
theorem state_fields :
    fields = [(false, .instances), (false, .injectors), (false, .invocations), (true, .definitions)] := by decide

/-- The dictionaries each public method can write on its receiver, computed by the kernel from the GENERATED call graph
    (direct writes of every method reachable through `self.` / `super().` calls, virtual dispatch resolved per class):
    `can_resolve` writes nothing; `bind` the registry (and the definitions on a LazyDI); `unbind` / `rebind` also the
    instances; `resolve` / `invoke` the instances and the annotation cache — on a LazyDI also registry and definitions
    (`__bind_proxy`); `_clone` / `combine` write nothing on the receiver. -/
theorem code_effects :
    effSet recs false .DI_can_resolve = some [] ∧ effSet recs true .LazyDI_can_resolve = some [] ∧
    effSet recs false .DI_bind = some [.injectors] ∧ effSet recs true .LazyDI_bind = some [.injectors, .definitions] ∧
    effSet recs false .DI_unbind = some [.instances, .injectors] ∧
    effSet recs true .LazyDI_unbind = some [.instances, .injectors, .definitions] ∧
    effSet recs false .DI_rebind = some [.instances, .injectors] ∧
    effSet recs true .DI_rebind = some [.instances, .injectors, .definitions] ∧
    effSet recs false .DI_resolve = some [.instances, .invocations] ∧ effSet recs true .LazyDI_resolve = some allFields ∧
    effSet recs false .DI_invoke = some [.instances, .invocations] ∧ effSet recs true .DI_invoke = some allFields ∧
    effSet recs false .DI__clone = some [] ∧ effSet recs true .LazyDI__clone = some [] ∧
    effSet recs false .DI_combine = some [] ∧ effSet recs true .LazyDI_combine = some [] := by
  decide +kernel

/-- The model writes nothing else: whatever dictionaries the code of an operation can write (`effSet` of the generated
    table), one step of the model on a container leaves every other dictionary — and the class — exactly as it was.
    For every container, op, fuel. -/
theorem model_effects (fuel : Nat) (c : Cont) (nx : Nat) (op : ContOp) (fs : List Field)
    (h : effSet recs c.lazy (entry c.lazy op) = some fs) : agreeOutside fs c (stepCont fuel c nx op).1 := by
  obtain ⟨e1, e2, e3, e4, e5, e6, e7, e8, e9, e10, e11, e12, _⟩ := code_effects
  cases op with
  | can r =>
    exact ⟨rfl, fun _ => rfl, fun _ => rfl, fun _ => rfl, fun _ => rfl⟩
  | bind r f =>
    have hk := Cont.bind_keeps c r f
    cases hl : c.lazy
    · rw [hl] at h; simp only [entry, Bool.false_eq_true, if_false] at h; rw [e3] at h; cases h
      exact ⟨hk.1, fun _ => hk.2.1, fun hn => absurd (by simp) hn, fun _ => hk.2.2.1, fun _ => hk.2.2.2 hl⟩
    · rw [hl] at h; simp only [entry, if_true] at h; rw [e4] at h; cases h
      exact ⟨hk.1, fun _ => hk.2.1, fun hn => absurd (by simp) hn, fun _ => hk.2.2.1, fun hn => absurd (by simp) hn⟩
  | unbind r =>
    have hk := Cont.unbind_keeps c r
    cases hl : c.lazy
    · rw [hl] at h; simp only [entry, Bool.false_eq_true, if_false] at h; rw [e5] at h; cases h
      exact ⟨hk.1, fun hn => absurd (by simp) hn, fun hn => absurd (by simp) hn, fun _ => hk.2.1, fun _ => hk.2.2 hl⟩
    · rw [hl] at h; simp only [entry, if_true] at h; rw [e6] at h; cases h
      exact ⟨hk.1, fun hn => absurd (by simp) hn, fun hn => absurd (by simp) hn, fun _ => hk.2.1, fun hn => absurd (by simp) hn⟩
  | rebind r f =>
    have hk := Cont.rebind_keeps c r f
    cases hl : c.lazy
    · rw [hl] at h; simp only [entry] at h; rw [e7] at h; cases h
      exact ⟨hk.1, fun hn => absurd (by simp) hn, fun hn => absurd (by simp) hn, fun _ => hk.2.1, fun _ => hk.2.2 hl⟩
    · rw [hl] at h; simp only [entry] at h; rw [e8] at h; cases h
      exact ⟨hk.1, fun hn => absurd (by simp) hn, fun hn => absurd (by simp) hn, fun _ => hk.2.1, fun hn => absurd (by simp) hn⟩
  | resolve r =>
    have hk := resolveF_keep fuel c nx r
    cases hl : c.lazy
    · rw [hl] at h; simp only [entry, Bool.false_eq_true, if_false] at h; rw [e9] at h; cases h
      exact ⟨hk.1, fun hn => absurd (by simp) hn, fun _ => (hk.2 hl).1, fun hn => absurd (by simp) hn, fun _ => (hk.2 hl).2⟩
    · rw [hl] at h; simp only [entry, if_true] at h; rw [e10] at h; cases h
      exact ⟨hk.1, fun hn => absurd (by simp [allFields]) hn, fun hn => absurd (by simp [allFields]) hn,
        fun hn => absurd (by simp [allFields]) hn, fun hn => absurd (by simp [allFields]) hn⟩
  | invoke f args =>
    have hk := invokeF_keep fuel c nx f args
    cases hl : c.lazy
    · rw [hl] at h; simp only [entry] at h; rw [e11] at h; cases h
      exact ⟨hk.1, fun hn => absurd (by simp) hn, fun _ => (hk.2 hl).1, fun hn => absurd (by simp) hn, fun _ => (hk.2 hl).2⟩
    · rw [hl] at h; simp only [entry] at h; rw [e12] at h; cases h
      exact ⟨hk.1, fun hn => absurd (by simp [allFields]) hn, fun hn => absurd (by simp [allFields]) hn,
        fun hn => absurd (by simp [allFields]) hn, fun hn => absurd (by simp [allFields]) hn⟩

/-- non-vacuity of `model_effects` (its hypothesis is met by every row of `code_effects`): on a plain DI, `unbind` leaves the
    annotation cache and the definitions alone -/
example (fuel : Nat) (c : Cont) (nx : Nat) (r : SymRef) (hl : c.lazy = false) :
    (stepCont fuel c nx (.unbind r)).1.invocations = c.invocations ∧
    (stepCont fuel c nx (.unbind r)).1.definitions = c.definitions := by
  have h := model_effects fuel c nx (.unbind r) [.instances, .injectors] (by rw [hl]; exact code_effects.2.2.2.2.1)
  exact ⟨h.2.2.2.1 (by decide), h.2.2.2.2 (by decide)⟩

/-- tightness: the model does write each of those dictionaries (so `code_effects` is exactly the model's footprint, not
    an over-approximation of it): bind / unbind on a LazyDI, resolve on a plain DI and through a lazy definition -/
example :
    let c : Cont := { lazy := true }
    (c.bind s0 f0).1.injectors ≠ c.injectors ∧ (c.bind s0 f0).1.definitions ≠ c.definitions := by decide
example :
    let c := (stepCont 2 ((({ lazy := true } : Cont).bind s0 f0).1) 0 (.resolve s0)).1
    (c.unbind s0).instances ≠ c.instances ∧ (c.unbind s0).injectors ≠ c.injectors ∧ (c.unbind s0).definitions ≠ c.definitions := by
  decide
example :
    let c := ((({ lazy := false } : Cont).bind s0 f0).1)
    (stepCont 2 c 0 (.resolve s0)).1.instances ≠ c.instances ∧ (stepCont 2 c 0 (.resolve s0)).1.invocations ≠ c.invocations := by
  decide
example :
    let c : Cont := { lazy := true, definitions := ⟨[(0, .named 1 f0)]⟩ }
    (stepCont 2 c 0 (.resolve s0)).1.injectors ≠ c.injectors := by decide

/-- Containers own their dictionaries, read from the source: every dictionary attribute assigned on a container that
    `_clone` / `combine` / `instantiate` has just made receives a dict display, a dict comprehension or a `.copy()`; no
    method returns, passes on or plainly assigns a dictionary object; nothing is written to the `other` operand and the
    methods called on it write nothing. This is what justifies the value semantics of the model (`combine_frame`). The
    attributes `_clone` and `combine` assign are exactly the ones `Cont.clone` / `Cont.combine` copy; the annotation
    cache of the new container is the empty one of `__init__`. -/
theorem containers_own_their_dicts :
    ownsDicts recs = true ∧ otherUntouched recs = true ∧
    (recOf recs .DI__clone).map (·.newAssigns) = some [(.instances, true), (.injectors, true)] ∧
    (recOf recs .LazyDI__clone).map (·.newAssigns) = some [(.definitions, true)] ∧
    (recOf recs .DI_combine).map (·.newAssigns) = some [(.instances, true), (.injectors, true)] ∧
    (recOf recs .LazyDI_combine).map (·.newAssigns) = some [(.definitions, true)] ∧
    (recOf recs .LazyDI_instantiate).map (·.newAssigns) = some [] := by
  decide +kernel

/-- `_clone` and `combine` of the model ARE the method bodies of di.py: the translator turns the statements of
    `DI._clone`, `LazyDI._clone`, `DI.combine`, `LazyDI.combine` (ast) into Lean terms (`{**a, **b}` = `Dict.merge`, the
    filtering dict comprehension = `Dict.filterKeys`, sequential assignments on the new container), and the hand-written
    `Cont.clone` / `Cont.combine`, about which `combine_right`, `combine_frame`, `combine_shares` … speak, equal them for all
    containers. The two error branches are the class guard of `DI.combine` (TypeError) and the missing `__definitions` of
    a plain DI handed to `LazyDI.combine` (AttributeError). -/
theorem clone_combine_generated (a b : Cont) :
    a.clone = (if a.lazy then genCloneLazy a else genCloneDI a) ∧
    a.combine b = (if !a.lazy && b.lazy then .error .typeError
      else if a.lazy && !b.lazy then .error .attributeError
      else .ok (if a.lazy then genCombineLazy a b else genCombineDI genCloneDI a b)) := by
  cases ha : a.lazy <;> cases hb : b.lazy <;>
    simp [Cont.clone, Cont.combine, genCloneLazy, genCloneDI, genCombineLazy, genCombineDI, ha, hb]

/-- non-vacuity: the generated combine on two LazyDI containers where the left one has materialised symbol 0 and the right
    one only defines it: the right definition wins (the witness of 6d5a231) -/
example :
    let a := (stepCont 2 ({ lazy := true, definitions := ⟨[(0, .named 1 f0)]⟩ } : Cont) 0 (.resolve s0)).1
    let b : Cont := { lazy := true, definitions := ⟨[(0, .named 2 f15)]⟩ }
    (genCombineLazy a b).injectors.get? 0 = none ∧ (genCombineLazy a b).instances.get? 0 = none ∧
    (genCombineLazy a b).definitions.get? 0 = some (.named 2 f15) := by decide

end DIStateTie

/-! ### the registry methods and `resolve`, generated from the statements of di.py -/

section DIMethodsTie
open Tranp.Generated.DIMethods

/-- The model functions ARE the method bodies of di.py. `Generated/DIMethods.lean` holds the bodies of
    `bind / unbind / rebind / can_resolve / resolve / _binded` of both classes and of every helper they call
    (`_acceptable_symbol`, `__find_symbol`, `__inner_binded`, `__register`, `__unregister`, `__can_resolve`, `__symbolize`,
    `__bind_proxy`), translated statement by statement from the ast into `do` blocks (dict item access / store / `del` with
    KeyError, `raise`, `is None` guards, virtual `self.` calls resolved by the class of the receiver, `super()`). For every
    container, counter, symbol reference and factory they compute exactly what the hand-written `Cont.bind`, `Cont.unbind`,
    `Cont.rebind`, `Cont.canResolve`, `Cont.binded` and `resolveF` (with `self.invoke` = `invokeF`) compute — so `refine`,
    `singleton`, `rebind_fresh`, `unknown`, `lazy_materialise` … are statements about these translated statements.
    Not translated (hand-written, tied by the stream): `invoke` and its three introspection helpers. -/
theorem methods_generated (fuel : Nat) (c : Cont) (nx : Nat) (r : SymRef) (f : Factory) :
    PyM.run (if c.lazy then gen_LazyDI_bind c.lazy r f else gen_DI_bind c.lazy r f) c nx = ((c.bind r f).1, nx, (c.bind r f).2) ∧
    PyM.run (if c.lazy then gen_LazyDI_unbind c.lazy r else gen_DI_unbind c.lazy r) c nx = (c.unbind r, nx, .ok ()) ∧
    PyM.run (gen_DI_rebind c.lazy r f) c nx = ((c.rebind r f).1, nx, (c.rebind r f).2) ∧
    PyM.run (if c.lazy then gen_LazyDI_can_resolve c.lazy r else gen_DI_can_resolve c.lazy r) c nx = (c, nx, .ok (c.canResolve r)) ∧
    PyM.run (if c.lazy then gen_LazyDI__binded c.lazy r else gen_DI__binded c.lazy r) c nx = (c, nx, .ok (c.binded r.accept)) ∧
    PyM.run (if c.lazy then gen_LazyDI_resolve c.lazy (invOf (resolveF fuel)) r else gen_DI_resolve c.lazy (invOf (resolveF fuel)) r) c nx
      = resolveF (fuel + 1) c nx r := by
  cases hl : c.lazy
  · refine ⟨?_, ?_, ?_, ?_, ?_, ?_⟩
    · simp [PyM.run, gen_bind_di, Cont.bind, hl]
    · simp [PyM.run, gen_unbind_di, Cont.unbind, hl]
    · have := gen_rebind r f c nx
      rw [hl] at this
      simp [PyM.run, this]
    · simp [PyM.run, gen_can_di, Cont.canResolve, hl]
    · simp [PyM.run, gen_binded_di, Cont.binded, Cont.innerBinded, hl]
    · simp only [Bool.false_eq_true, if_false]
      rw [gen_resolve_di]
      simp [resolveF, hl]
  · refine ⟨?_, ?_, ?_, ?_, ?_, ?_⟩
    · simp [PyM.run, gen_bind_lazy, Cont.bind, hl]
    · simp [PyM.run, gen_unbind_lazy, Cont.unbind, hl]
    · have := gen_rebind r f c nx
      rw [hl] at this
      simp [PyM.run, this]
    · simp [PyM.run, gen_can_lazy, Cont.canResolve, hl]
    · simp [PyM.run, gen_binded_lazy, Cont.binded, symbolize, hl]
    · simp only [if_true]
      rw [gen_resolve_lazy _ _ _ _ _ hl]
      simp [resolveF, hl]

/-- non-vacuity: the generated `LazyDI.resolve` on a by-name definition materialises it, calls the factory once and stores
    the instance; a second run returns the stored instance without a call -/
example :
    let c : Cont := { lazy := true, definitions := ⟨[(0, .named 1 f0)]⟩ }
    let r1 := PyM.run (gen_LazyDI_resolve true (invOf (resolveF 1)) s0) c 0
    let r2 := PyM.run (gen_LazyDI_resolve true (invOf (resolveF 1)) s0) r1.1 r1.2.1
    outObj r1.2.2 = .obj ⟨0, 0, []⟩ ∧ r1.2.1 = 1 ∧ r1.1.injectors.get? 0 = some f0 ∧
    r2.1 = r1.1 ∧ r2.2.1 = 1 ∧ outObj r2.2.2 = .obj ⟨0, 0, []⟩ := by decide

end DIMethodsTie

end Tranp.C19
