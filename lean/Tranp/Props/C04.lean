/-
  Property C04 — Output is deterministic and independent of session history.
  Property theorems only; definitions and helper lemmas live in Tranp/Lemmas/Session.lean and Tranp/Lemmas/SessionRef.lean.
  Model of the repaired `Modules` (rollback of a failed load, cascading unload, re-check after the library load).
-/
import Tranp.Lemmas.SessionRef
import Tranp.Lemmas.UnloadShape
import Tranp.Lemmas.LoadShape
import Tranp.Lemmas.SessionOps

namespace Tranp.C04
open Tranp Tranp.Session

/-! ### cache coherence: every history, no hypothesis on the sources -/

section
variable {Src Tree NV V Text : Type} (L : Lang Src Tree NV V Text) (E : Env Src)

/-- `Coherent`: every memo entry equals the pure node function on the tree of its entrypoint, every entrypoint / cached
    AST is the parse of the current source, the symbol table holds keys of registered modules only, symbol files hold
    keys of their own module only, every entrypoint belongs to a registered module, and everything a registered module
    depends on (its imports; the library modules) is registered. It holds in a fresh process and is preserved by every
    operation — also by the ones that raise half-way and roll back. -/
theorem inv (hN : Names L E) (f : Nat) :
    (∀ src, SrcOk L src → Coherent L E ({ mainSrc := src } : St L)) ∧
    (∀ s op, Op.wf L op → Coherent L E s → Coherent L E (step L E f s op).2) :=
  ⟨fun src hsrc => init_coherent L E src hsrc, fun s op hop hC => step_coherent L E hN f s op hop hC⟩

/-- `load m` — successful or raising and rolled back — keeps every already registered module registered and changes no
    observation of it: its entrypoint (tree and memo tables), its symbol table entries, its completed flag; the stored
    symbol files and both transpiler stacks stay as they were. -/
theorem frame (hN : Names L E) (f : Nat) (s : St L) (m : ModPath) (hm : GoodName m) (hC : Coherent L E s) :
    FrameOn L (fun x => x ∈ s.mods) s (step L E f s (.load m)).2 ∧ Global L s (step L E f s (.load m)).2 := by
  simp only [step]
  obtain ⟨_, hG, _, _, hO, _⟩ := loadAll_inv L E hN f [m] s (by intro p hp; simp at hp; exact hp ▸ hm) hC.1 hC.2.2.1
  have hcl : ClosedSet L E s (fun x => x ∈ s.mods) := ⟨fun _ h => h, fun x hx d hd => hC.2.2.2 x hx (by simp) d hd⟩
  obtain ⟨_, hF⟩ := hO _ hcl
  generalize loadAll L E f [m] s = r at hF hG
  obtain ⟨rr, s1⟩ := r
  cases rr <;> exact ⟨hF, hG⟩

/-- A failed `load m` leaves no residue, for EVERY failure kind `e` (syntax error, missing file, missing imported name,
    failing import, RecursionError, and `Errors.Fatal` = any unexpected exception inside the load, e.g. the ValueError of a free
    function with a `self` parameter): the rollback in `Modules.load` is unconditional, so afterwards `m` is not registered and has
    no entrypoint, no symbol and no completed flag — unless the library load that runs first had itself loaded `m` completely. -/
theorem failed_load_leaves_no_residue (hN : Names L E) (f : Nat) (s : St L) (m : ModPath) (e : Err) (hm : GoodName m)
    (hC : Coherent L E s) (hfail : (step L E (f + 1) s (.load m)).1 = .error e) (hp : m ∉ s.mods)
    (hlib : m ∈ E.libs ∨ m ∉ (loadAll L E f E.libs s).2.mods) :
    m ∉ (step L E (f + 1) s (.load m)).2.mods ∧ ahas (step L E (f + 1) s (.load m)).2.eps m = false ∧
    (∀ kv, kv ∈ (step L E (f + 1) s (.load m)).2.db → modOf kv.1 ≠ m) ∧ m ∉ (step L E (f + 1) s (.load m)).2.completed := by
  have hC' := step_coherent L E hN (f + 1) s (.load m) hm hC
  have hreg : m ∉ (step L E (f + 1) s (.load m)).2.mods := by
    simp only [step, loadAll] at hfail ⊢
    cases h1 : loadOne L E (loadAll L E f) (unload L E) m s with
    | mk r s1 =>
      cases r with
      | error e1 =>
        exact loadOne_failed_unregistered L E (loadAll L E f) m s s1 e1 h1 hp hlib
      | ok u => simp [h1] at hfail
  refine ⟨hreg, ?_, ?_, ?_⟩
  · cases h : ahas (step L E (f + 1) s (.load m)).2.eps m with
    | false => rfl
    | true => exact absurd (hC'.2.1 m h) hreg
  · intro kv hkv heq
    exact hreg (heq ▸ hC'.1.tags kv.1 kv.2 hkv)
  · intro hc
    exact hreg (hC'.1.completed m hc)

/-- `unload m`: `m` is gone, and every module that is left is untouched (registration, entrypoint, table, completed flag,
    symbol files, stacks) -/
theorem unload_clears (s : St L) (m : ModPath) : m ∉ (unload L E s m).mods ∧ Sub L s (unload L E s m) :=
  ⟨unload_not_mem L E s m, unload_sub L E s m⟩

/-- `unload m` of a registered module leaves nothing of `m` in any per-module component of the state: registry, entrypoints
    (with the node tables and memos they own), symbol table, completed list, memoised identities -/
theorem unload_resets (s : St L) (m : ModPath) (hm : m ∈ s.mods) : Cleared L (unload L E s m) m :=
  unload_cleared L E s m hm

open Tranp.Generated.UnloadShape in
/-- The four `unload` methods as GENERATED from the sources (translate/gen_unload_shape.py: every statement of `Modules.unload`,
    `ModuleLoader.unload`, `Entrypoints.unload`, `SymbolDB.unload` in source order; an early return, a new condition or another
    statement breaks the tie), run as programs over the model state: the statements before the cascade are exactly the
    hand-written removal of one module — entrypoint, completed flag, symbol keys, registry entry with the memoised identity,
    each removed unconditionally -/
theorem unload_one_generated (rec : St L → ModPath → St L) (s : St L) (m : ModPath) :
    runList (modulesStmt L E rec m) (modulesUnload.filter (fun st => st ≠ .cascade)) s = some (unloadOne L s m) := by
  rfl

open Tranp.Generated.UnloadShape in
/-- … and the whole generated `Modules.unload` (guard, loader, registry, cascade in the order of the source) with the model's
    `unload` as its recursive call is the model's `unload` with one more level of fuel: the hand-written cascade satisfies the
    recursion equation read from the source, for every state and module -/
theorem unload_generated (f : Nat) (s : St L) (m : ModPath) :
    (if m ∈ s.mods then runList (modulesStmt L E (unloadF L E f) m) modulesUnload s else some s) = some (unloadF L E (f + 1) s m) := by
  by_cases h : m ∈ s.mods
  · simp only [h, if_true, unloadF]
    rfl
  · simp only [h, if_false, unloadF]

open Tranp.Generated.LoadShape in
/-- `Modules.load` as GENERATED from the source (translate/gen_load_shape.py: guard, library load, re-check, registration before
    the imports, imports, processors, rollback `except Exception: self.unload(p); raise` around the last two; the helpers
    `__load_libraries` / `__load_dependencies` / `libralies` pinned to the text the model was written from), run as a program over
    the model state with `rec` for the recursive loads and `rollback` for `self.unload`: it IS the hand-written `loadOne`, so
    `loadAll` is the recursion read from the source — for every state, module, fuel and list of further modules -/
theorem load_generated (f : Nat) (p : ModPath) (ps : List ModPath) (s : St L) :
    (∀ rec rollback, runLs L E rec rollback p modulesLoad s = loadOne L E rec rollback p s) ∧
    loadAll L E (f + 1) (p :: ps) s =
      (match runLs L E (loadAll L E f) (unload L E) p modulesLoad s with
       | (.error e, s') => (.error e, s')
       | (.ok _, s') => loadAll L E f ps s') := by
  refine ⟨fun rec rollback => load_generated_eq L E rec rollback p s, ?_⟩
  rw [load_generated_eq]
  rfl

/-- The two request paths of a session as GENERATED from the sources (translate/gen_session_ops.py: `Py2Cpp.transpile` = push a
    dependency frame, `Procedure.exec`, pop, `return result` — no try/finally; `Interactive.rebuild_module` = set the source,
    unload the in-memory module, `return` its load — unconditionally, in this order; any other statement is a TranslateError), run
    as programs over the model state: they ARE the hand-written `transpile` / `resubmit` operations, for every state, fuel, module
    and submitted source -/
theorem transpile_generated (f : Nat) (s : St L) (m : ModPath) : transpileG L E f s m = transpile L E f s m :=
  transpileG_eq L E f s m

/-- … `Interactive.rebuild_module` + the generated `Py2Cpp.transpile` on the rebuilt module is the model's `resubmit` -/
theorem resubmit_generated (f : Nat) (s : St L) (src : Src) : resubmitG L E f s src = resubmit L E f s src :=
  resubmitG_eq L E f s src

/-- … and of an unregistered module does nothing at all (modules.py:133) -/
theorem unload_noop (s : St L) (m : ModPath) (hm : m ∉ s.mods) : unload L E s m = s :=
  unload_unregistered L E s m hm

open Tranp.Generated.SessionState in
/-- The inventory of ALL state of rogw/tranp that can carry history (generated from the sources on every run, verdict per site
    audited) against the model: a site audited "removed by unload" or "inside an object that a per-module entry owns" names a
    component in which `unload m` leaves nothing of `m`; a site audited "keyed by content" or "per-call stack" names a component
    that `unload` does not touch. -/
theorem inventory_unload (s : St L) (m : ModPath) (hm : m ∈ s.mods) :
    ∀ x, x ∈ sites →
      (∀ f, x.verdict = .reset f ∨ x.verdict = .owned f → ClearedAt L f (unload L E s m) m) ∧
      (∀ f, x.verdict = .content f ∨ x.verdict = .stack f → KeptAt L f s (unload L E s m)) := by
  have hall : sites.all siteFits = true := by decide +kernel
  have hc := unload_cleared L E s m hm
  have hs := unload_sub L E s m
  intro x hx
  have hok := List.all_eq_true.1 hall x hx
  constructor
  · intro f hf
    have hmem : f ∈ clearedFields := by
      rcases hf with h | h <;> simpa [siteFits, h] using hok
    simp only [clearedFields, List.mem_cons, List.not_mem_nil, or_false] at hmem
    rcases hmem with h | h | h | h | h <;> subst h
    · exact hc.mods
    · exact hc.eps
    · exact hc.db
    · exact hc.completed
    · exact hc.ident
  · intro f hf
    have hmem : f ∈ keptFields := by
      rcases hf with h | h <;> simpa [siteFits, h] using hok
    simp only [keptFields, List.mem_cons, List.not_mem_nil, or_false] at hmem
    rcases hmem with h | h | h | h | h <;> subst h
    · exact hs.mainSrc
    · exact hs.ast
    · exact hs.stored
    · exact hs.deps
    · exact hs.proc

open Tranp.Generated.SessionState in
/-- every component of the model state except the symbol files (file system, not an object) is backed by a site of the
    inventory: the model invents no state -/
theorem inventory_backed : ∀ f : Field, f ≠ .stored → ∃ x, x ∈ sites ∧ verdictField x.verdict = some f := by
  intro f hf
  have h : (sites.any fun x => decide (verdictField x.verdict = some f)) = true := by
    cases f
    case stored => exact absurd rfl hf
    all_goals decide +kernel
  obtain ⟨x, hx, hv⟩ := List.any_eq_true.1 h
  exact ⟨x, hx, by simpa using hv⟩

open Tranp.Generated.SessionState in
/-- what the audit calls constant is written by its constructor only (class-level tables: by nobody); what it calls removed by
    unload is written by a method named unload / clear; every memoised key lives in a node table an entrypoint owns (or in the
    self-hosted parser, which the application does not use) -/
theorem inventory_audit_consistent :
    (∀ x, x ∈ sites → x.verdict = .constant → ∀ w, w ∈ x.writers → w = initName) ∧
    (∀ x, x ∈ sites → (∃ f, x.verdict = .reset f) → ∃ w, w ∈ x.writers ∧ w ∈ unloadNames) ∧
    (∀ x, x ∈ sites → x.kind = .memo → x.verdict = .owned .eps ∨ x.verdict = .offpath) := by
  have h1 : (sites.all fun x => !decide (x.verdict = .constant) || x.writers.all (fun w => decide (w = initName))) = true := by decide +kernel
  have h2 : (sites.all fun x => !isReset x.verdict || x.writers.any (fun w => decide (w ∈ unloadNames))) = true := by decide +kernel
  have h3 : (sites.all fun x => !decide (x.kind = .memo) || (decide (x.verdict = .owned .eps) || decide (x.verdict = .offpath))) = true := by
    decide +kernel
  refine ⟨?_, ?_, ?_⟩
  · intro x hx hv w hw
    have := List.all_eq_true.1 h1 x hx
    simp only [hv, decide_true, Bool.not_true, Bool.false_or, List.all_eq_true, decide_eq_true_eq] at this
    exact this w hw
  · intro x hx ⟨f, hv⟩
    have := List.all_eq_true.1 h2 x hx
    simp only [hv, isReset, Bool.not_true, Bool.false_or, List.any_eq_true, decide_eq_true_eq] at this
    exact this
  · intro x hx hk
    have := List.all_eq_true.1 h3 x hx
    simpa [hk] using this

/-- the cascade of `unload` never runs out of fuel: any fuel above the number of registered modules gives the same result -/
theorem unload_fuel (s : St L) (m : ModPath) (k : Nat) : unloadF L E (s.mods.length + k) s m = unload L E s m :=
  unloadF_fuel L E s m k

/-- … the cascade is complete: nothing that is left depends on something that was removed -/
theorem unload_cascade (s : St L) (m : ModPath) :
    ∀ x, x ∈ (unload L E s m).mods → ∀ d, d ∈ depsOf L E (unload L E s m) x → d ∈ s.mods → d ∈ (unload L E s m).mods :=
  fun x hx d hd hds => unload_dang L E s m x hx (by simp) d hd hds

/-- … and minimal: a set of modules that is closed under dependencies and does not contain `m` survives untouched -/
theorem unload_minimal (O : ModPath → Prop) (s : St L) (m : ModPath) (hm : ¬ O m) (hO : ClosedSet L E s O) :
    ClosedSet L E (unload L E s m) O ∧ FrameOn L O s (unload L E s m) :=
  unload_keeps L E O s m hm hO

/-- the same at the level of key strings: for module names without `#` no key `full_joined(m, l)` is left, and every key
    `full_joined(m', l)` of a module that is still registered — also one whose name has `m` as a string prefix,
    `app.a` / `app.ab` — is still there -/
theorem unload_exact (s : St L) (m m' : ModPath) (hC : Coherent L E s) (hgm : GoodName m) (hgm' : GoodName m')
    (hm' : m' ∈ (unload L E s m).mods) (l : Str) (v : V) :
    (fullJoined m l, v) ∉ (unload L E s m).db ∧
    ((fullJoined m' l, v) ∈ s.db → (fullJoined m' l, v) ∈ (unload L E s m).db) := by
  constructor
  · intro h
    have := (unload_inv L E s m hC.1).tags _ _ h
    rw [modOf_fullJoined m l hgm] at this
    exact unload_not_mem L E s m this
  · intro h
    have ht : (fullJoined m' l, v) ∈ tableOf s.db m' := mem_tableOf.2 ⟨h, modOf_fullJoined m' l hgm'⟩
    rw [← (unload_sub L E s m).table m' hm'] at ht
    exact (mem_tableOf.1 ht).1

/-- Both transpiler stacks (`Py2Cpp.__stack_on_depends`, `Procedure.__stacks`): every `transpile` works on a fresh top frame;
    a successful one leaves both stacks as they were, a failing one leaves at most its own frame on top (no try/finally in
    the code) and never touches the frames below. The renderer never reads a stale frame (in the model: `render` has no
    stack argument; in the code only `[-1]` of a just-pushed `[]` is read). -/
theorem stack_frames (hN : Names L E) (f : Nat) (s : St L) (m : ModPath) (hm : GoodName m) (hC : Coherent L E s) :
    ((transpile L E f s m).2.deps = s.deps ∧ (transpile L E f s m).2.proc = s.proc) ∨
    (∃ e d p, (transpile L E f s m).1 = .error e ∧ (transpile L E f s m).2.deps = d :: s.deps ∧ (transpile L E f s m).2.proc = p :: s.proc) := by
  unfold transpile
  obtain ⟨_, hF1, _⟩ := loadAll_inv L E hN f [m] s (by intro p hp; simp at hp; exact hp ▸ hm) hC.1 hC.2.2.1
  generalize loadAll L E f [m] s = r at hF1
  obtain ⟨rr, s1⟩ := r
  cases rr with
  | error e => exact Or.inl ⟨hF1.deps, hF1.proc⟩
  | ok u =>
    simp only
    cases alookup s1.eps m with
    | none => exact Or.inl ⟨hF1.deps, hF1.proc⟩
    | some ep =>
      simp only
      cases hr : (L.render m (Ep.nf L ep) (alookup s1.db)).1 with
      | ok t => exact Or.inl ⟨hF1.deps, hF1.proc⟩
      | error e =>
        refine Or.inr ⟨e, (L.render m (Ep.nf L ep) (alookup s1.db)).2.1, (L.render m (Ep.nf L ep) (alookup s1.db)).2.2, rfl, ?_, ?_⟩
        · simp only; rw [hF1.deps]
        · simp only; rw [hF1.proc]

end

/-! ### determinism: every history -/

section
variable {Src Tree NV V Text : Type} (L : Lang Src Tree NV V Text) (E : Env Src) (B : Base V) (rank : ModPath → Nat) (TreeOk : Tree → Prop)

/-- `Stable` = `Coherent` + every registered module holds exactly its reference table (so: what is registered is good) and
    every symbol file is a reference table. Preserved by every operation with well-formed names that does not unload the
    pinned base (the library modules and what they import) — whether it succeeds, raises, or raises and rolls back. -/
theorem inv_stable (hW : World L E B rank TreeOk) (f : Nat) (s : St L) (op : Op Src) (hop : OpOk L E B rank TreeOk op)
    (hSt : Stable L E B rank TreeOk s) (hnr : (step L E f s op).1 ≠ .error .recursion) :
    Stable L E B rank TreeOk (step L E f s op).2 :=
  step_stable L E B rank TreeOk hW f s op hop hSt hnr

/-- In every reachable state `transpile m` returns the reference result of `m`, a function of the current sources alone:
    `render m tree(m) (reference tables)` when `m` has a reference table, the reference error (the error of the first
    failing import in load order, of the parser, or of ExpandModules) when it has none. -/
theorem det_ref (hW : World L E B rank TreeOk) (hR : RenderLocal L B TreeOk) (f : Nat) (s₀ s : St L)
    (h0 : Stable L E B rank TreeOk s₀) (hreach : Reach L E B rank TreeOk f s₀ s)
    (m : ModPath) (hm : GoodName m) (hnr : (transpile L E f s m).1 ≠ .error .recursion) :
    (∀ n T, refTbl L B (srcOf L E s) n m = some T → ∃ t, (srcOf L E s m).bind L.parse = some t ∧
      (transpile L E f s m).1 = (L.render m (L.query t) (refLookAll L B (srcOf L E s) n)).1) ∧
    (∀ n e, refErr L B (srcOf L E s) n m = some e → (transpile L E f s m).1 = .error e) := by
  have hSt := reach_stable L E B rank TreeOk hW f s₀ s h0 hreach
  exact ⟨fun n T hT => transpile_det L E B rank TreeOk hW hR f s m hm hSt n T hT hnr,
    fun n e he => transpile_det_err L E B rank TreeOk hW f s m hm hSt n e he hnr⟩

/-- DETERMINISM over all histories. Two processes over the same files whose in-memory module currently has the same
    source answer `transpile m` identically — texts, render errors and load errors alike — whatever the two histories of
    loads, transpiles, unloads and re-submissions were (in particular: one of them may be fresh), and which of their
    operations failed.
    Remaining hypotheses: `World` (module names are dotted paths; ExpandModules and the renderer read the symbol table
    only inside the import closure; the import graph is acyclic; no file imports the in-memory module; the library
    modules and what they import are the pinned `base`), the base is not unloaded (`OpOk`), no operation ran out of fuel. -/
theorem det (hW : World L E B rank TreeOk) (hR : RenderLocal L B TreeOk) (f f' : Nat) (s₀ s s₀' s' : St L)
    (h0 : Stable L E B rank TreeOk s₀) (hreach : Reach L E B rank TreeOk f s₀ s)
    (h0' : Stable L E B rank TreeOk s₀') (hreach' : Reach L E B rank TreeOk f' s₀' s')
    (hsrc : s'.mainSrc = s.mainSrc) (m : ModPath) (hm : GoodName m)
    (hnr : (transpile L E f s m).1 ≠ .error .recursion) (hnr' : (transpile L E f' s' m).1 ≠ .error .recursion) :
    (transpile L E f s m).1 = (transpile L E f' s' m).1 := by
  have hSt := reach_stable L E B rank TreeOk hW f s₀ s h0 hreach
  have hSt' := reach_stable L E B rank TreeOk hW f' s₀' s' h0' hreach'
  have hs : srcOf L E s' = srcOf L E s := srcOf_congr L E s s' hsrc
  obtain ⟨n, hn⟩ := determined L E B rank TreeOk hW s hSt.2.mainAcyclic m
  rcases hn with ⟨T, hT⟩ | ⟨e, he⟩
  · obtain ⟨t, ht, hr⟩ := transpile_det L E B rank TreeOk hW hR f s m hm hSt n T hT hnr
    obtain ⟨t', ht', hr'⟩ := transpile_det L E B rank TreeOk hW hR f' s' m hm hSt' n T (by rw [hs]; exact hT) hnr'
    rw [hs, ht] at ht'
    cases ht'
    rw [hr, hr', hs]
  · rw [transpile_det_err L E B rank TreeOk hW f s m hm hSt n e he hnr,
      transpile_det_err L E B rank TreeOk hW f' s' m hm hSt' n e (by rw [hs]; exact he) hnr']

/-- `StableU` (stable, or: only base modules are registered and they hold their base tables) is preserved by EVERY
    operation with well-formed names — also by unloading library modules, whose cascade removes every non-library module. -/
theorem inv_stableU (hW : World L E B rank TreeOk) (hBW : BaseWorld L E B rank TreeOk) (f : Nat) (s : St L) (op : Op Src)
    (hop : OpAny L E rank TreeOk op) (hSt : StableU L E B rank TreeOk s) (hnr : (step L E f s op).1 ≠ .error .recursion) :
    StableU L E B rank TreeOk (step L E f s op).2 :=
  step_stableU L E B rank TreeOk hW hBW f s op hop hSt hnr

/-- DETERMINISM over all histories INCLUDING unloads of library modules, for every module outside the library base.
    Additional hypothesis `BaseWorld`: the base is what the libraries reach, and loading base modules while only base
    modules are registered restores their base tables (how the library stubs load in each other's half-loaded context is
    not derived in the model; the correspondence streams and the search exercise it on the real code). -/
theorem det_all (hW : World L E B rank TreeOk) (hBW : BaseWorld L E B rank TreeOk) (hR : RenderLocal L B TreeOk)
    (f f' : Nat) (s₀ s s₀' s' : St L)
    (h0 : StableU L E B rank TreeOk s₀) (hreach : ReachU L E rank TreeOk f s₀ s)
    (h0' : StableU L E B rank TreeOk s₀') (hreach' : ReachU L E rank TreeOk f' s₀' s')
    (hsrc : s'.mainSrc = s.mainSrc) (m : ModPath) (hm : GoodName m) (hmB : m ∉ B.mods)
    (hnr : (transpile L E f s m).1 ≠ .error .recursion) (hnr' : (transpile L E f' s' m).1 ≠ .error .recursion) :
    (transpile L E f s m).1 = (transpile L E f' s' m).1 := by
  have hSt := reach_stableU L E B rank TreeOk hW hBW f s₀ s h0 hreach
  have hSt' := reach_stableU L E B rank TreeOk hW hBW f' s₀' s' h0' hreach'
  have hs : srcOf L E s' = srcOf L E s := srcOf_congr L E s s' hsrc
  have hmain : SrcAcyclic L E rank TreeOk s.mainSrc := by rcases hSt with h | h <;> exact h.2.mainAcyclic
  obtain ⟨n, hn⟩ := determined L E B rank TreeOk hW s hmain m
  obtain ⟨hT1, hE1⟩ := transpile_detU L E B rank TreeOk hW hBW hR f s m hm hmB hSt hnr
  obtain ⟨hT2, hE2⟩ := transpile_detU L E B rank TreeOk hW hBW hR f' s' m hm hmB hSt' hnr'
  rcases hn with ⟨T, hT⟩ | ⟨e, he⟩
  · obtain ⟨t, ht, hr⟩ := hT1 n T hT
    obtain ⟨t', ht', hr'⟩ := hT2 n T (by rw [hs]; exact hT)
    rw [hs, ht] at ht'
    cases ht'
    rw [hr, hr', hs]
  · rw [hE1 n e he, hE2 n e (by rw [hs]; exact he)]

/-- `unload m; load m` gives `m` the state of a fresh load: registered, the tree of its source, exactly its reference
    table — the same as `load m` in any other stable state (e.g. a fresh process). -/
theorem unload_load (hW : World L E B rank TreeOk) (f : Nat) (s : St L) (m : ModPath) (hm : GoodName m)
    (hSt : Stable L E B rank TreeOk s) (hmB : m ∉ B.mods)
    (n : Nat) (T : List (Key × V)) (hT : refTbl L B (srcOf L E s) n m = some T)
    (hnr : (loadAll L E f [m] (unload L E s m)).1 ≠ .error .recursion) :
    (loadAll L E f [m] (unload L E s m)).1 = .ok () ∧
    m ∈ (loadAll L E f [m] (unload L E s m)).2.mods ∧
    tableOf (loadAll L E f [m] (unload L E s m)).2.db m = T ∧
    ∃ ep, alookup (loadAll L E f [m] (unload L E s m)).2.eps m = some ep ∧ (srcOf L E s m).bind L.parse = some ep.tree := by
  have hSt1 : Stable L E B rank TreeOk (unload L E s m) := by
    have := step_stable L E B rank TreeOk hW f s (.unload m) hmB hSt (by simp [step])
    simpa [step] using this
  have hsrc : srcOf L E (unload L E s m) = srcOf L E s := srcOf_congr L E s _ (unload_sub L E s m).mainSrc
  have := load_table L E B rank TreeOk hW f (unload L E s m) m hm hSt1 n T (by rw [hsrc]; exact hT) hnr
  rw [hsrc] at this
  exact this

/-- Runner: every file the runner writes is the reference output of its target, wherever the target stands in the list. -/
theorem targets_sound (hW : World L E B rank TreeOk) (hR : RenderLocal L B TreeOk) (f N : Nat) (ts : List ModPath) (s : St L)
    (hSt : Stable L E B rank TreeOk s) (hts : ∀ m, m ∈ ts → GoodName m ∧ ∃ T, refTbl L B (srcOf L E s) N m = some T)
    (hnr : ∀ mr, mr ∈ (runner L E f s ts).1 → mr.2 ≠ .error .recursion) :
    ∀ mr, mr ∈ (runner L E f s ts).1 → ∃ t, (srcOf L E s mr.1).bind L.parse = some t ∧
      mr.2 = (L.render mr.1 (L.query t) (refLookAll L B (srcOf L E s) N)).1 :=
  runner_det L E B rank TreeOk hW hR f N ts s hSt hts hnr

/-- Permutation equivariance of the target list: two runs over permuted target lists in which no target fails produce
    the same (target, text) pairs. -/
theorem targets (hW : World L E B rank TreeOk) (hR : RenderLocal L B TreeOk) (f N : Nat) (ts ts' : List ModPath) (s : St L)
    (hperm : ts.Perm ts') (hSt : Stable L E B rank TreeOk s)
    (hts : ∀ m, m ∈ ts → GoodName m ∧ ∃ T, refTbl L B (srcOf L E s) N m = some T)
    (hok : ∀ mr, mr ∈ (runner L E f s ts).1 → ∃ t, mr.2 = .ok t)
    (hok' : ∀ mr, mr ∈ (runner L E f s ts').1 → ∃ t, mr.2 = .ok t) :
    ∀ mr, mr ∈ (runner L E f s ts).1 ↔ mr ∈ (runner L E f s ts').1 := by
  have hts' : ∀ m, m ∈ ts' → GoodName m ∧ ∃ T, refTbl L B (srcOf L E s) N m = some T :=
    fun m hm => hts m (hperm.mem_iff.2 hm)
  have hnr : ∀ (l : List ModPath), (∀ mr, mr ∈ (runner L E f s l).1 → ∃ t, mr.2 = .ok t) →
      ∀ mr, mr ∈ (runner L E f s l).1 → mr.2 ≠ .error .recursion := by
    intro l h mr hmr e
    obtain ⟨t, ht⟩ := h mr hmr
    rw [ht] at e; cases e
  have h1 := runner_det L E B rank TreeOk hW hR f N ts s hSt hts (hnr ts hok)
  have h2 := runner_det L E B rank TreeOk hW hR f N ts' s hSt hts' (hnr ts' hok')
  have c1 := runner_complete L E f ts s hok
  have c2 := runner_complete L E f ts' s hok'
  have key : ∀ (l l' : List ModPath), (∀ m, m ∈ l → m ∈ l') →
      (∀ mr, mr ∈ (runner L E f s l).1 → ∃ t, (srcOf L E s mr.1).bind L.parse = some t ∧
        mr.2 = (L.render mr.1 (L.query t) (refLookAll L B (srcOf L E s) N)).1) →
      (∀ mr, mr ∈ (runner L E f s l').1 → ∃ t, (srcOf L E s mr.1).bind L.parse = some t ∧
        mr.2 = (L.render mr.1 (L.query t) (refLookAll L B (srcOf L E s) N)).1) →
      (runner L E f s l).1.map Prod.fst = l → (runner L E f s l').1.map Prod.fst = l' →
      ∀ mr, mr ∈ (runner L E f s l).1 → mr ∈ (runner L E f s l').1 := by
    intro l l' hsub ha hb ca cb mr hmr
    have hm : mr.1 ∈ l := by rw [← ca]; exact List.mem_map_of_mem hmr
    have hm' : mr.1 ∈ (runner L E f s l').1.map Prod.fst := by rw [cb]; exact hsub _ hm
    obtain ⟨mr', hmr', e⟩ := List.mem_map.1 hm'
    obtain ⟨t, ht, hr⟩ := ha mr hmr
    obtain ⟨t', ht', hr'⟩ := hb mr' hmr'
    rw [e, ht] at ht'
    cases ht'
    have : mr' = mr := by
      obtain ⟨a, b⟩ := mr; obtain ⟨a', b'⟩ := mr'
      simp only at e hr hr'
      subst e
      rw [hr, hr']
    exact this ▸ hmr'
  intro mr
  exact ⟨key ts ts' (fun m hm => hperm.mem_iff.1 hm) h1 h2 c1 c2 mr, key ts' ts (fun m hm => hperm.mem_iff.2 hm) h2 h1 c2 c1 mr⟩

end

/-! ### the hypotheses are satisfiable, and the three former counterexamples are regression cases -/

namespace Witness
def a : ModPath := ['a','p','p','.','a']
def ab : ModPath := ['a','p','p','.','a','b']
def main : ModPath := ['_','_','m','a','i','n','_','_']
/-- `app/a.py`: `class A0:` with `def g(self, x: int) -> int: return x` -/
def descA : Desc := { classes := [{ name := ['A','0'], methods := [{ name := ['g'] }] }] }
/-- `app/ab.py`: `from app.a import Nope` / `class Ab0: ...` -/
def descAbBad : Desc := { imports := [(a, ['N','o','p','e'])], classes := [{ name := ['A','b','0'] }] }
/-- `app/ab.py`: `from app.a import A0` / `class Ab0:` with `def g(self, x): b = A0(); return b.g(x)` -/
def descAbCall : Desc :=
  { imports := [(a, ['A','0'])], classes := [{ name := ['A','b','0'], methods := [{ name := ['g'], call := some (a, ['A','0'], ['g']) }] }] }
def envRetry : Env Desc := poolEnv [(a, descA), (ab, descAbBad)] [] main
def envUnload : Env Desc := poolEnv [(a, descA), (ab, descAbCall)] [] main
def init : State Desc Desc Desc Str Str := { mainSrc := {} }

theorem namesRetry : Names descLang envRetry :=
  poolNames _ _ _ (by decide) (by decide) (by decide)
theorem namesUnload : Names descLang envUnload :=
  poolNames _ _ _ (by decide) (by decide) (by decide)

/-- `app/ab.py`: `from app.a import A0` and `def attach(self, v: int) -> int` (the load dies with an unexpected exception) -/
def descAbCrash : Desc := { imports := [(a, ['A','0'])], classes := [{ name := ['A','b','0'], methods := [{ name := ['g'] }] }], crash := true }
def abc : ModPath := ['a','p','p','.','a','b','c']
/-- `app/abc.py`: `from app.ab import Ab0`, uses it -/
def descAbcUser : Desc :=
  { imports := [(ab, ['A','b','0'])], classes := [{ name := ['A','b','c','0'], methods := [{ name := ['g'], call := some (ab, ['A','b','0'], ['g']) }] }] }
def envCrash : Env Desc := poolEnv [(a, descA), (ab, descAbCrash), (abc, descAbcUser)] [] main

/-- non-vacuity of `failed_load_leaves_no_residue` for the unexpected-exception kind: the load of `app.ab` fails with Fatal, its
    hypotheses hold, only the import `app.a` (complete) stays; the importer `app.abc` fails with Fatal the first AND the second
    time it is asked for, and a fresh process says the same -/
example :
    (step descLang envCrash 30 init (.load ab)).1 = .error .loadFatal ∧ ab ∉ init.mods ∧
    ab ∉ (loadAll descLang envCrash 29 envCrash.libs init).2.mods ∧
    (step descLang envCrash 30 init (.load ab)).2.mods = [a] ∧
    (let s1 := (step descLang envCrash 30 init (.transpile abc)).2
     (step descLang envCrash 30 init (.transpile abc)).1 = .error .loadFatal ∧
     (step descLang envCrash 30 s1 (.transpile abc)).1 = .error .loadFatal ∧ s1.mods = [a]) := by
  decide +kernel

/-- non-vacuity of `unload_resets` / `inventory_unload`: after `transpile app.ab` both modules are registered, with entrypoints,
    symbols, completed flags and identities (nothing of which is left after `unload app.a`, whose cascade takes `app.ab` too) -/
example :
    let s := run descLang envUnload 30 init [.transpile ab]
    a ∈ s.mods ∧ ab ∈ s.mods ∧ (alookup s.eps a).isSome ∧ a ∈ s.completed ∧ a ∈ s.ident ∧ s.db.any (fun kv => modOf kv.1 == a)
      ∧ (unload descLang envUnload s a).mods = [] := by
  decide +kernel
end Witness

namespace Witness
def B0 : Base Str := ⟨[], fun _ => []⟩
def rk : ModPath → Nat := List.length
def pool : List (ModPath × Desc) := [(a, descA), (ab, descAbCall)]
def poolRetry : List (ModPath × Desc) := [(a, descA), (ab, descAbBad)]

theorem poolOk : PoolOk B0 rk pool main where
  tree := by decide
  rank := by decide
  main_disk := by decide
  main_name := by decide
  main_base := by decide
  no_main := by decide
  base_closed := by decide

theorem poolRetryOk : PoolOk B0 rk poolRetry main where
  tree := by decide
  rank := by decide
  main_disk := by decide
  main_name := by decide
  main_base := by decide
  no_main := by decide
  base_closed := by decide

theorem world : World descLang envUnload B0 rk (descTreeOk B0) := descWorld B0 rk pool main poolOk
theorem worldRetry : World descLang envRetry B0 rk (descTreeOk B0) := descWorld B0 rk poolRetry main poolRetryOk

theorem initStable : Stable descLang envUnload B0 rk (descTreeOk B0) init :=
  desc_init_stable rk pool main {} (by decide) (by decide)

/-- `BaseWorld` is satisfiable (here: the world without pinned base) -/
theorem baseWorld0 : BaseWorld descLang envUnload B0 rk (descTreeOk B0) where
  reach b hb := by simp [B0] at hb
  load f s ps hSt hps hnr := by
    have : ps = [] := by
      cases ps with
      | nil => rfl
      | cons p rest => have := hps p (by simp); simp [B0] at this
    subst this
    cases f <;> exact ⟨rfl, hSt⟩

/-- `app.ab` (which calls into `app.a`) is good: it has a reference table at import depth 2 -/
theorem abGood : (refTbl descLang B0 (srcOf descLang envUnload init) 2 ab).isSome = true := by decide +kernel

/-- with `from app.a import Nope` it has the reference error SymbolNotDefined -/
theorem abBadErr : refErr descLang B0 (srcOf descLang envRetry init) 2 ab = some .symbolNotDefined := by decide +kernel

def lib : ModPath := ['l','i','b']
def typ : ModPath := ['t','y','p']
/-- a library module that imports `typ` (like `classes.py` imports `typing`) -/
def descLib : Desc := { imports := [(typ, [])], classes := [{ name := ['X'] }] }
def descTyp : Desc := { classes := [{ name := ['T'] }] }
def envLib : Env Desc := poolEnv [(lib, descLib), (typ, descTyp), (a, descA)] [lib] main
def e : ModPath := ['a','p','p','.','e']
def envEmpty : Env Desc := poolEnv [(e, {})] [] main
end Witness

open Witness in
/-- non-vacuity of `det` / `det_ref` / `inv_stable` / `targets`: in the state after `transpile app.a; transpile app.ab;
    unload app.a` (which now also unloads the importer `app.ab`) `; load app.ab` the module `app.ab` transpiles to what a
    fresh process gives, and that is a text -/
example :
    let s := run descLang envUnload 30 init [.transpile a, .transpile ab, .unload a, .load ab]
    (transpile descLang envUnload 30 s ab).1 = (transpile descLang envUnload 30 init ab).1 ∧
    (transpile descLang envUnload 30 s ab).1.toOption.isSome = true := by
  exact ⟨by decide +kernel, by decide +kernel⟩

open Witness in
/-- Regression 1 (corpus/C04/failed-load-retry.json, repo fix 153b103): the failing first `transpile app.ab` is rolled back;
    the second one raises the same SymbolNotDefined as a fresh process, nothing stays registered. -/
example :
    let s := run descLang envRetry 30 init [.transpile ab]
    (transpile descLang envRetry 30 s ab).1 = (transpile descLang envRetry 30 init ab).1 ∧
    (transpile descLang envRetry 30 s ab).1 = .error .symbolNotDefined ∧ ab ∉ s.mods := by
  exact ⟨by decide +kernel, by decide +kernel, by decide +kernel⟩

open Witness in
/-- Regression 2 (corpus/C04/dep-unloaded.json, repo fix 023f8e8): `unload app.a` cascades to its importer `app.ab`;
    the next `transpile app.ab` reloads both and equals the fresh result. -/
example :
    let s := run descLang envUnload 30 init [.transpile ab, .unload a]
    (transpile descLang envUnload 30 s ab).1 = (transpile descLang envUnload 30 init ab).1 ∧ s.mods = [] := by
  exact ⟨by decide +kernel, by decide +kernel⟩

open Witness in
/-- Regression 3 (corpus/C04/lib-closure-first.json, repo fix f3f812f): a module that the library modules import is loaded
    by the library load itself; `Modules.load` re-checks the registry, so the fresh result is a text like in a session. -/
example :
    (transpile descLang envLib 30 (run descLang envLib 30 init [.transpile a]) typ).1 = (transpile descLang envLib 30 init typ).1 ∧
    (transpile descLang envLib 30 init typ).1.toOption.isSome = true := by
  exact ⟨by decide +kernel, by decide +kernel⟩

open Witness in
/-- non-vacuity of `unload_exact` on the prefix pair: unloading `app.a` leaves the table of `app.ab` (which does not
    import it here) untouched -/
example :
    let s : State Desc Desc Desc Str Str :=
      { mainSrc := {}, mods := [a, ab], eps := [(a, ⟨{}, []⟩), (ab, ⟨{}, []⟩)],
        db := [(fullJoined a ['A'], ['x']), (fullJoined ab ['A'], ['y'])] }
    (unload descLang envUnload s a).db = [(fullJoined ab ['A'], ['y'])] ∧ (unload descLang envUnload s a).mods = [ab] := by
  decide +kernel

open Witness in
/-- `unload_load` deliberately says nothing about `SymbolDB.completed`: for a module without symbols the reload takes the
    RestoreSymbols path, `import_json` of an empty file marks nothing, and the flag differs from a fresh load. The flag has
    no consumer in tranp (db.py:125-142 is only written), the correspondence stream observes it. -/
example :
    ((run descLang envEmpty 30 init [.load e]).completed, (run descLang envEmpty 30 init [.load e, .unload e, .load e]).completed)
      = ([e], []) := by
  decide +kernel

open Witness in
/-- non-vacuity of `stack_frames`: a failing render leaves one frame on each stack, the next successful transpile leaves them alone -/
example :
    let s := run descLang envUnload 30 init [.transpile ab, .resubmit { classes := [{ name := ['M'], methods := [{ name := ['g'], badName := true }] }] }]
    s.deps.length = 1 ∧ s.proc.length = 1 ∧ (run descLang envUnload 30 s [.transpile a]).deps.length = 1 := by
  decide +kernel

/-! ### the shipped library closure (generated from the sources on every run) -/

/-- `BaseWorld.reach` for the shipped closure: every module of it is reached from `library_paths()` through imports of files -/
theorem lib_closure_reach : ∀ b, b ∈ libNames → LibReach descLang libEnv b := by
  intro b hb
  have h : libNames.all (fun b => decide (b ∈ reachN descLang libEnv 2)) = true := by decide +kernel
  exact reachN_sound descLang libEnv 2 b (by simpa using List.all_eq_true.1 h b hb)

/-- `World.libs_base` and `World.base_closed` for the shipped closure: the libraries are in it, and every import of a file of the
    closure is a module of the closure -/
theorem lib_closure_closed :
    (∀ l, l ∈ libEnv.libs → l ∈ libNames) ∧
    (∀ y, y ∈ libNames → ∀ src t, libEnv.disk y = some src → descLang.parse src = some t → ∀ b, b ∈ descLang.imports t → b ∈ libNames) := by
  have h1 : libEnv.libs.all (fun l => decide (l ∈ libNames)) = true := by decide +kernel
  have h2 : libPool.all (fun yd => yd.2.imports.all (fun mn => decide (mn.1 ∈ libNames))) = true := by decide +kernel
  refine ⟨fun l hl => by simpa using List.all_eq_true.1 h1 l hl, ?_⟩
  intro y _ src t hd hp b hb
  have hmem : (y, src) ∈ libPool := alookup_mem (by simpa [libEnv, poolEnv] using hd)
  have hsrc := List.all_eq_true.1 h2 (y, src) hmem
  simp only [descLang] at hp hb
  split at hp
  · cases hp
    simp only [List.mem_map] at hb
    obtain ⟨mn, hmn, e⟩ := hb
    have := List.all_eq_true.1 hsrc mn hmn
    subst e
    simpa using this
  · cases hp

/-- FULL statement (not proved; `baseWorld_load_shipped_partial` is its bounded part): the hypothesis `BaseWorld.load` of `det_all` on the
    shipped closure for histories of ANY length. Below: the bounded instance of the hypothesis `BaseWorld.load` of `det_all` on the shipped closure: after EVERY history of at most three
    operations (load / transpile / unload of any module of the closure) from a fresh process, loading the closure succeeds, registers
    nothing else, completes every module and gives every module the table of a plain load in a fresh process. (The hypothesis
    itself — every reachable base-only state, every fuel — stays a hypothesis: the closure loads through modules that are still
    in the middle of being loaded, which the acyclic reference semantics does not cover.) -/
def baseWorld_load_shipped_statement : Prop :=
  ∀ h : List (Op Desc), (∀ op, op ∈ h → op ∈ libOps) → libLoadOk h = true

/-- the part of `baseWorld_load_shipped_statement` that the kernel decides: histories of at most three operations -/
theorem baseWorld_load_shipped_partial : ∀ h, h ∈ libHistories → libLoadOk h = true := by
  decide +kernel

/-- non-vacuity: the closure is not empty, the histories include unloading a library module after loading a dependent one, and
    the tables compared are not empty -/
example : libNames.length ≥ 2 ∧ libHistories.length = 1 + libOps.length + libOps.length * libOps.length + libOps.length * libOps.length * libOps.length ∧
    libNames.all (fun b => decide ((tableOf libCanon.db b).length ≥ 4)) = true := by
  decide +kernel

end Tranp.C04
