/-
  Property C04 — Output is deterministic and independent of session history.
  Property theorems only; definitions and helper lemmas live in Tranp/Lemmas/Session.lean.
-/
import Tranp.Lemmas.SessionRef

namespace Tranp.C04
open Tranp Tranp.Session

section
variable {Src Tree NV V Text : Type} (L : Lang Src Tree NV V Text) (E : Env Src)

/-- `Coherent`: every memo entry equals the pure node function on the tree of its entrypoint, every entrypoint / cached
    AST is the parse of the current source, the symbol table holds keys of registered modules only, symbol files hold
    keys of their own module only, every entrypoint belongs to a registered module. It holds in a fresh process and is
    preserved by every operation — also by the ones that raise half-way. -/
theorem inv (hN : Names L E) (f : Nat) :
    (∀ src, SrcOk L src → Coherent L E ({ mainSrc := src } : St L)) ∧
    (∀ s op, Op.wf L op → Coherent L E s → Coherent L E (step L E f s op).2) :=
  ⟨fun src hsrc => init_coherent L E src hsrc, fun s op hop hC => step_coherent L E hN f s op hop hC⟩

/-- `load m` changes no observation of an already registered module: its entrypoint (tree and memo tables), its symbol
    table entries, its completed flag, the stored symbol files and both transpiler stacks stay as they were —
    whether the load succeeds or raises. -/
theorem frame (hN : Names L E) (f : Nat) (s : St L) (m : ModPath) (hm : GoodName m) (hC : Coherent L E s) :
    Frame L s (step L E f s (.load m)).2 := by
  simp only [step]
  obtain ⟨_, hF, _⟩ := loadAll_inv L E hN f [m] s (by intro p hp; simp at hp; exact hp ▸ hm) hC.1 hC.2.2
  generalize loadAll L E f [m] s = r at hF
  obtain ⟨rr, s1⟩ := r
  cases rr <;> exact hF

end

/-- non-vacuity of `inv` / `frame`: the descriptor language satisfies the name hypotheses for a pool with prefix names -/
example : GoodName ['a','p','p','.','a'] ∧ GoodName ['a','p','p','.','a','b'] := by
  refine ⟨⟨by simp, by simp⟩, ⟨by simp, by simp⟩⟩

section
variable {Src Tree NV V Text : Type} (L : Lang Src Tree NV V Text)

/-- `unload m` removes everything keyed by `m`: the module, its entrypoint, its completed flag and every symbol whose
    key is tagged `m` -/
theorem unload_clears (s : St L) (m : ModPath) (hm : m ∈ s.mods) :
    m ∉ (unload L s m).mods ∧ alookup (unload L s m).eps m = none ∧ m ∉ (unload L s m).completed ∧
    tableOf (unload L s m).db m = [] ∧ hasModule (unload L s m).db m = false := by
  simp only [unload, hm, if_true]
  refine ⟨by simp, by simp [alookup_aerase], by simp, ?_, ?_⟩
  · simp [tableOf, List.filter_filter]
  · simp [hasModule]

/-- … and nothing else: every other module keeps its registration, entrypoint, completed flag and table -/
theorem unload_frame (s : St L) (m x : ModPath) (hx : x ≠ m) :
    (x ∈ (unload L s m).mods ↔ x ∈ s.mods) ∧ alookup (unload L s m).eps x = alookup s.eps x ∧
    (x ∈ (unload L s m).completed ↔ x ∈ s.completed) ∧ tableOf (unload L s m).db x = tableOf s.db x := by
  unfold unload
  split
  · refine ⟨by simp [hx], by simp [alookup_aerase, hx], by simp [hx], ?_⟩
    simp only [tableOf, List.filter_filter]
    congr 1
    funext kv
    by_cases h : modOf kv.1 = x
    · simp [h, hx]
    · simp [h]
  · exact ⟨Iff.rfl, rfl, Iff.rfl, rfl⟩

/-- the same at the level of key strings: for module names without `#` the keys `full_joined(m, l)` all disappear and the
    keys `full_joined(m', l)` of every other module — also one whose name has `m` as a string prefix, `app.a` / `app.ab` —
    all stay -/
theorem unload_exact (s : St L) (m m' : ModPath) (hm : m ∈ s.mods) (hgm : GoodName m) (hgm' : GoodName m') (hne : m' ≠ m)
    (l : Str) (v : V) :
    (fullJoined m l, v) ∉ (unload L s m).db ∧
    ((fullJoined m' l, v) ∈ s.db → (fullJoined m' l, v) ∈ (unload L s m).db) := by
  simp only [unload, hm, if_true, List.mem_filter, decide_eq_true_eq]
  refine ⟨fun h => h.2 (modOf_fullJoined m l hgm), fun h => ⟨h, ?_⟩⟩
  rw [modOf_fullJoined m' l hgm']
  exact hne

end

/-- non-vacuity of `unload_exact` on the prefix pair: after unloading `app.a` the table of `app.ab` is untouched -/
example :
    let s : State Desc Desc Desc Str Str :=
      { mainSrc := {}, mods := [['a','p','p','.','a'], ['a','p','p','.','a','b']],
        db := [(fullJoined ['a','p','p','.','a'] ['A'], ['x']), (fullJoined ['a','p','p','.','a','b'] ['A'], ['y'])] }
    (unload descLang s ['a','p','p','.','a']).db = [(fullJoined ['a','p','p','.','a','b'] ['A'], ['y'])] := by
  decide +kernel

section
variable {Src Tree NV V Text : Type} (L : Lang Src Tree NV V Text) (E : Env Src)

/-- Both transpiler stacks (`Py2Cpp.__stack_on_depends`, `Procedure.__stacks`): every `transpile` works on a fresh top frame;
    a successful one leaves both stacks as they were, a failing one leaves at most its own frame on top (no try/finally in
    the code) and never touches the frames below. The renderer never reads a stale frame (in the model: `render` has no
    stack argument; in the code only `[-1]` of a just-pushed `[]` is read). -/
theorem stack_frames (hN : Names L E) (f : Nat) (s : St L) (m : ModPath) (hm : GoodName m) (hC : Coherent L E s) :
    ((transpile L E f s m).2.deps = s.deps ∧ (transpile L E f s m).2.proc = s.proc) ∨
    (∃ e d p, (transpile L E f s m).1 = .error e ∧ (transpile L E f s m).2.deps = d :: s.deps ∧ (transpile L E f s m).2.proc = p :: s.proc) := by
  unfold transpile
  obtain ⟨_, hF1, _, _⟩ := loadAll_inv L E hN f [m] s (by intro p hp; simp at hp; exact hp ▸ hm) hC.1 hC.2.2
  generalize loadAll L E f [m] s = r at hF1
  obtain ⟨rr, s1⟩ := r
  cases rr with
  | error e => exact Or.inl ⟨hF1.deps, hF1.proc⟩
  | ok u =>
    simp only
    cases alookup s1.eps m with
    | none => exact Or.inl ⟨hF1.deps, hF1.proc⟩
    | some ep =>
      simp only
      cases hr : (L.render m (Ep.nf L ep) (alookup s1.db)).1 with
      | ok t => exact Or.inl ⟨hF1.deps, hF1.proc⟩
      | error e =>
        refine Or.inr ⟨e, (L.render m (Ep.nf L ep) (alookup s1.db)).2.1, (L.render m (Ep.nf L ep) (alookup s1.db)).2.2, rfl, ?_, ?_⟩
        · simp only; rw [hF1.deps]
        · simp only; rw [hF1.proc]

end

/-! ### determinism: what holds on the current code -/

section
variable {Src Tree NV V Text : Type} (L : Lang Src Tree NV V Text) (E : Env Src) (B : Base V) (rank : ModPath → Nat) (TreeOk : Tree → Prop)

/-- `Stable` = `Coherent` + every registered module that has a reference table (it and its imports parse, no cycle, no
    missing name: `Good`) holds exactly that table, its imports are registered, every symbol file equals the reference
    table. Preserved by every *safe* operation (an `unload m` is safe when no registered module imports `m`), also by the
    ones that raise. -/
theorem inv_settled (hW : World L E B rank TreeOk) (f : Nat) (s : St L) (op : Op Src) (hop : SafeOp L E B rank TreeOk s op)
    (hSt : Stable L E B rank TreeOk s) (hnr : (step L E f s op).1 ≠ .error .recursion) :
    Stable L E B rank TreeOk (step L E f s op).2 :=
  step_stable L E B rank TreeOk hW f s op hop hSt hnr

/-- PROVED PART of determinism. In every state reachable from a stable state `s₀` (a fresh process, or a process with the
    library modules loaded) by safe operations, `transpile m` of a good module returns
    `render m tree(m) (reference tables)` — a function of the current sources alone. The history, the order of earlier
    loads / transpiles / unloads / re-submissions, and which operations failed do not enter. -/
theorem det_partial (hW : World L E B rank TreeOk) (hR : RenderLocal L B TreeOk) (f : Nat) (s₀ s : St L)
    (h0 : Stable L E B rank TreeOk s₀) (hreach : SafeReach L E B rank TreeOk f s₀ s)
    (m : ModPath) (hm : GoodName m) (n : Nat) (T : List (Key × V)) (hT : refTbl L B (srcOf L E s) n m = some T)
    (hnr : (transpile L E f s m).1 ≠ .error .recursion) :
    ∃ t, (srcOf L E s m).bind L.parse = some t ∧
      (transpile L E f s m).1 = (L.render m (L.query t) (refLookAll L B (srcOf L E s) n)).1 :=
  transpile_det L E B rank TreeOk hW hR f s m hm (reach_stable L E B rank TreeOk hW f s₀ s h0 hreach) n T hT hnr

/-- `unload m; load m` gives `m` the state of a fresh load: registered, the tree of its source, exactly its reference
    table — the same as `load m` in any other stable state (e.g. a fresh process). -/
theorem unload_load (hW : World L E B rank TreeOk) (f : Nat) (s : St L) (m : ModPath) (hm : GoodName m)
    (hSt : Stable L E B rank TreeOk s) (hsafe : SafeOp L E B rank TreeOk s (.unload m))
    (n : Nat) (T : List (Key × V)) (hT : refTbl L B (srcOf L E s) n m = some T)
    (hnr : (loadAll L E f [m] (unload L s m)).1 ≠ .error .recursion) :
    (loadAll L E f [m] (unload L s m)).1 = .ok () ∧
    m ∈ (loadAll L E f [m] (unload L s m)).2.mods ∧
    tableOf (loadAll L E f [m] (unload L s m)).2.db m = T ∧
    ∃ ep, alookup (loadAll L E f [m] (unload L s m)).2.eps m = some ep ∧ (srcOf L E s m).bind L.parse = some ep.tree := by
  have hSt1 : Stable L E B rank TreeOk (unload L s m) := by
    have := step_stable L E B rank TreeOk hW f s (.unload m) hsafe hSt (by simp [step])
    simpa [step] using this
  have hsrc : srcOf L E (unload L s m) = srcOf L E s := by
    apply srcOf_congr; unfold unload; split <;> rfl
  have := load_table L E B rank TreeOk hW f (unload L s m) m hm hSt1 n T (by rw [hsrc]; exact hT) hnr
  rw [hsrc] at this
  exact this

/-- Runner: every file the runner writes is the reference output of its target, wherever the target stands in the list. -/
theorem targets_sound (hW : World L E B rank TreeOk) (hR : RenderLocal L B TreeOk) (f N : Nat) (ts : List ModPath) (s : St L)
    (hSt : Stable L E B rank TreeOk s) (hts : ∀ m, m ∈ ts → GoodName m ∧ ∃ T, refTbl L B (srcOf L E s) N m = some T)
    (hnr : ∀ mr, mr ∈ (runner L E f s ts).1 → mr.2 ≠ .error .recursion) :
    ∀ mr, mr ∈ (runner L E f s ts).1 → ∃ t, (srcOf L E s mr.1).bind L.parse = some t ∧
      mr.2 = (L.render mr.1 (L.query t) (refLookAll L B (srcOf L E s) N)).1 :=
  runner_det L E B rank TreeOk hW hR f N ts s hSt hts hnr

/-- Permutation equivariance of the target list: two runs over permuted target lists in which no target fails produce
    the same (target, text) pairs. -/
theorem targets (hW : World L E B rank TreeOk) (hR : RenderLocal L B TreeOk) (f N : Nat) (ts ts' : List ModPath) (s : St L)
    (hperm : ts.Perm ts') (hSt : Stable L E B rank TreeOk s)
    (hts : ∀ m, m ∈ ts → GoodName m ∧ ∃ T, refTbl L B (srcOf L E s) N m = some T)
    (hok : ∀ mr, mr ∈ (runner L E f s ts).1 → ∃ t, mr.2 = .ok t)
    (hok' : ∀ mr, mr ∈ (runner L E f s ts').1 → ∃ t, mr.2 = .ok t) :
    ∀ mr, mr ∈ (runner L E f s ts).1 ↔ mr ∈ (runner L E f s ts').1 := by
  have hts' : ∀ m, m ∈ ts' → GoodName m ∧ ∃ T, refTbl L B (srcOf L E s) N m = some T :=
    fun m hm => hts m (hperm.mem_iff.2 hm)
  have hnr : ∀ (l : List ModPath), (∀ mr, mr ∈ (runner L E f s l).1 → ∃ t, mr.2 = .ok t) →
      ∀ mr, mr ∈ (runner L E f s l).1 → mr.2 ≠ .error .recursion := by
    intro l h mr hmr e
    obtain ⟨t, ht⟩ := h mr hmr
    rw [ht] at e; cases e
  have h1 := runner_det L E B rank TreeOk hW hR f N ts s hSt hts (hnr ts hok)
  have h2 := runner_det L E B rank TreeOk hW hR f N ts' s hSt hts' (hnr ts' hok')
  have c1 := runner_complete L E f ts s hok
  have c2 := runner_complete L E f ts' s hok'
  -- both result lists are `target ↦ reference result`; membership is decided by the target alone
  have key : ∀ (l l' : List ModPath), (∀ m, m ∈ l → m ∈ l') →
      (∀ mr, mr ∈ (runner L E f s l).1 → ∃ t, (srcOf L E s mr.1).bind L.parse = some t ∧
        mr.2 = (L.render mr.1 (L.query t) (refLookAll L B (srcOf L E s) N)).1) →
      (∀ mr, mr ∈ (runner L E f s l').1 → ∃ t, (srcOf L E s mr.1).bind L.parse = some t ∧
        mr.2 = (L.render mr.1 (L.query t) (refLookAll L B (srcOf L E s) N)).1) →
      (runner L E f s l).1.map Prod.fst = l → (runner L E f s l').1.map Prod.fst = l' →
      ∀ mr, mr ∈ (runner L E f s l).1 → mr ∈ (runner L E f s l').1 := by
    intro l l' hsub ha hb ca cb mr hmr
    have hm : mr.1 ∈ l := by rw [← ca]; exact List.mem_map_of_mem hmr
    have hm' : mr.1 ∈ (runner L E f s l').1.map Prod.fst := by rw [cb]; exact hsub _ hm
    obtain ⟨mr', hmr', e⟩ := List.mem_map.1 hm'
    obtain ⟨t, ht, hr⟩ := ha mr hmr
    obtain ⟨t', ht', hr'⟩ := hb mr' hmr'
    rw [e, ht] at ht'
    cases ht'
    have : mr' = mr := by
      obtain ⟨a, b⟩ := mr; obtain ⟨a', b'⟩ := mr'
      simp only at e hr hr'
      subst e
      rw [hr, hr']
    exact this ▸ hmr'
  intro mr
  exact ⟨key ts ts' (fun m hm => hperm.mem_iff.1 hm) h1 h2 c1 c2 mr, key ts' ts (fun m hm => hperm.mem_iff.2 hm) h2 h1 c2 c1 mr⟩

end

/-! ### determinism: the full statement, and why it is false on the current code -/

/-- FULL STATEMENT of the property on the model: after any history of well-formed operations `transpile m` returns what
    it returns in a fresh process. -/
def det_statement : Prop :=
  ∀ {Src Tree NV V Text : Type} (L : Lang Src Tree NV V Text) (E : Env Src) (f : Nat) (src : Src) (ops : List (Op Src)) (m : ModPath),
    Names L E → SrcOk L src → (∀ op, op ∈ ops → Op.wf L op) → GoodName m →
    (transpile L E f (run L E f { mainSrc := src } ops) m).1 = (transpile L E f { mainSrc := src } m).1

namespace Witness
def a : ModPath := ['a','p','p','.','a']
def ab : ModPath := ['a','p','p','.','a','b']
def main : ModPath := ['_','_','m','a','i','n','_','_']
/-- `app/a.py`: `class A0:` with `def g(self, x: int) -> int: return x` -/
def descA : Desc := { classes := [{ name := ['A','0'], methods := [{ name := ['g'] }] }] }
/-- `app/ab.py`: `from app.a import Nope` / `class Ab0: ...` -/
def descAbBad : Desc := { imports := [(a, ['N','o','p','e'])], classes := [{ name := ['A','b','0'] }] }
/-- `app/ab.py`: `from app.a import A0` / `class Ab0:` with `def g(self, x): b = A0(); return b.g(x)` -/
def descAbCall : Desc :=
  { imports := [(a, ['A','0'])], classes := [{ name := ['A','b','0'], methods := [{ name := ['g'], call := some (a, ['A','0'], ['g']) }] }] }
def envRetry : Env Desc := poolEnv [(a, descA), (ab, descAbBad)] [] main
def envUnload : Env Desc := poolEnv [(a, descA), (ab, descAbCall)] [] main
def init : State Desc Desc Desc Str Str := { mainSrc := {} }

theorem namesRetry : Names descLang envRetry :=
  poolNames _ _ _ (by decide) (by decide) (by decide)
theorem namesUnload : Names descLang envUnload :=
  poolNames _ _ _ (by decide) (by decide) (by decide)
end Witness

/-! ### the hypotheses are satisfiable: the descriptor language over the witness pool -/

namespace Witness
def B0 : Base Str := ⟨[], fun _ => []⟩
def rk : ModPath → Nat := List.length
def pool : List (ModPath × Desc) := [(a, descA), (ab, descAbCall)]

theorem poolOk : PoolOk B0 rk pool main where
  tree := by decide
  rank := by decide
  main_disk := by decide
  main_name := by decide
  main_base := by decide
  no_main := by decide
  base_closed := by decide

theorem world : World descLang envUnload B0 rk (descTreeOk B0) := descWorld B0 rk pool main poolOk

theorem initStable : Stable descLang envUnload B0 rk (descTreeOk B0) init :=
  desc_init_stable rk pool main {} (by decide) (by decide)

/-- `app.ab` (which calls into `app.a`) is good: it has a reference table at import depth 2 -/
theorem abGood : (refTbl descLang B0 (srcOf descLang envUnload init) 2 ab).isSome = true := by decide +kernel
end Witness

open Witness in
/-- non-vacuity of `det_partial` / `inv_settled` / `targets`: in the state after `transpile app.a; transpile app.ab;
    unload app.ab; load app.ab` (all safe) the module `app.ab` transpiles to its reference text, which is a text (not an
    error) and mentions the symbol of `app.a` it calls. -/
example :
    let s := run descLang envUnload 30 init [.transpile a, .transpile ab, .unload ab, .load ab]
    (transpile descLang envUnload 30 s ab).1 = (transpile descLang envUnload 30 init ab).1 ∧
    (transpile descLang envUnload 30 s ab).1.toOption.isSome = true := by
  exact ⟨by decide +kernel, by decide +kernel⟩

open Witness in
/-- Witness 1 (corpus/C04/failed-load-retry.json): the first `transpile app.ab` raises SymbolNotDefined and leaves `app.ab`
    registered half-loaded; the second one returns a text, a fresh process raises. -/
theorem det_counterexample_failed_load : ¬ det_statement := by
  intro h
  have := h descLang envRetry 20 {} [.transpile ab] ab namesRetry (descSrcOk _ (by decide))
    (by intro op hop; simp at hop; subst hop; exact (by decide : GoodName ab)) (by decide)
  exact absurd this (by decide +kernel)

open Witness in
/-- Witness 2 (corpus/C04/dep-unloaded.json): `transpile app.ab; unload app.a; transpile app.ab` — the dependant stays
    registered, its import is gone, the renderer fails; a fresh process returns the text. -/
theorem det_counterexample_dep_unloaded : ¬ det_statement := by
  intro h
  have := h descLang envUnload 20 {} [.transpile ab, .unload a] ab namesUnload (descSrcOk _ (by decide))
    (by intro op hop; simp at hop; rcases hop with e | e <;> subst e; exact (by decide : GoodName ab); trivial) (by decide)
  exact absurd this (by decide +kernel)

namespace Witness
def lib : ModPath := ['l','i','b']
def typ : ModPath := ['t','y','p']
/-- a library module that imports `typ` (like `classes.py` imports `typing`) -/
def descLib : Desc := { imports := [(typ, [])], classes := [{ name := ['X'] }] }
def descTyp : Desc := { classes := [{ name := ['T'] }] }
def envLib : Env Desc := poolEnv [(lib, descLib), (typ, descTyp), (a, descA)] [lib] main
theorem namesLib : Names descLang envLib := poolNames _ _ _ (by decide) (by decide) (by decide)
end Witness

open Witness in
/-- Witness 3 (corpus/C04/lib-closure-first.json): a module that the library modules import (`typing`) is loaded by the
    library load itself; `Modules.load` continues, pre-processes it a second time and raises Errors.Never — in a fresh
    process. After any other module was transpiled the same request returns a text. -/
theorem det_counterexample_lib_closure_first : ¬ det_statement := by
  intro h
  have := h descLang envLib 30 {} [.transpile a] typ namesLib (descSrcOk _ (by decide))
    (by intro op hop; simp at hop; subst hop; exact (by decide : GoodName a)) (by decide)
  exact absurd this (by decide +kernel)

namespace Witness
def e : ModPath := ['a','p','p','.','e']
def envEmpty : Env Desc := poolEnv [(e, {})] [] main
end Witness

open Witness in
/-- `unload_load` deliberately says nothing about `SymbolDB.completed`: for a module without symbols the reload takes the
    RestoreSymbols path, `import_json` of an empty file marks nothing, and the flag differs from a fresh load. The flag has
    no consumer in tranp (db.py:125-142 is only written), the correspondence stream observes it. -/
example :
    ((run descLang envEmpty 30 init [.load e]).completed, (run descLang envEmpty 30 init [.load e, .unload e, .load e]).completed)
      = ([e], []) := by
  decide +kernel

open Witness in
/-- non-vacuity of `stack_frames`: a failing render leaves one frame on each stack, the next successful transpile leaves them alone -/
example :
    let s := run descLang envUnload 30 init [.transpile ab, .unload a, .transpile ab]
    s.deps.length = 1 ∧ s.proc.length = 1 ∧ (run descLang envUnload 30 s [.transpile a]).deps.length = 1 := by
  decide +kernel


end Tranp.C04
