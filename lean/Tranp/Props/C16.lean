/-
  Property C16 — A node's source span covers exactly the node's own text.
  Property theorems only; helper lemmas live in Tranp/Lemmas/Quotation.lean and Tranp/Lemmas/LarkEntry.lean.

  Proved here: tranp's own span handling (quotation arithmetic, survival through the cache, the self-hosted collector) and
  the nesting consequences of the hull model. That lark's `propagate_positions` implements the hull model is an
  assumption, validated by the `span-hull` stream on every run.
-/
import Tranp.Lemmas.Quotation
import Tranp.Lemmas.SpanRegion
import Tranp.Props.C15
import Tranp.Lemmas.CacheShape
import Tranp.Lemmas.GrammarFirst
import Tranp.Lemmas.QuotationShape
import Tranp.Generated.GrammarFirst

namespace Tranp.C16
open Tranp Tranp.Lark Tranp.Quote Tranp.Hull

/-- The quotation printed for a node whose span is `(bl, bc)..(el, ec)` (1-based, as recorded): the label is line `bl`,
    the quoted text is the loaded line `bl`, and the carets occupy exactly the columns `[bc−1, ec−1)` of it when the span
    is on one line (one caret when the span is empty) and `[bc−1, len line)` when it continues on later lines. -/
theorem mark (fp content line : Str) (bl bc el ec : Int) (hbl : 1 ≤ bl) (hbc : 1 ≤ bc)
    (hline : loadLine content (bl - 1) = .ok line) :
    ∃ m, buildQuotation true fp content (.ok ⟨some bl, some bc, some el, some ec⟩)
          = .ok [sViaNode, sIndent2 ++ fp ++ [':'] ++ Str.intToDec bl, sQuote ++ line, sMarkIndent ++ m]
      ∧ markedCols m = List.range' (bc - 1).toNat
          (if bl = el then max 1 (ec - bc) else max 1 ((line.length : Int) - (bc - 1))).toNat := by
  refine ⟨lineMark (causeRange line ⟨bl - 1, bc - 1, el - 1, ec - 1⟩), ?_, ?_⟩
  · have h0 : ¬ bl < 1 := by omega
    have h0' : ¬ bc < 1 := by omega
    simp [buildQuotation, lt1, h0, h0', shift, dec1, quotationBuild, hline, bind, Except.bind, pure, Except.pure]
  · have h1 : (bl - 1 = el - 1) = (bl = el) := by apply propext; constructor <;> intro h <;> omega
    simp only [causeRange, h1]
    split
    · rw [markedCols_lineMark _ _ (by omega)]
      congr 2; omega
    · rw [markedCols_lineMark _ _ (by omega)]

/-- non-vacuity: `\tx = a + 1` with the span of `a + 1` (columns 6..11 of line 1) marks columns 5..9 -/
example :
    loadLine ['\t', 'x', ' ', '=', ' ', 'a', ' ', '+', ' ', '1', '\n'] (1 - 1) = .ok [' ', 'x', ' ', '=', ' ', 'a', ' ', '+', ' ', '1']
    ∧ markedCols (lineMark (causeRange [' ', 'x', ' ', '=', ' ', 'a', ' ', '+', ' ', '1'] ⟨1 - 1, 6 - 1, 1 - 1, 11 - 1⟩)) = [5, 6, 7, 8, 9] := by
  exact ⟨rfl, by decide⟩

/-- What the property demands of the report printed for a node with recorded span `sm`: it is labelled with the span's
    begin line — a line of the file — quotes that line and marks the span's columns. -/
def PointsAt (fp content : Str) (sm : SM) (ls : List Str) : Prop :=
  ∃ (bl bc el ec : Int) (line m : Str), sm = ⟨some bl, some bc, some el, some ec⟩ ∧ 1 ≤ bl
    ∧ loadLine content (bl - 1) = .ok line
    ∧ ls = [sViaNode, sIndent2 ++ fp ++ [':'] ++ Str.intToDec bl, sQuote ++ line, sMarkIndent ++ m]
    ∧ markedCols m = List.range' (bc - 1).toNat
        (if bl = el then max 1 (ec - bc) else max 1 ((line.length : Int) - (bc - 1))).toNat

/-- A node without a source position (begin line or begin column below 1 — in particular the span (0,0)..(0,0) of
    placeholders and of trees without tokens) is reported without any quotation (fix dc3e568; before it the last line of
    the file was quoted as "line 0"). Regression witness: corpus/C16/spanless-node.json. -/
theorem quotation_spanless (fp content : Str) (bl bc : Int) (el ec : Pos) (h : bl < 1 ∨ bc < 1) :
    buildQuotation true fp content (.ok ⟨some bl, some bc, el, ec⟩) = .ok [] := by
  by_cases h1 : bl < 1
  · simp [buildQuotation, lt1, h1, bind, Except.bind, pure, Except.pure]
  · have h2 : bc < 1 := by omega
    simp [buildQuotation, lt1, h1, h2, bind, Except.bind, pure, Except.pure]

example : buildQuotation true ['m'] ['x', '\n', 'y', '\n'] (.ok SM.zero) = .ok [] := rfl

/-- The whole statement for spans with integer positions (everything the parser records and the cache restores): the
    report is empty exactly for nodes without a position and otherwise points at the span, whenever the span's begin
    line is a line of the file. -/
theorem quotation (fp content : Str) (bl bc el ec : Int)
    (hfile : 1 ≤ bl → ∃ line, loadLine content (bl - 1) = .ok line) :
    ∃ ls, buildQuotation true fp content (.ok ⟨some bl, some bc, some el, some ec⟩) = .ok ls
      ∧ ((ls = [] ∧ (bl < 1 ∨ bc < 1)) ∨ PointsAt fp content ⟨some bl, some bc, some el, some ec⟩ ls) := by
  by_cases h : bl < 1 ∨ bc < 1
  · exact ⟨[], quotation_spanless fp content bl bc _ _ h, Or.inl ⟨rfl, h⟩⟩
  · have hbl : 1 ≤ bl := by omega
    have hbc : 1 ≤ bc := by omega
    obtain ⟨line, hline⟩ := hfile hbl
    obtain ⟨m, h1, h2⟩ := mark fp content line bl bc el ec hbl hbc hline
    exact ⟨_, h1, Or.inr ⟨bl, bc, el, ec, line, m, rfl, hbl, hline, rfl, h2⟩⟩

example : loadLine ['x', '\n'] (1 - 1) = .ok ['x'] := rfl

/-- Positions must be integers: a span whose end is `None` still makes the report raise `TypeError`. Such spans came from
    end-of-input dedents and no longer occur since the parser completes the last line (fix 46d0462); the search reports
    any `None` position as a failure. Regression witness: corpus/C16/eof-dedent-span.json. -/
theorem quotation_none_end (fp content : Str) :
    buildQuotation true fp content (.ok ⟨some 1, some 1, none, none⟩) = .error .typeError := rfl

/-- Columns are preserved by loading: the quoted line is line `bl` of the file (the `bl`-th piece of `readlines`, which is
    the `bl`-th piece of `split('\n')`), without its line feed, with every tab replaced by exactly one blank. -/
theorem mark_line (content line : Str) (bl : Int) (hbl : 1 ≤ bl) (hline : loadLine content (bl - 1) = .ok line) :
    ∃ raw, (readlines content)[(bl - 1).toNat]? = some raw
      ∧ (Str.splitOn '\n' content)[(bl - 1).toNat]? = some (dropNl raw)
      ∧ line = tabToSpace (dropNl raw)
      ∧ line.length = (dropNl raw).length
      ∧ ∀ k : Nat, line[k]? = ((dropNl raw)[k]?).map (fun c => if c = '\t' then ' ' else c) := by
  simp only [loadLine, bind, Except.bind, pure, Except.pure] at hline
  split at hline
  · cases hline
  · rename_i raw hraw
    simp only [Except.ok.injEq] at hline
    have hget := (pyIndex_nonneg _ _ (by omega) raw).mp hraw
    have hlt : (bl - 1).toNat < (readlines content).length := by
      rcases List.getElem?_eq_some_iff.mp hget with ⟨h, _⟩; exact h
    refine ⟨raw, hget, ?_, hline.symm, ?_, ?_⟩
    · rw [readlines_split content _ hlt, hget]; rfl
    · rw [← hline]; exact length_tabToSpace _
    · intro k; rw [← hline]; exact getElem?_tabToSpace _ k

example : loadLine ['a', '\n', '\t', 'b', '\n'] (2 - 1) = .ok [' ', 'b'] := rfl

/-- the quoted line and the mark line are printed behind prefixes of the same width, so column k of one is above column k of the other -/
theorem mark_aligned : sQuote.length = sMarkIndent.length := by decide

/-- Under the hull model a child's span lies inside its parent's … -/
theorem hull_nest (pre post : List HTree) (c : HTree) (s : TSpan)
    (hch : Chain (tokens (.node (pre ++ c :: post)))) (hs : hull c = some s) :
    ∃ p, hull (.node (pre ++ c :: post)) = some p ∧ p.b ≤ s.b ∧ s.e ≤ p.e := by
  simp only [hull, tokens, tokensList_split] at hch ⊢
  exact hull_infix _ _ _ s hch hs

example :
    let a : TSpan := ⟨⟨1, 1⟩, ⟨1, 4⟩⟩
    let b : TSpan := ⟨⟨1, 5⟩, ⟨2, 3⟩⟩
    Chain (tokens (.node [.tok a, .node [.tok b]])) ∧ hull (.node [.tok b]) = some b := by decide

/-- … siblings' spans are ordered and do not overlap … -/
theorem hull_siblings (pre mid post : List HTree) (c1 c2 : HTree) (s1 s2 : TSpan)
    (hch : Chain (tokens (.node (pre ++ c1 :: (mid ++ c2 :: post)))))
    (h1 : hull c1 = some s1) (h2 : hull c2 = some s2) : s1.e ≤ s2.b := by
  simp only [hull, tokens, tokensList_split] at hch h1 h2
  exact hull_ordered _ _ _ _ _ s1 s2 hch h1 h2

example :
    let a : TSpan := ⟨⟨1, 1⟩, ⟨1, 4⟩⟩
    let b : TSpan := ⟨⟨1, 5⟩, ⟨2, 3⟩⟩
    Chain (tokens (.node ([] ++ .tok a :: ([] ++ .node [.tok b] :: [])))) := by decide

/-- … and the token order is inherited by every subtree, so both statements hold at every depth. -/
theorem hull_chain_sub (pre post : List HTree) (c : HTree)
    (hch : Chain (tokens (.node (pre ++ c :: post)))) : Chain (tokens c) := by
  simp only [tokens, tokensList_split] at hch
  exact chain_infix _ _ _ hch

example : Chain (tokens (.node ([] ++ .tok ⟨⟨1, 1⟩, ⟨1, 4⟩⟩ :: []))) := by decide

/-- In the whole report `render()` prints, the quotation lines stand as lines of their own, directly behind the stack trace
    lines and before the `name: message` line(s) (stack trace non-empty — it always starts with `Stacktrace:` — and its
    lines and the quotation lines free of line feeds, which `__load_line` guarantees for the quoted line). -/
theorem render_lines (traces quotation : List Str) (name message : Str) (hne : traces ≠ [])
    (h : ∀ l ∈ traces ++ quotation, '\n' ∉ l) :
    Str.splitOn '\n' (renderText traces quotation name message)
      = traces ++ quotation ++ Str.splitOn '\n' (name ++ ':' :: ' ' :: message) := by
  unfold renderText
  rw [splitOn_join_append '\n' (traces ++ quotation) _ (by simp [hne]) h]

example : Str.splitOn '\n' (renderText [['S']] [['v'], ['q']] ['E'] ['(', ')']) = [['S'], ['v'], ['q'], ['E', ':', ' ', '(', ')']] := by
  decide

/-- the quoted line of a report never contains a line feed (so `render_lines` applies to every quotation that is printed) -/
theorem loadLine_no_lf (content line : Str) (i : Int) (h : loadLine content i = .ok line) : '\n' ∉ line := by
  simp only [loadLine, bind, Except.bind, pure, Except.pure] at h
  split at h
  · cases h
  · simp only [Except.ok.injEq] at h
    subst h
    simp [tabToSpace, dropNl]
    intro x hx hne
    split <;> simp_all

example : loadLine ['a', '\n'] 0 = .ok ['a'] := rfl

/-! ### the hull statements derived from the text (no assumption beyond the parser's interface, see Model/Hull.lean) -/

/-- (line, column) computed from the text is monotone in the character offset -/
theorem pos_mono (src : Str) (a b : Nat) (h : a ≤ b) : posOf src a ≤ posOf src b := posOf_mono src a b h

example : posOf ['a', '\n', '\t', 'b'] 3 = ⟨2, 2⟩ := by decide

/-- tokens handed out left to right (offsets `start ≤ end ≤ next start`) have ordered, non-overlapping (line, column) spans:
    the `Chain` hypothesis of `hull_nest`/`hull_siblings` is a consequence, not an assumption -/
theorem tokens_chain (src : Str) (toks : List OTok) (h : OffChain toks) : Chain (toks.map (tokSpan src)) :=
  chain_of_offChain src toks h

example : OffChain [⟨0, 1⟩, ⟨1, 3⟩, ⟨4, 4⟩] := by decide

/-- For a tree that consumed the token interval `[lo, hi)` and whose children consume sub-intervals in order (the interface
    hypothesis `wf`), every child's recorded span lies inside the tree's recorded span … -/
theorem span_nest (src : Str) (toks : List OTok) (hoff : OffChain toks) (lo hi : Nat) (cs : List ITree)
    (hwf : (ITree.node lo hi cs).wf = true) (hhi : hi ≤ toks.length) (c : ITree) (hc : c ∈ cs) :
    ∃ p s, (ITree.node lo hi cs).span (toks.map (tokSpan src)) = some p ∧ c.span (toks.map (tokSpan src)) = some s
      ∧ p.b ≤ s.b ∧ s.e ≤ p.e := by
  simp only [ITree.wf, Bool.and_eq_true, decide_eq_true_eq] at hwf
  obtain ⟨_, hm⟩ := childrenOrdered_mem lo hi cs hwf.1.2
  obtain ⟨h1, h2, h3⟩ := hm c hc
  exact span_nest_idx _ (chain_of_offChain src toks hoff) lo hi c.lo c.hi h1 h2 h3 (by simpa using hhi)

example : (ITree.node 0 3 [.node 0 1 [], .node 1 3 [.node 2 3 []]]).wf = true := by decide

/-- … and the spans of two children do not overlap and follow each other in the order of the children. -/
theorem span_siblings (src : Str) (toks : List OTok) (hoff : OffChain toks) (lo hi : Nat) (pre mid post : List ITree)
    (c1 c2 : ITree) (hwf : (ITree.node lo hi (pre ++ c1 :: (mid ++ c2 :: post))).wf = true) (hhi : hi ≤ toks.length) :
    ∃ s1 s2, c1.span (toks.map (tokSpan src)) = some s1 ∧ c2.span (toks.map (tokSpan src)) = some s2 ∧ s1.e ≤ s2.b := by
  simp only [ITree.wf, Bool.and_eq_true, decide_eq_true_eq] at hwf
  obtain ⟨_, hm⟩ := childrenOrdered_mem lo hi _ hwf.1.2
  have m1 := hm c1 (by simp)
  have m2 := hm c2 (by simp)
  have hp := childrenOrdered_pair lo hi pre mid post c1 c2 hwf.1.2
  exact span_siblings_idx _ (chain_of_offChain src toks hoff) c1.lo c1.hi c2.lo c2.hi m1.2.1 hp m2.2.1
    (by have := m2.2.2; simp; omega)

example : (ITree.node 0 4 ([] ++ .node 0 1 [] :: ([.node 1 2 []] ++ .node 2 4 [] :: []))).wf = true := by decide

/-! ### the region a span delimits holds exactly the tree's own tokens (same interface hypothesis; Model/Hull.lean, last section) -/

/-- inside the text a later character has a strictly later (line, column): positions identify characters -/
theorem pos_strict (src : Str) (a b : Nat) (h : a < b) (hb : b ≤ src.length) : posOf src a < posOf src b :=
  posOf_strict src a b h hb

example : posOf ['a', '\n', 'b'] 1 < posOf ['a', '\n', 'b'] 2 := by decide

/-- The region delimited by the span recorded for a tree that consumed the tokens `[lo, hi)` — the characters whose own
    (line, column) lies in `[begin, end)` — is the stretch of the text from the first character of its first token to the last
    character of its last token: nothing before, nothing behind, no hole. -/
theorem span_region (src : Str) (toks : List OTok) (hin : tokensInText src toks = true)
    (lo hi : Nat) (hlt : lo < hi) (hhi : hi ≤ toks.length) :
    ∃ sp, spanOf (toks.map (tokSpan src)) lo hi = some sp
      ∧ ∀ k, k < src.length → (inRegion src sp k ↔ ((toks[lo]'(by omega)).s ≤ k ∧ k < (toks[hi - 1]'(by omega)).e)) := by
  refine ⟨_, spanOf_tokSpan src toks lo hi hlt hhi, ?_⟩
  intro k hk
  have h1 := tokensInText_get src toks hin lo (by omega)
  have h2 := tokensInText_get src toks hin (hi - 1) (by omega)
  unfold inRegion
  rw [posOf_le_iff src _ k (by omega), posOf_lt_iff src k _ h2.2]

/-- The lexer tokens that lie inside the span recorded for a tree (by their own recorded positions) are exactly the tokens the
    tree consumed: every token `lo ≤ k < hi` lies inside, no other token of the module does — "a region of the source whose
    tokens are exactly the node's tokens" (tokens ordered, non-empty and inside the text). -/
theorem span_holds_exactly_own_tokens (src : Str) (toks : List OTok) (hoff : OffChain toks)
    (hin : tokensInText src toks = true) (lo hi : Nat) (hlt : lo < hi) (hhi : hi ≤ toks.length) :
    ∃ sp, spanOf (toks.map (tokSpan src)) lo hi = some sp
      ∧ ∀ k (hk : k < toks.length), (tokInSpan sp (tokSpan src toks[k]) ↔ (lo ≤ k ∧ k < hi)) := by
  refine ⟨_, spanOf_tokSpan src toks lo hi hlt hhi, ?_⟩
  intro k hk
  have hne : ∀ i (hi : i < toks.length), toks[i].s < toks[i].e := fun i hi => (tokensInText_get src toks hin i hi).1
  have h1 := tokensInText_get src toks hin lo (by omega)
  have h3 := tokensInText_get src toks hin k hk
  unfold tokInSpan tokSpan
  simp only
  rw [posOf_le_iff src _ _ (by omega), posOf_le_iff src _ _ h3.2]
  exact tokens_in_interval toks hoff hne lo hi hlt hhi k hk

/-- non-vacuity: `a = (b,\n c)` lexed as a, =, (, b, ",", c, ) — the tree over tokens [2, 7) spans (1,5)..(2,4) and holds tokens 2..6 -/
example :
    let src : Str := ['a', ' ', '=', ' ', '(', 'b', ',', '\n', ' ', 'c', ')', '\n']
    let toks : List OTok := [⟨0, 1⟩, ⟨2, 3⟩, ⟨4, 5⟩, ⟨5, 6⟩, ⟨6, 7⟩, ⟨9, 10⟩, ⟨10, 11⟩, ⟨11, 12⟩]
    OffChain toks ∧ tokensInText src toks = true
      ∧ spanOf (toks.map (tokSpan src)) 2 7 = some ⟨⟨1, 5⟩, ⟨2, 4⟩⟩
      ∧ tokensInSpan (toks.map (tokSpan src)) ⟨⟨1, 5⟩, ⟨2, 4⟩⟩ = (2, 5, true)
      ∧ regionOfTable (posScan ⟨1, 1⟩ src) ⟨⟨1, 5⟩, ⟨2, 4⟩⟩ = (4, 7, true) := by decide

/-- the driver's lists (ops `iregion`, `itoks` of the `span-hull` stream) enumerate exactly the characters of the region and the
    tokens inside the span, as defined above -/
theorem region_enumerated (src : Str) (sp : TSpan) (k : Nat) :
    k ∈ ((posScan ⟨1, 1⟩ src).dropLast.zipIdx.filterMap fun (p, i) => if sp.b ≤ p ∧ p < sp.e then some i else none)
      ↔ (k < src.length ∧ inRegion src sp k) :=
  mem_regionList src sp k

theorem tokens_enumerated (spans : List TSpan) (sp : TSpan) (k : Nat) :
    k ∈ (spans.zipIdx.filterMap fun (t, i) => if tokInSpan sp t then some i else none)
      ↔ ∃ h : k < spans.length, tokInSpan sp spans[k] :=
  mem_zipIdx_filterMap spans (tokInSpan sp) k

/-! ### from the text to the printed report: the position arithmetic meets the renderer's line loading -/

/-- The (line, column) computed for a character names that character in the renderer's own reading of the file: both are
    at least 1, line `line` is a line `__load_line` can load, and column `col` of the loaded line holds the character
    (a tab shown as a blank) — so the first caret of a report stands over the first character of the reported node. -/
theorem position_names_character (src : Str) (k : Nat) (hk : k < src.length) (hnl : src[k] ≠ '\n') :
    1 ≤ (posOf src k).line ∧ 1 ≤ (posOf src k).col
    ∧ ∃ line, loadLine src ((posOf src k).line - 1) = .ok line
        ∧ line[((posOf src k).col - 1).toNat]? = some (if src[k] = '\t' then ' ' else src[k]) := by
  obtain ⟨h1, hcol, raw, hraw, hc⟩ := posOf_char src k hk
  refine ⟨h1, hcol, tabToSpace (dropNl raw), ?_, ?_⟩
  · have := (pyIndex_nonneg (readlines src) ((posOf src k).line - 1) (by omega) raw).mpr hraw
    simp [loadLine, this, bind, Except.bind, pure, Except.pure]
  · have hmem : raw ∈ readlines src := List.mem_of_getElem? hraw
    have hk' : src[k]? = some src[k] := List.getElem?_eq_getElem hk
    rw [hk'] at hc
    exact loaded_char src raw hmem _ _ hc hnl

example : posOf ['a', '\n', '\t', 'b'] 2 = ⟨2, 1⟩ ∧ loadLine ['a', '\n', '\t', 'b'] (2 - 1) = .ok [' ', 'b'] := ⟨by decide, rfl⟩

/-- End to end: for the tree that consumed the tokens `[lo, hi)` of a text (tokens non-empty and inside the text), the report
    printed for its recorded span is never empty and points at that span — labelled with the line of its first token, quoting
    that line of the file, carets from the first token's column on (`PointsAt`); no hypothesis about the file is left. -/
theorem tree_quotation (fp src : Str) (toks : List OTok) (hin : tokensInText src toks = true)
    (lo hi : Nat) (hlt : lo < hi) (hhi : hi ≤ toks.length) :
    ∃ sp ls, spanOf (toks.map (tokSpan src)) lo hi = some sp
      ∧ buildQuotation true fp src (.ok ⟨some sp.b.line, some sp.b.col, some sp.e.line, some sp.e.col⟩) = .ok ls
      ∧ PointsAt fp src ⟨some sp.b.line, some sp.b.col, some sp.e.line, some sp.e.col⟩ ls := by
  have h1 := tokensInText_get src toks hin lo (by omega)
  have hk : (toks[lo]'(by omega)).s < src.length := by omega
  obtain ⟨g1, g2, raw, hraw, _⟩ := posOf_char src _ hk
  have hload : loadLine src ((posOf src (toks[lo]'(by omega)).s).line - 1) = .ok (tabToSpace (dropNl raw)) := by
    have := (pyIndex_nonneg (readlines src) ((posOf src (toks[lo]'(by omega)).s).line - 1) (by omega) raw).mpr hraw
    simp [loadLine, this, bind, Except.bind, pure, Except.pure]
  obtain ⟨m, hm1, hm2⟩ := mark fp src _ (posOf src (toks[lo]'(by omega)).s).line (posOf src (toks[lo]'(by omega)).s).col
    (posOf src (toks[hi - 1]'(by omega)).e).line (posOf src (toks[hi - 1]'(by omega)).e).col g1 g2 hload
  exact ⟨⟨posOf src (toks[lo]'(by omega)).s, posOf src (toks[hi - 1]'(by omega)).e⟩, _, spanOf_tokSpan src toks lo hi hlt hhi, hm1,
    _, _, _, _, _, m, rfl, g1, hload, rfl, hm2⟩

example : tokensInText ['x', ' ', '=', ' ', '1', '\n'] [⟨0, 1⟩, ⟨2, 3⟩, ⟨4, 5⟩, ⟨5, 6⟩] = true := by decide

/-- Spans and quotations survive the cache: for the tree restored by `EntryStored.save → load`, `Nodes.source_map` and the
    printed quotation agree with the fresh tree at every path (corollary of C15). -/
theorem restore (t t' : LarkEntry) (h : storeLoad t = .ok t') :
    (∀ p, nodeSourceMap (view t') p = nodeSourceMap (view t) p)
    ∧ (∀ p ex fp c, nodeQuotation (view t') p ex fp c = nodeQuotation (view t) p ex fp c) :=
  (C15.derived_nodes t t' h).2

example : ∃ t', storeLoad (.tree ['f'] [.token ['N'] ['x'] ⟨some 1, some 1, some 1, some 2⟩]
    (some ⟨false, .val (some 1), .val (some 1), .val (some 1), .val (some 2)⟩)) = .ok t' := ⟨_, rfl⟩

/-- The self-hosted parser's collector: the quoted line is line `bl` (0-based) of `source.split('\n')`, the carets occupy
    exactly the cause token's columns `[bc, ec)` (to the end of the line for a token that continues on later lines),
    and the two printed lines have prefixes of the same width. -/
theorem collector (source line : Str) (toks : List Span) (steps : Int) (sm : Span)
    (hsteps : 0 ≤ steps) (htok : toks[steps.toNat]? = some sm)
    (hbl : 0 ≤ sm.bl) (hline : (Str.splitOn '\n' source)[sm.bl.toNat]? = some line) (hbc : 0 ≤ sm.bc) :
    ∃ m p1 p2, collectorLines source toks steps = .ok [p1 ++ line, p2 ++ m]
      ∧ p1.length = p2.length
      ∧ markedCols m = List.range' sm.bc.toNat
          (if sm.bl = sm.el then max 1 (sm.ec - sm.bc) else max 1 ((line.length : Int) - sm.bc)).toNat := by
  have h1 := (pyIndex_nonneg toks steps hsteps sm).mpr htok
  have h2 := (pyIndex_nonneg (Str.splitOn '\n' source) sm.bl hbl line).mpr hline
  refine ⟨lineMark (causeRange line sm), ['('] ++ Str.intToDec (sm.bl + 1) ++ sCollQuote,
    [' '] ++ pyRepeat ' ' ((Str.intToDec (sm.bl + 1)).length : Int) ++ sCollIndent, ?_, ?_, ?_⟩
  · simp [collectorLines, h1, h2, bind, Except.bind, pure, Except.pure]
  · simp [pyRepeat, sCollQuote, sCollIndent]
  · simp only [causeRange]
    split
    · rw [markedCols_lineMark _ _ hbc]
      congr 2; omega
    · rw [markedCols_lineMark _ _ hbc]

example : markedCols (lineMark (causeRange ['a', ' ', '=', ' ', '@'] ⟨0, 4, 0, 5⟩)) = [4]
    ∧ (Str.splitOn '\n' ['a', ' ', '=', ' ', '@', '\n'])[(0 : Int).toNat]? = some ['a', ' ', '=', ' ', '@'] := by decide

/-! ### the tie: `__build_quotation` as read from the source on every run (Generated/LarkCache.lean) -/

open Tranp.Generated in
/-- The guard of `ErrorRender.__build_quotation` as the translator reads it — its disjuncts, on the UNSHIFTED span, with
    Python's short-circuit `or` — says "begin line < 1 or begin column < 1" … -/
theorem guard_generated (sm : SM) :
    Shape.noPositionBy sm LarkCache.guardDisjuncts = (do let a ← lt1 sm.bl; if a then pure true else lt1 sm.bc) :=
  Shape.noPosition_generated sm

open Tranp.Generated in
/-- … for integer positions: exactly when the node has no position (lines and columns are 1-based) … -/
theorem guard_meaning (bl bc : Int) (el ec : Pos) :
    Shape.noPositionBy ⟨some bl, some bc, el, ec⟩ LarkCache.guardDisjuncts = .ok (decide (bl < 1 ∨ bc < 1)) := by
  rw [Shape.noPosition_generated]
  by_cases h1 : bl < 1 <;> by_cases h2 : bc < 1 <;> simp [lt1, h1, h2, bind, Except.bind, pure, Except.pure]

open Tranp.Generated in
/-- … the shift tuple read from the source is the model's minus-one shift … -/
theorem shift_generated (sm : SM) : Shape.shiftBy LarkCache.shiftFields sm = shift sm := Shape.shift_generated sm

open Tranp.Generated in
/-- … and the whole `__build_quotation`, evaluated from the generated tables in the statement order found in the source
    (file-exists test, guard, shift), is the model's `buildQuotation` — to which `mark`, `quotation` … apply. -/
theorem buildQuotation_generated (ex : Bool) (fp content : Str) (sm : Except Err SM) :
    Shape.buildQuotationBy LarkCache.quotationOrder LarkCache.guardDisjuncts LarkCache.shiftFields ex fp content sm
      = buildQuotation ex fp content sm := Shape.buildQuotation_generated ex fp content sm

open Tranp.Generated in
/-- the parser is built with `propagate_positions=True` and the Python indenter (the interface hypothesis of Model/Hull.lean is
    about that configuration) -/
theorem lark_options :
    (["propagate_positions".toList, "True".toList] ∈ LarkCache.larkKwargs.map (fun kv => [kv.1, kv.2]))
    ∧ (["postlex".toList, "PythonIndenter()".toList] ∈ LarkCache.larkKwargs.map (fun kv => [kv.1, kv.2])) := by
  constructor <;> simp [LarkCache.larkKwargs]

/-! ### which token a tree's span begins and ends with (grammar and tables generated from lark's loaded rule set) -/

open Tranp.Gram Tranp.Generated in
/-- The generated NULLABLE / FIRST tables are closed under every rule of the generated grammar (checked here, not trusted) … -/
theorem first_tables_ok : GrammarFirst.tables.ok GrammarFirst.grammar = true := by decide +kernel

open Tranp.Gram Tranp.Generated in
/-- … and so are the tables of the reversed grammar (LAST). -/
theorem last_tables_ok : GrammarFirst.tablesRev.ok GrammarFirst.grammar.rev = true := by decide +kernel

open Tranp.Gram Tranp.Generated in
/-- Consequence of the interface hypothesis (a tree named `n` is the result of a derivation by a rule named `n`, and its span
    begins at its first consumed token): the span of a tree begins at a token whose type is in the generated FIRST set of its
    name — the clause `span-begin-not-first-token` of the span search. -/
theorem span_begins_at_first_token (r : Rule) (cs : List Deriv) (hv : valid GrammarFirst.grammar (.node r cs) = true)
    (t : Nat) (rest : List Nat) (hy : yield (.node r cs) = t :: rest) : t ∈ GrammarFirst.tables.nameFirstOf r.name :=
  first_of_named _ _ first_tables_ok r cs hv t rest hy

open Tranp.Gram Tranp.Generated in
/-- … and ends at a token whose type is in the generated LAST set of its name (`span-end-not-last-token`). -/
theorem span_ends_at_last_token (r : Rule) (cs : List Deriv) (hv : valid GrammarFirst.grammar (.node r cs) = true)
    (t : Nat) (front : List Nat) (hy : yield (.node r cs) = front ++ [t]) : t ∈ GrammarFirst.tablesRev.nameFirstOf r.name :=
  last_of_named _ _ last_tables_ok r cs hv t front hy

open Tranp.Gram Tranp.Generated in
/-- non-vacuity: the grammar has rules and terminals, and a one-rule derivation over it is valid -/
example : GrammarFirst.grammar.rules.length > 100 ∧ GrammarFirst.terms.length > 50
    ∧ GrammarFirst.grammar.rules.any (fun r => valid GrammarFirst.grammar (.node r (r.rhs.map .leaf)) && !r.rhs.isEmpty) = true := by
  decide +kernel

/-! ### the tie: the arithmetic and the templates of `Quotation` / `ErrorCollector` as read from the source on every run -/

open Tranp.Generated in
/-- `ErrorRender.Quotation` as the translator reads it — binary `readlines()`, the `.replace` chain of `__load_line`, the range
    expressions of `__cause_range`, the fill characters and counts of `__build_line_mark`, the line-number expression and the
    four f-string templates of `build` — evaluated the way Python evaluates them, is the model's `quotationBuild` (to which
    `mark`, `mark_line`, `quotation` apply), for every file content and span. -/
theorem quotation_shape (fp content : Str) (s : Span) :
    QShape.quotationBuildBy QuotationShape.loadLineReplaces QuotationShape.causeRangeBegin QuotationShape.causeRangeEnd
      QuotationShape.lineMark QuotationShape.lineNo QuotationShape.buildLines fp content s = quotationBuild fp content s :=
  QShape.quotationBuild_generated fp content s

open Tranp.Generated in
/-- The same for the self-hosted parser's `ErrorCollector` (`_cause_token`, `_cause_line`, `_cause_token_range`,
    `_cause_line_mark`, `_quotation_lines`): the generated shapes evaluate to the model's `collectorLines` (to which `collector`
    applies). -/
theorem collector_shape (source : Str) (tokens : List Span) (steps : Int) :
    QShape.collectorLinesBy QuotationShape.collectorRangeBegin QuotationShape.collectorRangeEnd QuotationShape.collectorMark
      QuotationShape.collectorLineNo QuotationShape.collectorLines source tokens steps = collectorLines source tokens steps :=
  QShape.collectorLines_generated source tokens steps

end Tranp.C16
