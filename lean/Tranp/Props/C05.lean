/-
  Property C05 — On-disk caches never change the result.
  Property theorems only; the model is Tranp/Model/CacheFS.lean (+ Model/JsonText.lean), helper lemmas live in
  Tranp/Lemmas/CacheFS.lean, CacheFSInst.lean (concrete instances) and JsonText.lean.
-/
import Tranp.Lemmas.CacheFSInst
import Tranp.Lemmas.JsonText

namespace Tranp.C05
open Tranp Tranp.CacheFS

/-! ### C05.tree_key — the syntax-tree cache -/

/-- Along every history of edits (fresh mtime per edit), runs, cache deletions, truncations and enable/disable switches that
    starts from an empty project and cache, every tree a run obtains — from the cache or not — is the fresh parse of the
    module's current source: identity (grammar mtime, source mtime) determines the source. -/
theorem tree_key (S : Sem) (H : Hyp S) (w0 : World) (hc : w0.cache = []) (hs : w0.srcs = []) (hist : List Op)
    (hok : ∀ op ∈ hist, OpOK op) (force : Bool) (k t : Str) (hkt : (k, t) ∈ (run S (exec S w0 hist) force).trees) :
    ∃ sf, (exec S w0 hist).srcs.get? k = some sf ∧ t = S.parse sf.data :=
  (run_TS H _ force (exec_TInv H w0 hist hok (TInv.init w0 hc hs))).2.2.2.1 k t hkt

/-- warm tree = cold tree -/
theorem tree_key_warm_cold (S : Sem) (H : Hyp S) (w0 : World) (hc : w0.cache = []) (hs : w0.srcs = []) (hist : List Op)
    (hok : ∀ op ∈ hist, OpOK op) (force : Bool) (k t t' : Str)
    (hw : (k, t) ∈ (run S (exec S w0 hist) force).trees) (hcold : (k, t') ∈ (run S (exec S w0 hist).clearCache force).trees) : t = t' := by
  obtain ⟨sf, h1, rfl⟩ := tree_key S H w0 hc hs hist hok force k t hw
  have hcold' : (k, t') ∈ (run S (exec S w0 (hist ++ [.clear])) force).trees := by
    rw [exec_append]; exact hcold
  obtain ⟨sf', h2, rfl⟩ := tree_key S H w0 hc hs (hist ++ [.clear])
    (fun op hop => by rcases List.mem_append.mp hop with h | h; exact hok op h; simp at h; subst h; trivial) force k t' hcold'
  rw [exec_append] at h2
  have : sf = sf' := by
    have h3 : (exec S w0 hist).srcs.get? k = some sf' := h2
    rw [h1] at h3; exact Option.some.inj h3
  rw [this]

/-- non-vacuity: a real history satisfies the hypotheses, and the second run takes `b`'s tree from the cache -/
example : Hyp cxSem ∧ (∀ op ∈ cxHist, OpOK op) ∧
    ((run cxSem (exec cxSem cxWorld cxHist) true).trees.length = 3 ∧
     (run cxSem (exec cxSem cxWorld cxHist) true).log.contains ('r', treePath cxSem ['b'] 0 2)) = true :=
  ⟨cxSem_hyp, cxHist_ok, by decide +kernel⟩

/-! ### C05.evict_safe — eviction by glob -/

/-- Eviction never removes the file being written: after a cache miss the file named by the current identity exists and
    holds the freshly built value, whatever the glob matched. -/
theorem evict_keeps_written (S : Sem) (s : Sess) (dir key ident ext fresh : Str) (bin : Bool) (hen : s.w.enabled = true) (herr : s.err = none)
    (hmiss : s.w.cache.get? (cachePath key ident ext) = none) :
    (cacheGet S s dir key ident ext fresh bin).1.w.cache.get? (cachePath key ident ext) = some ⟨fresh, s.w.clock⟩ ∧
    (cacheGet S s dir key ident ext fresh bin).2 = some fresh := by
  unfold cacheGet
  simp only [hen, Bool.not_true, Bool.false_eq_true, ↓reduceIte, hmiss]
  have hd : ({ s with w := s.w.mkdirs dir }.evict (findOldest (s.w.mkdirs dir).cache (cachePath key ident ext) ext)).w.dirs.contains dir = true := by
    rw [Sess.evict_eq]; simpa using mkdirs_mem s.w dir
  simp only [Sess.write, Sess.ev, hd, ↓reduceIte, Dir.get?_put_eq]
  rw [Sess.evict_eq]
  simp [World.mkdirs, herr]

/-- cold = warm is closed under deleting any set of cache files: both coherence invariants (from which `tree_key` and
    `symbols` follow) survive the removal of an arbitrary list of files — so the over-matching glob
    (`a-*.json` also matches `a-symbols-*.json`) is benign. -/
theorem evict_safe (S : Sem) (w : World) (h : WS S w) (victims : List Str) :
    WS S { w with cache := victims.foldl Dir.erase w.cache } :=
  ⟨h.1.eraseAll victims, h.2.eraseAll victims⟩

/-- the over-match is real: saving the tree of `a` evicts `a`'s symbol file as well -/
example : findOldest [(['a', '-', 's', 'y', 'm', 'b', 'o', 'l', 's', '-', 'x', '.', 'j', 's', 'o', 'n'], ⟨[], 0⟩),
      (['a', '-', 'o', 'l', 'd', '.', 'j', 's', 'o', 'n'], ⟨[], 0⟩), (['a', 'b', '-', 'y', '.', 'j', 's', 'o', 'n'], ⟨[], 0⟩)]
      ['a', '-', 'n', 'e', 'w', '.', 'j', 's', 'o', 'n'] jsonExt =
    [['a', '-', 's', 'y', 'm', 'b', 'o', 'l', 's', '-', 'x', '.', 'j', 's', 'o', 'n'], ['a', '-', 'o', 'l', 'd', '.', 'j', 's', 'o', 'n']] := by
  decide +kernel

/-- non-vacuity: the coherent, non-empty cache a real history leaves behind -/
example : WS cxSem (exec cxSem cxWorld cxHist) ∧ (exec cxSem cxWorld cxHist).cache.length = 7 :=
  ⟨exec_WS cxSem_hyp cxWorld cxHist cxHist_ok cxHist_acyclic (WS.init _ rfl rfl), by decide +kernel⟩

/-! ### C05.truncate — interrupted writes -/

/-- Every proper prefix of the compact JSON encoding of an object or array is bracket-unbalanced outside string literals
    (the top-level container closes only at its last byte). With the stated assumption "the decoder rejects text that is
    not `Balanced`" a truncated tree / symbol file never decodes: the run fails or rebuilds (`Hyp.prefix_invalid`). -/
theorem truncate (v : JsonText.JVal) (hv : v.isContainer = true) (k : Nat) (hk : k < (JsonText.print v).length) :
    ¬ JsonText.Balanced ((JsonText.print v).take k) :=
  JsonText.prefix_unbalanced v hv k hk

/-- non-vacuity: `{"a":[1,"}"]}` is balanced, its 12 proper prefixes are not (the `}` inside the string does not count) -/
example :
    let v : JsonText.JVal := .obj [(['a'], .arr [.num ['1'], .str ['}']])]
    (JsonText.print v = ['{', '"', 'a', '"', ':', '[', '1', ',', '"', '}', '"', ']', '}'] ∧ JsonText.Balanced (JsonText.print v) ∧
      ∀ k, k < 13 → ¬ JsonText.Balanced ((JsonText.print v).take k)) := by
  refine ⟨by decide +kernel, by decide +kernel, ?_⟩
  intro k hk
  exact truncate _ rfl k (by simpa [show (JsonText.print (.obj [(['a'], .arr [.num ['1'], .str ['}']])])).length = 13 from by decide +kernel] using hk)

/-! ### C05.symbols — the symbol cache (closure-keyed identity, a383b4a) -/

/-- For every semantics with injective digests, every import graph and every history of edits, runs, deletions, truncations
    and enable/disable switches from an empty project and cache in which no analysis runs inside an import cycle: the symbol
    table a run uses for a module — restored from whatever earlier runs left behind or analysed now — equals the one the
    same run computes from an empty cache directory. (`Module.identity` digests the identities of the direct imports, hence
    the whole import closure: `id_covers`.) -/
theorem symbols (S : Sem) (H : Hyp S) (w0 : World) (hc : w0.cache = []) (hs : w0.srcs = []) (hist : List Op)
    (hok : ∀ op ∈ hist, OpOK op) (hac : Acyclic S w0 hist) (force : Bool)
    (h1 : (run S (exec S w0 hist) force).cyc = false) (h2 : (run S (exec S w0 hist).clearCache force).cyc = false)
    (k t t' : Str) (hw : (k, t) ∈ (run S (exec S w0 hist) force).db) (hcold : (k, t') ∈ (run S (exec S w0 hist).clearCache force).db) :
    t = t' := by
  have hW := exec_WS H w0 hist hok hac (WS.init w0 hc hs)
  have hC : WS S (exec S w0 hist).clearCache := step_WS H _ .clear trivial trivial hW
  have e1 := (((run_SS H _ force hW).2 h1).2.2 k t hw).1
  have e2 := (((run_SS H _ force hC).2 h2).2.2 k t' hcold).1
  exact tab_det e1 t' e2

/-- non-vacuity and regression (the history that refuted the law before a383b4a: chain a → b → c, build, edit `c`, build):
    the hypotheses hold, `b`'s and `c`'s tables are rebuilt, and `a` — re-analysed because its identity now changes with `c` —
    sees the new `c` through `b`, warm exactly as cold -/
example : Hyp cxSem ∧ Acyclic cxSem cxWorld cxHist ∧
    ((run cxSem (exec cxSem cxWorld cxHist) true).cyc = false ∧ (run cxSem (exec cxSem cxWorld cxHist).clearCache true).cyc = false ∧
     List.lookup ['a'] (run cxSem (exec cxSem cxWorld cxHist) true).db = some [c4, c3, c2, '}'] ∧
     (run cxSem (exec cxSem cxWorld cxHist) true).out = (run cxSem (exec cxSem cxWorld cxHist).clearCache true).out) := by
  refine ⟨cxSem_hyp, cxHist_acyclic, ?_⟩
  decide +kernel

/-- The reason, for every semantics, graph and depth: equal closure-keyed identities imply equal cache-free symbol tables
    (functional form of `id_covers`). -/
theorem symbols_partial_closure (S : Sem) (H : Hyp S) (src src' : Str → Str) (f : Nat) (k : Str)
    (h : mid S src f k = mid S src' f k) : symPure S src f k = symPure S src' f k :=
  mid_covers H src src' f k h

/-- non-vacuity: on the chain the cache-free symbols of `a` differ before and after the edit of `c`, hence so does `a`'s
    closure-keyed identity -/
example : symPure cxSem srcInt 3 ['a'] ≠ symPure cxSem srcStr 3 ['a'] ∧ mid cxSem srcInt 3 ['a'] ≠ mid cxSem srcStr 3 ['a'] := by
  have h : symPure cxSem srcInt 3 ['a'] ≠ symPure cxSem srcStr 3 ['a'] := by decide +kernel
  exact ⟨h, fun e => h (symbols_partial_closure cxSem cxSem_hyp srcInt srcStr 3 ['a'] e)⟩

/-! ### C05.disabled — caching disabled (store gated on `enabled`, a3f0216) -/

/-- With `CacheSetting.enabled = False` a run opens, creates and unlinks nothing below the cache directory, whatever earlier
    runs left there — for every semantics and every world. -/
theorem disabled (S : Sem) (w : World) (force : Bool) (he : w.enabled = false) :
    (run S w force).log = [] ∧ (run S w force).w.cache = w.cache :=
  ⟨(run_quiet w force he).1, (run_quiet w force he).2.1⟩

/-- non-vacuity and regression (the world that refuted the law before a3f0216: populated cache, an edit, caching switched
    off): the run transpiles all three modules and touches nothing -/
example :
    let w : World := exec cxSem cxWorld (cxHist ++ [.enable false])
    (w.enabled = false ∧ w.cache.length = 7 ∧ (run cxSem w true).out.length = 3 ∧ (run cxSem w true).err = none ∧
      (run cxSem w true).log = []) := by
  decide +kernel

/-- …and with no cache directory at all the disabled run succeeds as well (it died with FileNotFoundError before) -/
example : (run cxSem { exec cxSem cxWorld (cxHist ++ [.enable false]) with cache := [], dirs := [] } true).err = none := by
  decide +kernel

end Tranp.C05
