/-
  Property C05 — On-disk caches never change the result.
  Property theorems only; the model is Tranp/Model/CacheFS.lean (+ Model/JsonText.lean), helper lemmas live in
  Tranp/Lemmas/CacheFS.lean, CacheFSInst.lean (concrete instances) and JsonText.lean.
-/
import Tranp.Lemmas.CacheFSInst
import Tranp.Lemmas.CacheFSFuel
import Tranp.Lemmas.JsonText
import Tranp.Lemmas.JsonCodec
import Tranp.Generated.LarkCache
import Tranp.Generated.CacheKeys

namespace Tranp.C05
open Tranp Tranp.CacheFS

/-! ### C05.tree_key — the syntax-tree cache -/

/-- Along every history of edits (fresh mtime per edit), grammar changes (fresh grammar mtime), changes of `ParserSetting`
    (grammar path / start / algorithm, mtimes untouched), runs, cache deletions, truncations and enable/disable switches that
    starts from an empty project and cache, every tree a run obtains — from the cache or not — is the fresh parse of the
    module's current source with the parser of the current setting: the identity (grammar path, start, algorithm, grammar mtime,
    source mtime — since 9dfb5b4) determines both. -/
theorem tree_key (S : Sem) (H : Hyp S) (w0 : World) (hc : w0.cache = []) (hs : w0.srcs = []) (hg : w0.grammarMtime < w0.clock)
    (hist : List Op) (hok : ∀ op ∈ hist, OpOK op) (force : Bool) (k t : Str) (hkt : (k, t) ∈ (run S (exec S w0 hist) force).trees) :
    ∃ sf, (exec S w0 hist).srcs.get? k = some sf ∧ t = S.parse ((exec S w0 hist).parserNow S) sf.data :=
  (run_TS H _ force (exec_TInv H w0 hist hok (TInv.init w0 hc hs hg))).trees k t hkt

/-- warm tree = cold tree -/
theorem tree_key_warm_cold (S : Sem) (H : Hyp S) (w0 : World) (hc : w0.cache = []) (hs : w0.srcs = []) (hg : w0.grammarMtime < w0.clock)
    (hist : List Op) (hok : ∀ op ∈ hist, OpOK op) (force : Bool) (k t t' : Str)
    (hw : (k, t) ∈ (run S (exec S w0 hist) force).trees) (hcold : (k, t') ∈ (run S (exec S w0 hist).clearCache force).trees) : t = t' := by
  obtain ⟨sf, h1, rfl⟩ := tree_key S H w0 hc hs hg hist hok force k t hw
  have hcold' : (k, t') ∈ (run S (exec S w0 (hist ++ [.clear])) force).trees := by
    rw [exec_append]; exact hcold
  obtain ⟨sf', h2, rfl⟩ := tree_key S H w0 hc hs hg (hist ++ [.clear])
    (fun op hop => by rcases List.mem_append.mp hop with h | h; exact hok op h; simp at h; subst h; trivial) force k t' hcold'
  rw [exec_append] at h2
  have : sf = sf' := by
    have h3 : (exec S w0 hist).srcs.get? k = some sf' := h2
    rw [h1] at h3; exact Option.some.inj h3
  rw [this, exec_append]
  rfl

/-- non-vacuity: a real history satisfies the hypotheses, and the second run takes `b`'s tree from the cache -/
example : Hyp cxSem ∧ (∀ op ∈ cxHist, OpOK op) ∧
    ((run cxSem (exec cxSem cxWorld cxHist) true).trees.length = 3 ∧
     (run cxSem (exec cxSem cxWorld cxHist) true).log.contains ('r', treePath cxSem ['b'] [] [] [] 0 2 (treeHashArg cxSem [c3]))) = true ∧ cxWorld.grammarMtime < cxWorld.clock :=
  ⟨cxSem_hyp, cxHist_ok, by decide +kernel, by decide⟩

/-- The same statement spelled out for histories that change `ParserSetting` without touching the grammar mtime (another
    grammar file with the same mtime, another start rule or algorithm) — `OpOK` admits `Op.setting` since the tree identity
    covers the setting (9dfb5b4); before, this statement was refuted (`tree-key-ignores-grammar-path`). -/
def tree_key_setting_statement : Prop :=
  ∀ (S : Sem), Hyp S → ∀ (w0 : World), w0.cache = [] → w0.srcs = [] → w0.grammarMtime < w0.clock → ∀ (hist : List Op),
    (∀ op ∈ hist, match op with | .edit k _ => KeyOK k | _ => True) → ∀ (force : Bool) (k t : Str),
      (k, t) ∈ (run S (exec S w0 hist) force).trees →
        ∃ sf, (exec S w0 hist).srcs.get? k = some sf ∧ t = S.parse ((exec S w0 hist).parserNow S) sf.data

theorem tree_key_setting : tree_key_setting_statement := by
  intro S H w0 hc hs hg hist hok force k t hkt
  refine tree_key S H w0 hc hs hg hist (fun op hop => ?_) force k t hkt
  have := hok op hop
  cases op <;> first | exact this | trivial

/-- regression (non-vacuity): the history that refuted the statement before 9dfb5b4 — one module, a run, the grammar path is
    switched — under a semantics whose trees depend on the parser: the second run does not restore the tree of the first
    grammar (no read of a tree file: the name differs), its tree carries the mark of the second grammar. -/
example :
    let w := exec gramSem { order := [['c']] } [.edit ['c'] [c1], .run true, .setting ['g', '2'] [] []]
    (run gramSem w true).trees = [(['c'], [c1, 'g', '2', '}'])]
    ∧ (run gramSem w true).log.all (fun e => !(e.1 == 'r' && e.2.take 1 == ['c'])) = true
    ∧ treePath gramSem ['c'] [] [] [] 0 1 (treeHashArg gramSem [c1]) ∈ (w.cache.map (·.1)) := by
  decide +kernel

/-! ### C05.evict_safe — eviction by glob -/

/-- Eviction never removes the file being written: after a cache miss the file named by the current identity exists and
    holds the freshly built value, whatever the glob matched. -/
theorem evict_keeps_written (S : Sem) (s : Sess) (dir key ident ext fresh : Str) (bin : Bool) (hen : s.w.enabled = true) (herr : s.err = none)
    (hmiss : s.w.cache.get? (cachePath key ident ext) = none) :
    (cacheGet S s dir key ident ext fresh bin).1.w.cache.get? (cachePath key ident ext) = some ⟨fresh, s.w.clock⟩ ∧
    (cacheGet S s dir key ident ext fresh bin).2 = some fresh := by
  unfold cacheGet
  simp only [hen, Bool.not_true, Bool.false_eq_true, ↓reduceIte, hmiss]
  have hd : ({ s with w := s.w.mkdirs dir }.evict (findOldest (s.w.mkdirs dir).cache (cachePath key ident ext) ext)).w.dirs.contains dir = true := by
    rw [Sess.evict_eq]; simpa using mkdirs_mem s.w dir
  simp only [Sess.write, Sess.ev, hd, ↓reduceIte, Dir.get?_put_eq]
  rw [Sess.evict_eq]
  simp [World.mkdirs, herr]

/-- cold = warm is closed under deleting any set of cache files: both coherence invariants (from which `tree_key` and
    `symbols` follow) survive the removal of an arbitrary list of files — so the over-matching glob
    (`a-*.json` also matches `a-symbols-*.json`) is benign. -/
theorem evict_safe (S : Sem) (w : World) (h : WS S w) (victims : List Str) :
    WS S { w with cache := victims.foldl Dir.erase w.cache } :=
  ⟨h.1.eraseAll victims, h.2.eraseAll victims⟩

/-- the over-match is real: saving the tree of `a` evicts `a`'s symbol file as well -/
example : findOldest [(['a', '-', 's', 'y', 'm', 'b', 'o', 'l', 's', '-', 'x', '.', 'j', 's', 'o', 'n'], ⟨[], 0⟩),
      (['a', '-', 'o', 'l', 'd', '.', 'j', 's', 'o', 'n'], ⟨[], 0⟩), (['a', 'b', '-', 'y', '.', 'j', 's', 'o', 'n'], ⟨[], 0⟩)]
      ['a', '-', 'n', 'e', 'w', '.', 'j', 's', 'o', 'n'] jsonExt =
    [['a', '-', 's', 'y', 'm', 'b', 'o', 'l', 's', '-', 'x', '.', 'j', 's', 'o', 'n'], ['a', '-', 'o', 'l', 'd', '.', 'j', 's', 'o', 'n']] := by
  decide +kernel

/-- non-vacuity: the coherent, non-empty cache a real history leaves behind -/
example : WS cxSem (exec cxSem cxWorld cxHist) ∧ (exec cxSem cxWorld cxHist).cache.length = 7 :=
  ⟨exec_WS cxSem_hyp cxWorld cxHist cxHist_ok cxHist_plain.1 cxHist_acyclic (WS.init _ rfl rfl (by decide)), by decide +kernel⟩

/-! ### C05.truncate — interrupted writes -/

/-- Every proper prefix of the compact JSON encoding of an object or array is bracket-unbalanced outside string literals
    (the top-level container closes only at its last byte). With the stated assumption "the decoder rejects text that is
    not `Balanced`" a truncated tree / symbol file never decodes: the run fails or rebuilds (`Hyp.prefix_invalid`). -/
theorem truncate (v : JsonText.JVal) (hv : v.isContainer = true) (k : Nat) (hk : k < (JsonText.print v).length) :
    ¬ JsonText.Balanced ((JsonText.print v).take k) :=
  JsonText.prefix_unbalanced v hv k hk

/-- non-vacuity: `{"a":[1,"}"]}` is balanced, its 12 proper prefixes are not (the `}` inside the string does not count) -/
example :
    let v : JsonText.JVal := .obj [(['a'], .arr [.num ['1'], .str ['}']])]
    (JsonText.print v = ['{', '"', 'a', '"', ':', '[', '1', ',', '"', '}', '"', ']', '}'] ∧ JsonText.Balanced (JsonText.print v) ∧
      ∀ k, k < 13 → ¬ JsonText.Balanced ((JsonText.print v).take k)) := by
  refine ⟨by decide +kernel, by decide +kernel, ?_⟩
  intro k hk
  exact truncate _ rfl k (by simpa [show (JsonText.print (.obj [(['a'], .arr [.num ['1'], .str ['}']])])).length = 13 from by decide +kernel] using hk)

/-- **Decoder level** — no "the decoder rejects unbalanced text" assumption: with the model of CPython's compact `json.dumps`
    and of `json.loads` (Model/JsonCodec.lean: `printJson` / `parseJson`, tied to the real codec by the streams of C15 and
    round-trip-proved there) a written object or array decodes to exactly the value written, and NO proper prefix of the file
    decodes at all. These are `Hyp.valid_parse` / `Hyp.prefix_invalid` / `Hyp.dec_prefix` for the two JSON layers (tree files:
    `EntryStored.save`; symbol files: `json.dumps(db.to_json(…), separators=(',', ':'))`), as theorems about that decoder. -/
theorem truncate_decoder (j : Lark.Json) (hj : (∃ kvs, j = .obj kvs) ∨ (∃ xs, j = .arr xs)) :
    Lark.parseJson (Lark.printJson j) = some j ∧
    ∀ k, k < (Lark.printJson j).length → Lark.parseJson ((Lark.printJson j).take k) = none := by
  refine ⟨Lark.parseJson_printJson j, fun k hk => ?_⟩
  have hcut : (Lark.printJson j).take k ++ (Lark.printJson j).drop k = Lark.printJson j := List.take_append_drop k _
  have hext : (Lark.printJson j).drop k ≠ [] := by
    intro h
    have := congrArg List.length h
    simp only [List.length_drop, List.length_nil] at this
    omega
  generalize (Lark.printJson j).take k = p at hcut
  generalize (Lark.printJson j).drop k = ext at hcut hext
  cases p with
  | nil => rfl
  | cons c t =>
    have hc : c = '{' ∨ c = '[' := by
      rcases hj with ⟨kvs, rfl⟩ | ⟨xs, rfl⟩
      · left
        cases kvs with
        | nil => simp [Lark.printJson] at hcut; exact hcut.1
        | cons kv r => obtain ⟨k, v⟩ := kv; simp [Lark.printJson] at hcut; exact hcut.1
      · right
        cases xs with
        | nil => simp [Lark.printJson] at hcut; exact hcut.1
        | cons x r => simp [Lark.printJson] at hcut; exact hcut.1
    exact Lark.parseJson_prefix_none (c :: t) ext c t j rfl hc hext (by rw [hcut]; exact Lark.parseJson_printJson j)

/-- non-vacuity: `{"a":[1,"}"]}` — the whole text decodes, `{"a":[1,"}"]` (cut before the last brace) and `{"a":[1,"}` do not -/
example :
    let j : Lark.Json := .obj [(['a'], .arr [.num 1, .str ['}']])]
    (Lark.printJson j = ['{', '"', 'a', '"', ':', '[', '1', ',', '"', '}', '"', ']', '}'] ∧
      Lark.parseJson (Lark.printJson j) = some j ∧ Lark.parseJson ((Lark.printJson j).take 12) = none ∧
      Lark.parseJson ((Lark.printJson j).take 10) = none) := by
  refine ⟨by decide +kernel, (truncate_decoder _ (Or.inl ⟨_, rfl⟩)).1, ?_, ?_⟩ <;>
    exact (truncate_decoder _ (Or.inl ⟨_, rfl⟩)).2 _ (by decide +kernel)

/-! ### C05.symbols — the symbol cache (closure identity, a383b4a / c3eaa55) -/

/-- For every semantics with injective digests, every import graph and every history of edits, runs, deletions, truncations
    and enable/disable switches from an empty project and cache in which no analysis runs inside an import cycle: the symbol
    table a run uses for a module — restored from whatever earlier runs left behind or analysed now — equals the one the
    same run computes from an empty cache directory. (`Module.identity` digests the (file, hash) pairs of the whole import
    closure, collected with a visited dict: `collect_closure`, `id_covers`.) -/
theorem symbols (S : Sem) (H : Hyp S) (w0 : World) (hc : w0.cache = []) (hs : w0.srcs = []) (hg : w0.grammarMtime < w0.clock)
    (hist : List Op) (hok : ∀ op ∈ hist, OpOK op) (hng : ∀ op ∈ hist, NoGrammar op) (hac : Acyclic S w0 hist) (force : Bool)
    (h1 : (run S (exec S w0 hist) force).cyc = false) (h2 : (run S (exec S w0 hist).clearCache force).cyc = false)
    (k t t' : Str) (hw : (k, t) ∈ (run S (exec S w0 hist) force).db) (hcold : (k, t') ∈ (run S (exec S w0 hist).clearCache force).db) :
    t = t' := by
  have hW := exec_WS H w0 hist hok hng hac (WS.init w0 hc hs hg)
  have hC : WS S (exec S w0 hist).clearCache := step_WS H _ .clear trivial trivial trivial hW
  have e1 := (((run_SS H _ force hW).2 h1).2.2 k t hw).1
  have e2 := (((run_SS H _ force hC).2 h2).2.2 k t' hcold).1
  exact tab_det e1 t' e2

/-- non-vacuity and regression (the history that refuted the law before a383b4a: chain a → b → c, build, edit `c`, build):
    the hypotheses hold, `b`'s and `c`'s tables are rebuilt, and `a` — re-analysed because its identity now changes with `c` —
    sees the new `c` through `b`, warm exactly as cold -/
example : Hyp cxSem ∧ Acyclic cxSem cxWorld cxHist ∧ (∀ op ∈ cxHist, NoGrammar op) ∧
    ((run cxSem (exec cxSem cxWorld cxHist) true).cyc = false ∧ (run cxSem (exec cxSem cxWorld cxHist).clearCache true).cyc = false ∧
     List.lookup ['a'] (run cxSem (exec cxSem cxWorld cxHist) true).db = some [c4, c3, c2, '}'] ∧
     (run cxSem (exec cxSem cxWorld cxHist) true).out = (run cxSem (exec cxSem cxWorld cxHist).clearCache true).out) := by
  refine ⟨cxSem_hyp, cxHist_acyclic, cxHist_plain.1, ?_⟩
  decide +kernel

/-- The reason, for every semantics and every pair of source states: an identity is the digest of the (file, hash) pairs of
    an import-closed set of files containing the module (`IsIdC`; what `__collect_hashes` collects: `collect_closure`), so
    equal identities mean equal files over the whole import closure, hence equal cache-free symbol tables. -/
theorem symbols_partial_closure (S : Sem) (H : Hyp S) (pz : Str) (srcs srcs' : Dir) (k I t t' : Str)
    (h1 : IsIdC S pz srcs k I) (h2 : IsIdC S pz srcs' k I) (ht : IsTab S pz srcs k t) (ht' : IsTab S pz srcs' k t') : t = t' :=
  id_covers H h1 h2 ht ht'

/-- non-vacuity: the leaf module `c` of the chain has an identity over its one-element closure -/
example : IsIdC cxSem [] [(['c'], ⟨[c1], 0⟩)] ['c'] (identOf cxSem ['c'] [(['c'], [c1])] [c1]) := by
  refine ⟨[(['c'], [c1])], ⟨[c1], 0⟩, ⟨⟨[c1], by simp⟩, ?_⟩, rfl, rfl⟩
  intro d h hm
  simp only [List.mem_singleton, Prod.mk.injEq] at hm
  obtain ⟨rfl, rfl⟩ := hm
  refine ⟨⟨[c1], 0⟩, rfl, rfl, fun e he => ?_⟩
  have hnil : cxSem.importsOf (cxSem.parse [] [c1]) = [] := by decide
  rw [hnil] at he; cases he

/-- Import cycles: `__collect_hashes` keeps a visited dict, so the identity of a module inside a cycle is computed and the run
    completes (here `a` and `b` import each other; the cycle flag is raised, both modules are transpiled, warm as cold). -/
example :
    let cyc : Sem := { cxSem with importsOf := fun tree => if tree = [c4, '}'] then [['b']] else if tree = [c3, '}'] then [['a']] else [] }
    let w : World := exec cyc { order := [['a'], ['b']] } [.edit ['a'] [c4], .edit ['b'] [c3], .run true]
    ((run cyc w true).err = none ∧ (run cyc w true).cyc = true ∧ (run cyc w true).out.length = 2 ∧ (run cyc w true).ids.length = 2 ∧
      (run cyc w true).out = (run cyc w.clearCache true).out) := by
  decide +kernel

/-- **`__collect_hashes` terminates on every import graph, and the model's fuel is never what ends it.** Every descent first
    enters a not yet visited registered module into the visited dict, so from `trees.length + 2` units on (what `identityCore`
    passes) the result of the traversal does not depend on the fuel: for every semantics, source state, list of loaded trees,
    `depends_on` set and start module — import cycles included. A `none` of the model's `Module.identity` therefore always is
    the FileNotFoundError of the code, never an artefact of the model. -/
theorem collect_fuel_free (S : Sem) (srcs : Dir) (trees : List (Str × Str)) (depd : List Str) (k : Str) (f : Nat)
    (hf : trees.length + 2 ≤ f) :
    collect S srcs trees depd f [] k = collect S srcs trees depd (trees.length + 2) [] k :=
  collect_fuel_bound S srcs trees depd k f hf

/-- non-vacuity: `a` and `b` import each other; the traversal from `a` visits both and stops (4 units suffice, 100 give the same) -/
example :
    let cyc : Sem := { cxSem with importsOf := fun tree => if tree = [c4, '}'] then [['b']] else if tree = [c3, '}'] then [['a']] else [] }
    let srcs : Dir := [(['a'], ⟨[c4], 0⟩), (['b'], ⟨[c3], 0⟩)]
    let trees : List (Str × Str) := [(['a'], [c4, '}']), (['b'], [c3, '}'])]
    ((collect cyc srcs trees [['a'], ['b']] 4 [] ['a']).map (·.map (·.1)) = some [['a'], ['b']] ∧
      collect cyc srcs trees [['a'], ['b']] 100 [] ['a'] = collect cyc srcs trees [['a'], ['b']] 4 [] ['a']) := by
  refine ⟨by decide +kernel, ?_⟩
  exact collect_fuel_free _ _ _ _ _ 100 (by decide)

/-! ### C05.output_warm_cold — rendered text and failure status -/

/-- **Output level.** For every semantics — in particular every renderer: the text of a module is `S.render` of the module's
    tree and the symbol tables the session holds when the module is transpiled (its import closure and what was loaded
    before, in load order) — every history of edits, runs, clears, deletions and enable/disable switches without an
    interrupted write and without a grammar change, in which no analysis runs inside an import cycle: the run over the cache
    directory as it is and the run over the emptied directory have the same cycle flag, and if it is clear they transpile the
    same modules to the same texts and **fail or succeed alike** (same error), having loaded the same modules in the same
    order with the same trees, identities and symbol tables. -/
theorem output_warm_cold (S : Sem) (H : Hyp S) (w0 : World) (hc : w0.cache = []) (hs : w0.srcs = []) (hg : w0.grammarMtime < w0.clock)
    (hist : List Op) (hok : ∀ op ∈ hist, OpOK op) (hng : ∀ op ∈ hist, NoGrammar op) (hnd : ∀ op ∈ hist, NoDamage op)
    (hac : Acyclic S w0 hist) (force : Bool) :
    (run S (exec S w0 hist) force).cyc = (run S (exec S w0 hist).clearCache force).cyc ∧
    ((run S (exec S w0 hist) force).cyc = false →
      (run S (exec S w0 hist) force).out = (run S (exec S w0 hist).clearCache force).out ∧
      (run S (exec S w0 hist) force).err = (run S (exec S w0 hist).clearCache force).err ∧
      (run S (exec S w0 hist) force).db = (run S (exec S w0 hist).clearCache force).db ∧
      (run S (exec S w0 hist) force).trees = (run S (exec S w0 hist).clearCache force).trees ∧
      (run S (exec S w0 hist) force).w.outs = (run S (exec S w0 hist).clearCache force).w.outs) := by
  obtain ⟨hW, hV⟩ := exec_WV H w0 hist hok hng hnd hac (WS.init w0 hc hs hg) (VInv.init w0 hc)
  have hr := run_warm_cold H (exec S w0 hist) force hW hV
  exact ⟨hr.1, fun hcyc => ⟨(hr.2 hcyc).out, (hr.2 hcyc).err, (hr.2 hcyc).db, (hr.2 hcyc).trees, (hr.2 hcyc).frame.2.2.1.symm⟩⟩

/-- non-vacuity: the chain history; the warm run restores `c`'s and re-analyses `b` and `a`, the cold run analyses all three -/
example : Hyp cxSem ∧ (∀ op ∈ cxHist, NoGrammar op) ∧ (∀ op ∈ cxHist, NoDamage op) ∧ Acyclic cxSem cxWorld cxHist ∧
    ((run cxSem (exec cxSem cxWorld cxHist) true).cyc = false ∧ (run cxSem (exec cxSem cxWorld cxHist) true).out.length = 3 ∧
     (run cxSem (exec cxSem cxWorld cxHist) true).err = none ∧
     (run cxSem (exec cxSem cxWorld cxHist) true).log ≠ (run cxSem (exec cxSem cxWorld cxHist).clearCache true).log) := by
  refine ⟨cxSem_hyp, cxHist_plain.1, cxHist_plain.2, cxHist_acyclic, ?_⟩
  decide +kernel

/-- the failure side: `a` imports `b`, which has no file: the run over the cache of the first (failed) run fails exactly
    as the run over an empty cache directory does -/
example :
    let hist : List Op := [.edit ['a'] [c4], .run true]
    ((run cxSem (exec cxSem cxWorld hist) true).err = some .noSource ∧ (run cxSem (exec cxSem cxWorld hist).clearCache true).err = some .noSource ∧
      (exec cxSem cxWorld hist).cache.length = 2) := by
  decide +kernel

/-! ### C05.parser_key — the pickled parser -/

/-- Along every history (edits, grammar changes, runs, deletions, truncations, enable/disable) the parser a run works with —
    taken from `parser.cache-<md5>.bin` or freshly built — is the one built from the current grammar path, start rule,
    algorithm and grammar mtime; a cache file is consulted only under the name of exactly these four (`parser_inj`: another
    path, start, algorithm or mtime is another file name), so a pickle is reused only when all four are unchanged. -/
theorem parser_key (S : Sem) (H : Hyp S) (w0 : World) (hc : w0.cache = []) (hs : w0.srcs = []) (hg : w0.grammarMtime < w0.clock)
    (hist : List Op) (hok : ∀ op ∈ hist, OpOK op) (force : Bool) :
    (∀ pz, (run S (exec S w0 hist) force).parser = some pz →
      pz = S.parserBlob (exec S w0 hist).grammar (exec S w0 hist).start (exec S w0 hist).algo (exec S w0 hist).grammarMtime) ∧
    (∀ gp st al g gp' st' al' g', parserPath S gp st al g = parserPath S gp' st' al' g' → gp = gp' ∧ st = st' ∧ al = al' ∧ g = g') :=
  ⟨(run_TS H _ force (exec_TInv H w0 hist hok (TInv.init w0 hc hs hg))).parser, fun _ _ _ _ _ _ _ _ h => parserPath_inj H h⟩

/-- non-vacuity: after a grammar change the next run builds the parser anew (the old pickle is evicted, a new one written
    under another name) and re-parses every module: 14 cache accesses, still 7 files -/
example :
    let hist := cxHist ++ [.run true, .grammar ['g', '2'], .run true]
    ((∀ op ∈ hist, OpOK op) ∧ (exec cxSem cxWorld hist).cache.length = 7 ∧
      (run cxSem (exec cxSem cxWorld (cxHist ++ [.run true, .grammar ['g', '2']])) true).log.length = 14) := by
  refine ⟨fun op hop => ?_, by decide +kernel, by decide +kernel⟩
  simp only [cxHist, List.cons_append, List.nil_append, List.mem_cons, List.not_mem_nil, or_false] at hop
  rcases hop with rfl | rfl | rfl | rfl | rfl | rfl | rfl | rfl <;> first | trivial | (exact ⟨by decide, by decide⟩)

/-- A truncated pickle is a load failure, never another parser: if the file named by the current setting does not decode
    (a proper prefix, `Hyp.prefix_invalid`), obtaining the parser fails with the load error and no parser is set. -/
theorem parser_truncated (S : Sem) (s : Sess) (f : File) (hen : s.w.enabled = true) (hnone : s.parser = none)
    (hf : s.w.cache.get? (parserPath S s.w.grammar s.w.start s.w.algo s.w.grammarMtime) = some f) (hbad : S.valid f.data = false) :
    (parserGet S s).2 = none ∧ (parserGet S s).1.err = some .decodeBin ∧ (parserGet S s).1.parser = none := by
  unfold parserGet cacheGet
  have hf' : s.w.cache.get? (cachePath parserKey (S.parserIdent s.w.grammar s.w.start s.w.algo s.w.grammarMtime) binExt) = some f := hf
  simp [hnone, hen, hf', hbad, Sess.fail, Sess.ev]

example : ∃ (s : Sess) (f : File), s.w.enabled = true ∧ s.parser = none ∧
    s.w.cache.get? (parserPath cxSem s.w.grammar s.w.start s.w.algo s.w.grammarMtime) = some f ∧ cxSem.valid f.data = false :=
  ⟨{ w := { cache := [(parserPath cxSem [] [] [] 0, ⟨[], 0⟩)] } }, ⟨[], 0⟩, rfl, rfl, by decide +kernel, by decide⟩

/-! ### C05.disabled — caching disabled (store gated on `enabled`, a3f0216) -/

/-- With `CacheSetting.enabled = False` a run opens, creates and unlinks nothing below the cache directory, whatever earlier
    runs left there — for every semantics and every world. -/
theorem disabled (S : Sem) (w : World) (force : Bool) (he : w.enabled = false) :
    (run S w force).log = [] ∧ (run S w force).w.cache = w.cache :=
  ⟨(run_quiet w force he).1, (run_quiet w force he).2.1⟩

/-- non-vacuity and regression (the world that refuted the law before a3f0216: populated cache, an edit, caching switched
    off): the run transpiles all three modules and touches nothing -/
example :
    let w : World := exec cxSem cxWorld (cxHist ++ [.enable false])
    (w.enabled = false ∧ w.cache.length = 7 ∧ (run cxSem w true).out.length = 3 ∧ (run cxSem w true).err = none ∧
      (run cxSem w true).log = []) := by
  decide +kernel

/-- …and with no cache directory at all the disabled run succeeds as well (it died with FileNotFoundError before) -/
example : (run cxSem { exec cxSem cxWorld (cxHist ++ [.enable false]) with cache := [], dirs := [] } true).err = none := by
  decide +kernel

/-! ### C05.key_covers — what the code hashes into the three cache keys (generated from the source)

The key lists are `Generated/LarkCache.lean` (tree files, parser pickle: gen_lark_cache.py) and `Generated/CacheKeys.lean`
(`Module.identity`, `FileLoader.load`, the persistor's gates and file names, `Cached`: gen_cache_keys.py), read from the source
with `ast`. `readExpr`/`readStmt` below give each verbatim expression the input of the model it denotes (`none` = an expression
this file does not understand, which fails the theorems). The theorems state, per cache, the list of inputs the key is made of
— these are exactly the arguments of `Sem.treeIdent`, `Sem.parserIdent`, `identityCore` in Model/CacheFS.lean — and whether that
list covers the inputs the cached value is a function of. A key component dropped in the code (or added) changes the generated
list and these proofs fail. -/

namespace KeyCover
open Tranp.Generated

/-- the inputs of a run a cached value may depend on -/
inductive Input
  | grammarMtime | grammarPath | start | algo | sourceMtime | ownBytes | importPath | importBytes
  deriving DecidableEq, Repr

/-- the verbatim expressions of the identity dictionaries and the input each denotes -/
def readExpr (e : Str) : Option Input :=
  if e = ['s', 't', 'r', '(', 's', 'e', 'l', 'f', '.', '_', '_', 'd', 'a', 't', 'u', 'm', 's', '.', 'm', 't', 'i', 'm', 'e', '(', 's', 'e', 'l', 'f', '.', '_', '_', 's', 'e', 't', 't', 'i', 'n', 'g', '.', 'g', 'r', 'a', 'm', 'm', 'a', 'r', ')', ')'] then some .grammarMtime
  else if e = ['s', 'e', 'l', 'f', '.', '_', '_', 's', 'e', 't', 't', 'i', 'n', 'g', '.', 'g', 'r', 'a', 'm', 'm', 'a', 'r'] then some .grammarPath
  else if e = ['s', 'e', 'l', 'f', '.', '_', '_', 's', 'e', 't', 't', 'i', 'n', 'g', '.', 's', 't', 'a', 'r', 't'] then some .start
  else if e = ['s', 'e', 'l', 'f', '.', '_', '_', 's', 'e', 't', 't', 'i', 'n', 'g', '.', 'a', 'l', 'g', 'o', 'r', 'i', 't', 'h', 'e', 'm'] then some .algo
  else if e = ['s', 't', 'r', '(', 's', 'e', 'l', 'f', '.', '_', '_', 's', 'o', 'u', 'r', 'c', 'e', 's', '.', 'm', 't', 'i', 'm', 'e', '(', 's', 'o', 'u', 'r', 'c', 'e', '_', 'p', 'a', 't', 'h', ')', ')'] then some .sourceMtime
  else if e = ['s', 'e', 'l', 'f', '.', '_', '_', 's', 'o', 'u', 'r', 'c', 'e', 's', '.', 'h', 'a', 's', 'h', '(', 's', 'o', 'u', 'r', 'c', 'e', '_', 'p', 'a', 't', 'h', ')'] then some .ownBytes
  else none

def treeKeyInputs : List (Option Input) := LarkCache.treeIdentity.map (fun kv => readExpr kv.2)
def parserKeyInputs : List (Option Input) := LarkCache.parserIdentity.map (fun kv => readExpr kv.2)

/-- what the parser pickle is a function of: the grammar file (its path, and its content — of which the mtime is the proxy the
    model's `World.grammarMtime` stands for), the start rule and the algorithm (`larkKwargs` of LarkCache.lean) -/
def parserDeps : List Input := [.grammarMtime, .grammarPath, .start, .algo]
/-- a cached tree is `parse (parser) (source)` (`treeGet` of the model): it depends on whatever the parser depends on, and on
    the source file (its content; proxy: its mtime) -/
def treeDeps : List Input := parserDeps ++ [.sourceMtime]
/-- … of which the mtime is only a proxy: the tree is a function of the source's BYTES. A key that has the content hash covers
    the bytes themselves (no "fresh mtime per edit" needed for the tree layer). -/
def treeDepsBytes : List Input := parserDeps ++ [.ownBytes]

def Covers (key : List (Option Input)) (deps : List Input) : Prop := ∀ d ∈ deps, some d ∈ key
instance (key : List (Option Input)) (deps : List Input) : Decidable (Covers key deps) := by unfold Covers; infer_instance

/-- the statements of `Module.identity` that put something into the hashed list, and what -/
def readIdStmt (s : Str) : List Input :=
  if s = ['i', 'd', 'e', 'n', 't', 'i', 't', 'i', 'e', 's', ' ', '=', ' ', '[', 'f', '\'', '{', 'f', 'i', 'l', 'e', 'p', 'a', 't', 'h', '}', ':', '{', 'h', 'a', 's', 'h', 'e', 's', '[', 'f', 'i', 'l', 'e', 'p', 'a', 't', 'h', ']', '}', '\'', ' ', 'f', 'o', 'r', ' ', 'f', 'i', 'l', 'e', 'p', 'a', 't', 'h', ' ', 'i', 'n', ' ', 's', 'o', 'r', 't', 'e', 'd', '(', 'h', 'a', 's', 'h', 'e', 's', '.', 'k', 'e', 'y', 's', '(', ')', ')', ' ', 'i', 'f', ' ', 'f', 'i', 'l', 'e', 'p', 'a', 't', 'h', ' ', '!', '=', ' ', 's', 'e', 'l', 'f', '.', 'f', 'i', 'l', 'e', 'p', 'a', 't', 'h', ']'] then [.importPath, .importBytes]
  else if s = ['i', 'd', 'e', 'n', 't', 'i', 't', 'i', 'e', 's', '.', 'a', 'p', 'p', 'e', 'n', 'd', '(', 'h', 'a', 's', 'h', 'e', 's', '[', 's', 'e', 'l', 'f', '.', 'f', 'i', 'l', 'e', 'p', 'a', 't', 'h', ']', ')'] then [.ownBytes]
  else []

def symbolKeyInputs : List Input := (CacheKeys.moduleIdentity.map readIdStmt).flatten

/-- a symbol table file holds the table of one module; it is a function of the module's tree and of the tables of every module
    in its import closure (Lemmas/CacheFS.lean `IsTab`): the bytes of the own file, and path and bytes of each imported file. -/
def symbolDeps : List Input := [.ownBytes, .importPath, .importBytes]

end KeyCover

open KeyCover in
/-- The parser pickle's key is made of exactly the four arguments of `Sem.parserIdent` (in the code's order), every expression of
    the generated dictionary is understood, and the key covers everything the pickle depends on. -/
theorem parser_key_covers :
    parserKeyInputs = [some .grammarMtime, some .grammarPath, some .start, some .algo] ∧ Covers parserKeyInputs parserDeps := by
  decide +kernel

open KeyCover in
/-- The tree files' key is made of exactly the arguments of `Sem.treeIdent`, in the code's order: the grammar's mtime, its path,
    the start rule, the algorithm, the source's mtime (9dfb5b4) — and, exactly when the identity dictionary carries the key `hash`
    (`treeKeyHasHash`, which is what makes the model pass the content hash to `Sem.treeIdent`: `treeHashArg`), the md5 of the
    source's bytes as the last component. Every expression of the generated dictionary is understood. -/
theorem tree_key_inputs :
    treeKeyInputs = [some .grammarMtime, some .grammarPath, some .start, some .algo, some .sourceMtime] ++
      (if treeKeyHasHash = true then [some .ownBytes] else []) := by decide +kernel

open KeyCover in
/-- The tree key covers what a cached tree depends on: everything the parser is built from, and the source. -/
theorem tree_key_covers : Covers treeKeyInputs treeDeps := by decide +kernel

open KeyCover in
/-- The mtime is a proxy of the bytes only while every edit draws a fresh mtime (`tree_key` is stated for such histories; the
    history edit, edit back to the old mtime with other content, run refutes the law on the real code: finding
    `tree-stale:mtime-recurs-same-generation`). A key that carries the content hash covers the bytes themselves — exactly when the
    generated dictionary has the key `hash`. -/
theorem tree_key_covers_bytes : Covers treeKeyInputs treeDepsBytes ↔ treeKeyHasHash = true := by decide +kernel

open KeyCover in
/-- regression: the key before 9dfb5b4 (finding `tree-key-ignores-grammar-path`, corpus/C05/grammar-switch-same-mtime.json),
    as a literal list, does not cover — exactly grammar path, start and algorithm were missing -/
example : ¬ Covers [some .grammarMtime, some .sourceMtime] treeDeps
    ∧ (∀ d, d ∈ treeDeps ∧ some d ∉ [some Input.grammarMtime, some .sourceMtime] ↔ d = .grammarPath ∨ d = .start ∨ d = .algo) := by
  refine ⟨by decide +kernel, ?_⟩
  intro d; cases d <;> decide +kernel

namespace KeyCover
/-- the values of the inputs in one run -/
structure Env where
  gm : Nat
  sm : Nat
  gp : Str
  st : Str
  al : Str
  /-- md5 of the source's bytes -/
  hs : Str := []

def Env.val (e : Env) : Input → Nat ⊕ Str
  | .grammarMtime => .inl e.gm
  | .sourceMtime => .inl e.sm
  | .grammarPath => .inr e.gp
  | .start => .inr e.st
  | .algo => .inr e.al
  | .ownBytes => .inr e.hs
  | _ => .inr []

/-- the model's tree-file and parser-pickle names in a run -/
def treeName (S : Sem) (key : Str) (e : Env) : Str := treePath S key e.gp e.st e.al e.gm e.sm (if treeKeyHasHash = true then e.hs else [])
def parserName (S : Sem) (e : Env) : Str := parserPath S e.gp e.st e.al e.gm
end KeyCover

open KeyCover in
/-- The model hashes what the code hashes: two runs give a module's tree file the same name in the model exactly when they
    agree on every input in the GENERATED key list of the tree cache. (A key component added to or dropped from the code's
    dictionary makes one direction fail until the model follows.) -/
theorem tree_name_exact (S : Sem) (H : Hyp S) (key : Str) (e e' : Env) :
    treeName S key e = treeName S key e' ↔ ∀ i, some i ∈ treeKeyInputs → e.val i = e'.val i := by
  rw [tree_key_inputs]
  constructor
  · intro h i hi
    obtain ⟨_, h1, h2, h3, h4, h5, h6⟩ := treePath_inj H h
    cases hh : treeKeyHasHash
    · simp [hh] at hi
      rcases hi with rfl | rfl | rfl | rfl | rfl <;> simp [Env.val, h1, h2, h3, h4, h5]
    · simp [hh] at hi h6
      rcases hi with rfl | rfl | rfl | rfl | rfl | rfl <;> simp [Env.val, h1, h2, h3, h4, h5, h6]
  · intro h
    have h1 := h .grammarMtime (by simp)
    have h2 := h .grammarPath (by simp)
    have h3 := h .start (by simp)
    have h4 := h .algo (by simp)
    have h5 := h .sourceMtime (by simp)
    simp [Env.val] at h1 h2 h3 h4 h5
    cases hh : treeKeyHasHash
    · simp [treeName, hh, h1, h2, h3, h4, h5]
    · have h6 := h .ownBytes (by simp [hh])
      simp [Env.val] at h6
      simp [treeName, hh, h1, h2, h3, h4, h5, h6]

open KeyCover in
/-- … the same for the parser pickle: its name in the model is determined by, and determines, exactly the generated key list. -/
theorem parser_name_exact (S : Sem) (H : Hyp S) (e e' : Env) :
    parserName S e = parserName S e' ↔ ∀ i, some i ∈ parserKeyInputs → e.val i = e'.val i := by
  rw [parser_key_covers.1]
  constructor
  · intro h i hi
    obtain ⟨h1, h2, h3, h4⟩ := parserPath_inj H h
    simp at hi
    rcases hi with rfl | rfl | rfl | rfl <;> simp [Env.val, h1, h2, h3, h4]
  · intro h
    have h1 := h .grammarMtime (by simp)
    have h2 := h .grammarPath (by simp)
    have h3 := h .start (by simp)
    have h4 := h .algo (by simp)
    simp [Env.val] at h1 h2 h3 h4
    simp [parserName, h1, h2, h3, h4]

/-- non-vacuity: two runs differing only in the grammar's path share neither the tree file's name nor the parser pickle's -/
example : KeyCover.treeName cxSem ['m'] ⟨1, 2, ['g'], [], [], []⟩ ≠ KeyCover.treeName cxSem ['m'] ⟨1, 2, ['h'], [], [], []⟩
    ∧ KeyCover.parserName cxSem ⟨1, 2, ['g'], [], [], []⟩ ≠ KeyCover.parserName cxSem ⟨1, 2, ['h'], [], [], []⟩ := by
  refine ⟨fun h => ?_, fun h => ?_⟩
  · have := (treePath_inj cxSem_hyp h).2.1
    simp at this
  · have := (parserPath_inj cxSem_hyp h).1
    simp at this

open KeyCover Tranp.Generated in
/-- `Module.identity` and `Module.__collect_hashes`, statement by statement, are the shapes `identityCore` and `collect` of the
    model implement: no source file → object id (never a file name: `_can_store`/`_can_restore` test the same condition);
    memo; `hashes` filled by the recursion over `depends_on` with the visited test FIRST (termination on import cycles) and the
    own hash recorded before descending; for a module without `depends_on` the direct imports only (`shallow`);
    sorted `path:hash` pairs of every other file, the own hash last, md5 of the list's `str`. -/
theorem symbol_identity_shape :
    CacheKeys.moduleIdentity = [['i', 'f', ' ', 'n', 'o', 't', ' ', 's', 'e', 'l', 'f', '.', '_', '_', 's', 'o', 'u', 'r', 'c', 'e', 's', '.', 'e', 'x', 'i', 's', 't', 's', '(', 's', 'e', 'l', 'f', '.', 'f', 'i', 'l', 'e', 'p', 'a', 't', 'h', ')', ':'],
      ['r', 'e', 't', 'u', 'r', 'n', ' ', 's', 't', 'r', '(', 'i', 'd', '(', 's', 'e', 'l', 'f', ')', ')'],
      ['e', 'n', 'd'],
      ['i', 'f', ' ', 's', 'e', 'l', 'f', '.', '_', '_', 'i', 'd', 'e', 'n', 't', 'i', 't', 'y', ':'],
      ['r', 'e', 't', 'u', 'r', 'n', ' ', 's', 'e', 'l', 'f', '.', '_', '_', 'i', 'd', 'e', 'n', 't', 'i', 't', 'y'],
      ['e', 'n', 'd'],
      ['h', 'a', 's', 'h', 'e', 's', ':', ' ', 'd', 'i', 'c', 't', '[', 's', 't', 'r', ',', ' ', 's', 't', 'r', ']', ' ', '=', ' ', '{', '}'],
      ['s', 'e', 'l', 'f', '.', '_', '_', 'c', 'o', 'l', 'l', 'e', 'c', 't', '_', 'h', 'a', 's', 'h', 'e', 's', '(', 'h', 'a', 's', 'h', 'e', 's', ')'],
      ['i', 'd', 'e', 'n', 't', 'i', 't', 'i', 'e', 's', ' ', '=', ' ', '[', 'f', '\'', '{', 'f', 'i', 'l', 'e', 'p', 'a', 't', 'h', '}', ':', '{', 'h', 'a', 's', 'h', 'e', 's', '[', 'f', 'i', 'l', 'e', 'p', 'a', 't', 'h', ']', '}', '\'', ' ', 'f', 'o', 'r', ' ', 'f', 'i', 'l', 'e', 'p', 'a', 't', 'h', ' ', 'i', 'n', ' ', 's', 'o', 'r', 't', 'e', 'd', '(', 'h', 'a', 's', 'h', 'e', 's', '.', 'k', 'e', 'y', 's', '(', ')', ')', ' ', 'i', 'f', ' ', 'f', 'i', 'l', 'e', 'p', 'a', 't', 'h', ' ', '!', '=', ' ', 's', 'e', 'l', 'f', '.', 'f', 'i', 'l', 'e', 'p', 'a', 't', 'h', ']'],
      ['i', 'd', 'e', 'n', 't', 'i', 't', 'i', 'e', 's', '.', 'a', 'p', 'p', 'e', 'n', 'd', '(', 'h', 'a', 's', 'h', 'e', 's', '[', 's', 'e', 'l', 'f', '.', 'f', 'i', 'l', 'e', 'p', 'a', 't', 'h', ']', ')'],
      ['s', 'e', 'l', 'f', '.', '_', '_', 'i', 'd', 'e', 'n', 't', 'i', 't', 'y', ' ', '=', ' ', 'h', 'a', 's', 'h', 'l', 'i', 'b', '.', 'm', 'd', '5', '(', 's', 't', 'r', '(', 'i', 'd', 'e', 'n', 't', 'i', 't', 'i', 'e', 's', ')', '.', 'e', 'n', 'c', 'o', 'd', 'e', '(', '\'', 'u', 't', 'f', '-', '8', '\'', ')', ')', '.', 'h', 'e', 'x', 'd', 'i', 'g', 'e', 's', 't', '(', ')'],
      ['r', 'e', 't', 'u', 'r', 'n', ' ', 's', 'e', 'l', 'f', '.', '_', '_', 'i', 'd', 'e', 'n', 't', 'i', 't', 'y']]
    ∧ CacheKeys.moduleCollect = [['i', 'f', ' ', 's', 'e', 'l', 'f', '.', 'f', 'i', 'l', 'e', 'p', 'a', 't', 'h', ' ', 'i', 'n', ' ', 'h', 'a', 's', 'h', 'e', 's', ':'],
      ['r', 'e', 't', 'u', 'r', 'n'],
      ['e', 'n', 'd'],
      ['h', 'a', 's', 'h', 'e', 's', '[', 's', 'e', 'l', 'f', '.', 'f', 'i', 'l', 'e', 'p', 'a', 't', 'h', ']', ' ', '=', ' ', 's', 'e', 'l', 'f', '.', '_', '_', 's', 'o', 'u', 'r', 'c', 'e', 's', '.', 'h', 'a', 's', 'h', '(', 's', 'e', 'l', 'f', '.', 'f', 'i', 'l', 'e', 'p', 'a', 't', 'h', ')'],
      ['i', 'f', ' ', 's', 'e', 'l', 'f', '.', '_', '_', 'd', 'e', 'p', 'e', 'n', 'd', 's', ' ', 'i', 's', ' ', 'n', 'o', 't', ' ', 'N', 'o', 'n', 'e', ':'],
      ['f', 'o', 'r', ' ', 'm', 'o', 'd', 'u', 'l', 'e', ' ', 'i', 'n', ' ', 's', 'e', 'l', 'f', '.', '_', '_', 'd', 'e', 'p', 'e', 'n', 'd', 's', ':'],
      ['i', 'f', ' ', 'm', 'o', 'd', 'u', 'l', 'e', '.', 'i', 'n', '_', 's', 't', 'o', 'r', 'a', 'g', 'e', '(', ')', ':'],
      ['m', 'o', 'd', 'u', 'l', 'e', '.', '_', '_', 'c', 'o', 'l', 'l', 'e', 'c', 't', '_', 'h', 'a', 's', 'h', 'e', 's', '(', 'h', 'a', 's', 'h', 'e', 's', ')'],
      ['e', 'n', 'd'],
      ['e', 'n', 'd'],
      ['e', 'l', 's', 'e', ':'],
      ['f', 'o', 'r', ' ', 'i', 'm', 'p', 'o', 'r', 't', '_', 'n', 'o', 'd', 'e', ' ', 'i', 'n', ' ', 's', 'e', 'l', 'f', '.', 'e', 'n', 't', 'r', 'y', 'p', 'o', 'i', 'n', 't', '.', 'i', 'm', 'p', 'o', 'r', 't', 's', ':'],
      ['f', 'i', 'l', 'e', 'p', 'a', 't', 'h', ' ', '=', ' ', 'm', 'o', 'd', 'u', 'l', 'e', '_', 'p', 'a', 't', 'h', '_', 't', 'o', '_', 'f', 'i', 'l', 'e', 'p', 'a', 't', 'h', '(', 'i', 'm', 'p', 'o', 'r', 't', '_', 'n', 'o', 'd', 'e', '.', 'i', 'm', 'p', 'o', 'r', 't', '_', 'p', 'a', 't', 'h', '.', 't', 'o', 'k', 'e', 'n', 's', ',', ' ', 'f', '\'', '.', '{', 's', 'e', 'l', 'f', '.', 'm', 'o', 'd', 'u', 'l', 'e', '_', 'p', 'a', 't', 'h', '.', 'l', 'a', 'n', 'g', 'u', 'a', 'g', 'e', '}', '\'', ')'],
      ['i', 'f', ' ', 'f', 'i', 'l', 'e', 'p', 'a', 't', 'h', ' ', 'n', 'o', 't', ' ', 'i', 'n', ' ', 'h', 'a', 's', 'h', 'e', 's', ':'],
      ['h', 'a', 's', 'h', 'e', 's', '[', 'f', 'i', 'l', 'e', 'p', 'a', 't', 'h', ']', ' ', '=', ' ', 's', 'e', 'l', 'f', '.', '_', '_', 's', 'o', 'u', 'r', 'c', 'e', 's', '.', 'h', 'a', 's', 'h', '(', 'f', 'i', 'l', 'e', 'p', 'a', 't', 'h', ')'],
      ['e', 'n', 'd'],
      ['e', 'n', 'd'],
      ['e', 'n', 'd']]
    ∧ CacheKeys.moduleDependsOn = [['s', 'e', 'l', 'f', '.', '_', '_', 'd', 'e', 'p', 'e', 'n', 'd', 's', ' ', '=', ' ', 'm', 'o', 'd', 'u', 'l', 'e', 's']] := by
  decide +kernel

open KeyCover in
/-- The symbol files' key is made of the own file's hash and of path and hash of the other collected files, it covers the
    inputs a symbol table depends on (`symbols` proves the run-level statement from exactly these components, `id_covers`), -/
theorem symbol_key_covers :
    symbolKeyInputs = [.importPath, .importBytes, .ownBytes] ∧ (∀ d ∈ symbolDeps, d ∈ symbolKeyInputs) := by
  decide +kernel

open KeyCover in
/-- … and it contains nothing of the grammar: a symbol file written under one grammar is restored under another one. (The
    trees the tables were computed from do depend on the grammar; no real witness is known where two grammars give different
    tables for the same bytes, so this is a fact about the key, not a finding.) -/
theorem symbol_key_no_grammar : ∀ d ∈ parserDeps, d ∉ symbolKeyInputs := by decide +kernel

open Tranp.Generated in
/-- The file hash is the md5 of exactly the bytes read (no decoding, stripping or normalising before hashing) — `Sem.hash` is
    applied to `File.data` in the model —, and `hash` of a file not yet loaded loads it. -/
theorem file_hash_exact :
    CacheKeys.loaderLoad = [['f', 'o', 'u', 'n', 'd', '_', 'f', 'i', 'l', 'e', 'p', 'a', 't', 'h', ' ', '=', ' ', 's', 'e', 'l', 'f', '.', '_', '_', 'r', 'e', 's', 'o', 'l', 'v', 'e', '_', 'f', 'i', 'l', 'e', 'p', 'a', 't', 'h', '(', 'f', 'i', 'l', 'e', 'p', 'a', 't', 'h', ')'],
      ['i', 'f', ' ', 'f', 'o', 'u', 'n', 'd', '_', 'f', 'i', 'l', 'e', 'p', 'a', 't', 'h', ' ', 'i', 's', ' ', 'N', 'o', 'n', 'e', ':'],
      ['r', 'a', 'i', 's', 'e', ' ', 'F', 'i', 'l', 'e', 'N', 'o', 't', 'F', 'o', 'u', 'n', 'd', 'E', 'r', 'r', 'o', 'r', '(', 'f', '\'', 'N', 'o', ' ', 's', 'u', 'c', 'h', ' ', 'f', 'i', 'l', 'e', ' ', 'o', 'r', ' ', 'd', 'i', 'r', 'e', 'c', 't', 'o', 'r', 'y', '.', ' ', 'f', 'i', 'l', 'e', 'p', 'a', 't', 'h', ':', ' ', '{', 'f', 'i', 'l', 'e', 'p', 'a', 't', 'h', '}', '\'', ')'],
      ['e', 'n', 'd'],
      ['w', 'i', 't', 'h', ' ', 'o', 'p', 'e', 'n', '(', 'f', 'o', 'u', 'n', 'd', '_', 'f', 'i', 'l', 'e', 'p', 'a', 't', 'h', ',', ' ', 'm', 'o', 'd', 'e', '=', '\'', 'r', 'b', '\'', ')', ' ', 'a', 's', ' ', 'f', ':'],
      ['c', 'o', 'n', 't', 'e', 'n', 't', '_', 'b', 'y', 't', 'e', 's', ' ', '=', ' ', 'f', '.', 'r', 'e', 'a', 'd', '(', ')'],
      ['s', 'e', 'l', 'f', '.', '_', '_', 'h', 'a', 's', 'h', 's', '[', 'f', 'o', 'u', 'n', 'd', '_', 'f', 'i', 'l', 'e', 'p', 'a', 't', 'h', ']', ' ', '=', ' ', 'h', 'a', 's', 'h', 'l', 'i', 'b', '.', 'm', 'd', '5', '(', 'c', 'o', 'n', 't', 'e', 'n', 't', '_', 'b', 'y', 't', 'e', 's', ')', '.', 'h', 'e', 'x', 'd', 'i', 'g', 'e', 's', 't', '(', ')'],
      ['r', 'e', 't', 'u', 'r', 'n', ' ', 'c', 'o', 'n', 't', 'e', 'n', 't', '_', 'b', 'y', 't', 'e', 's', '.', 'd', 'e', 'c', 'o', 'd', 'e', '(', '\'', 'u', 't', 'f', '-', '8', '\'', ')'],
      ['e', 'n', 'd']]
    ∧ CacheKeys.loaderHash = [['f', 'o', 'u', 'n', 'd', '_', 'f', 'i', 'l', 'e', 'p', 'a', 't', 'h', ' ', '=', ' ', 's', 'e', 'l', 'f', '.', '_', '_', 'r', 'e', 's', 'o', 'l', 'v', 'e', '_', 'f', 'i', 'l', 'e', 'p', 'a', 't', 'h', '(', 'f', 'i', 'l', 'e', 'p', 'a', 't', 'h', ')'],
      ['i', 'f', ' ', 'f', 'o', 'u', 'n', 'd', '_', 'f', 'i', 'l', 'e', 'p', 'a', 't', 'h', ' ', 'i', 's', ' ', 'N', 'o', 'n', 'e', ':'],
      ['r', 'a', 'i', 's', 'e', ' ', 'F', 'i', 'l', 'e', 'N', 'o', 't', 'F', 'o', 'u', 'n', 'd', 'E', 'r', 'r', 'o', 'r', '(', 'f', '\'', 'N', 'o', ' ', 's', 'u', 'c', 'h', ' ', 'f', 'i', 'l', 'e', ' ', 'o', 'r', ' ', 'd', 'i', 'r', 'e', 'c', 't', 'o', 'r', 'y', '.', ' ', 'f', 'i', 'l', 'e', 'p', 'a', 't', 'h', ':', ' ', '{', 'f', 'i', 'l', 'e', 'p', 'a', 't', 'h', '}', '\'', ')'],
      ['e', 'n', 'd'],
      ['i', 'f', ' ', 'f', 'o', 'u', 'n', 'd', '_', 'f', 'i', 'l', 'e', 'p', 'a', 't', 'h', ' ', 'n', 'o', 't', ' ', 'i', 'n', ' ', 's', 'e', 'l', 'f', '.', '_', '_', 'h', 'a', 's', 'h', 's', ':'],
      ['s', 'e', 'l', 'f', '.', 'l', 'o', 'a', 'd', '(', 'f', 'o', 'u', 'n', 'd', '_', 'f', 'i', 'l', 'e', 'p', 'a', 't', 'h', ')'],
      ['e', 'n', 'd'],
      ['r', 'e', 't', 'u', 'r', 'n', ' ', 's', 'e', 'l', 'f', '.', '_', '_', 'h', 'a', 's', 'h', 's', '[', 'f', 'o', 'u', 'n', 'd', '_', 'f', 'i', 'l', 'e', 'p', 'a', 't', 'h', ']']] := by
  decide +kernel

open Tranp.Generated in
/-- The gates: the persistor stores and restores only when the cache is enabled and the module is in storage, stores only when
    the file is absent and restores only when it is present; `CacheProvider.get` takes the class without disk access when
    disabled (`disabled`). -/
theorem gates_shape :
    CacheKeys.canStore = [['s', 'e', 'l', 'f', '.', 's', 'e', 't', 't', 'i', 'n', 'g', '.', 'e', 'n', 'a', 'b', 'l', 'e', 'd'],
      ['m', 'o', 'd', 'u', 'l', 'e', '.', 'i', 'n', '_', 's', 't', 'o', 'r', 'a', 'g', 'e', '(', ')'],
      ['n', 'o', 't', ' ', 's', 'e', 'l', 'f', '.', 's', 'o', 'u', 'r', 'c', 'e', 's', '.', 'e', 'x', 'i', 's', 't', 's', '(', 'f', 'i', 'l', 'e', 'p', 'a', 't', 'h', ')']]
    ∧ CacheKeys.canRestore = [['s', 'e', 'l', 'f', '.', 's', 'e', 't', 't', 'i', 'n', 'g', '.', 'e', 'n', 'a', 'b', 'l', 'e', 'd'],
      ['m', 'o', 'd', 'u', 'l', 'e', '.', 'i', 'n', '_', 's', 't', 'o', 'r', 'a', 'g', 'e', '(', ')'],
      ['s', 'e', 'l', 'f', '.', 's', 'o', 'u', 'r', 'c', 'e', 's', '.', 'e', 'x', 'i', 's', 't', 's', '(', 'f', 'i', 'l', 'e', 'p', 'a', 't', 'h', ')']]
    ∧ CacheKeys.providerCtor = [['c', 't', 'o', 'r', ' ', '=', ' ', 'C', 'a', 'c', 'h', 'e', 'd', 'P', 'r', 'o', 'x', 'y', ' ', 'i', 'f', ' ', 's', 'e', 'l', 'f', '.', '_', '_', 's', 'e', 't', 't', 'i', 'n', 'g', '.', 'e', 'n', 'a', 'b', 'l', 'e', 'd', ' ', 'e', 'l', 's', 'e', ' ', 'C', 'a', 'c', 'h', 'e', 'd', 'D', 'u', 'm', 'm', 'y']] := by
  decide +kernel

open Tranp.Generated in
/-- File names and eviction patterns: `<key>-<md5 of str(identity)><ext>` evicted by `<all but the last dash part>-*<ext>`
    (`cachePath`, `evictPattern` of the model; the over-match is `evict_safe`), symbols `<module>-symbols-<identity>.json`
    evicted by `<module>-symbols-*.json`; eviction happens before the write, restoring is `json.loads` of the whole file. -/
theorem file_name_shape :
    CacheKeys.identifier = [['r', 'e', 't', 'u', 'r', 'n', ' ', 'h', 'a', 's', 'h', 'l', 'i', 'b', '.', 'm', 'd', '5', '(', 's', 't', 'r', '(', 'i', 'd', 'e', 'n', 't', 'i', 't', 'y', ')', '.', 'e', 'n', 'c', 'o', 'd', 'e', '(', '\'', 'u', 't', 'f', '-', '8', '\'', ')', ')', '.', 'h', 'e', 'x', 'd', 'i', 'g', 'e', 's', 't', '(', ')']]
    ∧ CacheKeys.genCachePath = [['f', 'i', 'l', 'e', '_', 'f', 'o', 'r', 'm', 'a', 't', ' ', '=', ' ', 's', 'e', 'l', 'f', '.', '_', 'o', 'p', 't', 'i', 'o', 'n', 's', '.', 'g', 'e', 't', '(', '\'', 'f', 'o', 'r', 'm', 'a', 't', '\'', ',', ' ', '\'', '\'', ')'],
      ['e', 'x', 't', 'e', 'n', 't', 'i', 'o', 'n', ' ', '=', ' ', 'f', '\'', '.', '{', 'f', 'i', 'l', 'e', '_', 'f', 'o', 'r', 'm', 'a', 't', '}', '\'', ' ', 'i', 'f', ' ', 'f', 'i', 'l', 'e', '_', 'f', 'o', 'r', 'm', 'a', 't', ' ', 'e', 'l', 's', 'e', ' ', '\'', '\''],
      ['f', 'i', 'l', 'e', 'n', 'a', 'm', 'e', ' ', '=', ' ', 'f', '\'', '{', 'c', 'a', 'c', 'h', 'e', '_', 'k', 'e', 'y', '}', '-', '{', 's', 'e', 'l', 'f', '.', 'i', 'd', 'e', 'n', 't', 'i', 'f', 'i', 'e', 'r', '(', 's', 'e', 'l', 'f', '.', '_', 'i', 'd', 'e', 'n', 't', 'i', 't', 'y', ')', '}', '{', 'e', 'x', 't', 'e', 'n', 't', 'i', 'o', 'n', '}', '\''],
      ['r', 'e', 't', 'u', 'r', 'n', ' ', 'o', 's', '.', 'p', 'a', 't', 'h', '.', 'a', 'b', 's', 'p', 'a', 't', 'h', '(', 'o', 's', '.', 'p', 'a', 't', 'h', '.', 'j', 'o', 'i', 'n', '(', 'o', 's', '.', 'g', 'e', 't', 'c', 'w', 'd', '(', ')', ',', ' ', 's', 'e', 'l', 'f', '.', '_', 'b', 'a', 's', 'e', 'd', 'i', 'r', ',', ' ', 'f', 'i', 'l', 'e', 'n', 'a', 'm', 'e', ')', ')']]
    ∧ CacheKeys.findOldest = [['e', 'l', 'e', 'm', 's', ' ', '=', ' ', 'c', 'a', 'c', 'h', 'e', '_', 'p', 'a', 't', 'h', '.', 's', 'p', 'l', 'i', 't', '(', '\'', '-', '\'', ')', '[', ':', '-', '1', ']'],
      ['b', 'a', 's', 'e', 'p', 'a', 't', 'h', ' ', '=', ' ', '\'', '-', '\'', '.', 'j', 'o', 'i', 'n', '(', 'e', 'l', 'e', 'm', 's', ')'],
      ['f', 'i', 'l', 'e', '_', 'f', 'o', 'r', 'm', 'a', 't', ' ', '=', ' ', 's', 'e', 'l', 'f', '.', '_', 'o', 'p', 't', 'i', 'o', 'n', 's', '.', 'g', 'e', 't', '(', '\'', 'f', 'o', 'r', 'm', 'a', 't', '\'', ',', ' ', '\'', '\'', ')'],
      ['e', 'x', 't', 'e', 'n', 't', 'i', 'o', 'n', ' ', '=', ' ', 'f', '\'', '.', '{', 'f', 'i', 'l', 'e', '_', 'f', 'o', 'r', 'm', 'a', 't', '}', '\'', ' ', 'i', 'f', ' ', 'f', 'i', 'l', 'e', '_', 'f', 'o', 'r', 'm', 'a', 't', ' ', 'e', 'l', 's', 'e', ' ', '\'', '\''],
      ['g', 'l', 'o', 'b', '_', 'p', 'a', 't', 't', 'e', 'r', 'n', ' ', '=', ' ', 'f', '\'', '{', 'b', 'a', 's', 'e', 'p', 'a', 't', 'h', '}', '-', '*', '{', 'e', 'x', 't', 'e', 'n', 't', 'i', 'o', 'n', '}', '\''],
      ['r', 'e', 't', 'u', 'r', 'n', ' ', 'g', 'l', 'o', 'b', '.', 'g', 'l', 'o', 'b', '(', 'g', 'l', 'o', 'b', '_', 'p', 'a', 't', 't', 'e', 'r', 'n', ')']]
    ∧ CacheKeys.proxyGet = [['c', 'a', 'c', 'h', 'e', '_', 'p', 'a', 't', 'h', ' ', '=', ' ', 's', 'e', 'l', 'f', '.', 'g', 'e', 'n', '_', 'c', 'a', 'c', 'h', 'e', '_', 'p', 'a', 't', 'h', '(', 'c', 'a', 'c', 'h', 'e', '_', 'k', 'e', 'y', ')'],
      ['i', 'f', ' ', 's', 'e', 'l', 'f', '.', 'c', 'a', 'c', 'h', 'e', '_', 'e', 'x', 'i', 's', 't', 's', '(', 'c', 'a', 'c', 'h', 'e', '_', 'p', 'a', 't', 'h', ')', ':'],
      ['r', 'e', 't', 'u', 'r', 'n', ' ', 's', 'e', 'l', 'f', '.', 'l', 'o', 'a', 'd', '_', 'c', 'a', 'c', 'h', 'e', '(', 'c', 'a', 'c', 'h', 'e', '_', 'p', 'a', 't', 'h', ')'],
      ['e', 'n', 'd'],
      ['i', 'n', 's', 't', 'a', 'n', 'c', 'e', ' ', '=', ' ', 's', 'e', 'l', 'f', '.', 'i', 'n', 's', 't', 'a', 'n', 't', 'i', 'a', 't', 'e', '(', ')'],
      ['s', 'e', 'l', 'f', '.', 's', 'a', 'v', 'e', '_', 'c', 'a', 'c', 'h', 'e', '(', 'i', 'n', 's', 't', 'a', 'n', 'c', 'e', ',', ' ', 'c', 'a', 'c', 'h', 'e', '_', 'p', 'a', 't', 'h', ')'],
      ['r', 'e', 't', 'u', 'r', 'n', ' ', 'i', 'n', 's', 't', 'a', 'n', 'c', 'e']]
    ∧ CacheKeys.saveCache = [['d', 'i', 'r', 'p', 'a', 't', 'h', ' ', '=', ' ', 'o', 's', '.', 'p', 'a', 't', 'h', '.', 'd', 'i', 'r', 'n', 'a', 'm', 'e', '(', 'c', 'a', 'c', 'h', 'e', '_', 'p', 'a', 't', 'h', ')'],
      ['i', 'f', ' ', 'n', 'o', 't', ' ', 'o', 's', '.', 'p', 'a', 't', 'h', '.', 'e', 'x', 'i', 's', 't', 's', '(', 'd', 'i', 'r', 'p', 'a', 't', 'h', ')', ':'],
      ['o', 's', '.', 'm', 'a', 'k', 'e', 'd', 'i', 'r', 's', '(', 'd', 'i', 'r', 'p', 'a', 't', 'h', ')'],
      ['e', 'n', 'd'],
      ['f', 'o', 'r', ' ', 'o', 'l', 'd', 'e', 's', 't', ' ', 'i', 'n', ' ', 's', 'e', 'l', 'f', '.', 'f', 'i', 'n', 'd', '_', 'o', 'l', 'd', 'e', 's', 't', '(', 'c', 'a', 'c', 'h', 'e', '_', 'p', 'a', 't', 'h', ')', ':'],
      ['o', 's', '.', 'u', 'n', 'l', 'i', 'n', 'k', '(', 'o', 'l', 'd', 'e', 's', 't', ')'],
      ['e', 'n', 'd'],
      ['w', 'i', 't', 'h', ' ', 'o', 'p', 'e', 'n', '(', 'c', 'a', 'c', 'h', 'e', '_', 'p', 'a', 't', 'h', ',', ' ', 'm', 'o', 'd', 'e', '=', '\'', 'w', 'b', '\'', ')', ' ', 'a', 's', ' ', 'f', ':'],
      ['i', 'n', 's', 't', 'a', 'n', 'c', 'e', '.', 's', 'a', 'v', 'e', '(', 'f', ')'],
      ['e', 'n', 'd']]
    ∧ CacheKeys.genFilepath = [['b', 'a', 's', 'e', 'p', 'a', 't', 'h', ' ', '=', ' ', 'm', 'o', 'd', 'u', 'l', 'e', '_', 'p', 'a', 't', 'h', '_', 't', 'o', '_', 'f', 'i', 'l', 'e', 'p', 'a', 't', 'h', '(', 'm', 'o', 'd', 'u', 'l', 'e', '.', 'p', 'a', 't', 'h', ')'],
      ['i', 'd', 'e', 'n', 't', 'i', 't', 'y', ' ', '=', ' ', 'm', 'o', 'd', 'u', 'l', 'e', '.', 'i', 'd', 'e', 'n', 't', 'i', 't', 'y', '(', ')'],
      ['f', 'i', 'l', 'e', 'n', 'a', 'm', 'e', ' ', '=', ' ', 'f', '\'', '{', 'b', 'a', 's', 'e', 'p', 'a', 't', 'h', '}', '-', 's', 'y', 'm', 'b', 'o', 'l', 's', '-', '{', 'i', 'd', 'e', 'n', 't', 'i', 't', 'y', '}', '.', 'j', 's', 'o', 'n', '\''],
      ['r', 'e', 't', 'u', 'r', 'n', ' ', 'o', 's', '.', 'p', 'a', 't', 'h', '.', 'a', 'b', 's', 'p', 'a', 't', 'h', '(', 'o', 's', '.', 'p', 'a', 't', 'h', '.', 'j', 'o', 'i', 'n', '(', 'o', 's', '.', 'g', 'e', 't', 'c', 'w', 'd', '(', ')', ',', ' ', 's', 'e', 'l', 'f', '.', 's', 'e', 't', 't', 'i', 'n', 'g', '.', 'b', 'a', 's', 'e', 'd', 'i', 'r', ',', ' ', 'f', 'i', 'l', 'e', 'n', 'a', 'm', 'e', ')', ')']]
    ∧ CacheKeys.genGlobPattern = [['b', 'a', 's', 'e', 'p', 'a', 't', 'h', ' ', '=', ' ', 'm', 'o', 'd', 'u', 'l', 'e', '_', 'p', 'a', 't', 'h', '_', 't', 'o', '_', 'f', 'i', 'l', 'e', 'p', 'a', 't', 'h', '(', 'm', 'o', 'd', 'u', 'l', 'e', '.', 'p', 'a', 't', 'h', ')'],
      ['f', 'i', 'l', 'e', 'n', 'a', 'm', 'e', ' ', '=', ' ', 'f', '\'', '{', 'b', 'a', 's', 'e', 'p', 'a', 't', 'h', '}', '-', 's', 'y', 'm', 'b', 'o', 'l', 's', '-', '*', '.', 'j', 's', 'o', 'n', '\''],
      ['r', 'e', 't', 'u', 'r', 'n', ' ', 'o', 's', '.', 'p', 'a', 't', 'h', '.', 'a', 'b', 's', 'p', 'a', 't', 'h', '(', 'o', 's', '.', 'p', 'a', 't', 'h', '.', 'j', 'o', 'i', 'n', '(', 'o', 's', '.', 'g', 'e', 't', 'c', 'w', 'd', '(', ')', ',', ' ', 's', 'e', 'l', 'f', '.', 's', 'e', 't', 't', 'i', 'n', 'g', '.', 'b', 'a', 's', 'e', 'd', 'i', 'r', ',', ' ', 'f', 'i', 'l', 'e', 'n', 'a', 'm', 'e', ')', ')']]
    ∧ CacheKeys.persistStore = [['f', 'o', 'r', ' ', 'o', 'l', 'd', 'e', 's', 't', ' ', 'i', 'n', ' ', 's', 'e', 'l', 'f', '.', '_', 'f', 'i', 'n', 'd', '_', 'o', 'l', 'd', 'e', 's', 't', '(', 'm', 'o', 'd', 'u', 'l', 'e', ')', ':'],
      ['o', 's', '.', 'u', 'n', 'l', 'i', 'n', 'k', '(', 'o', 'l', 'd', 'e', 's', 't', ')'],
      ['e', 'n', 'd'],
      ['d', 'a', 't', 'a', ' ', '=', ' ', 'd', 'b', '.', 't', 'o', '_', 'j', 's', 'o', 'n', '(', 's', 'e', 'l', 'f', '.', 's', 'e', 'r', 'i', 'a', 'l', 'i', 'z', 'e', 'r', ',', ' ', 'f', 'o', 'r', '_', 'm', 'o', 'd', 'u', 'l', 'e', '_', 'p', 'a', 't', 'h', '=', 'm', 'o', 'd', 'u', 'l', 'e', '.', 'p', 'a', 't', 'h', ')'],
      ['w', 'i', 't', 'h', ' ', 'o', 'p', 'e', 'n', '(', 'f', 'i', 'l', 'e', 'p', 'a', 't', 'h', ',', ' ', 'm', 'o', 'd', 'e', '=', '\'', 'w', 'b', '\'', ')', ' ', 'a', 's', ' ', 'f', ':'],
      ['j', 's', 'o', 'n', '_', 's', 't', 'r', ' ', '=', ' ', 'j', 's', 'o', 'n', '.', 'd', 'u', 'm', 'p', 's', '(', 'd', 'a', 't', 'a', ',', ' ', 's', 'e', 'p', 'a', 'r', 'a', 't', 'o', 'r', 's', '=', '(', '\'', ',', '\'', ',', ' ', '\'', ':', '\'', ')', ')'],
      ['f', '.', 'w', 'r', 'i', 't', 'e', '(', 'j', 's', 'o', 'n', '_', 's', 't', 'r', '.', 'e', 'n', 'c', 'o', 'd', 'e', '(', '\'', 'u', 't', 'f', '-', '8', '\'', ')', ')'],
      ['e', 'n', 'd']]
    ∧ CacheKeys.persistRestore = [['c', 'o', 'n', 't', 'e', 'n', 't', ' ', '=', ' ', 's', 'e', 'l', 'f', '.', 's', 'o', 'u', 'r', 'c', 'e', 's', '.', 'l', 'o', 'a', 'd', '(', 'f', 'i', 'l', 'e', 'p', 'a', 't', 'h', ')'],
      ['d', 'a', 't', 'a', ' ', '=', ' ', 'j', 's', 'o', 'n', '.', 'l', 'o', 'a', 'd', 's', '(', 'c', 'o', 'n', 't', 'e', 'n', 't', ')'],
      ['d', 'b', '.', 'i', 'm', 'p', 'o', 'r', 't', '_', 'j', 's', 'o', 'n', '(', 's', 'e', 'l', 'f', '.', 's', 'e', 'r', 'i', 'a', 'l', 'i', 'z', 'e', 'r', ',', ' ', 'd', 'a', 't', 'a', ')']] := by
  decide +kernel

end Tranp.C05
