/-
  Property C05 — On-disk caches never change the result.
  Property theorems only; the model is Tranp/Model/CacheFS.lean (+ Model/JsonText.lean), helper lemmas live in
  Tranp/Lemmas/CacheFS.lean, CacheFSInst.lean (concrete instances) and JsonText.lean.
-/
import Tranp.Lemmas.CacheFSInst
import Tranp.Lemmas.JsonText

namespace Tranp.C05
open Tranp Tranp.CacheFS

/-! ### C05.tree_key — the syntax-tree cache -/

/-- Along every history of edits (fresh mtime per edit), grammar changes (fresh grammar mtime), runs, cache deletions, truncations and enable/disable
    switches that
    starts from an empty project and cache, every tree a run obtains — from the cache or not — is the fresh parse of the
    module's current source with the parser of the current setting: identity (grammar mtime, source mtime) determines both. -/
theorem tree_key (S : Sem) (H : Hyp S) (w0 : World) (hc : w0.cache = []) (hs : w0.srcs = []) (hg : w0.grammarMtime < w0.clock)
    (hist : List Op) (hok : ∀ op ∈ hist, OpOK op) (force : Bool) (k t : Str) (hkt : (k, t) ∈ (run S (exec S w0 hist) force).trees) :
    ∃ sf, (exec S w0 hist).srcs.get? k = some sf ∧ t = S.parse ((exec S w0 hist).parserNow S) sf.data :=
  (run_TS H _ force (exec_TInv H w0 hist hok (TInv.init w0 hc hs hg))).trees k t hkt

/-- warm tree = cold tree -/
theorem tree_key_warm_cold (S : Sem) (H : Hyp S) (w0 : World) (hc : w0.cache = []) (hs : w0.srcs = []) (hg : w0.grammarMtime < w0.clock)
    (hist : List Op) (hok : ∀ op ∈ hist, OpOK op) (force : Bool) (k t t' : Str)
    (hw : (k, t) ∈ (run S (exec S w0 hist) force).trees) (hcold : (k, t') ∈ (run S (exec S w0 hist).clearCache force).trees) : t = t' := by
  obtain ⟨sf, h1, rfl⟩ := tree_key S H w0 hc hs hg hist hok force k t hw
  have hcold' : (k, t') ∈ (run S (exec S w0 (hist ++ [.clear])) force).trees := by
    rw [exec_append]; exact hcold
  obtain ⟨sf', h2, rfl⟩ := tree_key S H w0 hc hs hg (hist ++ [.clear])
    (fun op hop => by rcases List.mem_append.mp hop with h | h; exact hok op h; simp at h; subst h; trivial) force k t' hcold'
  rw [exec_append] at h2
  have : sf = sf' := by
    have h3 : (exec S w0 hist).srcs.get? k = some sf' := h2
    rw [h1] at h3; exact Option.some.inj h3
  rw [this, exec_append]
  rfl

/-- non-vacuity: a real history satisfies the hypotheses, and the second run takes `b`'s tree from the cache -/
example : Hyp cxSem ∧ (∀ op ∈ cxHist, OpOK op) ∧
    ((run cxSem (exec cxSem cxWorld cxHist) true).trees.length = 3 ∧
     (run cxSem (exec cxSem cxWorld cxHist) true).log.contains ('r', treePath cxSem ['b'] 0 2)) = true ∧ cxWorld.grammarMtime < cxWorld.clock :=
  ⟨cxSem_hyp, cxHist_ok, by decide +kernel, by decide⟩

/-! ### C05.evict_safe — eviction by glob -/

/-- Eviction never removes the file being written: after a cache miss the file named by the current identity exists and
    holds the freshly built value, whatever the glob matched. -/
theorem evict_keeps_written (S : Sem) (s : Sess) (dir key ident ext fresh : Str) (bin : Bool) (hen : s.w.enabled = true) (herr : s.err = none)
    (hmiss : s.w.cache.get? (cachePath key ident ext) = none) :
    (cacheGet S s dir key ident ext fresh bin).1.w.cache.get? (cachePath key ident ext) = some ⟨fresh, s.w.clock⟩ ∧
    (cacheGet S s dir key ident ext fresh bin).2 = some fresh := by
  unfold cacheGet
  simp only [hen, Bool.not_true, Bool.false_eq_true, ↓reduceIte, hmiss]
  have hd : ({ s with w := s.w.mkdirs dir }.evict (findOldest (s.w.mkdirs dir).cache (cachePath key ident ext) ext)).w.dirs.contains dir = true := by
    rw [Sess.evict_eq]; simpa using mkdirs_mem s.w dir
  simp only [Sess.write, Sess.ev, hd, ↓reduceIte, Dir.get?_put_eq]
  rw [Sess.evict_eq]
  simp [World.mkdirs, herr]

/-- cold = warm is closed under deleting any set of cache files: both coherence invariants (from which `tree_key` and
    `symbols` follow) survive the removal of an arbitrary list of files — so the over-matching glob
    (`a-*.json` also matches `a-symbols-*.json`) is benign. -/
theorem evict_safe (S : Sem) (w : World) (h : WS S w) (victims : List Str) :
    WS S { w with cache := victims.foldl Dir.erase w.cache } :=
  ⟨h.1.eraseAll victims, h.2.eraseAll victims⟩

/-- the over-match is real: saving the tree of `a` evicts `a`'s symbol file as well -/
example : findOldest [(['a', '-', 's', 'y', 'm', 'b', 'o', 'l', 's', '-', 'x', '.', 'j', 's', 'o', 'n'], ⟨[], 0⟩),
      (['a', '-', 'o', 'l', 'd', '.', 'j', 's', 'o', 'n'], ⟨[], 0⟩), (['a', 'b', '-', 'y', '.', 'j', 's', 'o', 'n'], ⟨[], 0⟩)]
      ['a', '-', 'n', 'e', 'w', '.', 'j', 's', 'o', 'n'] jsonExt =
    [['a', '-', 's', 'y', 'm', 'b', 'o', 'l', 's', '-', 'x', '.', 'j', 's', 'o', 'n'], ['a', '-', 'o', 'l', 'd', '.', 'j', 's', 'o', 'n']] := by
  decide +kernel

/-- non-vacuity: the coherent, non-empty cache a real history leaves behind -/
example : WS cxSem (exec cxSem cxWorld cxHist) ∧ (exec cxSem cxWorld cxHist).cache.length = 7 :=
  ⟨exec_WS cxSem_hyp cxWorld cxHist cxHist_ok cxHist_plain.1 cxHist_acyclic (WS.init _ rfl rfl (by decide)), by decide +kernel⟩

/-! ### C05.truncate — interrupted writes -/

/-- Every proper prefix of the compact JSON encoding of an object or array is bracket-unbalanced outside string literals
    (the top-level container closes only at its last byte). With the stated assumption "the decoder rejects text that is
    not `Balanced`" a truncated tree / symbol file never decodes: the run fails or rebuilds (`Hyp.prefix_invalid`). -/
theorem truncate (v : JsonText.JVal) (hv : v.isContainer = true) (k : Nat) (hk : k < (JsonText.print v).length) :
    ¬ JsonText.Balanced ((JsonText.print v).take k) :=
  JsonText.prefix_unbalanced v hv k hk

/-- non-vacuity: `{"a":[1,"}"]}` is balanced, its 12 proper prefixes are not (the `}` inside the string does not count) -/
example :
    let v : JsonText.JVal := .obj [(['a'], .arr [.num ['1'], .str ['}']])]
    (JsonText.print v = ['{', '"', 'a', '"', ':', '[', '1', ',', '"', '}', '"', ']', '}'] ∧ JsonText.Balanced (JsonText.print v) ∧
      ∀ k, k < 13 → ¬ JsonText.Balanced ((JsonText.print v).take k)) := by
  refine ⟨by decide +kernel, by decide +kernel, ?_⟩
  intro k hk
  exact truncate _ rfl k (by simpa [show (JsonText.print (.obj [(['a'], .arr [.num ['1'], .str ['}']])])).length = 13 from by decide +kernel] using hk)

/-! ### C05.symbols — the symbol cache (closure identity, a383b4a / c3eaa55) -/

/-- For every semantics with injective digests, every import graph and every history of edits, runs, deletions, truncations
    and enable/disable switches from an empty project and cache in which no analysis runs inside an import cycle: the symbol
    table a run uses for a module — restored from whatever earlier runs left behind or analysed now — equals the one the
    same run computes from an empty cache directory. (`Module.identity` digests the (file, hash) pairs of the whole import
    closure, collected with a visited dict: `collect_closure`, `id_covers`.) -/
theorem symbols (S : Sem) (H : Hyp S) (w0 : World) (hc : w0.cache = []) (hs : w0.srcs = []) (hg : w0.grammarMtime < w0.clock)
    (hist : List Op) (hok : ∀ op ∈ hist, OpOK op) (hng : ∀ op ∈ hist, NoGrammar op) (hac : Acyclic S w0 hist) (force : Bool)
    (h1 : (run S (exec S w0 hist) force).cyc = false) (h2 : (run S (exec S w0 hist).clearCache force).cyc = false)
    (k t t' : Str) (hw : (k, t) ∈ (run S (exec S w0 hist) force).db) (hcold : (k, t') ∈ (run S (exec S w0 hist).clearCache force).db) :
    t = t' := by
  have hW := exec_WS H w0 hist hok hng hac (WS.init w0 hc hs hg)
  have hC : WS S (exec S w0 hist).clearCache := step_WS H _ .clear trivial trivial trivial hW
  have e1 := (((run_SS H _ force hW).2 h1).2.2 k t hw).1
  have e2 := (((run_SS H _ force hC).2 h2).2.2 k t' hcold).1
  exact tab_det e1 t' e2

/-- non-vacuity and regression (the history that refuted the law before a383b4a: chain a → b → c, build, edit `c`, build):
    the hypotheses hold, `b`'s and `c`'s tables are rebuilt, and `a` — re-analysed because its identity now changes with `c` —
    sees the new `c` through `b`, warm exactly as cold -/
example : Hyp cxSem ∧ Acyclic cxSem cxWorld cxHist ∧ (∀ op ∈ cxHist, NoGrammar op) ∧
    ((run cxSem (exec cxSem cxWorld cxHist) true).cyc = false ∧ (run cxSem (exec cxSem cxWorld cxHist).clearCache true).cyc = false ∧
     List.lookup ['a'] (run cxSem (exec cxSem cxWorld cxHist) true).db = some [c4, c3, c2, '}'] ∧
     (run cxSem (exec cxSem cxWorld cxHist) true).out = (run cxSem (exec cxSem cxWorld cxHist).clearCache true).out) := by
  refine ⟨cxSem_hyp, cxHist_acyclic, cxHist_plain.1, ?_⟩
  decide +kernel

/-- The reason, for every semantics and every pair of source states: an identity is the digest of the (file, hash) pairs of
    an import-closed set of files containing the module (`IsIdC`; what `__collect_hashes` collects: `collect_closure`), so
    equal identities mean equal files over the whole import closure, hence equal cache-free symbol tables. -/
theorem symbols_partial_closure (S : Sem) (H : Hyp S) (pz : Str) (srcs srcs' : Dir) (k I t t' : Str)
    (h1 : IsIdC S pz srcs k I) (h2 : IsIdC S pz srcs' k I) (ht : IsTab S pz srcs k t) (ht' : IsTab S pz srcs' k t') : t = t' :=
  id_covers H h1 h2 ht ht'

/-- non-vacuity: the leaf module `c` of the chain has an identity over its one-element closure -/
example : IsIdC cxSem [] [(['c'], ⟨[c1], 0⟩)] ['c'] (identOf cxSem ['c'] [(['c'], [c1])] [c1]) := by
  refine ⟨[(['c'], [c1])], ⟨[c1], 0⟩, ⟨⟨[c1], by simp⟩, ?_⟩, rfl, rfl⟩
  intro d h hm
  simp only [List.mem_singleton, Prod.mk.injEq] at hm
  obtain ⟨rfl, rfl⟩ := hm
  refine ⟨⟨[c1], 0⟩, rfl, rfl, fun e he => ?_⟩
  have hnil : cxSem.importsOf (cxSem.parse [] [c1]) = [] := by decide
  rw [hnil] at he; cases he

/-- Import cycles: `__collect_hashes` keeps a visited dict, so the identity of a module inside a cycle is computed and the run
    completes (here `a` and `b` import each other; the cycle flag is raised, both modules are transpiled, warm as cold). -/
example :
    let cyc : Sem := { cxSem with importsOf := fun tree => if tree = [c4, '}'] then [['b']] else if tree = [c3, '}'] then [['a']] else [] }
    let w : World := exec cyc { order := [['a'], ['b']] } [.edit ['a'] [c4], .edit ['b'] [c3], .run true]
    ((run cyc w true).err = none ∧ (run cyc w true).cyc = true ∧ (run cyc w true).out.length = 2 ∧ (run cyc w true).ids.length = 2 ∧
      (run cyc w true).out = (run cyc w.clearCache true).out) := by
  decide +kernel

/-! ### C05.output_warm_cold — rendered text and failure status -/

/-- **Output level.** For every semantics — in particular every renderer: the text of a module is `S.render` of the module's
    tree and the symbol tables the session holds when the module is transpiled (its import closure and what was loaded
    before, in load order) — every history of edits, runs, clears, deletions and enable/disable switches without an
    interrupted write and without a grammar change, in which no analysis runs inside an import cycle: the run over the cache
    directory as it is and the run over the emptied directory have the same cycle flag, and if it is clear they transpile the
    same modules to the same texts and **fail or succeed alike** (same error), having loaded the same modules in the same
    order with the same trees, identities and symbol tables. -/
theorem output_warm_cold (S : Sem) (H : Hyp S) (w0 : World) (hc : w0.cache = []) (hs : w0.srcs = []) (hg : w0.grammarMtime < w0.clock)
    (hist : List Op) (hok : ∀ op ∈ hist, OpOK op) (hng : ∀ op ∈ hist, NoGrammar op) (hnd : ∀ op ∈ hist, NoDamage op)
    (hac : Acyclic S w0 hist) (force : Bool) :
    (run S (exec S w0 hist) force).cyc = (run S (exec S w0 hist).clearCache force).cyc ∧
    ((run S (exec S w0 hist) force).cyc = false →
      (run S (exec S w0 hist) force).out = (run S (exec S w0 hist).clearCache force).out ∧
      (run S (exec S w0 hist) force).err = (run S (exec S w0 hist).clearCache force).err ∧
      (run S (exec S w0 hist) force).db = (run S (exec S w0 hist).clearCache force).db ∧
      (run S (exec S w0 hist) force).trees = (run S (exec S w0 hist).clearCache force).trees ∧
      (run S (exec S w0 hist) force).w.outs = (run S (exec S w0 hist).clearCache force).w.outs) := by
  obtain ⟨hW, hV⟩ := exec_WV H w0 hist hok hng hnd hac (WS.init w0 hc hs hg) (VInv.init w0 hc)
  have hr := run_warm_cold H (exec S w0 hist) force hW hV
  exact ⟨hr.1, fun hcyc => ⟨(hr.2 hcyc).out, (hr.2 hcyc).err, (hr.2 hcyc).db, (hr.2 hcyc).trees, (hr.2 hcyc).frame.2.2.1.symm⟩⟩

/-- non-vacuity: the chain history; the warm run restores `c`'s and re-analyses `b` and `a`, the cold run analyses all three -/
example : Hyp cxSem ∧ (∀ op ∈ cxHist, NoGrammar op) ∧ (∀ op ∈ cxHist, NoDamage op) ∧ Acyclic cxSem cxWorld cxHist ∧
    ((run cxSem (exec cxSem cxWorld cxHist) true).cyc = false ∧ (run cxSem (exec cxSem cxWorld cxHist) true).out.length = 3 ∧
     (run cxSem (exec cxSem cxWorld cxHist) true).err = none ∧
     (run cxSem (exec cxSem cxWorld cxHist) true).log ≠ (run cxSem (exec cxSem cxWorld cxHist).clearCache true).log) := by
  refine ⟨cxSem_hyp, cxHist_plain.1, cxHist_plain.2, cxHist_acyclic, ?_⟩
  decide +kernel

/-- the failure side: `a` imports `b`, which has no file: the run over the cache of the first (failed) run fails exactly
    as the run over an empty cache directory does -/
example :
    let hist : List Op := [.edit ['a'] [c4], .run true]
    ((run cxSem (exec cxSem cxWorld hist) true).err = some .noSource ∧ (run cxSem (exec cxSem cxWorld hist).clearCache true).err = some .noSource ∧
      (exec cxSem cxWorld hist).cache.length = 2) := by
  decide +kernel

/-! ### C05.parser_key — the pickled parser -/

/-- Along every history (edits, grammar changes, runs, deletions, truncations, enable/disable) the parser a run works with —
    taken from `parser.cache-<md5>.bin` or freshly built — is the one built from the current grammar path, start rule,
    algorithm and grammar mtime; a cache file is consulted only under the name of exactly these four (`parser_inj`: another
    path, start, algorithm or mtime is another file name), so a pickle is reused only when all four are unchanged. -/
theorem parser_key (S : Sem) (H : Hyp S) (w0 : World) (hc : w0.cache = []) (hs : w0.srcs = []) (hg : w0.grammarMtime < w0.clock)
    (hist : List Op) (hok : ∀ op ∈ hist, OpOK op) (force : Bool) :
    (∀ pz, (run S (exec S w0 hist) force).parser = some pz →
      pz = S.parserBlob (exec S w0 hist).grammar (exec S w0 hist).start (exec S w0 hist).algo (exec S w0 hist).grammarMtime) ∧
    (∀ gp st al g gp' st' al' g', parserPath S gp st al g = parserPath S gp' st' al' g' → gp = gp' ∧ st = st' ∧ al = al' ∧ g = g') :=
  ⟨(run_TS H _ force (exec_TInv H w0 hist hok (TInv.init w0 hc hs hg))).parser, fun _ _ _ _ _ _ _ _ h => parserPath_inj H h⟩

/-- non-vacuity: after a grammar change the next run builds the parser anew (the old pickle is evicted, a new one written
    under another name) and re-parses every module: 14 cache accesses, still 7 files -/
example :
    let hist := cxHist ++ [.run true, .grammar ['g', '2'], .run true]
    ((∀ op ∈ hist, OpOK op) ∧ (exec cxSem cxWorld hist).cache.length = 7 ∧
      (run cxSem (exec cxSem cxWorld (cxHist ++ [.run true, .grammar ['g', '2']])) true).log.length = 14) := by
  refine ⟨fun op hop => ?_, by decide +kernel, by decide +kernel⟩
  simp only [cxHist, List.cons_append, List.nil_append, List.mem_cons, List.not_mem_nil, or_false] at hop
  rcases hop with rfl | rfl | rfl | rfl | rfl | rfl | rfl | rfl <;> first | trivial | (exact ⟨by decide, by decide⟩)

/-- A truncated pickle is a load failure, never another parser: if the file named by the current setting does not decode
    (a proper prefix, `Hyp.prefix_invalid`), obtaining the parser fails with the load error and no parser is set. -/
theorem parser_truncated (S : Sem) (s : Sess) (f : File) (hen : s.w.enabled = true) (hnone : s.parser = none)
    (hf : s.w.cache.get? (parserPath S s.w.grammar s.w.start s.w.algo s.w.grammarMtime) = some f) (hbad : S.valid f.data = false) :
    (parserGet S s).2 = none ∧ (parserGet S s).1.err = some .decodeBin ∧ (parserGet S s).1.parser = none := by
  unfold parserGet cacheGet
  have hf' : s.w.cache.get? (cachePath parserKey (S.parserIdent s.w.grammar s.w.start s.w.algo s.w.grammarMtime) binExt) = some f := hf
  simp [hnone, hen, hf', hbad, Sess.fail, Sess.ev]

example : ∃ (s : Sess) (f : File), s.w.enabled = true ∧ s.parser = none ∧
    s.w.cache.get? (parserPath cxSem s.w.grammar s.w.start s.w.algo s.w.grammarMtime) = some f ∧ cxSem.valid f.data = false :=
  ⟨{ w := { cache := [(parserPath cxSem [] [] [] 0, ⟨[], 0⟩)] } }, ⟨[], 0⟩, rfl, rfl, by decide +kernel, by decide⟩

/-! ### C05.disabled — caching disabled (store gated on `enabled`, a3f0216) -/

/-- With `CacheSetting.enabled = False` a run opens, creates and unlinks nothing below the cache directory, whatever earlier
    runs left there — for every semantics and every world. -/
theorem disabled (S : Sem) (w : World) (force : Bool) (he : w.enabled = false) :
    (run S w force).log = [] ∧ (run S w force).w.cache = w.cache :=
  ⟨(run_quiet w force he).1, (run_quiet w force he).2.1⟩

/-- non-vacuity and regression (the world that refuted the law before a3f0216: populated cache, an edit, caching switched
    off): the run transpiles all three modules and touches nothing -/
example :
    let w : World := exec cxSem cxWorld (cxHist ++ [.enable false])
    (w.enabled = false ∧ w.cache.length = 7 ∧ (run cxSem w true).out.length = 3 ∧ (run cxSem w true).err = none ∧
      (run cxSem w true).log = []) := by
  decide +kernel

/-- …and with no cache directory at all the disabled run succeeds as well (it died with FileNotFoundError before) -/
example : (run cxSem { exec cxSem cxWorld (cxHist ++ [.enable false]) with cache := [], dirs := [] } true).err = none := by
  decide +kernel

end Tranp.C05
