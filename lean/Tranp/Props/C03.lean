/-
  Property C03 — Inferred static types equal the types values have at run time.
  Property theorems only; definitions: Tranp/Model/{Ty,Infer,PyEval,InferSpec}.lean, helper lemmas: Tranp/Lemmas/Infer.lean.

  Vocabulary (Tranp/Model/InferSpec.lean): `Conf v T` = the inferred type `T` denotes the run-time value `v`;
  `Core Γ e` = the expression subset the property's sentence covers (`WellTyped` is a synonym since the repairs
  9370d50 / 4f4a122 / c5f6dc1 / 401dc97 / e9f8d3f of the code); `infer Γ e s` still carries the session state `s`
  ("the library's Union symbol carries attributes") that `on_list` used to leak — `session_independent` proves that no
  handler reads or writes it any more.
-/
import Tranp.Lemmas.Infer
import Tranp.Lemmas.InferScope
import Tranp.Lemmas.InferLambda
import Tranp.Lemmas.InferOps
import Tranp.Generated.InferShape

namespace Tranp.C03
open Tranp Tranp.Infer Tranp.Generated

/-! ## the generated stub table agrees with CPython -/

/-- Every scalar binary-operator row `(class, dunder, argument type) ↦ return type` of the table generated from
    compatible/libralies/classes.py states CPython's result type: whenever CPython evaluates the operator on operands of the
    row's types, the result has the row's return type. -/
theorem dunder : ∀ row ∈ dunderRows, ∀ (x y v : Val),
    typeOf x = row.1 → typeOf y = row.2.2.1 → evalBin row.2.1 x y = .ok v → typeOf v = row.2.2.2 := by
  intro row hrow x y v hx hy hev
  have htab : ∀ r ∈ dunderRows, pyBinTy r.2.1 r.1 r.2.2.1 = some r.2.2.2 ∧ r.1 ∈ scalarTys ∧ r.2.2.1 ∈ scalarTys ∧ r.2.2.2 ∈ scalarTys := by
    decide +kernel
  obtain ⟨hpy, hl, hr, hret⟩ := htab row hrow
  have hcx : Conf [] x row.1 := conf_of_typeOf_scalar hl hx
  have hcy : Conf [] y row.2.2.1 := conf_of_typeOf_scalar hr hy
  exact typeOf_of_conf_scalar hret (evalBin_conf hcx hcy hpy hev)

/-- non-vacuity: the table has 56 scalar rows, e.g. `int / bool ↦ float`, and CPython does evaluate such operands -/
example : dunderRows.length = 56 ∧ (Ty.int, BOp.div, Ty.bool, Ty.float) ∈ dunderRows ∧
    (evalBin .mod (.int 7) (.bool true)).map typeOf = .ok .int := by decide +kernel

/-- The `__neg__` / `__pos__` rows state CPython's result type. -/
theorem dunder_unary : ∀ row ∈ unaryRows, ∀ (x v : Val), typeOf x = row.1 → evalFactor row.2.1 x = .ok v → typeOf v = row.2.2 := by
  intro row hrow x v hx hev
  have htab : ∀ r ∈ unaryRows, (r.1 = .int ∨ r.1 = .float) ∧ r.2.2 = r.1 ∧ r.2.1 ≠ .inv := by decide +kernel
  obtain ⟨hl, hret, hop⟩ := htab row hrow
  rw [hret]
  have hcx : Conf [] x row.1 := conf_of_typeOf_scalar (by rcases hl with h | h <;> rw [h] <;> decide) hx
  have hok : factorOk row.2.1 row.1 = true := by
    rcases hl with h | h <;> rw [h] <;> cases hr : row.2.1 <;> first | rfl | exact absurd hr hop
  have hc := evalFactor_conf hcx hok hev
  have hnb : row.1 ≠ .bool := by rcases hl with h | h <;> rw [h] <;> decide
  rw [if_neg hnb] at hc
  exact typeOf_of_conf_scalar (by rcases hl with h | h <;> rw [h] <;> decide) hc

example : unaryRows.length = 4 ∧ (evalFactor .neg (.int 3)).map typeOf = .ok .int := by decide +kernel

/-- On scalar operands, one step of `each_binary_operator` over the generated table gives CPython's result type whenever
    CPython accepts the operands (no scalar disagreement is left since 4f4a122; the stub still accepts a few operand
    pairs CPython rejects, e.g. `int << float`, because shifts are not selected by the argument type). -/
theorem step_agreement : ∀ l ∈ scalarTys, ∀ r ∈ scalarTys, ∀ op ∈ binOps, ∀ t, tryStep [] l op r = some t →
    pyBinTy op l r = some t ∨ pyBinTy op l r = none := by
  decide +kernel

example : tryStep [] .int .add .float = some .float ∧ tryStep [] .bool .bor .int = some .int ∧ pyBinTy .bor .bool .int = some .int := by
  decide +kernel

/-! ## soundness -/

/-- The property's sentence on the model: on Core, inference succeeds (from every session state, leaving it untouched) and
    the inferred type denotes the value CPython computes. Unbounded: induction over expressions, lists, operator chains,
    dict items; includes unary operators on bool, `bool | int`, tuple slices with literal bounds, stub calls, comprehensions. -/
theorem sound_conf {ct : ClassTable} {W : World} {Γ : Env} {ρ : VEnv} {e : Expr} {v : Val} (hW : WorldConf ct W)
    (hcore : Core ct Γ e) (henv : EnvConf ct ρ Γ) (hev : eval W ρ e = .ok v) :
    ∃ T, (∀ s, infer ct Γ e s = (.ok T, s)) ∧ Conf ct v T := by
  obtain ⟨T, hT⟩ := infer_ok e Γ hcore
  exact ⟨T, hT, sound_expr hW e Γ ρ T v hcore henv hT hev⟩

/-- `C03.sound`: on Core, for a value whose run-time type is determined and a plain inferred type (no Union, no iterator
    class), the inferred type EQUALS the run-time type. -/
theorem sound {ct : ClassTable} {W : World} {Γ : Env} {ρ : VEnv} {e : Expr} {v : Val} {T : Ty} (hW : WorldConf ct W)
    (hcore : Core ct Γ e) (henv : EnvConf ct ρ Γ) (hev : eval W ρ e = .ok v) (hdet : DetV v)
    (hT : inferT ct Γ e = .ok T) (hplain : T.plain = true) : inferT ct Γ e = .ok (typeOf v) := by
  obtain ⟨T', hT', hc⟩ := sound_conf hW hcore henv hev
  have : T' = T := by
    have h1 : inferT ct Γ e = .ok T' := by unfold inferT; rw [hT' false]
    rw [h1] at hT; cases hT; rfl
  subst this
  rw [hT, conf_typeOf hc hplain hdet]

/-- non-vacuity: `[x * 2 for x in xs if x > 1]` with `xs = [1, 2, 3]` is in Core, evaluates to `[4, 6]`, whose run-time type
    `list<int>` is determined and equals the inferred one -/
example :
    let Γ : Env := [(['x', 's'], .list .int)]
    let ρ : VEnv := [(['x', 's'], .list [.int 1, .int 2, .int 3])]
    let e : Expr := .listComp (.bin (.var ['x']) (.cons .mul (.int 2) .nil)) [['x']] (.var ['x', 's'])
      (.cmp (.var ['x']) (.cons .gt (.int 1) .nil))
    wt [] Γ e = true ∧ (eval World.none ρ e).map typeOf = .ok (.list .int) ∧ inferT [] Γ e = .ok (.list .int) := by
  decide +kernel

/-- the former counterexamples are inside Core and typed as CPython types them: `-True`, `True | 2`, `t[0:1]` -/
example :
    let Γ : Env := [(['t'], .tuple (.cons .int (.cons .str .nil)))]
    (wt [] Γ (.factor .neg .true_) = true ∧ inferT [] Γ (.factor .neg .true_) = .ok .int) ∧
    (wt [] Γ (.bin .true_ (.cons .bor (.int 2) .nil)) = true ∧ inferT [] Γ (.bin .true_ (.cons .bor (.int 2) .nil)) = .ok .int) ∧
    (wt [] Γ (.slice (.var ['t']) (.int 0) (.int 1)) = true ∧ inferT [] Γ (.slice (.var ['t']) (.int 0) (.int 1)) = .ok (.tuple (.cons .int .nil))) := by
  decide +kernel

/-- non-vacuity of the denotation form on an optional: `o if p else a` with `o : int | None` -/
example :
    let Γ : Env := [(['o'], .union (.cons .int (.cons .none .nil))), (['a'], .int), (['p'], .bool)]
    let e : Expr := .tern (.var ['o']) (.var ['p']) (.var ['a'])
    wt [] Γ e = true ∧
      inferT [] Γ e = .ok (.union (.cons (.union (.cons .int (.cons .none .nil))) (.cons .int .nil))) := by
  decide +kernel

/-! ### what is still false on the code (each listed as a known finding; all outside Core) -/

/-- `on_list` (reflections.py:690-700) over items that all have the same class keeps the LAST item's type — not the first, not the most
    informative: `[[], [n]]` is typed by `[n]` (right: `list<list<int>>`), `[[n], []]` by `[]` (`list<list<Unknown>>`, the known finding
    below). For every non-empty list of item types of one class. -/
theorem on_list_last_of_class (c : Str) (hc : c ≠ s_Unknown) : ∀ (t : Ty) (ts : List Ty), (∀ u ∈ t :: ts, u.className = c) →
    knownTypes (t :: ts) = [(t :: ts).getLast (by simp)] := by
  have hfold : ∀ (ts : List Ty) (v : Ty), (∀ u ∈ ts, u.className = c) →
      (ts.foldl dedupPut [(c, v)]).map (·.2) = [(v :: ts).getLast (by simp)] := by
    intro ts
    induction ts with
    | nil => intro v _; rfl
    | cons u rest ih =>
      intro v h
      have hu : u.className = c := h u (by simp)
      have hstep : dedupPut [(c, v)] u = [(c, u)] := by simp [dedupPut, hu]
      rw [List.foldl_cons, hstep, ih u (fun w hw => h w (by simp [hw]))]
      simp [List.getLast_cons]
  intro t ts h
  have hfilter : (t :: ts).filter (fun u => u.className ≠ s_Unknown) = t :: ts := by
    apply List.filter_eq_self.mpr
    intro u hu
    simp [h u hu, hc]
  have ht : t.className = c := h t (by simp)
  unfold knownTypes
  rw [hfilter, List.foldl_cons]
  have h0 : dedupPut [] t = [(c, t)] := by simp [dedupPut, ht]
  rw [h0]
  exact hfold ts t (fun u hu => h u (by simp [hu]))

/-- non-vacuity, both orders: `[[], [1]]` is `list<list<int>>`, `[[1], []]` is `list<list<Unknown>>` -/
example : inferT [] [] (.list (.cons (.list .nil) (.cons (.list (.cons (.int 1) .nil)) .nil))) = .ok (.list (.list .int)) ∧
    inferT [] [] (.list (.cons (.list (.cons (.int 1) .nil)) (.cons (.list .nil) .nil))) = .ok (.list (.list .unknown)) := by decide +kernel

/-- known finding `dict-literal-empty-first-value`: `on_dict` takes the first item whose value is not of class `Unknown`; an empty list
    is a `list`: `{"s": [], "z": [1]}` is typed `dict<str, list<Unknown>>` — `Unknown` for a value CPython determines (outside Core) -/
theorem dict_literal_counterexample : ∃ (e : Expr) (v : Val),
    eval World.none [] e = .ok v ∧ inferT [] [] e = .ok (.dict .str (.list .unknown)) ∧
    (Ty.dict .str (.list .unknown)).noUnknown = false ∧ wt [] [] e = false := by
  refine ⟨.dict (.cons (.str ['s']) (.list .nil) (.cons (.str ['z']) (.list (.cons (.int 1) .nil)) .nil)),
    .dict [.str ['s'], .str ['z']] [.list [], .list [.int 1]], by rfl, by decide +kernel, by decide +kernel, by decide +kernel⟩

/-- known finding `list-literal-class-dedup`: `on_list` keeps one element type per CLASS, the last one
    (reflections.py:681): `[[None], [1]]` is typed `list<list<int>>` although its first element is a `list<None>`.
    (Core requires every element type of a list literal to survive that selection.) -/
theorem list_literal_counterexample : ∃ (e : Expr) (v : Val),
    eval World.none [] e = .ok v ∧ inferT [] [] e = .ok (.list (.list .int)) ∧ ¬ Conf [] v (.list (.list .int)) ∧ wt [] [] e = false := by
  refine ⟨.list (.cons (.list (.cons .none_ .nil)) (.cons (.list (.cons (.int 1) .nil)) .nil)),
    .list [.list [.none], .list [.int 1]], by rfl, by decide +kernel, ?_, by decide +kernel⟩
  intro h
  obtain ⟨vs, hvs, hall⟩ := h.list_inv
  cases hvs
  have h0 := hall.mem (.list [.none]) (by simp)
  obtain ⟨ws, hws, hall0⟩ := h0.list_inv
  cases hws
  have := hall0.mem .none (by simp)
  cases this

/-- known finding `dict-get-missing-key`: the stub types `dict.get(key)` as the value type (classes.py:120), CPython returns
    `None` for a missing key. (Core admits `get` only with a default of the value type.) -/
theorem dict_get_counterexample : ∃ (Γ : Env) (ρ : VEnv) (e : Expr) (v : Val),
    EnvConf [] ρ Γ ∧ eval World.none ρ e = .ok v ∧ inferT [] Γ e = .ok .int ∧ ¬ Conf [] v .int ∧ wt [] Γ e = false := by
  refine ⟨[(['d'], .dict .str .int)], [(['d'], .dict [.str ['k']] [.int 1])],
    .call (.var ['d']) ['g', 'e', 't'] (.cons (.str ['z']) .nil), .none, ?_, by rfl, by decide +kernel, ?_, by decide +kernel⟩
  · intro x T hx
    simp only [lookup] at hx ⊢
    split at hx
    · cases hx
      rename_i hxd; subst hxd
      exact ⟨.dict [.str ['k']] [.int 1], by simp, .dict (.cons (.str _) .nil) (.cons (.int 1) .nil)⟩
    · cases hx
  · intro h; cases h

/-- known finding `abs-of-bool`: the stub `abs[T](a: T) -> T` types `abs(True)` as `bool`, CPython computes the `int` 1. -/
theorem abs_bool_counterexample : ∃ (e : Expr) (v : Val),
    eval World.none [] e = .ok v ∧ inferT [] [] e = .ok .bool ∧ ¬ Conf [] v .bool ∧ wt [] [] e = false := by
  refine ⟨.fcall ['a', 'b', 's'] (.cons .true_ .nil), .int 1, by rfl, by decide +kernel, ?_, by decide +kernel⟩
  intro h; cases h

/-- known finding `list-of-dict-items`: `list(d.items())` is typed `list<K>` (the template of `list(iterable: Iterator[T])` is bound
    to the first argument of `ItemsView<K, V>`), CPython builds a list of `(key, value)` tuples. -/
theorem list_items_counterexample : ∃ (Γ : Env) (ρ : VEnv) (e : Expr) (v : Val),
    EnvConf [] ρ Γ ∧ eval World.none ρ e = .ok v ∧ inferT [] Γ e = .ok (.list .str) ∧ ¬ Conf [] v (.list .str) ∧ wt [] Γ e = false := by
  refine ⟨[(['d'], .dict .str .int)], [(['d'], .dict [.str ['k']] [.int 1])],
    .fcall ['l', 'i', 's', 't'] (.cons (.call (.var ['d']) ['i', 't', 'e', 'm', 's'] .nil) .nil),
    .list [.tuple [.str ['k'], .int 1]], ?_, by rfl, by decide +kernel, ?_, by decide +kernel⟩
  · intro x T hx
    simp only [lookup] at hx ⊢
    split at hx
    · cases hx
      rename_i hxd; subst hxd
      exact ⟨.dict [.str ['k']] [.int 1], by simp, .dict (.cons (.str _) .nil) (.cons (.int 1) .nil)⟩
    · cases hx
  · intro h
    obtain ⟨vs, hvs, hall⟩ := h.list_inv
    cases hvs
    have := hall.mem (.tuple [.str ['k'], .int 1]) (by simp)
    cases this

/-- known finding `boolop-nonbool-operands`: `and` / `or` are typed `bool` (on_and_compare / on_or_compare), CPython returns one
    of the operands: `1 and 2` is the `int` 2. -/
theorem boolop_counterexample : ∃ (e : Expr) (v : Val),
    eval World.none [] e = .ok v ∧ inferT [] [] e = .ok .bool ∧ ¬ Conf [] v .bool ∧ wt [] [] e = false := by
  refine ⟨.and_ (.cons (.int 1) (.cons (.int 2) .nil)), .int 2, by rfl, by decide +kernel, ?_, by decide +kernel⟩
  intro h; cases h

/-- known finding `tuple-slice-nonliteral-bounds` (what is left of it after da8b916): only literal — also signed — or omitted bounds
    select elements (reflections.py:476-490); a COMPUTED bound keeps the whole tuple type: `t[0 + 1:]` of a `tuple<int, str>` is
    typed `tuple<int, str>`, CPython computes `('a',)`. -/
theorem tuple_slice_computed_counterexample : ∃ (Γ : Env) (ρ : VEnv) (e : Expr) (v : Val),
    EnvConf [] ρ Γ ∧ eval World.none ρ e = .ok v ∧ inferT [] Γ e = .ok (.tuple (.cons .int (.cons .str .nil))) ∧
    ¬ Conf [] v (.tuple (.cons .int (.cons .str .nil))) ∧ wt [] Γ e = false := by
  refine ⟨[(['t'], .tuple (.cons .int (.cons .str .nil)))], [(['t'], .tuple [.int 1, .str ['a']])],
    .slice (.var ['t']) (.bin (.int 0) (.cons .add (.int 1) .nil)) .empty_, .tuple [.str ['a']], ?_, by rfl, by decide +kernel, ?_, by decide +kernel⟩
  · intro x T hx
    simp only [lookup] at hx ⊢
    split at hx
    · cases hx
      rename_i hxt; subst hxt
      exact ⟨.tuple [.int 1, .str ['a']], by simp, .tuple (.cons (.int 1) (.cons (.str ['a']) .nil))⟩
    · cases hx
  · intro h
    obtain ⟨vs, hvs, hz⟩ := h.tuple_inv
    cases hvs
    have := hz.length
    simp [Tys.length] at this

/-- da8b916: signed literal bounds are inside Core and select what CPython selects — `t[-1:]`, `t[:-1]`, `t[-2:-1]`, `t[+1:]`, and
    out-of-range negative bounds (`t[-9:]` the whole tuple, `t[:-9]` and `t[-1:-2]` the empty one) (`sound_conf` covers them all) -/
example :
    let Γ : Env := [(['t'], .tuple (.cons .int (.cons .str (.cons .float .nil))))]
    let sl := fun (lo hi : Expr) => Expr.slice (.var ['t']) lo hi
    (wt [] Γ (sl (.factor .neg (.int 1)) .empty_) = true ∧ inferT [] Γ (sl (.factor .neg (.int 1)) .empty_) = .ok (.tuple (.cons .float .nil))) ∧
    (wt [] Γ (sl .empty_ (.factor .neg (.int 1))) = true ∧ inferT [] Γ (sl .empty_ (.factor .neg (.int 1))) = .ok (.tuple (.cons .int (.cons .str .nil)))) ∧
    inferT [] Γ (sl (.factor .neg (.int 2)) (.factor .neg (.int 1))) = .ok (.tuple (.cons .str .nil)) ∧
    inferT [] Γ (sl (.factor .pos (.int 1)) .empty_) = .ok (.tuple (.cons .str (.cons .float .nil))) ∧
    inferT [] Γ (sl (.factor .neg (.int 9)) .empty_) = .ok (.tuple (.cons .int (.cons .str (.cons .float .nil)))) ∧
    inferT [] Γ (sl .empty_ (.factor .neg (.int 9))) = .ok (.tuple .nil) ∧
    inferT [] Γ (sl (.factor .neg (.int 1)) (.factor .neg (.int 2))) = .ok (.tuple .nil) ∧
    (eval World.none [(['t'], .tuple [.int 1, .str ['a'], .float 0])] (sl (.factor .neg (.int 2)) (.factor .neg (.int 1)))).map typeOf
      = .ok (.tuple (.cons .str .nil)) ∧
    -- `~1`, `-(1)` and `- -1` are not literal bounds
    wt [] Γ (sl (.factor .inv (.int 1)) .empty_) = false ∧ wt [] Γ (sl (.factor .neg (.group (.int 1))) .empty_) = false := by
  decide +kernel

/-- known finding `ternary-union-of-containers`: the two branches `[a]` and `[None]` are inferred as different list types, their
    ternary as `Union<list<int>, list<None>>`, on which no operator resolves: inference FAILS on an expression CPython evaluates. -/
theorem ternary_union_counterexample : ∃ (Γ : Env) (ρ : VEnv) (e : Expr) (v : Val),
    EnvConf [] ρ Γ ∧ eval World.none ρ e = .ok v ∧ inferT [] Γ e = .error .opNotAllowed ∧ wt [] Γ e = false := by
  refine ⟨[(['a'], .int), (['p'], .bool)], [(['a'], .int 1), (['p'], .bool true)],
    .bin (.group (.tern (.list (.cons (.var ['a']) .nil)) (.var ['p']) (.list (.cons .none_ .nil)))) (.cons .mul (.int 2) .nil),
    .list [.int 1, .int 1], ?_, by rfl, by decide +kernel, by decide +kernel⟩
  intro x T hx
  simp only [lookup] at hx ⊢
  split at hx
  · cases hx
    rename_i hxa; subst hxa
    exact ⟨.int 1, by simp, .int 1⟩
  · split at hx
    · cases hx
      rename_i hxa hxp; subst hxp
      exact ⟨.bool true, by simp [hxa], .bool true⟩
    · cases hx

/-! ## beyond single expressions: declarations, operator chains, iteration, attributes of user classes -/

/-- `chain_type`: for a flat operator chain `e0 op1 e1 op2 e2 …` in Core whose value is a scalar, the inferred (= declared
    in the emitted C++) type is the type of the value CPython computes by evaluating the chain left-nested, each step with ITS
    operator (what the seeded "chain fold" mutations broke). -/
theorem chain_type {ct : ClassTable} {W : World} {Γ : Env} {ρ : VEnv} {e : Expr} {op : BOp} {e1 : Expr} {rest : Chain} {v : Val}
    (hW : WorldConf ct W) (hcore : Core ct Γ (.bin e (.cons op e1 rest))) (henv : EnvConf ct ρ Γ)
    (hev : eval W ρ (.bin e (.cons op e1 rest)) = .ok v) (hv : typeOf v ∈ scalarTys) :
    inferT ct Γ (.bin e (.cons op e1 rest)) = .ok (typeOf v) := by
  obtain ⟨T, hT, hc⟩ := sound_conf hW hcore henv hev
  have hwt := hcore
  unfold Core wt at hwt
  simp only [Bool.and_eq_true] at hwt
  obtain ⟨⟨h1, h2⟩, h3⟩ := hwt
  obtain ⟨Te, hTe⟩ := infer_ok e Γ h1
  obtain ⟨ops, hops⟩ := inferChain_ok (.cons op e1 rest) Γ h2
  rw [hTe.inferT, hops.inferT] at h3
  simp only at h3
  have hf := hT false
  simp only [infer, hTe false, hops false, R.bind_ok, R.lift, Prod.mk.injEq, and_true] at hf
  have hne : ops ≠ [] := by
    intro h0
    have := hops false
    rw [h0] at this
    unfold wtChain at h2
    simp only [Bool.and_eq_true] at h2
    obtain ⟨T1, hT1⟩ := infer_ok e1 Γ h2.1
    obtain ⟨ops', hops'⟩ := inferChain_ok rest Γ h2.2
    simp only [inferChain, hT1 false, hops' false, R.bind_ok] at this
    cases this
  have hshape := foldBin_shape ops Te T hne h3 hf
  have : T = typeOf v := conf_scalar_typeOf hc hv hshape
  unfold inferT
  rw [hT false, this]

/-- evaluation of a flat chain IS the left-nested evaluation: `e0 op1 e1 op2 e2 … = ((e0 op1 e1) op2 e2) …` -/
theorem chain_left_nested (W : World) (ρ : VEnv) (e e1 : Expr) (op : BOp) (rest : Chain) :
    eval W ρ (.bin e (.cons op e1 rest)) = eval W ρ (.bin (.bin e (.cons op e1 .nil)) rest) := by
  simp only [eval, evalChain, bind_assoc]
  cases eval W ρ e with
  | error _ => rfl
  | ok a => simp only [bind, Except.bind]

example :
    let Γ : Env := [(['n'], .int), (['m'], .int), (['k'], .int)]
    let e : Expr := .bin (.var ['n']) (.cons .mul (.var ['m']) (.cons .div (.var ['k']) .nil))
    wt [] Γ e = true ∧ inferT [] Γ e = .ok .float := by decide +kernel

/-- `sound_decl`: a declaration `x = e` takes the value's type (on_move_assign / resolve_right_to_left); after CPython executed
    it, the extended environment still conforms — so the typing of a straight-line body is sound statement by statement. -/
theorem sound_decl {ct : ClassTable} {W : World} {Γ : Env} {ρ : VEnv} {e : Expr} {v : Val} (x : Str) (hW : WorldConf ct W)
    (hcore : Core ct Γ e) (henv : EnvConf ct ρ Γ) (hev : eval W ρ e = .ok v) :
    ∃ T, inferT ct Γ e = .ok T ∧ EnvConf ct ((x, v) :: ρ) ((x, T) :: Γ) := by
  obtain ⟨T, hT, hc⟩ := sound_conf hW hcore henv hev
  exact ⟨T, by unfold inferT; rw [hT false], henv.cons hc⟩

/-- `sound_iter`: the inferred loop-variable type (`IteratorTrait.iterates`: `__next__` before `__iter__`, an `Iterator<T>`
    result unwrapped) denotes EVERY value the loop variable takes under CPython — for list, dict (keys), the views and builtin
    iterators (`keys/values/items`, `range`, `enumerate`, `reversed`) and for instances of user classes following either form of
    the iterator protocol (`__iter__` returning the object itself + `__next__`, or `__iter__ -> Iterator[T]`). -/
theorem sound_iter {ct : ClassTable} {W : World} {tsrc elem : Ty} {v : Val} {items : List Val} (hW : WorldConf ct W)
    (hv : Conf ct v tsrc) (hit : iterates ct tsrc = .ok elem) (hpy : pyIterTy ct tsrc = some elem)
    (hitems : iterItemsW W v = .ok items) : ∀ x ∈ items, Conf ct x elem := by
  have _ := hit
  exact (iterItemsW_conf hW hv hpy hitems).mem

/-- `sound_for`: the targets of `for x, y in src` (statement or comprehension clause) are bound to types that denote the values
    CPython binds them to, for every item: the extended environment conforms. -/
theorem sound_for {ct : ClassTable} {W : World} {Γ bs : Env} {ρ : VEnv} {vars : List Str} {src : Expr} {tsrc : Ty} {vsrc : Val}
    {items : List Val} (hW : WorldConf ct W) (hcore : Core ct Γ src) (henv : EnvConf ct ρ Γ) (hev : eval W ρ src = .ok vsrc)
    (hT : inferT ct Γ src = .ok tsrc) (hbs : compEnv ct vars tsrc = some bs) (hitems : iterItemsW W vsrc = .ok items) :
    ∀ item ∈ items, ∀ bsv, bindItem vars item = .ok bsv → EnvConf ct (bsv ++ ρ) (bs ++ Γ) := by
  intro item hi bsv hb
  obtain ⟨T', hT', hc⟩ := sound_conf hW hcore henv hev
  have : T' = tsrc := by
    have h1 : inferT ct Γ src = .ok T' := by unfold inferT; rw [hT' false]
    rw [h1] at hT; cases hT; rfl
  subst this
  obtain ⟨elem, _, hpy, hv, rfl⟩ := compEnv_some hbs
  exact EnvConf.extend (bindItem_conf hv ((iterItemsW_conf hW hc hpy hitems).mem item hi) hb) henv

/-- `iter_type`: what `iterates` answers for the stub containers, for EVERY element type (Unions, nested generics, user classes):
    `for x in <list<t>>` gives `t`, `<dict<k, v>>` gives `k`, `<Iterator<t>>` (range, enumerate, reversed, keys(), values()) gives
    `t`. Proved on the port of `TemplateManipulator`; with `sound_iter` and `pyIterTy` this makes the loop-variable type of these
    sources sound without any side condition on the element type. -/
theorem iter_type {ct : ClassTable} (hl : findClass ct s_list = Option.none) (hd : findClass ct s_dict = Option.none) (t k v : Ty) :
    iterates ct (.list t) = .ok t ∧ iterates ct (.dict k v) = .ok k ∧
    ((∀ a rest, t ≠ .cls s_Iterator (.cons a rest)) → iterates ct (tIter t) = .ok t) ∧
    pyIterTy ct (.list t) = some t ∧ pyIterTy ct (.dict k v) = some k ∧ pyIterTy ct (tIter t) = some t :=
  ⟨iterates_list hl t, iterates_dict hd k v, iterates_iterator t, rfl, rfl, by simp [pyIterTy, tIter]⟩

/-- on an instance of a user class with `__next__` the element type is `__next__`'s declared return type, whatever `__iter__`
    is declared to return (this is the order `_resolve_method` must keep: the seeded mutation that asked for `__iter__` first
    answers the class itself for the classic protocol) -/
theorem iterates_user {ct : ClassTable} {c : Str} {mn : Member} (hstub : findIn Dunder.methods c s_next = none)
    (hm : memberOf ct c s_next = some mn) (hk : mn.callable = true)
    (hnt : templatesOf (expandTy [2] mn.ty) = []) (hni : ∀ a rest, mn.ty ≠ .cls s_Iterator (.cons a rest)) :
    iterates ct (.cls c .nil) = .ok mn.ty := iterates_user_next hstub hm hk hnt hni

/-- `sound_attr`: `r.a` on an instance of a user class (instance variable declared in `__init__` / the class body, class
    variable, property), looked up through the single-inheritance chain: the inferred type is the declared type of the member
    found first on the chain, and it denotes the value CPython reads (instance dict first, then the class). -/
theorem sound_attr {ct : ClassTable} {W : World} {Γ : Env} {ρ : VEnv} {r : Expr} {a : Str} {v : Val} (hW : WorldConf ct W)
    (hcore : Core ct Γ (.attr r a)) (henv : EnvConf ct ρ Γ) (hev : eval W ρ (.attr r a) = .ok v) :
    ∃ Tr c mem, inferT ct Γ r = .ok Tr ∧ stripNullable Tr = .cls c .nil ∧ memberOf ct c a = some mem ∧
      inferT ct Γ (.attr r a) = .ok mem.ty ∧ Conf ct v mem.ty := by
  obtain ⟨T, hT, hc⟩ := sound_conf hW hcore henv hev
  have hwt := hcore
  unfold Core wt at hwt
  simp only [Bool.and_eq_true] at hwt
  obtain ⟨Tr, hTr⟩ := infer_ok r Γ hwt.1
  have h2 := hwt.2
  rw [hTr.inferT] at h2
  simp only [tyOk] at h2
  obtain ⟨c, mem, hcs, hm, _, hk⟩ := attrOk_inv h2
  have hf := hT false
  simp only [infer, hTr false, R.bind_ok, R.lift, attr_infer hcs hm hk] at hf
  have hTm : mem.ty = T := pair_ok_inj hf
  refine ⟨Tr, c, mem, hTr.inferT, hcs, hm, ?_, hTm ▸ hc⟩
  unfold inferT
  rw [hT false, hTm]

/-- a base class, a subclass overriding nothing, a member found on the base through the chain; a property; a method call -/
example :
    let ct : ClassTable := [⟨['C'], [], [⟨['n'], .field, .int⟩, ⟨['p'], .property, .str⟩, ⟨['g'], .method, .list .int⟩,
        ⟨['_', '_', 'i', 't', 'e', 'r', '_', '_'], .method, .cls ['C'] .nil⟩, ⟨['_', '_', 'n', 'e', 'x', 't', '_', '_'], .method, .float⟩]⟩,
      ⟨['D'], [['C']], [⟨['k'], .classVar, .bool⟩]⟩]
    let Γ : Env := [(['d'], .cls ['D'] .nil)]
    inferT ct Γ (.attr (.var ['d']) ['n']) = .ok .int ∧ wt ct Γ (.attr (.var ['d']) ['n']) = true ∧
    inferT ct Γ (.attr (.var ['d']) ['p']) = .ok .str ∧ inferT ct Γ (.attr (.var ['d']) ['k']) = .ok .bool ∧
    inferT ct Γ (.call (.var ['d']) ['g'] .nil) = .ok (.list .int) ∧ wt ct Γ (.call (.var ['d']) ['g'] .nil) = true ∧
    inferT ct Γ (.listComp (.var ['x']) [['x']] (.var ['d']) .true_) = .ok (.list .float) ∧
    wt ct Γ (.listComp (.var ['x']) [['x']] (.var ['d']) .true_) = true ∧
    inferT ct Γ (.fcall ['D'] .nil) = .ok (.cls ['D'] .nil) := by
  decide +kernel

/-- `var_at`: with the environment a symbol table induces at a node (`envAt`: C08's `find_by_symbolic` — scope chain, class-scope
    visibility rule, imports, libraries — then the type stored with the symbol), the `Var` handler answers the type of the symbol
    name resolution finds. So every theorem above that is stated over a flat `Γ` holds over the symbol table. -/
theorem var_at {ct : ClassTable} (st : SymTab) (node : Scope.NodeInfo Str Str) (names : List Str) (x : Str) (t : Ty)
    (h : varTypeAt st node x = .ok t) (hm : t ≠ noSuchAttr) (hx : x ∈ names) :
    inferT ct (envAt st node names) (.var x) = .ok t := by
  unfold inferT
  simp only [infer, lookup_envAt st node x t h names hx, hm, if_false]

/-- the class-scope visibility rule (finder.py:124-158) on the program `threshold: int` / `class Outer: threshold: ClassVar[str]` /
    nested `class Inner`: a bare `threshold` in the nested class body and in a method of `Outer` is the module-level `int`
    (a class scope is no enclosing scope for the bodies nested in it), directly in `Outer`'s body it is the class variable. -/
theorem class_scope_rule :
    varTypeAt demoTab nodeInner n_threshold = .ok .int ∧
    varTypeAt demoTab nodeOuterMethod n_threshold = .ok .int ∧
    varTypeAt demoTab nodeOuterBody n_threshold = .ok .str := by
  decide +kernel

/-! ## totality -/

/-- Inference is total on Core: it succeeds from every session state and the inferred type contains no `Unknown`
    (for an environment whose declared types contain none). -/
theorem total {ct : ClassTable} {Γ : Env} {e : Expr} (hcore : Core ct Γ e) (hΓ : EnvNoUnknown Γ) (hct : CtNoUnknown ct) :
    ∃ T, (∀ s, infer ct Γ e s = (.ok T, s)) ∧ T.noUnknown = true := by
  obtain ⟨T, hT⟩ := infer_ok e Γ hcore
  exact ⟨T, hT, infer_noUnknown hct e Γ T hcore hΓ hT⟩

example : Core [] [] (.dict (.cons (.str ['k']) (.list (.cons (.int 1) .nil)) .nil)) ∧
    inferT [] [] (.dict (.cons (.str ['k']) (.list (.cons (.int 1) .nil)) .nil)) = .ok (.dict .str (.list .int)) := by
  decide +kernel

/-- The result of inference for an expression does not depend on what the session inferred before, and inference leaves the
    session state as it found it — for EVERY expression of the model, well-typed or not, also when inference fails.
    (False before 401dc97: `on_list` extended the library's shared `Union` symbol.) -/
theorem session_independent (ct : ClassTable) (Γ : Env) (e : Expr) (s : Bool) : infer ct Γ e s = ((infer ct Γ e false).1, s) := by
  obtain ⟨r, hr⟩ := infer_stateless e Γ
  rw [hr s, hr false]

/-- two heterogeneous list literals in one expression, from a session that already inferred one -/
example : (infer [] [] (.tuple (.cons (.list (.cons (.int 1) (.cons (.str ['a']) .nil)))
    (.cons (.list (.cons (.int 1) (.cons .none_ .nil))) .nil))) true).1
    = .ok (.tuple (.cons (.list (.union (.cons .int (.cons .str .nil)))) (.cons (.list (.union (.cons .int (.cons .none .nil)))) .nil))) := by
  decide +kernel

/-! ## template substitution -/

/-- A generic stub method applied to a receiver returns the receiver's type argument, whatever it is: `list[T].pop() : T`
    for EVERY type `T` — Unions (optionals) and nested generics included. Proved on the step-by-step port of
    `TemplateManipulator` (flatten, normalise, `_find_actual_path`, `make_updates`, `apply`), by induction on `T`.
    (False before e9f8d3f: `list[int | None].pop()` was typed `int`.) -/
theorem template (ct : ClassTable) (t : Ty) :
    (findMethod ct ['l', 'i', 's', 't'] ['p', 'o', 'p']).map (fun row => returnsOf row (.list t) .nil) = some t := by
  rw [findMethod_pop]
  simp only [Option.map_some, returnsOf_pop]

/-- the former counterexample and the shapes of the (repaired) finding `template-union-first-member`, via other rows -/
example :
    let opt : Ty := .union (.cons .int (.cons .none .nil))
    (findMethod [] ['l', 'i', 's', 't'] ['p', 'o', 'p']).map (fun row => returnsOf row (.list opt) .nil) = some opt ∧
    (findMethod [] ['l', 'i', 's', 't'] ['c', 'o', 'p', 'y']).map (fun row => returnsOf row (.list opt) .nil) = some (.list opt) ∧
    inferT [] [(['x', 'o'], .list opt)] (.listComp (.var ['z']) [['z']] (.var ['x', 'o']) .true_) = .ok (.list opt) := by
  decide +kernel

/-- The type-argument POSITION decides which actual type a type variable is bound to (68f934e; before, `_find_actual_path`
    compared depths only: `val(m: dict[str, T]) -> T` was typed by the FIRST argument of the value's type), and `None` given for a
    `T | None` parameter binds nothing (`wrap(o: T | None, d: T) -> list[T]`, `wrap(None, 1)` was `list<None>`). The generic
    functions are the former witnesses of the findings `template-nonfirst-type-argument` / `optional-template-none-argument`. -/
example :
    let T : Ty := .tvar ['T']
    let val : Func := ⟨['v', 'a', 'l'], false, .cons (.dict .str T) .nil, T⟩
    let snd : Func := ⟨['s', 'n', 'd'], false, .cons (.tuple (.cons .int (.cons T .nil))) .nil, T⟩
    let inner : Func := ⟨['i', 'n'], false, .cons (.list (.dict .str T)) .nil, T⟩
    let valO : Func := ⟨['v', 'o'], false, .cons (.union (.cons (.dict .str T) (.cons .none .nil))) (.cons T .nil), T⟩
    let deep : Func := ⟨['d', 'p'], false, .cons (.dict .str (.union (.cons T (.cons .none .nil)))) .nil, T⟩
    let wrap : Func := ⟨['w', 'r'], false, .cons (.union (.cons T (.cons .none .nil))) (.cons T .nil), .list T⟩
    returnsOfFunc val (.cons (.dict .str .int) .nil) = .int ∧
    returnsOfFunc val (.cons (.dict .str (.list .float)) .nil) = .list .float ∧
    returnsOfFunc snd (.cons (.tuple (.cons .int (.cons .float .nil))) .nil) = .float ∧
    returnsOfFunc inner (.cons (.list (.dict .str .float)) .nil) = .float ∧
    returnsOfFunc valO (.cons (.dict .str .int) (.cons .int .nil)) = .int ∧
    returnsOfFunc valO (.cons .none (.cons .int .nil)) = .int ∧
    returnsOfFunc deep (.cons (.dict .str .bool) .nil) = .bool ∧
    returnsOfFunc wrap (.cons .none (.cons .int .nil)) = .list .int ∧
    returnsOfFunc wrap (.cons .str (.cons .str .nil)) = .list .str := by
  decide +kernel

/-! ## optionals -/

/-- `_actualize_nullable` (traits.py:103-119): unwrapping an optional does not depend on the side `None` is written on —
    `T | None` and `None | T` (and the inferred `None if c else e` / `e if c else None`) both unwrap to `T`. -/
theorem nullable_order_irrelevant (a : Ty) (h : a.className ≠ s_None) :
    stripNullable (.union (.cons a (.cons .none .nil))) = a ∧ stripNullable (.union (.cons .none (.cons a .nil))) = a := by
  have hn : Ty.none.className = s_None := by decide
  constructor <;> simp [stripNullable, hn, h]

/-- … and so every handler that consumes its receiver through the unwrapping (subscript, slice, attribute, method call,
    iteration) answers the same for both spellings. -/
theorem nullable_order_handlers (ct : ClassTable) (a : Ty) (h : a.className ≠ s_None) (k lo hi : Expr) (m : Str) :
    let l := Ty.union (.cons a (.cons .none .nil))
    let r := Ty.union (.cons .none (.cons a .nil))
    onIndex (stripNullable l) k = onIndex (stripNullable r) k ∧ onSlice (stripNullable l) lo hi = onSlice (stripNullable r) lo hi ∧
    onAttr ct (stripNullable l) m = onAttr ct (stripNullable r) m ∧ iterates ct l = iterates ct r := by
  obtain ⟨h1, h2⟩ := nullable_order_irrelevant a h
  simp only [h1, h2, true_and]
  unfold iterates
  simp only [h1, h2]

/-- both spellings, both ternary orders -/
example :
    let Γ : Env := [(['x'], .union (.cons .none (.cons (.list .int) .nil))), (['y'], .union (.cons (.list .int) (.cons .none .nil))), (['p'], .bool), (['w'], .list .int)]
    inferT [] Γ (.index (.var ['x']) (.int 0)) = .ok .int ∧ inferT [] Γ (.index (.var ['y']) (.int 0)) = .ok .int ∧
    inferT [] Γ (.listComp (.var ['z']) [['z']] (.var ['x']) .true_) = .ok (.list .int) ∧
    inferT [] Γ (.tern .none_ (.var ['p']) (.var ['w'])) = inferT [] Γ (.var ['x']) ∧
    inferT [] Γ (.index (.tern .none_ (.var ['p']) (.var ['w'])) (.int 0)) = .ok .int := by
  decide +kernel

/-! ## several base classes -/

/-- `Reflections.__resolve_raw_recursive` over several bases is DEPTH-first, left to right: whatever the first base reaches — itself or
    through its own bases — wins over anything a later base declares; only when the whole ancestry of the first base has nothing the
    search goes on with the next base. (`f` = the lookup of one member name in one class; `chainFrom` with the fuel `chainOf` gives it.)
    For tree-shaped hierarchies (no diamonds) this is the order of CPython's MRO. -/
theorem member_depth_first (ct : ClassTable) (fuel : Nat) (c b : Str) (rest : List Str) (d : ClassDecl) (f : Str → Option Member)
    (hc : findClass ct c = some d) (hb : d.bases = b :: rest) (hown : f c = none) :
    (∀ m, (chainFrom ct fuel b).findSome? f = some m → (chainFrom ct (fuel + 1) c).findSome? f = some m) ∧
    ((chainFrom ct fuel b).findSome? f = none →
      (chainFrom ct (fuel + 1) c).findSome? f = (rest.flatMap (fun x => chainFrom ct fuel x)).findSome? f) := by
  constructor
  · intro m hm
    simp only [chainFrom, hc, hb, List.findSome?_cons, hown, List.flatMap_cons, List.findSome?_append, hm, Option.some_or]
  · intro hn
    simp only [chainFrom, hc, hb, List.findSome?_cons, hown, List.flatMap_cons, List.findSome?_append, hn, Option.none_or]

/-- `class AB(A, B)`, `A(A0)` only inherits `x: int` / `name() -> int` from `A0`, `B` declares `x: str` / `name() -> str` itself:
    `ab.x : int`, `ab.name() : int` (a breadth-first search would answer `str`); `BA(B, A)` answers `str`; members only one side has are
    found on that side -/
example :
    let ct : ClassTable := [⟨['A', '0'], [], [⟨['x'], .field, .int⟩, ⟨['n'], .method, .int⟩]⟩, ⟨['A'], [['A', '0']], [⟨['a'], .method, .bool⟩]⟩,
      ⟨['B'], [], [⟨['x'], .field, .str⟩, ⟨['n'], .method, .str⟩, ⟨['b'], .method, .float⟩]⟩,
      ⟨['A', 'B'], [['A'], ['B']], []⟩, ⟨['B', 'A'], [['B'], ['A']], []⟩]
    let Γ : Env := [(['p'], .cls ['A', 'B'] .nil), (['q'], .cls ['B', 'A'] .nil)]
    chainOf ct ['A', 'B'] = [['A', 'B'], ['A'], ['A', '0'], ['B']] ∧
    inferT ct Γ (.attr (.var ['p']) ['x']) = .ok .int ∧ inferT ct Γ (.call (.var ['p']) ['n'] .nil) = .ok .int ∧
    inferT ct Γ (.attr (.var ['q']) ['x']) = .ok .str ∧ inferT ct Γ (.call (.var ['q']) ['n'] .nil) = .ok .str ∧
    inferT ct Γ (.call (.var ['p']) ['a'] .nil) = .ok .bool ∧ inferT ct Γ (.call (.var ['p']) ['b'] .nil) = .ok .float ∧
    wt ct Γ (.attr (.var ['p']) ['x']) = true := by
  decide +kernel

/-! ## lambda parameters -/

/-- What a declared callback type gives (`ResolveUnknown.resolve_lambda_param`): for `C = Callable[[A…], R]` the `i`-th parameter
    of a lambda is `A i` when the lambda is assigned under the annotation `C`, returned from a function declared `-> C`, or passed
    where the callee's parameter — of a function / closure (`calls`) or of a method / constructor (`sig`, `self` first) — is `C`,
    `C | None` or `None | C` (the optional is unwrapped, whichever side `None` stands on). -/
theorem lambda_param_callable (As : List Ty) (R : Ty) (i : Nat) (hi : i < As.length) (calls sig : Tys) (k : Nat) (p : Ty)
    (hp : p = callableTy As R ∨ p = .union (.cons (callableTy As R) (.cons .none .nil)) ∨
      p = .union (.cons .none (.cons (callableTy As R) .nil))) :
    lambdaParam (.annoAssign (callableTy As R)) i = .ok As[i] ∧
    lambdaParam (.ret (callableTy As R)) i = .ok As[i] ∧
    (calls.get? k = some p → lambdaParam (.argFunction calls k) i = .ok As[i]) ∧
    (sig.get? (k + 1) = some p → lambdaParam (.argMethod sig k) i = .ok As[i]) := by
  have hs : stripNullable p = callableTy As R := by
    obtain ⟨h1, h2⟩ := nullable_order_irrelevant (callableTy As R) (callable_not_None As R)
    rcases hp with rfl | rfl | rfl
    · rfl
    · exact h1
    · exact h2
  refine ⟨attrAt_callable As R hi, attrAt_callable As R hi, ?_, ?_⟩
  · intro h; simp only [lambdaParam, h, hs, attrAt_callable As R hi]
  · intro h; simp only [lambdaParam, h, hs, attrAt_callable As R hi]

/-- `run(n: int, cb: None | Callable[[int, str], float])`, `run(3, lambda a, b: …)`: `a : int`, `b : str`; a surplus third parameter
    is given the attribute that follows — the callback's RETURN type (CPython cannot call such a lambda with two arguments) —, a
    fourth one has no type (IndexError) -/
example :
    let C := callableTy [.int, .str] .float
    let calls : Tys := .cons .int (.cons (.union (.cons .none (.cons C .nil))) (.cons .float .nil))
    lamEnv (.argFunction calls 1) [['a'], ['b']] = .ok [(['a'], .int), (['b'], .str)] ∧
    lamEnv (.argFunction calls 1) [['a'], ['b'], ['c']] = .ok [(['a'], .int), (['b'], .str), (['c'], .float)] ∧
    lamEnv (.argFunction calls 1) [['a'], ['b'], ['c'], ['d']] = .error .indexErr ∧
    lamEnv (.argMethod (.cons (.cls ['B'] .nil) calls) 1) [['a']] = .ok [(['a'], .int)] := by
  decide +kernel

/-- `sound_lambda_param`: when the lambda is applied to values of the types its parameters were given (the callee's obligation for a
    callback declared `Callable[[A…], R]`; discharged for the immediate call by `sound_lambda_immediate`), the body runs in an
    environment that conforms to the one it is typed in, so the type inferred for the body denotes the value the lambda returns,
    and the lambda itself is typed `Callable<parameter types…, that type>` (`on_lambda`). -/
theorem sound_lambda_param {ct : ClassTable} {W : World} {Γ Γ' : Env} {ρ : VEnv} {ctx : LamCtx} {vars : List Str} {vs : List Val}
    {body : Expr} {v : Val} (hW : WorldConf ct W) (henv : EnvConf ct ρ Γ) (hΓ' : lamEnv ctx vars = .ok Γ')
    (hargs : ArgsConf ct vs Γ') (hcore : Core ct (Γ' ++ Γ) body) (hev : eval W (bindArgs Γ' vs ++ ρ) body = .ok v) :
    EnvConf ct (bindArgs Γ' vs ++ ρ) (Γ' ++ Γ) ∧
    ∃ T, lambdaBody ct Γ ctx vars body = .ok T ∧ Conf ct v T ∧
      lambdaType ct Γ ctx vars body = .ok (callableTy (Γ'.map (·.2)) T) := by
  have henv' := hargs.envConf henv
  obtain ⟨T, hT, hc⟩ := sound_conf hW hcore henv' hev
  have hTT : inferT ct (Γ' ++ Γ) body = .ok T := by unfold inferT; rw [hT false]
  refine ⟨henv', T, ?_, hc, ?_⟩
  · simp only [lambdaBody, hΓ', hTT]
  · simp only [lambdaType, hΓ', hTT, callableTy]

/-- `sound_lambda_immediate`: `(lambda x…: body)(args…)` needs no assumption about any callee — the parameters are typed by the
    inferred types of the arguments, the argument values conform to them (`sound_conf`), hence the body's inferred type denotes the
    value of the whole call. -/
theorem sound_lambda_immediate {ct : ClassTable} {W : World} {Γ : Env} {ρ : VEnv} {vars : List Str} {args : List Expr}
    {Ts : List Ty} {vs : List Val} (hW : WorldConf ct W) (henv : EnvConf ct ρ Γ) (hargs : ArgsEval ct W Γ ρ args Ts vs)
    (hlen : vars.length = args.length) :
    ∃ Γ', lamEnv (.immediate Ts) vars = .ok Γ' ∧ Γ'.map (·.2) = Ts ∧ ArgsConf ct vs Γ' ∧
      ∀ body v, Core ct (Γ' ++ Γ) body → eval W (bindArgs Γ' vs ++ ρ) body = .ok v →
        ∃ T, lambdaBody ct Γ (.immediate Ts) vars body = .ok T ∧ Conf ct v T := by
  obtain ⟨hl1, _⟩ := hargs.length
  obtain ⟨Γ', h1, h2, _⟩ := lamEnvFrom_immediate Ts vars 0 (by omega)
  have h2' : Γ'.map (·.2) = Ts := by
    rw [h2, List.drop_zero, List.take_of_length_le (by omega)]
  have hconf : ArgsConf ct vs Γ' := argsConf_of_each (by rw [h2']; exact hargs.conf hW henv)
  refine ⟨Γ', h1, h2', hconf, ?_⟩
  intro body v hcore hev
  obtain ⟨_, T, hb, hc, _⟩ := sound_lambda_param hW henv h1 hconf hcore hev
  exact ⟨T, hb, hc⟩

/-- non-vacuity: `(lambda i, t: t * (i + 1))(2, s)` with `s = 'ab'`: the parameters are `int`, `str`, the call is a `str` -/
example :
    let Γ : Env := [(['s'], .str)]
    let body : Expr := .bin (.var ['t']) (.cons .mul (.group (.bin (.var ['i']) (.cons .add (.int 1) .nil))) .nil)
    lamEnv (.immediate [.int, .str]) [['i'], ['t']] = .ok [(['i'], .int), (['t'], .str)] ∧
    lambdaBody [] Γ (.immediate [.int, .str]) [['i'], ['t']] body = .ok .str ∧
    lambdaType [] Γ (.immediate [.int, .str]) [['i'], ['t']] body = .ok (callableTy [.int, .str] .str) ∧
    wt [] [(['i'], .int), (['t'], .str), (['s'], .str)] body = true ∧
    (eval World.none (bindArgs [(['i'], .int), (['t'], .str)] [.int 2, .str ['a', 'b']] ++ [(['s'], .str ['a', 'b'])]) body).map typeOf
      = .ok .str := by
  decide +kernel

/-! ## binary operators on instances of user classes (Tranp/Model/InferOps.lean) -/

/-- `each_binary_operator` asks the LEFT operand first and keeps its answer: whatever the right operand's class declares for the
    operator never changes the type once the receiver's attempt succeeds (the swapped attempt is a fallback only). -/
theorem user_operator_left_decides {ct : ClassTable} {ps : OpParams} {l r t : Ty} {op : BOp}
    (h : tryOpAny ct ps l op r = some t) : tryStepAny ct ps l op r = some t := by
  simp only [tryStepAny, h]

/-- THE sentence for operators on user classes: `x op y` with `x` an instance of the user class `lc` whose operator method (found
    through the chain) takes the class `pc`, and `y` an instance of `pc` or of any descendant of `pc`, is typed by the declared
    result of the method CPython calls — `type(x).<dunder>` (`pyUserOpTy`). -/
def user_operator_statement : Prop :=
  ∀ (ct : ClassTable) (ps : OpParams) (lc rc pc d : Str) (op : BOp) (m : Member) (p : Ty),
    (findClass ct lc).isSome = true → lookup op.token Dunder.operators = some d → memberOf ct lc d = some m → m.callable = true →
    userOpParam ct ps lc d = some p → (paramAlts p).contains (.cls pc .nil) = true → subclassOf ct rc pc = true →
    tryStepAny ct ps (.cls lc .nil) op (.cls rc .nil) = pyUserOpTy ct lc op

/-- The part that holds on the code: the operand's class is the parameter class or has it among the classes `try_operation` looks
    at (traits.py:211-223; `operandCandidates`: the DIRECT bases as the source reads today). The operand's own declarations of the
    operator are irrelevant. -/
theorem user_operator_partial {ct : ClassTable} {ps : OpParams} {lc rc pc d : Str} {op : BOp} {m : Member} {p : Ty}
    (hl : (findClass ct lc).isSome = true) (hd : lookup op.token Dunder.operators = some d) (hm : memberOf ct lc d = some m)
    (hk : m.callable = true) (hp : userOpParam ct ps lc d = some p) (hpc : (paramAlts p).contains (.cls pc .nil) = true)
    (hr : rc = pc ∨ pc ∈ operandCandidates ct rc) :
    tryStepAny ct ps (.cls lc .nil) op (.cls rc .nil) = pyUserOpTy ct lc op := by
  have hpy : pyUserOpTy ct lc op = some m.ty := by simp [pyUserOpTy, hd, hm, hk]
  rw [hpy]
  apply user_operator_left_decides
  simp only [tryOpAny, hl, if_true, tryOpUser, hd, hm, hk, Bool.not_true, Bool.false_eq_true, if_false, hp]
  by_cases hs : op.selects = true
  · simp only [hs, Bool.not_true, Bool.false_eq_true, if_false]
    by_cases hc : (paramAlts p).contains (.cls rc .nil) = true
    · rw [if_pos hc]
    · rw [if_neg hc]
      rcases hr with rfl | hb
      · exact absurd hpc hc
      · have hany : (operandCandidates ct rc).any (fun b => (paramAlts p).contains (.cls b .nil)) = true :=
          List.any_eq_true.mpr ⟨pc, hb, hpc⟩
        rw [if_pos hany]
  · have hs' : op.selects = false := by simpa using hs
    simp only [hs', Bool.not_false, if_true]

/-- `sound_user_operator`: the property sentence for `x op y` on instances of user classes, at the level of VALUES: under the
    hypotheses of `user_operator_partial`, whatever CPython's call `type(x).<dunder>(x, y)` returns is denoted by the inferred type
    (`WorldConf`: a method returns a value of its declared type, also when an override of a subclass of `lc` runs). -/
theorem sound_user_operator {ct : ClassTable} {W : World} {ps : OpParams} {lc rc pc d : Str} {op : BOp} {m : Member} {p : Ty} {x y v : Val}
    (hW : WorldConf ct W) (hx : Conf ct x (.cls lc .nil)) (_hy : Conf ct y (.cls rc .nil))
    (hl : (findClass ct lc).isSome = true) (hd : lookup op.token Dunder.operators = some d) (hm : memberOf ct lc d = some m)
    (hk : m.kind = .method) (hp : userOpParam ct ps lc d = some p) (hpc : (paramAlts p).contains (.cls pc .nil) = true)
    (hr : rc = pc ∨ pc ∈ operandCandidates ct rc) (hev : evalUserOp W x op y = .ok v) :
    ∃ T, tryStepAny ct ps (.cls lc .nil) op (.cls rc .nil) = some T ∧ Conf ct v T := by
  have hc : m.callable = true := by simp [Member.callable, hk]
  refine ⟨m.ty, ?_, ?_⟩
  · rw [user_operator_partial hl hd hm hc hp hpc hr]
    simp [pyUserOpTy, hd, hm, hc]
  · simp only [evalUserOp, hd] at hev
    exact hW.call_ok x lc d [y] m v hx hm (Or.inl hk) hev

/-- non-vacuity of `sound_user_operator` — and of `WorldConf` over a NON-EMPTY class table (an override, a two-level descendant): the
    world `opWorld` of the witness classes satisfies it (Lemmas/InferOps.lean `opWorld_conf`), `nu + bg` evaluates there to a `Num`
    instance, and the operands conform to their classes -/
example : WorldConf opWitness.1 opWorld ∧
    evalUserOp opWorld (.obj ['N', 'u', 'm'] [] []) .add (.obj ['B', 'i', 'g'] [] []) = .ok (.obj ['N', 'u', 'm'] [] []) ∧
    Conf opWitness.1 (.obj ['N', 'u', 'm'] [] []) (.cls ['N', 'u', 'm'] .nil) ∧
    Conf opWitness.1 (.obj ['B', 'i', 'g'] [] []) (.cls ['B', 'i', 'g'] .nil) ∧
    Conf opWitness.1 (.obj ['B', 'i', 'g', '2'] [] []) (.cls ['N', 'u', 'm'] .nil) :=
  ⟨opWorld_conf, by rfl, opWitness_obj (by decide +kernel), opWitness_obj (by decide +kernel), opWitness_obj (by decide +kernel)⟩

/-- non-vacuity of `user_operator_partial`: `nu + bg` (one level) is typed `Num`, like CPython's `Num.__add__(nu, bg)` -/
example : tryStepAny opWitness.1 opWitness.2 (.cls ['N', 'u', 'm'] .nil) .add (.cls ['B', 'i', 'g'] .nil) = some (.cls ['N', 'u', 'm'] .nil) ∧
    pyUserOpTy opWitness.1 ['N', 'u', 'm'] .add = some (.cls ['N', 'u', 'm'] .nil) ∧
    ['N', 'u', 'm'] ∈ operandCandidates opWitness.1 ['B', 'i', 'g'] := by decide +kernel

/-- Known finding operator-operand-indirect-subclass: while `try_operation` compares the operand's DIRECT bases only (the shape the
    translator reads from the source: `InferShape.operandBasesDirect`), the full sentence is false on the code — for an operand TWO
    levels below the parameter class (`nu + b2`, `Big2(Big(Num))`) the receiver gives up and the swapped attempt answers the
    operand's own method: `Big`, where CPython computes a `Num`. (Replayed on the real code from the corpus witness.) -/
theorem user_operator_counterexample : InferShape.operandBasesDirect = true → ¬ user_operator_statement := by
  intro hflag h
  have := h opWitness.1 opWitness.2 ['N', 'u', 'm'] ['B', 'i', 'g', '2'] ['N', 'u', 'm'] ['_', '_', 'a', 'd', 'd', '_', '_'] .add
    ⟨['_', '_', 'a', 'd', 'd', '_', '_'], .method, .cls ['N', 'u', 'm'] .nil⟩ (.cls ['N', 'u', 'm'] .nil)
    (by decide +kernel) (by decide +kernel) (by decide +kernel) (by decide +kernel) (by decide +kernel) (by decide +kernel) (by decide +kernel)
  have hne : InferShape.operandBasesDirect = true →
      tryStepAny opWitness.1 opWitness.2 (.cls ['N', 'u', 'm'] .nil) .add (.cls ['B', 'i', 'g', '2'] .nil) ≠ pyUserOpTy opWitness.1 ['N', 'u', 'm'] .add := by
    decide +kernel
  exact hne hflag this

/-- with the repair applied to the source (the translator then reads `operandBasesDirect = false`: all ancestors) the model of the
    code itself satisfies the full sentence -/
theorem user_operator_full_when_repaired (hflag : InferShape.operandBasesDirect = false) : user_operator_statement := by
  intro ct ps lc rc pc d op m p hl hd hm hk hp hpc hr
  by_cases hrc : rc = pc
  · exact user_operator_partial hl hd hm hk hp hpc (Or.inl hrc)
  · refine user_operator_partial hl hd hm hk hp hpc (Or.inr ?_)
    have hmem : pc ∈ chainOf ct rc := by simpa [subclassOf] using hr
    simp only [operandCandidates, hflag, Bool.false_eq_true, if_false]
    -- the chain of `rc` starts with `rc` itself (or is empty): `pc ≠ rc` lies in its tail
    unfold chainOf at hmem ⊢
    unfold chainFrom at hmem ⊢
    split at hmem
    · simp at hmem
    · rename_i dcl _
      simp only [List.mem_cons] at hmem
      rcases hmem with h | h
      · exact absurd h.symm hrc
      · simpa using h

/-- the full sentence holds on the model of the REPAIRED `try_operation` (proposed/C03-operator-operand-indirect-subclass.diff: the
    operand's whole ancestry is compared with the parameter class): an operand of ANY descendant class is accepted by the left
    operand's method -/
theorem user_operator_repaired {ct : ClassTable} {ps : OpParams} {lc rc pc d : Str} {op : BOp} {m : Member} {p : Ty}
    (hl : (findClass ct lc).isSome = true) (hd : lookup op.token Dunder.operators = some d) (hm : memberOf ct lc d = some m)
    (hk : m.callable = true) (hp : userOpParam ct ps lc d = some p) (hpc : (paramAlts p).contains (.cls pc .nil) = true)
    (hr : subclassOf ct rc pc = true) :
    tryStepAnyRepaired ct ps (.cls lc .nil) op (.cls rc .nil) = pyUserOpTy ct lc op := by
  have hpy : pyUserOpTy ct lc op = some m.ty := by simp [pyUserOpTy, hd, hm, hk]
  rw [hpy]
  have hleft : tryOpAnyRepaired ct ps (.cls lc .nil) op (.cls rc .nil) = some m.ty := by
    simp only [tryOpAnyRepaired, hl, if_true, tryOpUserRepaired, hd, hm, hk, Bool.not_true, Bool.false_eq_true, if_false, hp]
    by_cases hs : op.selects = true
    · simp only [hs, Bool.not_true, Bool.false_eq_true, if_false]
      by_cases hc : (paramAlts p).contains (.cls rc .nil) = true
      · rw [if_pos hc]
      · rw [if_neg hc]
        have hmem : pc ∈ chainOf ct rc := by simpa [subclassOf] using hr
        have hany : (chainOf ct rc).any (fun b => (paramAlts p).contains (.cls b .nil)) = true :=
          List.any_eq_true.mpr ⟨pc, hmem, hpc⟩
        rw [if_pos hany]
    · have hs' : op.selects = false := by simpa using hs
      simp only [hs', Bool.not_false, if_true]
  simp only [tryStepAnyRepaired, hleft]

/-- non-vacuity, on the witness table: the repaired step types `nu + b2` as `Num` -/
example : tryStepAnyRepaired opWitness.1 opWitness.2 (.cls ['N', 'u', 'm'] .nil) .add (.cls ['B', 'i', 'g', '2'] .nil) = some (.cls ['N', 'u', 'm'] .nil) ∧
    subclassOf opWitness.1 ['B', 'i', 'g', '2'] ['N', 'u', 'm'] = true := by decide +kernel

/-- one step under the decidable hypotheses -/
theorem user_operator_step {ct : ClassTable} {ps : OpParams} {lc rc : Str} {op : BOp} (h : directOk ct ps lc op rc = true) :
    tryStepAny ct ps (.cls lc .nil) op (.cls rc .nil) = pyUserOpTy ct lc op ∧ (pyUserOpTy ct lc op).isSome = true := by
  unfold directOk at h
  simp only [Bool.and_eq_true] at h
  obtain ⟨hl, h⟩ := h
  split at h
  · exact absurd h (by simp)
  · rename_i d hd
    split at h
    · exact absurd h (by simp)
    · rename_i m hm
      simp only [Bool.and_eq_true] at h
      obtain ⟨hk, h⟩ := h
      split at h
      · exact absurd h (by simp)
      · rename_i p hp
        have hpy : pyUserOpTy ct lc op = some m.ty := by simp [pyUserOpTy, hd, hm, hk]
        refine ⟨?_, by rw [hpy]; rfl⟩
        rw [hpy]
        apply user_operator_left_decides
        simp only [tryOpAny, hl, if_true, tryOpUser, hd, hm, hk, Bool.not_true, Bool.false_eq_true, if_false, hp]
        by_cases hs : op.selects = true
        · simp only [hs, Bool.not_true, Bool.false_eq_true, if_false]
          by_cases hc : (paramAlts p).contains (.cls rc .nil) = true
          · rw [if_pos hc]
          · rw [if_neg hc]
            have hany : (operandCandidates ct rc).any (fun b => (paramAlts p).contains (.cls b .nil)) = true := by
              rcases Bool.or_eq_true _ _ |>.mp h with h1 | h2
              · exact absurd h1 hc
              · exact h2
            rw [if_pos hany]
        · have hs' : op.selects = false := by simpa using hs
          simp only [hs', Bool.not_false, if_true]

/-- `user_chain_type`: a flat chain `x op1 y op2 z …` over instances of user classes, every step within `directOk`, is typed
    (each_binary_operator, left to right, each step with the previous RESULT as the receiver) as CPython's left-nested evaluation
    dispatches it. -/
theorem user_chain_type {ct : ClassTable} {ps : OpParams} : ∀ (steps : List (BOp × Ty)) (l : Ty), chainDirect ct ps l steps = true →
    ∃ t, pyUserChainTy ct l steps = some t ∧ foldBinAny ct ps l steps = .ok t := by
  intro steps
  induction steps with
  | nil => intro l _; exact ⟨l, rfl, rfl⟩
  | cons st rest ih =>
    intro l h
    obtain ⟨op, r⟩ := st
    unfold chainDirect at h
    split at h
    · exact absurd (by assumption : (op, r) :: rest = []) (by simp)
    · rename_i lc op' rc rest' heq
      cases heq
      simp only [Bool.and_eq_true] at h
      obtain ⟨hd, h⟩ := h
      obtain ⟨hstep, _⟩ := user_operator_step hd
      cases hpy : pyUserOpTy ct lc op with
      | none => rw [hpy] at h; exact absurd h (by simp)
      | some t =>
        rw [hpy] at h
        obtain ⟨t', h1, h2⟩ := ih t h
        refine ⟨t', ?_, ?_⟩
        · simp only [pyUserChainTy, hpy, h1]
        · simp only [foldBinAny, hstep, hpy, h2]
    · exact absurd h (by simp)

/-- non-vacuity: `bg + nu + bg` on the witness table: `Big.__add__` answers `Big`, twice -/
example : chainDirect opWitness.1 opWitness.2 (.cls ['B', 'i', 'g'] .nil) [(.add, .cls ['N', 'u', 'm'] .nil), (.add, .cls ['B', 'i', 'g'] .nil)] = true ∧
    foldBinAny opWitness.1 opWitness.2 (.cls ['B', 'i', 'g'] .nil) [(.add, .cls ['N', 'u', 'm'] .nil), (.add, .cls ['B', 'i', 'g'] .nil)] = .ok (.cls ['B', 'i', 'g'] .nil) := by
  decide +kernel

/-! ## attributes of user generic classes (Model/InferOps.lean `propOf` = templates.Class.prop over the TemplateManipulator port) -/

/-- THE sentence for an attribute of a generic class read on an instance: the declared type with every class type variable, at any
    depth, replaced by the receiver's argument for it — for every declared type and every receiver -/
def generic_attr_statement : Prop :=
  ∀ (c : Str) (d k v : Ty), propOf d (.cls c (.cons (.tvar ['T', 'K']) (.cons (.tvar ['T', 'V']) .nil))) (.cls c (.cons k (.cons v .nil))) =
    substTy [(['T', 'K'], k), (['T', 'V'], v)] d

/-- proved for the declared types and type arguments the generators build (nine shapes with the variables up to three levels deep ×
    five × five arguments, by evaluation of the step-by-step port of TemplateManipulator); the general statement needs the
    correctness of the path matching for arbitrary nesting, which is proved for `list[T].pop` only (`template`) -/
theorem generic_attr_partial : ∀ d ∈ deepForms, ∀ k ∈ deepArgs, ∀ v ∈ deepArgs,
    propOf d (.cls ['X'] (.cons (.tvar ['T', 'K']) (.cons (.tvar ['T', 'V']) .nil))) (.cls ['X'] (.cons k (.cons v .nil))) =
      substTy [(['T', 'K'], k), (['T', 'V'], v)] d := by
  decide +kernel

/-- non-vacuity / the round-7 class of change: two receivers with different arguments get different answers for the same declaration
    (`propOf` is a function of its arguments only: no answer can depend on an earlier one) -/
example : propOf (.dict (.tvar ['T', 'K']) (.list (.tvar ['T', 'V']))) (.cls ['X'] (.cons (.tvar ['T', 'K']) (.cons (.tvar ['T', 'V']) .nil)))
      (.cls ['X'] (.cons .str (.cons .float .nil))) = .dict .str (.list .float) ∧
    propOf (.dict (.tvar ['T', 'K']) (.list (.tvar ['T', 'V']))) (.cls ['X'] (.cons (.tvar ['T', 'K']) (.cons (.tvar ['T', 'V']) .nil)))
      (.cls ['X'] (.cons .int (.cons .str .nil))) = .dict .int (.list .str) := by decide +kernel

/-! ## spread items -/

/-- `on_spread` answers the first type argument; for the sources whose items ARE described by their first type argument — a list,
    a dict (its keys), an `Iterator<T>` (keys(), values(), range, reversed, enumerate) — this is what `iterates` answers for a
    `for` loop over the same source, for EVERY element type; with `sound_iter` the spread items conform to it. -/
theorem spread_items {ct : ClassTable} (hl : findClass ct s_list = Option.none) (hd : findClass ct s_dict = Option.none) (t k v : Ty) :
    onSpread (.list t) = iterates ct (.list t) ∧ onSpread (.dict k v) = iterates ct (.dict k v) ∧
    ((∀ a rest, t ≠ .cls s_Iterator (.cons a rest)) → onSpread (tIter t) = iterates ct (tIter t)) := by
  obtain ⟨h1, h2, h3, _⟩ := iter_type hl hd t k v
  refine ⟨by rw [h1]; rfl, by rw [h2]; rfl, fun hn => by rw [h3 hn]; rfl⟩

/-- the items CPython spreads conform to the type `on_spread` answers whenever it coincides with the loop-variable type -/
theorem sound_spread {ct : ClassTable} {W : World} {tsrc elem : Ty} {v : Val} {items : List Val} (hW : WorldConf ct W)
    (hv : Conf ct v tsrc) (hs : onSpread tsrc = .ok elem) (hit : iterates ct tsrc = onSpread tsrc) (hpy : pyIterTy ct tsrc = some elem)
    (hitems : iterItemsW W v = .ok items) : ∀ x ∈ items, Conf ct x elem :=
  sound_iter hW hv (hit.trans hs) hpy hitems

/-- non-vacuity: `[*d]` for `d: dict[str, float]` spreads `str` items -/
example : onSpread (.dict .str .float) = .ok .str ∧ iterates [] (.dict .str .float) = .ok .str ∧ pyIterTy [] (.dict .str .float) = some .str ∧
    iterItemsW World.none (.dict [.str ['a']] [.float 1.5]) = .ok [.str ['a']] := by
  refine ⟨rfl, (iter_type (ct := []) rfl rfl .int .str .float).2.1, rfl, rfl⟩

/-- Known finding spread-first-type-argument: for a heterogeneous tuple the first type argument does not describe the items:
    `[*t]` with `t = (1, 'a') : tuple[int, str]` is answered `int`, CPython spreads a `str` too. -/
theorem spread_tuple_counterexample :
    ¬ (∀ (t elem : Ty) (v : Val) (items : List Val), Conf [] v t → onSpread t = .ok elem → iterItemsW World.none v = .ok items →
        ∀ x ∈ items, Conf [] x elem) := by
  intro h
  have hc : Conf [] (.tuple [.int 1, .str ['a']]) (.tuple (.cons .int (.cons .str .nil))) :=
    .tuple (.cons (.int 1) (.cons (.str ['a']) .nil))
  have := h _ .int _ [.int 1, .str ['a']] hc rfl rfl (.str ['a']) (by simp)
  cases this

/-! ## the constants of the handlers, read from the source on every run (Tranp/Generated/InferShape.lean) -/

/-- `BOp.arith` is `Operations.arthmetical` and `BOp.selects` the operators for which `try_operation` checks the parameter: exactly
    the literal lists of accessible.py / traits.py, for every operator token. (The translator also pins the statement sequence of
    `try_operation` and `each_binary_operator`: another shape is a TranslateError.) -/
theorem shape_operators : ∀ op : BOp, op.arith = InferShape.arithTokens.contains op.token ∧
    op.selects = (InferShape.arithTokens ++ InferShape.selectTokens).contains op.token := by
  intro op
  cases op <;> decide

/-- the positions the handlers read from `attrs` are the ones the model uses: `on_spread` the first type argument, `on_indexer` the
    first for a list element and the second for a dict value, `iterates` the first of `Iterator<T>` -/
theorem shape_attr_indexes :
    lookup ['o', 'n', '_', 's', 'p', 'r', 'e', 'a', 'd'] InferShape.attrIndexes = some [0] ∧
    lookup ['o', 'n', '_', 'i', 'n', 'd', 'e', 'x', 'e', 'r'] InferShape.attrIndexes = some [0, 1] ∧
    lookup ['o', 'n', '_', 'd', 'i', 'c', 't'] InferShape.attrIndexes = some [1] ∧ InferShape.attrIndexes.length = 3 ∧
    InferShape.iteratesIndex = 0 ∧ InferShape.receiverFirst = true ∧
    (∀ t : Ty, onSpread t = match t.attrs.get? 0 with | some a => .ok a | none => .error .fatal) ∧
    (∀ (t : Ty) (k : Expr), (onIndex (.list t) k).toOption = (Ty.list t).attrs.get? 0) ∧
    (∀ (a b : Ty) (k : Expr), (onIndex (.dict a b) k).toOption = (Ty.dict a b).attrs.get? 1) := by
  refine ⟨by decide, by decide, by decide, by decide, by decide, by decide, ?_, fun _ _ => rfl, fun _ _ _ => rfl⟩
  intro t
  unfold onSpread
  cases h : t.attrs <;> rfl

/-- every handler `on_…` that ProceduralResolver defines today (list generated from the source on every run) is accounted for: it has
    an arm of `infer`, is modelled beside it, or is listed as outside the Lean model — and the three lists name nothing else. A handler
    added, removed or renamed in reflections.py makes this theorem fail until the model's coverage is restated. -/
theorem handlers_accounted :
    (∀ h ∈ InferShape.handlers, h ∈ handlersInInfer ∨ h ∈ handlersBeside ∨ h ∈ handlersOutside) ∧
    (∀ h ∈ handlersInInfer ++ handlersBeside ++ handlersOutside, h ∈ InferShape.handlers) ∧
    (handlersInInfer ++ handlersBeside ++ handlersOutside).Nodup ∧
    InferShape.handlers.length = 68 ∧ handlersInInfer.length = 32 ∧ handlersOutside.length = 34 := by
  decide +kernel

end Tranp.C03
