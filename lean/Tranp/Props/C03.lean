/-
  Property C03 — Inferred static types equal the types values have at run time.
  Property theorems only; definitions: Tranp/Model/{Ty,Infer,PyEval,InferSpec}.lean, helper lemmas: Tranp/Lemmas/Infer.lean.

  Vocabulary (Tranp/Model/InferSpec.lean): `Conf v T` = the inferred type `T` denotes the run-time value `v`;
  `Core Γ e` = the expression subset the property's sentence covers; `WellTyped Γ e` = Core minus the three places where
  the code is known to disagree with CPython (unary operator on bool, `bool &,| int`, slice of a tuple);
  `infer Γ e s` threads the session state `s` ("the library's Union symbol already carries attributes").
-/
import Tranp.Lemmas.Infer

namespace Tranp.C03
open Tranp Tranp.Infer Tranp.Generated

/-! ## the generated stub table agrees with CPython -/

/-- Every scalar binary-operator row `(class, dunder, argument type) ↦ return type` of the table generated from
    compatible/libralies/classes.py states CPython's result type: whenever CPython evaluates the operator on operands of the
    row's types, the result has the row's return type. -/
theorem dunder : ∀ row ∈ dunderRows, ∀ (x y v : Val),
    typeOf x = row.1 → typeOf y = row.2.2.1 → evalBin row.2.1 x y = .ok v → typeOf v = row.2.2.2 := by
  intro row hrow x y v hx hy hev
  have htab : ∀ r ∈ dunderRows, pyBinTy r.2.1 r.1 r.2.2.1 = some r.2.2.2 ∧ r.1 ∈ scalarTys ∧ r.2.2.1 ∈ scalarTys ∧ r.2.2.2 ∈ scalarTys := by
    decide +kernel
  obtain ⟨hpy, hl, hr, hret⟩ := htab row hrow
  have hcx : Conf x row.1 := conf_of_typeOf_scalar hl hx
  have hcy : Conf y row.2.2.1 := conf_of_typeOf_scalar hr hy
  exact typeOf_of_conf_scalar hret (evalBin_conf hcx hcy hpy hev)

/-- non-vacuity: the table has 56 scalar rows, e.g. `int / bool ↦ float`, and CPython does evaluate such operands -/
example : dunderRows.length = 56 ∧ (Ty.int, BOp.div, Ty.bool, Ty.float) ∈ dunderRows ∧
    (evalBin .mod (.int 7) (.bool true)).map typeOf = .ok .int := by decide +kernel

/-- The `__neg__` / `__pos__` rows state CPython's result type. -/
theorem dunder_unary : ∀ row ∈ unaryRows, ∀ (x v : Val), typeOf x = row.1 → evalFactor row.2.1 x = .ok v → typeOf v = row.2.2 := by
  intro row hrow x v hx hev
  have htab : ∀ r ∈ unaryRows, (r.1 = .int ∨ r.1 = .float) ∧ r.2.2 = r.1 ∧ r.2.1 ≠ .inv := by decide +kernel
  obtain ⟨hl, hret, hop⟩ := htab row hrow
  rw [hret]
  have hcx : Conf x row.1 := conf_of_typeOf_scalar (by rcases hl with h | h <;> rw [h] <;> decide) hx
  have hok : factorOk true row.2.1 row.1 = true := by
    rcases hl with h | h <;> simp [factorOk, h, hop]
  exact typeOf_of_conf_scalar (by rcases hl with h | h <;> rw [h] <;> decide) (evalFactor_conf hcx hok hev)

example : unaryRows.length = 4 ∧ (evalFactor .neg (.int 3)).map typeOf = .ok .int := by decide +kernel

/-- On scalar operands, one step of `each_binary_operator` over the generated table either gives CPython's result type
    or is one of `bool & int`, `bool | int` (typed `bool`, CPython: `int`): there is no other scalar disagreement. -/
theorem step_agreement : ∀ l ∈ scalarTys, ∀ r ∈ scalarTys, ∀ op ∈ binOps, ∀ t, tryStep l op r = some t →
    pyBinTy op l r = some t ∨ boolBitInt l op r = true ∨ pyBinTy op l r = none := by
  decide +kernel

example : tryStep .int .add .float = some .float ∧ tryStep .bool .bor .int = some .bool ∧ pyBinTy .bor .bool .int = some .int := by
  decide +kernel

/-! ## soundness -/

/-- The property's sentence on the model: on Core, the inferred type denotes the run-time value. -/
def sound_statement : Prop :=
  ∀ (Γ : Env) (ρ : VEnv) (e : Expr) (v : Val), Core Γ e → EnvConf ρ Γ → eval ρ e = .ok v →
    ∃ T, inferT Γ e = .ok T ∧ Conf v T

/-- `on_factor` returns the operand's type (reflections.py:593-594): `-True` is typed `bool`, CPython computes the `int` -1. -/
theorem sound_counterexample : ¬ sound_statement := by
  intro h
  obtain ⟨T, hT, hc⟩ := h [] [] (.factor .neg .true_) (.int (-1)) (by decide) (by intro x T hx; simp [lookup] at hx) (by rfl)
  have : T = .bool := by
    have : inferT [] (.factor .neg .true_) = .ok .bool := by decide
    rw [this] at hT; cases hT; rfl
  subst this
  cases hc

/-- The same failure for `bool | int` (non-arithmetic operators skip the parameter check, traits.py:193-195). -/
theorem sound_counterexample_bool_or_int : ∃ (Γ : Env) (ρ : VEnv) (e : Expr) (v : Val),
    Core Γ e ∧ EnvConf ρ Γ ∧ eval ρ e = .ok v ∧ inferT Γ e = .ok .bool ∧ typeOf v = .int :=
  ⟨[], [], .bin .true_ (.cons .bor (.int 2) .nil), .int 3, by decide +kernel, by intro x T hx; simp [lookup] at hx,
    by rfl, by decide +kernel, rfl⟩

/-- …and for a slice of a tuple, which keeps the receiver's type (reflections.py:461-462). -/
theorem sound_counterexample_tuple_slice : ∃ (Γ : Env) (ρ : VEnv) (e : Expr) (v : Val),
    Core Γ e ∧ EnvConf ρ Γ ∧ eval ρ e = .ok v ∧
    inferT Γ e = .ok (.tuple (.cons .int (.cons .str .nil))) ∧ typeOf v = .tuple (.cons .int .nil) := by
  refine ⟨[(['t'], .tuple (.cons .int (.cons .str .nil)))], [(['t'], .tuple [.int 1, .str ['a']])],
    .slice (.var ['t']) (.int 0) (.int 1), .tuple [.int 1], by decide +kernel, ?_, by rfl, by decide +kernel, rfl⟩
  intro x T hx
  simp only [lookup] at hx ⊢
  split at hx
  · cases hx
    rename_i hxt; subst hxt
    exact ⟨.tuple [.int 1, .str ['a']], by simp, .tuple (.cons (.int 1) (.cons (.str ['a']) .nil))⟩
  · cases hx

/-- On the agreement subset: inference succeeds from every session state, leaves the state untouched, and the inferred type
    denotes the value CPython computes (unbounded: induction over expressions, lists, operator chains, dict items). -/
theorem sound_partial {Γ : Env} {ρ : VEnv} {e : Expr} {v : Val}
    (hwt : WellTyped Γ e) (henv : EnvConf ρ Γ) (hev : eval ρ e = .ok v) :
    ∃ T, (∀ s, infer Γ e s = (.ok T, s)) ∧ Conf v T := by
  obtain ⟨T, hT⟩ := infer_ok true e Γ hwt
  exact ⟨T, hT, sound_expr e Γ ρ T v hwt henv hT hev⟩

/-- `C03.sound`: on the agreement subset, for a value whose run-time type is determined and a plain inferred type
    (no Union, no iterator class), the inferred type EQUALS the run-time type. -/
theorem sound {Γ : Env} {ρ : VEnv} {e : Expr} {v : Val} {T : Ty}
    (hwt : WellTyped Γ e) (henv : EnvConf ρ Γ) (hev : eval ρ e = .ok v) (hdet : DetV v)
    (hT : inferT Γ e = .ok T) (hplain : T.plain = true) : inferT Γ e = .ok (typeOf v) := by
  obtain ⟨T', hT', hc⟩ := sound_partial hwt henv hev
  have : T' = T := by
    have h1 : inferT Γ e = .ok T' := by unfold inferT; rw [hT' false]
    rw [h1] at hT; cases hT; rfl
  subst this
  rw [hT, conf_typeOf hc hplain hdet]

/-- non-vacuity: `[x * 2 for x in xs if x > 1]` with `xs = [1, 2, 3]` is in the agreement subset, evaluates to `[4, 6]`,
    whose run-time type `list<int>` is determined and equals the inferred one -/
example :
    let Γ : Env := [(['x', 's'], .list .int)]
    let ρ : VEnv := [(['x', 's'], .list [.int 1, .int 2, .int 3])]
    let e : Expr := .listComp (.bin (.var ['x']) (.cons .mul (.int 2) .nil)) [['x']] (.var ['x', 's'])
      (.cmp (.var ['x']) (.cons .gt (.int 1) .nil))
    wt true Γ e = true ∧ (eval ρ e).map typeOf = .ok (.list .int) ∧ inferT Γ e = .ok (.list .int) := by
  decide +kernel

/-- non-vacuity of the denotation form on an optional: `o if p else a` with `o : int | None` -/
example :
    let Γ : Env := [(['o'], .union (.cons .int (.cons .none .nil))), (['a'], .int), (['p'], .bool)]
    let e : Expr := .tern (.var ['o']) (.var ['p']) (.var ['a'])
    wt true Γ e = true ∧
      inferT Γ e = .ok (.union (.cons (.union (.cons .int (.cons .none .nil))) (.cons .int .nil))) := by
  decide +kernel

/-! ## totality -/

/-- Inference is total on Core: it succeeds from every session state and the inferred type contains no `Unknown`
    (for an environment whose declared types contain none). -/
theorem total {Γ : Env} {e : Expr} (hcore : Core Γ e) (hΓ : EnvNoUnknown Γ) :
    ∃ T, (∀ s, infer Γ e s = (.ok T, s)) ∧ T.noUnknown = true := by
  obtain ⟨T, hT⟩ := infer_ok false e Γ hcore
  exact ⟨T, hT, infer_noUnknown false e Γ T hcore hΓ hT⟩

/-- the agreement subset is part of Core -/
theorem wellTyped_core {Γ : Env} {e : Expr} (h : WellTyped Γ e) : Core Γ e := wt_mono e Γ h

example : Core [] (.dict (.cons (.str ['k']) (.list (.cons (.int 1) .nil)) .nil)) ∧
    inferT [] (.dict (.cons (.str ['k']) (.list (.cons (.int 1) .nil)) .nil)) = .ok (.dict .str (.list .int)) := by
  decide +kernel

/-- The session state matters outside Core: the result of inference for one and the same expression should not depend on
    what the session inferred before. -/
def session_independent_statement : Prop :=
  ∀ (Γ : Env) (e : Expr) (s : Bool), (infer Γ e s).1 = (infer Γ e false).1

/-- `on_list` extends the library's shared `Union` symbol (reflections.py:674): the first heterogeneous list literal of a
    session is typed `list<Union<…>>`, every later one raises `Errors.Never`. -/
theorem session_independent_counterexample : ¬ session_independent_statement := by
  intro h
  have := h [] (.list (.cons (.int 1) (.cons (.str ['a']) .nil))) true
  revert this
  decide +kernel

/-- On Core the session state is irrelevant (and left untouched). -/
theorem session_independent_partial {Γ : Env} {e : Expr} (hcore : Core Γ e) (s : Bool) :
    infer Γ e s = ((infer Γ e false).1, s) := by
  obtain ⟨T, hT⟩ := infer_ok false e Γ hcore
  rw [hT s, hT false]

/-- the second heterogeneous literal fails even inside a single expression of a fresh session -/
example : (infer [] (.tuple (.cons (.list (.cons (.int 1) (.cons (.str ['a']) .nil)))
    (.cons (.list (.cons (.int 1) (.cons .none_ .nil))) .nil))) false).1 = .error .never := by decide +kernel

/-! ## template substitution -/

/-- A generic stub method applied to a receiver returns the receiver's type argument, e.g. `list[T].pop() : T`. -/
def template_statement : Prop :=
  ∀ (t : Ty), (findMethod ['l', 'i', 's', 't'] ['p', 'o', 'p']).map (fun row => returnsOf row (.list t) .nil) = some t

/-- `_normalize_props` drops the level of a `Union` in the ACTUAL type as well (template.py:326-329), so the first member of
    the union is taken for the template: `list[int | None].pop()` is typed `int`. -/
theorem template_counterexample : ¬ template_statement := by
  intro h
  have := h (.union (.cons .int (.cons .none .nil)))
  revert this
  decide +kernel

/-- for union-free element types of the shapes used by the correspondence the substitution is the expected one -/
theorem template_partial : ∀ t ∈ [Ty.int, .float, .bool, .str, .list .int, .dict .str .int, .tuple (.cons .int (.cons .str .nil)),
      .list (.list .str)],
    (findMethod ['l', 'i', 's', 't'] ['p', 'o', 'p']).map (fun row => returnsOf row (.list t) .nil) = some t := by
  decide +kernel

example : (findMethod ['l', 'i', 's', 't'] ['p', 'o', 'p']).map (fun row => returnsOf row (.list (.union (.cons .int (.cons .none .nil)))) .nil)
    = some .int := by decide +kernel

end Tranp.C03
