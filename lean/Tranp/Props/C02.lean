/-
  Property C02 — Node tree groups programs exactly as CPython parses them.
  Property theorems only; definitions and helper lemmas are in Tranp/Lemmas/{Prec,Ladder,C02}.lean.

  Proved here (DESIGN.md §5 C02, "proof: partial — expression ladder + classification"):
    * the operator ladder read from data/grammar.lark IS CPython's table on the common operators (`ladder`, by `decide`
      over the generated table — redone whenever the grammar changes);
    * for every operator term over those operators, with any extra parentheses, the reference parser driven by the
      generated ladder reads CPython's minimal text back into a lark-shaped tree whose CPython-style reading is the
      term (`group`, unbounded, from the `Prec` round-trip theorems and the chain/left-nest lemma);
    * the decision logic of the first-match class dispatch (`classify_*`), its agreement with Python's semantics under
      the three conventions the repaired code still relies on (`classify_func_partial`, `classify_*_agrees`).
-/
import Tranp.Lemmas.C02

namespace Tranp.C02
open Tranp Tranp.Prec Tranp.Ladder Tranp.Classify
open Tranp.Generated.GrammarLadder (ladder compOps ternary lambdaShape)

/-! ## the ladder -/

/-- **The grammar's ladder is CPython's.** Over the generated table: every ladder rule is a `?`-rule; after dropping the
    one non-Python operator (`<>`) the levels — their order, fixity and operator sets — are exactly CPython's levels
    restricted to the operators the grammar has; no CPython level lost all its operators; the unsupported operators
    (`//`, `@`, `**`) occur nowhere in the ladder (absent, not misplaced); `<>` is the only extra; every spelling has a
    code; the ternary is `or_test "if" or_test "else" expression -> ternary_test` and a lambda body is an `expression`,
    CPython's `disjunction 'if' disjunction 'else' expression` / `'lambda' [params] ':' expression`. -/
theorem ladder_eq_python :
    ladder.all (·.inlined) = true
    ∧ ladderPython = pySupported
    ∧ pySupported.length = pyTable.length ∧ pySupported.all (fun l => !l.ops.isEmpty) = true
    ∧ (codes pyUnsupported).all (fun o => ((ladderTable ladder).ops.bin o).isNone && ((ladderTable ladder).ops.pre o).isNone) = true
    ∧ (ladderCodes.filter fun o => !(tableCodes pyTable).contains o) = codes nonPython
    ∧ (ladder.all fun r => r.fix == .ternary || r.fix == .postfix || r.ops.all fun n => (opCode n).isSome) = true
    ∧ pyLevels.all (fun l => l.2.all fun n => (opCode n).isSome) = true
    ∧ ternary = ⟨c!"ternary_test", c!"or_test", c!"or_test", c!"expression", c!"if", c!"else"⟩
    ∧ lambdaShape = ⟨c!"lambdadef", c!"lambdaparams", c!"expression"⟩
    ∧ ladder.map (·.rule) = [c!"expression", c!"or_test", c!"and_test", c!"not_test_", c!"comparison", c!"expr", c!"or_expr",
        c!"xor_expr", c!"and_expr", c!"shift_expr", c!"sum", c!"term", c!"factor", c!"primary", c!"atom"] := by
  decide +kernel

/-- on the common operators the two tables let exactly the same slots stay bare (both directions) -/
theorem ladder_slots_agree :
    tablesCompat pyOps (ladderTable ladder).ops supportedHeads = true
    ∧ tablesCompat (ladderTable ladder).ops pyOps supportedHeads = true := by
  decide +kernel

/-- non-vacuity: 23 infix and 4 prefix operator heads are in the common language -/
example : supportedHeads.length = 26 ∧ Head.bin 10 ∈ supportedHeads ∧ Head.pre 2 ∈ supportedHeads := by decide +kernel

/-! ## grouping -/

/-- **Grouping theorem.** For every operator term `e` over the common operators — atoms are any opaque subtrees,
    `paren` nodes are parentheses the source really has, so redundant parentheses are included — the reference parser
    driven by the *generated* ladder reads the text CPython's table prints for `e` (`printMin pyTable`: the parentheses
    of `e` plus exactly those CPython needs) into a lark-shaped tree whose CPython-style reading is `astOf e`:
    left-nested `BinOp`s, one n-ary `BoolOp` per bare `or`/`and` chain, one `Compare` per bare comparison chain,
    `UnaryOp`s, parentheses transparent. -/
theorem group (a : Nat → LarkTree) (ha : ∀ n, isLeafTree (a n) = true) (e : Expr)
    (hv : ∀ h ∈ heads e, h ∈ supportedHeads) :
    (rdParseP (infoOf a) (printMin pyOps e)).map toAst = some (astOf a e) := by
  have hfacts : factsCheck ladder compOps supportedHeads = true := by decide +kernel
  have hknown : supportedHeads.all (knownHead pyOps) = true := by decide +kernel
  have hk : known pyOps e = true :=
    known_of_heads pyOps e fun x hx => (List.all_eq_true.mp hknown) x (hv x hx)
  exact rdParseP_printMin (infoOf a) supportedHeads (facts_of_check ladder compOps supportedHeads hfacts a ha)
    ladder_slots_agree.1 e hv hk

/-- the tree itself: lark's shape of the minimally parenthesised term -/
theorem group_tree (a : Nat → LarkTree) (e : Expr) (hv : ∀ h ∈ heads e, h ∈ supportedHeads) :
    rdParseP (infoOf a) (printMin pyOps e) = some (toLark (infoOf a) (normalize pyOps e)) := by
  have hknown : supportedHeads.all (knownHead pyOps) = true := by decide +kernel
  have hk : known pyOps e = true :=
    known_of_heads pyOps e fun x hx => (List.all_eq_true.mp hknown) x (hv x hx)
  have hv' : ∀ h ∈ heads (normalize pyOps e), h ∈ supportedHeads := by rw [heads_normalize]; exact hv
  simp only [rdParseP, infoOf, printMin]
  rw [parse_print_of_tablesCompat pyOps _ supportedHeads ladder_slots_agree.1 _ hv' (nf_normalize pyOps e hk)]
  rfl

/-- conversely the ladder accepts nothing CPython groups differently: whatever the reference parser reads from a text
    over the common operators is a normal form of CPython's table with that very text -/
theorem group_sound (ts : List Prec.Tok) (e : Expr) (hv : ∀ h ∈ heads e, h ∈ supportedHeads)
    (h : Prec.parse (ladderTable ladder).ops ts = some e) : ts = print e ∧ nf pyOps e = true := by
  obtain ⟨h1, h2⟩ := (parse_eq_some_iff _ ts e).mp h
  exact ⟨h1, nf_of_tablesCompat _ _ supportedHeads ladder_slots_agree.2 e hv h2⟩

/-- non-vacuity of `group`: `not a0 == a1 + a2 * -a3 or a4 < a5 <= (a6 and a7)` -/
example :
    let a : Nat → LarkTree := fun n => .tree c!"var" [.tree c!"name" [.token c!"NAME" ('a' :: Str.natToDec n)]]
    let e : Expr := .bin 0 (.pre 2 (.bin 5 (.atom 0) (.bin 18 (.atom 1) (.bin 20 (.atom 2) (.pre 19 (.atom 3))))))
      (.bin 7 (.bin 3 (.atom 4) (.atom 5)) (.bin 1 (.atom 6) (.atom 7)))
    (∀ h ∈ heads e, h ∈ supportedHeads) ∧ (∀ n, isLeafTree (a n) = true) ∧
      (printMin pyOps e).length = 19 := by
  refine ⟨by decide +kernel, fun n => rfl, by decide +kernel⟩

/-! ## grouping of `expression`: conditional expressions and lambdas -/

/-- `if`, `else`, `lambda` are operators of no level of the generated ladder (they belong to the rule `expression`) -/
theorem ladder_keywords_free : KwFree (ladderTable ladder).ops := ⟨by decide +kernel, by decide +kernel, by decide +kernel⟩

/-- **Grouping theorem for `expression`.** Terms are the operator terms closed under the conditional expression
    `body if test else orelse`, `lambda params: body` and parentheses around any `expression` (so: right-nested
    conditionals, conditionals in lambda bodies, lambdas and conditionals in every branch — parenthesised where the grammar
    wants an `or_test` —, and any redundant parentheses). The reference parser driven by the generated ladder reads the text
    CPython's table prints for `t` into the lark-shaped tree (`ternary_test[body, test, orelse]`,
    `lambdadef[lambdaparams | _, body]`, chains, `group_expr`) whose CPython-style reading is `astOfT t`:
    `IfExp(test, body, orelse)`, `Lambda(params, body)` and the operator readings of `group`. -/
theorem group_test (a p : Nat → LarkTree) (ha : ∀ n, isLeafTree (a n) = true) (t : TExpr)
    (hv : ∀ h ∈ headsT t, h ∈ supportedHeads) :
    (rdParseTP (infoTOf a p) (printMinT pyOps t)).map toAst = some (astOfT (infoTOf a p) t) := by
  have hfacts : factsCheck ladder compOps supportedHeads = true := by decide +kernel
  have hknown : supportedHeads.all (knownHead pyOps) = true := by decide +kernel
  have hk : knownT pyOps t = true :=
    knownT_of_headsT pyOps t fun x hx => (List.all_eq_true.mp hknown) x (hv x hx)
  exact rdParseTP_printMinT (infoTOf a p) supportedHeads (facts_of_check ladder compOps supportedHeads hfacts a ha)
    ladder_keywords_free ladder_slots_agree.1 t hv hk

/-- the tree itself, and that nothing but the minimally parenthesised term is read -/
theorem group_test_tree (a p : Nat → LarkTree) (t : TExpr) (hv : ∀ h ∈ headsT t, h ∈ supportedHeads) :
    rdParseTP (infoTOf a p) (printMinT pyOps t) = some (toLarkT (infoTOf a p) (normalizeT pyOps t)) := by
  have hknown : supportedHeads.all (knownHead pyOps) = true := by decide +kernel
  have hk : knownT pyOps t = true :=
    knownT_of_headsT pyOps t fun x hx => (List.all_eq_true.mp hknown) x (hv x hx)
  have hv' : ∀ h ∈ headsT (normalizeT pyOps t), h ∈ supportedHeads := by rw [headsT_normalizeT]; exact hv
  simp only [rdParseTP, infoTOf, printMinT]
  rw [parseT_printT _ ladder_keywords_free _
    (nfT_of_tablesCompat pyOps _ supportedHeads ladder_slots_agree.1 _ hv' (nfT_normalizeT pyOps t hk))]
  rfl

/-- non-vacuity: `lambda a0, a1: (lambda: a2) if a3 else a4 if not a5 == a6 else (a7 if a8 else a9) + a0`;
    the parentheses around the inner lambda and the inner conditional are added by `printMinT` -/
example :
    let t : TExpr := .lam [0, 1] (.ifExp (.lam [] (.atom 2)) (.atom 3)
      (.ifExp (.atom 4) (.pre 2 (.bin 5 (.atom 5) (.atom 6))) (.bin 18 (.ifExp (.atom 7) (.atom 8) (.atom 9)) (.atom 0))))
    (∀ h ∈ headsT t, h ∈ supportedHeads) ∧ (printMinT pyOps t).length = 29
      ∧ parseT (ladderTable ladder).ops (printMinT pyOps t) = some (normalizeT pyOps t) := by
  refine ⟨by decide +kernel, by decide +kernel, by decide +kernel⟩

/-! ## the reference lexer and the grammar's keywords -/

/-- The words the reference lexer treats specially are exactly accounted for by the generated keyword facts (read off
    lark's LALR table of grammar.lark): its operator words and constants are keyword terminals of the grammar; the words
    that open a statement without being able to start an expression (`statementStartWords`, rejected at the start of a
    text) are keyword terminals, and `if` is the only one of them the expression grammar uses elsewhere; the soft keywords
    (`match`, `case`) are keyword terminals that are alternatives of the rule `name`. Every other keyword of the grammar is
    nowhere acceptable inside an `expression`, hence a NAME wherever the model lexes one. -/
theorem lexer_keywords :
    (keywordOps.all fun w => Generated.GrammarLadder.reservedWords.contains w) = true
    ∧ (constNames.all fun w => Generated.GrammarLadder.reservedWords.contains w) = true
    ∧ (Generated.GrammarLadder.statementStartWords.all fun w => Generated.GrammarLadder.reservedWords.contains w) = true
    ∧ (Generated.GrammarLadder.statementStartWords.filter fun w => keywordOps.contains w || constNames.contains w) = [c!"if"]
    ∧ (Generated.GrammarLadder.softNameWords.all fun p => Generated.GrammarLadder.reservedWords.contains p.1
        && !keywordOps.contains p.1 && !Generated.GrammarLadder.statementStartWords.contains p.1) = true
    ∧ Generated.GrammarLadder.statementStartWords.length = 16 := by
  decide +kernel

/-! ## comparison chains, `not`, the sign operators -/

/-- levels CPython (and, by `ladder_eq_python`, the grammar) gives the prefix operators and the comparisons: `not` (2) is
    looser than every comparison operator (3), so `not a == b` is `not (a == b)`; `+ - ~` (10) are tighter than every
    infix operator (≤ 9), so `-a * b` is `(-a) * b`; all of them are in the common vocabulary `group` speaks about -/
theorem prefix_levels :
    pyOps.pre 2 = some 2 ∧ pyOps.pre 18 = some 10 ∧ pyOps.pre 19 = some 10 ∧ pyOps.pre 23 = some 10
    ∧ ([3, 4, 5, 6, 7, 8, 9, 10, 11, 12].all fun o => pyOps.bin o == some 3 && pyKind o == .compare) = true
    ∧ (tableCodes pyTable).all (fun o => (pyOps.bin o).all (· ≤ 9)) = true
    ∧ [Head.pre 2, .pre 18, .pre 19, .pre 23].all (fun h => supportedHeads.contains h) = true
    ∧ [opName 2, opName 18, opName 19, opName 23, opName 10, opName 12] =
        [c!"not", c!"+", c!"-", c!"~", c!"not in", c!"is not"] := by
  decide +kernel

/-- `not a == b` needs no parentheses and is `not (a == b)`; `(not a) == b` needs them; `-a * b` is `(-a) * b` -/
theorem prefix_grouping (x y : Expr) (hx : head x = .leaf) (hy : head y = .leaf) (hnx : nf pyOps x = true) (hny : nf pyOps y = true) :
    nf pyOps (.pre 2 (.bin 5 x y)) = true ∧ nf pyOps (.bin 5 (.pre 2 x) y) = false
    ∧ nf pyOps (.bin 20 (.pre 19 x) y) = true ∧ nf pyOps (.pre 19 (.bin 20 x y)) = false := by
  have e1 : slotOk pyOps (.pre 2) .operand (.bin 5) = true := by decide +kernel
  have e2 : slotOk pyOps (.bin 5) .left .leaf = true := by decide +kernel
  have e3 : slotOk pyOps (.bin 5) .right .leaf = true := by decide +kernel
  have e4 : slotOk pyOps (.bin 5) .left (.pre 2) = false := by decide +kernel
  have e5 : slotOk pyOps (.bin 20) .left (.pre 19) = true := by decide +kernel
  have e6 : slotOk pyOps (.bin 20) .right .leaf = true := by decide +kernel
  have e7 : slotOk pyOps (.pre 19) .operand .leaf = true := by decide +kernel
  have e8 : slotOk pyOps (.pre 19) .operand (.bin 20) = false := by decide +kernel
  have hb : ∀ o (l r : Expr), head (.bin o l r) = .bin o := fun _ _ _ => rfl
  have hp : ∀ o (e : Expr), head (.pre o e) = .pre o := fun _ _ => rfl
  simp [nf, hb, hp, hx, hy, hnx, hny, e1, e2, e3, e4, e5, e6, e7, e8]

/-- **Comparison chains are one n-ary `Compare`.** A bare chain `first o₁ e₁ … oₙ eₙ` of comparison operators (any of
    `< > == >= <= != in not in is is not` — the two-word ones are single operators) whose first operand is not itself a
    bare comparison reads as `Compare(first, [o₁ … oₙ], [e₁ … eₙ])`; with `group` this is what the ladder parser's tree
    for CPython's text of the chain reads as. -/
theorem compare_chain (a : Nat → LarkTree) (first : Expr) (steps : List (Nat × Expr)) (o : Nat) (e : Expr)
    (hops : ∀ s ∈ steps, pyKind s.1 = .compare) (ho : pyKind o = .compare)
    (hfirst : ∀ o' l r, first = .bin o' l r → pyKind o' ≠ .compare) :
    astOf a (chainExpr first (steps ++ [(o, e)])) =
      .compare (astOf a first) (steps.map (·.1) ++ [o]) (steps.map (fun s => astOf a s.2) ++ [astOf a e]) := by
  rw [chainExpr_snoc, astOf_bin, ho]
  simp only [cmpParts_chainExpr a steps hops first]
  have hf : cmpParts a first = (astOf a first, [], []) := by
    cases first with
    | bin o' l r =>
      rw [cmpParts_bin]
      simp [hfirst o' l r rfl]
    | atom n => exact cmpParts_other a _ (by intro _ _ _ h; cases h)
    | paren x => exact cmpParts_other a _ (by intro _ _ _ h; cases h)
    | pre o' x => exact cmpParts_other a _ (by intro _ _ _ h; cases h)
  simp [hf]

/-- non-vacuity: `a0 < a1 is not a2 not in a3` is `Compare(a0, [<, is not, not in], [a1, a2, a3])` -/
example (a : Nat → LarkTree) :
    astOf a (chainExpr (.atom 0) ([(3, .atom 1), (12, .atom 2)] ++ [(10, .atom 3)])) =
      .compare (.leaf (a 0)) [3, 12, 10] [.leaf (a 1), .leaf (a 2), .leaf (a 3)] := by
  have h := compare_chain a (.atom 0) [(3, .atom 1), (12, .atom 2)] 10 (.atom 3)
    (by intro s hs; simp at hs; rcases hs with rfl | rfl <;> decide +kernel) (by decide +kernel) (by intro _ _ _ h; cases h)
  simpa [astOf] using h

/-! ## argument lists of a call -/

/-- **Argument list reading.** tranp's reading of the `arguments` subtree lark builds for a call (one child = positional,
    two children = label and value, tags `starargs` / `kwargs` = `*` / `**`) returns the arguments with their kinds,
    labels, values and order; CPython's `args` and `keywords` are its positional/starred and named/`**` sublists. -/
theorem call_arguments (as : List Arg) :
    readArgs (argsTree as) = as
    ∧ pyCallArgs (readArgs (argsTree as)) = (as.filter Arg.isPositional, as.filter (fun x => !x.isPositional)) :=
  ⟨readArgs_argsTree as, pyCallArgs_readArgs as⟩

/-! ## classification: the generated table and the modelled predicates -/

/-- every `match_feature` the generated table can reach is one the model implements -/
theorem classify_owners_modelled :
    (Generated.ResolverTable.table.all fun row => row.2.all fun c => modelledOwners.contains c.2) = true := by
  decide +kernel

/-- **The model's `match_feature`s compare with the code's constants.** The string constants of every `match_feature`
    (and of `Function._in_class_block`), as translate/gen_match_features.py reads them off node.py / definition/*.py on
    every run (the logic around them is pinned there by skeleton digests), are exactly the tags and words the hand-written
    predicates of `Model/Classify.lean` compare with — re-decided whenever a tag or word of the code changes. -/
theorem match_feature_consts :
    Generated.MatchFeatures.consts = [
      (c!"AltTypesName.match_feature", []), (c!"ArgumentLabel.match_feature", [c!"argvalue"]),
      (c!"CallableType.match_feature", [c!"typed_slices"]),
      (c!"ClassMethod.match_feature", [c!"decorators", c!"decorators", c!"classmethod"]),
      (c!"ClassRef.match_feature", [c!"cls"]),
      (c!"Closure.match_feature", [c!"class_def_raw", c!"function_def_raw", c!"class_def_raw"]),
      (c!"Constructor.match_feature", [c!"function_def_raw.name", c!"__init__"]),
      (c!"CustomType.match_feature", []), (c!"DeclClassParam.match_feature", []), (c!"DeclClassVar.match_feature", []),
      (c!"DeclLocalVar.match_feature", []), (c!"DeclParam.match_feature", []), (c!"DeclThisParam.match_feature", []),
      (c!"DeclThisVar.match_feature", []), (c!"DeclThisVarForward.match_feature", []),
      (c!"DecoratorPath.match_feature", [c!"decorator"]), (c!"DictType.match_feature", [c!"dict"]),
      (c!"DocString.match_feature", [c!"block", c!"\"\"\"", c!"\"\"\""]),
      (c!"Enum.match_feature", [c!"class_def_raw.inherit_arguments", c!"class_def_raw.inherit_arguments", c!"Enum"]),
      (c!"Float.match_feature", [c!"number", c!"FLOAT_NUMBER"]),
      (c!"Function._in_class_block", [c!"class_def_raw"]),
      (c!"ImportName.match_feature", []), (c!"ImportPath.match_feature", [c!"import_stmt"]),
      (c!"Integer.match_feature", [c!"number", c!"DEC_NUMBER", c!"HEX_NUMBER"]),
      (c!"ListType.match_feature", [c!"list"]),
      (c!"Method.match_feature", [c!"function_def_raw.name", c!"__init__", c!"function_def_raw.parameters", c!"function_def_raw.parameters"]),
      (c!"Node.match_feature", []), (c!"Relay.match_feature", []), (c!"Super.match_feature", [c!"super"]),
      (c!"Terminal.match_terminal", []), (c!"ThisRef.match_feature", [c!"self"]), (c!"TypesName.match_feature", [])] := by
  decide +kernel

/-- every class whose `match_feature` the code defines is an owner the model implements, and conversely -/
theorem match_feature_owners :
    ((Generated.MatchFeatures.consts.map (·.1)).filter (fun k => Str.endsWith k c!".match_feature")).map (fun k => k.take (k.length - 14))
      = [c!"AltTypesName", c!"ArgumentLabel", c!"CallableType", c!"ClassMethod", c!"ClassRef", c!"Closure", c!"Constructor", c!"CustomType",
        c!"DeclClassParam", c!"DeclClassVar", c!"DeclLocalVar", c!"DeclParam", c!"DeclThisParam", c!"DeclThisVar", c!"DeclThisVarForward",
        c!"DecoratorPath", c!"DictType", c!"DocString", c!"Enum", c!"Float", c!"ImportName", c!"ImportPath", c!"Integer", c!"ListType",
        c!"Method", c!"Node", c!"Relay", c!"Super", c!"ThisRef", c!"TypesName"]
    ∧ (modelledOwners.all fun o => (Generated.MatchFeatures.consts.map (·.1)).contains (o ++ c!".match_feature")) = true
    ∧ ((Generated.MatchFeatures.consts.map (·.1)).filter (fun k => Str.endsWith k c!".match_feature")).length = modelledOwners.length := by
  decide +kernel

/-- **The words the classification goes by are the code's words, compared by equality.** Each name-dependent predicate of the
    model, for every input, is the comparison of the node text with the word generated from the code: membership of
    `classmethod` in the list of decorator names (not a substring of one), equality of the def name with `__init__`, of
    the first parameter / a `var` text with `self` / `cls`, of the callee with `super`, of the type name with `list` /
    `dict`, membership of `Enum` in the list of base names whatever their number. -/
theorem match_feature_words :
    (∀ f, isClassMethod f = f.decorators.contains (constAt c!"ClassMethod.match_feature" 2))
    ∧ (∀ f, isConstructor f = (inClassBlock f && f.name == constAt c!"Constructor.match_feature" 1))
    ∧ (∀ f, isMethod f = (inClassBlock f && (f.name != constAt c!"Method.match_feature" 1 && f.firstParam == some Generated.DeclMatchers.selfParamWord)))
    ∧ (∀ f, inClassBlock f = (fromEnd f.tags 3 == some (constAt c!"Function._in_class_block" 0)))
    ∧ (∀ root p e, matchFeature c!"ClassRef" root p e = .ok ((nameFeat root p e).tokens == constAt c!"ClassRef.match_feature" 0))
    ∧ (∀ root p e, matchFeature c!"ThisRef" root p e = .ok ((nameFeat root p e).tokens == constAt c!"ThisRef.match_feature" 0))
    ∧ (∀ root p e c, e.children.head? = some c →
        matchFeature c!"Super" root p e = .ok (tokens c == constAt c!"Super.match_feature" 0)
        ∧ matchFeature c!"ListType" root p e = .ok (tokens c == constAt c!"ListType.match_feature" 0)
        ∧ matchFeature c!"DictType" root p e = .ok (tokens c == constAt c!"DictType.match_feature" 0)) := by
  have h1 : constAt c!"ClassMethod.match_feature" 2 = c!"classmethod" := by decide +kernel
  have h2 : constAt c!"Constructor.match_feature" 1 = c!"__init__" := by decide +kernel
  have h3 : constAt c!"Method.match_feature" 1 = c!"__init__" := by decide +kernel
  have h4 : constAt c!"Function._in_class_block" 0 = c!"class_def_raw" := by decide +kernel
  have h5 : constAt c!"ClassRef.match_feature" 0 = c!"cls" := by decide +kernel
  have h6 : constAt c!"ThisRef.match_feature" 0 = c!"self" := by decide +kernel
  have h7 : constAt c!"Super.match_feature" 0 = c!"super" := by decide +kernel
  have h8 : constAt c!"ListType.match_feature" 0 = c!"list" := by decide +kernel
  have h9 : constAt c!"DictType.match_feature" 0 = c!"dict" := by decide +kernel
  have h10 : Generated.DeclMatchers.selfParamWord = c!"self" := by decide +kernel
  rw [h1, h2, h3, h4, h5, h6, h7, h8, h9, h10]
  refine ⟨fun _ => rfl, fun _ => rfl, fun _ => rfl, fun _ => rfl, fun _ _ _ => rfl, fun _ _ _ => rfl, ?_⟩
  intro root p e c hc
  refine ⟨?_, ?_, ?_⟩ <;> simp +decide [matchFeature, hc]

/-- non-vacuity of `match_feature_words`: the words tell names apart that contain one another -/
example : isClassMethod ⟨[c!"not_a_classmethod", c!"hooks.classmethods.register"], c!"f", some c!"cls", []⟩ = false
    ∧ isClassMethod ⟨[c!"deco", c!"classmethod"], c!"f", none, []⟩ = true := by decide +kernel

section ClassKinds
open Tranp.AstPath

/-- **Enum by membership, whatever the number and position of the bases.** For every class definition whose base list is
    `ia` (each base starting with a type expression, as grammar.lark's `typed_argvalue` guarantees), `Enum.match_feature`
    accepts exactly when the generated word `Enum` is the text of one of the bases. -/
theorem classify_enum (e ia : Entry) (h : byTags e [c!"class_def_raw", c!"inherit_arguments"] = .ok ia) (hwf : basesWf ia = true) :
    isEnum e = .ok ((baseNames ia).contains (constAt c!"Enum.match_feature" 2)) := by
  have hw : constAt c!"Enum.match_feature" 2 = c!"Enum" := by decide +kernel
  rw [hw]
  unfold isEnum
  rw [h]
  simp only []
  rw [mapM_ok_of_forall _ (fun inh => match inh.children.head? with | some t => tokens t | none => [])]
  · rfl
  · intro x hx
    have hx' := List.all_eq_true.mp hwf x hx
    cases hh : x.children.head? with
    | none => simp [hh] at hx'
    | some t => simp [hh] at hx'; simp [hx']

/-- a class definition without a base list is not an Enum -/
theorem classify_enum_no_bases (e : Entry) (err : CErr) (h : byTags e [c!"class_def_raw", c!"inherit_arguments"] = .error err) :
    isEnum e = .ok false := by
  unfold isEnum
  rw [h]

/-- **Class kinds are Python's.** The registered candidates of `class_def` are Enum, then Class; the first-match dispatch
    gives a class definition the kind Python's reading gives it (`pyClassKind`: an enumeration iff the bare name `Enum` is
    among the bases — one base or many, first, last or in between). -/
theorem classify_class_def (root : Entry) (p : Path) (e ia : Entry)
    (h : byTags e [c!"class_def_raw", c!"inherit_arguments"] = .ok ia) (hwf : basesWf ia = true) :
    rowOf c!"class_def" = some [(c!"Enum", c!"Enum"), (c!"Class", c!"Node")]
    ∧ firstMatch root p e [(c!"Enum", c!"Enum"), (c!"Class", c!"Node")] = .ok (pyClassKind (baseNames ia)) := by
  refine ⟨by decide +kernel, ?_⟩
  have h1 : matchFeature c!"Enum" root p e = isEnum e := by simp +decide [matchFeature]
  have h2 : matchFeature c!"Node" root p e = .ok true := by simp +decide [matchFeature]
  have hw : constAt c!"Enum.match_feature" 2 = c!"Enum" := by decide +kernel
  have h3 := classify_enum e ia h hwf
  rw [hw] at h3
  unfold firstMatch
  rw [h1, h3]
  unfold pyClassKind
  cases hc : (baseNames ia).contains c!"Enum"
  · simp [firstMatch, h2]
  · simp

/-- a class definition without a base list is not an Enum -/
theorem classify_class_def_no_bases (root : Entry) (p : Path) (e : Entry) (err : CErr)
    (h : byTags e [c!"class_def_raw", c!"inherit_arguments"] = .error err) :
    firstMatch root p e [(c!"Enum", c!"Enum"), (c!"Class", c!"Node")] = .ok (pyClassKind []) := by
  have h1 : matchFeature c!"Enum" root p e = isEnum e := by simp +decide [matchFeature]
  have h2 : matchFeature c!"Node" root p e = .ok true := by simp +decide [matchFeature]
  unfold firstMatch
  rw [h1, classify_enum_no_bases e err h]
  simp [firstMatch, h2, pyClassKind]

/-- non-vacuity of `classify_enum` / `classify_class_def`: `class B(str, Enum)` satisfies the hypotheses and is an Enum,
    whatever the position of the base; names that merely contain the word give a Class -/
example : byTags (cls2 [tv c!"str", tv c!"Enum"]) [c!"class_def_raw", c!"inherit_arguments"] = .ok (.tree c!"inherit_arguments" [tv c!"str", tv c!"Enum"]) := rfl
example : basesWf (.tree c!"inherit_arguments" [tv c!"str", tv c!"Enum"]) = true
    ∧ pyClassKind (baseNames (.tree c!"inherit_arguments" [tv c!"str", tv c!"Enum"])) = c!"Enum"
    ∧ pyClassKind (baseNames (.tree c!"inherit_arguments" [tv c!"Enums", tv c!"MyEnum"])) = c!"Class" := by decide +kernel
example : isEnum (cls2 [tv c!"Enum", tv c!"Mixin", tv c!"str"]) = .ok true := rfl
example : isEnum (cls2 [tv c!"Mixin", tv c!"xEnum"]) = .ok false := rfl

end ClassKinds

/-- the candidate orders the decision functions hard-code are the registered ones -/
theorem classify_rows :
    rowOf c!"function_def" = some [(c!"ClassMethod", c!"ClassMethod"), (c!"Constructor", c!"Constructor"),
      (c!"Method", c!"Method"), (c!"Closure", c!"Closure"), (c!"Function", c!"Node")]
    ∧ rowOf c!"name" = some [(c!"ArgumentLabel", c!"ArgumentLabel"), (c!"DeclClassParam", c!"DeclClassParam"),
      (c!"DeclThisParam", c!"DeclThisParam"), (c!"DeclParam", c!"DeclParam"), (c!"DeclLocalVar", c!"DeclLocalVar"),
      (c!"TypesName", c!"TypesName"), (c!"ImportName", c!"ImportName"), (c!"Var", c!"Node")]
    ∧ rowOf c!"var" = some [(c!"DeclClassVar", c!"DeclClassVar"), (c!"DeclThisVarForward", c!"DeclThisVarForward"),
      (c!"DeclLocalVar", c!"DeclLocalVar"), (c!"AltTypesName", c!"AltTypesName"), (c!"ClassRef", c!"ClassRef"),
      (c!"ThisRef", c!"ThisRef"), (c!"Var", c!"Node")]
    ∧ rowOf c!"class_def" = some [(c!"Enum", c!"Enum"), (c!"Class", c!"Node")]
    ∧ rowOf c!"getattr" = some [(c!"DeclThisVar", c!"DeclThisVar"), (c!"Relay", c!"Relay")] := by
  decide +kernel

/-- first-match over the registered `function_def` row computes `funcClass` of the extracted features -/
theorem classify_function_def (root : AstPath.Entry) (p : AstPath.Path) (e : AstPath.Entry) (row : List (Str × Str))
    (hrow : rowOf c!"function_def" = some row) :
    firstMatch root p e row = (funcFeat root p e).map fun f => (funcClass f).name := by
  have := classify_rows.1
  rw [hrow] at this
  cases this
  cases hf : funcFeat root p e with
  | error er => simp [firstMatch, matchFeature, hf, Except.map]
  | ok f =>
    simp only [firstMatch, matchFeature, hf, Except.map, funcClass]
    cases isClassMethod f <;> cases isConstructor f <;> cases isMethod f <;> cases isClosure f <;> rfl

/-- first-match over the registered `name` row computes `nameClass` (below the root, where `parent_tag` is defined) -/
theorem classify_name (root : AstPath.Entry) (p : AstPath.Path) (e : AstPath.Entry) (row : List (Str × Str))
    (hrow : rowOf c!"name" = some row) (pt : Str) (hp : parentTag (tagsOf root p) = .ok pt) :
    firstMatch root p e row = .ok (nameClass (nameFeat root p e)).name := by
  have := classify_rows.2.1
  rw [hrow] at this
  cases this
  simp only [firstMatch, matchFeature, hp, Except.map, nameClass]
  cases isArgumentLabel (nameFeat root p e) <;> cases isParamClass (nameFeat root p e)
    <;> cases isParamThis (nameFeat root p e) <;> cases isParam (nameFeat root p e)
    <;> cases isDeclLocalVar (nameFeat root p e) <;> cases inDeclClassType (nameFeat root p e)
    <;> cases inDeclImport (nameFeat root p e) <;> rfl

/-- first-match over the registered `var` row computes `varClass` -/
theorem classify_var (root : AstPath.Entry) (p : AstPath.Path) (e : AstPath.Entry) (row : List (Str × Str))
    (hrow : rowOf c!"var" = some row) (pt : Str) (hp : parentTag (tagsOf root p) = .ok pt) :
    firstMatch root p e row = .ok (varClass (nameFeat root p e)).name := by
  have := classify_rows.2.2.1
  rw [hrow] at this
  cases this
  simp only [firstMatch, matchFeature, hp, Except.map, varClass]
  cases isDeclClassVar (nameFeat root p e) <;> cases isDeclThisVarForward (nameFeat root p e)
    <;> cases isDeclLocalVar (nameFeat root p e) <;> cases inDeclAltClassType (nameFeat root p e)
    <;> cases hc : ((nameFeat root p e).tokens == c!"cls") <;> cases hs : ((nameFeat root p e).tokens == c!"self")
    <;> simp_all [NameClass.name]

/-! ## classification: decision logic of `function_def` (code as of fix e2c3e47) -/

theorem classify_classMethod (f : FuncFeat) :
    funcClass f = .classMethod ↔ c!"classmethod" ∈ f.decorators := by
  rw [← isClassMethod_iff]
  simp only [funcClass]
  cases isClassMethod f <;> cases isConstructor f <;> cases isMethod f <;> cases isClosure f <;> simp

theorem classify_constructor (f : FuncFeat) :
    funcClass f = .constructor ↔
      c!"classmethod" ∉ f.decorators ∧ fromEnd f.tags 3 = some c!"class_def_raw" ∧ f.name = c!"__init__" := by
  have h1 := isClassMethod_iff f
  have h2 := isConstructor_iff f
  simp only [funcClass]
  cases hb1 : isClassMethod f <;> cases hb2 : isConstructor f <;> cases isMethod f <;> cases isClosure f <;> simp_all

theorem classify_method (f : FuncFeat) :
    funcClass f = .method ↔
      c!"classmethod" ∉ f.decorators ∧ fromEnd f.tags 3 = some c!"class_def_raw" ∧ f.name ≠ c!"__init__"
        ∧ f.firstParam = some c!"self" := by
  have hm := isMethod_iff f
  have hc := isConstructor_iff f
  have hcm := isClassMethod_iff f
  simp only [funcClass]
  cases h1 : isClassMethod f <;> cases h2 : isConstructor f <;> cases h3 : isMethod f <;> cases isClosure f
    <;> simp_all

/-- a closure is any other def below a class or function that is not a statement of a class body -/
theorem classify_closure (f : FuncFeat) :
    funcClass f = .closure ↔
      c!"classmethod" ∉ f.decorators
      ∧ (f.tags.contains c!"class_def_raw" = true ∨ f.tags.contains c!"function_def_raw" = true)
      ∧ fromEnd f.tags 3 ≠ some c!"class_def_raw" := by
  have hm := isMethod_iff f
  have hc := isConstructor_iff f
  have hcl := isClosure_iff f
  have hcm := isClassMethod_iff f
  simp only [funcClass]
  cases h1 : isClassMethod f <;> cases h2 : isConstructor f <;> cases h3 : isMethod f <;> cases h4 : isClosure f
    <;> simp_all

/-- exactly one class: the dispatch is a function, and it is total on `function_def` because the last candidate
    (`Function`) inherits the always-true `Node.match_feature` -/
theorem classify_func_total (f : FuncFeat) :
    funcClass f = .function ↔
      funcClass f ≠ .classMethod ∧ funcClass f ≠ .constructor ∧ funcClass f ≠ .method ∧ funcClass f ≠ .closure := by
  cases h : funcClass f <;> simp

/-- the propositional core: with the structural path facts and the three remaining conventions both classifications agree -/
theorem classify_core (cm init st self inC inF dir c fn : Bool)
    (h1 : dir = true → inC = true)
    (h2 : inF = true → (c || fn) = true ∧ dir = false)
    (h3 : inC = false → inF = false → c = false ∧ fn = false)
    (c1 : cm = true → inC = true)
    (c2 : inC = true → dir = true)
    (c3 : inC = true → cm = false → init = false → (self = true ↔ st = false)) :
    (if cm = true then FuncClass.classMethod
      else if (dir && init) = true then .constructor
      else if (dir && (!init && self)) = true then .method
      else if (!(!c && !fn) && !(!(!c && !fn) && dir)) = true then .closure
      else .function) =
    (if inC = true then
        if cm = true then FuncClass.classMethod
        else if init = true then .constructor
        else if st = true then .function
        else .method
      else if inF = true then .closure
      else .function) := by
  revert h1 h2 h3 c1 c2 c3
  cases cm <;> cases init <;> cases st <;> cases self <;> cases inC <;> cases inF <;> cases dir
    <;> cases c <;> cases fn <;> simp

/-- **Agreement with Python's scoping.** On every real `function_def` path (`PathShape`) tranp's kind is the kind Python's
    semantics dictates, given the three conventions that the repaired `match_feature`s still rely on (`Conventional`):
    `@classmethod` only inside classes, class functions directly in the class body, `self` first exactly on instance methods. -/
theorem classify_func_partial (f : FuncFeat) (hs : PathShape f) (hc : Conventional f) : funcClass f = pyFuncClass f := by
  obtain ⟨p1, p2, p3⟩ := path_facts f hs
  simp only [funcClass, pyFuncClass, isClassMethod_eq, isConstructor_eq, isMethod_eq, isClosure_eq]
  exact classify_core _ _ _ _ _ _ _ _ _ p1 p2 p3 hc.cmInClass hc.direct hc.selfRule

/-- non-vacuity: an instance method is conventional and both sides say `Method` -/
example :
    let m : FuncFeat := ⟨[], c!"f", some c!"self", [c!"file_input", c!"class_def", c!"class_def_raw", c!"block", c!"function_def"]⟩
    funcClass m = .method ∧ pyFuncClass m = .method := by decide +kernel

/-! ### the registration order of the `function_def` candidates -/

/-- `Constructor`, `Method` and `Closure` never accept the same node (so their mutual order is immaterial) -/
theorem function_def_disjoint (f : FuncFeat) :
    (isConstructor f = true → isMethod f = false ∧ isClosure f = false) ∧ (isMethod f = true → isClosure f = false) := by
  rw [isConstructor_eq, isMethod_eq, isClosure_eq]
  cases inClassBlock f <;> cases nameIsInit f <;> cases selfFirst f <;> cases hasTag c!"class_def_raw" f
    <;> cases hasTag c!"function_def_raw" f <;> simp

/-- **The order matters exactly where `match_feature`s overlap.** Every registration order that keeps `ClassMethod` before
    `Constructor`, `Method`, `Closure` and `Function` last classifies every node like the shipped order … -/
theorem function_def_order (order : List FuncClass) (h : order ∈ okOrders) (f : FuncFeat) : firstOf order f = funcClass f := by
  obtain ⟨h1, h2⟩ := function_def_disjoint f
  simp only [okOrders, List.mem_cons, List.mem_nil_iff, or_false] at h
  rcases h with rfl | rfl | rfl | rfl | rfl | rfl <;>
  · simp only [firstOf, funcClass, List.find?_cons, accepts, List.find?_nil]
    revert h1 h2
    cases isClassMethod f <;> cases isConstructor f <;> cases isMethod f <;> cases isClosure f <;> simp

/-- … `ClassMethod` overlaps with each of the three (a `@classmethod` named `__init__`, one whose first parameter is `self`,
    one outside a class body), so an order that lists one of them first classifies these nodes differently — the seeded
    order `Constructor, Method, ClassMethod, …` on the first two … -/
theorem function_def_overlaps :
    (∃ f, isClassMethod f = true ∧ isConstructor f = true
        ∧ firstOf [.constructor, .method, .classMethod, .closure, .function] f ≠ funcClass f)
    ∧ (∃ f, isClassMethod f = true ∧ isMethod f = true
        ∧ firstOf [.constructor, .method, .classMethod, .closure, .function] f ≠ funcClass f)
    ∧ (∃ f, isClassMethod f = true ∧ isClosure f = true
        ∧ firstOf [.closure, .classMethod, .constructor, .method, .function] f ≠ funcClass f) := by
  refine ⟨⟨⟨[c!"classmethod"], c!"__init__", some c!"cls", [c!"file_input", c!"class_def", c!"class_def_raw", c!"block", c!"function_def"]⟩, ?_⟩,
    ⟨⟨[c!"classmethod"], c!"f", some c!"self", [c!"file_input", c!"class_def", c!"class_def_raw", c!"block", c!"function_def"]⟩, ?_⟩,
    ⟨⟨[c!"classmethod"], c!"f", some c!"cls", [c!"file_input", c!"function_def", c!"function_def_raw", c!"block", c!"function_def"]⟩, ?_⟩⟩ <;>
  decide +kernel

/-- … and the order registered in `providers/syntax/resolver.py` (generated table) is one of the good ones. -/
theorem function_def_order_generated : generatedFuncOrderOk = true := by decide +kernel

/-! ### the three statements that were false before fix e2c3e47 (each with exactly the hypotheses it still needs) -/

/-- constructors: only "class functions are statements of the class body" remains -/
theorem classify_constructor_agrees (f : FuncFeat) (hs : PathShape f) (hd : inClass f = true → inClassBlock f = true) :
    funcClass f = .constructor ↔ pyFuncClass f = .constructor := by
  have key : ∀ (cm init st self inC inF dir c fn : Bool), (dir = true → inC = true) → (inC = true → dir = true) →
      ((if cm = true then FuncClass.classMethod
        else if (dir && init) = true then .constructor
        else if (dir && (!init && self)) = true then .method
        else if (!(!c && !fn) && !(!(!c && !fn) && dir)) = true then .closure
        else .function) = .constructor ↔
      (if inC = true then
          if cm = true then FuncClass.classMethod
          else if init = true then .constructor
          else if st = true then .function
          else .method
        else if inF = true then .closure
        else .function) = .constructor) := by
    intro cm init st self inC inF dir c fn
    cases cm <;> cases init <;> cases st <;> cases self <;> cases inC <;> cases inF <;> cases dir
      <;> cases c <;> cases fn <;> simp
  simp only [funcClass, pyFuncClass, isClassMethod_eq, isConstructor_eq, isMethod_eq, isClosure_eq]
  exact key _ _ _ _ _ _ _ _ _ (path_facts f hs).1 hd

/-- class methods: only "`@classmethod` is written inside classes" remains (its position in the decorator list no longer matters) -/
theorem classify_classMethod_agrees (f : FuncFeat) (hcm : hasDeco c!"classmethod" f = true → inClass f = true) :
    funcClass f = .classMethod ↔ pyFuncClass f = .classMethod := by
  have key : ∀ (cm init st self inC inF dir c fn : Bool), (cm = true → inC = true) →
      ((if cm = true then FuncClass.classMethod
        else if (dir && init) = true then .constructor
        else if (dir && (!init && self)) = true then .method
        else if (!(!c && !fn) && !(!(!c && !fn) && dir)) = true then .closure
        else .function) = .classMethod ↔
      (if inC = true then
          if cm = true then FuncClass.classMethod
          else if init = true then .constructor
          else if st = true then .function
          else .method
        else if inF = true then .closure
        else .function) = .classMethod) := by
    intro cm init st self inC inF dir c fn
    cases cm <;> cases init <;> cases st <;> cases self <;> cases inC <;> cases inF <;> cases dir
      <;> cases c <;> cases fn <;> simp
  simp only [funcClass, pyFuncClass, isClassMethod_eq, isConstructor_eq, isMethod_eq, isClosure_eq]
  exact key _ _ _ _ _ _ _ _ _ hcm

/-- methods: whatever tranp calls `Method` is a non-class-method, non-`__init__` function of a class taking `self` — on
    every real path, with no convention at all (the old witness, a closure taking `self`, is now a `Closure`) -/
theorem classify_method_sound (f : FuncFeat) (hs : PathShape f) (h : funcClass f = .method) :
    inClass f = true ∧ hasDeco c!"classmethod" f = false ∧ nameIsInit f = false ∧ selfFirst f = true := by
  have key : ∀ (cm init self inC dir c fn : Bool), (dir = true → inC = true) →
      (if cm = true then FuncClass.classMethod
        else if (dir && init) = true then .constructor
        else if (dir && (!init && self)) = true then .method
        else if (!(!c && !fn) && !(!(!c && !fn) && dir)) = true then .closure
        else .function) = .method →
      inC = true ∧ cm = false ∧ init = false ∧ self = true := by
    intro cm init self inC dir c fn
    cases cm <;> cases init <;> cases self <;> cases inC <;> cases dir <;> cases c <;> cases fn <;> simp
  simp only [funcClass, isClassMethod_eq, isConstructor_eq, isMethod_eq, isClosure_eq] at h
  exact key _ _ _ _ _ _ _ (path_facts f hs).1 h

/-- the witnesses of the former counter-examples are classified as Python does (regression cases `corpus/C02/classify-*.json`) -/
theorem classify_former_witnesses :
    funcClass ⟨[], c!"__init__", none, [c!"file_input", c!"function_def"]⟩ = .function
    ∧ funcClass ⟨[c!"other", c!"classmethod"], c!"f", some c!"cls",
        [c!"file_input", c!"class_def", c!"class_def_raw", c!"block", c!"function_def"]⟩ = .classMethod
    ∧ funcClass ⟨[], c!"inner", some c!"self",
        [c!"file_input", c!"function_def", c!"function_def_raw", c!"block", c!"function_def"]⟩ = .closure := by
  decide +kernel

/-- the full classification sentence with no side condition -/
def classify_func_statement : Prop := ∀ f : FuncFeat, PathShape f → funcClass f = pyFuncClass f

/-- it is still false where `match_feature` goes by a name: a function of a class whose first parameter is not called
    `self` is a `Function` for tranp and an instance method for Python (naming convention of the transpiled dialect,
    not filed as a defect; the search generates conventional programs) -/
theorem classify_func_counterexample : ¬ classify_func_statement := by
  intro h
  have := h ⟨[], c!"f", some c!"this", [c!"file_input", c!"class_def", c!"class_def_raw", c!"block", c!"function_def"]⟩
    (pathShape_of _ (by decide +kernel) c!"block" (by decide +kernel) (by decide +kernel))
  revert this
  decide +kernel

/-! ## classification: declaration vs reference for `name` / `var` -/

/-- a `name` is a parameter declaration exactly below the parameter tag; the two receiver words get their own classes
    (tags and words are the generated constants of `DeclableMatcher`) -/
theorem classify_name_param (f : NameFeat) :
    (nameClass f = .declParam ↔ f.parentTag = some Generated.DeclMatchers.paramParent
        ∧ f.tokens ≠ Generated.DeclMatchers.clsWord ∧ f.tokens ≠ Generated.DeclMatchers.selfParamWord)
    ∧ (nameClass f = .declThisParam ↔ f.parentTag = some Generated.DeclMatchers.paramParent ∧ f.tokens = Generated.DeclMatchers.selfParamWord)
    ∧ (nameClass f = .declClassParam ↔ f.parentTag = some Generated.DeclMatchers.paramParent ∧ f.tokens = Generated.DeclMatchers.clsWord) := by
  have hne : Generated.DeclMatchers.clsWord ≠ Generated.DeclMatchers.selfParamWord := by decide
  have hta : Generated.DeclMatchers.paramParent ≠ c!"argvalue" := by decide
  by_cases hp : f.parentTag = some Generated.DeclMatchers.paramParent
  · have ha : isArgumentLabel f = false := by
      simp [isArgumentLabel, hp, hta]
    by_cases hc : f.tokens = Generated.DeclMatchers.clsWord
    · simp [nameClass, ha, isParamClass, hp, hc, hne]
    · by_cases hs : f.tokens = Generated.DeclMatchers.selfParamWord
      · simp [nameClass, ha, isParamClass, isParamThis, hp, hs, hne.symm]
      · simp [nameClass, ha, isParamClass, isParamThis, isParam, hp, hc, hs]
  · have h1 : isParamClass f = false := by simp [isParamClass, hp]
    have h2 : isParamThis f = false := by simp [isParamThis, hp]
    have h3 : isParam f = false := by simp [isParam, hp]
    simp only [nameClass, h1, h2, h3, hp, false_and, iff_false]
    cases isArgumentLabel f <;> cases isDeclLocalVar f <;> cases inDeclClassType f <;> cases inDeclImport f <;> simp

/-- the finite facts about the generated `DeclableMatcher` constants that `decl_role_exact` uses (re-decided whenever
    primary.py changes a tag or word) -/
theorem decl_matchers_facts :
    Generated.DeclMatchers.localAssigns = [c!"assign", c!"anno_assign"]
    ∧ Generated.DeclMatchers.localNamelist = c!"assign_namelist"
    ∧ Generated.DeclMatchers.forwardAssign = c!"anno_assign" ∧ Generated.DeclMatchers.forwardNamelist = c!"assign_namelist"
    ∧ Generated.DeclMatchers.altNamelist = c!"assign_namelist"
    ∧ Generated.DeclMatchers.altAssigns = [c!"class_assign", c!"template_assign"]
    ∧ Generated.DeclMatchers.classVarParents = [[c!"class_var_assign", c!"assign_namelist"], [c!"class_var_anno_assign", c!"assign_namelist"]]
    ∧ Generated.DeclMatchers.nameOnlyParents = [c!"for_namelist", c!"except_clause", c!"with_item", c!"lambdaparams"]
    ∧ Generated.DeclMatchers.nameTag = c!"name" ∧ Generated.DeclMatchers.paramParent = c!"typedparam"
    ∧ Generated.DeclMatchers.classTypeParents = [c!"class_def_raw", c!"function_def_raw"]
    ∧ Generated.DeclMatchers.importParent = c!"import_as_name"
    ∧ Generated.DeclMatchers.localExcluded = [c!"cls", c!"self"]
    ∧ namelistTags = [c!"assign_namelist", c!"assign_namelist", c!"assign_namelist", c!"assign_namelist", c!"assign_namelist"] :=
  matcherFacts

/-- **Declaration vs reference, exactly.** For every position a bare identifier can take in the modelled statement forms
    (targets of plain / annotated / class-variable / augmented assignments, `for` and comprehension targets, `with … as`,
    `except … as`, lambda and def parameters, def / class / imported names, keyword labels, attribute names, the operand
    of a statement, anywhere deeper in an expression), below ANY enclosing context of blocks, classes, functions and
    outer expressions, the class the first-match dispatch gives the node has exactly the role Python gives the
    occurrence: binding, class-variable binding, use, or label. (`cls` / `self` as assignment targets are excluded:
    tranp reads them as the receiver references.) -/
theorem decl_role_exact (ctx : List Str) (pos : NamePos) (toks : Str) (recv : Bool)
    (hwf : pos.wf = true) (hid : AstPath.dsnElemCounts toks = 1)
    (hres : pos = .assignTarget ∨ pos = .annTarget → isClassOrThis toks = false) :
    roleOf (classAt ctx pos toks recv) = pos.pyRole := by
  obtain ⟨f1, f2, f3, f4, f5, f6, f7, f8, f9, f10, f11, f12, f13, f14⟩ := decl_matchers_facts
  have pt2 : ∀ (a b : Str), (NameFeat.mk (ctx ++ [a, b]) toks recv).parentTag = some a := fun a b => fe2_2 ctx a b
  have lt2 : ∀ (a b : Str), (NameFeat.mk (ctx ++ [a, b]) toks recv).lastTag = some b := fun a b => fe2_1 ctx a b
  have pt3 : ∀ (a b c : Str), (NameFeat.mk (ctx ++ [a, b, c]) toks recv).parentTag = some b := fun a b c => fe3_2 ctx a b c
  have lt3 : ∀ (a b c : Str), (NameFeat.mk (ctx ++ [a, b, c]) toks recv).lastTag = some c := fun a b c => fe3_1 ctx a b c
  -- a `name` directly below tag `x` (two-element suffix)
  have nameBelow : ∀ x : Str, nameClass ⟨ctx ++ [x, c!"name"], toks, recv⟩ =
      (if x = c!"argvalue" then .argumentLabel
       else if x = c!"typedparam" then (if toks = Generated.DeclMatchers.clsWord then .declClassParam
          else if toks = Generated.DeclMatchers.selfParamWord then .declThisParam else .declParam)
       else if x ∈ [c!"for_namelist", c!"except_clause", c!"with_item", c!"lambdaparams"] then .declLocalVar
       else if x = c!"assign_namelist" then nameClass ⟨ctx ++ [x, c!"name"], toks, recv⟩
       else if x ∈ [c!"class_def_raw", c!"function_def_raw"] then .typesName
       else if x = c!"import_as_name" then .importName else .var) := by
    intro x
    by_cases hx : x = c!"assign_namelist"
    · subst hx; simp +decide
    · simp only [nameClass, isArgumentLabel, isParamClass, isParamThis, isParam, isDeclLocalVar, inDeclClassType, inDeclImport,
        pt2, lt2, dl2, endsWith2, fe1_1, f1, f2, f8, f9, f10, f11, f12]
      by_cases h1 : x = c!"argvalue"
      · subst h1; simp
      · by_cases h2 : x = c!"typedparam"
        · subst h2
          by_cases hc : toks = Generated.DeclMatchers.clsWord
          · simp [hc]
          · by_cases hs : toks = Generated.DeclMatchers.selfParamWord
            · have : Generated.DeclMatchers.selfParamWord ≠ Generated.DeclMatchers.clsWord := by decide
              simp [hs, this]
            · simp [hc, hs]
        · simp [h1, h2, hx]
  cases pos with
  | withAs => simp only [classAt, NamePos.suffix, List.getLast?, if_true]; rw [nameBelow]; simp [roleOf, NamePos.pyRole]
  | exceptAs => simp only [classAt, NamePos.suffix, List.getLast?, if_true]; rw [nameBelow]; simp [roleOf, NamePos.pyRole]
  | lambdaParam => simp only [classAt, NamePos.suffix, List.getLast?, if_true]; rw [nameBelow]; simp [roleOf, NamePos.pyRole]
  | defName => simp only [classAt, NamePos.suffix, List.getLast?, if_true]; rw [nameBelow]; simp [roleOf, NamePos.pyRole]
  | className => simp only [classAt, NamePos.suffix, List.getLast?, if_true]; rw [nameBelow]; simp [roleOf, NamePos.pyRole]
  | importedName => simp only [classAt, NamePos.suffix, List.getLast?, if_true]; rw [nameBelow]; simp [roleOf, NamePos.pyRole]
  | kwLabel => simp only [classAt, NamePos.suffix, List.getLast?, if_true]; rw [nameBelow]; simp [roleOf, NamePos.pyRole]
  | attrName => simp only [classAt, NamePos.suffix, List.getLast?, if_true]; rw [nameBelow]; simp [roleOf, NamePos.pyRole]
  | param =>
    simp only [classAt, NamePos.suffix, List.getLast?, if_true]; rw [nameBelow]
    simp only [NamePos.pyRole]
    simp +decide only [if_false, if_true]
    split <;> (try split) <;> rfl
  | forTarget =>
    simp only [classAt, NamePos.suffix, List.getLast?, if_true]
    simp +decide [nameClass, isArgumentLabel, isParamClass, isParamThis, isParam, isDeclLocalVar, pt3, lt3, f8, f9, f10, roleOf, NamePos.pyRole]
  | compTarget =>
    simp only [classAt, NamePos.suffix, List.getLast?, if_true]
    simp +decide [nameClass, isArgumentLabel, isParamClass, isParamThis, isParam, isDeclLocalVar, pt3, lt3, f8, f9, f10, roleOf, NamePos.pyRole]
  | assignTarget =>
    have hr := hres (Or.inl rfl)
    simp only [classAt, NamePos.suffix]
    have hl := local3 ctx c!"assign" c!"assign_namelist" toks recv
    simp +decide [hr, hid] at hl
    cases hfw : isDeclThisVarForward ⟨ctx ++ [c!"assign", c!"assign_namelist", c!"var"], toks, recv⟩ <;>
      simp +decide [varClass, classVar3, hl, hfw, roleOf, NamePos.pyRole]
  | annTarget =>
    have hr := hres (Or.inr rfl)
    simp only [classAt, NamePos.suffix]
    have hl := local3 ctx c!"anno_assign" c!"assign_namelist" toks recv
    simp +decide [hr, hid] at hl
    cases hfw : isDeclThisVarForward ⟨ctx ++ [c!"anno_assign", c!"assign_namelist", c!"var"], toks, recv⟩ <;>
      simp +decide [varClass, classVar3, hl, hfw, roleOf, NamePos.pyRole]
  | classVarTarget anno =>
    cases anno <;>
    · simp only [classAt, NamePos.suffix]
      simp +decide [varClass, classVar3, roleOf, NamePos.pyRole]
  | augTarget =>
    simp only [classAt, NamePos.suffix]
    have hl := local3 ctx c!"aug_assign" c!"assign_namelist" toks recv
    simp +decide at hl
    exact varClass_ref_of _ (by simp +decide [classVar3]) (forward_false _ (Or.inl (by rw [f3]; simp only [fe3_3]; decide))) hl
      (alt_false_of_third _ (by simp) (by rw [f6]; intro t ht; simp only [fe3_3]; simp at ht; rcases ht with rfl | rfl <;> decide))
  | typeAliasTarget =>
    simp only [classAt, NamePos.suffix]
    have hl := local3 ctx c!"class_assign" c!"assign_namelist" toks recv
    simp +decide at hl
    have hfw := forward_false ⟨ctx ++ [c!"class_assign", c!"assign_namelist", c!"var"], toks, recv⟩
      (Or.inl (by rw [f3]; simp only [fe3_3]; decide))
    have ha := alt3 ctx c!"class_assign" toks recv (by rw [f6]; simp)
    simp +decide [varClass, classVar3, hl, hfw, ha, roleOf, NamePos.pyRole]
  | typeVarTarget =>
    simp only [classAt, NamePos.suffix]
    have hl := local3 ctx c!"template_assign" c!"assign_namelist" toks recv
    simp +decide at hl
    have hfw := forward_false ⟨ctx ++ [c!"template_assign", c!"assign_namelist", c!"var"], toks, recv⟩
      (Or.inl (by rw [f3]; simp only [fe3_3]; decide))
    have ha := alt3 ctx c!"template_assign" toks recv (by rw [f6]; simp)
    simp +decide [varClass, classVar3, hl, hfw, ha, roleOf, NamePos.pyRole]
  | valueOf stmt =>
    have hs : stmt ≠ c!"assign_namelist" := by
      simp only [NamePos.wf, f14] at hwf
      intro h; subst h; simp at hwf
    have hsuf : (NamePos.valueOf stmt).suffix.getLast? ≠ some c!"name" := by simp [NamePos.suffix]
    simp only [classAt, hsuf, if_false, NamePos.suffix, NamePos.pyRole]
    exact varClass_ref_of _ (classVar2_false ctx stmt toks recv hs)
      (forward_false _ (Or.inr (by rw [f4]; simp only [fe2_2]; simpa using hs)))
      (local2_false ctx stmt toks recv hs) (alt_false_of_parent _ (by rw [f5]; simp only [NameFeat.parentTag, fe2_2]; simpa using hs))
  | inExpr p2 p1 =>
    have hs : p1 ≠ c!"assign_namelist" := by
      simp only [NamePos.wf, f14] at hwf
      intro h; subst h; simp at hwf
    simp only [classAt, NamePos.suffix, NamePos.pyRole]
    have hc := classVar3 ctx p2 p1 toks recv
    have hl := local3 ctx p2 p1 toks recv
    have hb : (p1 == c!"assign_namelist") = false := by simpa using hs
    simp only [hb, Bool.and_false, Bool.or_false, Bool.false_and] at hc hl
    exact varClass_ref_of _ hc (forward_false _ (Or.inr (by rw [f4]; simp only [fe3_2]; simpa using hs))) hl
      (alt_false_of_parent _ (by rw [f5]; simp only [NameFeat.parentTag, fe3_2]; simpa using hs))

/-- **The positions are paths of the grammar.** Every fixed path suffix `decl_role_exact` speaks about is a chain of
    parent / child tree tags of grammar.lark (relation generated from lark's compiled rules: `_rule`s inlined, `?rule`s
    replaced by a single child, aliases renaming the tree). -/
theorem namepos_in_grammar : ∀ pos ∈ fixedPositions, pathInGrammar pos.suffix = true := by
  decide +kernel

/-- **No position is missing.** In the trees of grammar.lark: (1) a `var` below a target list `assign_namelist` has one of
    the seven target positions (plain / annotated / class-variable ×2 / augmented / TypeAlias / TypeVar statement), any other
    `var` is a value or expression position; (2) a `name` below `for_namelist` is a `for` or comprehension target;
    (3) a `name` anywhere else has one of the fixed positions or stands below `var` itself, an import path, a type
    expression or `raise`. So `decl_role_exact` covers every place the grammar puts a bare identifier. -/
theorem positions_complete :
    (∀ g : Str, inGrammar g c!"assign_namelist" = true →
      ∃ pos ∈ fixedPositions, pos.suffix = [g, c!"assign_namelist", c!"var"])
    ∧ (∀ g p : Str, inGrammar p c!"var" = true → p ≠ c!"assign_namelist" → (NamePos.inExpr g p).wf = true ∧ (NamePos.valueOf p).wf = true)
    ∧ (∀ g : Str, inGrammar g c!"for_namelist" = true → ∃ pos ∈ fixedPositions, pos.suffix = [g, c!"for_namelist", c!"name"])
    ∧ (∀ p : Str, inGrammar p c!"name" = true →
      p = c!"for_namelist" ∨ p ∈ otherNameParents ∨ ∃ pos ∈ fixedPositions, pos.suffix = [p, c!"name"]) := by
  have h1 : (parentsOf c!"assign_namelist").all (fun g => fixedPositions.any fun pos => pos.suffix == [g, c!"assign_namelist", c!"var"]) = true := by
    decide +kernel
  have h3 : (parentsOf c!"for_namelist").all (fun g => fixedPositions.any fun pos => pos.suffix == [g, c!"for_namelist", c!"name"]) = true := by
    decide +kernel
  have h4 : (parentsOf c!"name").all (fun p => p == c!"for_namelist" || otherNameParents.contains p ||
      fixedPositions.any fun pos => pos.suffix == [p, c!"name"]) = true := by
    decide +kernel
  refine ⟨?_, ?_, ?_, ?_⟩
  · intro g hg
    have := List.all_eq_true.mp h1 g (mem_parentsOf hg)
    obtain ⟨pos, hp, he⟩ := List.any_eq_true.mp this
    exact ⟨pos, hp, by simpa using he⟩
  · intro g p _ hne
    have f14 := decl_matchers_facts.2.2.2.2.2.2.2.2.2.2.2.2.2
    simp [NamePos.wf, f14, hne]
  · intro g hg
    have := List.all_eq_true.mp h3 g (mem_parentsOf hg)
    obtain ⟨pos, hp, he⟩ := List.any_eq_true.mp this
    exact ⟨pos, hp, by simpa using he⟩
  · intro p hp
    have := List.all_eq_true.mp h4 p (mem_parentsOf hp)
    simp only [Bool.or_eq_true, beq_iff_eq, List.contains_iff_mem, List.any_eq_true] at this
    rcases this with (h | h) | ⟨pos, hpos, he⟩
    · exact Or.inl h
    · exact Or.inr (Or.inl h)
    · exact Or.inr (Or.inr ⟨pos, hpos, he⟩)

/-- the statements that own a target list, and the parents of a `name`, as the grammar has them -/
theorem grammar_target_statements :
    parentsOf c!"assign_namelist" = [c!"anno_assign", c!"assign", c!"aug_assign", c!"class_assign", c!"class_var_anno_assign",
      c!"class_var_assign", c!"template_assign"]
    ∧ parentsOf c!"for_namelist" = [c!"comp_for", c!"for_stmt"]
    ∧ parentsOf c!"name" = [c!"argvalue", c!"class_def_raw", c!"dotted_name", c!"except_clause", c!"for_namelist",
      c!"function_def_raw", c!"getattr", c!"import_as_name", c!"lambdaparams", c!"raise_stmt", c!"typed_getattr", c!"typed_var",
      c!"typedparam", c!"var", c!"with_item"] := by
  decide +kernel

/-- non-vacuity: `x = …` in a method body nested in a class in a function declares `x`; `x` inside a call argument of the
    value of a class variable is a use (the round-4 seeded mutation classified it as a declaration) -/
example :
    roleOf (classAt [c!"file_input", c!"function_def", c!"function_def_raw", c!"block", c!"class_def", c!"class_def_raw", c!"block",
        c!"function_def", c!"function_def_raw", c!"block"] .assignTarget c!"x" true) = .decl
    ∧ roleOf (classAt [c!"file_input", c!"class_def", c!"class_def_raw", c!"block", c!"class_var_anno_assign"]
        (.inExpr c!"funccall" c!"arguments") c!"x" true) = .ref
    ∧ (NamePos.inExpr c!"funccall" c!"arguments").wf = true := by
  decide +kernel

/-! ### registration order of the candidates of `name` -/

/-- no two of the seven specific candidates of tag `name` accept the same node: each looks at a different parent tag
    (the three parameter classes at the same one, told apart by the word) -/
theorem name_disjoint (f : NameFeat) (c c' : NameClass) (hc : c ∈ nameCandidates) (hc' : c' ∈ nameCandidates)
    (h : acceptsName c f = true) (h' : acceptsName c' f = true) : c = c' := by
  obtain ⟨_, _, _, _, _, _, _, _, _, f10, f11, f12, _⟩ := matcherFacts
  have hL := local_parent f
  have hne : Generated.DeclMatchers.clsWord ≠ Generated.DeclMatchers.selfParamWord := by decide
  simp only [nameCandidates, List.mem_cons, List.mem_nil_iff, or_false] at hc hc'
  cases hpt : f.parentTag with
  | none =>
    rcases hc with rfl | rfl | rfl | rfl | rfl | rfl | rfl <;>
      simp_all [acceptsName, isArgumentLabel, isParamClass, isParamThis, isParam, inDeclClassType, inDeclImport]
  | some t =>
    rcases hc with rfl | rfl | rfl | rfl | rfl | rfl | rfl <;> rcases hc' with rfl | rfl | rfl | rfl | rfl | rfl | rfl <;>
      first
      | rfl
      | (simp only [acceptsName, isArgumentLabel, isParamClass, isParamThis, isParam, inDeclClassType, inDeclImport, hpt, f10, f11, f12,
          Bool.and_eq_true, beq_iff_eq, Option.some.injEq, List.any_cons, List.any_nil, Bool.or_eq_true, Bool.or_false, Bool.not_eq_true',
          Bool.or_eq_false_iff] at h h'
         first
         | (have := hL h; simp_all; done)
         | (have := hL h'; simp_all; done)
         | (have := hL h; rcases h' with rfl | rfl <;> simp_all; done)
         | (have := hL h'; rcases h with rfl | rfl <;> simp_all; done)
         | simp_all)

/-- hence the registration order of the seven is immaterial: any order classifies every `name` node like the shipped one -/
theorem name_order (order : List NameClass) (hall : ∀ c ∈ nameCandidates, c ∈ order) (hsub : ∀ c ∈ order, c ∈ nameCandidates)
    (f : NameFeat) : firstOfName order f = nameClass f := by
  have key : ∀ c ∈ nameCandidates, acceptsName c f = true → firstOfName order f = c := by
    intro c hc hp
    have := find_first_of_precedes (fun c => acceptsName c f) order c (hall c hc) hp
      (fun c' hc' hp' hne => absurd (name_disjoint f c' c (hsub c' hc') hc hp' hp) hne)
    simp [firstOfName, this]
  unfold nameClass
  split
  · next h => exact key _ (by simp [nameCandidates]) (by simpa [acceptsName] using h)
  · next h1 =>
    split
    · next h => exact key _ (by simp [nameCandidates]) (by simpa [acceptsName] using h)
    · next h2 =>
      split
      · next h => exact key _ (by simp [nameCandidates]) (by simpa [acceptsName] using h)
      · next h3 =>
        split
        · next h => exact key _ (by simp [nameCandidates]) (by simpa [acceptsName] using h)
        · next h4 =>
          split
          · next h => exact key _ (by simp [nameCandidates]) (by simpa [acceptsName] using h)
          · next h5 =>
            split
            · next h => exact key _ (by simp [nameCandidates]) (by simpa [acceptsName] using h)
            · next h6 =>
              split
              · next h => exact key _ (by simp [nameCandidates]) (by simpa [acceptsName] using h)
              · next h7 =>
                have hnone : order.find? (fun c => acceptsName c f) = none := by
                  apply find_none_of_all_false
                  intro c hc
                  have := hsub c hc
                  simp only [nameCandidates, List.mem_cons, List.mem_nil_iff, or_false] at this
                  rcases this with rfl | rfl | rfl | rfl | rfl | rfl | rfl <;> simp_all [acceptsName]
                simp [firstOfName, hnone]

/-! ### registration order of the candidates of `var` -/

/-- two different candidates of tag `var` accept the same node only if they are one of the seven listed pairs
    (`varBefore`); all other pairs are disjoint (different statement tag three levels up, or different word) -/
theorem var_pairs (f : NameFeat) (hv : f.lastTag = some c!"var") (c c' : NameClass) (hc : c ∈ varCandidates) (hc' : c' ∈ varCandidates)
    (h : acceptsVar c f = true) (h' : acceptsVar c' f = true) (hne : c ≠ c') : (c, c') ∈ varBefore ∨ (c', c) ∈ varBefore := by
  have h1 := classVar_third f
  have h2 := forward_third f
  have h3 := local_third f hv
  have h4 := alt_third f
  have hcs : (c!"cls" : Str) ≠ c!"self" := by decide
  simp only [varCandidates, List.mem_cons, List.mem_nil_iff, or_false] at hc hc'
  rcases hc with rfl | rfl | rfl | rfl | rfl | rfl <;> rcases hc' with rfl | rfl | rfl | rfl | rfl | rfl <;>
    first
    | exact absurd rfl hne
    | (simp [varBefore]; done)
    | (simp only [acceptsVar, beq_iff_eq] at h h'
       first
       | (have a := h1 h; have b := h2 h'; rcases a with a | a <;> simp_all; done)
       | (have a := h1 h'; have b := h2 h; rcases a with a | a <;> simp_all; done)
       | (have a := h1 h; have b := (h3 h').1; rcases a with a | a <;> rcases b with b | b <;> simp_all; done)
       | (have a := h1 h'; have b := (h3 h).1; rcases a with a | a <;> rcases b with b | b <;> simp_all; done)
       | (have a := h1 h; have b := h4 h'; rcases a with a | a <;> rcases b with b | b | b <;> simp_all; done)
       | (have a := h1 h'; have b := h4 h; rcases a with a | a <;> rcases b with b | b | b <;> simp_all; done)
       | (have a := h2 h; have b := h4 h'; rcases b with b | b | b <;> simp_all; done)
       | (have a := h2 h'; have b := h4 h; rcases b with b | b | b <;> simp_all; done)
       | (have a := (h3 h).1; have b := h4 h'; rcases a with a | a <;> rcases b with b | b | b <;> simp_all; done)
       | (have a := (h3 h').1; have b := h4 h; rcases a with a | a <;> rcases b with b | b | b <;> simp_all; done)
       | (have a := (h3 h).2; simp_all [isClassOrThis, matcherFacts.2.2.2.2.2.2.2.2.2.2.2.2.1]; done)
       | (have a := (h3 h').2; simp_all [isClassOrThis, matcherFacts.2.2.2.2.2.2.2.2.2.2.2.2.1]; done)
       | (simp_all; done))

/-- **The order of the `var` candidates matters exactly on the listed pairs.** Any registration order of the six candidates
    that keeps the first of each overlapping pair before the second classifies every `var` node like the shipped order. -/
theorem var_order (order : List NameClass) (hall : ∀ c ∈ varCandidates, c ∈ order) (hsub : ∀ c ∈ order, c ∈ varCandidates)
    (hresp : ∀ p ∈ varBefore, order.idxOf p.1 < order.idxOf p.2) (f : NameFeat) (hv : f.lastTag = some c!"var") :
    firstOfVar order f = varClass f := by
  have key : ∀ c ∈ varCandidates, acceptsVar c f = true →
      (∀ c' ∈ varCandidates, acceptsVar c' f = true → c' ≠ c → (c, c') ∈ varBefore) → firstOfVar order f = c := by
    intro c hc hp hfirst
    have := find_first_of_precedes (fun c => acceptsVar c f) order c (hall c hc) hp
      (fun c' hc' hp' hne => hresp (c, c') (hfirst c' (hsub c' hc') hp' hne))
    simp [firstOfVar, this]
  have pairs := fun c c' hc hc' h h' hne => var_pairs f hv c c' hc hc' h h' hne
  unfold varClass
  split
  · next h =>
    apply key _ (by simp [varCandidates]) (by simpa [acceptsVar] using h)
    intro c' hc' hp' hne
    rcases pairs _ _ (by simp [varCandidates]) hc' (by simpa [acceptsVar] using h) hp' (Ne.symm hne) with hb | hb
    · exact hb
    · simp only [varCandidates, List.mem_cons, List.mem_nil_iff, or_false] at hc'
      rcases hc' with rfl | rfl | rfl | rfl | rfl | rfl <;> simp [varBefore] at hb hne ⊢
  · next n1 =>
    split
    · next h =>
      apply key _ (by simp [varCandidates]) (by simpa [acceptsVar] using h)
      intro c' hc' hp' hne
      rcases pairs _ _ (by simp [varCandidates]) hc' (by simpa [acceptsVar] using h) hp' (Ne.symm hne) with hb | hb
      · exact hb
      · simp only [varCandidates, List.mem_cons, List.mem_nil_iff, or_false] at hc'
        rcases hc' with rfl | rfl | rfl | rfl | rfl | rfl <;> simp [varBefore] at hb hne ⊢
    · next n2 =>
      split
      · next h =>
        apply key _ (by simp [varCandidates]) (by simpa [acceptsVar] using h)
        intro c' hc' hp' hne
        rcases pairs _ _ (by simp [varCandidates]) hc' (by simpa [acceptsVar] using h) hp' (Ne.symm hne) with hb | hb
        · exact hb
        · simp only [varCandidates, List.mem_cons, List.mem_nil_iff, or_false] at hc'
          rcases hc' with rfl | rfl | rfl | rfl | rfl | rfl <;> simp_all [varBefore, acceptsVar]
      · next n3 =>
        split
        · next h =>
          apply key _ (by simp [varCandidates]) (by simpa [acceptsVar] using h)
          intro c' hc' hp' hne
          rcases pairs _ _ (by simp [varCandidates]) hc' (by simpa [acceptsVar] using h) hp' (Ne.symm hne) with hb | hb
          · exact hb
          · simp only [varCandidates, List.mem_cons, List.mem_nil_iff, or_false] at hc'
            rcases hc' with rfl | rfl | rfl | rfl | rfl | rfl <;> simp_all [varBefore, acceptsVar]
        · next n4 =>
          split
          · next h =>
            apply key _ (by simp [varCandidates]) (by simpa [acceptsVar] using h)
            intro c' hc' hp' hne
            rcases pairs _ _ (by simp [varCandidates]) hc' (by simpa [acceptsVar] using h) hp' (Ne.symm hne) with hb | hb
            · exact hb
            · simp only [varCandidates, List.mem_cons, List.mem_nil_iff, or_false] at hc'
              rcases hc' with rfl | rfl | rfl | rfl | rfl | rfl <;> simp_all [varBefore, acceptsVar]
          · next n5 =>
            split
            · next h =>
              apply key _ (by simp [varCandidates]) (by simpa [acceptsVar] using h)
              intro c' hc' hp' hne
              rcases pairs _ _ (by simp [varCandidates]) hc' (by simpa [acceptsVar] using h) hp' (Ne.symm hne) with hb | hb
              · exact hb
              · simp only [varCandidates, List.mem_cons, List.mem_nil_iff, or_false] at hc'
                rcases hc' with rfl | rfl | rfl | rfl | rfl | rfl <;> simp_all [varBefore, acceptsVar]
            · next n6 =>
              have hnone : order.find? (fun c => acceptsVar c f) = none := by
                apply find_none_of_all_false
                intro c hc
                have := hsub c hc
                simp only [varCandidates, List.mem_cons, List.mem_nil_iff, or_false] at this
                rcases this with rfl | rfl | rfl | rfl | rfl | rfl <;> simp_all [acceptsVar]
              simp [firstOfVar, hnone]

/-- each listed pair does overlap: a node both accept, on which the reversed order gives the other class -/
theorem var_overlaps :
    varBefore.all (fun p =>
      [(⟨[c!"file_input", c!"class_def", c!"class_def_raw", c!"block", c!"anno_assign", c!"assign_namelist", c!"var"], c!"x", true⟩ : NameFeat),
       ⟨[c!"file_input", c!"class_def", c!"class_def_raw", c!"block", c!"class_var_assign", c!"assign_namelist", c!"var"], c!"cls", true⟩,
       ⟨[c!"file_input", c!"class_def", c!"class_def_raw", c!"block", c!"class_var_assign", c!"assign_namelist", c!"var"], c!"self", true⟩,
       ⟨[c!"file_input", c!"class_def", c!"class_def_raw", c!"block", c!"anno_assign", c!"assign_namelist", c!"var"], c!"cls", true⟩,
       ⟨[c!"file_input", c!"class_def", c!"class_def_raw", c!"block", c!"anno_assign", c!"assign_namelist", c!"var"], c!"self", true⟩,
       ⟨[c!"file_input", c!"class_assign", c!"assign_namelist", c!"var"], c!"cls", true⟩,
       ⟨[c!"file_input", c!"class_assign", c!"assign_namelist", c!"var"], c!"self", true⟩].any fun f =>
        acceptsVar p.1 f && acceptsVar p.2 f && firstOfVar [p.2, p.1] f != firstOfVar [p.1, p.2] f) = true := by
  decide +kernel

/-- the registered order of the `var` candidates (generated table) respects every listed pair -/
theorem var_order_generated :
    ((rowOf c!"var").map fun r => r.map (·.1)) = some ((varCandidates ++ [NameClass.var]).map NameClass.name)
    ∧ varBefore.all (fun p => varCandidates.idxOf p.1 < varCandidates.idxOf p.2) = true := by
  decide +kernel

/-- the registered candidates of `name` are the seven specific classes and then the fallback `Var` -/
theorem name_order_generated :
    ((rowOf c!"name").map fun r => r.map (·.1)) = some ((nameCandidates ++ [NameClass.var]).map NameClass.name) := by
  decide +kernel

/-! ### the remaining multi-candidate tags -/

/-- **An always-accepting class is never registered before another candidate**: in every row of the generated resolver
    table the classes that inherit `Node.match_feature` (always true) or are `CustomType` (whose own `match_feature` returns
    True) stand last — for `funccall` (Super | FuncCall), `string` (DocString | String), `class_def` (Enum | Class),
    `typed_getitem` (… | CustomType), `function_def`, `name`, `var` the specific candidates are therefore all consulted -/
theorem resolver_fallbacks_last :
    (Generated.ResolverTable.table.all fun row =>
      row.2.dropLast.all fun c => c.2 != c!"Node" && c.2 != c!"CustomType") = true := by
  decide +kernel

/-- `getattr`: `Relay.match_feature` is by definition the negation of (among others) `DeclThisVar`'s test, and
    `dotted_name`: `ImportPath` / `DecoratorPath` ask for different parent tags — in both rows the two candidates never
    accept the same node, so their order is immaterial -/
theorem getattr_dotted_name_disjoint (root : AstPath.Entry) (p : AstPath.Path) (e : AstPath.Entry) :
    ¬ (matchFeature c!"DeclThisVar" root p e = .ok true ∧ matchFeature c!"Relay" root p e = .ok true)
    ∧ ¬ (matchFeature c!"ImportPath" root p e = .ok true ∧ matchFeature c!"DecoratorPath" root p e = .ok true) := by
  constructor
  · rintro ⟨h1, h2⟩
    have e1 : matchFeature c!"DeclThisVar" root p e = isDeclThisVar root p e := by
      simp +decide [matchFeature]
    have e2 : matchFeature c!"Relay" root p e = (do
        let _ ← parentTag (tagsOf root p)
        let thisVar ← isDeclThisVar root p e
        pure !(isDeclLocalVar (nameFeat root p e) || thisVar || inDeclClassType (nameFeat root p e)
          || inDeclAltClassType (nameFeat root p e) || inDeclImport (nameFeat root p e))) := by
      simp +decide [matchFeature]
    rw [e1] at h1
    rw [e2, h1] at h2
    cases hp : parentTag (tagsOf root p) with
    | error er => simp [hp, bind, Except.bind] at h2
    | ok t => simp [hp, bind, Except.bind, pure, Except.pure] at h2
  · rintro ⟨h1, h2⟩
    have e1 : matchFeature c!"ImportPath" root p e = (parentTag (tagsOf root p)).map (· == c!"import_stmt") := by
      simp +decide [matchFeature]
    have e2 : matchFeature c!"DecoratorPath" root p e = (parentTag (tagsOf root p)).map (· == c!"decorator") := by
      simp +decide [matchFeature]
    rw [e1] at h1
    rw [e2] at h2
    cases hp : parentTag (tagsOf root p) with
    | error er => simp [hp, Except.map] at h1
    | ok t =>
      simp only [hp, Except.map, Except.ok.injEq, beq_iff_eq] at h1 h2
      rw [h1] at h2
      revert h2; decide

/-- a `var` is classified as a reference (`Var`, `ClassRef`, `ThisRef`) exactly when none of the four declaration
    patterns of `DeclableMatcher` holds -/
theorem classify_var_reference (f : NameFeat) :
    (varClass f = .var ∨ varClass f = .classRef ∨ varClass f = .thisRef) ↔
      (isDeclClassVar f = false ∧ isDeclThisVarForward f = false ∧ isDeclLocalVar f = false ∧ inDeclAltClassType f = false) := by
  simp only [varClass]
  cases isDeclClassVar f <;> cases isDeclThisVarForward f <;> cases isDeclLocalVar f <;> cases inDeclAltClassType f
    <;> cases hc : (f.tokens == c!"cls") <;> cases hs : (f.tokens == c!"self") <;> simp

/-- non-vacuity: `x = 1` at module level declares `x`; the `x` of `print(x)` is a reference -/
example :
    varClass ⟨[c!"file_input", c!"assign", c!"assign_namelist", c!"var"], c!"x", true⟩ = .declLocalVar
    ∧ varClass ⟨[c!"file_input", c!"funccall", c!"arguments", c!"argvalue", c!"var"], c!"x", true⟩ = .var := by
  decide +kernel

end Tranp.C02
