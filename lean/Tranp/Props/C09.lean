/-
  Property C09 — Every handler receives exactly the results of its own children.
  Property theorems only; the model is Tranp/Model/Procedure.lean, helper lemmas live in Tranp/Lemmas/Procedure.lean.

  Reading guide: `exec hs fuel st root` is `Procedure.exec(root)` started with stack-of-stacks `st` and handler table
  `hs` (`fuel` bounds how deep handlers nest `exec`); `denoteF hs fuel root` is the stack-free reference: the handler of
  a node applied to, per declared property, the results of exactly that property's nodes. `WF root` is the obligation on
  node definitions (`WFNode` for every visited node). `hs.Good WF`: handlers return, raise, or call `exec` on
  well-formed roots without catching its exception.
-/
import Tranp.Lemmas.Procedure

namespace Tranp.C09
open Tranp Tranp.Procedure

/-! ### test objects for the non-vacuity examples and the counterexamples -/

def leaf (i : Nat) : PNode := .mk i ['l'] true [] []
/-- `on_fallback` returning the node's label -/
def idH : Handler Nat := fun n _ => .ret n.id
/-- `on_fallback` returning label + 10 × (sum of the single results) + 100 × (sum of list results): sees its event -/
def sumH : Handler Nat := fun n ev =>
  .ret (n.id + ev.foldl (fun acc kv => acc + match kv.2 with
    | .one r => 10 * r
    | .many rs => 100 * rs.foldl (· + ·) 0) 0)
def fb (h : Handler Nat) : Handlers Nat := ⟨fun _ => none, some h⟩

theorem fb_good (P : PNode → Prop) (h : Handler Nat) (hh : ∀ n ev, (h n ev).Good P) : (fb h).Good P := by
  intro cls h' hf n ev
  simp [fb, Handlers.find] at hf
  subst hf
  exact hh n ev

/-- a well-formed tree: single + list + empty-list properties, a nested level, terminals -/
def good : PNode :=
  .mk 1 ['r'] false
    [ .one ['a'] false (leaf 2),
      .many ['b'] true [leaf 3, .mk 4 ['m'] false [.one ['x'] false (leaf 5), .many ['y'] true []] [], leaf 6],
      .many ['c'] true [] ] []

/-! ### C09.event -/

/-- Whenever `exec` processes a node `n` of a well-formed tree (at any position `pre ++ n :: post` of the visiting order,
    the nodes before it processed successfully), the frame is `consumed ++ fr'` where `consumed` is exactly the results
    of `n`'s own property nodes, and `__make_event` returns the reference event of `n` — per property the results of
    exactly that property's nodes, single vs list distinguished, source order kept — leaving `fr'` untouched.
    For every tree, handler table, nesting budget and initial stacks. -/
theorem event {R : Type} (hs : Handlers R) (hH : hs.Good WF) (fuel : Nat) (root : PNode) (hwf : WF root) (st : St R)
    (pre post : List PNode) (n : PNode) (hsplit : visited root = pre ++ n :: post) (s : St R)
    (hrun : run (exec hs fuel) hs ([] :: st) pre = (s, .ok ())) :
    ∃ evs fr', denoteProps (denoteF hs fuel) hs n.props = .ok evs ∧
      s = (evs.flat.reverse ++ fr') :: st ∧
      makeEvent n (evs.flat.reverse ++ fr') = (fr', .ok evs.reverse) ∧
      eventOf (denoteF hs fuel) hs n = .ok evs.reverse := by
  obtain ⟨evs, fr', h1, h2, h3⟩ :=
    event_node (exec hs fuel) (denoteF hs fuel) hs (exec_sim hs hH fuel) hH root hwf [] st pre post n hsplit s hrun
  exact ⟨evs, fr', h1, h2, h3, by simp [eventOf, h1]⟩

/-- non-vacuity: the hypotheses hold for `good` with a handler that reads its event; the run reaches the last node -/
example : WF good ∧ (run (exec (fb sumH) 0) (fb sumH) [[]] (procedural good)).2 = .ok () ∧
    (makeEvent good [6, 54, 3, 2] : List Nat × _) =
      ([], .ok [(['c'], .many []), (['b'], .many [3, 54, 6]), (['a'], .one 2)]) := by
  refine ⟨by decide, by rfl, by rfl⟩

/-! ### C09.final -/

/-- `exec` of a well-formed tree returns exactly the reference result (value or exception), and when it returns a value
    the final frame held exactly that one result and the stack-of-stacks is as before: `exec` is a pure function of its
    own tree, whatever the initial stacks (e.g. stale frames of earlier failed runs) are. -/
theorem final {R : Type} (hs : Handlers R) (hH : hs.Good WF) (fuel : Nat) (root : PNode) (hwf : WF root) (st : St R) :
    (exec hs fuel st root).2 = denoteF hs fuel root ∧
    (∀ r, denoteF hs fuel root = .ok r → exec hs fuel st root = (st, .ok r)) := by
  obtain ⟨hok, herr⟩ := exec_sim hs hH fuel root hwf st
  refine ⟨?_, hok⟩
  cases hd : denoteF hs fuel root with
  | ok r => rw [hok r hd]
  | error e => exact herr e hd

/-- the final frame of the run is `[result]` (the size assertion of `__result` holds) -/
theorem final_frame {R : Type} (hs : Handlers R) (hH : hs.Good WF) (fuel : Nat) (root : PNode) (hwf : WF root) (st : St R)
    (r : R) (hd : denoteF hs (fuel + 1) root = .ok r) :
    run (exec hs fuel) hs ([] :: st) (visited root) = ([r] :: st, .ok ()) :=
  (node_sim (exec hs fuel) (denoteF hs fuel) hs (exec_sim hs hH fuel) hH root hwf [] st).1 r hd

/-- non-vacuity: a concrete run from junk stacks -/
example : (fb sumH).Good WF ∧ WF good ∧ exec (fb sumH) 1 [[7, 7], []] good = ([[7, 7], []], .ok 6321) := by
  refine ⟨fb_good _ _ (fun _ _ => .ret _), by decide, by rfl⟩

/-! ### C09.no_leak -/

/-- The event of a node does not depend on where the node sits: in two runs (different roots, siblings, initial stacks)
    the handler of `n` receives the same event, and each time only `n`'s own results leave the frame. -/
theorem no_leak {R : Type} (hs : Handlers R) (hH : hs.Good WF) (fuel : Nat) (n : PNode)
    (root₁ root₂ : PNode) (hwf₁ : WF root₁) (hwf₂ : WF root₂) (st₁ st₂ : St R)
    (pre₁ post₁ pre₂ post₂ : List PNode)
    (hs₁ : visited root₁ = pre₁ ++ n :: post₁) (hs₂ : visited root₂ = pre₂ ++ n :: post₂) (s₁ s₂ : St R)
    (hr₁ : run (exec hs fuel) hs ([] :: st₁) pre₁ = (s₁, .ok ()))
    (hr₂ : run (exec hs fuel) hs ([] :: st₂) pre₂ = (s₂, .ok ())) :
    ∃ ev consumed fr₁ fr₂, s₁ = (consumed ++ fr₁) :: st₁ ∧ s₂ = (consumed ++ fr₂) :: st₂ ∧
      makeEvent n (consumed ++ fr₁) = (fr₁, .ok ev) ∧ makeEvent n (consumed ++ fr₂) = (fr₂, .ok ev) := by
  obtain ⟨evs₁, fr₁, hd₁, he₁, hm₁, _⟩ := event hs hH fuel root₁ hwf₁ st₁ pre₁ post₁ n hs₁ s₁ hr₁
  obtain ⟨evs₂, fr₂, hd₂, he₂, hm₂, _⟩ := event hs hH fuel root₂ hwf₂ st₂ pre₂ post₂ n hs₂ s₂ hr₂
  rw [hd₁] at hd₂
  cases hd₂
  exact ⟨evs₁.reverse, evs₁.flat.reverse, fr₁, fr₂, he₁, he₂, hm₁, hm₂⟩

/-- non-vacuity: node 4 of `good` is visited inside `good` and as a root of its own -/
example : ∃ pre post, visited good = pre ++ (.mk 4 ['m'] false [.one ['x'] false (leaf 5), .many ['y'] true []] []) :: post :=
  ⟨[leaf 2, leaf 3, leaf 5], [leaf 6, good], by rfl⟩

/-! ### C09.nested -/

/-- Frame isolation, for every tree (well-formed or not): an `exec` that returns — in particular a nested one started
    from inside a handler — leaves the stack-of-stacks exactly as it found it, provided handlers do not catch the
    exception of a nested run. -/
theorem nested {R : Type} (hs : Handlers R) (hH : hs.Good (fun _ => True)) (fuel : Nat) (st st' : St R) (root : PNode) (r : R)
    (h : exec hs fuel st root = (st', .ok r)) : st' = st :=
  exec_frame hs hH fuel st root st' r h

/-- a handler that runs a nested `exec` on another tree and adds the result -/
def nestH : Handler Nat := fun n ev =>
  if n.id = 1 then .call (.mk 40 ['n'] false [.one ['p'] false (leaf 41)] []) (fun r => sumH n ev |> fun
    | .ret v => .ret (v + 1000 * r)
    | p => p)
  else sumH n ev

/-- non-vacuity: the outer run with a nested run inside equals the reference, stacks restored -/
example : exec (fb nestH) 2 [[5]] good = ([[5]], .ok 456321) ∧ denoteF (fb nestH) 2 good = .ok 456321 := by
  refine ⟨by rfl, by rfl⟩

/-! ### C09.wf_necessary: each clause of `WFNode` is needed -/

/-- not consumed `_under_expand()` results stay on the stack: the size assertion fails -/
theorem wf_necessary_under :
    ∃ root : PNode, ¬ WF root ∧ wfViolations root = ["under-not-consumed"] ∧
      (exec (fb idH) 1 [] root).2 = .error (.logicStacks 2) ∧ denoteF (fb idH) 1 root = .ok 0 :=
  ⟨.mk 0 ['r'] false [] [leaf 1], by decide, by rfl, by rfl, by rfl⟩

/-- a terminal node with an expandable property pops a sibling's result (`x` of node 2 receives the result of node 1) -/
theorem wf_necessary_terminal :
    ∃ root : PNode, ¬ WF root ∧ (visited root).map wfViolations = [[], ["terminal-with-props"], []] ∧
      (exec (fb sumH) 1 [] root).2 = .error .logicStackEmpty ∧ denoteF (fb sumH) 1 root = .ok 530 ∧
      (makeEvent (.mk 2 ['t'] true [.one ['x'] false (leaf 5)] []) [1] : List Nat × _) = ([], .ok [(['x'], .one 1)]) :=
  ⟨.mk 0 ['r'] false [.one ['a'] false (leaf 1), .one ['b'] false (.mk 2 ['t'] true [.one ['x'] false (leaf 5)] [])] [],
    by decide, by rfl, by rfl, by rfl, by rfl⟩

/-- a repeated key is flattened once and popped twice -/
theorem wf_necessary_dupkey :
    ∃ root : PNode, ¬ WF root ∧ wfViolations root = ["duplicate-key"] ∧
      (exec (fb idH) 1 [] root).2 = .error .logicStackEmpty ∧ denoteF (fb idH) 1 root = .ok 0 :=
  ⟨.mk 0 ['r'] false [.one ['a'] false (leaf 1), .one ['a'] false (leaf 1)] [], by decide, by rfl, by rfl, by rfl⟩

/-- a list value under a single-valued annotation is flattened entirely and popped once: the operand is shifted
    (`a` receives only the last element) and a result is left over -/
theorem wf_necessary_annotation :
    ∃ root : PNode, ¬ WF root ∧ wfViolations root = ["annotation-shape"] ∧
      (makeEvent root [2, 1] : List Nat × _) = ([1], .ok [(['a'], .one 2)]) ∧
      (exec (fb idH) 1 [] root).2 = .error (.logicStacks 2) ∧ denoteF (fb idH) 1 root = .ok 0 :=
  ⟨.mk 0 ['r'] false [.many ['a'] false [leaf 1, leaf 2]] [], by decide, by rfl, by rfl, by rfl, by rfl⟩

/-- the converse shape error: a single node under a `list[...]` annotation makes `len()` raise a raw TypeError -/
theorem wf_necessary_annotation_len :
    ∃ root : PNode, ¬ WF root ∧ (exec (fb idH) 1 [] root).2 = .error .typeError ∧ denoteF (fb idH) 1 root = .ok 0 :=
  ⟨.mk 0 ['r'] false [.one ['a'] true (leaf 1)] [], by decide, by rfl, by rfl⟩

/-! ### failing nested runs: no `finally` in `exec` -/

def failH : Handler Nat := fun n _ => if n.id = 41 then .fail (.tranp ['X']) else .ret n.id
def nestedTree : PNode := .mk 40 ['n'] false [.one ['p'] false (leaf 42), .one ['q'] false (leaf 41)] []

/-- A failing run leaves its frame (with the results pushed so far) on the stack-of-stacks. `final` shows that later
    top-level runs are not affected (it holds for every initial `st`). -/
theorem failed_run_leaves_frame :
    exec (fb failH) 1 [] nestedTree = ([[42]], .error (.tranp ['X'])) := by rfl

/-- The full sentence "nested processing does not disturb the outer run" for handlers that may catch the exception of a
    nested run: the outer result is still the reference result. -/
def failed_nested_statement : Prop :=
  ∀ (hs : Handlers Nat) (fuel : Nat) (st : St Nat) (root : PNode), hs.Roots WF → WF root →
    (exec hs fuel st root).2 = denoteF hs fuel root

/-- a handler that tries a nested run, swallows its exception and returns normally -/
def catchH : Handler Nat := fun n _ =>
  if n.id = 0 then .tryCall nestedTree (fun _ => .ret 7) else failH n []

/-- False on the current code: after the caught failure `self.__stack` is the stale frame of the failed nested run, the
    outer result is pushed there and the size assertion fails. (No handler in tranp catches a nested run's exception.) -/
theorem failed_nested_counterexample : ¬ failed_nested_statement := by
  intro h
  have hr : (fb catchH).Roots WF := by
    intro cls h' hf n ev
    simp [fb, Handlers.find] at hf
    subst hf
    unfold catchH
    split
    · exact .tryCall _ _ (by decide) (fun _ => .ret _)
    · unfold failH; split <;> constructor
  have := h (fb catchH) 2 [] (.mk 0 ['r'] false [] []) hr (by decide)
  have h1 : (exec (fb catchH) 2 [] (.mk 0 ['r'] false [] [])).2 = .error (.logicStacks 2) := by rfl
  have h2 : denoteF (fb catchH) 2 (.mk 0 ['r'] false [] []) = .ok 7 := by rfl
  rw [h1, h2] at this
  cases this

/-- what happens on that witness: reference 7, real run `Errors.Logic` with two entries in the stale frame -/
example : denoteF (fb catchH) 2 (.mk 0 ['r'] false [] []) = .ok 7 ∧
    exec (fb catchH) 2 [] (.mk 0 ['r'] false [] []) = ([[7, 42], []], .error (.logicStacks 2)) := by
  refine ⟨by rfl, by rfl⟩

end Tranp.C09
