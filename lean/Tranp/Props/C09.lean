/-
  Property C09 — Every handler receives exactly the results of its own children.
  Property theorems only; the model is Tranp/Model/Procedure.lean, helper lemmas live in Tranp/Lemmas/Procedure.lean.

  Reading guide: `exec hs fuel st root` is `Procedure.exec(root)` started with stack-of-stacks `st` and handler table
  `hs` (`fuel` bounds how deep handlers nest `exec`); `denoteF hs fuel root` is the stack-free reference: the handler of
  a node applied to, per declared property, the results of exactly that property's nodes. `WF root` is the obligation on
  node definitions (`WFNode` for every visited node). `hs.Good WF`: handlers return, raise, or call `exec` on
  well-formed roots without catching its exception.
-/
import Tranp.Lemmas.Procedure
import Tranp.Lemmas.ProcedureNecessity
import Tranp.Lemmas.ProcedureExpand
import Tranp.Lemmas.PropKeys
import Tranp.Lemmas.ProcedureHistory
import Tranp.Generated.ProcedureState
import Tranp.Generated.NodeClasses
import Tranp.Generated.GetterShapes

namespace Tranp.C09
open Tranp Tranp.Procedure

/-! ### test objects for the non-vacuity examples and the counterexamples -/

def leaf (i : Nat) : PNode := .mk i ['l'] true [] []
/-- `on_fallback` returning the node's label -/
def idH : Handler Nat := fun n _ => .ret n.id
/-- `on_fallback` returning label + 10 × (sum of the single results) + 100 × (sum of list results): sees its event -/
def sumH : Handler Nat := fun n ev =>
  .ret (n.id + ev.foldl (fun acc kv => acc + match kv.2 with
    | .one r => 10 * r
    | .many rs => 100 * rs.foldl (· + ·) 0) 0)
def fb (h : Handler Nat) : Handlers Nat := ⟨fun _ => none, some h⟩

theorem fb_good (P : PNode → Prop) (h : Handler Nat) (hh : ∀ n ev, (h n ev).Good P) : (fb h).Good P := by
  intro cls h' hf n ev
  simp [fb, Handlers.find] at hf
  subst hf
  exact hh n ev

/-- a well-formed tree: single + list + empty-list properties, a nested level, terminals -/
def good : PNode :=
  .mk 1 ['r'] false
    [ .one ['a'] false (leaf 2),
      .many ['b'] true [leaf 3, .mk 4 ['m'] false [.one ['x'] false (leaf 5), .many ['y'] true []] [], leaf 6],
      .many ['c'] true [] ] []

/-! ### C09.event -/

/-- Whenever `exec` processes a node `n` of a well-formed tree (at any position `pre ++ n :: post` of the visiting order,
    the nodes before it processed successfully), the frame is `consumed ++ fr'` where `consumed` is exactly the results
    of `n`'s own property nodes, and `__make_event` returns the reference event of `n` — per property the results of
    exactly that property's nodes, single vs list distinguished, source order kept — leaving `fr'` untouched.
    For every tree, handler table, nesting budget and initial stacks. -/
theorem event {R : Type} (hs : Handlers R) (hH : hs.Good WF) (fuel : Nat) (root : PNode) (hwf : WF root) (st : St R)
    (pre post : List PNode) (n : PNode) (hsplit : visited root = pre ++ n :: post) (s : St R)
    (hrun : run (exec hs fuel) hs ([] :: st) pre = (s, .ok ())) :
    ∃ evs fr', denoteProps (denoteF hs fuel) hs n.props = .ok evs ∧
      s = (evs.flat.reverse ++ fr') :: st ∧
      makeEvent n (evs.flat.reverse ++ fr') = (fr', .ok (refEvent evs)) ∧
      eventOf (denoteF hs fuel) hs n = .ok (refEvent evs) := by
  obtain ⟨evs, fr', h1, h2, h3⟩ :=
    event_node (exec hs fuel) (denoteF hs fuel) hs (exec_sim hs hH fuel) hH root hwf [] st pre post n hsplit s hrun
  exact ⟨evs, fr', h1, h2, h3, by simp [eventOf, h1]⟩

/-- non-vacuity: the hypotheses hold for `good` with a handler that reads its event; the run reaches the last node -/
example : WF good ∧ (run (exec (fb sumH) 0) (fb sumH) [[]] (procedural good)).2 = .ok () ∧
    (makeEvent good [6, 54, 3, 2] : List Nat × _) =
      ([], .ok [(['c'], .many []), (['b'], .many [3, 54, 6]), (['a'], .one 2)]) := by
  refine ⟨by decide, by rfl, by rfl⟩

/-! ### C09.final -/

/-- `exec` of a well-formed tree returns exactly the reference result (value or exception), and when it returns a value
    the final frame held exactly that one result and the stack-of-stacks is as before: `exec` is a pure function of its
    own tree, whatever the initial stacks (e.g. stale frames of earlier failed runs) are. -/
theorem final {R : Type} (hs : Handlers R) (hH : hs.Good WF) (fuel : Nat) (root : PNode) (hwf : WF root) (st : St R) :
    (exec hs fuel st root).2 = denoteF hs fuel root ∧
    (∀ r, denoteF hs fuel root = .ok r → exec hs fuel st root = (st, .ok r)) := by
  obtain ⟨hok, herr⟩ := exec_sim hs hH fuel root hwf st
  refine ⟨?_, hok⟩
  cases hd : denoteF hs fuel root with
  | ok r => rw [hok r hd]
  | error e => exact herr e hd

/-- the final frame of the run is `[result]` (the size assertion of `__result` holds) -/
theorem final_frame {R : Type} (hs : Handlers R) (hH : hs.Good WF) (fuel : Nat) (root : PNode) (hwf : WF root) (st : St R)
    (r : R) (hd : denoteF hs (fuel + 1) root = .ok r) :
    run (exec hs fuel) hs ([] :: st) (visited root) = ([r] :: st, .ok ()) :=
  (node_sim (exec hs fuel) (denoteF hs fuel) hs (exec_sim hs hH fuel) hH root hwf [] st).1 r hd

/-- non-vacuity: a concrete run from junk stacks -/
example : (fb sumH).Good WF ∧ WF good ∧ exec (fb sumH) 1 [[7, 7], []] good = ([[7, 7], []], .ok 6321) := by
  refine ⟨fb_good _ _ (fun _ _ => .ret _), by decide, by rfl⟩

/-! ### C09.no_leak -/

/-- The event of a node does not depend on where the node sits: in two runs (different roots, siblings, initial stacks)
    the handler of `n` receives the same event, and each time only `n`'s own results leave the frame. -/
theorem no_leak {R : Type} (hs : Handlers R) (hH : hs.Good WF) (fuel : Nat) (n : PNode)
    (root₁ root₂ : PNode) (hwf₁ : WF root₁) (hwf₂ : WF root₂) (st₁ st₂ : St R)
    (pre₁ post₁ pre₂ post₂ : List PNode)
    (hs₁ : visited root₁ = pre₁ ++ n :: post₁) (hs₂ : visited root₂ = pre₂ ++ n :: post₂) (s₁ s₂ : St R)
    (hr₁ : run (exec hs fuel) hs ([] :: st₁) pre₁ = (s₁, .ok ()))
    (hr₂ : run (exec hs fuel) hs ([] :: st₂) pre₂ = (s₂, .ok ())) :
    ∃ ev consumed fr₁ fr₂, s₁ = (consumed ++ fr₁) :: st₁ ∧ s₂ = (consumed ++ fr₂) :: st₂ ∧
      makeEvent n (consumed ++ fr₁) = (fr₁, .ok ev) ∧ makeEvent n (consumed ++ fr₂) = (fr₂, .ok ev) := by
  obtain ⟨evs₁, fr₁, hd₁, he₁, hm₁, _⟩ := event hs hH fuel root₁ hwf₁ st₁ pre₁ post₁ n hs₁ s₁ hr₁
  obtain ⟨evs₂, fr₂, hd₂, he₂, hm₂, _⟩ := event hs hH fuel root₂ hwf₂ st₂ pre₂ post₂ n hs₂ s₂ hr₂
  rw [hd₁] at hd₂
  cases hd₂
  exact ⟨refEvent evs₁, evs₁.flat.reverse, fr₁, fr₂, he₁, he₂, hm₁, hm₂⟩

/-- non-vacuity: node 4 of `good` is visited inside `good` and as a root of its own -/
example : ∃ pre post, visited good = pre ++ (.mk 4 ['m'] false [.one ['x'] false (leaf 5), .many ['y'] true []] []) :: post :=
  ⟨[leaf 2, leaf 3, leaf 5], [leaf 6, good], by rfl⟩

/-! ### C09.nested -/

/-- Frame isolation, for every tree (well-formed or not): an `exec` that returns — in particular a nested one started
    from inside a handler — leaves the stack-of-stacks exactly as it found it, provided handlers do not catch the
    exception of a nested run. -/
theorem nested {R : Type} (hs : Handlers R) (hH : hs.Good (fun _ => True)) (fuel : Nat) (st st' : St R) (root : PNode) (r : R)
    (h : exec hs fuel st root = (st', .ok r)) : st' = st :=
  exec_frame hs hH fuel st root st' r h

/-- a handler that runs a nested `exec` on another tree and adds the result -/
def nestH : Handler Nat := fun n ev =>
  if n.id = 1 then .call (.mk 40 ['n'] false [.one ['p'] false (leaf 41)] []) (fun r => sumH n ev |> fun
    | .ret v => .ret (v + 1000 * r)
    | p => p)
  else sumH n ev

/-- non-vacuity: the outer run with a nested run inside equals the reference, stacks restored -/
example : exec (fb nestH) 2 [[5]] good = ([[5]], .ok 456321) ∧ denoteF (fb nestH) 2 good = .ok 456321 := by
  refine ⟨by rfl, by rfl⟩

/-! ### C09.wf_necessary: `WFNode` is exactly the obligation -/

/-- General necessity: for EVERY tree in which the run visits an ill-formed node there is a handler table (handlers that
    return, and at most one that starts a nested `exec`; none catches) on which `exec` differs from the reference — a
    wrong event reaches a handler, or `exec` raises (stack underflow, final stack size ≠ 1, `len()` of a node).
    `KeyConsistent`: `getattr(node, key)` is a function of the key (entries of a repeated key are the same entry) —
    a fact about Python, checked by the harness on every exported node.
    Together with `final`: for key-consistent trees, `WF root` ⟺ `exec` computes the reference for every handler table
    that does not catch nested failures. -/
theorem wf_necessary (root : PNode) (hcons : ∀ m ∈ visited root, KeyConsistent m) (hbad : ¬ WF root) :
    ∃ hs : Handlers Sh, hs.Good (fun _ => True) ∧
      ∀ fuel st, (exec hs (fuel + 2) st root).2 ≠ denoteF hs (fuel + 2) root := by
  have : ∃ m, m ∈ visited root ∧ ¬ WFNode m := by
    apply Classical.byContradiction
    intro hne
    exact hbad (fun m hm => Classical.byContradiction fun hw => hne ⟨m, hm, hw⟩)
  obtain ⟨m0, hm0, hb0⟩ := this
  obtain ⟨m, hm, hb, hmin⟩ := exists_minimal_violation (ssize m0 + 1) root m0 (by omega) hm0 hb0
  have hc := hcons m hm
  simp only [visited, List.mem_append, List.mem_singleton] at hm
  rcases hm with hm | rfl
  · refine ⟨probeT (ssize root) m, ?_, fun fuel st => necessity_below_root root m hm hmin hc hb fuel st⟩
    intro cls h hf n ev
    simp [probeT, Handlers.find] at hf
    subst hf
    unfold probeH
    split
    · exact .call _ _ trivial (fun r => .ret r)
    · exact .ret _
  · refine ⟨plainT, plainT_good _, fun fuel st => ?_⟩
    have hden : denoteF plainT (fuel + 2) m = .ok (foldFlags PProp.isMany m.props.reverse []) := denote_plain _ m
    rw [hden]
    exact necessity_at_root m hmin hc hb (exec plainT (fuel + 1)) (denoteF plainT (fuel + 1))
      (exec_sim plainT (plainT_good WF) (fuel + 1)) st

/-- non-vacuity: an ill-formed node three levels down (a key repeated with a non-empty value), consistent keys -/
example :
    let bad : PNode := .mk 9 ['d'] false [.one ['a'] false (leaf 1), .one ['a'] false (leaf 1)] []
    let root : PNode := .mk 0 ['r'] false [.many ['x'] true [leaf 2, .mk 3 ['m'] false [.one ['y'] false bad] []]] []
    ¬ WF root ∧ ∀ m ∈ visited root, KeyConsistent m := by
  intro bad root
  refine ⟨by decide, ?_⟩
  have hv : visited root = [leaf 2, leaf 1, bad, .mk 3 ['m'] false [.one ['y'] false bad] [], root] := by rfl
  intro m hm
  rw [hv] at hm
  simp only [List.mem_cons, List.not_mem_nil, or_false] at hm
  rcases hm with rfl | rfl | rfl | rfl | rfl
  · exact keyConsistent_of_nodup _ (by decide)
  · exact keyConsistent_of_nodup _ (by decide)
  · exact keyConsistent_pair _ _ _ _ _
  · exact keyConsistent_of_nodup _ (by decide)
  · exact keyConsistent_of_nodup _ (by decide)

/-- what became weaker: a terminal node may declare properties that yield empty lists, and `prop_keys()` may repeat a key
    whose value is an empty list — both are harmless, `event`/`final` cover them -/
example :
    let n : PNode := .mk 1 ['r'] false [.many ['a'] true [], .one ['b'] false (.mk 2 ['t'] true [.many ['c'] true []] []), .many ['a'] true []] []
    WF n ∧ exec (fb sumH) 1 [] n = ([], .ok 21) ∧
      (makeEvent n [2] : List Nat × _) = ([], .ok [(['a'], .many []), (['b'], .one 2)]) := by
  refine ⟨by decide, by rfl, by rfl⟩

/-! per-clause witnesses (kernel-evaluated): what goes wrong -/


/-- not consumed `_under_expand()` results stay on the stack: the size assertion fails -/
example :
    ∃ root : PNode, ¬ WF root ∧ wfViolations root = ["under-not-consumed"] ∧
      (exec (fb idH) 1 [] root).2 = .error (.logicStacks 2) ∧ denoteF (fb idH) 1 root = .ok 0 :=
  ⟨.mk 0 ['r'] false [] [leaf 1], by decide, by rfl, by rfl, by rfl⟩

/-- a terminal node with an expandable property pops a sibling's result (`x` of node 2 receives the result of node 1) -/
example :
    ∃ root : PNode, ¬ WF root ∧ (visited root).map wfViolations = [[], ["terminal-with-props"], []] ∧
      (exec (fb sumH) 1 [] root).2 = .error .logicStackEmpty ∧ denoteF (fb sumH) 1 root = .ok 530 ∧
      (makeEvent (.mk 2 ['t'] true [.one ['x'] false (leaf 5)] []) [1] : List Nat × _) = ([], .ok [(['x'], .one 1)]) :=
  ⟨.mk 0 ['r'] false [.one ['a'] false (leaf 1), .one ['b'] false (.mk 2 ['t'] true [.one ['x'] false (leaf 5)] [])] [],
    by decide, by rfl, by rfl, by rfl, by rfl⟩

/-- a repeated key is flattened once and popped twice -/
example :
    ∃ root : PNode, ¬ WF root ∧ wfViolations root = ["duplicate-key"] ∧
      (exec (fb idH) 1 [] root).2 = .error .logicStackEmpty ∧ denoteF (fb idH) 1 root = .ok 0 :=
  ⟨.mk 0 ['r'] false [.one ['a'] false (leaf 1), .one ['a'] false (leaf 1)] [], by decide, by rfl, by rfl, by rfl⟩

/-- a list value under a single-valued annotation is flattened entirely and popped once: the operand is shifted
    (`a` receives only the last element) and a result is left over -/
example :
    ∃ root : PNode, ¬ WF root ∧ wfViolations root = ["annotation-shape"] ∧
      (makeEvent root [2, 1] : List Nat × _) = ([1], .ok [(['a'], .one 2)]) ∧
      (exec (fb idH) 1 [] root).2 = .error (.logicStacks 2) ∧ denoteF (fb idH) 1 root = .ok 0 :=
  ⟨.mk 0 ['r'] false [.many ['a'] false [leaf 1, leaf 2]] [], by decide, by rfl, by rfl, by rfl, by rfl⟩

/-- the converse shape error: a single node under a `list[...]` annotation makes `len()` raise a raw TypeError -/
example :
    ∃ root : PNode, ¬ WF root ∧ (exec (fb idH) 1 [] root).2 = .error .typeError ∧ denoteF (fb idH) 1 root = .ok 0 :=
  ⟨.mk 0 ['r'] false [.one ['a'] true (leaf 1)] [], by decide, by rfl, by rfl⟩

/-! ### failing nested runs: no `finally` in `exec` -/

def failH : Handler Nat := fun n _ => if n.id = 41 then .fail (.tranp ['X']) else .ret n.id
def nestedTree : PNode := .mk 40 ['n'] false [.one ['p'] false (leaf 42), .one ['q'] false (leaf 41)] []

/-- A failing run leaves its frame (with the results pushed so far) on the stack-of-stacks. `final` shows that later
    top-level runs are not affected (it holds for every initial `st`). -/
theorem failed_run_leaves_frame :
    exec (fb failH) 1 [] nestedTree = ([[42]], .error (.tranp ['X'])) := by rfl

/-- The full sentence "nested processing does not disturb the outer run" for handlers that may catch the exception of a
    nested run: the outer result is still the reference result. -/
def failed_nested_statement : Prop :=
  ∀ (hs : Handlers Nat) (fuel : Nat) (st : St Nat) (root : PNode), hs.Roots WF → WF root →
    (exec hs fuel st root).2 = denoteF hs fuel root

/-- a handler that tries a nested run, swallows its exception and returns normally -/
def catchH : Handler Nat := fun n _ =>
  if n.id = 0 then .tryCall nestedTree (fun _ => .ret 7) else failH n []

/-- False on the current code: after the caught failure `self.__stack` is the stale frame of the failed nested run, the
    outer result is pushed there and the size assertion fails. (No handler in tranp catches a nested run's exception.) -/
theorem failed_nested_counterexample : ¬ failed_nested_statement := by
  intro h
  have hr : (fb catchH).Roots WF := by
    intro cls h' hf n ev
    simp [fb, Handlers.find] at hf
    subst hf
    unfold catchH
    split
    · exact .tryCall _ _ (by decide) (fun _ => .ret _)
    · unfold failH; split <;> constructor
  have := h (fb catchH) 2 [] (.mk 0 ['r'] false [] []) hr (by decide)
  have h1 : (exec (fb catchH) 2 [] (.mk 0 ['r'] false [] [])).2 = .error (.logicStacks 2) := by rfl
  have h2 : denoteF (fb catchH) 2 (.mk 0 ['r'] false [] []) = .ok 7 := by rfl
  rw [h1, h2] at this
  cases this

/-- what happens on that witness: reference 7, real run `Errors.Logic` with two entries in the stale frame -/
example : denoteF (fb catchH) 2 (.mk 0 ['r'] false [] []) = .ok 7 ∧
    exec (fb catchH) 2 [] (.mk 0 ['r'] false [] []) = ([[7, 42], []], .error (.logicStacks 2)) := by
  refine ⟨by rfl, by rfl⟩

/-! ### `Node.prop_keys`: the class-attribute cache is history-independent -/

open Tranp.PropKeys in
/-- For every class table in which no class shares its `__name__` with a class of its own MRO, and every history of
    `prop_keys()` calls (any classes, any order, repetitions), each answer is the cache-free computation over the MRO.
    Invariant: the cache is a subset of the graph of the pure function, each entry under its own class's attribute name. -/
theorem prop_keys_history_independent (t : PropKeys.Table) (hn : NamesDistinctOnMro t) (qs : List Nat) :
    (PropKeys.run t [] qs).2 = qs.map t.pure :=
  (run_sound t hn [] (fun _ h => by simp at h) qs).1

open Tranp.PropKeys in
/-- … and from any cache such a history can have produced -/
theorem prop_keys_history_independent_from (t : PropKeys.Table) (hn : NamesDistinctOnMro t) (qs1 qs2 : List Nat) :
    (PropKeys.run t (PropKeys.run t [] qs1).1 qs2).2 = qs2.map t.pure :=
  (run_sound t hn _ (run_sound t hn [] (fun _ h => by simp at h) qs1).2 qs2).1

/-- `Node`, `Base(Node)` without expandable properties, `Sub(Base)` declaring `a` -/
def pkTable : PropKeys.Table :=
  { classes := [⟨['N'], ['m', '.', 'N'], [0]⟩, ⟨['B'], ['m', '.', 'B'], [1, 0]⟩, ⟨['S'], ['m', '.', 'S'], [2, 1, 0]⟩],
    nodeId := 0, metas := [(['m', '.', 'S'], [['a']])] }

theorem pkTable_names : PropKeys.NamesDistinctOnMro pkTable := by
  intro c i hi hname
  match c with
  | 0 => simp [pkTable, PropKeys.Table.cls] at hi; exact hi
  | 1 =>
    simp [pkTable, PropKeys.Table.cls] at hi
    rcases hi with rfl | rfl
    · rfl
    · simp [pkTable, PropKeys.Table.cls] at hname
  | 2 =>
    simp [pkTable, PropKeys.Table.cls] at hi
    rcases hi with rfl | rfl | rfl
    · rfl
    · simp [pkTable, PropKeys.Table.cls] at hname
    · simp [pkTable, PropKeys.Table.cls] at hname
  | n + 3 => simp [pkTable, PropKeys.Table.cls] at hi

/-- non-vacuity: base first, then the subclass -/
example : (PropKeys.run pkTable [] [1, 2, 0, 2]).2 = [[], [['a']], [], [['a']]] := by rfl

/-- The seeded variant (attribute name without the class name, lookup still through the MRO) is history-dependent:
    after the base class was asked, the subclass answers with the base's list. -/
def prop_keys_fixed_key_statement : Prop :=
  ∀ (t : PropKeys.Table), PropKeys.NamesDistinctOnMro t → ∀ qs : List Nat,
    (PropKeys.runWith (fun _ => "__prop_keys__".toList) t [] qs).2 = qs.map t.pure

theorem prop_keys_fixed_key_counterexample : ¬ prop_keys_fixed_key_statement := by
  intro h
  have := h pkTable pkTable_names [1, 2]
  revert this
  decide

/-- The hypothesis of `prop_keys_history_independent` is needed on the code as it is: a subclass that has the same
    `__name__` as one of its bases (another module) inherits the base's cached answer. No node class of tranp does
    (checked on the real class table on every run); the real `prop_keys()` behaves like the model on such tables
    (stream `propkeys-synth`). -/
def prop_keys_any_names_statement : Prop :=
  ∀ (t : PropKeys.Table) (qs : List Nat), (PropKeys.run t [] qs).2 = qs.map t.pure

theorem prop_keys_same_name_counterexample : ¬ prop_keys_any_names_statement := by
  intro h
  have := h { classes := [⟨['N'], ['m', '.', 'N'], [0]⟩, ⟨['A'], ['m', '.', 'A'], [1, 0]⟩, ⟨['A'], ['k', '.', 'A'], [2, 1, 0]⟩],
              nodeId := 0, metas := [(['k', '.', 'A'], [['a']])] } [1, 2]
  revert this
  decide

/-! ### `_under_expand()` is C10's `expand`: when is clause 2 of `WFNode` at stake -/

open Tranp.AstPath in
/-- When `n.under` is what `Nodes.expand` returns for the node's entry `x` at path `q` (the expand paths resolved to
    nodes by any resolver), it is empty exactly when the entry offers nothing: it has no children, or within three levels
    below it there are only unresolvable tree entries (`underQuiet`). Uses C10's `expand_spec`. -/
theorem under_empty_iff (t : Entry) (h : WfTags t) (w : World) (hw : w.cache = mkCache t) (q : Path) (x : Entry)
    (hq : (q, x) ∈ pathfy t (rootPath t)) (hrel : RelativefySafe q x)
    (resolve : Str → PNode) (n : PNode)
    (hunder : (expandPaths w (encodePath q)).map (fun ps => ps.map resolve) = .ok n.under) :
    n.under.isEmpty = true ↔ underQuiet w.table.canResolve x = true := by
  rw [expandPaths_mkCache t h w hw q x hq hrel] at hunder
  simp only [Except.map] at hunder
  have hu := Except.ok.inj hunder
  rw [← expandOf_nil_iff w.table.canResolve x q, ← hu]
  simp [List.isEmpty_iff]

open Tranp.AstPath in
/-- Clause 2 of `WFNode` for a node class on a tree position: it can fail only for a class that is not `ITerminal`, whose
    expandable properties (if any) yield nothing there, on an entry that is not quiet (a token / `__empty__` / resolvable
    entry within three levels). -/
theorem under_clause_iff (t : Entry) (h : WfTags t) (w : World) (hw : w.cache = mkCache t) (q : Path) (x : Entry)
    (hq : (q, x) ∈ pathfy t (rootPath t)) (hrel : RelativefySafe q x)
    (resolve : Str → PNode) (n : PNode)
    (hunder : (expandPaths w (encodePath q)).map (fun ps => ps.map resolve) = .ok n.under) :
    (n.terminal = false → (propExpand n.props).isEmpty = true → n.under.isEmpty = true) ↔
      (n.terminal = true ∨ (propExpand n.props).isEmpty = false ∨ underQuiet w.table.canResolve x = true) := by
  rw [under_empty_iff t h w hw q x hq hrel resolve n hunder]
  cases n.terminal <;> cases (propExpand n.props).isEmpty <;> simp

/-- non-vacuity: `r(a(x))` with `a` resolvable — the root is not quiet, the token `x` is -/
example :
    let t : AstPath.Entry := .tree ['r'] [.tree ['a'] [.token ['x'] ['v']]]
    AstPath.WfTags t ∧ AstPath.RelativefySafe [⟨['r'], none⟩] t ∧
      underQuiet (fun s => s == ['a']) t = false ∧ underQuiet (fun s => s == ['a']) (.token ['x'] ['v']) = true := by
  decide +kernel

/-! ### histories: one `Procedure` instance over a sequence of calls -/

/-- The result of `exec` (value or exception) is the same from every stack-of-stacks — for EVERY tree, well-formed or not,
    and every handler table that does not catch nested failures. (Stale frames of failed runs, frames of enclosing runs:
    none of it reaches the result.) -/
theorem exec_result_independent_of_stacks {R : Type} (hs : Handlers R) (hH : hs.Good (fun _ => True)) (fuel : Nat)
    (st1 st2 : St R) (root : PNode) : (exec hs fuel st1 root).2 = (exec hs fuel st2 root).2 :=
  exec_indep hs hH fuel st1 st2 root

/-- History independence of a `Procedure` instance. After ANY sequence of calls — `on` / `off` (also failing ones) /
    `clear_handler` / `exec` on arbitrary trees, succeeding or raising — an `exec` answers exactly like a fresh instance
    that has only seen the registrations: the instance state is the stack-of-stacks and the handler table
    (`instance_state_is_modelled`), earlier `exec`s do not change the table, and the stacks do not matter. -/
theorem exec_history_independent {R : Type} (fuel : Nat) (s : PState R) (cs : List (Call R)) (root : PNode)
    (hH : (emitterAfter s.emitter cs).table.Good (fun _ => True)) :
    (step fuel (steps fuel s cs) (.exec root)).2 = (step fuel ⟨[], emitterAfter s.emitter cs⟩ (.exec root)).2 := by
  have he := steps_emitter fuel s cs
  have hi := exec_indep (emitterAfter s.emitter cs).table hH fuel (steps fuel s cs).stacks [] root
  simp only [step, he]
  cases h1 : exec (emitterAfter s.emitter cs).table fuel (steps fuel s cs).stacks root with
  | mk a1 x1 =>
    cases h2 : exec (emitterAfter s.emitter cs).table fuel [] root with
    | mk a2 x2 =>
      rw [h1, h2] at hi
      simp only at hi
      subst hi
      cases x1 <;> rfl

/-- … and on a well-formed tree that answer is the reference result for the registered handlers, whatever happened before -/
theorem exec_history_reference {R : Type} (fuel : Nat) (s : PState R) (cs : List (Call R)) (root : PNode) (hwf : WF root)
    (hH : (emitterAfter s.emitter cs).table.Good WF) :
    (exec (emitterAfter s.emitter cs).table fuel (steps fuel s cs).stacks root).2 =
      denoteF (emitterAfter s.emitter cs).table fuel root :=
  (final _ hH fuel root hwf _).1

/-- non-vacuity: register, run a failing tree (stale frame), re-register, remove a handler, run again -/
example :
    let boom : Handler Nat := fun _ _ => .fail (.other ['V'])
    let cs : List (Call Nat) := [.on "on_fallback".toList 1 (.plain sumH), .on ("on_".toList ++ ['l']) 2 (.plain boom), .exec good,
      .off ("on_".toList ++ ['x']) 9, .off ("on_".toList ++ ['l']) 2, .on "on_fallback".toList 1 (.plain idH)]
    (steps 1 {} cs).stacks = [[]] ∧
      (step 1 (steps 1 {} cs) (.exec good)).2 = (Out.value 6321 : Out Nat) ∧
      (emitterAfter ([] : Emitter Nat) cs).map (fun e => (e.1, e.2.map (·.1))) = [("on_fallback".toList, [1])] := by
  refine ⟨by rfl, by rfl, by rfl⟩

/-- Middleware chaining (`next`): the newest callback of an action is called; a plain one shadows the rest of the chain, one
    that declares `next` gets "the rest of the chain on the same event" and running it is running that program and
    continuing with its result — in the machine (`runProg`) and in the reference (`denoteProg`) alike, so `event`, `final`,
    `exec_history_independent` … hold for chained registrations as they are (the composed handler is one `Handler`). -/
theorem chain_semantics {R : Type} (i : Nat) (h : Handler R) (k : PNode → Event R → R → HProg R)
    (rest : List (Nat × CB R)) (n : PNode) (ev : Event R)
    (nested : St R → PNode → St R × Except Err R) (dn : PNode → Except Err R) (st : St R) :
    composeCB ((i, .plain h) :: rest) n ev = h n ev ∧
    composeCB ((i, .chained fun n ev nxt => nxt.bind (k n ev)) :: rest) n ev = (composeCB rest n ev).bind (k n ev) ∧
    runProg nested st ((composeCB rest n ev).bind (k n ev)) =
      (match runProg nested st (composeCB rest n ev) with
       | (st', .ok r) => runProg nested st' (k n ev r)
       | (st', .error e) => (st', .error e)) ∧
    denoteProg dn ((composeCB rest n ev).bind (k n ev)) =
      (match denoteProg dn (composeCB rest n ev) with
       | .ok r => denoteProg dn (k n ev r)
       | .error e => .error e) :=
  ⟨rfl, rfl, runProg_bind nested _ _ st, denoteProg_bind dn _ _⟩

/-- non-vacuity: `sumH` registered first, then a chained handler that adds 1000 to what the rest of the chain returns, then
    one that calls `next` past the end of its chain (IndexError inside the handler → Errors.Fatal) -/
example :
    let plus : CB Nat := .chained fun _ _ nxt => nxt.bind fun r => .ret (r + 1000)
    let cs : List (Call Nat) := [.on "on_fallback".toList 1 (.plain sumH), .on "on_fallback".toList 2 plus,
      .on ("on_".toList ++ ['m']) 3 plus]
    (step 1 (steps 1 {} cs) (.exec (leaf 7))).2 = (Out.value 1007 : Out Nat) ∧
    (step 1 (steps 1 {} cs) (.exec good)).2 = (Out.raised .fatal : Out Nat) := by
  refine ⟨by rfl, by rfl⟩

open Tranp.Generated in
/-- The state of a `Procedure` instance, as read from `procedure.py` on this run, is what the model carries: `__stacks`
    (written by `__init__`, `exec`, `__result`, `__run_action`, `__stack_pop` = `exec`/`execImpl`/`processNode`/`popN`),
    `__emitter` (`__init__`, `on`, `off`, `clear_handler` = `Call.on/off/clear`), `__verbose` (constructor only);
    no class-level state; list lengths are re-read from the node at event time and the root is flattened on every exec
    (nothing is remembered per node). A new attribute or another source is a translator error, not a proof. -/
theorem instance_state_is_modelled :
    ProcedureState.stateWriters =
      [ ("__stacks".toList, ["__init__".toList, "exec".toList, "__result".toList, "__run_action".toList, "__stack_pop".toList]),
        ("__verbose".toList, ["__init__".toList]),
        ("__emitter".toList, ["__init__".toList, "on".toList, "off".toList, "clear_handler".toList]) ] ∧
    ProcedureState.classState = [] ∧
    ProcedureState.makeEventCount = .lenGetattrAtEventTime ∧
    ProcedureState.execFlatten = .rootProceduralOnEveryExec := by
  refine ⟨by decide, by decide, by decide, by decide⟩

/-! ### the hypotheses discharged for the shipped node definitions (table generated from `definition/*.py` on every run) -/

open Tranp.Generated Tranp.PropKeys in
/-- no node class of tranp shares its `__name__` with a class of its own MRO -/
theorem shipped_names_distinct : NamesDistinctOnMro NodeClasses.table :=
  namesDistinct_of_B _ (by decide +kernel)

open Tranp.Generated in
/-- `prop_keys()` of the shipped classes is history-independent, outright: every order and repetition of calls on any of the
    126 classes answers with the cache-free MRO computation -/
theorem shipped_prop_keys_history_independent (qs : List Nat) :
    (PropKeys.run NodeClasses.table [] qs).2 = qs.map NodeClasses.table.pure :=
  prop_keys_history_independent _ shipped_names_distinct qs

open Tranp.Generated Tranp.PropKeys in
/-- no shipped class repeats an expandable key along its MRO -/
theorem shipped_keys_nodup (c : Nat) (hc : c < NodeClasses.table.classes.length) : (NodeClasses.table.pure c).Nodup :=
  keysNodup_of_B _ (by decide +kernel) c hc

open Tranp.Generated in
/-- the `ITerminal` classes declare no expandable property -/
theorem shipped_terminals_declare_nothing : ∀ c ∈ NodeClasses.terminals, NodeClasses.table.pure c = [] := by
  decide +kernel

open Tranp.Generated in
/-- an instance of a shipped class: its property keys are the class's `prop_keys()`, and a node that refuses expansion
    (`ITerminal`, or `Terminal` on a comparison-operator tag) belongs to a class without expandable properties -/
def ShippedInstance (n : PNode) : Prop :=
  ∃ c, c < NodeClasses.table.classes.length ∧ n.props.map PProp.key = NodeClasses.table.pure c ∧
    (n.terminal = true → NodeClasses.table.pure c = [])

/-- For trees of shipped node classes `KeyConsistent` (hypothesis of `wf_necessary`) and the clauses 1 and 3 of `WFNode` hold
    by the class table; what remains of `WF` is clause 2 (nothing under a node whose properties yield nothing — see
    `under_clause_iff`) and clause 4 (annotation = run-time shape), the two the harness checks on every exported tree. -/
theorem shipped_wf_reduces (root : PNode) (hs : ∀ m ∈ visited root, ShippedInstance m)
    (h2 : ∀ m ∈ visited root, m.terminal = false → (propExpand m.props).isEmpty = true → m.under.isEmpty = true)
    (h4 : ∀ m ∈ visited root, ∀ p ∈ m.props, p.annList = p.isMany) :
    WF root ∧ ∀ m ∈ visited root, KeyConsistent m := by
  have hnd : ∀ m ∈ visited root, (m.props.map PProp.key).Nodup := by
    intro m hm
    obtain ⟨c, hc, hk, _⟩ := hs m hm
    rw [hk]; exact shipped_keys_nodup c hc
  refine ⟨fun m hm => ⟨?_, h2 m hm, ?_, h4 m hm⟩, fun m hm => keyConsistent_of_nodup m (hnd m hm)⟩
  · intro ht
    obtain ⟨c, _, hk, hterm⟩ := hs m hm
    have : m.props.map PProp.key = [] := by rw [hk, hterm ht]
    have : m.props = [] := by simpa using this
    simp [this]
  · intro p hp hcnt
    have := PropKeys.count_le_one_of_nodup _ (hnd m hm) p.key
    omega

open Tranp.Generated in
/-- non-vacuity: `If` declares condition / statements / else_ifs / else_clause (two of them lists), `Var` is a terminal -/
example :
    (NodeClasses.table.classes.map (·.name)).idxOf "If".toList < NodeClasses.table.classes.length ∧
    NodeClasses.table.pure ((NodeClasses.table.classes.map (·.name)).idxOf "If".toList) =
      ["condition".toList, "statements".toList, "else_ifs".toList, "else_clause".toList] ∧
    (NodeClasses.table.classes.map (·.name)).idxOf "Var".toList ∈ NodeClasses.terminals := by
  decide +kernel

/-! ### WF clause 4 for the shipped node definitions: annotation = shape of the getter body (table generated from the
    bodies of the 102 expandable getters on every run) -/

open Tranp.Generated in
/-- the shape table speaks about exactly `prop_keys()` of every shipped class, keys in `prop_keys()` order: nothing the
    event builder iterates over (procedure.py:196-197) is left unanalysed -/
theorem shipped_getters_cover :
    GetterShapes.shapes.map (fun row => row.map (·.1)) =
      (List.range NodeClasses.table.classes.length).map NodeClasses.table.pure := by
  decide +kernel

open Tranp.Generated in
/-- for every shipped class and every key of its `prop_keys()`: the definition `getattr(cls, key)` resolves to is
    annotated `list[...]` (what `__is_prop_list_by` reads, procedure.py:209-210) exactly when every `return` of its body
    yields a list (what `__prop_expand` sees, node.py:258) -/
theorem shipped_annotation_matches_body : ∀ row ∈ GetterShapes.shapes, ∀ e ∈ row, e.2.1 = e.2.2 := by
  decide +kernel

open Tranp.Generated in
/-- an instance of a shipped class whose property values have the shape of the getter bodies: keys, annotation flags
    and run-time shapes are the row of its class (the harness compares every exported node with this row) -/
def ShippedShaped (n : PNode) : Prop :=
  ∃ c, c < NodeClasses.table.classes.length ∧
    n.props.map (fun p => (p.key, p.annList, p.isMany)) = GetterShapes.shapes.getD c [] ∧
    (n.terminal = true → NodeClasses.table.pure c = [])

open Tranp.Generated in
theorem shippedShaped_key_row (n : PNode) (c : Nat) (hc : c < NodeClasses.table.classes.length)
    (hrow : n.props.map (fun p => (p.key, p.annList, p.isMany)) = GetterShapes.shapes.getD c []) :
    n.props.map PProp.key = NodeClasses.table.pure c := by
  have hcov := congrArg (fun l => l.getD c []) shipped_getters_cover
  simp only [List.getD_eq_getElem?_getD, List.getElem?_map, List.getElem?_range hc, Option.map_some, Option.getD_some] at hcov
  rw [← hcov]
  have : n.props.map PProp.key = (n.props.map (fun p => (p.key, p.annList, p.isMany))).map (·.1) := by
    simp [List.map_map, Function.comp_def]
  rw [this, hrow]
  cases hg : GetterShapes.shapes[c]? <;> simp [List.getD_eq_getElem?_getD, hg]

open Tranp.Generated in
theorem shippedShaped_instance (n : PNode) (h : ShippedShaped n) : ShippedInstance n := by
  obtain ⟨c, hc, hrow, ht⟩ := h
  exact ⟨c, hc, shippedShaped_key_row n c hc hrow, ht⟩

open Tranp.Generated in
theorem shippedShaped_clause4 (n : PNode) (h : ShippedShaped n) : ∀ p ∈ n.props, p.annList = p.isMany := by
  obtain ⟨c, _, hrow, _⟩ := h
  intro p hp
  have hmem : (p.key, p.annList, p.isMany) ∈ GetterShapes.shapes.getD c [] := by
    rw [← hrow]; exact List.mem_map.mpr ⟨p, hp, rfl⟩
  rw [List.getD_eq_getElem?_getD] at hmem
  cases hg : GetterShapes.shapes[c]? with
  | none => simp [hg] at hmem
  | some row =>
    simp only [hg, Option.getD_some] at hmem
    exact shipped_annotation_matches_body row (List.mem_of_getElem? hg) _ hmem

open Tranp.Generated in
/-- WF clause 2 ("nothing under a node whose properties yield nothing") is vacuous for most shipped classes: a node whose
    properties yield nothing has only list-shaped properties, so its class is one whose getters ALL return lists
    (`Entrypoint`, `List`, `Dict`, `Tuple`, `Block`, … — or a class without expandable getter). One node-shaped getter
    (`.one`) already makes the expansion non-empty. The harness reports which of these classes it met childless. -/
theorem shipped_clause2_only_all_list (n : PNode) (h : ShippedShaped n) (hempty : (propExpand n.props).isEmpty = true) :
    ∃ c, c < NodeClasses.table.classes.length ∧ n.props.map PProp.key = NodeClasses.table.pure c ∧
      (GetterShapes.shapes.getD c []).all (fun e => e.2.2) = true := by
  obtain ⟨c, hc, hk, _⟩ := shippedShaped_instance n h
  have hnd : (n.props.map PProp.key).Nodup := by rw [hk]; exact shipped_keys_nodup c hc
  have hdup : DupEmpty n.props := by
    intro p _ hcnt
    have := PropKeys.count_le_one_of_nodup _ hnd p.key
    omega
  rw [propExpand_of_dupEmpty _ hdup] at hempty
  have hall : ∀ p ∈ n.props, p.isMany = true := by
    intro p hp
    cases p with
    | one k a m =>
      have : m ∈ n.props.flatMap PProp.nodes := List.mem_flatMap.mpr ⟨_, hp, by simp [PProp.nodes]⟩
      have hnil : n.props.flatMap PProp.nodes = [] := by simpa using hempty
      rw [hnil] at this; simp at this
    | many k a ms => rfl
  obtain ⟨c', hc', hrow, _⟩ := h
  refine ⟨c', hc', shippedShaped_key_row n c' hc' hrow, ?_⟩
  rw [← hrow, List.all_map]
  simp only [List.all_eq_true, Function.comp]
  exact fun p hp => hall p hp

open Tranp.Generated in
/-- non-vacuity: an empty module (`Entrypoint` with `statements = []`) is shipped-shaped and its properties yield nothing;
    its row is all-list, while the row of `If` is not (so an `If` node can never be in the situation of clause 2) -/
example :
    let e : PNode := .mk 0 "entrypoint".toList false [.many "statements".toList true []] []
    ShippedShaped e ∧ (propExpand e.props).isEmpty = true ∧
    (GetterShapes.shapes.getD ((NodeClasses.table.classes.map (·.name)).idxOf "If".toList) []).all (fun x => x.2.2) = false := by
  refine ⟨⟨(NodeClasses.table.classes.map (·.name)).idxOf "Entrypoint".toList, by decide +kernel, by decide +kernel, by simp [PNode.terminal]⟩,
    by decide, by decide +kernel⟩

/-- For trees of shipped node classes whose property values have the shape of the getter bodies, ALL of `WF` but clause 2
    holds by the generated tables: what remains is "nothing under a node whose properties yield nothing" (`under_clause_iff`). -/
theorem shipped_wf_reduces_to_under (root : PNode) (hs : ∀ m ∈ visited root, ShippedShaped m)
    (h2 : ∀ m ∈ visited root, m.terminal = false → (propExpand m.props).isEmpty = true → m.under.isEmpty = true) :
    WF root ∧ ∀ m ∈ visited root, KeyConsistent m :=
  shipped_wf_reduces root (fun m hm => shippedShaped_instance m (hs m hm)) h2 (fun m hm => shippedShaped_clause4 m (hs m hm))

open Tranp.Generated in
/-- non-vacuity: an `If` node (class id by name) with one condition, no statements, no else-ifs and an else clause is
    `ShippedShaped`; the row of `If` has two list-shaped and two single getters -/
example :
    let c := (NodeClasses.table.classes.map (·.name)).idxOf "If".toList
    GetterShapes.shapes.getD c [] =
      [("condition".toList, false, false), ("statements".toList, true, true), ("else_ifs".toList, true, true), ("else_clause".toList, false, false)] ∧
    ShippedShaped (.mk 9 ['i', 'f'] false
      [.one "condition".toList false (leaf 1), .many "statements".toList true [], .many "else_ifs".toList true [],
       .one "else_clause".toList false (leaf 2)] []) := by
  refine ⟨by decide +kernel, (NodeClasses.table.classes.map (·.name)).idxOf "If".toList, by decide +kernel, by decide +kernel, by simp [PNode.terminal]⟩

end Tranp.C09
