/-
  Property C14 — Exporting and re-importing the symbol table loses nothing.
  Property theorems only; helper lemmas live in Tranp/Lemmas/SymbolJson.lean.
-/
import Tranp.Lemmas.SymbolJson
import Tranp.Lemmas.SymbolJsonExact
import Tranp.Lemmas.SymbolJsonText
import Tranp.Generated.SymbolTables
import Tranp.Generated.SymbolDbState
import Tranp.Generated.SymbolRows

namespace Tranp.C14
open Tranp Tranp.SymbolJson
open Tranp.Lark (Json printJson parseJson)

/-! ### flattening -/

/-- `seqs.expand` (dict merges, accumulated paths) lists the forest in pre-order. -/
theorem expand_eq_flatten (f : Forest) : expand f = flatten f := SymbolJson.expand_eq_flatten f

/-- non-vacuity: a forest with 11 children below one node (two-digit index "0.10") -/
example :
    let leaf : Attr := .mk ['i'] []
    let f : Forest := [.mk ['t'] [leaf, leaf, leaf, leaf, leaf, leaf, leaf, leaf, leaf, leaf, .mk ['s'] [leaf]], leaf]
    (expand f == flatten f && (expand f).length == 14 && dictGet? (expand f) [0, 10, 0] == some ['i']) = true := by
  decide +kernel

/-- The dotted decimal spelling of an index path decodes to the path, and its number of dots is the depth. -/
theorem path_codec (p : Path) (h : p ≠ []) :
    decPath (encPath p) = some p ∧ Str.count '.' (encPath p) = depth p :=
  ⟨decPath_encPath p h, count_encPath p⟩

example : encPath [1, 10, 2] = ['1', '.', '1', '0', '.', '2'] ∧ decPath ['1', '.', '1', '0', '.', '2'] = some [1, 10, 2] := by
  decide +kernel

/-- The depth sort is a rearrangement of the keys, ordered by depth, and stable (so it is Python's `sorted`). -/
theorem sort_spec (l : Flat) :
    (sortByDepth l).Perm l ∧ (sortByDepth l).Pairwise (fun a b => depth a.1 ≤ depth b.1) ∧
    ∀ d, (sortByDepth l).filter (fun pk => depth pk.1 == d) = l.filter (fun pk => depth pk.1 == d) :=
  ⟨sortByDepth_perm l, sortByDepth_sorted l, sortByDepth_stable l⟩

/-! ### rebuilding -/

/-- `rebuild (flatten f) = f` for every forest (any width, any depth): `_deserialize_attrs` run on the exported dict of `f`
    returns reflections whose type keys and attributes are `f` again — provided every key of `f` is a table key whose entry
    has that very type key and the entries of leaf keys have no attributes of their own (`GoodL`). -/
theorem attrs_rt (look : Lookup) (f : Forest) (h : GoodL look f) :
    ∃ rs, rebuild look (expand f) = .ok rs ∧ obsList rs = f :=
  ⟨embedFullL look f, by rw [SymbolJson.expand_eq_flatten]; exact rebuild_flatten look f h, obsList_embedFullL look f h⟩

/-- non-vacuity: width 11 and depth 3 against a table of attribute-less self-typed entries -/
example :
    let look : Lookup := fun k => some (k, [])
    let leaf : Attr := .mk ['i'] []
    let f : Forest := [.mk ['d'] [.mk ['s'] [], .mk ['t'] [leaf, leaf, leaf, leaf, leaf, leaf, leaf, leaf, leaf, leaf, .mk ['l'] [leaf]]], leaf]
    (match rebuild look (expand f) with
      | .ok rs => decide (obsList rs = f)
      | .error _ => false) = true := by
  decide +kernel

/-- the hypothesis on leaves is needed: a leaf whose table entry has attributes shows them after the rebuild -/
example :
    let look : Lookup := fun k => some (k, if k = ['g'] then [.mk ['T'] []] else [])
    let f : Forest := [.mk ['g'] []]
    (match rebuild look (expand f) with
      | .ok rs => decide (obsList rs = [.mk ['g'] [.mk ['T'] []]])
      | .error _ => false) = true := by
  decide +kernel

/-- Within the depth-sorted paths of a flattened forest the grouping scan of `_deserialize_attrs` meets every parent path
    exactly once: the scanned list is the concatenation of its groups, each group has one parent, and no parent occurs in two
    groups — same-parent paths are consecutive (the fact `extends` relies on: a second group of a parent raises). -/
theorem flatten_order (f : Forest) :
    (groups (sortByDepth (flatten f))).flatten = sortByDepth (flatten f) ∧
    (∀ g ∈ groups (sortByDepth (flatten f)), ∀ y ∈ g, parent y.1 = groupParent g) ∧
    ((groups (sortByDepth (flatten f))).map groupParent).Nodup := by
  have := groupsFuel_spec (sortByDepth (flatten f)).length (sortByDepth (flatten f)) (Nat.le_refl _)
  exact ⟨this.1, this.2, groupParents_nodup f⟩

example :
    let leaf : Attr := .mk ['i'] []
    let f : Forest := [.mk ['a'] [leaf, .mk ['b'] [leaf, leaf]], .mk ['c'] [leaf]]
    (groups (sortByDepth (flatten f))).map groupParent = [[], [0], [1], [0, 1]] := by
  decide +kernel

/-! ### table -/

/-- After `import_json` every module that owns an imported key counts as completed. -/
theorem completed (W : World) (t t1 : Table) (d : List (Str × Row)) (h : importJson W t d = .ok t1) :
    ∀ kr ∈ d, t1.isCompleted (modOf kr.1) = true :=
  importJson_completed W d t t1 h

/-- Importing the same rows twice gives the table of importing them once — when no row refers to its own key or to the
    key of a later row (which is what the export-order law provides, `refsEarlier_of_avail`). -/
theorem import_idem (W : World) (t t1 : Table) (d : List (Str × Row))
    (hn : (d.map Prod.fst).Nodup) (he : RefsEarlier d) (h : importJson W t d = .ok t1) :
    importJson W t1 d = .ok t1 :=
  importJson_again W d t1 (importJson_fixed W d t t1 h hn he)

theorem export_rows (W : World) (t : Table) (M : Str) (hM : M ≠ []) (d : List (Str × Row))
    (h : toJson W t (some M) = .ok d) :
    d.map Prod.fst = orderKeys W t (some M) ∧ (d.map Prod.fst).Nodup ∧
    (∀ kr ∈ d, modOf kr.1 = M ∧ ∃ s, dictGet? t.items kr.1 = some s ∧ kr.2 = serialize W s) ∧
    (∀ ks ∈ t.items, modOf ks.1 = M → ks.1 ∈ d.map Prod.fst) := by
  unfold toJson at h
  obtain ⟨hn, hm, _, hall⟩ := orderKeysLoop_spec W t M hM t.items [] (by simp) (by simp)
  change (orderKeys W t (some M)).Nodup at hn
  change ∀ x ∈ orderKeys W t (some M), modOf x = M at hm
  change ∀ ks ∈ t.items, modOf ks.1 = M → ks.1 ∈ orderKeys W t (some M) at hall
  obtain ⟨rows, h1, h2, h3⟩ := toJsonRows_nodup W t _ [] d h hn (by simp)
  simp only [List.nil_append] at h1
  subst h1
  refine ⟨h2, by rw [h2]; exact hn, ?_, ?_⟩
  · intro kr hkr
    exact ⟨hm kr.1 (by rw [← h2] ; exact List.mem_map_of_mem hkr), h3 kr hkr⟩
  · intro ks hks hmod
    rw [h2]
    exact hall ks hks hmod

/-- **Round trip.** Export module `M` of table `t`, import the rows into a table `b` that holds exactly the entries of the
    other modules: the import succeeds and every key of `M` is restored with the same types, node, declaration and attribute
    forest, and `M` counts as completed — for tables whose entries satisfy `SymOK` and exports that satisfy the order law. -/
theorem rt (W : World) (t b : Table) (M : Str) (d : List (Str × Row)) (hM : M ≠ [])
    (hb : b.items = t.items.filter (fun ks => modOf ks.1 != M))
    (hexp : toJson W t (some M) = .ok d)
    (hord : RefsAvail (baseKeys t M) d)
    (hwf : ∀ K s, dictGet? t.items K = some s → modOf K = M → SymOK W t s) :
    ∃ T, importJson W b d = .ok T ∧
      ∀ K s, dictGet? t.items K = some s → modOf K = M →
        (∃ s', dictGet? T.items K = some s' ∧ DescEq s' s) ∧ T.isCompleted M = true := by
  obtain ⟨_, _, hrows, hall⟩ := export_rows W t M hM d hexp
  have hag : Agree b t (baseKeys t M) := by
    intro r hr
    unfold baseKeys at hr
    obtain ⟨v, hv⟩ := dictGet_of_mem_keys _ r hr
    have h1 := dictGet_filter (fun k => modOf k != M) t.items r
    rw [hv] at h1
    split at h1
    · exact ⟨v, v, by rw [hb, hv], h1.symm, DescEq.rfl' v⟩
    · cases h1
  obtain ⟨T, hT, hagT⟩ := import_restores W t d b (baseKeys t M)
    (fun kr hkr => by
      obtain ⟨hm, s, hs, hr⟩ := hrows kr hkr
      exact ⟨s, hs, hr, hwf kr.1 s hs hm⟩)
    hord hag
  refine ⟨T, hT, ?_⟩
  intro K s hs hmod
  have hK : K ∈ d.map Prod.fst := hall (K, s) (mem_of_dictGet _ _ _ hs) hmod
  obtain ⟨s', s0, h1, h2, h3⟩ := hagT K (List.mem_append.mpr (Or.inr hK))
  rw [hs] at h2
  cases h2
  refine ⟨⟨s', h1, h3⟩, ?_⟩
  obtain ⟨kr, hkr, hk⟩ := List.mem_map.mp hK
  have := importJson_completed W d b T hT kr hkr
  rw [hk, hmod] at this
  exact this

/-! ### export order (`_order_keys_recursive` after fix 95feeba) -/

/-- the order law: no exported row refers to a key of the module that is not exported earlier — for every table that is
    `Loaded` (every reference is a key, in-module type keys are class symbols, class symbols do not refer to themselves through
    their attributes [rank], `via` is a key of another module or one of the entry's own type keys) -/
def order_statement : Prop :=
  ∀ (W : World) (t : Table) (M : Str) (d : List (Str × Row)) (rank : Str → Nat),
    M ≠ [] → Loaded W t M rank → toJson W t (some M) = .ok d → RefsAvail (baseKeys t M) d

/-- **The export-order law holds for the repaired algorithm.** -/
theorem order : order_statement := by
  intro W t M d rank hM hl hexp
  obtain ⟨hk, _, hrows, _⟩ := export_rows W t M hM d hexp
  apply refsAvail_of_valid W t d (fun kr hkr => (hrows kr hkr).2)
  rw [hk]
  exact orderKeysLoop_valid W t M hM rank hl t.items (fun _ h => h) [] trivial

/-- round trip, completion and idempotence from the invariants of a loaded table alone -/
theorem rt_loaded (W : World) (t b : Table) (M : Str) (d : List (Str × Row)) (rank : Str → Nat) (hM : M ≠ [])
    (hb : b.items = t.items.filter (fun ks => modOf ks.1 != M))
    (hexp : toJson W t (some M) = .ok d) (hl : Loaded W t M rank)
    (hwf : ∀ K s, dictGet? t.items K = some s → modOf K = M → SymOK W t s) :
    ∃ T, importJson W b d = .ok T ∧ importJson W T d = .ok T ∧
      ∀ K s, dictGet? t.items K = some s → modOf K = M →
        (∃ s', dictGet? T.items K = some s' ∧ DescEq s' s) ∧ T.isCompleted M = true := by
  have hord := order W t M d rank hM hl hexp
  obtain ⟨T, hT, hrest⟩ := rt W t b M d hM hb hexp hord hwf
  obtain ⟨_, hn, hrows, _⟩ := export_rows W t M hM d hexp
  have he : RefsEarlier d := by
    apply refsEarlier_of_avail d (baseKeys t M) hord _ hn
    intro kr hkr hmem
    unfold baseKeys at hmem
    obtain ⟨ks, hks, hk⟩ := List.mem_map.mp hmem
    have := (List.mem_filter.mp hks).2
    rw [hk, (hrows kr hkr).1] at this
    simp at this
  exact ⟨T, hT, import_idem W b T d hn he hT, hrest⟩

/-! ### concrete tables: the counterexample to the full order law, and non-vacuity of the invariants -/

namespace Ex

def kI : Str := ['c', '#', 'i']
def kT : Str := ['m', '#', 'T']
def kG : Str := ['m', '#', 'G']
def kF : Str := ['m', '#', 'f']
def kX : Str := ['m', '#', 'x']
def M : Str := ['m']

/-- node DSN = key; every node is a class definition except the variable `m#x` -/
def W : World := { known := fun _ => true, isClassDef := fun n => n != kX, isDecl := fun _ => true, fullyname := id }

def cls (k : Str) (attrs : Forest) : Sym := { types := k, node := k, decl := k, via := k, attrs := attrs }

/-- `def f(x: 'G[int]') -> None: ...` / `T = TypeVar('T')` / `class G(Generic[T]): ...` — `f` mentions `G[int]` before `T`, `G` -/
def forward : Table := { items := [(kI, cls kI []), (kF, cls kF [.mk kG [.mk kI []]]), (kT, cls kT []), (kG, cls kG [.mk kT []])] }

/-- the same module with the declarations in dependency order, plus a variable `x: G[int]` -/
def ordered : Table := { items := [(kI, cls kI []), (kT, cls kT []), (kG, cls kG [.mk kT []]), (kF, cls kF [.mk kG [.mk kI []]]),
  (kX, { types := kG, node := kX, decl := kX, via := kG, attrs := [.mk kI []] })] }

def orderOK (W : World) (t : Table) (M : Str) : Bool :=
  match toJson W t (some M) with
  | .ok d => decide (RefsAvail (baseKeys t M) d)
  | .error _ => true

end Ex

/-- rank of the example keys: `T` < `G` < `f`, `x` -/
def Ex.rank (k : Str) : Nat := if k = Ex.kG then 1 else if k = Ex.kF ∨ k = Ex.kX then 2 else 0

/-- a class that mentions itself through its base class: `class A(B[A])`-like entries `A ↦ [B]`, `B ↦ [A]` -/
def Ex.cyclic : Table := { items := [(Ex.kT, Ex.cls Ex.kT [.mk Ex.kG []]), (Ex.kG, Ex.cls Ex.kG [.mk Ex.kT []])] }

/-- regression (corpus/C14/order-forward-generic.json): the table of `def f(x: 'G[int]')` / `T = TypeVar('T')` / `class G(Generic[T])`
    was exported as `G, f, T` before fix 95feeba; the repaired walk lists `T` before `G` -/
example : orderKeys Ex.W Ex.forward (some Ex.M) = [Ex.kT, Ex.kG, Ex.kF] ∧ Ex.orderOK Ex.W Ex.forward Ex.M = true := by
  decide +kernel

/-- non-vacuity of `order`: the forward-reference table and the dependency-ordered table are `Loaded` -/
example : Loaded Ex.W Ex.forward Ex.M Ex.rank :=
  ⟨by decide +kernel, by decide +kernel, by decide +kernel, by decide +kernel, by decide +kernel, by decide +kernel⟩

example : Loaded Ex.W Ex.ordered Ex.M Ex.rank ∧ Ex.orderOK Ex.W Ex.ordered Ex.M = true :=
  ⟨⟨by decide +kernel, by decide +kernel, by decide +kernel, by decide +kernel, by decide +kernel, by decide +kernel⟩, by decide +kernel⟩

/-- the rank hypothesis is needed: for classes that refer to each other no export order can be imported -/
example : Ex.orderOK Ex.W Ex.cyclic Ex.M = false := by decide +kernel

example :
    (match toJson Ex.W Ex.ordered (some Ex.M) with
      | .ok d =>
        (match importJson Ex.W { items := Ex.ordered.items.filter (fun ks => modOf ks.1 != Ex.M) } d with
          | .ok T =>
            decide (T.items = Ex.ordered.items ∧ T.isCompleted Ex.M = true) &&
              (match importJson Ex.W T d with
                | .ok T2 => decide (T2 = T)
                | .error _ => false)
          | .error _ => false)
      | .error _ => false) = true := by
  decide +kernel

/-- … and its entries satisfy the well-formedness invariant of `rt` -/
example : ∀ K s, dictGet? Ex.ordered.items K = some s → modOf K = Ex.M → SymOK Ex.W Ex.ordered s := by
  intro K s h _
  have hmem := mem_of_dictGet _ _ _ h
  have gI : Table.lookup Ex.W Ex.ordered Ex.kI = some (Ex.kI, []) := by decide +kernel
  have gT : Table.lookup Ex.W Ex.ordered Ex.kT = some (Ex.kT, []) := by decide +kernel
  have gG : Table.lookup Ex.W Ex.ordered Ex.kG = some (Ex.kG, [.mk Ex.kT []]) := by decide +kernel
  simp only [Ex.ordered, List.mem_cons, Prod.mk.injEq, List.not_mem_nil, or_false] at hmem
  rcases hmem with ⟨_, rfl⟩ | ⟨_, rfl⟩ | ⟨_, rfl⟩ | ⟨_, rfl⟩ | ⟨_, rfl⟩
  · exact ⟨fun _ => ⟨rfl, rfl⟩, fun h => absurd h (by decide), trivial⟩
  · exact ⟨fun _ => ⟨rfl, rfl⟩, fun h => absurd h (by decide), trivial⟩
  · exact ⟨fun _ => ⟨rfl, rfl⟩, fun h => absurd h (by decide), ⟨⟨_, gT, fun _ => rfl⟩, trivial⟩, trivial⟩
  · exact ⟨fun _ => ⟨rfl, rfl⟩, fun h => absurd h (by decide),
      ⟨⟨_, gG, fun h => absurd h (by decide)⟩, ⟨⟨_, gI, fun _ => rfl⟩, trivial⟩, trivial⟩, trivial⟩
  · exact ⟨fun h => absurd h (by decide),
      fun _ => ⟨rfl, rfl, rfl, Ex.cls Ex.kG [.mk Ex.kT []], by decide +kernel, rfl, fun h => absurd h (by decide)⟩,
      ⟨⟨_, gI, fun _ => rfl⟩, trivial⟩, trivial⟩

/-- non-vacuity of `import_idem` / `completed`: rows in reference order -/
example :
    let d : List (Str × Row) := [(Ex.kT, .symbol Ex.kT []), (Ex.kG, .symbol Ex.kG [([0], Ex.kT)]),
      (Ex.kX, .reflection Ex.kX Ex.kX Ex.kG Ex.kG [([0], Ex.kI)])]
    RefsEarlier d ∧ (d.map Prod.fst).Nodup ∧
      (match importJson Ex.W { items := [(Ex.kI, Ex.cls Ex.kI [])] } d with
        | .ok t1 =>
          decide (t1.isCompleted Ex.M = true) &&
            (match importJson Ex.W t1 d with
              | .ok t2 => decide (t2 = t1)
              | .error _ => false)
        | .error _ => false) = true := by
  refine ⟨?_, by decide +kernel, by decide +kernel⟩
  simp only [RefsEarlier, rowRefs]
  decide +kernel


/-! ### fuel of the order walk, and what cyclic references mean for the order law -/

/-- **Fuel sufficiency for every table**, also with class entries that refer to themselves or to each other: every expansion
    adds a new table key to `resolving`, so the walk started by `_order_keys` (fuel = number of keys + 1) is the walk with any
    larger fuel — the fuel bound is never reached and the model computes what the unbounded recursion computes. -/
theorem order_fuel (t : Table) (fm : Option Str) (n : Nat) (hn : t.items.length + 1 ≤ n) (f : Forest) (o : List Str) :
    orderFuel t.entryAttrs fm n f o [] = orderFuel t.entryAttrs fm (t.items.length + 1) f o [] :=
  orderFuel_sufficient t fm n hn f o

/-- **An importable order is a rank.** If rows `d` can be imported in the listed order into a table holding `avail`, then the
    keys of `d` carry a rank that strictly decreases along every reference between them. So for rows with cyclic references
    NO order is importable — whatever `_order_keys` does; the acyclicity hypothesis of `order` is necessary, not a weakness of
    the algorithm. -/
theorem importable_acyclic (d : List (Str × Row)) (avail : List Str) (ha : RefsAvail avail d)
    (hd : ∀ kr ∈ d, kr.1 ∉ avail) (hn : (d.map Prod.fst).Nodup) :
    ∃ rank : Str → Nat, ∀ kr ∈ d, ∀ r ∈ rowRefs kr.2, r ∈ d.map Prod.fst → rank r < rank kr.1 :=
  importable_rank d avail ha hd hn

/-- two rows that refer to each other cannot be imported in any order -/
theorem cyclic_unimportable (d : List (Str × Row)) (avail : List Str) (k1 k2 : Str) (r1 r2 : Row)
    (h1 : (k1, r1) ∈ d) (h2 : (k2, r2) ∈ d) (h12 : k2 ∈ rowRefs r1) (h21 : k1 ∈ rowRefs r2)
    (hd : ∀ kr ∈ d, kr.1 ∉ avail) (hn : (d.map Prod.fst).Nodup) : ¬ RefsAvail avail d :=
  mutual_refs_unimportable d avail k1 k2 r1 r2 h1 h2 h12 h21 hd hn

/-- non-vacuity: the two rows of `Ex.cyclic` refer to each other; both listings fail -/
example :
    let rT : Row := .symbol Ex.kT [([0], Ex.kG)]
    let rG : Row := .symbol Ex.kG [([0], Ex.kT)]
    (decide (RefsAvail [] [(Ex.kT, rT), (Ex.kG, rG)]) || decide (RefsAvail [] [(Ex.kG, rG), (Ex.kT, rT)])) = false := by
  decide +kernel

/-! ### `deserialize` writes only into objects it created itself -/

/-- `_deserialize_attrs` on a prefix-closed dict (every exported dict is one) never walks into an attribute object of a table
    entry and so never extends one in place: the model's domain limit `out-of-model` is unreachable for it. -/
theorem rebuild_isolated (look : Lookup) (data : Flat) (hp : PrefixClosed data) : rebuild look data ≠ .error .sharedEntry :=
  rebuild_not_shared look data hp

/-- what `serialize` writes is prefix-closed -/
theorem export_prefixClosed (f : Forest) : PrefixClosed (expand f) := by
  rw [SymbolJson.expand_eq_flatten]; exact flatten_prefixClosed f

/-- no row of an export makes `deserialize` touch an attribute object of an existing table entry, whatever the table holds -/
theorem deserialize_isolated (W : World) (t : Table) (s : Sym) : deserialize W t (serialize W s) ≠ .error .sharedEntry := by
  have hr := rebuild_not_shared (t.lookup W) (expand s.attrs) (export_prefixClosed s.attrs)
  have hreb : ∀ (g : List RNode → Sym),
      (match rebuild (t.lookup W) (expand s.attrs) with
        | .error e => (Except.error e : Except Err Sym)
        | .ok rs => .ok (g rs)) ≠ .error .sharedEntry := by
    intro g
    cases h : rebuild (t.lookup W) (expand s.attrs) with
    | error e => simp only; intro hc; cases hc; exact hr h
    | ok rs => simp
  unfold serialize
  by_cases hc : s.isClassSymbol W = true
  · simp only [hc, if_true, deserialize]
    by_cases h1 : W.known s.types = true
    · by_cases h2 : W.isClassDef s.types = true
      · simp only [h1, h2, Bool.not_true, Bool.false_eq_true, if_false]
        exact hreb _
      · simp [h1, h2]
    · simp [h1]
  · simp only [hc, if_false, deserialize, Table.get]
    by_cases h1 : W.known s.node = true
    · by_cases h2 : W.known s.decl = true
      · by_cases h3 : W.isDecl s.decl = true
        · simp only [h1, h2, h3, Bool.not_true, Bool.false_eq_true, if_false]
          cases dictGet? t.items (s.typesKey W) with
          | none => simp
          | some o =>
            simp only
            by_cases hv : (s.typesKey W != s.via) = true
            · simp only [hv, if_true]
              cases dictGet? t.items s.via with
              | none => simp
              | some v => simp only; exact hreb _
            · simp only [hv, if_false]
              exact hreb _
        · simp [h1, h2, h3]
      · simp [h1, h2]
    · simp [h1]

example : PrefixClosed [([0], ['a']), ([0, 0], ['b']), ([0, 0, 3], ['c'])] ∧ ¬ PrefixClosed [([0], ['a']), ([0, 0, 0], ['c'])] := by
  constructor
  · intro pk hpk hl
    simp only [List.mem_cons, List.not_mem_nil, or_false] at hpk
    rcases hpk with rfl | rfl | rfl <;> simp [parent] at hl ⊢
  · intro h
    have := h ([0, 0, 0], ['c']) (by simp) (by simp)
    simp [parent] at this

/-! ### shared objects -/

/-- `seqs.expand` does not look at object identity: an object that sits in several slots is exported once per slot, with
    its whole sub-forest each time (`expandI` on objects with identity = `expand` on what they show). -/
theorem expand_shared (f : IForest) : expandI f = expand (eraseL f) := expandI_erase f

/-- `attrs_rt` for DAG-shaped forests: the export duplicates shared sub-forests, the import rebuilds a tree (new objects) that
    shows the same forest. -/
theorem attrs_rt_shared (look : Lookup) (f : IForest) (h : GoodL look (eraseL f)) :
    ∃ rs, rebuild look (expandI f) = .ok rs ∧ obsList rs = eraseL f := by
  rw [expandI_erase]; exact attrs_rt look (eraseL f) h

/-- regression (seeded mutation): with a visited-set of object ids the second slot of a shared object loses its children,
    and the import shows `tuple[list, list]` for `tuple[list[int], list[int]]` -/
theorem visited_counterexample :
    ∃ (f : IForest) (look : Lookup), GoodL look (eraseL f) ∧ expandVisited f ≠ expandI f ∧
      ∀ rs, rebuild look (expandVisited f) = .ok rs → obsList rs ≠ eraseL f := by
  refine ⟨[.mk 1 ['t'] [.mk 2 ['l'] [.mk 3 ['i'] []], .mk 2 ['l'] [.mk 3 ['i'] []]]], fun k => some (k, []), ?_, by decide +kernel, ?_⟩
  · exact ⟨⟨⟨[], rfl, fun h => absurd h (by decide)⟩,
      ⟨⟨⟨[], rfl, fun h => absurd h (by decide)⟩, ⟨⟨⟨[], rfl, fun _ => rfl⟩, trivial⟩, trivial⟩⟩,
       ⟨⟨[], rfl, fun h => absurd h (by decide)⟩, ⟨⟨⟨[], rfl, fun _ => rfl⟩, trivial⟩, trivial⟩⟩, trivial⟩⟩, trivial⟩
  · intro rs hrs
    have hb : (match rebuild (fun k => some (k, [])) (expandVisited [.mk 1 ['t'] [.mk 2 ['l'] [.mk 3 ['i'] []], .mk 2 ['l'] [.mk 3 ['i'] []]]]) with
        | .ok rs => decide (obsList rs ≠ eraseL [.mk 1 ['t'] [.mk 2 ['l'] [.mk 3 ['i'] []], .mk 2 ['l'] [.mk 3 ['i'] []]]])
        | .error _ => true) = true := by decide +kernel
    rw [hrs] at hb
    simpa using hb

/-- **`to_temporary` is isolated, at every nesting depth.** The copy shows the same forest, consists of new objects only, and no
    sequence of writes into objects of the copy (or into objects created later) changes the table entry. -/
theorem to_temporary_isolated (a : IAttr) (n : Nat) (h : ∀ i ∈ idsN a, i < n) :
    eraseN (toTemp a n).1 = eraseN a ∧ (∀ i ∈ idsN (toTemp a n).1, i ∉ idsN a) ∧
      ∀ ws : List (Nat × Nat × IAttr), (∀ w ∈ ws, w.1 ∈ idsN (toTemp a n).1 ∨ n ≤ w.1) → applyWrites ws a = a := by
  obtain ⟨h1, _, h3⟩ := toTemp_spec a n
  refine ⟨h1, ?_, ?_⟩
  · intro i hi hia
    have := (h3 i hi).1
    have := h i hia
    omega
  · intro ws hws
    apply applyWrites_noop
    intro w hw hwa
    have := h w.1 hwa
    rcases hws w hw with h' | h'
    · have := (h3 w.1 h').1; omega
    · omega

/-- regression (seeded mutation): a copy that shares every attribute without a type variable among its DIRECT children leaks
    the write `list[list[list[T]]]`·`0.0.0 := str` into the table entry -/
theorem shallow_temporary_counterexample :
    ∃ (isTV : Str → Bool) (a : IAttr) (n : Nat), (∀ i ∈ idsN a, i < n) ∧
      ∃ target ∈ idsN (toTempShallow isTV a n).1, ∃ j v, setSlot target j v a ≠ a := by
  refine ⟨fun k => k == ['T'], .mk 0 ['l'] [.mk 1 ['l'] [.mk 2 ['l'] [.mk 3 ['T'] []]]], 10, by decide, 2, by decide +kernel, 0, .mk 9 ['s'] [], by decide +kernel⟩

/-- non-vacuity: the real copy of the same entry has four new objects and the same write leaves the entry alone -/
example :
    let a : IAttr := .mk 0 ['l'] [.mk 1 ['l'] [.mk 2 ['l'] [.mk 3 ['T'] []]]]
    (idsN (toTemp a 10).1 = [10, 11, 12, 13] ∧ setSlot 12 0 (.mk 9 ['s'] []) a = a ∧
      setSlot 12 0 (.mk 9 ['s'] []) (toTemp a 10).1 = .mk 10 ['l'] [.mk 11 ['l'] [.mk 12 ['l'] [.mk 9 ['s'] []]]]) := by
  decide +kernel


/-! ### node DSNs -/

/-- `deserialize` finds the node `serialize` wrote: `ModuleDSN.parsed(ModuleDSN.full_joined(module, path)) = (module, path)` for a
    non-empty module path, when neither part contains `#`; and the module of a key (`modOf`) is `parsed(key)[0]`. -/
theorem dsn_rt (m p : Str) (hm : m ≠ []) (hm' : ∀ c ∈ m, c ≠ '#') (hp' : ∀ c ∈ p, c ≠ '#') :
    dsnParsed (fullJoined m [p]) = (m, p) ∧ modOf (fullJoined m [p]) = m := by
  have h := dsnParsed_fullJoined m p hm hm' hp'
  exact ⟨h, by rw [modOf_eq_parsed, h]⟩

example : fullJoined ['a', '.', 'b'] [['f', '.', 'c', '[', '1', ']']] = ['a', '.', 'b', '#', 'f', '.', 'c', '[', '1', ']'] ∧
    dsnParsed ['a', '.', 'b', '#', 'f', '.', 'c', '[', '1', ']'] = (['a', '.', 'b'], ['f', '.', 'c', '[', '1', ']']) ∧
    -- the guard is needed: an empty module path loses the separator
    dsnParsed (fullJoined [] [['f']]) = (['f'], []) := by
  decide +kernel

/-! ### every entry kind carries its attributes; the import does not consume its input -/

namespace Ex

def kNX : Str := ['n', '#', 'x']
def nImp : Str := ['n', '#', 'i', 'm', 'p']

def W2 : World := { known := fun _ => true, isClassDef := fun n => n != kX && n != nImp, isDecl := fun _ => true, fullyname := id }

/-- module `m` as in `ordered`, and module `n` with `from m import x`: an imported variable of the generic type `G[int]`; its node is
    the import statement, its declaration the variable of `m`, its attributes are those of the variable -/
def withImport : Table := { items := ordered.items ++ [(kNX, { types := kG, node := nImp, decl := kX, via := kG, attrs := [.mk kI []] })] }

def restoredAttrs (W : World) (t : Table) (M : Str) (f : List (Str × Row) → List (Str × Row)) (k : Str) : Option Forest :=
  match toJson W t (some M) with
  | .ok d =>
    (match importJson W { items := t.items.filter (fun ks => modOf ks.1 != M) } (f d) with
      | .ok T => (dictGet? T.items k).map (·.attrs)
      | .error _ => none)
  | .error _ => none

/-- what a `serialize` that leaves the attributes of import entries out would write -/
def dropAttrs (d : List (Str × Row)) : List (Str × Row) :=
  d.map (fun kr => (kr.1, match kr.2 with
    | .reflection nd dc o v _ => if nd == nImp then Row.reflection nd dc o v [] else kr.2
    | r => r))

/-- what is left of the caller's data after an import that pops the attribute paths it reads -/
def consumed (d : List (Str × Row)) : List (Str × Row) :=
  d.map (fun kr => (kr.1, match kr.2 with
    | .reflection nd dc o v _ => Row.reflection nd dc o v []
    | .symbol ty _ => Row.symbol ty []))

end Ex

/-- the imported generic-typed variable is restored with its type argument (an instance of `rt`: the entry satisfies `SymOK`) -/
example : Ex.restoredAttrs Ex.W2 Ex.withImport ['n'] id Ex.kNX = some [.mk Ex.kI []] ∧
    SymOK Ex.W2 Ex.withImport { types := Ex.kG, node := Ex.nImp, decl := Ex.kX, via := Ex.kG, attrs := [.mk Ex.kI []] } := by
  refine ⟨by decide +kernel, fun h => absurd h (by decide),
    fun _ => ⟨rfl, rfl, rfl, Ex.cls Ex.kG [.mk Ex.kT []], by decide +kernel, rfl, fun h => absurd h (by decide)⟩,
    ⟨⟨_, (by decide +kernel : Table.lookup Ex.W2 Ex.withImport Ex.kI = some (Ex.kI, [])), fun _ => rfl⟩, trivial⟩, trivial⟩

/-- regression (seeded mutation): a `serialize` that writes `'attrs': {}` for import entries ("they inherit from what they refer
    to") makes the imported `G[int]` variable come back as `G[T]` — the attributes of an import entry are those of the variable, not
    of the class its type key names -/
theorem import_attrs_counterexample :
    Ex.restoredAttrs Ex.W2 Ex.withImport ['n'] Ex.dropAttrs Ex.kNX = some [.mk Ex.kT []] ∧
    Ex.restoredAttrs Ex.W2 Ex.withImport ['n'] id Ex.kNX ≠ Ex.restoredAttrs Ex.W2 Ex.withImport ['n'] Ex.dropAttrs Ex.kNX := by
  constructor <;> decide +kernel

/-- regression (seeded mutation): `import_json` must not consume its input. The model takes the rows by value (`import_idem`: the
    same rows imported again give the same table); with an import that pops the attribute paths it reads, the rows the caller
    still holds import to other entries (`x: G[int]` comes back without its type argument) -/
theorem import_pop_counterexample :
    Ex.restoredAttrs Ex.W Ex.ordered Ex.M id Ex.kX = some [.mk Ex.kI []] ∧
    Ex.restoredAttrs Ex.W Ex.ordered Ex.M Ex.consumed Ex.kX = some [] := by
  constructor <;> decide +kernel


/-! ### the invariants, decided for the shipped library modules (generated table, re-generated on every run) -/

open Tranp.Generated.SymbolTables in
/-- the hypotheses of `order` and `rt` hold for every module of the generated library table
    (`lean/Tranp/Generated/SymbolTables.lean`, written by translate/gen_symbol_tables.py from the real `SymbolDB`): decided by the kernel -/
theorem shipped_invariants : ∀ M ∈ modules, M ≠ [] ∧ Loaded world table M rank ∧
    (table.items.all (fun ks => modOf ks.1 != M || symOKb world table ks.2)) = true := by
  decide +kernel

open Tranp.Generated.SymbolTables in
/-- **Round trip of the shipped library modules, without hypotheses**: for each of them, whatever `to_json` exports is imported
    into the table of the other modules without error, restores every entry (types, node, decl, attribute forest), completes the
    module, and importing the same rows again changes nothing. -/
theorem shipped_rt (M : Str) (hM : M ∈ modules) (b : Table) (d : List (Str × Row))
    (hb : b.items = table.items.filter (fun ks => modOf ks.1 != M)) (hexp : toJson world table (some M) = .ok d) :
    ∃ T, importJson world b d = .ok T ∧ importJson world T d = .ok T ∧
      ∀ K s, dictGet? table.items K = some s → modOf K = M →
        (∃ s', dictGet? T.items K = some s' ∧ DescEq s' s) ∧ T.isCompleted M = true := by
  obtain ⟨h1, h2, h3⟩ := shipped_invariants M hM
  exact rt_loaded world table b M d rank h1 hb hexp h2 (symOK_of_check world table M h3)

open Tranp.Generated.SymbolTables in
/-- non-vacuity: the generated table is not empty and every listed module exports at least one row -/
example : modules ≠ [] ∧ ∀ M ∈ modules, (match toJson world table (some M) with | .ok d => !d.isEmpty | .error _ => false) = true := by
  decide +kernel


/-! ### the export depends on the current table only (no memo, no history) -/

/-- `to_json` is a function of the entries of the table: two tables with the same entries export the same rows, whatever their
    completed marks — and, the model having no other component, whatever happened before (earlier exports, imports, unloads that
    led to the same entries). That the CODE has no other component is `state_is_modelled` below. -/
theorem export_history_independent (W : World) (t t' : Table) (h : t.items = t'.items) (fm : Option Str) :
    toJson W t fm = toJson W t' fm :=
  toJson_items W t t' h fm

/-- non-vacuity / use: after exporting, completing and unloading another module the export of `m` is what it was -/
example : toJson Ex.W2 Ex.withImport (some Ex.M) = toJson Ex.W2 ((Ex.withImport.onComplete ['n']).onComplete Ex.M) (some Ex.M) :=
  export_history_independent _ _ _ (by simp [onComplete_items]) _

open Tranp.Generated.SymbolDbState in
/-- **The state of the code is the state of the model** (generated from the AST of db.py / serializer.py on every run by
    translate/gen_symbol_state.py, which fails on attribute assignments outside `__init__`, module / class variables, `global`,
    mutable defaults and caching decorators): `SymbolDB` has exactly the fields `__paths`, `__items`, `__completed`; `__paths` and
    `__items` are written by the same methods (so `__paths` is a function of `__items`: `Table.items`); only `__setitem__`,
    `on_complete`, `unload` and `import_json` write them; `_order_keys_recursive` changes nothing but its two out-parameters; the
    serializer has its two injected collaborators and no method that writes a field or changes an argument in place. -/
theorem state_is_modelled :
    dbFields = [['_', '_', 'p', 'a', 't', 'h', 's'], ['_', '_', 'i', 't', 'e', 'm', 's'], ['_', '_', 'c', 'o', 'm', 'p', 'l', 'e', 't', 'e', 'd']] ∧
    (dbMutators.filter (fun m => m.2.contains ['_', '_', 'p', 'a', 't', 'h', 's'])).map Prod.fst =
      (dbMutators.filter (fun m => m.2.contains ['_', '_', 'i', 't', 'e', 'm', 's'])).map Prod.fst ∧
    dbMutators.map Prod.fst = [['_', '_', 's', 'e', 't', 'i', 't', 'e', 'm', '_', '_'], ['o', 'n', '_', 'c', 'o', 'm', 'p', 'l', 'e', 't', 'e'],
      ['u', 'n', 'l', 'o', 'a', 'd'], ['i', 'm', 'p', 'o', 'r', 't', '_', 'j', 's', 'o', 'n'],
      ['_', 'o', 'r', 'd', 'e', 'r', '_', 'k', 'e', 'y', 's', '_', 'r', 'e', 'c', 'u', 'r', 's', 'i', 'v', 'e']] ∧
    dictGet? dbMutators ['_', 'o', 'r', 'd', 'e', 'r', '_', 'k', 'e', 'y', 's', '_', 'r', 'e', 'c', 'u', 'r', 's', 'i', 'v', 'e'] =
      some [['a', 'r', 'g', ':', 'r', 'e', 's', 'o', 'l', 'v', 'i', 'n', 'g'], ['a', 'r', 'g', ':', 'o', 'r', 'd', 'e', 'r', 's']] ∧
    dictGet? dbMutators ['i', 'm', 'p', 'o', 'r', 't', '_', 'j', 's', 'o', 'n'] = some [['s', 'e', 'l', 'f', '[', ']']] ∧
    serializerFields = [['_', 'e', 'n', 't', 'r', 'y', 'p', 'o', 'i', 'n', 't', 's'], ['_', 't', 'r', 'a', 'i', 't', 's']] ∧
    serializerMutators = [] := by
  decide +kernel


/-! ### index paths: the exporter writes canonical decimals only -/

/-- every key of an exported `attrs` dict is a non-empty path whose dotted spelling consists of canonical decimals (`str(index)`: ASCII
    digits, no sign, no leading zero) and decodes to the path -/
theorem export_paths_canonical (f : Forest) : ∀ pk ∈ expand f,
    pk.1 ≠ [] ∧ decPath (encPath pk.1) = some pk.1 ∧ ∀ comp ∈ Str.splitOn '.' (encPath pk.1), isCanonicalDec comp = true := by
  intro pk hpk
  rw [SymbolJson.expand_eq_flatten] at hpk
  have hne := (flatList_heads 0 f pk hpk).1
  exact ⟨hne, decPath_encPath pk.1 hne, encPath_components pk.1 hne⟩

/-- on canonical decimals `int` and `str` are inverse: the domain on which the importer is modelled is exactly what the exporter writes
    (`'01'`, `'+1'`, `' 1'`, `'1_0'`, which `int()` also accepts, occur in hand-written JSON only) -/
theorem canonical_roundtrip (s : Str) (h : isCanonicalDec s = true) : ∃ n, Str.decToNat? s = some n ∧ Str.natToDec n = s :=
  SymbolJson.canonical_roundtrip s h

example : isCanonicalDec ['1', '0'] = true ∧ isCanonicalDec ['0'] = true ∧ isCanonicalDec ['0', '1'] = false ∧
    isCanonicalDec ['+', '1'] = false ∧ isCanonicalDec [] = false ∧
    (expand [.mk ['t'] [.mk ['i'] [], .mk ['i'] []]]).map (fun pk => encPath pk.1) = [['0'], ['0', '.', '0'], ['0', '.', '1']] := by
  decide +kernel

/-! ### nothing is lost: the table after the round trip is the table before it, key by key, `via` included -/

/-- **Frame.** `import_json` changes no entry under a key it is not given a row for (entries of other modules, in particular), and
    removes none. -/
theorem import_frame (W : World) (t t1 : Table) (d : List (Str × Row)) (h : importJson W t d = .ok t1)
    (K : Str) (hK : K ∉ d.map Prod.fst) : dictGet? t1.items K = dictGet? t.items K :=
  importJson_frame W d t t1 K h (fun kr hkr he => hK (by rw [← he]; exact List.mem_map_of_mem hkr))

/-- **Exact round trip.** Under the hypotheses of `rt` and the `via` invariant (`ViaOK`): after export of `M` and import into the
    table of the other modules, EVERY key (of `M`, of the other modules, absent ones) has exactly the entry it had — types, node,
    decl, `via` and attribute forest; and each restored entry serializes to the very row it was imported from (a second export
    writes the same rows). `rt` compares the description the property names; this adds `via` (serializer.py:57, 84-85) and the
    entries of the other modules. -/
theorem rt_exact (W : World) (t b : Table) (M : Str) (d : List (Str × Row)) (hM : M ≠ [])
    (hb : b.items = t.items.filter (fun ks => modOf ks.1 != M))
    (hexp : toJson W t (some M) = .ok d)
    (hord : RefsAvail (baseKeys t M) d)
    (hwf : ∀ K s, dictGet? t.items K = some s → modOf K = M → SymOK W t s)
    (hvia : ∀ K s, dictGet? t.items K = some s → modOf K = M → ViaOK W t s) :
    ∃ T, importJson W b d = .ok T ∧ (∀ K, dictGet? T.items K = dictGet? t.items K) ∧
      ∀ kr ∈ d, ∃ s, dictGet? T.items kr.1 = some s ∧ serialize W s = kr.2 := by
  obtain ⟨_, _, hrows, hall⟩ := export_rows W t M hM d hexp
  have hag : AgreeX b t (baseKeys t M) := by
    intro r hr
    unfold baseKeys at hr
    obtain ⟨v, hv⟩ := dictGet_of_mem_keys _ r hr
    have h1 := dictGet_filter (fun k => modOf k != M) t.items r
    rw [hv] at h1
    split at h1
    · exact ⟨v, by rw [hb, hv], h1.symm⟩
    · cases h1
  obtain ⟨T, hT, hagT⟩ := import_restores_exact W t d b (baseKeys t M)
    (fun kr hkr => by
      obtain ⟨hm, s, hs, hr⟩ := hrows kr hkr
      exact ⟨s, hs, hr, hwf kr.1 s hs hm, hvia kr.1 s hs hm⟩)
    hord hag
  have hkey : ∀ K, dictGet? T.items K = dictGet? t.items K := by
    intro K
    by_cases hK : K ∈ d.map Prod.fst
    · obtain ⟨s, h1, h2⟩ := hagT K (List.mem_append.mpr (Or.inr hK))
      rw [h1, h2]
    · rw [import_frame W b T d hT K hK, hb, dictGet_filter (fun k => modOf k != M) t.items K]
      by_cases hm : modOf K = M
      · have hnone : dictGet? t.items K = none := by
          cases hg : dictGet? t.items K with
          | none => rfl
          | some s => exact absurd (hall (K, s) (mem_of_dictGet _ _ _ hg) hm) hK
        simp [hm, hnone]
      · simp [hm]
  refine ⟨T, hT, hkey, ?_⟩
  intro kr hkr
  obtain ⟨_, s, hs, hr⟩ := hrows kr hkr
  exact ⟨s, by rw [hkey, hs], hr.symm⟩

/-- the exact round trip from the invariants of a loaded table alone (`order` supplies the order law) -/
theorem rt_loaded_exact (W : World) (t b : Table) (M : Str) (d : List (Str × Row)) (rank : Str → Nat) (hM : M ≠ [])
    (hb : b.items = t.items.filter (fun ks => modOf ks.1 != M))
    (hexp : toJson W t (some M) = .ok d) (hl : Loaded W t M rank)
    (hwf : ∀ K s, dictGet? t.items K = some s → modOf K = M → SymOK W t s)
    (hvia : ∀ K s, dictGet? t.items K = some s → modOf K = M → ViaOK W t s) :
    ∃ T, importJson W b d = .ok T ∧ (∀ K, dictGet? T.items K = dictGet? t.items K) ∧
      ∀ kr ∈ d, ∃ s, dictGet? T.items kr.1 = some s ∧ serialize W s = kr.2 :=
  rt_exact W t b M d hM hb hexp (order W t M d rank hM hl hexp) hwf hvia

/-- **Unload, then restore.** `SymbolDB.unload(M)` (db.py:144-156) leaves exactly the table of the other modules, so the export of
    `M` taken before is imported into the unloaded table without error, every key has its old entry again, and the modules of the
    imported keys count as completed. -/
theorem rt_unload_exact (W : World) (t : Table) (M : Str) (d : List (Str × Row)) (rank : Str → Nat) (hM : M ≠ [])
    (hexp : toJson W t (some M) = .ok d) (hl : Loaded W t M rank)
    (hwf : ∀ K s, dictGet? t.items K = some s → modOf K = M → SymOK W t s)
    (hvia : ∀ K s, dictGet? t.items K = some s → modOf K = M → ViaOK W t s) :
    ∃ T, importJson W (t.unload M) d = .ok T ∧ (∀ K, dictGet? T.items K = dictGet? t.items K) ∧
      ∀ kr ∈ d, T.isCompleted (modOf kr.1) = true := by
  obtain ⟨T, hT, hkey, _⟩ := rt_loaded_exact W t (t.unload M) M d rank hM rfl hexp hl hwf hvia
  exact ⟨T, hT, hkey, completed W (t.unload M) T d hT⟩

/-- non-vacuity: the example table, unloaded and restored -/
example :
    (match toJson Ex.W Ex.ordered (some Ex.M) with
      | .ok d =>
        (match importJson Ex.W (Ex.ordered.unload Ex.M) d with
          | .ok T => decide (T.items = Ex.ordered.items ∧ T.isCompleted Ex.M = true)
          | .error _ => false)
      | .error _ => false) = true := by
  decide +kernel

/-- non-vacuity: every entry of the example table satisfies `ViaOK` (its round trip is the example after `rt_loaded`: the imported
    table has the items of the original one) -/
example : (Ex.ordered.items.all (fun ks => viaOKb Ex.W Ex.ordered ks.2)) = true ∧
    (Ex.withImport.items.all (fun ks => viaOKb Ex.W2 Ex.withImport ks.2)) = true := by
  constructor <;> decide +kernel

namespace Ex
def kY : Str := ['c', '#', 'y']
/-- a variable `m#x: int` whose `via` key names another VARIABLE (`c#y: int`), not a type key -/
def viaVar : Table := { items := [(kI, cls kI []), (kY, { types := kI, node := kY, decl := kY, via := kI, attrs := [] }),
  (kX, { types := kI, node := kX, decl := kX, via := kY, attrs := [] })] }
def W3 : World := { known := fun _ => true, isClassDef := fun n => n != kX && n != kY, isDecl := fun _ => true, fullyname := id }
end Ex

/-- the `via` hypothesis is needed: `deserialize` keeps `db[via].types.fullyname`, so a `via` key that names an entry of another
    type than itself does not come back (every other field does) -/
example :
    (viaOKb Ex.W3 Ex.viaVar { types := Ex.kI, node := Ex.kX, decl := Ex.kX, via := Ex.kY, attrs := [] } = false) ∧
    (match toJson Ex.W3 Ex.viaVar (some Ex.M) with
      | .ok d =>
        (match importJson Ex.W3 { items := Ex.viaVar.items.filter (fun ks => modOf ks.1 != Ex.M) } d with
          | .ok T => (dictGet? T.items Ex.kX).map (fun s => (s.types, s.node, s.decl, s.via, s.attrs))
          | .error _ => none)
      | .error _ => none) = some (Ex.kI, Ex.kX, Ex.kX, Ex.kI, []) := by
  constructor <;> decide +kernel

open Tranp.Generated.SymbolTables in
/-- the `via` invariant, decided for every module of the generated library table -/
theorem shipped_via : ∀ M ∈ modules, (table.items.all (fun ks => modOf ks.1 != M || viaOKb world table ks.2)) = true := by
  decide +kernel

open Tranp.Generated.SymbolTables in
/-- **Exact round trip of the shipped library modules, without hypotheses**: the table after export and import is the table
    before, key by key and field by field, and a second export writes the same rows. -/
theorem shipped_rt_exact (M : Str) (hM : M ∈ modules) (b : Table) (d : List (Str × Row))
    (hb : b.items = table.items.filter (fun ks => modOf ks.1 != M)) (hexp : toJson world table (some M) = .ok d) :
    ∃ T, importJson world b d = .ok T ∧ (∀ K, dictGet? T.items K = dictGet? table.items K) ∧
      ∀ kr ∈ d, ∃ s, dictGet? T.items kr.1 = some s ∧ serialize world s = kr.2 := by
  obtain ⟨h1, h2, h3⟩ := shipped_invariants M hM
  exact rt_loaded_exact world table b M d rank h1 hb hexp h2 (symOK_of_check world table M h3)
    (viaOK_of_check world table M (shipped_via M hM))

/-! ### the row schema and the expressions the model cites, generated from the source on every run -/

/-- the keys of a row as the model has them (constructor fields of `Row`, serialization.py:6-7 without the `class` tag) -/
def rowFieldNames : Row → List Str
  | .symbol _ _ => [['t', 'y', 'p', 'e', 's'], ['a', 't', 't', 'r', 's']]
  | .reflection _ _ _ _ _ => [['n', 'o', 'd', 'e'], ['d', 'e', 'c', 'l'], ['o', 'r', 'i', 'g', 'i', 'n'], ['v', 'i', 'a'], ['a', 't', 't', 'r', 's']]

open Tranp.Generated.SymbolRows in
/-- **The rows of the code are the rows of the model** (generated from the AST of serializer.py / sequence.py on every run by
    translate/gen_symbol_rows.py, which fails on a row key that is not a literal, a row used whole, a second `return`, another
    ordering call): `serialize` writes the `class` tag and exactly the fields of `Row.symbol` / `Row.reflection`; `deserialize`
    reads exactly those fields back (nothing written is ignored, nothing else is read); each value is the expression the model's
    `serialize` cites (node DSNs by `ModuleDSN.full_joined`, `origin` = `types.fullyname`, `via` = `via.types.fullyname`, `attrs` =
    path ↦ `types.fullyname` over `seqs.expand(symbol.attrs, iter_key='attrs')`); the class test is `Sym.isClassSymbol`; the restored
    `via` is `db[via]` unless it is the origin key; the paths are ordered by `sorted(…, key = number of dots)` (`sortByDepth`,
    `C14.sort_spec`); `seqs.expand` descends whenever the entry has the iterator attribute (no depth or identity condition). -/
theorem row_schema_generated :
    symbolRow.map Prod.fst = ['c', 'l', 'a', 's', 's'] :: rowFieldNames (.symbol [] []) ∧
    reflectionRow.map Prod.fst = ['c', 'l', 'a', 's', 's'] :: rowFieldNames (.reflection [] [] [] [] []) ∧
    symbolReads = rowFieldNames (.symbol [] []) ∧
    reflectionReads = rowFieldNames (.reflection [] [] [] [] []) ∧
    symbolRow.map Prod.snd = [['\'', 'S', 'y', 'm', 'b', 'o', 'l', '\''],
      ['M', 'o', 'd', 'u', 'l', 'e', 'D', 'S', 'N', '.', 'f', 'u', 'l', 'l', '_', 'j', 'o', 'i', 'n', 'e', 'd', '(', 's', 'y', 'm', 'b', 'o', 'l', '.', 't', 'y', 'p', 'e', 's', '.', 'm', 'o', 'd', 'u', 'l', 'e', '_', 'p', 'a', 't', 'h', ',', ' ', 's', 'y', 'm', 'b', 'o', 'l', '.', 't', 'y', 'p', 'e', 's', '.', 'f', 'u', 'l', 'l', '_', 'p', 'a', 't', 'h', ')'],
      attrsName] ∧
    reflectionRow.map Prod.snd = [['\'', 'R', 'e', 'f', 'l', 'e', 'c', 't', 'i', 'o', 'n', '\''],
      ['M', 'o', 'd', 'u', 'l', 'e', 'D', 'S', 'N', '.', 'f', 'u', 'l', 'l', '_', 'j', 'o', 'i', 'n', 'e', 'd', '(', 's', 'y', 'm', 'b', 'o', 'l', '.', 'n', 'o', 'd', 'e', '.', 'm', 'o', 'd', 'u', 'l', 'e', '_', 'p', 'a', 't', 'h', ',', ' ', 's', 'y', 'm', 'b', 'o', 'l', '.', 'n', 'o', 'd', 'e', '.', 'f', 'u', 'l', 'l', '_', 'p', 'a', 't', 'h', ')'],
      ['M', 'o', 'd', 'u', 'l', 'e', 'D', 'S', 'N', '.', 'f', 'u', 'l', 'l', '_', 'j', 'o', 'i', 'n', 'e', 'd', '(', 's', 'y', 'm', 'b', 'o', 'l', '.', 'd', 'e', 'c', 'l', '.', 'm', 'o', 'd', 'u', 'l', 'e', '_', 'p', 'a', 't', 'h', ',', ' ', 's', 'y', 'm', 'b', 'o', 'l', '.', 'd', 'e', 'c', 'l', '.', 'f', 'u', 'l', 'l', '_', 'p', 'a', 't', 'h', ')'],
      ['s', 'y', 'm', 'b', 'o', 'l', '.', 't', 'y', 'p', 'e', 's', '.', 'f', 'u', 'l', 'l', 'y', 'n', 'a', 'm', 'e'],
      ['s', 'y', 'm', 'b', 'o', 'l', '.', 'v', 'i', 'a', '.', 't', 'y', 'p', 'e', 's', '.', 'f', 'u', 'l', 'l', 'y', 'n', 'a', 'm', 'e'],
      attrsName] ∧
    expandCall = ['s', 'e', 'q', 's', '.', 'e', 'x', 'p', 'a', 'n', 'd', '(', 's', 'y', 'm', 'b', 'o', 'l', '.', 'a', 't', 't', 'r', 's', ',', ' ', 'i', 't', 'e', 'r', '_', 'k', 'e', 'y', '=', '\'', 'a', 't', 't', 'r', 's', '\'', ')'] ∧
    attrsValue = ['{', 'p', 'a', 't', 'h', ':', ' ', 'a', 't', 't', 'r', '.', 't', 'y', 'p', 'e', 's', '.', 'f', 'u', 'l', 'l', 'y', 'n', 'a', 'm', 'e', ' ', 'f', 'o', 'r', ' ', 'p', 'a', 't', 'h', ',', ' ', 'a', 't', 't', 'r', ' ', 'i', 'n', ' ', 'f', 'l', 'a', 't', '_', 'a', 't', 't', 'r', 's', '.', 'i', 't', 'e', 'm', 's', '(', ')', '}'] ∧
    classTest = ['s', 'y', 'm', 'b', 'o', 'l', '.', 'n', 'o', 'd', 'e', '.', 'i', 's', '_', 'a', '(', 'd', 'e', 'f', 's', '.', 'C', 'l', 'a', 's', 's', 'D', 'e', 'f', ')', ' ', 'a', 'n', 'd', ' ', 's', 'y', 'm', 'b', 'o', 'l', '.', 't', 'y', 'p', 'e', 's', ' ', '=', '=', ' ', 's', 'y', 'm', 'b', 'o', 'l', '.', 'd', 'e', 'c', 'l'] ∧
    rowTest = ['d', 'a', 't', 'a', '[', '\'', 'c', 'l', 'a', 's', 's', '\'', ']', ' ', '=', '=', ' ', '\'', 'S', 'y', 'm', 'b', 'o', 'l', '\''] ∧
    viaExpr = ['d', 'b', '[', 'd', 'a', 't', 'a', '[', '\'', 'v', 'i', 'a', '\'', ']', ']', ' ', 'i', 'f', ' ', 'd', 'a', 't', 'a', '[', '\'', 'o', 'r', 'i', 'g', 'i', 'n', '\'', ']', ' ', '!', '=', ' ', 'd', 'a', 't', 'a', '[', '\'', 'v', 'i', 'a', '\'', ']', ' ', 'e', 'l', 's', 'e', ' ', 'N', 'o', 'n', 'e'] ∧
    sortCall = ['s', 'o', 'r', 't', 'e', 'd', '(', 'd', 'a', 't', 'a', '_', 'a', 't', 't', 'r', 's', '.', 'k', 'e', 'y', 's', '(', ')', ',', ' ', 'k', 'e', 'y', '=', 'l', 'a', 'm', 'b', 'd', 'a', ' ', 'k', 'e', 'y', ':', ' ', 'k', 'e', 'y', '.', 'c', 'o', 'u', 'n', 't', '(', '\'', '.', '\'', ')', ')'] ∧
    expandGuard = ['i', 't', 'e', 'r', '_', 'k', 'e', 'y', ' ', 'a', 'n', 'd', ' ', 'h', 'a', 's', 'a', 't', 't', 'r', '(', 'e', 'n', 't', 'r', 'y', ',', ' ', 'i', 't', 'e', 'r', '_', 'k', 'e', 'y', ')'] ∧
    expandDispatch = [['t', 'y', 'p', 'e', '(', 'e', 'n', 't', 'r', 'y', ')', ' ', 'i', 's', ' ', 'l', 'i', 's', 't'], ['t', 'y', 'p', 'e', '(', 'e', 'n', 't', 'r', 'y', ')', ' ', 'i', 's', ' ', 'd', 'i', 'c', 't']] := by
  decide +kernel

/-! ### the JSON text form (persistent.py:159-173: `json.dumps(rows, separators=(',', ':'))`, later `json.loads`) -/

/-- **The text round trip of every row list with non-empty index paths**: what `json.loads` reads from the written text, taken
    apart the way `deserialize` takes a row apart (by key; `class` ≠ `'Symbol'` is a Reflection row; `attrs` keys are index
    paths), is the rows that were written — whatever characters the keys and DSNs contain (quotes, backslashes, non-ASCII). -/
theorem text_rt (d : List (Str × Row)) (h : ∀ kr ∈ d, ∀ pk ∈ rowFlat kr.2, pk.1 ≠ []) : readText (writeText d) = some d :=
  readText_writeText d h

/-- non-vacuity: two rows, a two-digit index, a key with a quote and a non-ASCII letter -/
example :
    let d : List (Str × Row) := [(['m', '#', '"', 'é'], .symbol ['m', '#', 'A'] []),
      (['m', '#', 'x'], .reflection ['m', '#', 'x'] ['m', '#', 'x'] ['m', '#', 'A'] ['m', '#', 'A'] [([0], ['c', '#', 'i']), ([0, 10], ['c', '#', 's'])])]
    writeText d = ['{', '"', 'm', '#', '\\', '"', '\\', 'u', '0', '0', 'e', '9', '"', ':', '{', '"', 'c', 'l', 'a', 's', 's', '"', ':', '"', 'S', 'y', 'm', 'b', 'o', 'l', '"', ',',
        '"', 't', 'y', 'p', 'e', 's', '"', ':', '"', 'm', '#', 'A', '"', ',', '"', 'a', 't', 't', 'r', 's', '"', ':', '{', '}', '}', ',',
        '"', 'm', '#', 'x', '"', ':', '{', '"', 'c', 'l', 'a', 's', 's', '"', ':', '"', 'R', 'e', 'f', 'l', 'e', 'c', 't', 'i', 'o', 'n', '"', ',',
        '"', 'n', 'o', 'd', 'e', '"', ':', '"', 'm', '#', 'x', '"', ',', '"', 'd', 'e', 'c', 'l', '"', ':', '"', 'm', '#', 'x', '"', ',',
        '"', 'o', 'r', 'i', 'g', 'i', 'n', '"', ':', '"', 'm', '#', 'A', '"', ',', '"', 'v', 'i', 'a', '"', ':', '"', 'm', '#', 'A', '"', ',',
        '"', 'a', 't', 't', 'r', 's', '"', ':', '{', '"', '0', '"', ':', '"', 'c', '#', 'i', '"', ',', '"', '0', '.', '1', '0', '"', ':', '"', 'c', '#', 's', '"', '}', '}', '}'] ∧
      readText (writeText d) = some d := by
  refine ⟨by decide +kernel, text_rt _ ?_⟩
  intro kr hkr pk hpk
  simp only [List.mem_cons, List.not_mem_nil, or_false] at hkr
  rcases hkr with rfl | rfl
  · simp [rowFlat] at hpk
  · simp only [rowFlat, List.mem_cons, List.not_mem_nil, or_false] at hpk
    rcases hpk with rfl | rfl <;> simp

/-- the hypothesis is needed: an empty index path is written as the key `""`, which is not an index path -/
example : readText (writeText [(['k'], .symbol ['t'] [([], ['a'])])]) = none := by decide +kernel

/-- **The exported text.** For every export of a module: the text reads back as the exported rows; it is pure ASCII (so
    `.encode('utf-8')` is the identity on it); and no object in it has a repeated key — the row keys are pairwise distinct and so are
    the path keys of each row (a Python dict and the list of pairs are the same thing). -/
theorem export_text_rt (W : World) (t : Table) (M : Str) (hM : M ≠ []) (d : List (Str × Row)) (hexp : toJson W t (some M) = .ok d) :
    readText (writeText d) = some d ∧ (∀ c ∈ writeText d, c.toNat < 128) ∧
    (d.map Prod.fst).Nodup ∧ ∀ kr ∈ d, ((rowFlat kr.2).map (fun pk => encPath pk.1)).Nodup := by
  obtain ⟨_, hn, hrows, _⟩ := export_rows W t M hM d hexp
  have hpaths : ∀ kr ∈ d, ∀ pk ∈ rowFlat kr.2, pk.1 ≠ [] := by
    intro kr hkr
    obtain ⟨_, s, _, hr⟩ := hrows kr hkr
    rw [hr]
    exact serialize_paths W s
  refine ⟨text_rt d hpaths, Tranp.Lark.printJson_ascii _, hn, ?_⟩
  intro kr hkr
  obtain ⟨_, s, _, hr⟩ := hrows kr hkr
  have hfl : rowFlat kr.2 = expand s.attrs := by
    rw [hr]; unfold serialize; split <;> rfl
  have hnd : ((rowFlat kr.2).map Prod.fst).Nodup := by
    rw [hfl, SymbolJson.expand_eq_flatten]; exact flatList_keys_nodup 0 s.attrs
  have hnd' : (rowFlat kr.2).Pairwise (fun a b => a.1 ≠ b.1) := by
    have := hnd
    rwa [List.Nodup, List.pairwise_map] at this
  rw [List.Nodup, List.pairwise_map]
  refine List.Pairwise.imp_of_mem ?_ hnd'
  intro a b ha hb hne heq
  apply hne
  have h1 := decPath_encPath a.1 (hpaths kr hkr a ha)
  have h2 := decPath_encPath b.1 (hpaths kr hkr b hb)
  rw [heq, h2] at h1
  exact (Option.some.inj h1).symm

/-- non-vacuity: the export of the example module, written and read back (an instance of `export_text_rt`), and the whole pipeline
    export → text → read → import into the unloaded table gives the items of the original table -/
example :
    (match toJson Ex.W Ex.ordered (some Ex.M) with
      | .ok d =>
        decide (readText (writeText d) = some d) &&
          (match readText (writeText d) with
            | some d' =>
              (match importJson Ex.W (Ex.ordered.unload Ex.M) d' with
                | .ok T => decide (T.items = Ex.ordered.items)
                | .error _ => false)
            | none => false)
      | .error _ => false) = true := by
  decide +kernel

/-- **Export → text → read → import, end to end**: for every Loaded table with SymOK and ViaOK, the text written for module `M`
    is read back as rows that import into the unloaded table without error, and every key has exactly its old entry again. -/
theorem rt_text_exact (W : World) (t : Table) (M : Str) (d : List (Str × Row)) (rank : Str → Nat) (hM : M ≠ [])
    (hexp : toJson W t (some M) = .ok d) (hl : Loaded W t M rank)
    (hwf : ∀ K s, dictGet? t.items K = some s → modOf K = M → SymOK W t s)
    (hvia : ∀ K s, dictGet? t.items K = some s → modOf K = M → ViaOK W t s) :
    ∃ d' T, readText (writeText d) = some d' ∧ importJson W (t.unload M) d' = .ok T ∧
      (∀ K, dictGet? T.items K = dictGet? t.items K) ∧ ∀ kr ∈ d', T.isCompleted (modOf kr.1) = true := by
  obtain ⟨T, hT, hkey, hc⟩ := rt_unload_exact W t M d rank hM hexp hl hwf hvia
  exact ⟨d, T, (export_text_rt W t M hM d hexp).1, hT, hkey, hc⟩

open Tranp.Generated.SymbolTables in
/-- the shipped library modules, end to end through the text, without hypotheses -/
theorem shipped_rt_text (M : Str) (hM : M ∈ modules) (d : List (Str × Row)) (hexp : toJson world table (some M) = .ok d) :
    ∃ d' T, readText (writeText d) = some d' ∧ importJson world (table.unload M) d' = .ok T ∧
      (∀ K, dictGet? T.items K = dictGet? table.items K) ∧ ∀ kr ∈ d', T.isCompleted (modOf kr.1) = true := by
  obtain ⟨h1, h2, h3⟩ := shipped_invariants M hM
  exact rt_text_exact world table M d rank h1 hexp h2 (symOK_of_check world table M h3) (viaOK_of_check world table M (shipped_via M hM))

open Tranp.Generated.SymbolRows in
/-- **The tests of the export-order walk are the ones modelled** (generated from the AST of db.py on every run): `_order_keys`
    filters by module and appends a key not yet listed; `_order_keys_recursive` walks the attributes first, lists a type key of the
    exported module not yet listed, expands the key's OWN table entry exactly when the key is in the table and NOT ALREADY BEING
    EXPANDED (`key not in resolving` — membership in the set of keys under expansion, `orderNode`/`entryFirst`; not "nothing is being
    expanded"), pushes / pops that key around the expansion and then appends it (`C14.order`, `C14.order_fuel` are theorems about
    exactly this walk). Another guard, another write to `resolving` / `orders`, another loop or call is a failed theorem here. -/
theorem order_guards_generated :
    orderLoopTests = [['f', 'o', 'r', '_', 'm', 'o', 'd', 'u', 'l', 'e', '_', 'p', 'a', 't', 'h', ' ', 'i', 's', ' ', 'N', 'o', 'n', 'e', ' ', 'o', 'r', ' ', 'm', 'o', 'd', 'u', 'l', 'e', '_', 'p', 'a', 't', 'h', ' ', '=', '=', ' ', 'f', 'o', 'r', '_', 'm', 'o', 'd', 'u', 'l', 'e', '_', 'p', 'a', 't', 'h'],
      ['k', 'e', 'y', ' ', 'n', 'o', 't', ' ', 'i', 'n', ' ', 'o', 'r', 'd', 'e', 'r', 's']] ∧
    orderWalkTests = [['r', 'e', 's', 'o', 'l', 'v', 'i', 'n', 'g', ' ', 'i', 's', ' ', 'n', 'o', 't', ' ', 'N', 'o', 'n', 'e'],
      ['n', 'o', 't', ' ', 'f', 'o', 'r', '_', 'm', 'o', 'd', 'u', 'l', 'e', '_', 'p', 'a', 't', 'h', ' ', 'o', 'r', ' ', '(', 'f', 'o', 'r', '_', 'm', 'o', 'd', 'u', 'l', 'e', '_', 'p', 'a', 't', 'h', ' ', '=', '=', ' ', 's', 'y', 'm', 'b', 'o', 'l', '.', 't', 'y', 'p', 'e', 's', '.', 'm', 'o', 'd', 'u', 'l', 'e', '_', 'p', 'a', 't', 'h', ' ', 'a', 'n', 'd', ' ', 'k', 'e', 'y', ' ', 'n', 'o', 't', ' ', 'i', 'n', ' ', 'o', 'r', 'd', 'e', 'r', 's', ')'],
      ['k', 'e', 'y', ' ', 'i', 'n', ' ', 's', 'e', 'l', 'f', '.', '_', '_', 'i', 't', 'e', 'm', 's', ' ', 'a', 'n', 'd', ' ', 'k', 'e', 'y', ' ', 'n', 'o', 't', ' ', 'i', 'n', ' ', 'r', 'e', 's', 'o', 'l', 'v', 'i', 'n', 'g'],
      ['n', 'o', 't', ' ', 'f', 'o', 'r', '_', 'm', 'o', 'd', 'u', 'l', 'e', '_', 'p', 'a', 't', 'h', ' ', 'o', 'r', ' ', 'k', 'e', 'y', ' ', 'n', 'o', 't', ' ', 'i', 'n', ' ', 'o', 'r', 'd', 'e', 'r', 's']] ∧
    orderWalkWrites = [['r', 'e', 's', 'o', 'l', 'v', 'i', 'n', 'g', '.', 'a', 'p', 'p', 'e', 'n', 'd', '(', 'k', 'e', 'y', ')'],
      ['r', 'e', 's', 'o', 'l', 'v', 'i', 'n', 'g', '.', 'p', 'o', 'p', '(', ')'],
      ['o', 'r', 'd', 'e', 'r', 's', '.', 'a', 'p', 'p', 'e', 'n', 'd', '(', 'k', 'e', 'y', ')']] ∧
    orderWalkCalls = [['s', 'e', 'l', 'f', '.', '_', 'o', 'r', 'd', 'e', 'r', '_', 'k', 'e', 'y', 's', '_', 'r', 'e', 'c', 'u', 'r', 's', 'i', 'v', 'e', '(', 'f', 'o', 'r', '_', 'm', 'o', 'd', 'u', 'l', 'e', '_', 'p', 'a', 't', 'h', ',', ' ', 'a', 't', 't', 'r', ',', ' ', 'o', 'r', 'd', 'e', 'r', 's', ',', ' ', 'r', 'e', 's', 'o', 'l', 'v', 'i', 'n', 'g', ')'],
      ['s', 'e', 'l', 'f', '.', '_', 'o', 'r', 'd', 'e', 'r', '_', 'k', 'e', 'y', 's', '_', 'r', 'e', 'c', 'u', 'r', 's', 'i', 'v', 'e', '(', 'f', 'o', 'r', '_', 'm', 'o', 'd', 'u', 'l', 'e', '_', 'p', 'a', 't', 'h', ',', ' ', 'a', 't', 't', 'r', ',', ' ', 'o', 'r', 'd', 'e', 'r', 's', ',', ' ', 'r', 'e', 's', 'o', 'l', 'v', 'i', 'n', 'g', ')']] ∧
    orderWalkLoops = [['s', 'y', 'm', 'b', 'o', 'l', '.', 'a', 't', 't', 'r', 's'],
      ['s', 'e', 'l', 'f', '.', '_', '_', 'i', 't', 'e', 'm', 's', '[', 'k', 'e', 'y', ']', '.', 'a', 't', 't', 'r', 's']] := by
  decide +kernel

/-! ### sibling groups are found by comparing whole parent PATHS, not their text -/

/-- the grouping scan of `_deserialize_attrs` with the "same group" test as a parameter -/
def groupsFuelBy (same : Path → Path → Bool) : Nat → Flat → List Flat
  | 0, _ => []
  | _, [] => []
  | n + 1, x :: rest =>
    (x :: rest.takeWhile (fun pk => same x.1 pk.1)) :: groupsFuelBy same n (rest.dropWhile (fun pk => same x.1 pk.1))

/-- the model's scan is the one that compares the parent index paths for equality (`own_path != next_own_path` on the joined
    components, serializer.py:106-112; equal joined strings ⇔ equal index lists: `path_codec`) -/
theorem groups_by_parent_path (n : Nat) (l : Flat) :
    groupsFuel n l = groupsFuelBy (fun x y => parent y == parent x) n l := by
  induction n generalizing l with
  | zero => cases l <;> rfl
  | succ n ih =>
    cases l with
    | nil => rfl
    | cons x rest => simp only [groupsFuel, groupsFuelBy, ih]

/-- "same depth and the parent's TEXT is a prefix of the path's text" — index strings compared as text, no `.` delimiter -/
def textPrefixSame (x y : Path) : Bool := depth y == depth x && (encPath (parent x)).isPrefixOf (encPath y)

/-- **The text-prefix test is another function** (regression, seeded mutation): the parent `1` is a text prefix of the paths below
    `10`, so for a function with eleven slots whose slots 1 and 10 carry type arguments (`f(c, a: list[int], p2 … p9) -> dict[str,
    Conf]`) the two child groups are adjacent in the depth-sorted paths and merge: slot 1 gets the arguments of slot 10, slot 10 none.
    The modelled scan (`flatten_order`: one group per parent path) restores the forest. -/
theorem text_prefix_grouping_counterexample :
    let leaf : Str → Attr := fun k => .mk k []
    let f : Forest := [leaf ['c'], .mk ['l'] [leaf ['i']], leaf ['i'], leaf ['i'], leaf ['s'], leaf ['i'], leaf ['c'], leaf ['i'], leaf ['b'], leaf ['i'],
      .mk ['d'] [leaf ['s'], leaf ['c']]]
    let look : Lookup := fun k => some (k, [])
    textPrefixSame [1, 0] [10, 0] = true ∧ parent [10, 0] ≠ parent [1, 0] ∧
    (match rebuild look (flatten f) with
      | .ok rs => decide (obsList rs = f)
      | .error _ => false) = true ∧
    (match stepGroups look (groupsFuelBy textPrefixSame (flatten f).length (sortByDepth (flatten f))) [] with
      | .ok rs => decide (obsList rs = [leaf ['c'], .mk ['l'] [leaf ['i'], leaf ['s'], leaf ['c']], leaf ['i'], leaf ['i'], leaf ['s'], leaf ['i'], leaf ['c'],
          leaf ['i'], leaf ['b'], leaf ['i'], leaf ['d']])
      | .error _ => false) = true := by
  decide +kernel

end Tranp.C14
