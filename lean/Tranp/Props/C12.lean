/-
  Property C12 — The grammar engine reproduces itself and its compiled rule files.
  Property theorems only; helper lemmas live in Tranp/Lemmas/RulesAst.lean, the kernel-evaluated fixed points in
  Tranp/Lemmas/C12FixedGram.lean / C12FixedPy.lean.
-/
import Tranp.Lemmas.RulesAst
import Tranp.Lemmas.C12FixedPy
import Tranp.Lemmas.C12LexGram
import Tranp.Lemmas.RenderRt
import Tranp.Generated.RtWitnesses

namespace Tranp.C12
open Tranp Tranp.Engine Tranp.RulesAst Tranp.Generated

/-! ## AST-level round trip -/

/-- `Rules.from_ast` inverts the tuple-tree form of every canonical rule set: sequences, alternatives, `[ … ]`, `( … )*+?`,
    groups without marker, unwrap markers `[1]`/`[*]`, string terminals (except the four two-character escapes, which
    `Pattern.make` rewrites) and regexp terminals; keys pairwise distinct. -/
theorem ast_rt_from_to (g : Rules) (h : Canon g) : fromAst (toAst g) = .ok g :=
  from_to_rules g h

/-- non-vacuity: `x[1] := a ("b" | /c/)* [d] (e)` is canonical (and is not the identity case: five group shapes) -/
example : Canon [(['x', '[', '1', ']'], .group [.pattern ['a'] .symbol .noComp,
      .group [.group [.pattern ['b'] .terminal .equals, .pattern ['c'] .terminal .regexp] .or .noRepeat] .and .overZero,
      .group [.pattern ['d'] .symbol .noComp] .and .oneOrEmpty,
      .group [.pattern ['e'] .symbol .noComp] .and .noRepeat] .and .noRepeat)] := by decide

/-- Conversely `toAst` inverts `from_ast` on every well-shaped tuple tree (the trees the meta-grammar produces: `terms` /
    `terms_or` with ≥ 2 children, `expr_opt` with one, `expr_rep` with an expression and a repeat token or the `__empty__`
    placeholder, tokens whose text fits their name, rule keys pairwise distinct). The two-character escapes `"\n"`… are
    excluded: `Pattern.make` rewrites them to the control character, which prints as itself. -/
theorem ast_rt_to_from (t : TEntry) (h : WellShaped t) : ∃ g, fromAst t = .ok g ∧ toAst g = t :=
  to_from_rules t h

/-- non-vacuity: the tree of `x[*] := a ("b" | /c/)+ (d)` -/
example : WellShaped (.tree nEntry [.tree nRule [.token nSymbol ['x'], .token nUnwrap ['*'],
    .tree nTerms [.token nSymbol ['a'],
      .tree nExprRep [.tree nTermsOr [.token nString ['"', 'b', '"'], .token nRegexp ['/', 'c', '/']], .token nRepeat ['+']],
      .tree nExprRep [.token nSymbol ['d'], .token emptyName []]]]]) :=
  ⟨_, rfl, by decide, by decide⟩

/-- The shipped rule sets are canonical, hence fixed by `fromAst ∘ toAst`. -/
theorem ast_rt_shipped : Canon gramRules ∧ Canon pyRules := by decide +kernel

/-! ## fixed points (concrete computations, evaluated by the kernel on the real token lists) -/

/-- Parsing data/syntax/gram.lark (its real token list) with the engine's built-in rules yields the tuple literal of
    gram_rules.py, and `from_ast` of that literal is the built-in rule set itself. -/
theorem fixed_gram :
    (C12Fixed.compile gramLarkTokens).map Ast.simplify = .ok gramRulesAst ∧ fromAst gramRulesAst = .ok gramRules :=
  ⟨C12Fixed.gram_tree, C12Fixed.gram_literal⟩

/-- The meta-grammar's fixed point starting from the TEXT of data/syntax/gram.lark: the lexer model (C13's `Lexer.tokenize`
    with the gram token definition) turns the embedded text into tokens whose strings and source maps are those of the token
    list used by `fixed_gram` (so the only column of that list not recomputed in Lean is the regexp class of each token, which
    the translator evaluates with the real `re`), and the engine and `from_ast` then reproduce the built-in rules. -/
theorem fixed_gram_text :
    (∃ ts, Lexer.tokenize TokenDef.gramDef gramLarkText = .ok ts ∧ ts.map C12Fixed.projLex = gramLarkTokens.map C12Fixed.projTok) ∧
    (C12Fixed.compile gramLarkTokens).map Ast.simplify = .ok gramRulesAst ∧ fromAst gramRulesAst = .ok gramRules := by
  refine ⟨?_, C12Fixed.gram_tree, C12Fixed.gram_literal⟩
  have h := C12Fixed.gram_lex
  unfold C12Fixed.lexAgrees at h
  split at h
  · rename_i ts hts
    exact ⟨ts, hts, by simpa using h⟩
  · cases h

/-- … and with the token classes computed in Lean as well (`GramClass`: the five regexp terminals of the meta-grammar transcribed
    as predicates, `gram_class_agrees`): from the embedded TEXT of gram.lark, lexer model → class predicates → engine → `from_ast`
    reproduce the built-in rule set with no dumped token data at all. -/
theorem fixed_gram_pure :
    ((TextRt.lexGram gramLarkText).toOption.bind fun ts => (C12Fixed.compile ts).toOption.map Ast.simplify) = some gramRulesAst ∧
    fromAst gramRulesAst = .ok gramRules := by
  refine ⟨?_, C12Fixed.gram_literal⟩
  rw [C12Fixed.gram_lex_full]
  have := C12Fixed.gram_tree
  cases h : C12Fixed.compile gramLarkTokens with
  | error e => rw [h] at this; cases this
  | ok t =>
    rw [h] at this
    simp only [Except.map, Except.ok.injEq] at this
    simp [Except.toOption, Option.bind, h, this]

/-- the transcribed regexp predicates agree with the real `re` on every dumped token (see Lemmas/C12LexGram.lean) -/
theorem gram_class_agrees :
    gramRegexps = GramClass.gramRegexpTexts ∧
    (gramLarkTokens.all fun t => GramClass.gramClass t.str == t.cls) = true ∧
    (pyGramLarkTokens.all fun t => GramClass.gramClass t.str == t.cls) = true ∧
    (rtWitnesses.all fun w => w.2.2.all fun t => GramClass.gramClass t.str == t.cls) = true :=
  C12Fixed.gram_class_agrees

/-- Compiling data/syntax/py_gram.lark (its real token list) as `gram_check` does yields, through `render_rules`, exactly the
    text of data/syntax/py_rules.py; the compiled tree is the literal of py_rules.py up to Python's reading of `\'`; and
    `from_ast` of that literal is `py_rules()`. -/
theorem fixed_py :
    (∃ t, C12Fixed.compile pyGramLarkTokens = .ok t ∧ renderRules C12Fixed.pyRulesStem t = pyRulesPyText ∧
      C12Fixed.mapValues C12Fixed.pyLiteralValue t.simplify = pyRulesAst) ∧
    fromAst pyRulesAst = .ok pyRules := by
  refine ⟨?_, C12Fixed.py_literal⟩
  have h := C12Fixed.py_both
  unfold C12Fixed.pyFixedBoth at h
  split at h
  · rename_i t ht
    simp only [Bool.and_eq_true, decide_eq_true_eq] at h
    exact ⟨t, ht, h.1, h.2⟩
  · cases h

/-! ## the renderer's escape fix-ups -/

/-- For every token value without a single quote, the text `render_rules` writes between the quotes of the Python literal
    (backslashes doubled, then `\\'` turned into `\'`) is read back by Python's literal evaluation (`\\` ↦ `\`, `\'` ↦ `'`) as the
    value itself — the value-level half of "the generated module defines the rules of the grammar"; that the text stays ONE
    line-structured literal (no raw LF/CR, no other line separator splitting it) is checked by the `render-import` search. -/
theorem render_value_rt (v : Str) (h : '\'' ∉ v) : pyUnescape (fixups v) = v :=
  RulesAst.render_value_rt v h

/-- non-vacuity: a regexp body full of backslashes, `[\/].+\\` -/
example : pyUnescape (fixups ['[', '\\', '/', ']', '.', '+', '\\', '\\']) = ['[', '\\', '/', ']', '.', '+', '\\', '\\'] ∧
    fixups ['a', '\\', 'b'] = ['a', '\\', '\\', 'b'] := by decide

/-! ## text-level round trip -/

/-- The law of the property for a lexer `lex` (any function from the printed text to tokens): printing a canonical rule
    set, lexing and parsing the printout with the built-in rules and rebuilding gives the rule set back.
    NOT proved in general (it needs a lexer model and an inversion argument for the ordered-choice engine on the 13-rule
    meta-grammar); `text_rt_partial` isolates the one hypothesis that is left, `text_rt_regression` checks it in the kernel
    for the recorded witnesses, the `round-trip` search checks it on the real code. -/
def text_rt_statement (lex : Str → List Tok) (fuel : List Tok → Nat) : Prop :=
  ∀ g : Rules, Canon g →
    (parse gramEnv (fuel (lex (pretty g ++ ['\n']))) (pretty g ++ ['\n']) (lex (pretty g ++ ['\n'])) nEntry).bind
      (fun t => fromAst t.simplify) = .ok g

/-- The text-level law holds for every canonical rule set whose printout the engine parses into the rule set's own tuple
    tree `toAst g` (exactly what the `rules-text` correspondence compares with the real parse on every run): everything
    after the parse is the proved AST-level round trip. -/
theorem text_rt_partial (lex : Str → List Tok) (fuel : List Tok → Nat) (g : Rules) (h : Canon g) (t : Ast)
    (hparse : parse gramEnv (fuel (lex (pretty g ++ ['\n']))) (pretty g ++ ['\n']) (lex (pretty g ++ ['\n'])) nEntry = .ok t)
    (hshape : t.simplify = toAst g) :
    (parse gramEnv (fuel (lex (pretty g ++ ['\n']))) (pretty g ++ ['\n']) (lex (pretty g ++ ['\n'])) nEntry).bind
      (fun t => fromAst t.simplify) = .ok g := by
  rw [hparse]
  show fromAst t.simplify = .ok g
  rw [hshape]
  exact ast_rt_from_to g h

set_option maxRecDepth 100000 in
/-- **The meta-grammar reproduces itself at text level**: printing the built-in rule set, lexing and parsing the printout with
    that very rule set and rebuilding gives the built-in rule set back (`TextRt.textRt`: model printer, C13 lexer model with the gram
    token definition, transcribed regexp classes, engine, `from_ast`) — an instance of `text_rt_statement` with nothing
    trusted but the two transcriptions (lexer model: C13; regexp predicates: `gram_class_agrees`). -/
theorem text_rt_gram : TextRt.textRt gramRules = true := by decide +kernel

/-- `x := a (b | c)` -/
def bareGroup : Rules :=
  [(['x'], .group [.pattern ['a'] .symbol .noComp,
      .group [.group [.pattern ['b'] .symbol .noComp, .pattern ['c'] .symbol .noComp] .or .noRepeat] .and .noRepeat] .and .noRepeat)]

/-- `x := a b | c` -/
def flatAlt : Rules :=
  [(['x'], .group [.group [.pattern ['a'] .symbol .noComp, .pattern ['b'] .symbol .noComp] .and .noRepeat,
      .pattern ['c'] .symbol .noComp] .or .noRepeat)]

/-- Regression of the repaired finding F7 (fix 87005c8): a group without repeat marker keeps its parentheses, so the two
    rule sets that used to print alike are told apart again. -/
theorem text_rt_f7_regression : Canon bareGroup ∧ Canon flatAlt ∧
    pretty bareGroup = ['x', ' ', ':', '=', ' ', 'a', ' ', '(', 'b', ' ', '|', ' ', 'c', ')'] ∧
    pretty flatAlt = ['x', ' ', ':', '=', ' ', 'a', ' ', 'b', ' ', '|', ' ', 'c'] := by
  decide

/-- one recorded witness: the model's printout equals the REAL printout, the lexer model (C13, gram token definition) turns
    that text into the strings and source maps of the REAL tokens, and the model engine on those tokens gives the rule set
    back (only the regexp class of each token is not recomputed in Lean) -/
def rtHolds (w : TEntry × Str × List Tok) : Bool :=
  match fromAst w.1 with
  | .ok g =>
    decide (pretty g ++ ['\n'] = w.2.1) && C12Fixed.lexAgrees w.2.1 w.2.2 &&
      decide ((parse gramEnv (100 * (w.2.2.length + 10)) w.2.1 w.2.2 nEntry).bind (fun t => fromAst t.simplify) = .ok g)
  | .error _ => false

/-- The text-level round trip, evaluated by the kernel on every recorded witness (verif/corpus/C12: the F7 witnesses
    `x := a (b | c)`, `x := (a)`, `y[1] := (a "+") | b`), with the real printed text and its real token list as data. -/
theorem text_rt_regression : rtWitnesses.all rtHolds = true := by decide +kernel

set_option maxRecDepth 100000 in
/-- the recorded witnesses round-trip entirely in Lean as well (no dumped tokens) -/
theorem text_rt_witnesses :
    (rtWitnesses.all fun w => match fromAst w.1 with
      | .ok g => TextRt.textRt g
      | .error _ => false) = true := by decide +kernel

/-! ## equal rule sets accept the same sentences -/

/-- Rule sets that are equal as data give the same result on every token list (the engine reads nothing but the rule
    data): with `ast_rt_from_to`, a rule set rebuilt from its own tuple tree parses exactly like the original. -/
theorem accept_same (g : Rules) (h : Canon g) (rx : Str → Tok → Bool) (fuel : Nat) (source : Str) (toks : List Tok) (entry : Str) :
    (fromAst (toAst g)).map (fun g' => parse (Env.of g' rx) fuel source toks entry) = .ok (parse (Env.of g rx) fuel source toks entry) := by
  rw [ast_rt_from_to g h]; rfl

end Tranp.C12
