/-
  Property C18 — Fragment splitting helpers respect bracket and quote nesting.
  Property theorems only; helper lemmas live in Tranp/Lemmas/Block.lean, the model in Tranp/Model/Block.lean.
-/
import Tranp.Lemmas.Block
import Tranp.Lemmas.BlockDirty

namespace Tranp.C18
open Tranp Tranp.Block Tranp.Generated.BlockPairs

/-! ## `_skip_other_block` -/

/-- Started on the opening bracket of a group whose content is a clean fragment (any nesting), `_skip_other_block`
    returns the position right behind the matching closing bracket — whatever precedes and follows. -/
theorem skip_group (k : BK) (i : Frag) (pre rest : Str) (hi : Frag.Clean i) :
    skipOther allPairs (pre ++ (Frag.group k i .nil).render ++ rest) pre.length
      = pre.length + (Frag.group k i .nil).render.length := by
  simp only [skipOther, Frag.render, List.append_assoc, List.drop_left, List.cons_append, List.nil_append,
    skipLen_group k i rest hi, List.length_cons, List.length_append, List.length_nil]

/-- non-vacuity: `f([a, "x)"` is not clean, `f([a], {"k": 1})` is; skipping from the `(` of `f(…) + g` -/
example :
    let i : Frag := .group .sq (.atom 'a' .nil) (.atom ',' (.group .cur (.str .dq ['k'] (.atom ':' (.atom '1' .nil))) .nil))
    Frag.Clean i ∧ skipOther allPairs (['f'] ++ (Frag.group .par i .nil).render ++ [' ', '+', ' ', 'g']) 1 = 14 := by
  decide

/-- The same for a quoted string without bracket or quote characters inside (delimiters and blanks allowed). -/
theorem skip_string (q : QK) (b : Str) (pre rest : Str) (hb : ∀ c ∈ b, has Frag.special c = false) :
    skipOther allPairs (pre ++ (Frag.str q b .nil).render ++ rest) pre.length
      = pre.length + (Frag.str q b .nil).render.length := by
  simp only [skipOther, Frag.render, List.append_assoc, List.drop_left, List.cons_append, List.nil_append,
    skipLen_str q b rest hb, List.length_cons, List.length_append, List.length_nil]

example : skipOther allPairs (['x', '='] ++ (Frag.str .sq ['a', ',', ' ', 'b'] .nil).render ++ [',', 'y']) 2 = 8 := by
  decide

/-! ## `break_separator` -/

/-- `break_separator` on (the text of) a clean fragment returns exactly the top-level pieces: the fragment is cut at every
    top-level occurrence of the delimiter except one in the very last position, nowhere else, every piece is stripped of
    surrounding blanks, an empty first piece is kept, and the empty text gives no piece. Holds for every delimiter character. -/
theorem sep_spec (d : Char) (f : Frag) (hf : Frag.Clean f) :
    breakSeparator f.render [d] = .ok (sepSpec d f) := by
  rw [breakSeparator_clean d f hf, specGo_nil_eq_sepSpec]

/-- non-vacuity: `f(a,","), b,` — comma inside a group, inside a string, at top level and in the last position -/
example :
    let f : Frag := .atom 'f' (.group .par (.atom 'a' (.atom ',' (.str .dq [','] .nil))) (.atom ',' (.atom ' ' (.atom 'b' (.atom ',' .nil)))))
    Frag.Clean f ∧ breakSeparator f.render [','] = .ok [['f', '(', 'a', ',', '"', ',', '"', ')'], ['b', ',']] := by
  decide

/-- Every cut is a top-level delimiter: the fragment *is* `f₁ d f₂ d … fₙ` with the delimiter as a top-level atom between
    clean (hence balanced) fragments, and the pieces returned are exactly the texts of `f₁ … fₙ`, stripped. -/
theorem sep_only_top (d : Char) (f : Frag) (hf : Frag.Clean f) (hne : f ≠ .nil) :
    ∃ fs : List Frag, Frag.join d fs = f ∧ (∀ p ∈ fs, Frag.Clean p) ∧
      breakSeparator f.render [d] = .ok (fs.map fun p => strip p.render) := by
  refine ⟨f.topSplit d, join_topSplit d f, clean_topSplit d f hf, ?_⟩
  rw [sep_spec d f hf, sepSpec, if_neg hne]

example : Frag.join ',' [.atom 'a' .nil, .group .par (.atom ',' .nil) .nil] = .atom 'a' (.atom ',' (.group .par (.atom ',' .nil) .nil)) := by
  decide

/-- The pieces rejoined with the delimiter give back the text up to blanks around the pieces: there are segments with
    `d.join(segments) = text` and `pieces = [s.strip(' ') for s in segments]`. -/
theorem sep_rejoin (d : Char) (f : Frag) (hf : Frag.Clean f) (hne : f ≠ .nil) :
    ∃ segs : List Str, Str.join [d] segs = f.render ∧ breakSeparator f.render [d] = .ok (segs.map strip) := by
  obtain ⟨fs, hj, _, hb⟩ := sep_only_top d f hf hne
  refine ⟨fs.map Frag.render, ?_, ?_⟩
  · rw [← render_join, hj]
  · rw [hb, List.map_map]; rfl

/-- non-vacuity: ` a = [=] ` with `=`: segments ` a ` and ` [=] `, pieces `a` and `[=]` -/
example :
    let f : Frag := .atom ' ' (.atom 'a' (.atom ' ' (.atom '=' (.atom ' ' (.group .sq (.atom '=' .nil) (.atom ' ' .nil))))))
    let segs : List Str := [[' ', 'a', ' '], [' ', '[', '=', ']', ' ']]
    Frag.Clean f ∧ f ≠ .nil ∧ Str.join ['='] segs = f.render ∧ breakSeparator f.render ['='] = .ok (segs.map strip) := by
  decide

/-- No piece is unbalanced: every piece is the text of a clean fragment. -/
theorem sep_balanced (d : Char) (f : Frag) (hf : Frag.Clean f) (pieces : List Str)
    (h : breakSeparator f.render [d] = .ok pieces) :
    ∀ p ∈ pieces, ∃ g : Frag, Frag.Clean g ∧ g.render = p := by
  rw [sep_spec d f hf] at h
  injection h with h
  subst h
  intro p hp
  simp only [sepSpec] at hp
  split at hp
  · simp at hp
  · obtain ⟨g, hg, rfl⟩ := List.mem_map.mp hp
    exact ⟨g.lstrip.rstrip, clean_rstrip _ (clean_lstrip _ (clean_topSplit d f hf g hg)), (strip_render g).symm⟩

example :
    let f : Frag := .atom ' ' (.atom 'a' (.atom ' ' (.atom ':' (.group .cur (.atom ':' .nil) (.atom ' ' .nil)))))
    Frag.Clean f ∧ breakSeparator f.render [':'] = .ok [['a'], ['{', ':', '}']] := by
  decide

/-! ## `break_last_block` -/

/-- Taking the last bracket group of `prefix + group` returns that prefix and the group's inside, for every prefix and
    inside that are balanced fragments whose strings do not contain the brackets of the kind that is extracted
    (they may contain the other brackets and quotes). -/
theorem last_block (k : BK) (pre inner : Frag) (hp : Frag.CleanFor k pre) (hi : Frag.CleanFor k inner) :
    breakLastBlock (pre.render ++ k.open :: (inner.render ++ [k.close])) [k.open, k.close]
      = .ok (pre.render, inner.render) :=
  breakLastBlock_prefix_group k pre inner [] hp hi

/-- non-vacuity: `a[0]"(".b` + `[` `c[1]"}"` `]` -/
example :
    let pre : Frag := .atom 'a' (.group .sq (.atom '0' .nil) (.str .dq ['('] (.atom '.' (.atom 'b' .nil))))
    let inner : Frag := .atom 'c' (.group .sq (.atom '1' .nil) (.str .dq ['}'] .nil))
    Frag.CleanFor .sq pre ∧ Frag.CleanFor .sq inner ∧
      breakLastBlock (pre.render ++ '[' :: (inner.render ++ [']'])) ['[', ']'] = .ok (pre.render, inner.render) := by
  decide

/-- Without an opening or without a closing bracket of the kind there is no group: `ranges[-1]` raises `IndexError`
    (the explicit error branch of the model — nothing is defaulted). -/
theorem last_block_error (o cl : Char) (text : Str) (h : (∀ c ∈ text, c ≠ o) ∨ (∀ c ∈ text, c ≠ cl)) :
    breakLastBlock text [o, cl] = .error .IndexError :=
  breakLastBlock_error o cl [] text h

example : breakLastBlock ['a', '(', 'b'] ['(', ')'] = .error .IndexError := by decide

/-- The three laws for fragments whose quoted strings are *arbitrary* simple strings (brackets and the other quote kind
    allowed inside): the text is `f₁ d f₂ d … fₙ` at top level with balanced fragments `fᵢ`, and the pieces returned are
    exactly their texts, stripped — every cut is a top-level delimiter, the pieces rejoin to the text up to blanks, no piece
    is unbalanced. (A bracket inside a string makes the scanner skip too far, so not every top-level delimiter is a cut;
    it never makes it cut inside a group or a string.) -/
def sep_only_top_dirty_statement : Prop :=
  ∀ (d : Char) (f : Frag), Frag.Simple f → f ≠ .nil →
    ∃ fs : List Frag, Frag.join d fs = f ∧ (∀ p ∈ fs, Frag.Simple p) ∧
      breakSeparator f.render [d] = .ok (fs.map fun p => strip p.render)

theorem sep_only_top_dirty : sep_only_top_dirty_statement :=
  fun d f hf hne => breakSeparator_simple d f hf hne

/-- non-vacuity: `"(", x` (a bracket inside a string) stays in one piece; `(")"), x` is cut at the top-level comma -/
example :
    let f : Frag := .str .dq ['('] (.atom ',' (.atom ' ' (.atom 'x' .nil)))
    let g : Frag := .group .par (.str .dq [')'] .nil) (.atom ',' (.atom ' ' (.atom 'x' .nil)))
    Frag.Simple f ∧ ¬ Frag.Clean f ∧ breakSeparator f.render [','] = .ok [f.render] ∧
      Frag.Simple g ∧ breakSeparator g.render [','] = .ok [['(', '"', ')', '"', ')'], ['x']] := by
  decide

/-- "On every fragment with simple strings the split is *exactly* the top-level split" — the completeness half, which
    holds for clean fragments (`sep_spec`), is false once a string contains a bracket. -/
def sep_spec_dirty_statement : Prop :=
  ∀ (d : Char) (f : Frag), Frag.Simple f → breakSeparator f.render [d] = .ok (sepSpec d f)

/-- witness `"(", x` → one piece instead of two -/
theorem sep_spec_dirty_counterexample : ¬ sep_spec_dirty_statement := by
  intro h
  have := h ',' (.str .dq ['('] (.atom ',' (.atom ' ' (.atom 'x' .nil)))) (by decide)
  revert this
  decide

/-- The model's loop always finishes: the recursion fuel (`len(text) + 1`) is never used up, for every text and delimiter
    (together with the correspondence streams: the `while` loop of `break_separator` terminates). -/
theorem sep_total (text d : Str) : breakSeparator text d ≠ .error .Fuel :=
  sepLoop_no_fuel text d _ _ _ _ _ (Nat.lt_succ_self _)

example : breakSeparator ['(', '"', ',', 'a'] [] = .ok [['(', '"', ',', 'a']] ∧ breakSeparator ['a'] [] = .error .IndexError := by
  decide

/-! ## `DecoratorHelper._parse` -/

/-- For `path(args)` with a clean argument fragment: the path, `join_args = args`, and the argument dictionary built (by the
    label rule of decorator.py:36-40) from exactly the top-level comma pieces of `args`. -/
theorem decorator (path : Str) (args : Frag) (hp : ∀ x ∈ path, x ≠ '(') (ha : Frag.Clean args) :
    decoParse (path ++ '(' :: (args.render ++ [')']))
      = .ok (path, decoArgs (sepSpec ',' args), args.render) :=
  decoParse_clean path args hp ha

/-- non-vacuity: `a.b(k="1,2", m=[x,y])` → path `a.b`, `{k: "1,2", m: [x,y]}` -/
example :
    let args : Frag := .atom 'k' (.atom '=' (.str .dq ['1', ',', '2'] (.atom ',' (.atom ' ' (.atom 'm' (.atom '='
      (.group .sq (.atom 'x' (.atom ',' (.atom 'y' .nil))) .nil)))))))
    Frag.Clean args ∧ decoParse (['a', '.', 'b'] ++ '(' :: (args.render ++ [')']))
      = .ok (['a', '.', 'b'], [(['k'], ['"', '1', ',', '2', '"']), (['m'], ['[', 'x', ',', 'y', ']'])], args.render) := by
  decide

/-- With arbitrary simple strings in the arguments (brackets, the other quote inside): path and `join_args` are still exact,
    and the argument pieces are the texts of fragments that make up `args` when joined with top-level commas — arguments
    can be merged (`"(", x` stays one piece), they are never cut inside a group or a string. -/
theorem decorator_dirty (path : Str) (args : Frag) (hp : ∀ x ∈ path, x ≠ '(') (ha : Frag.Simple args) (hne : args ≠ .nil) :
    ∃ fs : List Frag, Frag.join ',' fs = args ∧ (∀ p ∈ fs, Frag.Simple p) ∧
      decoParse (path ++ '(' :: (args.render ++ [')']))
        = .ok (path, decoArgs (fs.map fun p => strip p.render), args.render) :=
  decoParse_simple path args hp ha hne

/-- non-vacuity, and the merge on the current code: `a.b("(", x)` → `{'0': '"(", x'}` -/
example :
    let args : Frag := .str .dq ['('] (.atom ',' (.atom ' ' (.atom 'x' .nil)))
    Frag.Simple args ∧ decoParse (['a', '.', 'b'] ++ '(' :: (args.render ++ [')']))
      = .ok (['a', '.', 'b'], [(Str.natToDec 0, ['"', '(', '"', ',', ' ', 'x'])], args.render) := by
  decide +kernel

/-- Each stored (key, value) reassembles to its argument piece: `label=value` when the piece contains `=`, else the piece
    itself under its position. -/
theorem decorator_reassemble (i : Nat) (arg : Str) :
    (Str.count '=' arg > 0 → (decoKV i arg).1 ++ '=' :: (decoKV i arg).2 = arg) ∧
    (Str.count '=' arg = 0 → decoKV i arg = (Str.natToDec i, arg)) :=
  decoKV_reassemble i arg

example : decoKV 3 ['k', '=', 'a', '=', 'b'] = (['k'], ['a', '=', 'b']) := by decide

/-- "A positional argument (no top-level `=`) is stored verbatim under its position" — the arguments law for a single
    positional argument. False on the current code: `arg.count('=')` also counts `=` nested in brackets and strings. -/
def decorator_positional_statement : Prop :=
  ∀ (path : Str) (v : Frag), (∀ x ∈ path, x ≠ '(') → Frag.Clean v → Frag.noTop ',' v = true → Frag.noTop '=' v = true →
    v ≠ .nil →
    decoParse (path ++ '(' :: (v.render ++ [')'])) = .ok (path, [(['0'], strip v.render)], v.render)

/-- witness `f(g(k=1))`: stored as `{'g(k': '1)'}` -/
theorem decorator_positional_counterexample : ¬ decorator_positional_statement := by
  intro h
  have := h ['f'] (.atom 'g' (.group .par (.atom 'k' (.atom '=' (.atom '1' .nil))) .nil))
    (by decide) (by decide) (by decide) (by decide) (by decide)
  revert this
  decide

/-! ## `CppViewHelper.Param.parse` -/

/-- `type… name` (blank-separated non-empty clean tokens without top-level blank or `=`): the type tokens joined by one blank,
    the name, and an empty default. -/
theorem param_plain (ts : List Frag) (nm : Frag) (h : ∀ t ∈ ts ++ [nm], ParamToken t) :
    paramParse (Frag.join ' ' (ts ++ [nm])).render = .ok (Str.join [' '] (ts.map Frag.render), nm.render, []) :=
  paramParse_plain ts nm h

/-- non-vacuity: `unsigned long n` -/
example :
    let t1 : Frag := .atom 'u' (.atom 'n' (.atom 's' (.atom 'i' (.atom 'g' (.atom 'n' (.atom 'e' (.atom 'd' .nil)))))))
    let t2 : Frag := .atom 'l' (.atom 'o' (.atom 'n' (.atom 'g' .nil)))
    (∀ t ∈ [t1, t2] ++ [Frag.atom 'n' .nil], ParamToken t) ∧
      paramParse (Frag.join ' ' ([t1, t2] ++ [Frag.atom 'n' .nil])).render
        = .ok (['u', 'n', 's', 'i', 'g', 'n', 'e', 'd', ' ', 'l', 'o', 'n', 'g'], ['n'], []) := by
  decide

/-- `type… name = default` where the default is a clean fragment without a top-level `=`: the three parts
    (the default stripped of surrounding blanks). -/
theorem param (ts : List Frag) (nm df : Frag) (h : ∀ t ∈ ts ++ [nm], ParamToken t)
    (hd : Frag.Clean df) (hde : Frag.noTop '=' df = true) :
    paramParse ((Frag.join ' ' (ts ++ [nm])).render ++ ' ' :: '=' :: ' ' :: df.render)
      = .ok (Str.join [' '] (ts.map Frag.render), nm.render, strip df.render) :=
  paramParse_default ts nm df h hd hde

/-- non-vacuity: `const m<a, b> n = {1, 2}` -/
example :
    let t1 : Frag := .atom 'c' (.atom 'o' (.atom 'n' (.atom 's' (.atom 't' .nil))))
    let t2 : Frag := .atom 'm' (.group .ang (.atom 'a' (.atom ',' (.atom ' ' (.atom 'b' .nil)))) .nil)
    let nm : Frag := .atom 'n' .nil
    let df : Frag := .group .cur (.atom '1' (.atom ',' (.atom ' ' (.atom '2' .nil)))) .nil
    (∀ t ∈ [t1, t2] ++ [nm], ParamToken t) ∧ Frag.Clean df ∧ Frag.noTop '=' df = true ∧
      paramParse ((Frag.join ' ' ([t1, t2] ++ [nm])).render ++ ' ' :: '=' :: ' ' :: df.render)
        = .ok (['c', 'o', 'n', 's', 't', ' ', 'm', '<', 'a', ',', ' ', 'b', '>'], ['n'], ['{', '1', ',', ' ', '2', '}']) := by
  decide

/-- The same without the restriction on the default value: every clean default fragment comes back. False on the current
    code: a default with a top-level `=` (`x == y`) is cut into more than two pieces and dropped. -/
def param_unrestricted_statement : Prop :=
  ∀ (ts : List Frag) (nm df : Frag), (∀ t ∈ ts ++ [nm], ParamToken t) → Frag.Clean df →
    paramParse ((Frag.join ' ' (ts ++ [nm])).render ++ ' ' :: '=' :: ' ' :: df.render)
      = .ok (Str.join [' '] (ts.map Frag.render), nm.render, strip df.render)

/-- witness `bool b = x == y` → `('bool', 'b', '')` -/
theorem param_counterexample : ¬ param_unrestricted_statement := by
  intro h
  have := h [.atom 'b' (.atom 'o' (.atom 'o' (.atom 'l' .nil)))] (.atom 'b' .nil)
    (.atom 'x' (.atom ' ' (.atom '=' (.atom '=' (.atom ' ' (.atom 'y' .nil)))))) (by decide) (by decide)
  revert this
  decide

example : paramParse ['b', 'o', 'o', 'l', ' ', 'b', ' ', '=', ' ', 'x', ' ', '=', '=', ' ', 'y']
    = .ok (['b', 'o', 'o', 'l'], ['b'], []) := by decide

/-! ## `parse_bracket` -/

/-- "The first block returned for `name + group + tail` is the whole group, and every block has as many opening as closing
    brackets." False on the current code: after a nested group `_parse` continues one character too far
    (`index = end + 1`, block.py:147) and swallows the closer of the enclosing group. -/
def bracket_statement : Prop :=
  ∀ (k : BK) (name tail : Str) (inner : Frag) (blocks : List Str),
    (∀ c ∈ name ++ tail, has Frag.special c = false) → Frag.Clean inner →
    parseBracket (name ++ k.open :: (inner.render ++ k.close :: tail)) [k.open, k.close] = .ok blocks →
    blocks.head? = some (k.open :: (inner.render ++ [k.close])) ∧
      ∀ b ∈ blocks, Str.count k.open b = Str.count k.close b

/-- witness `f(g(x))+1` → `['(g(x))+1', '(x)']` -/
theorem bracket_counterexample : ¬ bracket_statement := by
  intro h
  have := h .par ['f'] ['+', '1'] (.atom 'g' (.group .par (.atom 'x' .nil) .nil))
    [['(', 'g', '(', 'x', ')', ')', '+', '1'], ['(', 'x', ')']] (by decide) (by decide) (by decide)
  revert this
  decide

end Tranp.C18
