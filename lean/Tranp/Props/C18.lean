/-
  Property C18 — Fragment splitting helpers respect bracket and quote nesting.
  Property theorems only; helper lemmas live in Tranp/Lemmas/Block.lean, the model in Tranp/Model/Block.lean.
  State of /repo: after the four C18 repairs (Param default with `=`, top-level `=` in decorator arguments, brackets inside
  strings, parse_bracket around nested groups) — the former `_counterexample`s are proved statements now.
  Fragments: `Frag.Simple f` = atoms are not bracket/quote characters, a quoted string does not contain its own quote
  (it may contain delimiters, every bracket and the other quote).
-/
import Tranp.Lemmas.Block
import Tranp.Lemmas.BlockParse
import Tranp.Lemmas.BlockCallers
import Tranp.Lemmas.BlockTotal
import Tranp.Lemmas.BlockLast
import Tranp.Lemmas.BlockMulti
import Tranp.Lemmas.BlockView
import Tranp.Lemmas.BlockDecoTotal
import Tranp.Lemmas.BlockDict
import Tranp.Lemmas.BlockFormat
import Tranp.Generated.BlockCallSites

namespace Tranp.C18
open Tranp Tranp.Block Tranp.Generated.BlockPairs Tranp.Generated.BlockCallSites

/-! ## `_skip_other_block` -/

/-- Started on the opening bracket of a group whose content is a fragment (any nesting, any simple strings),
    `_skip_other_block` returns the position right behind the matching closing bracket — whatever precedes and follows. -/
theorem skip_group (k : BK) (i : Frag) (pre rest : Str) (hi : Frag.Simple i) :
    skipOther allPairs (pre ++ (Frag.group k i .nil).render ++ rest) pre.length
      = pre.length + (Frag.group k i .nil).render.length := by
  simp only [skipOther, Frag.render, List.append_assoc, List.drop_left, List.cons_append, List.nil_append,
    skipLen_group k i rest hi, List.length_cons, List.length_append, List.length_nil]

/-- non-vacuity: skipping `([a],{")": 1})` from the `(` of `f(…) + g` -/
example :
    let i : Frag := .group .sq (.atom 'a' .nil) (.atom ',' (.group .cur (.str .dq [')'] (.atom ':' (.atom '1' .nil))) .nil))
    Frag.Simple i ∧ skipOther allPairs (['f'] ++ (Frag.group .par i .nil).render ++ [' ', '+', ' ', 'g']) 1 = 14 := by
  decide

/-- A string nested inside a group (the shape of seed C18-9): whatever the string holds — brackets of every kind, the
    closing bracket of the group itself, the other quote — and whatever stands around it inside the group, the skip started on
    the group's opening bracket ends right behind the group's own closing bracket. (Instance of `skip_group`, stated on its
    own because "inside a string" has to be decided from the top of the closer stack, not from the character the skip
    started on.) -/
theorem skip_string_in_group (k : BK) (q : QK) (a r : Frag) (body pre rest : Str) (ha : Frag.Simple a) (hr : Frag.Simple r)
    (hb : ∀ c ∈ body, c ≠ q.ch) :
    skipOther allPairs (pre ++ (Frag.group k (a ++ Frag.str q body r) .nil).render ++ rest) pre.length
      = pre.length + (Frag.group k (a ++ Frag.str q body r) .nil).render.length :=
  skip_group k _ pre rest ((simple_append_iff _ _).mpr ⟨ha, (simple_str q body r).mpr ⟨hb, hr⟩⟩)

/-- non-vacuity: `f(a, ")]('", b) + c` from the `(` -/
example :
    let a : Frag := .atom 'a' (.atom ',' (.atom ' ' .nil))
    let r : Frag := .atom ',' (.atom ' ' (.atom 'b' .nil))
    Frag.Simple a ∧ Frag.Simple r ∧
      skipOther allPairs (['f'] ++ (Frag.group .par (a ++ Frag.str .dq [')', ']', '(', '\''] r) .nil).render ++ [' ', '+', ' ', 'c']) 1 = 15 := by
  decide

/-- The same for a quoted string that does not contain its own quote (brackets, the other quote, delimiters allowed). -/
theorem skip_string (q : QK) (b : Str) (pre rest : Str) (hb : ∀ c ∈ b, c ≠ q.ch) :
    skipOther allPairs (pre ++ (Frag.str q b .nil).render ++ rest) pre.length
      = pre.length + (Frag.str q b .nil).render.length := by
  simp only [skipOther, Frag.render, List.append_assoc, List.drop_left, List.cons_append, List.nil_append,
    skipLen_str q b rest hb, List.length_cons, List.length_append, List.length_nil]

example : skipOther allPairs (['x', '='] ++ (Frag.str .sq ['(', ',', '"', 'b'] .nil).render ++ [',', 'y']) 2 = 8 := by
  decide

/-! ## `break_separator` -/

/-- `break_separator` on (the text of) a fragment returns exactly the top-level pieces: the fragment is cut at every
    top-level occurrence of the delimiter except one in the very last position, nowhere else, every piece is stripped of
    surrounding blanks, an empty first piece is kept, and the empty text gives no piece. Holds for every delimiter
    character and for arbitrary simple strings (brackets and the other quote inside). -/
theorem sep_spec (d : Char) (f : Frag) (hf : Frag.Simple f) :
    breakSeparator f.render [d] = .ok (sepSpec d f) :=
  breakSeparator_simple d f hf

/-- non-vacuity: `f(a,","), b,` — comma inside a group, inside a string, at top level and in the last position -/
example :
    let f : Frag := .atom 'f' (.group .par (.atom 'a' (.atom ',' (.str .dq [','] .nil))) (.atom ',' (.atom ' ' (.atom 'b' (.atom ',' .nil)))))
    Frag.Simple f ∧ breakSeparator f.render [','] = .ok [['f', '(', 'a', ',', '"', ',', '"', ')'], ['b', ',']] := by
  decide

/-- The former counterexample as a statement: the exact split also when a string contains a bracket. -/
def sep_spec_dirty_statement : Prop :=
  ∀ (d : Char) (f : Frag), Frag.Simple f → breakSeparator f.render [d] = .ok (sepSpec d f)

theorem sep_spec_dirty : sep_spec_dirty_statement := sep_spec

/-- the old witnesses: `"(", x` is two pieces now; `'"' "'", x` (quotes of the other kind inside) as well -/
example :
    let f : Frag := .str .dq ['('] (.atom ',' (.atom ' ' (.atom 'x' .nil)))
    let g : Frag := .str .sq ['"'] (.atom ' ' (.str .dq ['\''] (.atom ',' (.atom 'x' .nil))))
    Frag.Simple f ∧ breakSeparator f.render [','] = .ok [['"', '(', '"'], ['x']] ∧
      Frag.Simple g ∧ breakSeparator g.render [','] = .ok [['\'', '"', '\'', ' ', '"', '\'', '"'], ['x']] := by
  decide

/-- Every cut is a top-level delimiter: the fragment *is* `f₁ d f₂ d … fₙ` with the delimiter as a top-level atom between
    (balanced) fragments, and the pieces returned are exactly the texts of `f₁ … fₙ`, stripped. -/
theorem sep_only_top (d : Char) (f : Frag) (hf : Frag.Simple f) (hne : f ≠ .nil) :
    ∃ fs : List Frag, Frag.join d fs = f ∧ (∀ p ∈ fs, Frag.Simple p) ∧
      breakSeparator f.render [d] = .ok (fs.map fun p => strip p.render) := by
  refine ⟨f.topSplit d, join_topSplit d f, simple_topSplit d f hf, ?_⟩
  rw [sep_spec d f hf, sepSpec, if_neg hne]

example : Frag.join ',' [.atom 'a' .nil, .group .par (.atom ',' .nil) .nil] = .atom 'a' (.atom ',' (.group .par (.atom ',' .nil) .nil)) := by
  decide

/-- The pieces rejoined with the delimiter give back the text up to blanks around the pieces: there are segments with
    `d.join(segments) = text` and `pieces = [s.strip(' ') for s in segments]`. -/
theorem sep_rejoin (d : Char) (f : Frag) (hf : Frag.Simple f) (hne : f ≠ .nil) :
    ∃ segs : List Str, Str.join [d] segs = f.render ∧ breakSeparator f.render [d] = .ok (segs.map strip) := by
  obtain ⟨fs, hj, _, hb⟩ := sep_only_top d f hf hne
  refine ⟨fs.map Frag.render, ?_, ?_⟩
  · rw [← render_join, hj]
  · rw [hb, List.map_map]; rfl

/-- non-vacuity: ` a = [=] ` with `=`: segments ` a ` and ` [=] `, pieces `a` and `[=]` -/
example :
    let f : Frag := .atom ' ' (.atom 'a' (.atom ' ' (.atom '=' (.atom ' ' (.group .sq (.atom '=' .nil) (.atom ' ' .nil))))))
    let segs : List Str := [[' ', 'a', ' '], [' ', '[', '=', ']', ' ']]
    Frag.Simple f ∧ f ≠ .nil ∧ Str.join ['='] segs = f.render ∧ breakSeparator f.render ['='] = .ok (segs.map strip) := by
  decide

/-- No piece is unbalanced: every piece is the text of a fragment. -/
theorem sep_balanced (d : Char) (f : Frag) (hf : Frag.Simple f) (pieces : List Str)
    (h : breakSeparator f.render [d] = .ok pieces) :
    ∀ p ∈ pieces, ∃ g : Frag, Frag.Simple g ∧ g.render = p := by
  rw [sep_spec d f hf] at h
  injection h with h
  subst h
  intro p hp
  simp only [sepSpec] at hp
  split at hp
  · simp at hp
  · obtain ⟨g, hg, rfl⟩ := List.mem_map.mp hp
    exact ⟨g.lstrip.rstrip, simple_rstrip _ (simple_lstrip _ (simple_topSplit d f hf g hg)), (strip_render g).symm⟩

example :
    let f : Frag := .atom ' ' (.atom 'a' (.atom ' ' (.atom ':' (.group .cur (.atom ':' .nil) (.atom ' ' .nil)))))
    Frag.Simple f ∧ breakSeparator f.render [':'] = .ok [['a'], ['{', ':', '}']] := by
  decide

/-- The model's loop always finishes: the recursion fuel (`len(text) + 1`) is never used up, for every text and delimiter
    (together with the correspondence streams: the `while` loop of `break_separator` terminates). -/
theorem sep_total (text d : Str) : breakSeparator text d ≠ .error .Fuel :=
  sepLoop_no_fuel text d _ _ _ _ _ (Nat.lt_succ_self _)

example : breakSeparator ['(', '"', ',', 'a'] [] = .ok [['(', '"', ',', 'a']] ∧ breakSeparator ['a'] [] = .error .IndexError := by
  decide

/-! ## `break_last_block` -/

/-- Taking the last bracket group of `prefix + group` returns that prefix and the group's inside, for every prefix and
    inside that are balanced fragments whose strings do not contain the brackets of the kind that is extracted
    (they may contain the other brackets and quotes; `break_last_block` does not look at quotes at all). -/
theorem last_block (k : BK) (pre inner : Frag) (hp : Frag.CleanFor k pre) (hi : Frag.CleanFor k inner) :
    breakLastBlock (pre.render ++ k.open :: (inner.render ++ [k.close])) [k.open, k.close]
      = .ok (pre.render, inner.render) :=
  breakLastBlock_prefix_group k pre inner [] hp hi

/-- non-vacuity: `a[0]"(".b` + `[` `c[1]"}"` `]` -/
example :
    let pre : Frag := .atom 'a' (.group .sq (.atom '0' .nil) (.str .dq ['('] (.atom '.' (.atom 'b' .nil))))
    let inner : Frag := .atom 'c' (.group .sq (.atom '1' .nil) (.str .dq ['}'] .nil))
    Frag.CleanFor .sq pre ∧ Frag.CleanFor .sq inner ∧
      breakLastBlock (pre.render ++ '[' :: (inner.render ++ [']'])) ['[', ']'] = .ok (pre.render, inner.render) := by
  decide

/-- Without an opening or without a closing bracket of the kind there is no group: `ranges[-1]` raises `IndexError`
    (the explicit error branch of the model — nothing is defaulted). -/
theorem last_block_error (o cl : Char) (text : Str) (h : (∀ c ∈ text, c ≠ o) ∨ (∀ c ∈ text, c ≠ cl)) :
    breakLastBlock text [o, cl] = .error .IndexError :=
  breakLastBlock_error o cl [] text h

example : breakLastBlock ['a', '(', 'b'] ['(', ')'] = .error .IndexError := by decide

/-- On EVERY text (balanced or not, any strings): when `break_last_block` answers `(prefix, inside)`, the text is
    `prefix ++ open ++ inside ++ close ++ rest` — the two parts are cut out at the position of the group the scan found,
    not at the first place where the group's text happens to occur (`m[i][i]` → `('m[i]', 'i')`). -/
theorem last_block_reassemble (o cl : Char) (text p i : Str) (h : breakLastBlock text [o, cl] = .ok (p, i)) :
    ∃ rest, text = p ++ o :: (i ++ cl :: rest) :=
  breakLastBlock_reassemble o cl [] text p i h

example : breakLastBlock ['m', '[', 'i', ']', '[', 'i', ']', ';'] ['[', ']'] = .ok (['m', '[', 'i', ']'], ['i']) := by decide

/-- Which group is taken, for every fragment whose strings hold no bracket of the kind: the LAST group of the kind that
    does not lie inside another group of the kind (groups of the other kinds are transparent) — wherever it stands, also
    followed by more text or inside groups of other kinds; `prefix` is everything in front of it; no such group: `IndexError`. -/
theorem last_block_spec (k : BK) (f : Frag) (hf : Frag.CleanFor k f) :
    breakLastBlock f.render [k.open, k.close]
      = match (depth0Groups k f []).getLast? with
        | none => .error .IndexError
        | some g => .ok (g.1, g.2.render) :=
  breakLastBlock_frag k f [] hf

/-- non-vacuity: `a[0].b{c[1][2]}.d` → `('a[0].b{c[1]', '2')` -/
example :
    let f : Frag := .atom 'a' (.group .sq (.atom '0' .nil) (.atom '.' (.atom 'b' (.group .cur
      (.atom 'c' (.group .sq (.atom '1' .nil) (.group .sq (.atom '2' .nil) .nil))) (.atom '.' (.atom 'd' .nil))))))
    Frag.CleanFor .sq f ∧ (depth0Groups .sq f []).length = 3 ∧
      breakLastBlock f.render ['[', ']'] = .ok (['a', '[', '0', ']', '.', 'b', '{', 'c', '[', '1', ']'], ['2']) := by
  decide

/-- "The same for every fragment with simple strings" — false: `break_last_block` does not look at quotes, a bracket of the
    kind inside a string is counted (this is why the property's quantifier says "brackets of other kinds"). -/
def last_block_any_string_statement : Prop :=
  ∀ (k : BK) (pre inner : Frag), Frag.Simple pre → Frag.Simple inner →
    breakLastBlock (pre.render ++ k.open :: (inner.render ++ [k.close])) [k.open, k.close] = .ok (pre.render, inner.render)

/-- witness `f(")")` -/
theorem last_block_any_string_counterexample : ¬ last_block_any_string_statement := by
  intro h
  have := h .par (.atom 'f' .nil) (.str .dq [')'] .nil) (by decide) (by decide)
  revert this
  decide

/-! ## `DecoratorHelper._parse` -/

/-- For `path(args)`: the path, `join_args = args`, and the argument dictionary built (decorator.py:36-42) from exactly the
    top-level comma pieces of `args` — for every argument fragment with simple strings. -/
theorem decorator (path : Str) (args : Frag) (hp : ∀ x ∈ path, x ≠ '(') (ha : Frag.Simple args) :
    decoParse (path ++ '(' :: (args.render ++ [')']))
      = (decoArgs (sepSpec ',' args)).bind fun a => .ok (path, a, args.render) :=
  decoParse_simple path args hp ha

/-- non-vacuity: `a.b(k="1,2",m=[x,y],"(",g(j=1))` -/
example :
    let a1 : Frag := .atom 'k' (.atom '=' (.str .dq ['1', ',', '2'] .nil))
    let a2 : Frag := .atom 'm' (.atom '=' (.group .sq (.atom 'x' (.atom ',' (.atom 'y' .nil))) .nil))
    let a3 : Frag := .str .dq ['('] .nil
    let a4 : Frag := .atom 'g' (.group .par (.atom 'j' (.atom '=' (.atom '1' .nil))) .nil)
    let args : Frag := Frag.join ',' [a1, a2, a3, a4]
    Frag.Simple args ∧ decoParse (['a', '.', 'b'] ++ '(' :: (args.render ++ [')']))
      = .ok (['a', '.', 'b'], [(['k'], ['"', '1', ',', '2', '"']), (['m'], ['[', 'x', ',', 'y', ']']),
          (['2'], ['"', '(', '"']), (['3'], ['g', '(', 'j', '=', '1', ')'])], args.render) := by
  decide +kernel

/-- A piece without a top-level `=` is stored verbatim under its position, whatever `=` are nested inside it. -/
theorem decorator_piece_positional (i : Nat) (g : Frag) (hg : Frag.Simple g) (hno : Frag.noTop '=' g = true) :
    decoKV i g.render = .ok (Str.natToDec i, g.render) :=
  decoKV_positional i g hg hno

/-- A piece `label=value` (first top-level `=`, label without leading blank, value not empty) is stored as exactly the
    two texts around that `=`. -/
theorem decorator_piece_labelled (i : Nat) (l v : Frag) (hl : Frag.Simple l) (hv : Frag.Simple v)
    (hno : Frag.noTop '=' l = true) (hlead : l.lstrip = l) (hvn : v ≠ .nil) :
    decoKV i (l ++ Frag.atom '=' v : Frag).render = .ok (l.render, v.render) :=
  decoKV_labelled i l v hl hv hno hlead hvn

example : decoKV 3 ['k', '=', 'a', '=', '=', 'b'] = .ok (['k'], ['a', '=', '=', 'b']) := by decide

/-- non-vacuity with further top-level `=` in the value: `cond=x==y`, `a=b=c` (the label ends at the first `=`) -/
example :
    let l : Frag := .atom 'c' (.atom 'o' (.atom 'n' (.atom 'd' .nil)))
    let v : Frag := .atom 'x' (.atom '=' (.atom '=' (.atom 'y' .nil)))
    Frag.noTop '=' l = true ∧ l.lstrip = l ∧ v ≠ .nil ∧
      decoKV 1 (l ++ Frag.atom '=' v : Frag).render = .ok (['c', 'o', 'n', 'd'], ['x', '=', '=', 'y']) ∧
      decoKV 0 ['a', '=', 'b', '=', 'c'] = .ok (['a'], ['b', '=', 'c']) := by
  decide

/-- "A positional argument (no top-level `=`) is stored verbatim under its position" — the arguments law for a single
    positional argument (the former counterexample `f(g(k=1))` is an instance). -/
def decorator_positional_statement : Prop :=
  ∀ (path : Str) (v : Frag), (∀ x ∈ path, x ≠ '(') → Frag.Simple v → Frag.noTop ',' v = true → Frag.noTop '=' v = true →
    v ≠ .nil →
    decoParse (path ++ '(' :: (v.render ++ [')'])) = .ok (path, [(['0'], strip v.render)], v.render)

theorem decorator_positional : decorator_positional_statement :=
  fun path v hp hv hc he hne => decoParse_positional path v hp hv hc he hne

/-- the old witness `f(g(k=1))` -/
example :
    let a : Str := ['g', '(', 'k', '=', '1', ')']
    decoParse (['f', '('] ++ a ++ [')']) = .ok (['f'], [(['0'], a)], a) := by
  decide +kernel

/-- … and `f("u=v")` -/
example :
    let a : Str := ['"', 'u', '=', 'v', '"']
    decoParse (['f', '('] ++ a ++ [')']) = .ok (['f'], [(['0'], a)], a) := by
  decide +kernel

/-! ## `CppViewHelper.Param.parse` -/

/-- `type… name` (blank-separated non-empty tokens without top-level blank or `=`): the type tokens joined by one blank,
    the name, and an empty default. -/
theorem param_plain (ts : List Frag) (nm : Frag) (h : ∀ t ∈ ts ++ [nm], ParamToken t) :
    paramParse (Frag.join ' ' (ts ++ [nm])).render = .ok (Str.join [' '] (ts.map Frag.render), nm.render, []) :=
  paramParse_plain ts nm h

/-- non-vacuity: `unsigned long n` -/
example :
    let t1 : Frag := .atom 'u' (.atom 'n' (.atom 's' (.atom 'i' (.atom 'g' (.atom 'n' (.atom 'e' (.atom 'd' .nil)))))))
    let t2 : Frag := .atom 'l' (.atom 'o' (.atom 'n' (.atom 'g' .nil)))
    (∀ t ∈ [t1, t2] ++ [Frag.atom 'n' .nil], ParamToken t) ∧
      paramParse (Frag.join ' ' ([t1, t2] ++ [Frag.atom 'n' .nil])).render
        = .ok (['u', 'n', 's', 'i', 'g', 'n', 'e', 'd', ' ', 'l', 'o', 'n', 'g'], ['n'], []) := by
  decide

/-- `type… name = default`: the three parts come back for *every* default fragment (stripped of surrounding blanks) —
    also one with a top-level `=` such as `x == y` (the former counterexample). -/
def param_unrestricted_statement : Prop :=
  ∀ (ts : List Frag) (nm df : Frag), (∀ t ∈ ts ++ [nm], ParamToken t) → Frag.Simple df →
    paramParse ((Frag.join ' ' (ts ++ [nm])).render ++ ' ' :: '=' :: ' ' :: df.render)
      = .ok (Str.join [' '] (ts.map Frag.render), nm.render, strip df.render)

theorem param_unrestricted : param_unrestricted_statement :=
  fun ts nm df h hd => paramParse_default ts nm df h hd

/-- non-vacuity: `const m<a, b> n = {1, 2}`, and the old witness `bool b = x == y` -/
example :
    let t1 : Frag := .atom 'c' (.atom 'o' (.atom 'n' (.atom 's' (.atom 't' .nil))))
    let t2 : Frag := .atom 'm' (.group .ang (.atom 'a' (.atom ',' (.atom ' ' (.atom 'b' .nil)))) .nil)
    let nm : Frag := .atom 'n' .nil
    let df : Frag := .group .cur (.atom '1' (.atom ',' (.atom ' ' (.atom '2' .nil)))) .nil
    (∀ t ∈ [t1, t2] ++ [nm], ParamToken t) ∧ Frag.Simple df ∧
      paramParse ((Frag.join ' ' ([t1, t2] ++ [nm])).render ++ ' ' :: '=' :: ' ' :: df.render)
        = .ok (['c', 'o', 'n', 's', 't', ' ', 'm', '<', 'a', ',', ' ', 'b', '>'], ['n'], ['{', '1', ',', ' ', '2', '}']) ∧
      paramParse ['b', 'o', 'o', 'l', ' ', 'b', ' ', '=', ' ', 'x', ' ', '=', '=', ' ', 'y']
        = .ok (['b', 'o', 'o', 'l'], ['b'], ['x', ' ', '=', '=', ' ', 'y']) := by
  decide

/-! ## `parse_bracket`, `parse`, `parse_pair` -/

/-- `parse_bracket(name + group + tail)` for a blank-free name, a bracket-free tail and every fragment inside the group:
    exactly `bracketSpec` — the whole group first, then each top-level group of the kind inside it followed by the top-level
    groups of the kind inside *that* one, in pre-order (`Entry.unders` is two levels deep; groups inside groups of another
    kind or inside strings are not listed). -/
theorem bracket_spec (k : BK) (name tail : Str) (inner : Frag)
    (hname : ∀ c ∈ name, has Frag.special c = false ∧ has [' ', '\n', '\t'] c = false)
    (htail : ∀ c ∈ tail, has Frag.special c = false) (hi : Frag.Simple inner) :
    parseBracket (name ++ k.open :: (inner.render ++ k.close :: tail)) [k.open, k.close] = .ok (bracketSpec k inner) :=
  parseBracket_spec k name tail inner hname htail hi

/-- non-vacuity: inside `a(b(c(d))),[(x)],"(",g(1)(2)` — the fourth level `(d)`, the group inside `[…]` and the `(` in
    the string are not listed -/
example :
    let p1 : Frag := .atom 'a' (.group .par (.atom 'b' (.group .par (.atom 'c' (.group .par (.atom 'd' .nil) .nil)) .nil)) .nil)
    let p2 : Frag := .group .sq (.group .par (.atom 'x' .nil) .nil) .nil
    let p3 : Frag := .str .dq ['('] .nil
    let p4 : Frag := .atom 'g' (.group .par (.atom '1' .nil) (.group .par (.atom '2' .nil) .nil))
    let inner : Frag := Frag.join ',' [p1, p2, p3, p4]
    Frag.Simple inner ∧ bracketSpec .par inner
      = [groupText .par inner, ['(', 'b', '(', 'c', '(', 'd', ')', ')', ')'], ['(', 'c', '(', 'd', ')', ')'], ['(', '1', ')'], ['(', '2', ')']] := by
  decide

/-- The same with ANY fragment in front of the group that has no top-level group of the kind itself — blanks, delimiters,
    strings, groups of the other kinds (`g[(1)](x)`): the second, delimiter-free `_analyze_entry` from the recorded entry
    begin finds the bracket of the block, not a bracket inside the prefix. -/
theorem bracket_spec_prefix (k : BK) (a inner : Frag) (tail : Str) (ha : Frag.Simple a) (hak : hitK k a = none)
    (htail : ∀ c ∈ tail, has Frag.special c = false) (hi : Frag.Simple inner) :
    parseBracket (a.render ++ k.open :: (inner.render ++ k.close :: tail)) [k.open, k.close] = .ok (bracketSpec k inner) :=
  parseBracket_spec_frag k a inner tail ha hak htail hi

/-- non-vacuity: `x = g[(1)]` + `(y, (z))` -/
example :
    let a : Frag := .atom 'x' (.atom ' ' (.atom '=' (.atom ' ' (.atom 'g' (.group .sq (.group .par (.atom '1' .nil) .nil) .nil)))))
    let inner : Frag := .atom 'y' (.atom ',' (.atom ' ' (.group .par (.atom 'z' .nil) .nil)))
    Frag.Simple a ∧ hitK .par a = none ∧
      parseBracket (a.render ++ '(' :: (inner.render ++ [')'])) ['(', ')'] = .ok [['(', 'y', ',', ' ', '(', 'z', ')', ')'], ['(', 'z', ')']] := by
  decide

/-- every block `parse_bracket` returns is a whole, balanced group of the kind -/
theorem bracket_balanced (k : BK) (name tail : Str) (inner : Frag) (blocks : List Str)
    (hname : ∀ c ∈ name, has Frag.special c = false ∧ has [' ', '\n', '\t'] c = false)
    (htail : ∀ c ∈ tail, has Frag.special c = false) (hi : Frag.Simple inner)
    (h : parseBracket (name ++ k.open :: (inner.render ++ k.close :: tail)) [k.open, k.close] = .ok blocks) :
    ∀ b ∈ blocks, ∃ g : Frag, Frag.Simple g ∧ b = k.open :: (g.render ++ [k.close]) := by
  rw [bracket_spec k name tail inner hname htail hi] at h
  injection h with h
  subst h
  exact bracketSpec_balanced k inner hi

/-- the first block is the whole group (the block py2cpp uses); the former counterexample `f(g(x))+1` is an instance -/
def bracket_first_statement : Prop :=
  ∀ (k : BK) (name tail : Str) (inner : Frag) (blocks : List Str),
    (∀ c ∈ name, has Frag.special c = false ∧ has [' ', '\n', '\t'] c = false) →
    (∀ c ∈ tail, has Frag.special c = false) → Frag.Simple inner →
    parseBracket (name ++ k.open :: (inner.render ++ k.close :: tail)) [k.open, k.close] = .ok blocks →
    blocks.head? = some (k.open :: (inner.render ++ [k.close]))

theorem bracket_first : bracket_first_statement := by
  intro k name tail inner blocks hn ht hi h
  rw [bracket_spec k name tail inner hn ht hi] at h
  injection h with h
  subst h
  rfl

/-- "The blocks are ALL groups of the kind, in pre-order" — false: `Entry.unders` stops two levels below the root. -/
def bracket_all_levels_statement : Prop :=
  ∀ (k : BK) (name : Str) (inner : Frag), (∀ c ∈ name, has Frag.special c = false ∧ has [' ', '\n', '\t'] c = false) →
    Frag.Simple inner →
    parseBracket (name ++ k.open :: (inner.render ++ [k.close])) [k.open, k.close] = .ok (allGroupTexts k (.group k inner .nil))

/-- witness `a(b(c(d)))`: the innermost `(d)` is not listed -/
theorem bracket_all_levels_counterexample : ¬ bracket_all_levels_statement := by
  intro h
  have := h .par ['a'] (.atom 'b' (.group .par (.atom 'c' (.group .par (.atom 'd' (.group .par (.atom 'e' .nil) .nil)) .nil)) .nil))
    (by decide) (by decide)
  revert this
  decide

/-- the old witnesses: `f(g(x))+1`, `a(b(c(d)))`, `f(g[(1)](x), y)` — all blocks are whole groups now -/
example :
    parseBracket ['f', '(', 'g', '(', 'x', ')', ')', '+', '1'] ['(', ')']
      = .ok [['(', 'g', '(', 'x', ')', ')'], ['(', 'x', ')']] ∧
    parseBracket ['a', '(', 'b', '(', 'c', '(', 'd', ')', ')', ')'] ['(', ')']
      = .ok [['(', 'b', '(', 'c', '(', 'd', ')', ')', ')'], ['(', 'c', '(', 'd', ')', ')'], ['(', 'd', ')']] ∧
    parseBracket ['f', '(', 'g', '[', '(', '1', ')', ']', '(', 'x', ')', ',', ' ', 'y', ')'] ['(', ')']
      = .ok [['(', 'g', '[', '(', '1', ')', ']', '(', 'x', ')', ',', ' ', 'y', ')'], ['(', 'x', ')']] := by
  decide

/-- The loops of `_analyze_entry`, `_parse`, `_parse_block` finish on EVERY text, for every delimiter set (two-character
    `brackets`): `parse`, `parse_pair` and `parse_bracket` never exhaust the model's fuel. -/
theorem parse_total (text : Str) (o cl : Char) (D : Str) : parse text [o, cl] D ≠ .error .Fuel :=
  parse_no_fuel text o cl D

theorem parse_pair_total (text : Str) (o cl : Char) (D : Str) : parsePair text [o, cl] D ≠ .error .Fuel :=
  parsePair_no_fuel text o cl D

theorem parse_bracket_total (text : Str) (o cl : Char) : parseBracket text [o, cl] ≠ .error .Fuel :=
  parseBracket_no_fuel text o cl

/-- non-vacuity: adjacent foreign groups `f(1)[2, 3]` … -/
example :
    parsePair ['{', 'a', ':', ' ', 'f', '(', '1', ')', '[', '2', ',', ' ', '3', ']', '}'] ['{', '}'] [':']
      = .ok [(['a'], ['f', '(', '1', ')', '[', '2', ',', ' ', '3', ']'])] := by
  decide

/-- … `t[A](x, y)` … -/
example :
    parsePair ['t', 'a', 'g', '(', 'a', ',', ' ', 't', '[', 'A', ']', '(', 'x', ',', ' ', 'y', ')', ')'] ['(', ')'] [',']
      = .ok [(['a'], ['t', '[', 'A', ']', '(', 'x', ',', ' ', 'y', ')']), (['x'], ['y'])] := by
  decide

/-- … and an unbalanced text -/
example : parsePair ['(', '(', '{', 'a', ','] ['(', ')'] [','] = .ok [] := by decide

/-! ## The production callers (py2cpp.py) -/

/-- split ∘ join = id: a text joined with a delimiter character from fragments without that delimiter at top level (the last
    one not empty) is split into exactly those fragments, stripped. The law every caller below relies on. -/
theorem sep_join (d : Char) (hd : has Frag.special d = false) (fs : List Frag) (hne : fs ≠ [])
    (hs : ∀ f ∈ fs, Frag.Simple f) (hno : ∀ f ∈ fs, Frag.noTop d f = true)
    (hl : ∀ l, fs.getLast? = some l → l ≠ .nil) :
    breakSeparator (Frag.join d fs).render [d] = .ok (fs.map fun f => strip f.render) :=
  breakSeparator_join d hd fs hne hs hno hl

/-- non-vacuity: `a[1, 2], "x,y" ,f(3, 4)` → the three parts -/
example :
    let fs : List Frag := [.atom 'a' (.group .sq (.atom '1' (.atom ',' (.atom ' ' (.atom '2' .nil)))) .nil),
      .atom ' ' (.str .dq ['x', ',', 'y'] (.atom ' ' .nil)), .atom 'f' (.group .par (.atom '3' (.atom ',' (.atom '4' .nil))) .nil)]
    (∀ f ∈ fs, Frag.Simple f ∧ Frag.noTop ',' f = true) ∧
      breakSeparator (Frag.join ',' fs).render [','] = .ok [['a', '[', '1', ',', ' ', '2', ']'], ['"', 'x', ',', 'y', '"'], ['f', '(', '3', ',', '4', ')']] := by
  decide

/-- `PatternParser.pluck_func_call_arguments('callee(args)') = 'args'` (also `pluck_cvar_new`, `break_indexer` are
    `last_block` itself). -/
theorem caller_pluck (callee args : Frag) (hc : Frag.CleanFor .par callee) (ha : Frag.CleanFor .par args) :
    pluckFuncCallArguments (callee.render ++ '(' :: (args.render ++ [')'])) = .ok args.render :=
  pluck_call callee args hc ha

example : pluckFuncCallArguments ['e', '(', 'x', 's', '[', '0', ']', ',', ' ', '"', ']', '"', ')'] = .ok ['x', 's', '[', '0', ']', ',', ' ', '"', ']', '"'] := by
  decide

/-- RETIRED production site (kept as a statement about the two helpers): until /repo ed1a7d7 `Py2Cpp.proc_for_range` took
    begin, size (, step) from `break_separator(pluck_func_call_arguments('callee(a, b)'), ',')`. For arguments that are
    bracket-balanced fragments without top-level comma (strings may hold any bracket but parentheses) this composition gives
    exactly the argument texts; another number of pieces is the `ValueError` of the tuple unpacking. The hypothesis
    "bracket-balanced" is what real argument texts violate — see `retired_range_lt_hazard`. -/
theorem retired_range_split (callee : Frag) (fs : List Frag) (n : Nat) (hc : Frag.CleanFor .par callee) (hne : fs ≠ [])
    (hf : ∀ a ∈ fs, CallArg a) (hl : ∀ l, fs.getLast? = some l → l ≠ .nil) (hn : n ≠ 1) :
    splitCallArguments (callee.render ++ '(' :: ((Frag.join ',' fs).render ++ [')'])) n
      = if n = 2 then (match fs.map fun f => strip f.render with | [b, s] => .ok (b, s, ['1']) | _ => .error .ValueError)
        else (match fs.map fun f => strip f.render with | [b, s, st] => .ok (b, s, st) | _ => .error .ValueError) :=
  splitCall_args callee fs n hc hne hf hl hn

/-- non-vacuity: `range(f(1, 2), g[3, 4])` with two arguments -/
example :
    let callee : Frag := .atom 'r' (.atom 'a' (.atom 'n' (.atom 'g' (.atom 'e' .nil))))
    let a : Frag := .atom 'f' (.group .par (.atom '1' (.atom ',' (.atom ' ' (.atom '2' .nil)))) .nil)
    let b : Frag := .atom ' ' (.atom 'g' (.group .sq (.atom '3' (.atom ',' (.atom ' ' (.atom '4' .nil)))) .nil))
    Frag.CleanFor .par callee ∧ (∀ x ∈ [a, b], CallArg x) ∧
      splitCallArguments (callee.render ++ '(' :: ((Frag.join ',' [a, b]).render ++ [')'])) 2
        = .ok (['f', '(', '1', ',', ' ', '2', ')'], ['g', '[', '3', ',', ' ', '4', ']'], ['1']) := by
  decide

/-- The hazard the fix ed1a7d7 removed: an argument with a lone `<` is not a bracket-balanced fragment — the scanner
    opens a `<>` block at it and swallows the comma, the unpacking fails (`range(a << 1, n)` → `ValueError`, which made the
    transpiler stop). The helpers are unchanged; they are simply no longer applied to rendered expressions here. -/
theorem retired_range_lt_hazard :
    splitCallArguments ['r', 'a', 'n', 'g', 'e', '(', 'a', ' ', '<', '<', ' ', '1', ',', ' ', 'n', ')'] 2 = .error .ValueError ∧
    breakSeparator ['a', ' ', '<', ' ', 'b', ',', ' ', 'n'] [','] = .ok [['a', ' ', '<', ' ', 'b', ',', ' ', 'n']] := by
  decide

/-- `Py2Cpp.is_initializer_call('T(args)', 'T')` is true for every type text and argument fragment (strings without
    parentheses); a call chain `T(1).dup()` is not an initializer call. -/
theorem caller_initializer_call (ty args : Frag) (ht : Frag.CleanFor .par ty) (ha : Frag.CleanFor .par args) :
    isInitializerCall (ty.render ++ '(' :: (args.render ++ [')'])) ty.render = .ok true :=
  isInitializerCall_call ty args ht ha

example : isInitializerCall ['A', '(', '1', ')', '.', 'd', '(', ')'] ['A'] = .ok false ∧
    isInitializerCall ['A', '<', 'B', '>', '(', 'f', '(', '1', ')', ',', ' ', '2', ')'] ['A', '<', 'B', '>'] = .ok true := by
  decide

/-- `Py2Cpp.on_throw` on `path(a, …)`: `calls = path`, `arguments` = the argument texts. -/
theorem caller_throw (path : Str) (fs : List Frag) (hp : ∀ x ∈ path, x ≠ '(') (hne : fs ≠ [])
    (hs : ∀ f ∈ fs, Frag.Simple f) (hno : ∀ f ∈ fs, Frag.noTop ',' f = true)
    (hl : ∀ l, fs.getLast? = some l → l ≠ .nil) :
    throwParts (path ++ '(' :: ((Frag.join ',' fs).render ++ [')'])) = .ok (path, fs.map fun f => strip f.render) :=
  throwParts_call path fs hp hne hs hno hl

example : throwParts ['E', '(', '"', 'a', ',', ' ', ')', '"', ',', ' ', 'f', '(', '1', ',', '2', ')', ')']
    = .ok (['E'], [['"', 'a', ',', ' ', ')', '"'], ['f', '(', '1', ',', '2', ')']]) := by decide

/-- `Py2Cpp.on_dict_comp` on `{key, value}`: the two texts. -/
theorem caller_dict_comp (kf vf : Frag) (hk : Frag.Simple kf) (hv : Frag.Simple vf) (hkn : Frag.noTop ',' kf = true)
    (hvn : Frag.noTop ',' vf = true) (hvne : vf ≠ .nil) :
    dictCompProjection ('{' :: ((Frag.join ',' [kf, vf]).render ++ ['}'])) = .ok (strip kf.render, strip vf.render) :=
  dictComp_pair kf vf hk hv hkn hvn hvne

example : dictCompProjection ['{', 'k', ',', ' ', 'f', '(', 'v', ',', ' ', '1', ')', '}'] = .ok (['k'], ['f', '(', 'v', ',', ' ', '1', ')']) := by
  decide

/-- The literals of ALL production call sites (generated on every run from rogw/tranp/**/*.py and data/**/*.j2 by
    translate/gen_block_callsites.py): every `brackets` argument is one of the four bracket pairs (two characters, a pair of
    `_all_pair`), every `delimiter` argument of `break_separator` is one character that is neither bracket nor quote — the
    hypotheses under which `last_block*`, `bracket_spec`, `parse_total`, `sep_spec` are stated. -/
theorem callsites_literals :
    (∀ s ∈ bracketSites, s.2 ∈ bracketLiterals) ∧ (∀ s ∈ delimiterSites, plainDelimiter s.2 = true) ∧
    delimiterSetSites = [] := by
  decide

/-- … hence at every `break_last_block` / `parse_bracket` site (PatternParser.break_indexer, pluck_cvar_new,
    pluck_func_call_arguments, is_initializer_call, the templates super.j2, comp_for_*.j2, move_assign_declare.j2) the two
    parts reassemble for every text, and `prefix + group` gives `(prefix, inside)` for fragments whose strings hold no bracket
    of the site's kind. -/
theorem callsites_last_block (s : String × Str) (hs : s ∈ bracketSites) :
    (∀ text p i, breakLastBlock text s.2 = .ok (p, i) → ∃ o cl rest, s.2 = [o, cl] ∧ text = p ++ o :: (i ++ cl :: rest)) ∧
    ∃ k : BK, s.2 = [k.open, k.close] ∧ ∀ pre inner : Frag, Frag.CleanFor k pre → Frag.CleanFor k inner →
      breakLastBlock (pre.render ++ k.open :: (inner.render ++ [k.close])) s.2 = .ok (pre.render, inner.render) := by
  obtain ⟨k, hk⟩ := mem_bracketLiterals s.2 (callsites_literals.1 s hs)
  refine ⟨fun text p i h => ?_, k, hk, fun pre inner hp hi => ?_⟩
  · rw [hk] at h
    obtain ⟨rest, hr⟩ := last_block_reassemble k.open k.close text p i h
    exact ⟨k.open, k.close, rest, hk, hr⟩
  · rw [hk]; exact last_block k pre inner hp hi

/-- … and at every `break_separator` site (on_throw, Param.parse, DecoratorHelper._parse, … - whatever the scan finds) the split is the
    exact top-level split for every fragment. -/
theorem callsites_separator (s : String × Str) (hs : s ∈ delimiterSites) (f : Frag) (hf : Frag.Simple f) :
    ∃ d, s.2 = [d] ∧ breakSeparator f.render s.2 = .ok (sepSpec d f) := by
  obtain ⟨d, hd, _⟩ := plainDelimiter_elim s.2 (callsites_literals.2.1 s hs)
  exact ⟨d, hd, by rw [hd]; exact sep_spec d f hf⟩

/-- non-vacuity: both generated tables have entries (how many depends on the sources - a repair may retire a site, as
    ed1a7d7 did for `proc_for_range`; the translator fails when it finds none) -/
example : bracketSites ≠ [] ∧ delimiterSites ≠ [] := by decide

/-- `PatternParser.break_indexer('recv[key]') = ('recv', 'key')` and `pluck_cvar_new('Class(args)') = ('Class', 'args')`. -/
theorem caller_indexer_cvar_new (recv key : Frag) (cls args : Frag)
    (h1 : Frag.CleanFor .sq recv) (h2 : Frag.CleanFor .sq key) (h3 : Frag.CleanFor .par cls) (h4 : Frag.CleanFor .par args) :
    breakIndexer (recv.render ++ '[' :: (key.render ++ [']'])) = .ok (recv.render, key.render) ∧
    pluckCvarNew (cls.render ++ '(' :: (args.render ++ [')'])) = .ok (cls.render, args.render) :=
  ⟨last_block .sq recv key h1 h2, last_block .par cls args h3 h4⟩

example : breakIndexer ['m', '[', 'i', ']', '[', 'i', ']'] = .ok (['m', '[', 'i', ']'], ['i']) ∧
    pluckCvarNew ['A', '<', 'T', '>', '(', 'f', '(', '1', ')', ',', ' ', '2', ')'] = .ok (['A', '<', 'T', '>'], ['f', '(', '1', ')', ',', ' ', '2']) := by
  decide

/-! ## `DecoratorHelper.any` / `DecoratorQuery.any`, `contains` -/

/-- `DecoratorHelper._parse` answers on EVERY text — balanced or not, with or without `(`: neither `break_separator` nor the two
    `str.index` calls that cut a labelled argument can raise (the first piece of `break_separator(arg, '=')` is a stripped
    slice of `arg` ending in front of a `=`), and no fuel runs out. So `path`, `args`, `join_args` and the queries below are
    defined for every decorator text. -/
theorem decorator_total (d : Str) : ∃ r, decoParse d = .ok r := decoParse_total d

/-- an unbalanced text: `f(k =(=` -/
example : decoParse ['f', '(', 'k', ' ', '=', '(', '='] = .ok (['f'], [(['k', ' '], ['('])], ['k', ' ', '=', '(']) := by
  decide

/-- `DecoratorQuery.any(*paths)` keeps exactly the decorators whose path — the text in front of the first `(` — is one of
    `paths`, in order, and `contains(*paths)` says whether there is one; for every list of decorator texts. -/
theorem query_any (ds paths : List Str) :
    queryAny ds paths = .ok (ds.filter fun d => paths.contains (pathOf d)) ∧
    queryContains ds paths = .ok (ds.any fun d => paths.contains (pathOf d)) :=
  queryAny_filter ds paths (fun d _ => decoParse_total d)

example : queryAny [['a', '(', 'x', ')'], ['b'], ['a']] [['a']] = .ok [['a', '(', 'x', ')'], ['a']] ∧
    queryContains [['b'], ['a', '(', ')']] [['a']] = .ok true := by decide

/-! ## multi-character delimiters -/

/-- `break_separator` with a multi-character delimiter that can not overlap itself (`delimGuard`: its first character does
    not occur again in it, no bracket or quote character — `, `, `: `, ` =`, every one-character delimiter; not ` = `, `::`, `->`): the exact pieces
    for every fragment. A cut is made where the delimiter stands at top level with at least one character behind it; the
    characters of the delimiter belong to no piece. -/
theorem sep_multichar_spec (d0 : Char) (ds : Str) (hd : delimGuard (d0 :: ds) = true) (f : Frag) (hf : Frag.Simple f) :
    breakSeparator f.render (d0 :: ds) = .ok (specM d0 ds f [] []) := by
  obtain ⟨d0', ds', he, hds⟩ := delimGuard_elim _ hd
  injection he with h1 h2
  subst h1; subst h2
  exact breakSeparator_multi d0 ds hds f hf

/-- … and the rejoin law under the same guard: there are segments with `d.join(segments) = text` and
    `pieces = [s.strip(' ') for s in segments]`. -/
theorem sep_multichar_rejoin (d : Str) (hd : delimGuard d = true) (f : Frag) (hf : Frag.Simple f) (hne : f ≠ .nil) :
    ∃ segs : List Str, Str.join d segs = f.render ∧ breakSeparator f.render d = .ok (segs.map strip) :=
  breakSeparator_multi_rejoin d hd f hf hne

/-- non-vacuity: `a, f(b, c), "d, e", g, ` with `, ` (inside a group, inside a string, at top level, at the very end) -/
example :
    let f : Frag := Frag.join ',' [.atom 'a' .nil, .atom ' ' (.atom 'f' (.group .par (.atom 'b' (.atom ',' (.atom ' ' (.atom 'c' .nil)))) .nil)),
      .atom ' ' (.str .dq ['d', ',', ' ', 'e'] .nil), .atom ' ' (.atom 'g' .nil), .atom ' ' .nil]
    delimGuard [',', ' '] = true ∧ Frag.Simple f ∧
      breakSeparator f.render [',', ' '] = .ok [['a'], ['f', '(', 'b', ',', ' ', 'c', ')'], ['"', 'd', ',', ' ', 'e', '"'], ['g', ',']] := by
  decide

/-- every delimiter literal of the generated call-site table satisfies the guard (they are one character long) -/
theorem callsites_delim_guard : ∀ s ∈ delimiterSites, delimGuard s.2 = true := by decide

/-- "The pieces of `break_separator(text, d)` rejoined with `d` give the text up to blanks" for EVERY multi-character `d`
    (without the guard):
    false when occurrences of `d` overlap — after a cut the scan goes on one character later, not behind the delimiter. -/
def sep_multichar_rejoin_statement : Prop :=
  ∀ (text d : Str) (pieces : List Str), (∀ c ∈ text ++ d, has Frag.special c = false ∧ c ≠ ' ') → d ≠ [] →
    breakSeparator text d = .ok pieces → Str.join d pieces = text

/-- witness `a:::b` with `::` → `['a', '', 'b']` -/
theorem sep_multichar_rejoin_counterexample : ¬ sep_multichar_rejoin_statement := by
  intro h
  have := h ['a', ':', ':', ':', 'b'] [':', ':'] [['a'], [], ['b']] (by decide) (by decide) (by decide)
  revert this
  decide

/-! ## `DecoratorQuery.any_args` (the production use: `deco_ignore.any_args(inherit)` in class/_inherits.j2) -/

/-- `DecoratorQuery.any_args(subject)` keeps exactly the decorators whose argument text — everything between the first `(`
    and the last character — contains `subject`, in order, for every list of decorator texts. For `path(args)` that text is
    `args` (`joinArgsOf_call`). -/
theorem query_any_args (ds : List Str) (subject : Str) :
    queryAnyArgs ds subject = .ok (ds.filter fun d => (Str.find (joinArgsOf d) subject).isSome) ∧
    ∀ (path args : Str), (∀ x ∈ path, x ≠ '(') → joinArgsOf (path ++ '(' :: (args ++ [')'])) = args :=
  ⟨queryAnyArgs_filter ds subject (fun d _ => decoParse_total d), joinArgsOf_call⟩

example : queryAnyArgs [['a', '(', 'x', ',', 'B', ')'], ['b'], ['c', '(', 'B', ')']] ['B'] = .ok [['a', '(', 'x', ',', 'B', ')'], ['c', '(', 'B', ')']] := by
  decide

/-! ## `is_quoted_literal` (rogw/tranp/lang/string.py) -/

/-- `is_quoted_literal(q + body + q, q)` for a one-character quote: true exactly when every quote character of the body stands
    behind a backslash (a quote in the first position of the body never does); the loop never runs out of fuel. -/
theorem quoted_literal (q : Char) (body : Str) :
    isQuotedLiteral (q :: (body ++ [q])) [q] = .ok (escapedBody q q body) :=
  isQuotedLiteral_quoted q body

/-- … and on EVERY text: `is_quoted_literal(s, q)` is `quotedSpec q s` — the empty text is no literal, the quote character
    alone is one, a longer text is one exactly when it starts and ends with the quote and every quote in between is escaped. -/
theorem quoted_literal_spec (q : Char) (s : Str) : isQuotedLiteral s [q] = .ok (quotedSpec q s) :=
  isQuotedLiteral_spec q s

example : quotedSpec '"' ['"'] = true ∧ quotedSpec '"' [] = false ∧ quotedSpec '"' ['"', 'a'] = false ∧
    quotedSpec '\'' ['\'', '\\', '\'', '\''] = true := by decide

/-- the simple strings of the fragment grammar (no own quote inside) are quoted literals -/
theorem quoted_simple_string (q : QK) (body : Str) (hb : ∀ c ∈ body, c ≠ q.ch) :
    isQuotedLiteral (Frag.str q body .nil).render [q.ch] = .ok true := by
  have := isQuotedLiteral_quoted q.ch body
  rw [escapedBody_not_mem q.ch body q.ch hb] at this
  simpa [Frag.render] using this

/-- `"a\"b"` is a literal, `"a"b"` is not, a text without the closing quote is not -/
example : isQuotedLiteral ['"', 'a', '\\', '"', 'b', '"'] ['"'] = .ok true ∧ isQuotedLiteral ['"', 'a', '"', 'b', '"'] ['"'] = .ok false ∧
    isQuotedLiteral ['"', 'a'] ['"'] = .ok false ∧ escapedBody '"' '"' ['a', '\\', '"', 'b'] = true := by
  decide

/-! ## `CppViewHelper.Param.var_type_origin` -/

/-- the regular expression the theorems below speak about IS the generated term (translate/gen_c08_regex.py reads the compiled
    `Param.VarType`): `^(const\s+)?([\w\d\:]+)[^\*&]*[\*&]?` -/
theorem var_type_pattern :
    Generated.C08Regex.CppViewHelper_Param_VarType = .seq .bol (.seq reOptConst reName) := varType_pattern

/-- `var_type_origin` of `base [<…>] [*|&]` is `base` — through the regular expression when the text ends in `*`/`&`,
    through `split('<')[0]` otherwise — for every non-empty base name over `[A-Za-z0-9_:]` and every template-argument text. -/
theorem var_type_origin_plain (base targs ptr : Str) (hb : base ≠ []) (hW : ∀ c ∈ base, isNameChar c = true)
    (hr : typeRest targs ptr) : varTypeOrigin (base ++ (targs ++ ptr)) = .ok base :=
  varTypeOrigin_plain base targs ptr hb hW hr

/-- … and of `const␠ base [<…>] [*|&]` (any further white space behind `const␠`): the optional group takes `const` and
    all the white space, group 2 is the base name. -/
theorem var_type_origin_const (ws base targs ptr : Str) (hS : ∀ c ∈ ws, Regex.isSpaceChar c = true) (hb : base ≠ [])
    (hW : ∀ c ∈ base, isNameChar c = true) (hr : typeRest targs ptr) :
    varTypeOrigin (constBlank ++ (ws ++ (base ++ (targs ++ ptr)))) = .ok base :=
  varTypeOrigin_const ws base targs ptr hS hb hW hr

/-- … and on EVERY text: `var_type_origin` equals the direct reading `varTypeOriginSpec` — on the regex branch the name is the
    longest run of `[A-Za-z0-9_:]` behind `const` + white space when a name follows there (the optional group is taken with
    all its white space), else at the very start (the group is given back: `const *` gives `const`), and `TypeError` (`None[2]`)
    when no name character stands there; the generated regular expression, run by the backtracking matcher, reads exactly
    that. (ASCII; `\w`/`\s` of other characters are outside the model.) -/
theorem var_type_origin_spec (s : Str) : varTypeOrigin s = varTypeOriginSpec s := varTypeOrigin_spec s

example : varTypeOriginSpec ['c', 'o', 'n', 's', 't', ' ', '*'] = .ok ['c', 'o', 'n', 's', 't'] ∧
    varTypeOriginSpec ['c', 'o', 'n', 's', 't', ' ', ' ', 'x', '<', 'y', '*'] = .ok ['x'] ∧
    varTypeOriginSpec ['&'] = .error .TypeError ∧ varTypeOriginSpec ['a', ' ', 'b', '<', 'c'] = .ok ['a', ' ', 'b'] := by decide

/-- non-vacuity: `const  Box::Item&`, `std::map<std::string, int>`, `int*`; and outside the shape: `*` has no name (`None[2]`) -/
example :
    typeRest [] ['&'] ∧ typeRest ['<', 'i', 'n', 't', '>'] [] ∧
    varTypeOrigin (constBlank ++ ([' '] ++ (['B', ':', ':', 'I'] ++ ([] ++ ['&'])))) = .ok ['B', ':', ':', 'I'] ∧
    varTypeOrigin (['m', 'a', 'p'] ++ (['<', 'i', 'n', 't', '>'] ++ [])) = .ok ['m', 'a', 'p'] ∧
    varTypeOrigin ['i', 'n', 't', '*'] = .ok ['i', 'n', 't'] ∧ varTypeOrigin ['*'] = .error .TypeError := by
  refine ⟨⟨Or.inl rfl, Or.inr (Or.inr rfl)⟩, ⟨Or.inr ⟨_, rfl⟩, Or.inl rfl⟩, ?_, ?_, ?_, ?_⟩ <;> decide

/-- The whole way for a C++ parameter: the text `[const ]base[<…>][*|&] name = default` is taken apart by `Param.parse` into
    type, name and default (every default fragment), and `var_type_origin` of that type is the base name — for every base
    name over `[A-Za-z0-9_:]`, every template-argument fragment, every parameter-name token. -/
theorem param_origin (cst : Bool) (base : Str) (targs : Option Frag) (ptr : Option Char) (nm df : Frag) (hb : base ≠ [])
    (hW : ∀ c ∈ base, isNameChar c = true) (hi : ∀ i, targs = some i → Frag.Simple i)
    (hp : ∀ c, ptr = some c → c = '*' ∨ c = '&') (hn : ParamToken nm) (hd : Frag.Simple df) :
    ∃ ty, paramParse ((Frag.join ' ' ((if cst then [constTok] else []) ++ [tyTok base targs ptr] ++ [nm])).render
        ++ ' ' :: '=' :: ' ' :: df.render) = .ok (ty, nm.render, strip df.render) ∧
      varTypeOrigin ty = .ok base :=
  Block.param_origin cst base targs ptr nm df hb hW hi hp hn hd

/-- non-vacuity: `const m<a, b>& n = {1}` -/
example :
    let i : Frag := .atom 'a' (.atom ',' (.atom ' ' (.atom 'b' .nil)))
    let nm : Frag := .atom 'n' .nil
    let df : Frag := .group .cur (.atom '1' .nil) .nil
    ParamToken nm ∧ Frag.Simple i ∧ Frag.Simple df ∧
      paramParse ((Frag.join ' ' ([constTok] ++ [tyTok ['m'] (some i) (some '&')] ++ [nm])).render ++ ' ' :: '=' :: ' ' :: df.render)
        = .ok (['c', 'o', 'n', 's', 't', ' ', 'm', '<', 'a', ',', ' ', 'b', '>', '&'], ['n'], ['{', '1', '}']) ∧
      varTypeOrigin ['c', 'o', 'n', 's', 't', ' ', 'm', '<', 'a', ',', ' ', 'b', '>', '&'] = .ok ['m'] := by
  decide

/-! ## `parse` / `parse_pair` with delimiters on dict-like texts -/

/-- Dict-like texts `name{item, item, …}` (structure `Item`: every item is a blank-free token — identifier characters, strings,
    groups of the OTHER bracket kinds with anything inside, also directly behind each other — or a possibly named nested block
    `inner{…}`; items are separated by one delimiter character of `D` and any number of blanks; unbounded nesting):
    `parse(text, brackets, D)` builds exactly the entry tree of the items — an `Element` per token from its first to behind its
    last character, a `Block` per nested block with its items one level deeper. -/
theorem parse_dict_spec (k : BK) (D : Str) (hD : DelimOK D) (name : Frag) (items : List Item) (hn : TokOK k D name)
    (hw : Item.WFList k D true items) :
    parse (name.render ++ k.open :: (Item.renderList k items ++ [k.close])) [k.open, k.close] D
      = .ok (Item.entry k 0 0 (Item.block [] name items)) :=
  parse_dict k D hD name items hn hw

/-- … and `parse_pair` returns the consecutive pairs of the item texts, then of the item texts of the nested blocks
    (`Entry.unders` is two levels deep, the entries are sorted by depth, a pair needs equal depth: `pairTagged`). -/
theorem pair_spec (k : BK) (D : Str) (hD : DelimOK D) (name : Frag) (items : List Item) (hn : TokOK k D name)
    (hw : Item.WFList k D true items) :
    parsePair (name.render ++ k.open :: (Item.renderList k items ++ [k.close])) [k.open, k.close] D
      = .ok (pairTagged (tagged k items)) :=
  parsePair_dict k D hD name items hn hw

/-- With an even number of items (a dict): the (key, value) texts of the dict followed by the (key, value) texts of the
    nested dicts. -/
theorem pair_spec_even (k : BK) (D : Str) (hD : DelimOK D) (name : Frag) (items : List Item) (hn : TokOK k D name)
    (hw : Item.WFList k D true items) (he : items.length % 2 = 0) :
    parsePair (name.render ++ k.open :: (Item.renderList k items ++ [k.close])) [k.open, k.close] D
      = .ok (pairsOf (items.map (Item.text k)) ++ pairsOf (items.flatMap fun it => it.subItems.map (Item.text k))) :=
  parsePair_dict_even k D hD name items hn hw he

/-- non-vacuity: `{a: f(1)[2, 3], c: x{d: "e,"}}` with `{}` and the delimiters `:` `,` -/
example :
    let ta : Frag := .atom 'a' .nil
    let tf : Frag := .atom 'f' (.group .par (.atom '1' .nil) (.group .sq (.atom '2' (.atom ',' (.atom ' ' (.atom '3' .nil)))) .nil))
    let inner : List Item := [.elem [] (.atom 'd' .nil), .elem [':', ' '] (.str .dq ['e', ','] .nil)]
    let items : List Item := [.elem [] ta, .elem [':', ' '] tf, .elem [',', ' '] (.atom 'c' .nil), .block [':', ' '] (.atom 'x' .nil) inner]
    DelimOK [':', ','] ∧ TokOK .cur [':', ','] .nil ∧ Item.WFList .cur [':', ','] true items ∧ items.length % 2 = 0 ∧
      parsePair (Frag.nil.render ++ BK.cur.open :: (Item.renderList .cur items ++ [BK.cur.close])) ['{', '}'] [':', ',']
        = .ok [(['a'], ['f', '(', '1', ')', '[', '2', ',', ' ', '3', ']']), (['c'], ['x', '{', 'd', ':', ' ', '"', 'e', ',', '"', '}']),
            (['d'], ['"', 'e', ',', '"'])] := by
  refine ⟨?_, ?_, ?_, ?_, ?_⟩
  · intro d hd
    simp only [has, List.contains_cons, List.contains_nil, Bool.or_false, Bool.or_eq_true, beq_iff_eq] at hd
    rcases hd with hd | hd <;> subst hd <;> decide
  · exact ⟨by decide, by decide, by decide⟩
  · refine ⟨⟨rfl, ⟨by decide, by decide, by decide⟩, by decide⟩, ⟨⟨':', 1, by decide, rfl⟩, ⟨by decide, by decide, by decide⟩, by decide⟩,
      ⟨⟨',', 1, by decide, rfl⟩, ⟨by decide, by decide, by decide⟩, by decide⟩,
      ⟨⟨':', 1, by decide, rfl⟩, ⟨by decide, by decide, by decide⟩,
        ⟨⟨rfl, ⟨by decide, by decide, by decide⟩, by decide⟩, ⟨⟨':', 1, by decide, rfl⟩, ⟨by decide, by decide, by decide⟩, by decide⟩, trivial⟩⟩, trivial⟩
  · decide
  · decide

/-- The pieces rejoined give back the text up to the blanks behind the delimiters:
    `parse_to_formatter(name{items}, brackets, D).format()` (default formats) is the canonical text of the structure — every
    token as it is, the items of every block joined by the delimiter string and exactly one blank — however many blanks
    (none, one, several) the text had behind its delimiters. Beyond `pair_spec`'s hypotheses: a token does not begin with
    white space (`str.lstrip()`), a block name does not contain the opening bracket (`text.find(brackets[0], begin)`). -/
theorem format_spec (k : BK) (D : Str) (hD : DelimOK D) (name : Frag) (items : List Item) (hn : TokOK k D name)
    (hw : Item.WFList k D true items) (hf : Item.Fmt k (Item.block [] name items)) :
    parseToFormatterFormat (name.render ++ k.open :: (Item.renderList k items ++ [k.close])) [k.open, k.close] D
      = .ok (Item.canon k D (Item.block [] name items)) :=
  format_dict k D hD name items hn hw hf

/-- non-vacuity: `f(a,b,   g(c))` with `()` and `,` comes back as `f(a, b, g(c))` -/
example :
    let inner : List Item := [.elem [] (.atom 'c' .nil)]
    let items : List Item := [.elem [] (.atom 'a' .nil), .elem [','] (.atom 'b' .nil), .block [',', ' ', ' ', ' '] (.atom 'g' .nil) inner]
    let name : Frag := .atom 'f' .nil
    DelimOK [','] ∧ TokOK .par [','] name ∧ Item.WFList .par [','] true items ∧ Item.Fmt .par (Item.block [] name items) ∧
      parseToFormatterFormat (name.render ++ BK.par.open :: (Item.renderList .par items ++ [BK.par.close])) ['(', ')'] [',']
        = .ok ['f', '(', 'a', ',', ' ', 'b', ',', ' ', 'g', '(', 'c', ')', ')'] := by
  refine ⟨?_, ?_, ?_, ?_, ?_⟩
  · intro d hd
    simp only [has, List.contains_cons, List.contains_nil, Bool.or_false, beq_iff_eq] at hd
    subst hd; decide
  · exact ⟨by decide, by decide, by decide⟩
  · exact ⟨⟨rfl, ⟨by decide, by decide, by decide⟩, by decide⟩, ⟨⟨',', 0, by decide, rfl⟩, ⟨by decide, by decide, by decide⟩, by decide⟩,
      ⟨⟨',', 3, by decide, rfl⟩, ⟨by decide, by decide, by decide⟩, ⟨⟨rfl, ⟨by decide, by decide, by decide⟩, by decide⟩, trivial⟩⟩, trivial⟩
  · have hh : ∀ x : Char, Regex.isSpaceChar x = false → ∀ c, (Frag.atom x .nil).render.head? = some c → Regex.isSpaceChar c = false := by
      intro x hx c hc
      simp only [Frag.render, List.head?_cons, Option.some.injEq] at hc
      rw [← hc]; exact hx
    exact ⟨by decide, ⟨hh 'a' (by decide), hh 'b' (by decide), ⟨by decide, ⟨hh 'c' (by decide), trivial⟩⟩, trivial⟩⟩
  · decide

end Tranp.C18
