/-
  Property C15 — The stored form of a syntax tree restores an identical tree.
  Property theorems only; helper lemmas live in Tranp/Lemmas/LarkEntry.lean.
-/
import Tranp.Lemmas.LarkEntry
import Tranp.Lemmas.JsonCodec
import Tranp.Lemmas.CacheShape
import Tranp.Model.Quotation

namespace Tranp.C15
open Tranp Tranp.Lark

/-- For every lark entry (any meta state, any token positions, `None` slots): if `dumps` succeeds, `loads` of the JSON
    image of the dump succeeds and the `EntryOfLark` view of the result equals the view of the original —
    names, token values, child order, empty placeholders and source spans, recursively. -/
theorem view_rt (t : LarkEntry) (d : PyVal) (h : dumps t = .ok d) :
    ∃ t', loads (ofJson (toJson d)) = .ok t' ∧ view t' = view t :=
  view_rt_aux t d h

/-- The text level: `json.loads(json.dumps(j, separators=(',', ':')))` gives back `j`, for every JSON value (strings of
    arbitrary Unicode scalar values: quote, backslash and control escapes, `\uXXXX`, surrogate pairs; every integer). -/
theorem text_rt (j : Json) : parseJson (printJson j) = some j := parseJson_printJson j

example : printJson (.obj [(['k'], .arr [.bool true, .str ['"', 'é', '\n'], .null])])
    = ['{', '"', 'k', '"', ':', '[', 't', 'r', 'u', 'e', ',', '"', '\\', '"', '\\', 'u', '0', '0', 'e', '9', '\\', 'n', '"', ',', 'n', 'u', 'l', 'l', ']', '}'] := by
  decide

/-- `view_rt` through the text: what `EntryStored.save` writes, read back by `EntryStored.load`, restores the same view. -/
theorem view_rt_text (t : LarkEntry) (d : PyVal) (h : dumps t = .ok d) :
    ∃ j t', parseJson (printJson (toJson d)) = some j ∧ loads (ofJson j) = .ok t' ∧ view t' = view t := by
  obtain ⟨t', hl, hv⟩ := view_rt_aux t d h
  exact ⟨toJson d, t', parseJson_printJson _, hl, hv⟩

example : ∃ d, dumps (.tree ['f'] [.empty, .token ['N'] ['é'] ⟨some 1, some 1, some 1, some 2⟩] none) = .ok d := ⟨_, rfl⟩

/-- the cache path through the text equals the cache path on values -/
theorem storeLoadText_eq (t : LarkEntry) : storeLoadText t = storeLoad t := by
  unfold storeLoadText storeLoad
  cases hd : dumps t with
  | error e => rfl
  | ok d => simp [bind, Except.bind, parseJson_printJson]

example : storeLoadText (.token ['N'] ['x'] ⟨none, none, none, none⟩) = .ok (.token ['N'] ['x'] ⟨some 0, some 0, some 0, some 0⟩) := by
  rw [storeLoadText_eq]; rfl

/-- The written text is pure ASCII, so `.encode('utf-8')` maps its characters to bytes one for one. -/
theorem text_ascii (j : Json) : ∀ c ∈ printJson j, c.toNat < 128 := printJson_ascii j

example : ∀ c ∈ printJson (.str ['あ']), c.toNat < 128 := text_ascii _

/-- A cache file cut short is rejected: no proper prefix of a printed object or array parses (cited by C05). -/
theorem truncated_rejected (j : Json) (hj : (∃ kvs, j = .obj kvs) ∨ (∃ xs, j = .arr xs)) (p ext : Str)
    (hcut : p ++ ext = printJson j) (hext : ext ≠ []) : parseJson p = none := by
  cases p with
  | nil => rfl
  | cons c t =>
    have hc : c = '{' ∨ c = '[' := by
      rcases hj with ⟨kvs, rfl⟩ | ⟨xs, rfl⟩
      · left
        cases kvs with
        | nil => simp [printJson] at hcut; exact hcut.1
        | cons kv r => obtain ⟨k, v⟩ := kv; simp [printJson] at hcut; exact hcut.1
      · right
        cases xs with
        | nil => simp [printJson] at hcut; exact hcut.1
        | cons x r => simp [printJson] at hcut; exact hcut.1
    exact parseJson_prefix_none (c :: t) ext c t j rfl hc hext (by rw [hcut]; exact parseJson_printJson j)

example : parseJson ['{', '"', 'a', '"', ':', '1'] = none := by decide

/-- in particular for what `EntryStored.save` writes for a tree or a token -/
theorem truncated_cache_rejected (t : LarkEntry) (d : PyVal) (h : dumps t = .ok d) (ht : t ≠ .empty) (p ext : Str)
    (hcut : p ++ ext = printJson (toJson d)) (hext : ext ≠ []) : parseJson p = none := by
  refine truncated_rejected (toJson d) ?_ p ext hcut hext
  cases t with
  | tree n cs m => obtain ⟨sm, ds, _, _, rfl⟩ := dumps_tree_ok h; exact Or.inl ⟨_, rfl⟩
  | token ty v ps => obtain ⟨sm, _, rfl⟩ := dumps_token_ok h; exact Or.inl ⟨_, rfl⟩
  | empty => exact absurd rfl ht

example : ∃ d, dumps (.tree ['f'] [] none) = .ok d := ⟨_, rfl⟩

/-- non-vacuity: empty meta, absent meta, `None` slot, anonymous token without positions, token with a zero column -/
example :
    let t : LarkEntry := .tree ['f'] [
      .tree ['p'] [] (some ⟨true, .absent, .absent, .absent, .absent⟩), .empty,
      .token ['_', '_', 'A', 'N', 'O', 'N', '_', '0'] ['-', '>'] ⟨none, none, none, none⟩,
      .token ['N'] ['x'] ⟨some 1, some 0, some 1, some 2⟩,
      .tree ['b'] [.token ['N'] ['y'] ⟨some 2, some 3, some 2, some 4⟩] none]
      (some ⟨false, .val (some 1), .val (some 1), .val none, .val none⟩)
    ∃ d, dumps t = .ok d := ⟨_, rfl⟩

/-- `Serialization.loads` cannot tell a stored value from its JSON image (tuples vs lists): the round trip without the
    JSON step (as in `loads(dumps(t))`) restores the same view. -/
theorem view_rt_direct (t : LarkEntry) (d : PyVal) (h : dumps t = .ok d) :
    ∃ t', loads d = .ok t' ∧ view t' = view t := by
  obtain ⟨t', hl, hv⟩ := view_rt_aux t d h
  exact ⟨t', by rw [← loads_image d]; exact hl, hv⟩

example : ∃ d, dumps (.token ['N'] ['x'] ⟨some 1, some 1, some 1, some 2⟩) = .ok d := ⟨_, rfl⟩

/-- `dumps` succeeds exactly when every span of the view can be read … -/
theorem dumps_ok_iff (t : LarkEntry) : (∃ d, dumps t = .ok d) ↔ viewOk (view t) = true :=
  dumps_ok_iff_aux t

example : viewOk (view (.tree ['f'] [.empty] none)) = true := by decide

/-- … and when it fails it fails with `AttributeError` (a non-empty `Meta` lacking an attribute; lark never builds one). -/
theorem dumps_error (t : LarkEntry) (e : Err) (h : dumps t = .error e) : e = .attributeError :=
  dumps_error_aux t e h

example : dumps (.tree ['f'] [] (some ⟨false, .val (some 1), .absent, .absent, .absent⟩)) = .error .attributeError := rfl

/-- For well-formed trees (every meta absent, empty or complete — all lark output and all `loads` output) the whole cache
    path `EntryStored.save → EntryStored.load` succeeds and preserves the view. -/
theorem store_total (t : LarkEntry) (h : wellFormed t = true) :
    ∃ t', storeLoad t = .ok t' ∧ view t' = view t := by
  obtain ⟨d, hd⟩ := (dumps_ok_iff_aux t).mpr (wellFormed_viewOk t h)
  obtain ⟨t', hl, hv⟩ := view_rt_aux t d hd
  exact ⟨t', by simp [storeLoad, hd, hl, bind, Except.bind], hv⟩

example : wellFormed (.tree ['f'] [.empty, .tree ['g'] [] none] (some ⟨true, .absent, .absent, .absent, .absent⟩)) = true := by decide

/-- The unguarded statement "storing and restoring always succeeds and preserves the view", over every value of the
    model's tree type (which also holds metas lark never builds). -/
def store_total_statement : Prop := ∀ t : LarkEntry, ∃ t', storeLoad t = .ok t' ∧ view t' = view t

/-- The guard of `store_total` is exact: storing/restoring succeeds precisely on the well-formed trees. -/
theorem store_total_partial (t : LarkEntry) :
    (∃ t', storeLoad t = .ok t' ∧ view t' = view t) ↔ wellFormed t = true := by
  constructor
  · rintro ⟨t', h, _⟩
    simp only [storeLoad, bind, Except.bind] at h
    split at h
    · cases h
    · rename_i d hd
      exact viewOk_wellFormed t ((dumps_ok_iff_aux t).mp ⟨d, hd⟩)
  · exact store_total t

example : wellFormed (.tree ['f'] [] (some ⟨false, .val (some 1), .absent, .absent, .absent⟩)) = false := by decide

/-- … and the unguarded statement is false: a tree whose non-empty `Meta` lacks an attribute cannot be stored
    (`AttributeError` in `source_map`). lark never builds such a meta; the witness is replayed on the real code by
    corpus/C15/incomplete-meta.json and by the malformed quarter of the `entry-random` stream. -/
theorem store_total_counterexample : ¬ store_total_statement := by
  intro h
  obtain ⟨t', h1, _⟩ := h (.tree ['f'] [] (some ⟨false, .val (some 1), .absent, .absent, .absent⟩))
  simp [storeLoad, dumps, sourceMap, Attr.get, bind, Except.bind] at h1

/-- Extensionality: whatever is computed from the `Entry` interface gives equal results on the restored and the fresh tree. -/
theorem derived {α : Type} (f : View → α) (t t' : LarkEntry) (h : storeLoad t = .ok t') :
    f (view t') = f (view t) := by
  simp only [storeLoad, bind, Except.bind] at h
  split at h
  · cases h
  · rename_i d hd
    obtain ⟨t'', hl, hv⟩ := view_rt_aux t d hd
    rw [hl] at h
    cases h
    rw [hv]

example : ∃ t', storeLoad (.tree ['f'] [.empty] none) = .ok t' := ⟨_, rfl⟩

/-- instances of `derived`: the entry cache (`full_pathfy` over the Entry interface: every path, in order), the span
    `Nodes.source_map` reports for a path, and the quotation `ErrorRender` prints for the node at a path. -/
theorem derived_nodes (t t' : LarkEntry) (h : storeLoad t = .ok t') :
    Quote.entryCache (view t') = Quote.entryCache (view t)
    ∧ (∀ p, Quote.nodeSourceMap (view t') p = Quote.nodeSourceMap (view t) p)
    ∧ (∀ p ex fp c, Quote.nodeQuotation (view t') p ex fp c = Quote.nodeQuotation (view t) p ex fp c) :=
  ⟨derived Quote.entryCache t t' h,
   fun p => derived (fun v => Quote.nodeSourceMap v p) t t' h,
   fun p ex fp c => derived (fun v => Quote.nodeQuotation v p ex fp c) t t' h⟩

example : ∃ t', storeLoad (.token ['N'] ['x'] ⟨some 1, some 1, some 1, some 2⟩) = .ok t' := ⟨_, rfl⟩

/-! ### the tie: shapes read from the source on every run (translate/gen_lark_cache.py → Generated/LarkCache.lean) -/

open Tranp.Generated in
/-- `EntryOfLark.source_map` as the translator reads it (which attributes, in which order, guarded by which truth tests, folded
    into begin/end how) is the model's `sourceMap`, for every entry. -/
theorem shape_source_map (e : LarkEntry) :
    Shape.sourceMapBy LarkCache.viewTreeFields LarkCache.viewTokenFields LarkCache.viewTokenTruthy
      LarkCache.viewTreeFold LarkCache.viewTokenFold e = sourceMap e := Shape.sourceMap_generated e

open Tranp.Generated in
/-- `Serialization.__dumps` as read from the source writes the records and the span tuple the model's `dumps` writes … -/
theorem shape_dumps (n v : Str) (ds : List PyVal) (sm : SM) :
    Shape.smTupleBy LarkCache.dumpTupleOrder sm = .ok (smTuple sm)
    ∧ Shape.recordBy LarkCache.dumpTreeRecord n [] ds (smTuple sm)
        = .ok (.dict [(kName, .str n), (kChildren, .list ds), (kSourceMap, smTuple sm)])
    ∧ Shape.recordBy LarkCache.dumpTokenRecord n v [] (smTuple sm)
        = .ok (.dict [(kName, .str n), (kValue, .str v), (kSourceMap, smTuple sm)]) :=
  ⟨Shape.smTuple_generated sm, Shape.treeRecord_generated n ds _, Shape.tokenRecord_generated n v _⟩

open Tranp.Generated in
/-- … and `Serialization.__loads` as read from the source assigns the stored positions to the attributes, and the constant to
    `meta.empty`, exactly as the model's `restoredMeta` / restored token does. -/
theorem shape_loads (sm : SM) :
    Shape.restoredMetaBy LarkCache.loadsMeta LarkCache.loadsMetaConst [sm.bl, sm.bc, sm.el, sm.ec] = .ok (restoredMeta sm)
    ∧ Shape.restoredTokBy LarkCache.loadsToken [sm.bl, sm.bc, sm.el, sm.ec] = .ok ⟨sm.bl, sm.bc, sm.el, sm.ec⟩ :=
  ⟨Shape.restoredMeta_generated sm, Shape.restoredTok_generated sm⟩

open Tranp.Generated in
/-- `EntryStored.save` calls `json.dumps(data, separators=(',', ':'))` and nothing else (the configuration `printJson` models;
    `ensure_ascii` and every other option at its default, nothing between `dumps` and `.encode('utf-8')` — the translator
    refuses any other call shape), and only `Serialization`/`EntryStored` read `Entry.source`. -/
theorem shape_save :
    LarkCache.saveKwargs = [(['s', 'e', 'p', 'a', 'r', 'a', 't', 'o', 'r', 's'], ['(', '\'', ',', '\'', ',', ' ', '\'', ':', '\'', ')'])]
    ∧ LarkCache.sourceReaders.length = 2
    ∧ LarkCache.sourceReaders.all (fun r => Str.startsWith r "rogw/tranp/implements/syntax/lark/".toList) = true := by
  refine ⟨by decide, by decide, ?_⟩
  simp [LarkCache.sourceReaders, Str.startsWith]

open Tranp.Generated in
/-- The tree cache's identity begins with the grammar's full `str(mtime)`, the parser setting (grammar path, start rule,
    algorithm) and the source file's full `str(mtime)`, in this order (the expressions are pinned verbatim: truncating,
    dropping or reordering one changes the table); behind them stands nothing, or only the source's content hash
    (`'hash': self.__sources.hash(source_path)` — a further component can only make the identity finer) … -/
theorem shape_identity :
    (LarkCache.treeIdentity.take 5).map (·.1) = ["grammar_mtime".toList, "grammar".toList, "start".toList, "algorithem".toList, "mtime".toList]
    ∧ (LarkCache.treeIdentity.take 5).map (·.2) = ["str(self.__datums.mtime(self.__setting.grammar))".toList, "self.__setting.grammar".toList,
        "self.__setting.start".toList, "self.__setting.algorithem".toList, "str(self.__sources.mtime(source_path))".toList]
    ∧ (LarkCache.treeIdentity.drop 5 = [] ∨ LarkCache.treeIdentity.drop 5 = [("hash".toList, "self.__sources.hash(source_path)".toList)])
    ∧ LarkCache.parserIdentity.map (·.1) = [['m', 't', 'i', 'm', 'e'], ['g', 'r', 'a', 'm', 'm', 'a', 'r'], ['s', 't', 'a', 'r', 't'], ['a', 'l', 'g', 'o', 'r', 'i', 't', 'h', 'e', 'm']] := by
  refine ⟨?_, ?_, ?_, by decide⟩
  · simp [LarkCache.treeIdentity]
  · simp [LarkCache.treeIdentity]
  · first
      | (left; simp [LarkCache.treeIdentity]; done)
      | (right; simp [LarkCache.treeIdentity]; done)

/-- … and the text `Cached.identifier` hashes (`str(identity)`) determines every component: two runs share a tree-cache file
    name only if the grammar's mtime string, the grammar path, the start rule, the algorithm and the source's mtime string all
    agree — for plain components (printable ASCII without quote and backslash, where Python's `repr` is the text between single
    quotes; other strings are outside the model) and up to collisions of md5, which is not modelled. -/
theorem identity_injective (vs ws : List Str) (hl : vs.length = Generated.LarkCache.treeIdentity.length)
    (hl' : ws.length = Generated.LarkCache.treeIdentity.length) (hv : ∀ v ∈ vs, Shape.Plain v) (hw : ∀ w ∈ ws, Shape.Plain w)
    (h : Shape.pyStrDict (Shape.treeIdentityOf vs) = Shape.pyStrDict (Shape.treeIdentityOf ws)) : vs = ws :=
  Shape.pyStrDict_injective _ vs ws (by simpa using hl) (by simpa using hl') hv hw h

example : Shape.Plain "data/grammar.lark".toList ∧ Shape.Plain ['1', '7', '.', '2', '5'] ∧ 5 ≤ Generated.LarkCache.treeIdentity.length := by
  refine ⟨?_, ?_, by decide⟩ <;> simp [Shape.Plain]

/-- The cache file of a module (`<module path>-<md5 of str(identity)>.json`) is shared by two runs only if all identity
    components agree — under exactly one hypothesis about md5: it has no collision among tree-cache identity texts
    (`Md5CollisionFreeOnIdentities`); nothing else about md5 is used. -/
theorem cache_file_injective (md5 : Str → Str) (hmd5 : Shape.Md5CollisionFreeOnIdentities md5) (key ext : Str)
    (vs ws : List Str) (hl : vs.length = Generated.LarkCache.treeIdentity.length)
    (hl' : ws.length = Generated.LarkCache.treeIdentity.length) (hv : ∀ v ∈ vs, Shape.Plain v) (hw : ∀ w ∈ ws, Shape.Plain w)
    (h : Shape.cacheFileName md5 key ext (Shape.treeIdentityOf vs) = Shape.cacheFileName md5 key ext (Shape.treeIdentityOf ws)) :
    vs = ws := by
  unfold Shape.cacheFileName at h
  have h1 := List.append_cancel_left h
  simp only [List.cons.injEq, true_and] at h1
  have h2 := List.append_cancel_right h1
  exact identity_injective vs ws hl hl' hv hw (hmd5 vs ws hl hl' hv hw h2)

/-- non-vacuity: the identity function is collision free -/
example : Shape.Md5CollisionFreeOnIdentities id := fun _ _ _ _ _ _ h => h

end Tranp.C15
