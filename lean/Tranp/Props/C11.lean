/-
  Property C11 — The self-hosted parser builds the trees CPython builds.
  Property theorems only (engine theorems + well-formedness of the shipped rule sets); helper lemmas live in
  Tranp/Lemmas/Engine.lean and Tranp/Lemmas/EngineWF.lean. Agreement with CPython's ast is search-only (harness/c11.py).
-/
import Tranp.Lemmas.Engine
import Tranp.Lemmas.EngineWF
import Tranp.Lemmas.EngineChain
import Tranp.Lemmas.EngineLadder
import Tranp.Lemmas.EngineSound
import Tranp.Lemmas.EngineChoice
import Tranp.Model.Ladder
import Tranp.Generated.PyRules
import Tranp.Generated.GramRules

namespace Tranp.C11
open Tranp Tranp.Engine

def nEntryC : Str := ['e', 'n', 't', 'r', 'y']

/-! ## T1 — termination -/

/-- For every rule set that passes the decidable check `WFRules` (no nullable `*`/`+` body, no symbol cycle that returns to
    the same symbol at the same cursor — see Lemmas/EngineWF.lean), every regexp oracle, every token list and every entrypoint
    of the rule set, the fuel `fuelBound R |tokens|` (linear in the number of tokens) is never exhausted: the recursion of
    `_match_symbol/_match_entry/_match_or/_match_and` and the `while` of `_match_repeat` terminate. -/
theorem T1_termination (env : Env) (hwf : WFRules env.rules) (source : Str) (toks : List Tok) (entry : Str)
    (hentry : entry ∈ (analyse env.rules).U) (fuel : Nat) (hfuel : fuelBound env.rules toks.length ≤ fuel) :
    parse env fuel source toks entry ≠ .error .outOfFuel := by
  have wf := WF.of_check hwf
  have hm := matchSymbol_terminates env (analyse env.rules) wf toks 0 entry hentry fuel hfuel
  intro h
  unfold parse at h
  split at h
  · rename_i e he
    simp only [Except.error.injEq] at h; subst h
    exact hm he
  · split at h
    · split at h
      · rename_i e he
        simp only [Except.error.injEq] at h; subst h
        cases summary_err he
      · cases h
    · split at h <;> cases h

/-- the rule set compiled from data/syntax/py_gram.lark is well-formed (decided over the whole generated table) -/
theorem T1_wf_py : WFRules Generated.pyRules := by decide +kernel

/-- the built-in rules of the meta-grammar are well-formed -/
theorem T1_wf_gram : WFRules Generated.gramRules := by decide +kernel

/-- non-vacuity: `entry` is in the universe of both rule sets, and the bound is concrete -/
example : nEntryC ∈ (analyse Generated.pyRules).U ∧ nEntryC ∈ (analyse Generated.gramRules).U ∧
    fuelBound Generated.gramRules 98 = 36530 := by decide +kernel

/-- a rule set the check rejects: `x := (y)*` with nullable `y := [z]` would loop forever in `_match_repeat` -/
example : ¬ WFRules [(['x'], .group [.pattern ['y'] .symbol .noComp] .and .overZero),
    (['y'], .group [.pattern ['z'] .terminal .equals] .and .oneOrEmpty)] := by decide +kernel

/-- … and so is right recursion `x := "a" x | "b"` written the wrong way round (`x := x "a"` is fine: the cursor moves first) -/
example : ¬ WFRules [(['x'], .group [.group [.pattern ['a'] .terminal .equals, .pattern ['x'] .symbol .noComp] .and .noRepeat,
    .pattern ['b'] .terminal .equals] .or .noRepeat)] := by decide +kernel

/-! ## T2 — all or error -/

/-- `parse` returns a tree only if the match consumed every token: the step count equals the number of tokens, the consumed
    tokens (ghost trace) are exactly the input in source order, and the named-terminal leaves of the tree are exactly the
    tokens that named terminal rules matched. (With no token at all the Python returns the entry of a failed match too:
    `step.steps != length` is `0 != 0`; that is the `toks = []` escape.) -/
theorem T2_all_or_error (env : Env) (fuel : Nat) (source : Str) (toks : List Tok) (entry : Str) (t : Ast)
    (h : parse env fuel source toks entry = .ok t) :
    ∃ out, matchSymbol env fuel (Ctx.start toks) 0 entry = .ok out ∧ out.steps = toks.length ∧ out.children = [t] ∧
      (toks ≠ [] → out.ok = true ∧ out.trace.map (·.1) = toks ∧ leaves t = named out.trace) := by
  unfold parse at h
  split at h
  · cases h
  · rename_i out hm
    split at h
    · split at h <;> cases h
    · rename_i hs
      have hs' : out.steps = toks.length := by simpa using hs
      split at h
      · rename_i n cs hc
        simp only [Except.ok.injEq] at h; subst h
        refine ⟨out, hm, hs', hc, ?_⟩
        intro hne
        have hok : out.ok = true := by
          cases hk : out.ok with
          | true => rfl
          | false =>
            exfalso
            -- a failed match reports 0 steps
            have := ng_steps env fuel (Ctx.start toks) 0 entry out hm hk
            rw [this] at hs'
            exact hne (List.length_eq_zero_iff.mp hs'.symm)
        have g := (good_all env fuel).1 _ _ _ _ hm hok
        refine ⟨hok, ?_, ?_⟩
        · have := g.span
          rw [hs'] at this
          have hl : toks.length = toks.reverse.length := by simp
          simp only [Ctx.start] at this
          rw [hl, List.take_length, List.reverse_reverse] at this
          exact this
        · have := g.yield
          rw [hc] at this
          simpa [leavesL] using this
      · cases h

/-- Every other outcome of `parse` is an exception; when the matcher itself finished, it is `Errors.Syntax` as soon as the
    cause token's `begin_line` indexes a line of the source (Python's negative indices included) — or the `as_a(ASTTree, …)`
    assertion for an entrypoint that is a terminal rule. -/
theorem T2_else_syntax (env : Env) (fuel : Nat) (source : Str) (toks : List Tok) (entry : Str) (out : Out)
    (hm : matchSymbol env fuel (Ctx.start toks) 0 entry = .ok out) (hs : out.steps ≠ toks.length)
    (cause : Tok) (hc : toks[causeIndex toks.length out.peek]? = some cause)
    (hl : (pyIndex (Str.splitOn '\n' source) cause.map.bl).isSome) :
    ∃ msg, parse env fuel source toks entry = .error (.syntax msg) := by
  unfold parse
  simp only [hm, hs, ne_eq, not_false_eq_true, ↓reduceIte]
  unfold summary
  simp only [hc]
  cases hp : pyIndex (Str.splitOn '\n' source) cause.map.bl with
  | none => simp [hp] at hl
  | some line => exact ⟨_, rfl⟩

/-- `T2_else_syntax` with a guard on the INPUT instead of on the cause token: if there is at least one token and every
    token's `begin_line` is a line of the source or the EOF marker -1 (true of every token list the tokenizer produces: C13),
    then whenever the matcher finishes without consuming every token, the outcome is `Errors.Syntax` — the summary cannot
    fail. (The known finding `error-line:eof-derived-cause-token` concerns the line NUMBER printed for -1, not this.) -/
theorem T2_else_syntax_guarded (env : Env) (fuel : Nat) (source : Str) (toks : List Tok) (entry : Str) (out : Out)
    (hm : matchSymbol env fuel (Ctx.start toks) 0 entry = .ok out) (hs : out.steps ≠ toks.length)
    (hne : toks ≠ [])
    (hmap : ∀ t ∈ toks, -1 ≤ t.map.bl ∧ t.map.bl < (Str.splitOn '\n' source).length) :
    ∃ msg, parse env fuel source toks entry = .error (.syntax msg) := by
  have hlen : 0 < toks.length := List.length_pos_iff.mpr hne
  have hidx : causeIndex toks.length out.peek < toks.length := by unfold causeIndex; omega
  have hc : toks[causeIndex toks.length out.peek]? = some (toks[causeIndex toks.length out.peek]) :=
    List.getElem?_eq_getElem hidx
  refine T2_else_syntax env fuel source toks entry out hm hs _ hc ?_
  have hmem : toks[causeIndex toks.length out.peek] ∈ toks := List.getElem_mem hidx
  obtain ⟨h1, h2⟩ := hmap _ hmem
  have hpos : 0 < (Str.splitOn '\n' source).length := by
    cases source with
    | nil => simp [Str.splitOn]
    | cons c cs =>
      simp only [Str.splitOn]
      split
      · simp
      · split <;> simp
  unfold pyIndex
  split
  · rename_i h0
    have : (toks[causeIndex toks.length out.peek]).map.bl.toNat < (Str.splitOn '\n' source).length := by omega
    simp [List.getElem?_eq_getElem this]
  · rename_i h0
    have hb : (toks[causeIndex toks.length out.peek]).map.bl = -1 := by omega
    rw [hb]
    have h1' : (-1 : Int).natAbs = 1 := rfl
    simp only [h1']
    have : 1 ≤ (Str.splitOn '\n' source).length := hpos
    simp only [this, ↓reduceIte]
    have : (Str.splitOn '\n' source).length - 1 < (Str.splitOn '\n' source).length := by omega
    simp [List.getElem?_eq_getElem this]

/-! ## error position (`SyntaxParser.parse`, syntax.py:116-118) -/

/-- `max(0, length - 1 - peek)` indexes the token list for EVERY value of `peek` as soon as there is a token: the cause token
    handed to `ErrorCollector` always exists (never index -1 / IndexError), whatever the matcher recorded. -/
theorem error_index_in_range (toks : List Tok) (peek : Nat) (h : toks ≠ []) :
    causeIndex toks.length peek < toks.length ∧ ∃ cause, toks[causeIndex toks.length peek]? = some cause := by
  have hlen : 0 < toks.length := List.length_pos_iff.mpr h
  have hi : causeIndex toks.length peek < toks.length := by unfold causeIndex; omega
  exact ⟨hi, _, List.getElem?_eq_getElem hi⟩

/-- it is the token `peek` positions left of the last one while `peek` stays inside the list, and the first token beyond that
    (the clamp of `max(0, …)`) -/
theorem error_index_value (length peek : Nat) :
    (peek < length → causeIndex length peek + peek + 1 = length) ∧ (length ≤ peek + 1 → causeIndex length peek = 0) := by
  unfold causeIndex
  exact ⟨fun _ => by omega, fun _ => by omega⟩

example : causeIndex 6 5 = 0 ∧ causeIndex 6 1 = 4 ∧ causeIndex 6 9 = 0 := by decide

/-! ## reserved words (`Rules.keywords`, rule.py:328-351; `_compare_token`, syntax.py:310-312) -/

/-- The memoised keyword list holds the expression of every terminal of every rule — in particular of rules whose whole
    right side is one bare terminal (`break := "break"`, `none := "None"`, `op_or := "or"`) — and only those. -/
theorem keywords_exact (R : Rules) (e : Str) : e ∈ keywords R ↔ ∃ kv ∈ R, e ∈ collectKeyword kv.2 :=
  ⟨keywords_sound, fun ⟨_, hkv, he⟩ => mem_keywords hkv he⟩

/-- A token whose string is a keyword never matches a regexp terminal, whatever the regexp oracle says: keywords match
    `Equals` terminals only. -/
theorem keywords_excluded (env : Env) (tok : Tok) (e : Str) (h : tok.str ∈ env.kw) :
    compareToken env tok e .regexp = .ok false := by
  simp [compareToken, h]

/-- ASCII identifier shape, the language of the `name` regexp `[a-zA-Z_]\w*` -/
def isIdent (s : Str) : Bool :=
  match s with
  | [] => false
  | c :: cs => (c.isAlpha || c = '_') && cs.all (fun d => d.isAlphanum || d = '_')

def strs (xs : List String) : List Str := xs.map String.toList

/-- **Reserved words of the shipped Python rules, against an independent reading of the grammar text.** The string terminals
    in `py_rules()`'s keyword list are exactly the string terminals of data/syntax/py_gram.lark as the harness's own reader
    sees them (same order); the single-terminal rules contribute theirs; and the identifier-shaped ones — the words the
    `name` regexp may NOT match — are exactly the 17 listed. `True` / `False` are not among them: `boolean` is a regexp
    terminal tried before `var` in `atom`. -/
theorem reserved_words_py :
    (keywords Generated.pyRules).filter (fun k => !Generated.pyRegexps.contains k) = Generated.pyLarkStrings ∧
    (Generated.pyLarkSingleTerminalRules.all fun r =>
      match getRule Generated.pyRules r with
      | .ok (.pattern e .terminal .equals) => (keywords Generated.pyRules).contains e
      | _ => false) = true ∧
    (keywords Generated.pyRules).filter isIdent =
      [['b','r','e','a','k'], ['c','o','n','t','i','n','u','e'], ['r','e','t','u','r','n'], ['r','a','i','s','e'], ['d','e','f'],
       ['i','f'], ['e','l','i','f'], ['e','l','s','e'], ['f','o','r'], ['i','n'], ['w','h','i','l','e'], ['l','a','m','b','d','a'],
       ['o','r'], ['a','n','d'], ['i','s'], ['n','o','t'], ['N','o','n','e']] := by
  decide +kernel

/-- the same tie for the meta-grammar: its keyword list is its seven punctuation terminals followed by its five regexps -/
theorem reserved_words_gram :
    keywords Generated.gramRules = Generated.gramLarkStrings ++ Generated.gramLarkRegexps := by
  decide +kernel

/-! ## no state between calls -/

/-- what one parser instance returns for a sequence of texts, in the model: the list of the individual results -/
def session (env : Env) (fuel : List Tok → Nat) (entry : Str) (texts : List (Str × List Tok)) : List (Except Err Ast) :=
  texts.map fun t => parse env (fuel t.2) t.1 t.2 entry

/-- Remark-level theorem: in the model the result for a text does not depend on what was parsed before — `peek` starts at 0 in
    every `parse`, the tokenizer is a function of the text. The real `SyntaxParser` resets `ProgreessMonitor.peek` at the start
    of every `parse` (since the repair of the stale error position); every instance attribute is inventoried by the translator
    (`scan_instance_state`, a new one breaks the tie) and the `history` search compares a shared instance with fresh ones. -/
theorem parse_history_free (env : Env) (fuel : List Tok → Nat) (entry : Str) (history : List (Str × List Tok)) (t : Str × List Tok) :
    (session env fuel entry (history ++ [t])).getLast? = some (parse env (fuel t.2) t.1 t.2 entry) := by
  simp [session]

/-! ## T3 — yield -/

/-- The consumed tokens of a successful match are exactly the span under the cursor, in source order, each consumed once;
    the `ASTToken` leaves of the returned entry are, in order, exactly those of them that named terminal rules matched
    (anonymous keyword tokens are dropped, nothing is duplicated or reordered — through `_unwrap_children` as well). -/
theorem T3_yield (env : Env) (fuel : Nat) (ctx : Ctx) (peek : Nat) (sym : Str) (out : Out)
    (h : matchSymbol env fuel ctx peek sym = .ok out) (hok : out.ok = true) :
    out.trace.map (·.1) = (ctx.rest.take out.steps).reverse ∧ out.steps ≤ ctx.rest.length ∧
      leavesL out.children = named out.trace := by
  have g := (good_all env fuel).1 _ _ _ _ h hok
  exact ⟨g.span, g.steps_le, g.yield⟩

/-- A hand-made rule set for the examples (independent of the generated tables):
    `s[1] := (n op)* n`, `n := /\\d/` (class 1), `op := "+"`. -/
def sumRules : Rules :=
  [(['s', '[', '1', ']'], .group [.group [.group [.pattern ['n'] .symbol .noComp, .pattern ['o', 'p'] .symbol .noComp] .and .noRepeat] .and .overZero,
      .pattern ['n'] .symbol .noComp] .and .noRepeat),
   (['n'], .pattern ['\\', 'd'] .terminal .regexp),
   (['o', 'p'], .pattern ['+'] .terminal .equals)]

def sumEnv : Env := Env.of sumRules (fun _ t => t.cls == 1)

def digitTok (c : Char) (col : Int) : Tok := ⟨[c], 1, ⟨0, col, 0, col + 1⟩⟩
def plusTok (col : Int) : Tok := ⟨['+'], 0, ⟨0, col, 0, col + 1⟩⟩

/-- non-vacuity of T2/T3/T1: the check accepts the rule set, `1+2+3` parses with the proved fuel bound into the flat chain
    `1 + 2 + 3` (all five tokens are named-terminal leaves here), and `1+` is rejected with Errors.Syntax -/
example : WFRules sumRules := by decide +kernel

example : (match parse sumEnv (fuelBound sumRules 5) ['1', '+', '2', '+', '3']
        [digitTok '1' 0, plusTok 1, digitTok '2' 2, plusTok 3, digitTok '3' 4] ['s'] with
      | .ok t => decide (leaves t = [digitTok '1' 0, plusTok 1, digitTok '2' 2, plusTok 3, digitTok '3' 4])
      | .error _ => false) = true := by decide +kernel

example : (match parse sumEnv (fuelBound sumRules 2) ['1', '+'] [digitTok '1' 0, plusTok 1] ['s'] with
      | .error (.syntax _) => true
      | _ => false) = true := by decide +kernel

/-! ## T4 — chain -/

/-- A match of a ladder-shaped pattern `(N op)* N` is a flat chain: its children are `n_k, o_k, …, n_1, o_1, n_0`, each a
    successful match of `N` resp. `op`, laid end to end over the consumed span — in source order the operands and operators
    alternate exactly as written, no regrouping. This is the structural reason operator grouping comes out as the grammar's
    level order (one level per ladder rule; the `[1]` unwrap removes a level that has a single operand). -/
theorem T4_chain (env : Env) (N O : Str) (fuel : Nat) (ctx : Ctx) (peek : Nat) (allow : Bool) (out : Out)
    (h : matchEntry env fuel ctx peek (ladder N O) allow = .ok out) (hok : out.ok = true) :
    Chain env N O ctx out.steps out.children :=
  chain_ladder env N O fuel ctx peek allow out h hok

/-- the five ladder rules of data/syntax/py_gram.lark: (rule, operand, operator) -/
def pyLadders : List (Str × Str × Str) :=
  [(['c','o','m','p','_','o','r'], ['c','o','m','p','_','a','n','d'], ['o','p','_','o','r']),
   (['c','o','m','p','_','a','n','d'], ['c','o','m','p','_','n','o','t'], ['o','p','_','a','n','d']),
   (['c','o','m','p'], ['c','a','l','c','_','s','u','m'], ['o','p','_','c','o','m','p']),
   (['c','a','l','c','_','s','u','m'], ['c','a','l','c','_','m','u','l'], ['o','p','_','a','d','d']),
   (['c','a','l','c','_','m','u','l'], ['u','n','a','r','y'], ['o','p','_','m','u','l'])]

/-- In the generated table the boolean, comparison and arithmetic levels are exactly ladder rules, chained
    `comp_or > comp_and > comp_not …` and `comp > calc_sum > calc_mul > unary` (so T4 applies to each of them). -/
theorem T4_ladders_py :
    pyLadders.all (fun l => decide (getRule Generated.pyRules l.1 = .ok (ladder l.2.1 l.2.2))) = true := by
  decide +kernel

/-- non-vacuity of T4: the rule `s` of `sumRules` is a ladder -/
example : getRule sumRules ['s'] = .ok (ladder ['n'] ['o', 'p']) := by decide

/-! ## group_partial — operator grouping of the py ladders -/

/-- comparison / arithmetic ladder of py_gram.lark, loosest first; bottom symbol `unary` -/
def pyArith : List (Str × Str) :=
  [(['c','o','m','p'], ['o','p','_','c','o','m','p']),
   (['c','a','l','c','_','s','u','m'], ['o','p','_','a','d','d']),
   (['c','a','l','c','_','m','u','l'], ['o','p','_','m','u','l'])]

/-- boolean ladder of py_gram.lark; bottom symbol `comp_not` -/
def pyBool : List (Str × Str) :=
  [(['c','o','m','p','_','o','r'], ['o','p','_','o','r']), (['c','o','m','p','_','a','n','d'], ['o','p','_','a','n','d'])]

def sUnary : Str := ['u','n','a','r','y']
def sCompNot : Str := ['c','o','m','p','_','n','o','t']

/-- In the generated table `comp > calc_sum > calc_mul` (over `unary`) and `comp_or > comp_and` (over `comp_not`) are
    ladders in the sense of `ladOK`: each rule is `(next op)* next` with `next` the following rule. -/
theorem group_ladders_py :
    ladOK Generated.pyRules pyArith sUnary = true ∧ ladOK Generated.pyRules pyBool sCompNot = true := by
  decide +kernel

/-- **C11.group_partial (comparison / arithmetic).** For every regexp oracle, every token list and cursor: whatever the
    engine matches for `comp` — any mix of comparison (`< > == <= >= != in, not in, is, is not`), additive (`+ -`) and
    multiplicative (`* / %`) operators over `unary` operands (opaque here: `-x`, names, literals, calls, indexing,
    parenthesised expressions, …) — decomposes into operand and operator matches that cover exactly the consumed tokens in
    source order, and the precedence-climbing reference parser of `Tranp.Prec`, run on that same (abstracted) token list
    with the level order comparison < additive < multiplicative, returns exactly the expression the engine's flat chains
    stand for when read as CPython reads them: left-nested within `calc_sum` / `calc_mul`, one flat comparison chain per
    `comp` (Prec's `chain` level groups like `infixl`; a `Compare` node is its flattening). -/
theorem group_partial_arith (env : Env) (hr : env.rules = Generated.pyRules) (c : Codes) (hK : 3 ≤ c.K)
    (ctx : Ctx) (fuel pk : Nat) (out : Out)
    (h : matchSymbol env fuel ctx pk ['c','o','m','p'] = .ok out) (hk : out.ok = true) :
    ∃ e segs, LvP env c pyArith sUnary 0 ctx out.steps e segs ∧ segs.flatMap (·.2) = span ctx 0 out.steps ∧
      Prec.parse (ladOps c.K) (segs.map (·.1)) = some e :=
  ladder_group env c pyArith sUnary (by rw [hr]; exact group_ladders_py.1) hK ctx fuel pk out h hk

/-- **C11.group_partial (boolean).** The same for `comp_or`: `or` / `and` over `comp_not` operands (opaque: `not x`,
    comparisons, arithmetic, …), level order `or` < `and`; a bare `or`/`and` chain is one flat chain (CPython's n-ary
    `BoolOp` is its flattening). -/
theorem group_partial_bool (env : Env) (hr : env.rules = Generated.pyRules) (c : Codes) (hK : 2 ≤ c.K)
    (ctx : Ctx) (fuel pk : Nat) (out : Out)
    (h : matchSymbol env fuel ctx pk ['c','o','m','p','_','o','r'] = .ok out) (hk : out.ok = true) :
    ∃ e segs, LvP env c pyBool sCompNot 0 ctx out.steps e segs ∧ segs.flatMap (·.2) = span ctx 0 out.steps ∧
      Prec.parse (ladOps c.K) (segs.map (·.1)) = some e :=
  ladder_group env c pyBool sCompNot (by rw [hr]; exact group_ladders_py.2) hK ctx fuel pk out h hk

/-- level of an operator spelling in CPython's table (`Ladder.pyTable`, the table C02 proves equal to the grammar of CPython) -/
def cpyLevel (s : Str) : Option Nat := (Ladder.opCode s).bind (Ladder.pyTable.ops.bin)

/-- The ladders' level order is CPython's: `or` < `and` < every comparison operator < `+ -` < `* / %`, all operators of
    one ladder rule on one CPython level (the spellings are those the operator rules `op_or, op_and, op_comp, op_add, op_mul`
    can match). -/
theorem group_levels_cpython :
    cpyLevel ['o','r'] = some 0 ∧ cpyLevel ['a','n','d'] = some 1 ∧
    ([['<'], ['>'], ['=','='], ['<','='], ['>','='], ['!','='], ['i','n'], ['n','o','t',' ','i','n'], ['i','s'], ['i','s',' ','n','o','t']].all
      fun s => cpyLevel s == some 3) = true ∧
    ([['+'], ['-']].all fun s => cpyLevel s == some 8) = true ∧
    ([['*'], ['/'], ['%']].all fun s => cpyLevel s == some 9) = true := by
  decide +kernel

/-- non-vacuity of group_partial on the hand-made ladder `s := (n op)* n`: `1+2+3` is read as `(1+2)+3` -/
example : ladOK sumRules [(['s'], ['o', 'p'])] ['n'] = true := by decide

/-! ## a grouping the shipped grammar gets wrong: `:=` binds tighter than the conditional -/

/-- regexp oracle for the example below, independent of the generated class table: the identifier regexp matches purely
    alphabetic tokens, every other regexp terminal matches nothing (keywords are excluded by the engine itself) -/
def alphaRx : Str → Tok → Bool := fun e t => e == ['[','a','-','z','A','-','Z','_',']','\\','w','*'] && t.str.all Char.isAlpha

def wtTok (s : Str) : Tok := ⟨s, 0, ⟨0, 0, 0, 0⟩⟩

/-- the tokens of `( x := a if c else d )` -/
def walrusTernaryToks : List Tok :=
  [wtTok ['('], wtTok ['x'], wtTok [':','='], wtTok ['a'], wtTok ['i','f'], wtTok ['c'], wtTok ['e','l','s','e'], wtTok ['d'],
   wtTok [')'], wtTok ['\n']]

def tvar (c : Char) : TEntry := .tree ['v','a','r'] [.token ['n','a','m','e'] [c]]

/-- CPython reads `x := a if c else d` as `x := (a if c else d)`: the named expression takes a whole `expression` on its right.
    In the engine's tree language that grouping is `expr_move [x, ternary [a, c, d]]`. -/
def walrus_ternary_statement : Prop :=
  (parse (Env.of Generated.pyRules alphaRx) (fuelBound Generated.pyRules 10) [] walrusTernaryToks nEntryC).map Ast.simplify =
    .ok (.tree nEntryC [.tree ['e','x','p','r','_','m','o','v','e'] [tvar 'x', .tree ['t','e','r','n','a','r','y'] [tvar 'a', tvar 'c', tvar 'd']]])

/-- What the engine model builds on the shipped rules instead: `ternary [expr_move [x, a], c, d]`, i.e. `(x := a) if c else d`
    (py_gram.lark: `ternary[1] := (expr_move "if" expr_move "else")? expr_move` over `expr_move[1] := (comp_or ":=")? comp_or`). -/
theorem walrus_ternary_engine :
    (parse (Env.of Generated.pyRules alphaRx) (fuelBound Generated.pyRules 10) [] walrusTernaryToks nEntryC).map Ast.simplify =
    .ok (.tree nEntryC [.tree ['t','e','r','n','a','r','y'] [.tree ['e','x','p','r','_','m','o','v','e'] [tvar 'x', tvar 'a'], tvar 'c', tvar 'd']]) := by
  decide +kernel

/-- Known finding `group:walrus-over-ternary`: the CPython grouping is NOT what the engine returns. -/
theorem walrus_ternary_counterexample : ¬ walrus_ternary_statement := by
  unfold walrus_ternary_statement
  rw [walrus_ternary_engine]
  decide

/-! ## T6 — the engine only returns derivations of the grammar -/

/-- **Soundness of the matcher against the declarative reading of the rules** (`DSym`/`DPat`/`DSeq`/`DIter` in
    Lemmas/EngineSound.lean: no cursor, no fuel, no right-to-left order, no ordered choice — a sequence derives the
    concatenation of what its entries derive, an alternative what ONE of its entries derives, `( … )* + ?` / `[ … ]` an allowed
    number of repetitions of the body, a symbol what its rule derives, wrapped and unwrapped as `_unwrap_children` does).
    For every rule set, regexp oracle, cursor and symbol: a successful `_match_symbol` returns exactly one entry, and that
    entry is a derivation of exactly the tokens consumed. -/
theorem T6_sound_match (env : Env) (fuel : Nat) (ctx : Ctx) (peek : Nat) (sym : Str) (out : Out)
    (h : matchSymbol env fuel ctx peek sym = .ok out) (hok : out.ok = true) :
    ∃ c, out.children = [c] ∧ DSym env sym (consumed ctx out.steps) c :=
  (sound_all env fuel).1 ctx peek sym out h hok

/-- … hence every tree `parse` returns is a derivation of the WHOLE token list from the entrypoint: the engine never builds a
    structure the grammar does not assign to the text (ordered choice and greedy repetition only select among derivations). -/
theorem T6_sound (env : Env) (fuel : Nat) (source : Str) (toks : List Tok) (entry : Str) (t : Ast)
    (h : parse env fuel source toks entry = .ok t) (hne : toks ≠ []) : DSym env entry toks t := by
  obtain ⟨out, hm, hs, hc, hrest⟩ := T2_all_or_error env fuel source toks entry t h
  obtain ⟨hok, _, _⟩ := hrest hne
  obtain ⟨c, hc', hd⟩ := T6_sound_match env fuel _ _ _ _ hm hok
  rw [hc] at hc'
  simp only [List.cons.injEq, and_true] at hc'
  subst hc'
  have hcons : consumed (Ctx.start toks) out.steps = toks := by
    have hl : toks.length = toks.reverse.length := by simp
    simp only [consumed, Ctx.start, hs]
    rw [hl, List.take_length, List.reverse_reverse]
  rw [hcons] at hd
  exact hd

/-- non-vacuity of T6: `1+2` under `sumRules` is accepted, so the theorem applies to its tree -/
example : (parse sumEnv (fuelBound sumRules 3) ['1', '+', '2'] [digitTok '1' 0, plusTok 1, digitTok '2' 2] ['s']).isOk = true := by
  decide +kernel

/-- `x := "a" ("a")*` -/
def greedyRules : Rules :=
  [(['x'], .group [.pattern ['a'] .terminal .equals, .group [.pattern ['a'] .terminal .equals] .and .overZero] .and .noRepeat)]

def aTok (col : Int) : Tok := ⟨['a'], 0, ⟨0, col, 0, col + 1⟩⟩

/-- The converse of T6 — every sentence the rules derive is accepted — for well-formed rule sets. -/
def T6_complete_statement : Prop :=
  ∀ (env : Env) (toks : List Tok) (entry : Str) (c : Ast), WFRules env.rules → env.kw = keywords env.rules →
    DSym env entry toks c → ∃ t, parse env (fuelBound env.rules toks.length) [] toks entry = .ok t

/-- It is FALSE for this engine: the matcher works from the right and a repeat group is greedy with no backtracking, so under
    `x := "a" ("a")*` the text `a a` — plainly derivable — is rejected with Errors.Syntax (the `*` group swallows both tokens and
    the leading `"a"` finds nothing). Acceptance of every sentence of py_gram.lark therefore cannot follow from the grammar alone;
    it is checked by the `cpython-ast` search (every derived sentence must be accepted). The witness is replayed on the real
    engine by the `engine-random` stream (corpus case `greedy-repeat`). -/
theorem T6_complete_counterexample : ¬ T6_complete_statement := by
  intro h
  have hd : DSym (Env.of greedyRules (fun _ _ => false)) ['x'] [aTok 0, aTok 2] (unwrapChildren greedyRules ['x'] []) := by
    refine DSym.rule ['x'] (.group [.pattern ['a'] .terminal .equals, .group [.pattern ['a'] .terminal .equals] .and .overZero] .and .noRepeat)
      [aTok 0, aTok 2] [] (by decide) (by intro e comp hp; cases hp) ?_
    refine DPat.and _ .noRepeat true _ _ (Or.inl rfl) ?_
    have h1 : DPat (Env.of greedyRules (fun _ _ => false)) (.pattern ['a'] .terminal .equals) true [aTok 0] [] :=
      DPat.term _ _ _ _ (by decide)
    have hb : DPat (Env.of greedyRules (fun _ _ => false)) (.group [.pattern ['a'] .terminal .equals] .and .overZero) false [aTok 2] [] := by
      refine DPat.and _ .overZero false _ _ (Or.inr rfl) ?_
      exact DSeq.cons _ [] [aTok 2] [] [] [] (DPat.term _ _ _ _ (by decide)) DSeq.nil
    have h2 : DPat (Env.of greedyRules (fun _ _ => false)) (.group [.pattern ['a'] .terminal .equals] .and .overZero) true [aTok 2] [] :=
      DPat.rep _ .and .overZero 1 [aTok 2] [] trivial (DIter.succ _ _ _ 0 [aTok 2] [] [] [] hb (DIter.zero _ _ _))
    exact DSeq.cons _ _ [aTok 0] [] [aTok 2] [] h1 (DSeq.cons _ [] [aTok 2] [] [] [] h2 DSeq.nil)
  obtain ⟨t, ht⟩ := h (Env.of greedyRules (fun _ _ => false)) [aTok 0, aTok 2] ['x'] _ (by decide +kernel) rfl hd
  revert ht
  have : (match parse (Env.of greedyRules (fun _ _ => false)) (fuelBound greedyRules 2) [] [aTok 0, aTok 2] ['x'] with
      | .error (.syntax _) => true
      | _ => false) = true := by decide +kernel
  intro ht
  rw [show ([aTok 0, aTok 2] : List Tok).length = 2 from rfl, show (Env.of greedyRules (fun _ _ => false)).rules = greedyRules from rfl] at ht
  rw [ht] at this
  cases this

/-! ### T6 on the prefix rules of py_gram.lark: conditional, walrus, `not`, unary minus -/

def kwPat (s : Str) : Pat := .pattern s .terminal .equals

def sTernary : Str := ['t','e','r','n','a','r','y']
def sExprMove : Str := ['e','x','p','r','_','m','o','v','e']
def sCompOr : Str := ['c','o','m','p','_','o','r']
def sComp : Str := ['c','o','m','p']
def sOpNot : Str := ['o','p','_','n','o','t']
def sOpUnary : Str := ['o','p','_','u','n','a','r','y']
def sPrimary : Str := ['p','r','i','m','a','r','y']
def sUnaryMinus : Str := ['\\','O','P','_','U','N','A','R','Y','_','M','I','N','U','S']

/-- In the generated table `ternary`, `expr_move`, `comp_not` and `unary` are optional-prefix rules `( G )? N`, and `op_not` /
    `op_unary` are the bare terminals `"not"` / `"\OP_UNARY_MINUS"` (kernel-decided over the generated rules). -/
theorem T6_prefix_rules_py :
    getRule Generated.pyRules sTernary = .ok (optPrefix [.group [symPat sExprMove, kwPat ['i','f'], symPat sExprMove, kwPat ['e','l','s','e']] .and .noRepeat] sExprMove) ∧
    getRule Generated.pyRules sExprMove = .ok (optPrefix [.group [symPat sCompOr, kwPat [':','=']] .and .noRepeat] sCompOr) ∧
    getRule Generated.pyRules sCompNot = .ok (optPrefix [symPat sOpNot] sComp) ∧
    getRule Generated.pyRules sUnary = .ok (optPrefix [symPat sOpUnary] sPrimary) ∧
    getRule Generated.pyRules sOpNot = .ok (kwPat ['n','o','t']) ∧
    getRule Generated.pyRules sOpUnary = .ok (kwPat sUnaryMinus) := by
  decide +kernel

/-- **Conditional expression.** Every derivation of `ternary` under the shipped rules is a bare `expr_move`, or
    `A if B else D` with `A`, `B`, `D` derivations of `expr_move` over consecutive spans and the children in the order
    `[A, B, D]` — value first, condition second, alternative third: exactly the fields `body`, `test`, `orelse` of CPython's
    `IfExp` for the same text. With `T6_sound` this holds for every `ternary` node of every tree the engine returns. -/
theorem T6_ternary_shape (env : Env) (hr : env.rules = Generated.pyRules) (toks : List Tok) (c : Ast)
    (h : DSym env sTernary toks c) :
    (∃ x, DSym env sExprMove toks x ∧ c = unwrapChildren env.rules sTernary [x]) ∨
    (∃ ta a tif tb b telse td d, toks = ta ++ tif :: (tb ++ telse :: td) ∧ tif.str = ['i','f'] ∧ telse.str = ['e','l','s','e'] ∧
      DSym env sExprMove ta a ∧ DSym env sExprMove tb b ∧ DSym env sExprMove td d ∧
      c = unwrapChildren env.rules sTernary [a, b, d]) := by
  obtain ⟨cs, hd, hc⟩ := DSym.rule_inv h (by rw [hr]; exact T6_prefix_rules_py.1) (by intro e comp hp; simp [optPrefix] at hp)
  rcases optPrefix_inv hd with ⟨x, hx, hcs⟩ | ⟨t1, c1, t2, x, hseq, hx, ht, hcs⟩
  · left; exact ⟨x, hx, by rw [hc, hcs]⟩
  · right
    obtain ⟨t1', c1', tn, cn, hg, hnil, ht1, hc1⟩ := DSeq.cons_inv hseq
    obtain ⟨hn1, hn2⟩ := DSeq.nil_inv hnil
    subst hn1 hn2
    have hB := DPat.and_inv hg (Or.inl rfl)
    obtain ⟨ta, ca, r1, cr1, hpa, hr1, e1, f1⟩ := DSeq.cons_inv hB
    obtain ⟨tif, cif, r2, cr2, hpif, hr2, e2, f2⟩ := DSeq.cons_inv hr1
    obtain ⟨tb, cb, r3, cr3, hpb, hr3, e3, f3⟩ := DSeq.cons_inv hr2
    obtain ⟨tel, cel, r4, cr4, hpel, hr4, e4, f4⟩ := DSeq.cons_inv hr3
    obtain ⟨e5, f5⟩ := DSeq.nil_inv hr4
    obtain ⟨a, ha, hca⟩ := DPat.sym_inv hpa
    obtain ⟨b, hb, hcb⟩ := DPat.sym_inv hpb
    obtain ⟨kif, hkif, hcif, hcmpif⟩ := DPat.term_inv hpif
    obtain ⟨kel, hkel, hcel, hcmpel⟩ := DPat.term_inv hpel
    refine ⟨ta, a, kif, tb, b, kel, t2, x, ?_, compareToken_equals hcmpif, compareToken_equals hcmpel, ha, hb, hx, ?_⟩
    · subst ht ht1 e1 e2 e3 e4 e5 hkif hkel
      simp [List.append_assoc]
    · rw [hc, hcs, hc1, f1, f2, f3, f4, f5, hca, hcb, hcif, hcel]
      simp

/-- **Named expression.** A derivation of `expr_move` is a bare `comp_or` or `T := V` with children `[T, V]` (target, value):
    the fields of CPython's `NamedExpr`. (Which span the VALUE takes when a conditional follows is the known finding
    `group:walrus-over-ternary`: `walrus_ternary_counterexample`.) -/
theorem T6_walrus_shape (env : Env) (hr : env.rules = Generated.pyRules) (toks : List Tok) (c : Ast)
    (h : DSym env sExprMove toks c) :
    (∃ x, DSym env sCompOr toks x ∧ c = unwrapChildren env.rules sExprMove [x]) ∨
    (∃ tt t top tv v, toks = tt ++ top :: tv ∧ top.str = [':','='] ∧ DSym env sCompOr tt t ∧ DSym env sCompOr tv v ∧
      c = unwrapChildren env.rules sExprMove [t, v]) := by
  obtain ⟨cs, hd, hc⟩ := DSym.rule_inv h (by rw [hr]; exact T6_prefix_rules_py.2.1) (by intro e comp hp; simp [optPrefix] at hp)
  rcases optPrefix_inv hd with ⟨x, hx, hcs⟩ | ⟨t1, c1, t2, x, hseq, hx, ht, hcs⟩
  · left; exact ⟨x, hx, by rw [hc, hcs]⟩
  · right
    obtain ⟨t1', c1', tn, cn, hg, hnil, ht1, hc1⟩ := DSeq.cons_inv hseq
    obtain ⟨hn1, hn2⟩ := DSeq.nil_inv hnil
    subst hn1 hn2
    have hB := DPat.and_inv hg (Or.inl rfl)
    obtain ⟨ta, ca, r1, cr1, hpa, hr1, e1, f1⟩ := DSeq.cons_inv hB
    obtain ⟨top, cop, r2, cr2, hpop, hr2, e2, f2⟩ := DSeq.cons_inv hr1
    obtain ⟨e3, f3⟩ := DSeq.nil_inv hr2
    obtain ⟨a, ha, hca⟩ := DPat.sym_inv hpa
    obtain ⟨kop, hkop, hcop, hcmp⟩ := DPat.term_inv hpop
    refine ⟨ta, a, kop, t2, x, ?_, compareToken_equals hcmp, ha, hx, ?_⟩
    · subst ht ht1 e1 e2 e3 hkop
      simp [List.append_assoc]
    · rw [hc, hcs, hc1, f1, f2, f3, hca, hcop]
      simp

/-- **Prefix operators.** A derivation of `unary` is a bare `primary` or ONE unary-minus token followed by a `primary`, children
    `[(op_unary, token), operand]` (CPython's `UnaryOp(USub, operand)`; `--x` is not a sentence of this grammar); a derivation of
    `comp_not` is a bare `comp` or ONE `not` followed by a `comp` — the operand of `not` is a whole comparison chain, the operand
    of the minus a single `primary`, as in CPython's precedence table. -/
theorem T6_prefix_shape (env : Env) (hr : env.rules = Generated.pyRules) (toks : List Tok) (c : Ast) :
    (DSym env sUnary toks c →
      (∃ x, DSym env sPrimary toks x ∧ c = unwrapChildren env.rules sUnary [x]) ∨
      (∃ tm t2 x, toks = tm :: t2 ∧ tm.str = sUnaryMinus ∧ DSym env sPrimary t2 x ∧
        c = unwrapChildren env.rules sUnary [.token sOpUnary tm, x])) ∧
    (DSym env sCompNot toks c →
      (∃ x, DSym env sComp toks x ∧ c = unwrapChildren env.rules sCompNot [x]) ∨
      (∃ tn t2 x, toks = tn :: t2 ∧ tn.str = ['n','o','t'] ∧ DSym env sComp t2 x ∧
        c = unwrapChildren env.rules sCompNot [.token sOpNot tn, x])) := by
  have key : ∀ (sym op N e : Str), getRule env.rules sym = .ok (optPrefix [symPat op] N) → getRule env.rules op = .ok (kwPat e) →
      DSym env sym toks c →
      (∃ x, DSym env N toks x ∧ c = unwrapChildren env.rules sym [x]) ∨
      (∃ tm t2 x, toks = tm :: t2 ∧ tm.str = e ∧ DSym env N t2 x ∧ c = unwrapChildren env.rules sym [.token op tm, x]) := by
    intro sym op N e hrule hop h
    obtain ⟨cs, hd, hc⟩ := DSym.rule_inv h hrule (by intro e comp hp; simp [optPrefix] at hp)
    rcases optPrefix_inv hd with ⟨x, hx, hcs⟩ | ⟨t1, c1, t2, x, hseq, hx, ht, hcs⟩
    · left; exact ⟨x, hx, by rw [hc, hcs]⟩
    · right
      obtain ⟨t1', c1', tn, cn, hg, hnil, ht1, hc1⟩ := DSeq.cons_inv hseq
      obtain ⟨hn1, hn2⟩ := DSeq.nil_inv hnil
      subst hn1 hn2
      obtain ⟨y, hy, hcy⟩ := DPat.sym_inv hg
      obtain ⟨tok, htok, hytok, hcmp⟩ := DSym.terminal_inv hy hop
      refine ⟨tok, t2, x, ?_, compareToken_equals hcmp, hx, ?_⟩
      · subst ht ht1 htok; simp
      · rw [hc, hcs, hc1, hcy, hytok]; simp
  refine ⟨key sUnary sOpUnary sPrimary sUnaryMinus (by rw [hr]; exact T6_prefix_rules_py.2.2.2.1) (by rw [hr]; exact T6_prefix_rules_py.2.2.2.2.2),
    key sCompNot sOpNot sComp ['n','o','t'] (by rw [hr]; exact T6_prefix_rules_py.2.2.1) (by rw [hr]; exact T6_prefix_rules_py.2.2.2.2.1)⟩

/-- non-vacuity of the shape theorems: the engine model accepts `( a if c else d )` on the generated rules (so by `T6_sound` its tree is
    a derivation containing a `ternary` derivation of the second form) -/
example : (parse (Env.of Generated.pyRules alphaRx) (fuelBound Generated.pyRules 8) []
    [wtTok ['('], wtTok ['a'], wtTok ['i','f'], wtTok ['c'], wtTok ['e','l','s','e'], wtTok ['d'], wtTok [')'], wtTok ['\n']] nEntryC).isOk = true := by
  decide +kernel

/-! ## T7 — which derivation: first alternative, longest repetition, nothing reconsidered -/

/-- **Ordered choice.** A successful match of an alternative group `a | b | …` (read without repeat marker) is the match of ONE of
    its entries, and every entry written before that one was tried at the same cursor and failed: the engine takes the first
    alternative that matches from the right end of the span and never comes back to a later one. -/
theorem T7_ordered_choice (env : Env) (fuel : Nat) (ctx : Ctx) (peek : Nat) (es : List Pat) (rep : Rep) (allow : Bool) (out : Out)
    (hna : rep = .noRepeat ∨ allow = false)
    (h : matchEntry env fuel ctx peek (.group es .or rep) allow = .ok out) (hok : out.ok = true) :
    ∃ pre p post f pk, es = pre ++ p :: post ∧ matchEntry env f ctx pk p true = .ok out ∧
      ∀ q ∈ pre, ∃ f' pk' o, matchEntry env f' ctx pk' q true = .ok o ∧ o.ok = false := by
  cases fuel with
  | zero => simp [matchEntry] at h
  | succ f =>
    simp only [matchEntry] at h
    split at h
    · rename_i hc
      rcases hna with hr | ha
      · exact absurd hr hc.1
      · rw [ha] at hc; cases hc.2
    · simp only [↓reduceIte] at h
      exact or_first env es f ctx _ out h hok

/-- **Greedy repetition.** A successful match of `( … )*` or `( … )+` stops only where no token is left or where one more
    repetition of the body, tried at the very position the loop stopped, fails: the group takes as many repetitions as it can and
    gives none back (the reason the converse of T6 fails: `T6_complete_counterexample`). -/
theorem T7_greedy (env : Env) (fuel : Nat) (ctx : Ctx) (peek : Nat) (es : List Pat) (op : Op) (rep : Rep) (out : Out)
    (hrep : rep = .overZero ∨ rep = .overOne)
    (h : matchEntry env fuel ctx peek (.group es op rep) true = .ok out) (hok : out.ok = true) :
    (ctx.rest.drop out.steps).isEmpty = true ∨
      ∃ f pk o, matchEntry env f (ctx.step out.steps) pk (.group es op rep) false = .ok o ∧ o.ok = false := by
  cases fuel with
  | zero => simp [matchEntry] at h
  | succ f =>
    simp only [matchEntry] at h
    have hne : rep ≠ .noRepeat := by
      rcases hrep with hr | hr <;> subst hr <;> simp
    split at h
    · exact repeat_greedy env es op rep hrep f ctx _ 0 0 [] [] out (fun _ => rfl) h hok
    · rename_i hc
      exact absurd ⟨hne, trivial⟩ hc

/-- non-vacuity of T7: under `x := "a" | /\\w/` the token `a` is matched by the FIRST alternative although the second matches too;
    under `y := ("a")*` all three `a` are taken -/
example :
    (match matchEntry (Env.of [] (fun _ _ => true)) 5 (Ctx.start [aTok 0]) 0
        (.group [.pattern ['a'] .terminal .equals, .pattern ['\\', 'w'] .terminal .regexp] .or .noRepeat) true with
      | .ok out => out.ok && out.steps == 1
      | .error _ => false) = true ∧
    (match matchEntry (Env.of [] (fun _ _ => true)) 9 (Ctx.start [aTok 0, aTok 2, aTok 4]) 0
        (.group [.pattern ['a'] .terminal .equals] .and .overZero) true with
      | .ok out => out.ok && out.steps == 3
      | .error _ => false) = true := by
  decide +kernel

/-! ## T5 — error line -/

/-- The line number printed by the summary is `begin_line + 1` of an input token; it names an existing line of the source
    provided that token's source map is non-negative and inside the source. -/
theorem T5_error_line (source : Str) (toks : List Tok) (steps : Nat) (msg : Str)
    (h : summary source toks steps = .ok msg) :
    ∃ cause, toks[steps]? = some cause ∧
      (0 ≤ cause.map.bl → cause.map.bl < (Str.splitOn '\n' source).length →
        1 ≤ summaryLineNo cause ∧ summaryLineNo cause ≤ (Str.splitOn '\n' source).length) := by
  unfold summary at h
  split at h
  · cases h
  · rename_i cause hc
    exact ⟨cause, hc, fun h0 h1 => by unfold summaryLineNo; omega⟩

/-- The statement without the source-map guard: every summary names a line in `[1, #lines]`. -/
def T5_error_line_statement : Prop :=
  ∀ (source : Str) (toks : List Tok) (steps : Nat) (msg : Str), summary source toks steps = .ok msg →
    ∃ cause, toks[steps]? = some cause ∧ 1 ≤ summaryLineNo cause ∧ summaryLineNo cause ≤ (Str.splitOn '\n' source).length

/-- the only token of the empty program: the NEWLINE derived from EOF, source map (-1, -1, -1, -1) -/
def eofNewline : Tok := ⟨['\n'], 0, ⟨-1, -1, -1, -1⟩⟩

/-- False on the current code: for the empty program the cause token is EOF-derived and the summary prints line `(0)`. -/
theorem T5_error_line_counterexample : ¬ T5_error_line_statement := by
  intro h
  have hs : summary [] [eofNewline] 0 = .ok
      ['p','a','s','s',':',' ','0','/','1',',',' ','t','o','k','e','n',':',' ','\'','\\','n','\'','\n',
       '(','0',')',' ','>','>','>',' ','\n',' ',' ',' ',' ',' ',' ',' ',' ','^'] := by decide +kernel
  obtain ⟨cause, hc, h1, _⟩ := h [] [eofNewline] 0 _ hs
  have : cause = eofNewline := by simpa using hc.symm
  subst this
  revert h1
  decide

/-- non-vacuity of T5: an ordinary token on line 1 of a one-line source -/
example : (summary ['a', ' ', '+'] [⟨['a'], 0, ⟨0, 0, 0, 1⟩⟩, ⟨['+'], 0, ⟨0, 2, 0, 3⟩⟩] 1).isOk = true := by
  decide +kernel

end Tranp.C11
