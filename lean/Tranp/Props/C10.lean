/-
  Property C10 — Tree addressing is a bijection and node resolution is order-independent.
  Property theorems only; helper lemmas live in Tranp/Lemmas/AstPath.lean (and Tranp/Lemmas/AstPath/*.lean).

  Reading guide. `pathfy t p` is `ASTFinder.full_pathfy` on element lists, `pathfyS` / `fullPathfy` the same on the
  joined path strings (what the Python builds), `pluckRel` / `pluckS` are `ASTFinder.pluck`, `mkCache` is the
  `EntryCache` `Nodes.__init__` fills, `nodeBy` is `Nodes.by` threading `NodeResolver.__insts`, `classOf` is the
  cache-free "first accepting class in registration order". `WfTags t`: every tag of `t` is non-empty and free of
  `.`, `[`, `]` (decidable; true of all lark rule / terminal names and of `__empty__`).
-/
import Tranp.Lemmas.AstPath
import Tranp.Generated.TagAlphabet
import Tranp.Generated.GrammarChildren

namespace Tranp.C10
open Tranp Tranp.AstPath

/-- sample tree used by the non-vacuity examples: repeated (`a`,`a`), unique (`b`) and empty child tags -/
def sample : Entry :=
  .tree ['r'] [.token ['a'] [], .empty, .tree ['a'] [.token ['b'] ['x'], .empty, .empty]]

/-! ## bijection on element paths (all trees, no side condition) -/

/-- Looking a path of `full_pathfy` up returns that very entry — for every tree (repeated, unique and empty tags). -/
theorem pluck_pathfy (t : Entry) (p : Path) (e : Entry) (h : (p, e) ∈ pathfy t []) :
    pluckRel p t = some e := by
  obtain ⟨r, hq, hr⟩ := pathfy_sound t [] p e h
  simp at hq; subst hq; exact hr

example : ((pathfy sample []).length == 7 && (pathfy sample []).all (fun pe => pluckRel pe.1 sample == some pe.2)) = true := by
  decide +kernel

/-- The paths of `full_pathfy` are pairwise distinct: no entry position shares its path with another. -/
theorem paths_nodup (t : Entry) : ((pathfy t []).map (·.1)).Nodup :=
  pathfy_nodup t []

example : ((pathfy sample []).map (·.1)).length = 7 := by decide +kernel

/-- There are exactly as many paths as entry positions (with `paths_nodup` and `pluck_pathfy`: a bijection). -/
theorem count (t : Entry) : (pathfy t []).length = size t :=
  pathfy_length t []

example : size sample = 7 := by decide +kernel

/-! ## the string codec -/

/-- `int(str(n)) = n` for the index part of a path element. -/
theorem codec_int (n : Nat) : Str.decToNat? (Str.natToDec n) = some n :=
  StrCodec.decToNat_natToDec n

example : Str.natToDec 120 = ['1', '2', '0'] := by decide +kernel

/-- `EntryPath.__break_tag` recovers tag and index (`-1` = none) of an encoded element with a well-formed tag. -/
theorem codec_elem (el : Elem) (h : WfTag el.tag) : breakTag (encodeElem el) = .ok (el.tag, el.idxInt) :=
  breakTag_encodeElem el h

example : WfTag ['a', 'b'] ∧ encodeElem ⟨['a', 'b'], some 12⟩ = ['a', 'b', '[', '1', '2', ']'] := by decide +kernel

/-- `DSN.elements(DSN.join(...))` gives the encoded elements back: the joined string is a faithful encoding of the
    element list for well-formed tags. -/
theorem codec_path (p : Path) (h : WfPath p) : dsnElements (encodePath p) = p.map encodeElem :=
  dsnElements_encodePath p h

/-- Distinct well-formed element paths have distinct strings (the encoder can be decoded). -/
theorem codec_inj (p q : Path) (hp : WfPath p) (hq : WfPath q) (h : encodePath p = encodePath q) : p = q :=
  encodePath_inj p q hp hq h

example : WfPath [⟨['r'], none⟩, ⟨['a'], some 2⟩] ∧
    encodePath [⟨['r'], none⟩, ⟨['a'], some 2⟩] = ['r', '.', 'a', '[', '2', ']'] := by
  refine ⟨?_, by decide +kernel⟩
  intro el hel
  simp at hel
  rcases hel with rfl | rfl <;> decide

/-! ## bijection on the path strings the Python builds -/

example : WfTags sample := by decide +kernel

/-- The insertions `full_pathfy` performs are the abstract enumeration with every path encoded. -/
theorem pathfyS_encoded (t : Entry) (h : WfTags t) :
    pathfyS t t.name = (pathfy t [⟨t.name, none⟩]).map (fun pe => (encodePath pe.1, pe.2)) :=
  pathfyS_root t h

/-- The string keys are pairwise distinct … -/
theorem keys_nodup (t : Entry) (h : WfTags t) : ((fullPathfy t).map (·.1)).Nodup :=
  fullPathfy_keys_nodup t h

/-- … hence the Python dict loses no insertion: `full_pathfy(t)` is exactly that list, in pre-order. -/
theorem fullPathfy_encoded (t : Entry) (h : WfTags t) :
    fullPathfy t = (pathfy t [⟨t.name, none⟩]).map (fun pe => (encodePath pe.1, pe.2)) :=
  fullPathfy_eq t h

/-- As many string paths as entry positions. -/
theorem countS (t : Entry) (h : WfTags t) : (fullPathfy t).length = size t :=
  fullPathfy_length t h

/-- Headline: `pluck(t, p) is e` for every `(p, e)` of `full_pathfy(t)`, on the strings the Python builds. -/
theorem pluckS_pathfyS (t : Entry) (h : WfTags t) (s : Str) (e : Entry) (hm : (s, e) ∈ fullPathfy t) :
    pluckS t s = .ok e :=
  pluckS_of_mem t h s e hm

example : (fullPathfy sample).map (·.1) =
    [['r'], ['r', '.', 'a', '[', '0', ']'], "r.__empty__".toList, ['r', '.', 'a', '[', '2', ']'],
     "r.a[2].b".toList, "r.a[2].__empty__[1]".toList, "r.a[2].__empty__[2]".toList] := by
  decide +kernel

/-! ## ids follow document order -/

/-- `EntryCache.index_of(p)` is the pre-order (document order) rank of `p`. -/
theorem ids_preorder (t : Entry) (h : WfTags t) (i : Nat) (s : Str) (e : Entry)
    (hi : (fullPathfy t)[i]? = some (s, e)) : (mkCache t).indexOf s = (i : Int) :=
  mkCache_indexOf t h i s e hi

/-- The cache returns the enumerated entry for each enumerated path. -/
theorem cache_by (t : Entry) (h : WfTags t) (s : Str) (e : Entry) (hm : (s, e) ∈ fullPathfy t) :
    (mkCache t).by_ s = .ok e :=
  mkCache_by t h s e hm

example : (mkCache sample).indexOf ['r', '.', 'a', '[', '2', ']'] = 3 := by decide +kernel

/-! ## node resolution is order-independent -/

/-- For every world (tree, cache, class table with arbitrary features) and every instance cache reachable by any
    sequence of earlier successful `Nodes.by` resolutions (`children`, `siblings`, `parent`, `ancestor` resolve through
    `Nodes.by` as well), the class returned for `p` is the cache-free choice `classOf`. -/
theorem resolve_order (w : World) (insts : List (Str × Str)) (hr : Reachable w insts)
    (p : Str) (e : Entry) (hb : w.cache.by_ p = .ok e) :
    (nodeBy w insts p).map (·.1) = classOf w e.name p :=
  nodeBy_eq_classOf w insts p e (reachable_ok w insts hr) hb

/-- The same for an explicit list of earlier queries (failing ones included), starting from the empty cache. -/
theorem resolve_order_queries (w : World) (qs : List Str) (p : Str) (e : Entry) (hb : w.cache.by_ p = .ok e) :
    (nodeBy w (runQueries w [] qs) p).map (·.1) = classOf w e.name p :=
  resolve_order w _ (runQueries_reachable w [] qs .init) p e hb

/-- sample world: tag `a` resolves to `Idx` when the path element carries an index, else to `Plain` -/
def sampleWorld : World :=
  { root := sample, cache := mkCache sample,
    table := { ctors := [(['a'], [⟨['I', 'd', 'x'], .hasIndex⟩, ⟨['P'], .always⟩]), (['r'], [⟨['R'], .childCountGe 3⟩])],
               fallback := none } }

example :
    let p : Str := ['r', '.', 'a', '[', '2', ']']
    let qs : List Str := [['r'], ['n', 'o'], p, ['r', '.', 'a', '[', '0', ']'], p]
    (sampleWorld.cache.by_ p).toOption.isSome = true ∧
    ((nodeBy sampleWorld (runQueries sampleWorld [] qs) p).map (·.1)).toOption = some ['I', 'd', 'x'] ∧
    (runQueries sampleWorld [] qs).length = 3 := by
  decide +kernel

/-! ## children / parent / siblings agree with the tree and with each other

`w.cache = mkCache t` is how `Nodes.__init__` builds its cache; the table of `w` is arbitrary. The results are the
path lists the real `Nodes.children` / `parent` / `siblings` then resolve through `Nodes.by` (see `resolve_order`). -/

/-! ## `Resolver.load`: the candidate classes of a symbol, in the order of `mapping.symbols`

`Table.load symbols fb` is `Resolver.load(SymbolMapping(symbols, fallback))`: one `register(symbol, ctor)` per pair, in the
order the mapping lists the classes and each class lists its symbols (`Table.registrations`). -/

/-- `Resolver.load(mapping).resolve(symbol)`: the classes whose symbol list names `symbol`, in mapping order (what
    `NodeResolver.resolve` tries first to last — `classOf`); without any, the fallback class; without a fallback,
    `Errors.UnresolvedNode` — every mapping, every symbol. -/
theorem load_resolve (symbols : List (ClassDef × List Str)) (fb : Option ClassDef) (sym : Str) :
    (Table.load symbols fb).resolve sym =
      (let cs := ((Table.registrations symbols).filter (fun r => r.1 == sym)).map (·.2)
       if cs.isEmpty then (match fb with | some c => .ok [c] | none => .error .unresolvedNode) else .ok cs) :=
  load_resolve_eq symbols fb sym

/-- `can_resolve(symbol)` after `load`: some class of the mapping lists the symbol (the fallback does not count). -/
theorem load_can_resolve (symbols : List (ClassDef × List Str)) (fb : Option ClassDef) (sym : Str) :
    (Table.load symbols fb).canResolve sym = (Table.registrations symbols).any (fun r => r.1 == sym) :=
  load_canResolve_eq symbols fb sym

/-- two classes sharing the symbol `a`: mapping order decides; `b` only through the fallback; `accepts` in first-registration order -/
example : ((Table.load [(⟨['K'], .never⟩, [['a'], ['c']]), (⟨['L'], .always⟩, [['a']])] (some ⟨['T'], .always⟩)).resolve ['a']).toOption.map (·.map (·.name))
      = some [['K'], ['L']] ∧
    ((Table.load [(⟨['K'], .never⟩, [['a'], ['c']]), (⟨['L'], .always⟩, [['a']])] (some ⟨['T'], .always⟩)).resolve ['b']).toOption.map (·.map (·.name))
      = some [['T']] ∧
    ((Table.load [(⟨['K'], .never⟩, [['a'], ['c']])] none).resolve ['b']).toOption.map (·.map (·.name)) = none ∧
    (Table.load [(⟨['K'], .never⟩, [['c'], ['a']]), (⟨['L'], .always⟩, [['a']])] none).accepts = [['c'], ['a']] ∧
    (Table.load [(⟨['K'], .never⟩, [['c'], ['a']])] (some ⟨['T'], .always⟩)).canResolve ['b'] = false := by
  decide +kernel

/-- `Nodes.children(p)`: exactly the paths `p ++ [element of child i]`, in child order, for the entry `x` at `p`
    (none for tokens and empty entries). -/
theorem children_agree (t : Entry) (h : WfTags t) (w : World) (hw : w.cache = mkCache t)
    (q : Path) (x : Entry) (hq : (q, x) ∈ pathfy t [⟨t.name, none⟩]) :
    childrenPaths w (encodePath q) = .ok ((childElems x).map (fun el => encodePath (q ++ [el]))) :=
  childrenPaths_mkCache t h w hw q x hq

/-- … where the `i`-th such element is the one `full_pathfy` gave child `i`, and the cache holds child `i` there. -/
theorem children_entries (t : Entry) (h : WfTags t) (q : Path) (tag : Str) (cs : List Entry)
    (hq : (q, .tree tag cs) ∈ pathfy t [⟨t.name, none⟩]) (i : Nat) :
    (childElems (.tree tag cs))[i]? = cs[i]?.map (fun c => elemFor cs i c) ∧
    ∀ c, cs[i]? = some c → (mkCache t).by_ (encodePath (q ++ [elemFor cs i c])) = .ok c :=
  ⟨childElems_getElem? tag cs i, fun c hc => child_entry t h q tag cs hq i c hc⟩

example : ((childrenPaths sampleWorld ['r']).toOption = some [['r', '.', 'a', '[', '0', ']'], "r.__empty__".toList, ['r', '.', 'a', '[', '2', ']']]) := by
  decide +kernel

/-- `Nodes.parent(p)`: the nearest proper prefix of `p` whose last tag is resolvable (`nearestRes` walks the reversed
    prefix), `Errors.NodeNotFound` when there is none. -/
theorem parent_nearest (t : Entry) (h : WfTags t) (w : World) (hw : w.cache = mkCache t)
    (q : Path) (x : Entry) (hq : (q, x) ∈ pathfy t [⟨t.name, none⟩]) :
    parentPath w (encodePath q) =
      match nearestRes w.table.canResolve q.dropLast.reverse with
      | some r => .ok (encodePath r.reverse)
      | none => .error .nodeNotFound :=
  parentPath_mkCache t h w hw q x hq

/-- children and parent agree: the parent of every child path of `p` is `p`, when `p`'s own tag is resolvable. -/
theorem parent_of_child (t : Entry) (h : WfTags t) (w : World) (hw : w.cache = mkCache t)
    (q1 : Path) (l : Elem) (x : Entry) (hq : (q1 ++ [l], x) ∈ pathfy t [⟨t.name, none⟩])
    (el : Elem) (hel : el ∈ childElems x) (hres : w.table.canResolve l.tag = true) :
    parentPath w (encodePath (q1 ++ [l] ++ [el])) = .ok (encodePath (q1 ++ [l])) :=
  parentPath_child t h w hw q1 l x hq el hel hres

example : (parentPath sampleWorld "r.a[2].b".toList).toOption = some ['r', '.', 'a', '[', '2', ']'] ∧
    (parentPath sampleWorld ['r']).toOption = none := by
  decide +kernel

/-- `Nodes.siblings(p)` = `Nodes.children` of `p` without its last element; the root has none. -/
theorem siblings_agree (t : Entry) (h : WfTags t) (w : World)
    (q : Path) (x : Entry) (hq : (q, x) ∈ pathfy t [⟨t.name, none⟩]) (hd : q.dropLast ≠ []) :
    siblingsPaths w (encodePath q) = childrenPaths w (encodePath q.dropLast) :=
  siblingsPaths_mkCache t h w q x hq hd

theorem siblings_root (t : Entry) (h : WfTags t) (w : World) :
    siblingsPaths w t.name = .error .nodeNotFound := by
  rw [← encodePath_root t h]; exact siblingsPaths_root t h w

example : (siblingsPaths sampleWorld "r.a[2].b".toList).toOption =
    some ["r.a[2].b".toList, "r.a[2].__empty__[1]".toList, "r.a[2].__empty__[2]".toList] := by
  decide +kernel

/-- `Nodes.ancestor(p, tag)`: the prefix of `p` ending at the nearest element (from the end, `p`'s own last element
    included, as in the Python) whose tag is `tag`; `ValueError` (`list.index`) when no element has the tag. -/
theorem ancestor_nearest (t : Entry) (h : WfTags t) (w : World) (hw : w.cache = mkCache t)
    (q : Path) (x : Entry) (hq : (q, x) ∈ pathfy t [⟨t.name, none⟩]) (tag : Str) :
    ancestorPath w (encodePath q) tag =
      match nearestRes (· == tag) q.reverse with
      | some r => .ok (encodePath r.reverse)
      | none => .error .valueError :=
  ancestorPath_mkCache t h w hw q x hq tag

example : (ancestorPath sampleWorld "r.a[2].b".toList ['a']).toOption = some ['r', '.', 'a', '[', '2', ']'] ∧
    (ancestorPath sampleWorld "r.a[2].b".toList ['z']).toOption = none := by
  decide +kernel

/-! ## `group_by`, `values`, `expand`

`under d x q` enumerates the subtree of `x` (at path `q`) in pre-order down to `d` levels (`d < 0`: all levels). -/

/-- The enumeration of the subtree at an enumerated path is an order-preserving part of the tree's enumeration. -/
theorem subtree_enumeration (t : Entry) (q : Path) (x : Entry) (hq : (q, x) ∈ pathfy t [⟨t.name, none⟩]) :
    (pathfy x q).Sublist (pathfy t [⟨t.name, none⟩]) :=
  subtree_sublist t _ q x hq

/-- `EntryCache.group_by(via, depth)` for every non-zero depth: the subtree at `via` in pre-order, cut `depth` levels
    below `via`; the fuel of the model always suffices (no `RecursionError`). -/
theorem groupBy_depth (t : Entry) (h : WfTags t) (q : Path) (x : Entry)
    (hq : (q, x) ∈ pathfy t [⟨t.name, none⟩]) (d : Int) (hd : d ≠ 0) :
    (mkCache t).groupByAll (encodePath q) d = .ok ((under d x q).map (fun pe => (encodePath pe.1, pe.2))) :=
  groupByAll_mkCache t h q x hq d hd

/-- `group_by(via)` with the default unbounded depth is the whole pre-order enumeration of the subtree at `via`. -/
theorem groupBy_unbounded (t : Entry) (h : WfTags t) (q : Path) (x : Entry)
    (hq : (q, x) ∈ pathfy t [⟨t.name, none⟩]) (d : Int) (hd : d < 0) :
    (mkCache t).groupByAll (encodePath q) d = .ok ((pathfy x q).map (fun pe => (encodePath pe.1, pe.2))) := by
  rw [← under_neg d hd]; exact groupByAll_mkCache t h q x hq d (by omega)

/-- `group_by(via, 0)` is empty. -/
theorem groupBy_zero (t : Entry) (h : WfTags t) (q : Path) (x : Entry)
    (hq : (q, x) ∈ pathfy t [⟨t.name, none⟩]) : (mkCache t).groupByAll (encodePath q) 0 = .ok [] :=
  groupByAll_zero t h q x hq

/-- `Nodes.values(via)`: the non-empty token values of the subtree at `via`, in document order. -/
theorem values_document_order (t : Entry) (h : WfTags t) (w : World) (hw : w.cache = mkCache t)
    (q : Path) (x : Entry) (hq : (q, x) ∈ pathfy t [⟨t.name, none⟩]) :
    valuesOf w (encodePath q) = .ok (((pathfy x q).map (fun pe => pe.2.value)).filter (fun v => !v.isEmpty)) :=
  valuesOf_mkCache t h w hw q x hq

example : (valuesOf sampleWorld ['r']).toOption = some [['x']] ∧
    ((mkCache sample).groupByAll ['r'] 1).toOption.map (·.map (·.1)) =
      some [['r'], ['r', '.', 'a', '[', '0', ']'], "r.__empty__".toList, ['r', '.', 'a', '[', '2', ']']] := by
  decide +kernel

/-- `Nodes.expand(via)` (paths before resolution) characterised on the tree: under the decidable string-level side
    condition `RelativefySafe`, for each child subtree of `via` — three levels deep — the entry itself when its tag is
    resolvable or it is a terminal, else the same for its children (`expandOf`). Since the repair 8ae8ddc
    (`path.startswith(f'{cached}.')`) no condition on sibling tags is needed. -/
theorem expand_spec (t : Entry) (h : WfTags t) (w : World) (hw : w.cache = mkCache t)
    (q : Path) (x : Entry) (hq : (q, x) ∈ pathfy t [⟨t.name, none⟩])
    (hrel : RelativefySafe q x) :
    expandPaths w (encodePath q) = .ok ((expandOf w.table.canResolve 3 x q).map encodePath) :=
  expandPaths_mkCache t h w hw q x hq hrel

/-- … and when, in addition, nothing expandable lies deeper than three levels (`expandOf … 3 = expandFullOf`, decidable),
    the result is the uncapped "nearest resolvable descendants + terminals without a resolvable ancestor". -/
theorem expand_spec_full (t : Entry) (h : WfTags t) (w : World) (hw : w.cache = mkCache t)
    (q : Path) (x : Entry) (hq : (q, x) ∈ pathfy t [⟨t.name, none⟩])
    (hrel : RelativefySafe q x)
    (hdepth : expandOf w.table.canResolve 3 x q = expandFullOf w.table.canResolve x q) :
    expandPaths w (encodePath q) = .ok ((expandFullOf w.table.canResolve x q).map encodePath) := by
  rw [← hdepth]; exact expand_spec t h w hw q x hq hrel

example : RelativefySafe [⟨['r'], none⟩] sample ∧
    (expandPaths sampleWorld ['r']).toOption =
      some [['r', '.', 'a', '[', '0', ']'], "r.__empty__".toList, ['r', '.', 'a', '[', '2', ']']] := by
  decide +kernel

/-- world over a tree in which exactly the given tags are resolvable -/
def worldOf (t : Entry) (resolvable : List Str) : World :=
  { root := t, cache := mkCache t,
    table := { ctors := resolvable.map (fun s => (s, [⟨['K'], .always⟩])), fallback := some ⟨['T'], .always⟩ } }

/-- regression witness of the repaired defect (fixed in 8ae8ddc): siblings `list` (resolvable) and `list_comp`; the
    delimiter-less `'r.list_comp'.startswith('r.list')` used to drop the sibling. -/
def prefixWitness : Entry :=
  .tree ['r'] [.tree "list".toList [.token ['x'] ['a']], .token "list_comp".toList ['b']]

example : (expandPaths (worldOf prefixWitness ["list".toList]) ['r']).toOption
      = some ["r.list".toList, "r.list_comp".toList] ∧
    (expandOf (worldOf prefixWitness ["list".toList]).table.canResolve 3 prefixWitness [⟨['r'], none⟩]).map encodePath
      = ["r.list".toList, "r.list_comp".toList] ∧
    RelativefySafe [⟨['r'], none⟩] prefixWitness := by
  decide +kernel

/-! ### the two remaining ways `expand` departs from the tree (latent: synthetic tag sets only; replayed on the real
`Nodes` by the search) -/

/-- `expand_spec` without `RelativefySafe`. -/
def expand_norelativefy_statement : Prop :=
  ∀ (t : Entry) (w : World) (q : Path) (x : Entry), WfTags t → w.cache = mkCache t →
    (q, x) ∈ pathfy t [⟨t.name, none⟩] →
    expandPaths w (encodePath q) = .ok ((expandOf w.table.canResolve 3 x q).map encodePath)

/-- `via = r`, terminal `r.ar.t`, tag `a` resolvable: `'r.ar.t'.split('r')[1]` is `'.a'`, so the terminal seems to lie
    under a resolvable `a` and is dropped. -/
def relativefyWitness : Entry := .tree ['r'] [.tree ['a', 'r'] [.token ['t'] ['v']]]

theorem expand_relativefy_counterexample : ¬ expand_norelativefy_statement := by
  intro hs
  have := hs relativefyWitness (worldOf relativefyWitness [['a']]) [⟨['r'], none⟩] relativefyWitness
    (by decide +kernel) rfl (by decide +kernel)
  have := congrArg Except.toOption this
  revert this
  decide +kernel

/-- "three levels are enough": `expand_spec_full` without its depth hypothesis. -/
def expand_depth3_statement : Prop :=
  ∀ (t : Entry) (w : World) (q : Path) (x : Entry), WfTags t → w.cache = mkCache t →
    (q, x) ∈ pathfy t [⟨t.name, none⟩] → RelativefySafe q x →
    expandPaths w (encodePath q) = .ok ((expandFullOf w.table.canResolve x q).map encodePath)

/-- a resolvable `d` four levels below `r` with only unresolvable tree entries in between is missed -/
def depthWitness : Entry := .tree ['r'] [.tree ['a'] [.tree ['b'] [.tree ['c'] [.token ['d'] ['v']]]]]

theorem expand_depth3_counterexample : ¬ expand_depth3_statement := by
  intro hs
  have := hs depthWitness (worldOf depthWitness [['d']]) [⟨['r'], none⟩] depthWitness
    (by decide +kernel) rfl (by decide +kernel) (by decide +kernel)
  have := congrArg Except.toOption this
  revert this
  decide +kernel

example : (expandPaths (worldOf depthWitness [['d']]) ['r']).toOption = some [] ∧
    (expandFullOf (worldOf depthWitness [['d']]).table.canResolve depthWitness [⟨['r'], none⟩]).map encodePath
      = ["r.a.b.c.d".toList] := by
  decide +kernel

/-! ## the query memo of `Nodes` is transparent

`memoKey` is GENERATED from the f-string keys of `query.py` on every run (`Tranp/Generated/NodesMemo.lean`); `runQuery` is
`Memoize.get` around the memo-free `evalQuery`, `NState` the instance cache plus the memo of one `Nodes` instance. -/

/-- Resolving a list of paths (what `children` / `siblings` / `expand` do with their result) gives the same classes from
    every reachable instance cache as from the empty one. -/
theorem resolve_list_order (w : World) (insts : List (Str × Str)) (hr : Reachable w insts) (ps : List Str) :
    (resolvePaths w insts ps).1 = (resolvePaths w [] ps).1 :=
  (resolvePaths_pure w ps insts (reachable_ok w insts hr)).1

/-- The generated memo keys determine the query: two queries filed under the same key are the same query (for
    `ancestor.{via}#{tag}` provided `via` is free of `#`, see `memo_key_counterexample`). A query memoised under another
    query's key — e.g. `siblings` under `children.{via}` — makes this fail to check. -/
theorem memo_keys_injective (q1 q2 : Query) (k : Str) (h1 : memoKey q1 = some k) (h2 : memoKey q2 = some k)
    (s1 : q1.keySafe) (s2 : q2.keySafe) : q1 = q2 :=
  memoKey_inj q1 q2 k h1 h2 s1 s2

example : memoKey (.children ['r']) = some "children.r".toList ∧ memoKey (.siblings ['r']) = none ∧
    memoKey (.ancestor ['r'] ['t']) = some "ancestor.r#t".toList ∧ (Query.ancestor ['r'] ['t']).keySafe := by
  decide +kernel

/-- Memo transparency: on one `Nodes` instance, after ANY history of queries (memoised or not, failing or not), every
    query returns exactly what the memo-free evaluation on a fresh resolver returns — for every world. -/
theorem memo_transparent (w : World) (hs : List Query) (q : Query)
    (hsafe : ∀ q' ∈ hs, q'.keySafe) (hq : q.keySafe) :
    (runQuery w (runQueriesM w {} hs) q).2 = evalPure w q :=
  (runQuery_spec w _ q (runQueriesM_ok w {} hs (memoOk_init w) hsafe) hq).1

example :
    let hs : List Query := [.children ['r'], .siblings "r.a[2].b".toList, .parent "r.a[2].b".toList, .children ['r'],
      .ancestor "r.a[2].b".toList ['z'], .expand ['r'], .values ['r']]
    (∀ q' ∈ hs, q'.keySafe) ∧
    ((runQuery (worldOf sample [['a']]) (runQueriesM (worldOf sample [['a']]) {} hs) (.children ['r'])).2.toOption).isSome = true ∧
    (runQueriesM (worldOf sample [['a']]) {} hs).memo.length = 5 := by
  decide +kernel

/-- `memo_transparent` without the side condition on `#`. -/
def memo_transparent_unconditional_statement : Prop :=
  ∀ (w : World) (hs : List Query) (q : Query), (runQuery w (runQueriesM w {} hs) q).2 = evalPure w q

/-- tags `a` and `a#b`: `ancestor('r.a', 'b#r')` (fails: no such tag) and `ancestor('r.a#b', 'r')` share the key
    `ancestor.r.a#b#r`; the slot keeps the first factory, so the second query fails too instead of returning `r`.
    Latent: no lark rule or terminal name contains `#`. -/
def memoKeyWitness : Entry := .tree ['r'] [.token ['a'] ['1'], .token ['a', '#', 'b'] ['2']]

theorem memo_key_counterexample : ¬ memo_transparent_unconditional_statement := by
  intro hs
  have := hs (worldOf memoKeyWitness [['r']]) [.ancestor "r.a".toList "b#r".toList] (.ancestor "r.a#b".toList ['r'])
  have := congrArg Except.toOption this
  revert this
  decide +kernel

example : (evalPure (worldOf memoKeyWitness [['r']]) (.ancestor "r.a#b".toList ['r'])).toOption
    = some (.nodes [(['r'], ['K'])]) := by
  decide +kernel

/-! ## the `EntryPath` algebra on encoded paths

`EP.*` are `EntryPath.identify / first / last / shift / joined / parent_tag / contains / consists_of_only` on strings; on the
encoding of a well-formed element path each is the corresponding list operation. -/

/-- `identify` then `last` (`__break_tag`) gives tag and index back — for EVERY index, of any number of digits. -/
theorem break_tag_join (p : Path) (tag : Str) (i : Nat) (hp : WfPath p) (ht : WfTag tag) :
    EP.last (EP.identify (encodePath p) tag (i : Int)) = .ok (tag, (i : Int)) := by
  rw [EP.identify_encode p tag i hp ht]
  exact EP.last_encode p ⟨tag, some i⟩ (wfPath_snoc p _ hp ht)

example : (EP.last (EP.identify ['r'] ['a'] 1207)).toOption = some (['a'], 1207) := by decide +kernel

/-- `first` / `last`: tag and index (`-1` = none) of the first / last element. -/
theorem path_first_last (a : Elem) (p : Path) (b : Elem) (hp : WfPath (a :: p ++ [b])) :
    EP.first (encodePath (a :: p ++ [b])) = .ok (a.tag, a.idxInt) ∧
    EP.last (encodePath (a :: p ++ [b])) = .ok (b.tag, b.idxInt) :=
  ⟨EP.first_encode a (p ++ [b]) hp, EP.last_encode (a :: p) b hp⟩

/-- `shift(k)` drops `k` leading elements, `shift(-k)` the last `k` (clamped like a Python slice). -/
theorem path_shift (p : Path) (hp : WfPath p) (k : Nat) :
    EP.shift (encodePath p) (k : Int) = encodePath (p.drop k) ∧
    EP.shift (encodePath p) (-((k + 1 : Nat) : Int)) = encodePath (p.take (p.length - (k + 1))) :=
  ⟨EP.shift_encode_pos p hp k, EP.shift_encode_neg p hp k⟩

/-- `joined` concatenates element lists. -/
theorem path_joined (p r : Path) (hp : WfPath p) (hr : WfPath r) :
    EP.joined (encodePath p) (encodePath r) = encodePath (p ++ r) :=
  EP.joined_encode p r hp hr

/-- `parent_tag` is the tag of the last but one element. -/
theorem path_parent_tag (p : Path) (a b : Elem) (hp : WfPath (p ++ [a, b])) :
    EP.parentTag (encodePath (p ++ [a, b])) = .ok a.tag :=
  EP.parentTag_encode p a b hp

/-- `contains(tag)` / `consists_of_only(*tags)` speak about the tags of the elements (indices ignored). -/
theorem path_contains (p : Path) (hp : WfPath p) (t : Str) (ts : List Str) :
    (EP.contains (encodePath p) t = true ↔ ∃ el ∈ p, el.tag = t) ∧
    (EP.consistsOfOnly (encodePath p) ts = true ↔ ∀ el ∈ p, el.tag ∈ ts) :=
  ⟨EP.contains_encode p hp t, EP.consistsOfOnly_encode p hp ts⟩

example : WfPath [⟨['r'], none⟩, ⟨['a'], some 12⟩, ⟨['b'], none⟩] ∧
    EP.shift "r.a[12].b".toList (-1) = "r.a[12]".toList ∧ EP.shift "r.a[12].b".toList 2 = ['b'] ∧
    EP.contains "r.a[12].b".toList ['a'] = true ∧ (EP.parentTag "r.a[12].b".toList).toOption = some ['a'] := by
  refine ⟨?_, by decide +kernel⟩
  intro el hel
  simp at hel
  rcases hel with rfl | rfl | rfl <;> decide

/-! ## `relativefy` is exact on the real tag alphabet — the side condition of `expand_spec` discharged

`RootNameFree t` (decidable, tag level): the root's tag has a non-digit character and is not a substring of the tag of any
entry below the root. `Generated.TagAlphabet` is the tag alphabet of `data/grammar.lark` as lark compiles it, regenerated
on every run. -/

/-- `DSN.relativefy` / `EntryPath.relativefy` (`origin.split(starts)[1]`) return the true relative path whenever the string
    `starts` does not occur again to its right. -/
theorem relativefy_exact (q r : Path) (hq : WfPath q) (hr : WfPath r) (hqn : q ≠ []) (hrn : r ≠ [])
    (hocc : occursB (encodePath q) ('.' :: encodePath r) = false) :
    EP.relativefy (encodePath (q ++ r)) (encodePath q) = .ok (encodePath r) :=
  EP.relativefy_encode q r hq hr hqn hrn hocc

example : (EP.relativefy "r.a[12].b".toList "r.a[12]".toList).toOption = some ['b'] ∧
    occursB "r.a[12]".toList ".b".toList = false ∧
    (EP.relativefy "r.ar.t".toList ['r']).toOption = some ['a'] ∧ occursB ['r'] ".ar.t".toList = true := by
  decide +kernel

/-- The tag-level condition implies the string-level one, at every path of the tree. -/
theorem relativefy_safe_of_root_name (t : Entry) (h : WfTags t) (hfree : RootNameFree t)
    (q : Path) (x : Entry) (hq : (q, x) ∈ pathfy t [⟨t.name, none⟩]) : RelativefySafe q x :=
  relativefySafe_of_rootNameFree t h hfree q x hq

example : RootNameFree sample ∧ ¬ RootNameFree relativefyWitness := by decide +kernel

/-- Decided over the generated alphabet: `file_input` has a non-digit character and occurs inside no rule name, alias or
    terminal name of the grammar (nor inside `__empty__`). -/
theorem grammar_root_name_free :
    Generated.TagAlphabet.startTag.any (fun c => (Str.decVal c).isNone) = true ∧
    ∀ g ∈ Generated.TagAlphabet.belowTags, occursB Generated.TagAlphabet.startTag g = false := by
  decide +kernel

/-- `expand_spec` for every parse tree of the shipped grammar, with no string-level hypothesis left: a tree whose root is
    the start symbol and whose other entries carry names of the generated alphabet. -/
theorem expand_spec_grammar (t : Entry) (h : WfTags t) (hroot : t.name = Generated.TagAlphabet.startTag)
    (halpha : namesInListB Generated.TagAlphabet.belowTags t.children = true)
    (w : World) (hw : w.cache = mkCache t) (q : Path) (x : Entry) (hq : (q, x) ∈ pathfy t [⟨t.name, none⟩]) :
    expandPaths w (encodePath q) = .ok ((expandOf w.table.canResolve 3 x q).map encodePath) :=
  expand_spec t h w hw q x hq
    (relativefySafe_of_rootNameFree t h
      (rootNameFree_of_alphabet t _ _ hroot grammar_root_name_free.1 grammar_root_name_free.2 halpha) q x hq)

/-- a small tree over the real alphabet -/
def grammarSample : Entry :=
  .tree "file_input".toList [.tree "assign".toList [.token "name".toList ['x'], .tree "list".toList
    [.tree "list".toList [.token "number".toList ['1']], .tree "list_comp".toList [.token "name".toList ['y']]]]]

example : WfTags grammarSample ∧ grammarSample.name = Generated.TagAlphabet.startTag ∧
    namesInListB Generated.TagAlphabet.belowTags grammarSample.children = true ∧
    (expandPaths (worldOf grammarSample ["list".toList, "list_comp".toList]) "file_input.assign.list".toList).toOption
      = some ["file_input.assign.list.list".toList, "file_input.assign.list.list_comp".toList] := by
  decide +kernel

/-! ## the lookup rule on paths `full_pathfy` does not produce: no index = the LAST child with the tag

`lastIdxWithTag tag cs` is the position of the last child of `cs` carrying `tag`. -/

/-- Dropping the index of one element of a path (any position, any tree): the element then addresses the last child with
    that tag — `pluck` of the de-indexed path is `pluck` of the path indexed with that child's position, and finds nothing
    when no child carries the tag. -/
theorem pluck_deindexed (p q : Path) (tag : Str) (t e : Entry) (hp : pluckRel p t = some e) :
    pluckRel (p ++ ⟨tag, none⟩ :: q) t
      = (lastIdxWithTag tag e.children).bind (fun j => pluckRel (p ++ ⟨tag, some j⟩ :: q) t) :=
  pluckRel_deindexed p q tag t e hp

/-- The same on the strings `ASTFinder.pluck` receives (any first element stands for the root): when the path indexed with
    the last `tag` child below `p` leads to `x`, so does the path with that index dropped. -/
theorem pluckS_deindexed (t : Entry) (h : WfTags t) (a : Elem) (p q : Path) (tag : Str) (e x : Entry) (j : Nat)
    (hw : WfPath (a :: p ++ ⟨tag, none⟩ :: q)) (hp : pluckRel p t = some e)
    (hj : lastIdxWithTag tag e.children = some j) (hx : pluckRel (p ++ ⟨tag, some j⟩ :: q) t = some x) :
    pluckS t (encodePath (a :: p ++ ⟨tag, none⟩ :: q)) = .ok x := by
  apply pluckS_encode t h a (p ++ ⟨tag, none⟩ :: q) x hw (by simp)
  rw [pluckRel_deindexed p q tag t e hp, hj]
  exact hx

/-- `sample` has two `a` children (positions 0 and 2): `r.a` is `r.a[2]`, `r.a.b` is `r.a[2].b`; `r.c` is nothing -/
example : lastIdxWithTag ['a'] sample.children = some 2 ∧
    (pluckS sample "r.a".toList).toOption = (pluckS sample "r.a[2]".toList).toOption ∧
    (pluckS sample "r.a.b".toList).toOption = some (.token ['b'] ['x']) ∧
    (pluckS sample "r.a[0]".toList).toOption = some (.token ['a'] []) ∧
    (pluckS sample "r.c".toList).toOption = none ∧ lastIdxWithTag ['c'] sample.children = none := by
  decide +kernel

/-! ## `ASTFinder.find` / `exists`: a search below any base path reports full paths of the whole tree

`findS` is `ASTFinder.find(root, via, tester, depth)`: `pluck` at `via`, then `full_pathfy(entry, via, depth)` — the
enumeration continues the base path `via` itself (index of its last element included) — filtered by `tester(entry, path)`. -/

/-- `find` from any enumerated base path: the pre-order enumeration of the subtree there, cut `depth` levels below it
    (never, when `depth < 0`; at the base entry itself when `depth = 0`), with the keys the whole tree gives those entries,
    filtered — every tester, every depth. -/
theorem find_spec (t : Entry) (h : WfTags t) (q : Path) (x : Entry) (hq : (q, x) ∈ pathfy t [⟨t.name, none⟩])
    (tester : Entry → Str → Bool) (d : Int) :
    findS t (encodePath q) tester d
      = .ok (((under d x q).map (fun pe => (encodePath pe.1, pe.2))).filter (fun kv => tester kv.2 kv.1)) :=
  findS_spec t h q x hq tester d

/-- Every `(path, entry)` pair `find` reports is a pair of `full_pathfy(root)`, looking the path up returns that very
    entry, and the tester accepted it. -/
theorem find_sound (t : Entry) (h : WfTags t) (q : Path) (x : Entry) (hq : (q, x) ∈ pathfy t [⟨t.name, none⟩])
    (tester : Entry → Str → Bool) (d : Int) (l : List (Str × Entry)) (hl : findS t (encodePath q) tester d = .ok l) :
    ∀ s e, (s, e) ∈ l → (s, e) ∈ fullPathfy t ∧ pluckS t s = .ok e ∧ tester e s = true :=
  findS_sound t h q x hq tester d l hl

/-- With the default unbounded depth nothing at or below the base path is left out: the result is the whole enumeration
    of the subtree (an order-preserving part of the tree's own, `subtree_enumeration`), filtered. -/
theorem find_complete (t : Entry) (h : WfTags t) (q : Path) (x : Entry) (hq : (q, x) ∈ pathfy t [⟨t.name, none⟩])
    (tester : Entry → Str → Bool) (d : Int) (hd : d < 0) :
    findS t (encodePath q) tester d
      = .ok (((pathfy x q).map (fun pe => (encodePath pe.1, pe.2))).filter (fun kv => tester kv.2 kv.1)) := by
  rw [← under_neg d hd]; exact findS_spec t h q x hq tester d

/-- `ASTFinder.find` and `EntryCache.group_by` agree: for every non-zero depth the unfiltered search below `via` is the
    dict `group_by(via, depth)` of the cache `Nodes.__init__` builds (same keys, same order, same entries). -/
theorem find_agrees_group_by (t : Entry) (h : WfTags t) (q : Path) (x : Entry) (hq : (q, x) ∈ pathfy t [⟨t.name, none⟩])
    (d : Int) (hd : d ≠ 0) :
    findS t (encodePath q) (fun _ _ => true) d = (mkCache t).groupByAll (encodePath q) d := by
  rw [groupBy_depth t h q x hq d hd, find_spec t h q x hq]
  simp

/-- `ASTFinder.exists` answers `True` on every path of `full_pathfy(root)`. -/
theorem finder_exists (t : Entry) (h : WfTags t) (s : Str) (e : Entry) (hm : (s, e) ∈ fullPathfy t) :
    finderExists t s = .ok true :=
  finderExists_of_mem t h s e hm

/-- a base path whose last element is indexed (`r.a[2]`): the reported keys keep the index; depth 1 stops at the children;
    a path outside the tree is `Errors.NodeNotFound` for `find` and `False` for `exists` -/
example : (findS sample "r.a[2]".toList (fun _ _ => true) (-1)).toOption = some
      [("r.a[2]".toList, .tree ['a'] [.token ['b'] ['x'], .empty, .empty]), ("r.a[2].b".toList, .token ['b'] ['x']),
       ("r.a[2].__empty__[1]".toList, .empty), ("r.a[2].__empty__[2]".toList, .empty)] ∧
    ((findS sample ['r'] (fun e _ => !e.hasChild) 1).toOption.map (·.map (·.1)))
      = some ["r.a[0]".toList, "r.__empty__".toList] ∧
    ((findS sample ['r'] (fun _ _ => true) 0).toOption.map (·.length)) = some 1 ∧
    (findS sample "r.b".toList (fun _ _ => true) (-1)).toOption = none ∧
    (finderExists sample "r.b".toList).toOption = some false ∧ (finderExists sample "r.a[2].b".toList).toOption = some true := by
  decide +kernel

/-! ## three levels suffice on the real grammar — the depth hypothesis of `expand_spec_full` discharged

`Nodes.expand` looks three levels below `via` (`group_by(via, depth=3)`, query.py). `uheight canRes e` counts the unresolvable
tree entries nested directly inside one another from `e` downwards (with a further entry below the last).
`Generated.GrammarChildren` (regenerated on every run from lark's compiled rules and `symbol_mapping()`) lists which names
can sit directly below which tree tag, and the resolvable tags; `conformsB` says a tree respects that table (checked by
the harness on every parse tree it sees). -/

/-- Three levels are all levels whenever no child of the entry starts three nested unresolvable levels — any tree, any
    resolvable-tag set. -/
theorem expand_depth_bounded (canRes : Str → Bool) (x : Entry) (q : Path)
    (h : ∀ c ∈ x.children, uheight canRes c ≤ 2) :
    expandOf canRes 3 x q = expandFullOf canRes x q :=
  expandOf_three_eq_full canRes x q h

example : (∀ c ∈ sample.children, uheight sampleWorld.table.canResolve c ≤ 2) ∧
    ¬ (∀ c ∈ depthWitness.children, uheight (worldOf depthWitness [['d']]).table.canResolve c ≤ 2) := by
  decide +kernel

/-- A tree that conforms to a child relation without three directly nested unresolvable tags (above a further entry) has at
    most two nested unresolvable levels at every entry — any relation, any resolvable-tag set. -/
theorem conforming_depth (rel : Str → Str → Bool) (canRes : Str → Bool) (hcf : ChainFree rel canRes)
    (e : Entry) (he : conformsB rel e = true) : uheight canRes e ≤ 2 :=
  uheight_le_two rel canRes hcf e he

/-- the hypothesis of `conforming_depth` holds of the shipped tables (through `grammar_chain_free` below) and is not
    trivial: the relation `a > b > c > d` with nothing resolvable is refused -/
example : chainFreeB [(['a'], [['b']]), (['b'], [['c']]), (['c'], [['d']])] (fun _ => false) = false ∧
    chainFreeB [(['a'], [['b']]), (['b'], [['c']]), (['c'], [['d']])] (fun s => s == ['b']) = true ∧
    chainFreeB [(['a'], [['b']]), (['b'], [['c']]), (['c'], [])] (fun _ => false) = true := by
  decide +kernel

/-- Decided over the generated tables: among the tree tags of `data/grammar.lark` as lark builds them, no three tags without
    a node class in `symbol_mapping()` can be nested directly inside one another above a further entry (today the longest such
    nestings have two: `class_def_raw > template_params`, `function_def_raw > parameters`, …). -/
theorem grammar_chain_free :
    chainFreeB Generated.GrammarChildren.kids (fun s => Generated.GrammarChildren.resolvable.contains s) = true := by
  decide +kernel

example : ChainFree (relOf Generated.GrammarChildren.kids) (fun s => Generated.GrammarChildren.resolvable.contains s) :=
  chainFree_of_chainFreeB _ _ grammar_chain_free

/-- `expand_spec_full` for every parse tree of the shipped grammar under the shipped symbol mapping, with neither the
    string-level nor the depth hypothesis left: `Nodes.expand(via)` (paths before resolution) is exactly the nearest
    resolvable descendants plus the terminals without a resolvable ancestor below `via`, at every entry path. -/
theorem expand_spec_full_grammar (t : Entry) (h : WfTags t) (hroot : t.name = Generated.TagAlphabet.startTag)
    (halpha : namesInListB Generated.TagAlphabet.belowTags t.children = true)
    (hconf : conformsB (relOf Generated.GrammarChildren.kids) t = true)
    (w : World) (hw : w.cache = mkCache t)
    (hres : ∀ s ∈ Generated.GrammarChildren.resolvable, w.table.canResolve s = true)
    (q : Path) (x : Entry) (hq : (q, x) ∈ pathfy t [⟨t.name, none⟩]) :
    expandPaths w (encodePath q) = .ok ((expandFullOf w.table.canResolve x q).map encodePath) := by
  have hcf : ChainFree (relOf Generated.GrammarChildren.kids) w.table.canResolve :=
    ChainFree.mono _ _ _ (chainFree_of_chainFreeB _ _ grammar_chain_free)
      (fun s hs => hres s (by simpa using hs))
  have hx : conformsB (relOf Generated.GrammarChildren.kids) x = true := conforms_of_mem _ t _ hconf q x hq
  have hdepth : expandOf w.table.canResolve 3 x q = expandFullOf w.table.canResolve x q := by
    apply expandOf_three_eq_full
    intro c hc
    apply uheight_le_two _ _ hcf
    cases x with
    | tree tg cs =>
      simp only [conformsB] at hx
      exact ((conformsListB_iff _ tg cs).1 hx c hc).2
    | token tg v => simp [Entry.children] at hc
    | empty => simp [Entry.children] at hc
  rw [← hdepth]
  exact expand_spec_grammar t h hroot halpha w hw q x hq

/-- the parse tree of `class A[T](B, metaclass=M): ...` as tranp's parser builds it -/
def classSample : Entry :=
  .tree "file_input".toList [.tree "class_def".toList [.empty, .tree "class_def_raw".toList [
    .tree "name".toList [.token "NAME".toList ['A']],
    .tree "template_params".toList [.tree "template_assign".toList
      [.tree "assign_namelist".toList [.tree "var".toList [.tree "name".toList [.token "NAME".toList ['T']]]], .empty]],
    .tree "inherit_arguments".toList [.tree "typed_argvalue".toList [.tree "typed_var".toList [.tree "name".toList [.token "NAME".toList ['B']]]]],
    .tree "metaclass_argvalue".toList [.tree "typed_var".toList [.tree "name".toList [.token "NAME".toList ['M']]]],
    .tree "block".toList [.tree "elipsis".toList []]]]]

/-- the shipped resolvable tags as a world over a tree -/
def grammarWorld (t : Entry) : World := worldOf t Generated.GrammarChildren.resolvable

/-- the hypotheses hold of a real parse tree, and its third level is needed: `class_def > class_def_raw > template_params >
    template_assign` — two levels would miss `template_assign` and the `typed_argvalue` / `typed_var` of the heritage. -/
example : WfTags classSample ∧ classSample.name = Generated.TagAlphabet.startTag ∧
    namesInListB Generated.TagAlphabet.belowTags classSample.children = true ∧
    conformsB (relOf Generated.GrammarChildren.kids) classSample = true ∧
    (∀ s ∈ Generated.GrammarChildren.resolvable, (grammarWorld classSample).table.canResolve s = true) ∧
    (expandPaths (grammarWorld classSample) "file_input.class_def".toList).toOption
      = some ["file_input.class_def.__empty__".toList, "file_input.class_def.class_def_raw.name".toList,
          "file_input.class_def.class_def_raw.template_params.template_assign".toList,
          "file_input.class_def.class_def_raw.inherit_arguments.typed_argvalue".toList,
          "file_input.class_def.class_def_raw.metaclass_argvalue.typed_var".toList,
          "file_input.class_def.class_def_raw.block".toList] ∧
    (expandOf (grammarWorld classSample).table.canResolve 2 (classSample.children.head!) [⟨"file_input".toList, none⟩, ⟨"class_def".toList, none⟩]).length = 3 := by
  decide +kernel

/-! ## the remaining `DSN` functions (`left`, `right`, `shift`, `root`, `parent`) act on the element list

`pySliceTo l k` / `pySliceFrom l k` are Python's `l[:k]` / `l[k:]` for any integer `k`. -/

/-- `DSN.left(path, k)` keeps `elements[:k]`, `DSN.right(path, k)` keeps `elements[-k:]` (everything for `k = 0`), on every
    encoded path and every integer `k`. -/
theorem dsn_left_right (p : Path) (hp : WfPath p) (k : Int) :
    dsnLeft (encodePath p) k = encodePath (pySliceTo p k) ∧ dsnRight (encodePath p) k = encodePath (pySliceFrom p (-k)) :=
  ⟨dsnLeft_encode p hp k, dsnRight_encode p hp k⟩

/-- `DSN.shift(path, k)`: `elements[k:]` for `k > 0`, `elements[:k]` for `k < 0`, the path itself for `k = 0`. -/
theorem dsn_shift (p : Path) (hp : WfPath p) (k : Int) :
    dsnShift (encodePath p) k = encodePath (if k > 0 then pySliceFrom p k else if k < 0 then pySliceTo p k else p) :=
  dsnShift_encode p hp k

/-- `DSN.root` is the first element, `DSN.parent` the last but one. -/
theorem dsn_root_parent (a : Elem) (p : Path) (b c : Elem) (hp : WfPath (a :: p)) (hq : WfPath (p ++ [b, c])) :
    dsnRoot (encodePath (a :: p)) = .ok (encodeElem a) ∧ dsnParent (encodePath (p ++ [b, c])) = .ok (encodeElem b) :=
  ⟨dsnRoot_encode a p hp, dsnParent_encode p b c hq⟩

example : dsnLeft "r.a[12].b".toList 2 = "r.a[12]".toList ∧ dsnLeft "r.a[12].b".toList (-1) = "r.a[12]".toList ∧
    dsnRight "r.a[12].b".toList 1 = ['b'] ∧ dsnRight "r.a[12].b".toList 0 = "r.a[12].b".toList ∧
    dsnRight "r.a[12].b".toList (-1) = "a[12].b".toList ∧ dsnShift "r.a[12].b".toList (-2) = ['r'] ∧
    (dsnRoot "r.a[12].b".toList).toOption = some ['r'] ∧ (dsnParent "r.a[12].b".toList).toOption = some "a[12]".toList ∧
    (dsnParent ['r']).toOption = none ∧ (dsnLeftBy "::".toList "a::b:::c".toList 2).toOption = some "a::b".toList := by
  decide +kernel

/-- `EntryPath.valid` of an encoded path: it has at least one element. -/
theorem path_valid (p : Path) (hp : WfPath p) : EP.valid (encodePath p) = !p.isEmpty :=
  EP.valid_encode p hp

/-- `EntryPath.escaped_origin` loses nothing: dropping the backslashes gives the path back (for paths free of `\`). -/
theorem path_escaped (s : Str) (h : '\\' ∉ s) : unescape (EP.escaped s) = s :=
  EP.unescape_escaped s h

example : EP.escaped "r.a[1]".toList = ['r', '\\', '.', 'a', '\\', '[', '1', '\\', ']'] ∧ EP.valid [] = false := by
  decide +kernel

end Tranp.C10
