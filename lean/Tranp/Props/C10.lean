/-
  Property C10 — Tree addressing is a bijection and node resolution is order-independent.
  Property theorems only; helper lemmas live in Tranp/Lemmas/AstPath.lean.
-/
import Tranp.Lemmas.AstPath

namespace Tranp.C10
open Tranp Tranp.AstPath

/-- Looking a path of `full_pathfy` up returns that very entry — for every tree (repeated, unique and empty tags). -/
theorem pluck_pathfy (t : Entry) (p : Path) (e : Entry) (h : (p, e) ∈ pathfy t []) :
    pluckRel p t = some e := by
  obtain ⟨r, hq, hr⟩ := pathfy_sound t [] p e h
  simp at hq; subst hq; exact hr

/-- non-vacuity: a tree with repeated, unique and empty child tags has 5 addressed entries -/
example :
    let t : Entry := .tree ['r'] [.token ['a'] [], .empty, .tree ['a'] [.token ['b'] ['x']]]
    ((pathfy t []).length == 5 && (pathfy t []).all (fun pe => pluckRel pe.1 t == some pe.2)) = true := by
  decide +kernel

end Tranp.C10
