/-
  Property C08 — Consistent renaming of user identifiers commutes with transpilation.
  Property theorems only; helper lemmas live in Tranp/Lemmas/Scope.lean (abstract layer) and Tranp/Lemmas/ScopeStr.lean
  (string layer).

  Part 1 (`equivariant_*`): on the abstract layer (names are an abstract type) every function of name resolution commutes
  with every INJECTIVE renaming `r` of the names: resolution is a function of the binding structure only. Words that the
  code itself supplies (`object`, `int`, `None`, … in `by_standard`) must be fixed by `r` — the "reserved names" clause.

  Part 2 (`string_refines_*`): the functions the Python really runs work on the joined strings `module#a.b.c`. When every
  name is a non-empty string without `.` and `#` (every Python identifier, and tranp's own scope words such as `if@115`) the
  string layer computes exactly the encoding of the abstract layer — every function uses delimiter-aware operations
  (`DSN.join`, `split('#')`, `split('.')`, `ModuleDSN.expanded`), and the one string-LENGTH comparison (`__allow_scope`) is
  safe in the only context it is used in.  `VarsCollector._merged` used a bare `startswith` until 526fc7c (refuted then by the
  witnesses `for@10`/`for@107` and `ab`/`abc`); the repaired element-wise test is proved to refine (`string_refines_merging`).
-/
import Tranp.Lemmas.Scope
import Tranp.Lemmas.ScopeStr

namespace Tranp.C08
open Tranp Tranp.Scope

/-! ## Part 1: equivariance (abstract layer) -/

section
variable {M N N' : Type} [DecidableEq M] [DecidableEq N] [DecidableEq N']

/-- Symbol lookup (`SymbolFinder.find_by_symbolic`: scope walk inner to outer with the class-scope visibility rule, then the
    import of the module, then the library fall-back with its inheritance walk) commutes with every injective renaming. -/
theorem equivariant_resolve (r : N → N') (hr : Function.Injective r) (db : Tbl M N) (libs : List M)
    (node : NodeInfo M N) (name : List N) :
    findBySymbolic (Tbl.map r db) libs (node.map r) (name.map r) = Res.map r (findBySymbolic db libs node name) :=
  findBySymbolic_map r hr db libs node name

/-- The search scopes (`__make_scopes` with `__allow_scope`) commute with every injective renaming. -/
theorem equivariant_scopes (r : N → N') (hr : Function.Injective r) (db : Tbl M N) (node : NodeInfo M N) :
    makeScopes (Tbl.map r db) (node.map r) = (makeScopes db node).map (Key.map r) :=
  makeScopes_map r hr db node

/-- The inheritance / member walk (`__find_raw_recursive`) commutes with every injective renaming. -/
theorem equivariant_recursive (r : N → N') (hr : Function.Injective r) (db : Tbl M N) (elems : List N) (scope : Key M N) :
    findRawRecursive (Tbl.map r db) (elems.map r) (scope.map r) = (findRawRecursive db elems scope).map (Hit.map r) :=
  findRawRecursive_map r hr db elems scope

/-- `Node.scope`, `Node.namespace` and `Node.fullyname` commute with EVERY renaming (no comparison of names is involved). -/
theorem equivariant_names (r : N → N') (mod : M) (chain : List (Anc N)) (isDomain : Bool) (dn : List N) (cls : N) (id : Int) :
    scopeOf mod (chain.map (Anc.map r)) = (scopeOf mod chain).map r ∧
    namespaceOf mod (chain.map (Anc.map r)) = (namespaceOf mod chain).map r ∧
    fullynameOf mod (chain.map (Anc.map r)) isDomain (dn.map r) (r cls) id =
      ((fullynameOf mod chain isDomain dn cls id).1.map r, (fullynameOf mod chain isDomain dn cls id).2) :=
  ⟨scopeOf_map r mod chain, namespaceOf_map r mod chain, fullynameOf_map r mod chain isDomain dn cls id⟩

/-- Declaration merging by scope prefix (`VarsCollector._merged`, `_collect_impl`) commutes with every injective renaming. -/
theorem equivariant_merging (r : N → N') (hr : Function.Injective r) (decl add : List (DVar M N)) (block : List (Stmt (DVar M N))) :
    merged (decl.map (DVar.map r)) (add.map (DVar.map r)) = (merged decl add).map (DVar.map r) ∧
    collect (Stmt.mapBlock (DVar.map r) block) = (collect block).map (DVar.map r) := by
  constructor
  · exact mergedG_map DVar.fullyname related DVar.fullyname related (DVar.map r)
      (DVar.map_key_iff r hr) (related_map r hr) decl add
  · have := collectBlockG_map DVar.fullyname related DVar.fullyname related (DVar.map r)
      (DVar.map_key_iff r hr) (related_map r hr) [] block
    simpa [collect] using this

/-- Reserved words: a lookup of a word the code itself supplies (`by_standard(int)`, `get_object()`, `None`) commutes with
    a renaming that is injective and FIXES the reserved words. -/
theorem equivariant_reserved (r : N → N) (hr : Function.Injective r) (reserved : N → Prop) (hfix : ∀ n, reserved n → r n = n)
    (db : Tbl M N) (libs : List M) (word : N) (hw : reserved word) :
    findStandard (Tbl.map r db) libs word = Res.map r (findStandard db libs word) := by
  have := findStandard_map r hr db libs word
  rw [hfix word hw] at this
  exact this

/-- **C08.equivariant** (the bundle): for every injective renaming `r` that fixes the reserved words, resolution, the search
    scopes, the names of nodes and declaration merging of the renamed program are the renamed results of the program. -/
theorem equivariant (r : N → N) (hr : Function.Injective r) (reserved : N → Prop) (hfix : ∀ n, reserved n → r n = n)
    (db : Tbl M N) (libs : List M) (node : NodeInfo M N) (name : List N) (word : N) (hw : reserved word)
    (mod : M) (chain : List (Anc N)) (isDomain : Bool) (dn : List N) (cls : N) (id : Int)
    (decl add : List (DVar M N)) :
    findBySymbolic (Tbl.map r db) libs (node.map r) (name.map r) = Res.map r (findBySymbolic db libs node name) ∧
    findStandard (Tbl.map r db) libs word = Res.map r (findStandard db libs word) ∧
    makeScopes (Tbl.map r db) (node.map r) = (makeScopes db node).map (Key.map r) ∧
    scopeOf mod (chain.map (Anc.map r)) = (scopeOf mod chain).map r ∧
    namespaceOf mod (chain.map (Anc.map r)) = (namespaceOf mod chain).map r ∧
    (fullynameOf mod (chain.map (Anc.map r)) isDomain (dn.map r) (r cls) id).1 = (fullynameOf mod chain isDomain dn cls id).1.map r ∧
    merged (decl.map (DVar.map r)) (add.map (DVar.map r)) = (merged decl add).map (DVar.map r) := by
  refine ⟨equivariant_resolve r hr db libs node name, equivariant_reserved r hr reserved hfix db libs word hw,
    equivariant_scopes r hr db node, (equivariant_names r mod chain isDomain dn cls id).1,
    (equivariant_names r mod chain isDomain dn cls id).2.1, ?_, (equivariant_merging r hr decl add []).1⟩
  rw [(equivariant_names r mod chain isDomain dn cls id).2.2]

end

/-! ### non-vacuity of Part 1 -/

/-- a concrete injective renaming on strings: append an underscore -/
def rUnderscore : Str → Str := fun n => n ++ ['_']

example : Function.Injective rUnderscore := by
  intro a b h
  exact List.append_cancel_right h

/-- a class `ab` with a member `x`, a sibling class `abc` inheriting from `ab`, a function `f` with a local `x` -/
def demoTbl : Tbl Str Str :=
  [ (⟨['m'], [['a','b']]⟩, ⟨true, true, ['f','i','l','e','_','i','n','p','u','t','.','c','l','a','s','s','_','d','e','f','[','0',']'], ['m'], none, []⟩),
    (⟨['m'], [['a','b'], ['x']]⟩, ⟨false, false, ['f','i','l','e','_','i','n','p','u','t','.','c','l','a','s','s','_','d','e','f','[','0',']','.','c','l','a','s','s','_','d','e','f','_','r','a','w','.','b','l','o','c','k','.','a','n','n','o','_','a','s','s','i','g','n'], ['m'], none, []⟩),
    (⟨['m'], [['a','b','c']]⟩, ⟨true, true, ['f','i','l','e','_','i','n','p','u','t','.','c','l','a','s','s','_','d','e','f','[','1',']'], ['m'], none, [[['a','b']]]⟩),
    (⟨['l'], [['a','b','c']]⟩, ⟨true, true, ['f','i','l','e','_','i','n','p','u','t','.','c','l','a','s','s','_','d','e','f'], ['l'], none, [[['a','b']]]⟩),
    (⟨['l'], [['a','b']]⟩, ⟨true, true, ['f','i','l','e','_','i','n','p','u','t','.','c','l','a','s','s','_','d','e','f'], ['l'], none, []⟩),
    (⟨['l'], [['a','b'], ['y']]⟩, ⟨false, false, ['f','i','l','e','_','i','n','p','u','t','.','c','l','a','s','s','_','d','e','f','.','c','l','a','s','s','_','d','e','f','_','r','a','w','.','b','l','o','c','k','.','a','n','n','o','_','a','s','s','i','g','n'], ['l'], none, []⟩) ]

def demoNode : NodeInfo Str Str :=
  ⟨⟨['m'], [['a','b'], ['f']]⟩, true, false, ['f','i','l','e','_','i','n','p','u','t','.','c','l','a','s','s','_','d','e','f','[','0',']','.','c','l','a','s','s','_','d','e','f','_','r','a','w','.','b','l','o','c','k','.','f','u','n','c','t','i','o','n','_','d','e','f','.','f','u','n','c','t','i','o','n','_','d','e','f','_','r','a','w','.','b','l','o','c','k','.','a','s','s','i','g','n','.','v','a','r']⟩

/-- the class-scope rule hides the class variable `ab.x` from a method body; the library fall-back finds `abc.y` through the
    base class `ab` — and both survive the renaming -/
example :
    findBySymbolic demoTbl [['l']] demoNode [['x']] = .ok none ∧
    findBySymbolic demoTbl [['l']] demoNode [['a','b','c'], ['y']] = .ok (some (⟨['l'], [['a','b'], ['y']]⟩,
        ⟨false, false, ['f','i','l','e','_','i','n','p','u','t','.','c','l','a','s','s','_','d','e','f','.','c','l','a','s','s','_','d','e','f','_','r','a','w','.','b','l','o','c','k','.','a','n','n','o','_','a','s','s','i','g','n'], ['l'], none, []⟩)) ∧
    findBySymbolic (Tbl.map rUnderscore demoTbl) [['l']] (demoNode.map rUnderscore) [['a','b','c','_'], ['y','_']]
      = Res.map rUnderscore (findBySymbolic demoTbl [['l']] demoNode [['a','b','c'], ['y']]) := by
  decide +kernel

/-! ## Part 2: the string layer refines the abstract layer -/

open Tranp.ScopeStr in
/-- The codec: for well-formed keys `ModuleDSN.expanded` inverts the encoding (so it is injective), and `ModuleDSN.full_joined`
    / `local_joined` / `expand_elements` compute the encodings of list append / identity. -/
theorem string_refines_dsn (k : Key Str Str) (hk : KeyOk k) (es : List Str) (he : Idents es) :
    expanded (encKey k) = (k.mod, k.path) ∧
    fullJoined (encKey k) es = encKey (k.join es) ∧
    fullJoined (encKey k) [encName es] = encKey (k.join es) ∧
    expandElements (encName es) = es ∧
    (∀ k', KeyOk k' → encKey k = encKey k' → k = k') :=
  ⟨expanded_encKey hk, fullJoined_encKey_names hk es he, fullJoined_encKey_name hk es he, expandElements_encName he,
    fun k' hk' h => encKey_inj k k' hk hk' h⟩

open Tranp.ScopeStr in
/-- `__make_scopes` on strings = encoding of the abstract scopes. This includes the proof that the string-LENGTH test
    `len(node.scope) <= len(scope.dsn)` of `__allow_scope` is safe in its context (the scope is a prefix of `node.scope`
    and names are non-empty), and that the class-scope rule only looks at entry paths. -/
theorem string_refines_scopes (db : Tbl Str Str) (hdb : TblOk db) (node : NodeInfo Str Str) (hn : KeyOk node.scope) :
    ScopeStr.makeScopes (encTbl db) (encNode node) = (Scope.makeScopes db node).map encKey :=
  makeScopes_enc hdb node hn

open Tranp.ScopeStr in
/-- `find_by_symbolic` on strings = encoding of the abstract lookup (scope walk, import, library, inheritance walk;
    `scope.elements[:-1]`, `split('#')`, `split('.')`, `DSN.join` are all delimiter-aware). -/
theorem string_refines_resolve (db : Tbl Str Str) (hdb : TblOk db) (libs : List Str) (hl : ∀ m ∈ libs, ModOk m)
    (node : NodeInfo Str Str) (hnode : KeyOk node.scope) (dn pn : List Str) (hd : Idents dn) (hpn : Idents pn) :
    ScopeStr.findBySymbolic (encTbl db) libs (encNode node) (encName dn) (encName pn) =
      encRes (Scope.findBySymbolic db libs node (dn ++ pn)) :=
  findBySymbolic_enc hdb libs hl node hnode dn pn hd hpn

open Tranp.ScopeStr in
/-- `by_standard` / `get_object` on strings = encoding of the abstract lookup. -/
theorem string_refines_standard (db : Tbl Str Str) (hdb : TblOk db) (libs : List Str) (hl : ∀ m ∈ libs, ModOk m)
    (word : Str) (hw : Ident word) :
    ScopeStr.findStandard (encTbl db) libs word = encRes (Scope.findStandard db libs word) :=
  findStandard_enc hdb libs hl word hw

open Tranp.ScopeStr in
/-- `Node.scope` / `namespace` / `fullyname` / `DeclThisVar.fullyname` on strings = encodings of the abstract ones. -/
theorem string_refines_names (mod : Str) (hm : ModOk mod) (chain : List (Anc Str)) (hc : ∀ a ∈ chain, AncOk a)
    (isDomain : Bool) (dn : List Str) (hd : Idents dn) (cls : Str) (hcls : Ident cls) (id : Int) :
    ScopeStr.scopeOf mod (chain.map encAnc) = encKey (Scope.scopeOf mod chain) ∧
    ScopeStr.namespaceOf mod (chain.map encAnc) = encKey (Scope.namespaceOf mod chain) ∧
    ScopeStr.fullynameOf mod (chain.map encAnc) isDomain (encName dn) cls id =
      encFullyname (Scope.fullynameOf mod chain isDomain dn cls id) ∧
    ScopeStr.fullynameThisVar (encKey (Scope.scopeOf mod chain)) (encName dn) =
      encKey (Scope.fullynameThisVar (Scope.scopeOf mod chain) dn) :=
  ⟨scopeOf_enc hm chain hc, namespaceOf_enc hm chain hc, fullynameOf_enc hm chain hc isDomain dn hd cls hcls id,
    fullynameThisVar_enc (scopeOf_keyOk hm chain hc) dn hd⟩

open Tranp.ScopeStr in
/-- **C08.string_refines** (the bundle): when every name is a non-empty string without `.` and `#` and every module path a
    non-empty string without `#`, the functions on the joined strings compute the encodings of the functions on element lists. -/
theorem string_refines (db : Tbl Str Str) (hdb : TblOk db) (libs : List Str) (hl : ∀ m ∈ libs, ModOk m)
    (node : NodeInfo Str Str) (hnode : KeyOk node.scope) (dn pn : List Str) (hd : Idents dn) (hpn : Idents pn)
    (chain : List (Anc Str)) (hc : ∀ a ∈ chain, AncOk a) (isDomain : Bool) (cls : Str) (hcls : Ident cls) (id : Int) :
    ScopeStr.findBySymbolic (encTbl db) libs (encNode node) (encName dn) (encName pn) =
      encRes (Scope.findBySymbolic db libs node (dn ++ pn)) ∧
    ScopeStr.makeScopes (encTbl db) (encNode node) = (Scope.makeScopes db node).map encKey ∧
    ScopeStr.scopeOf node.scope.mod (chain.map encAnc) = encKey (Scope.scopeOf node.scope.mod chain) ∧
    ScopeStr.namespaceOf node.scope.mod (chain.map encAnc) = encKey (Scope.namespaceOf node.scope.mod chain) ∧
    ScopeStr.fullynameOf node.scope.mod (chain.map encAnc) isDomain (encName dn) cls id =
      encFullyname (Scope.fullynameOf node.scope.mod chain isDomain dn cls id) :=
  ⟨string_refines_resolve db hdb libs hl node hnode dn pn hd hpn, string_refines_scopes db hdb node hnode,
    (string_refines_names node.scope.mod hnode.1 chain hc isDomain dn hd cls hcls id).1,
    (string_refines_names node.scope.mod hnode.1 chain hc isDomain dn hd cls hcls id).2.1,
    (string_refines_names node.scope.mod hnode.1 chain hc isDomain dn hd cls hcls id).2.2.1⟩

/-- non-vacuity of Part 2: the demo table, node and names are well-formed, and the two layers agree on a real lookup -/
example : ScopeStr.TblOk demoTbl ∧ ScopeStr.KeyOk demoNode.scope ∧ ScopeStr.Idents [['a','b','c'], ['y']] := by
  decide +kernel


example :
    ScopeStr.findBySymbolic (ScopeStr.encTbl demoTbl) [['l']] (ScopeStr.encNode demoNode) ['a','b','c','.','y'] [] =
      ScopeStr.encRes (Scope.findBySymbolic demoTbl [['l']] demoNode [['a','b','c'], ['y']]) ∧
    ScopeStr.makeScopes (ScopeStr.encTbl demoTbl) (ScopeStr.encNode demoNode) = [['m','#','a','b','.','f'], ['m']] := by
  decide +kernel

/-! ### declaration merging (`VarsCollector._merged`, repaired in 526fc7c: element-wise scope prefix) -/

open Tranp.ScopeStr in
/-- `_merged` and `_collect_impl` on the joined strings = encodings of merging on element lists, for all well-formed
    declarations (this statement was FALSE for the bare `startswith` the code used before 526fc7c; the former witnesses are
    the regression examples below and corpus/C08). -/
theorem string_refines_merging (decl add : List (DVar Str Str)) (h : ∀ v ∈ decl ++ add, DVarOk v)
    (block : List (Stmt (DVar Str Str))) (hb : Stmt.AllBlock DVarOk block) :
    ScopeStr.merged (decl.map encDVar) (add.map encDVar) = (Scope.merged decl add).map encDVar ∧
    ScopeStr.collect (Stmt.mapBlock encDVar block) = (Scope.collect block).map encDVar := by
  constructor
  · exact mergedG_map_on DVar.fullyname Scope.related DVarS.fullyname ScopeStr.related encDVar DVarOk
      encDVar_key_iff related_enc decl add (fun x hx => h x (by simp [hx])) (fun x hx => h x (by simp [hx]))
  · have := collectBlockG_map_on DVar.fullyname Scope.related DVarS.fullyname ScopeStr.related encDVar DVarOk
      encDVar_key_iff related_enc [] block (by intro x hx; simp at hx) hb
    simpa [ScopeStr.collect, Scope.collect] using this

def mkVar (scope : List Str) (name : Str) : DVar Str Str :=
  ⟨⟨['m'], scope ++ [name]⟩, [name], ⟨['m'], scope⟩⟩

/-- former witness 1: two SIBLING loops `for@10` and `for@107` of one function declare `x` -/
def witnessIds : List (DVar Str Str) × List (DVar Str Str) :=
  ([mkVar [['f'], ['f','o','r','@','1','0']] ['x']], [mkVar [['f'], ['f','o','r','@','1','0','7']] ['x']])

/-- former witness 2: scopes `m#ab` and `m#abc` -/
def witnessNames : List (DVar Str Str) × List (DVar Str Str) :=
  ([mkVar [['a','b']] ['x']], [mkVar [['a','b','c']] ['x']])

/-- regression: on both former witnesses the two layers agree now, and the second declaration is kept -/
example :
    ScopeStr.merged (witnessIds.1.map ScopeStr.encDVar) (witnessIds.2.map ScopeStr.encDVar) =
      (Scope.merged witnessIds.1 witnessIds.2).map ScopeStr.encDVar ∧
    (Scope.merged witnessIds.1 witnessIds.2).length = 2 ∧
    ScopeStr.merged (witnessNames.1.map ScopeStr.encDVar) (witnessNames.2.map ScopeStr.encDVar) =
      (Scope.merged witnessNames.1 witnessNames.2).map ScopeStr.encDVar ∧
    (ScopeStr.merged (witnessNames.1.map ScopeStr.encDVar) (witnessNames.2.map ScopeStr.encDVar)).length = 2 := by
  decide +kernel

/-- non-vacuity: a nested block of well-formed declarations; the inner re-declaration of `x` is merged away -/
example :
    (∀ v ∈ witnessIds.1 ++ witnessIds.2, ScopeStr.DVarOk v) ∧
    Stmt.AllBlock ScopeStr.DVarOk [Stmt.mk [[mkVar [['f']] ['x']]] [[Stmt.mk [[mkVar [['f'], ['i','f','@','3']] ['x']]] []]]] ∧
    (Scope.collect [Stmt.mk [[mkVar [['f']] ['x']]] [[Stmt.mk [[mkVar [['f'], ['i','f','@','3']] ['x']]] []]]]).length = 1 := by
  refine ⟨by decide +kernel, ?_, by decide +kernel⟩
  simp only [Stmt.AllBlock, Stmt.All, Stmt.AllBlocks, and_true]
  decide +kernel

end Tranp.C08
