/-
  Property C08 — Consistent renaming of user identifiers commutes with transpilation.
  Property theorems only; helper lemmas live in Tranp/Lemmas/Scope.lean (abstract layer) and Tranp/Lemmas/ScopeStr.lean
  (string layer).

  Part 1 (`equivariant_*`): on the abstract layer (names are an abstract type) every function of name resolution commutes
  with every INJECTIVE renaming `r` of the names: resolution is a function of the binding structure only. Words that the
  code itself supplies (`object`, `int`, `None`, … in `by_standard`) must be fixed by `r` — the "reserved names" clause.

  Part 2 (`string_refines_*`): the functions the Python really runs work on the joined strings `module#a.b.c`. When every
  name is a non-empty string without `.` and `#` (every Python identifier, and tranp's own scope words such as `if@115`) the
  string layer computes exactly the encoding of the abstract layer — every function uses delimiter-aware operations
  (`DSN.join`, `split('#')`, `split('.')`, `ModuleDSN.expanded`), and the one string-LENGTH comparison (`__allow_scope`) is
  safe in the only context it is used in.  `VarsCollector._merged` used a bare `startswith` until 526fc7c (refuted then by the
  witnesses `for@10`/`for@107` and `ab`/`abc`); the repaired element-wise test is proved to refine (`string_refines_merging`).

  Part 3 (`*_naming`, `*_member_lookup`, `fragment_*`): class naming (`helper/naming.py`), the by-name member lookup of enums
  and the regex post-processing of rendered fragments (`PatternParser`).

  Part 5 (`view_*`): the C++ view helpers that take rendered type names, base-class names and argument texts apart
  (`CppViewHelper.VarType.annotated`, `Param.var_type_origin`, `SuperInitializer.parse`; Model/ViewHelper.lean) decide by WHOLE
  names; the capture list of a lambda / closure (`equivariant_capture`). Part 6 (`name_sites_*`): the GENERATED table of every comparison of a user-controlled name with words py2cpp.py spells
  out itself (translate/gen_c08_names.py, Generated/C08Names.lean): each member-name comparison a user class can reach
  (`items`, `pop`, `on`, `value`, …) is tied to the TYPE of the receiver by a guard.

  Part 4 (`regex_*`, `site_table_*`): the regular expressions of `PatternParser` / `CppViewHelper` and the table of comparison sites
  are GENERATED from the source on every run (translate/gen_c08_regex.py, translate/gen_c08_sites.py: Generated/C08Regex.lean,
  Generated/C08Sites.lean; a new, changed or vanished site or an unknown regex opcode makes the translator fail = broken tie).
  The hand-written table below is the audit the generated table records (183 sites incl. the string tests of the Jinja templates, sorted() / .sort() / min() / max() as order-by-spelling sites, cpp_view_helper.py and
  syntax/node/definition/*.py; verdicts in translate/c08_sites_audited.json).

  ## Every place where a string that can contain a user identifier is compared other than by `==` on whole names
  (grep of finder.py, dsn/*.py, node.py, statement_compound.py, primary.py, naming.py, py2cpp.py for `startswith(`, `endswith(`,
  ` in `, `.find(`, `.replace(`, `.split(`, `.count(`, `re.`; lines of HEAD 2d32958)

  | site | what is compared | delimiter-safe? |
  |---|---|---|
  | finder.py:143 `len(node.scope) <= len(scope.dsn)` | string LENGTHS of two scope strings | yes in context (scope is a prefix of node.scope, names non-empty): `string_refines_scopes` |
  | finder.py:149,228,265 `key in db` | whole key strings | yes: `encKey` injective (`string_refines_dsn`) |
  | finder.py:156-158 `full_path.replace(types.full_path + '.class_def_raw.block.', '')`, `'function_def_raw.block' in …` | ENTRY paths (grammar tags + indices, no user name) | n/a for names; same function in both layers (`inAltClass`), `equivariant_scopes` |
  | dsn.py:14 `origin.startswith(delimiter)`, `count(delimiter)` | the delimiter character | yes |
  | dsn.py:26 `origin.split(delimiter)` | delimiter | yes: `dsnElements_encName` (in `string_refines_dsn`) |
  | dsn.py:120 `origin.startswith(starts + delimiter)` | prefix incl. delimiter | yes |
  | dsn.py:123 `origin.split(starts)[1]` | BARE multi-character split | NO as a function: `relativefy_counterexample` (`ab.ab.c` relative to `ab`). Callers: EntryPath.relativefy / general.py:51 (entry paths rooted at the unique tag `file_input`), naming.py:153 (handler-less `__namespace`: never entered with a user name because a namespace `mod#…` never starts with `mod.`; not reachable from Py2Cpp). Modelled on strings (`namespaceNoHandler`), correspondence only |
  | module.py:48,75 `find('#')`, :98 `split('#')` | the `#` delimiter | yes: `string_refines_dsn` |
  | statement_compound.py:341 `full_path.count('class_def') > 1` | ENTRY path substring | n/a for names |
  | statement_compound.py:523,547 `tokens == '__init__'` | equality with a reserved word | yes |
  | statement_compound.py:733 `'Enum' in [tokens …]` | list membership = equality with a reserved word | yes: `isEnum` |
  | statement_compound.py:749 `domain_name == var_name` (Enum.var_value) | equality of member names | yes: `equivariant_member_lookup`; the `endswith` variant is refuted: `member_lookup_suffix_counterexample` |
  | statement_compound.py:829-834 `_merged` | element lists (`ModuleDSN.expanded`, since 526fc7c) | yes: `string_refines_merging` |
  | primary.py:257,268,782,797,812,832 `tokens == 'cls'/'self'`, `in ['cls','self']`; :384,397,549 `== 'list'/'dict'/'super'` | equality with reserved words | yes |
  | primary.py:717 `endswith('class_var_assign.assign_namelist')`, :736,758 `elems[-5].startswith('class_def_raw')` | ENTRY path / entry tag | n/a for names |
  | primary.py:743,766 `DSN.elem_counts(tokens) == 2 and DSN.root(tokens) == 'self'` | element count and FIRST ELEMENT (since 4e765ba) | yes |
  | naming.py:70 `alias_handler(alias_dsn(fullyname), …)` | whole key `aliases.<fullyname>` | yes: `aliasKey_inj`, `string_refines_naming` |
  | naming.py:86,98,155 `DSN.join(namespace, domain_name)` | join with delimiter, empty parts dropped | yes: `string_refines_naming`; the guard `domain_name.startswith(namespace)` is refuted: `naming_startswith_counterexample` |
  | naming.py:153 `DSN.shift(DSN.relativefy(namespace, module_path), -1)` | see dsn.py:123 | dead branch, string layer only |
  | py2cpp.py:570 `calls.prop.tokens == '__init__'` | equality (since c8f2d33) | yes |
  | py2cpp.py:685 `calls.tokens.startswith('Embed.static')` | bare prefix of a dotted reference | prefix-unsafe but the first element `Embed` is a library name (reserved): no user identifier reaches it; not modelled |
  | py2cpp.py:692-697 `is_initializer_call`: `value.startswith(f'{var_type}(')`, `break_last_block(value, '()')[0] == var_type` (since dbbf835; before: only the prefix test, which took `A(1).dup()` for a constructor call) | rendered text: prefix INCLUDING the `(`, then equality of the callee text | yes: `initializer_call_callee`; the variant without the `(` is refuted: `initializer_call_prefix_counterexample` (`Widget_build(2)` for type `Widget`) |
  | py2cpp.py:743 `throws.find('(')` | first `(` of a rendered call | names pass through; search only |
  | py2cpp.py:781 `module_path.startswith(in_import.replace('/', '.'))` | module path vs configured import dir, bare prefix | module names are outside the renaming domain of C08; not modelled |
  | py2cpp.py:126,433,440,849 | include paths, `#include` lines, numeric literals | no identifiers |
  | py2cpp.py:200,354,386,484-489,1017,1217-1235,1347-1351 `tokens == <name>.__name__`, `in dict_iter_methods` | equality / membership with reserved words | yes |
  | py2cpp.py:1756 RelayPattern `(.+)(->|::|\.)\w+$` | last operator + identifier | yes: `fragment_relay` |
  | py2cpp.py:1758 DictIteratorPattern `(.+)(->|\.)(\w+)\(\)$` | last operator + identifier + `()` | yes: `fragment_dict_iterator` |
  | py2cpp.py:1759 DeclClassVarNamePattern `\s+([\w\d_]+)\s+=` | first `ws word ws =` | yes for `<type> <name> = …` with a blank-free type: `fragment_class_var_name`; other shapes correspondence only |
  | py2cpp.py:1760,1761 CVarRelaySubPattern / CVarToSubPattern `(->|::|\.)(on|raw|…)\(\)$` | operator + WHOLE word + `()` | yes: `fragment_cvar_suffix` (stripped iff the method name IS the word; `xon()`, `draw()` untouched) |
  | cpp_view_helper.py:82,107 `var_type.startswith('const ')` | the C++ qualifier WITH its blank (since 448468e; before: bare `startswith('const')`, class `constant` was taken for a const type) | yes: a rendered type name contains no blank |
  | statement_compound.py:632-650 `Class.depended_types` (and every `sorted()` / `.sort()` / `min()` / `max()`) | ORDER of a collection of names | the shipped code keeps declaration (dict insertion) order: equivariant; ordering by spelling (`sorted(sub_types.keys())`, a seeded mutation) is not — such calls are order-by-spelling sites of the generated table (only numeric `min(precedences)`, `max(0, …)` exist) |
  | function/_method_body.j2:1-5 `return_type.startswith('Iterator<' / 'ItemsView<')` | the generic name WITH its `<` (since 3ee1aa1; before: bare prefix, a class `Iteratorx` became an iterator method) | yes: a class name contains no `<` |
  | func_call/list_sort.j2 `(entry_name + '->') in entry_value`, `('(' + entry_name) in …`, `replace(entry_name, …)` | SUBSTRING tests / replacement with the lambda parameter name | NO: `cur` rewrites `curx` — known finding `list-sort-substring:output` (proposed/C08-list-sort-substring-replace.md) |
  | cpp_view_helper.py:95-118 `VarType.annotated`: `startswith('const ')`, `origin in immutable_types` with `origin` = the leading run of `[\w\d:_]` | qualifier WITH its blank; WHOLE type name in a list | yes: `view_annotated_whole_name` (the variant without the blank: `view_annotated_const_prefix_counterexample`) |
  | cpp_view_helper.py:80-85 `Param.var_type_origin`: `startswith('const ')`, `endswith('*' / '&')`, group 2 of `Param.VarType`, `split('<')[0]` | qualifier with blank, last character, run of type characters | yes: `view_var_type_origin` (on the generated pattern itself: C18 `var_type_origin_plain/_const`) |
  | cpp_view_helper.py:17-22 `SuperInitializer.parse` `([\w\d]+)::__init__\(([^;]*)\);$` | identifier before `::__init__(`, text up to `);` | yes: `view_super_initializer` |
  | py2cpp.py `….prop.tokens in FuncCallSpec.dict_iter_methods / list_methods / str_methods`, `== CVars.Verbs.*.value`, `in ['name', 'value']` (25 member-name comparisons; generated table C08Names) | equality / membership of a MEMBER name with words a user class may use too | yes because each stands under a guard on the receiver's TYPE: `name_sites_guarded` (a dropped guard — seeded mutation on `on_for` — falsifies it and is exhibited by the member-spelling programs of the search) |
  | primary.py:672-674 `Lambda.ref_vars`, statement_compound.py:584-586 `Closure.ref_vars`: `var.domain_name not in ignore_names`; py2cpp.py:416-425 dict keys | membership of a WHOLE name in the list of parameter names; dict keys | yes: `equivariant_capture`; the `startswith(<parameter names>)` variant (seeded mutation) is refuted: `capture_prefix_counterexample` |
  | py2cpp.py:1757 ListSortKeyPattern, :1793,1858,1874 BlockParser calls | lambda text / bracket blocks | search only (real-code equivariance); BlockParser is property C18 |
-/
import Tranp.Lemmas.Scope
import Tranp.Lemmas.ScopeStr
import Tranp.Lemmas.Naming
import Tranp.Lemmas.Fragment
import Tranp.Lemmas.Regex
import Tranp.Lemmas.ViewHelper
import Tranp.Lemmas.Capture
import Tranp.Generated.C08Regex
import Tranp.Generated.C08Sites
import Tranp.Generated.C08Names

namespace Tranp.C08
open Tranp Tranp.Scope

/-! ## Part 1: equivariance (abstract layer) -/

section
variable {M N N' : Type} [DecidableEq M] [DecidableEq N] [DecidableEq N']

/-- Symbol lookup (`SymbolFinder.find_by_symbolic`: scope walk inner to outer with the class-scope visibility rule, then the
    import of the module, then the library fall-back with its inheritance walk) commutes with every injective renaming. -/
theorem equivariant_resolve (r : N → N') (hr : Function.Injective r) (db : Tbl M N) (libs : List M)
    (node : NodeInfo M N) (name : List N) :
    findBySymbolic (Tbl.map r db) libs (node.map r) (name.map r) = Res.map r (findBySymbolic db libs node name) :=
  findBySymbolic_map r hr db libs node name

/-- The search scopes (`__make_scopes` with `__allow_scope`) commute with every injective renaming. -/
theorem equivariant_scopes (r : N → N') (hr : Function.Injective r) (db : Tbl M N) (node : NodeInfo M N) :
    makeScopes (Tbl.map r db) (node.map r) = (makeScopes db node).map (Key.map r) :=
  makeScopes_map r hr db node

/-- The inheritance / member walk (`__find_raw_recursive`) commutes with every injective renaming. -/
theorem equivariant_recursive (r : N → N') (hr : Function.Injective r) (db : Tbl M N) (elems : List N) (scope : Key M N) :
    findRawRecursive (Tbl.map r db) (elems.map r) (scope.map r) = (findRawRecursive db elems scope).map (Hit.map r) :=
  findRawRecursive_map r hr db elems scope

/-- `Node.scope`, `Node.namespace` and `Node.fullyname` commute with EVERY renaming (no comparison of names is involved). -/
theorem equivariant_names (r : N → N') (mod : M) (chain : List (Anc N)) (isDomain : Bool) (dn : List N) (cls : N) (id : Int) :
    scopeOf mod (chain.map (Anc.map r)) = (scopeOf mod chain).map r ∧
    namespaceOf mod (chain.map (Anc.map r)) = (namespaceOf mod chain).map r ∧
    fullynameOf mod (chain.map (Anc.map r)) isDomain (dn.map r) (r cls) id =
      ((fullynameOf mod chain isDomain dn cls id).1.map r, (fullynameOf mod chain isDomain dn cls id).2) :=
  ⟨scopeOf_map r mod chain, namespaceOf_map r mod chain, fullynameOf_map r mod chain isDomain dn cls id⟩

/-- Declaration merging by scope prefix (`VarsCollector._merged`, `_collect_impl`) commutes with every injective renaming. -/
theorem equivariant_merging (r : N → N') (hr : Function.Injective r) (decl add : List (DVar M N)) (block : List (Stmt (DVar M N))) :
    merged (decl.map (DVar.map r)) (add.map (DVar.map r)) = (merged decl add).map (DVar.map r) ∧
    collect (Stmt.mapBlock (DVar.map r) block) = (collect block).map (DVar.map r) := by
  constructor
  · exact mergedG_map DVar.fullyname related DVar.fullyname related (DVar.map r)
      (DVar.map_key_iff r hr) (related_map r hr) decl add
  · have := collectBlockG_map DVar.fullyname related DVar.fullyname related (DVar.map r)
      (DVar.map_key_iff r hr) (related_map r hr) [] block
    simpa [collect] using this

/-- Reserved words: a lookup of a word the code itself supplies (`by_standard(int)`, `get_object()`, `None`) commutes with
    a renaming that is injective and FIXES the reserved words. -/
theorem equivariant_reserved (r : N → N) (hr : Function.Injective r) (reserved : N → Prop) (hfix : ∀ n, reserved n → r n = n)
    (db : Tbl M N) (libs : List M) (word : N) (hw : reserved word) :
    findStandard (Tbl.map r db) libs word = Res.map r (findStandard db libs word) := by
  have := findStandard_map r hr db libs word
  rw [hfix word hw] at this
  exact this

/-- **C08.equivariant** (the bundle): for every injective renaming `r` that fixes the reserved words, resolution, the search
    scopes, the names of nodes and declaration merging of the renamed program are the renamed results of the program. -/
theorem equivariant (r : N → N) (hr : Function.Injective r) (reserved : N → Prop) (hfix : ∀ n, reserved n → r n = n)
    (db : Tbl M N) (libs : List M) (node : NodeInfo M N) (name : List N) (word : N) (hw : reserved word)
    (mod : M) (chain : List (Anc N)) (isDomain : Bool) (dn : List N) (cls : N) (id : Int)
    (decl add : List (DVar M N)) :
    findBySymbolic (Tbl.map r db) libs (node.map r) (name.map r) = Res.map r (findBySymbolic db libs node name) ∧
    findStandard (Tbl.map r db) libs word = Res.map r (findStandard db libs word) ∧
    makeScopes (Tbl.map r db) (node.map r) = (makeScopes db node).map (Key.map r) ∧
    scopeOf mod (chain.map (Anc.map r)) = (scopeOf mod chain).map r ∧
    namespaceOf mod (chain.map (Anc.map r)) = (namespaceOf mod chain).map r ∧
    (fullynameOf mod (chain.map (Anc.map r)) isDomain (dn.map r) (r cls) id).1 = (fullynameOf mod chain isDomain dn cls id).1.map r ∧
    merged (decl.map (DVar.map r)) (add.map (DVar.map r)) = (merged decl add).map (DVar.map r) := by
  refine ⟨equivariant_resolve r hr db libs node name, equivariant_reserved r hr reserved hfix db libs word hw,
    equivariant_scopes r hr db node, (equivariant_names r mod chain isDomain dn cls id).1,
    (equivariant_names r mod chain isDomain dn cls id).2.1, ?_, (equivariant_merging r hr decl add []).1⟩
  rw [(equivariant_names r mod chain isDomain dn cls id).2.2]

end

/-! ### non-vacuity of Part 1 -/

/-- a concrete injective renaming on strings: append an underscore -/
def rUnderscore : Str → Str := fun n => n ++ ['_']

example : Function.Injective rUnderscore := by
  intro a b h
  exact List.append_cancel_right h

/-- a class `ab` with a member `x`, a sibling class `abc` inheriting from `ab`, a function `f` with a local `x` -/
def demoTbl : Tbl Str Str :=
  [ (⟨['m'], [['a','b']]⟩, ⟨true, true, ['f','i','l','e','_','i','n','p','u','t','.','c','l','a','s','s','_','d','e','f','[','0',']'], ['m'], none, []⟩),
    (⟨['m'], [['a','b'], ['x']]⟩, ⟨false, false, ['f','i','l','e','_','i','n','p','u','t','.','c','l','a','s','s','_','d','e','f','[','0',']','.','c','l','a','s','s','_','d','e','f','_','r','a','w','.','b','l','o','c','k','.','a','n','n','o','_','a','s','s','i','g','n'], ['m'], none, []⟩),
    (⟨['m'], [['a','b','c']]⟩, ⟨true, true, ['f','i','l','e','_','i','n','p','u','t','.','c','l','a','s','s','_','d','e','f','[','1',']'], ['m'], none, [[['a','b']]]⟩),
    (⟨['l'], [['a','b','c']]⟩, ⟨true, true, ['f','i','l','e','_','i','n','p','u','t','.','c','l','a','s','s','_','d','e','f'], ['l'], none, [[['a','b']]]⟩),
    (⟨['l'], [['a','b']]⟩, ⟨true, true, ['f','i','l','e','_','i','n','p','u','t','.','c','l','a','s','s','_','d','e','f'], ['l'], none, []⟩),
    (⟨['l'], [['a','b'], ['y']]⟩, ⟨false, false, ['f','i','l','e','_','i','n','p','u','t','.','c','l','a','s','s','_','d','e','f','.','c','l','a','s','s','_','d','e','f','_','r','a','w','.','b','l','o','c','k','.','a','n','n','o','_','a','s','s','i','g','n'], ['l'], none, []⟩) ]

def demoNode : NodeInfo Str Str :=
  ⟨⟨['m'], [['a','b'], ['f']]⟩, true, false, ['f','i','l','e','_','i','n','p','u','t','.','c','l','a','s','s','_','d','e','f','[','0',']','.','c','l','a','s','s','_','d','e','f','_','r','a','w','.','b','l','o','c','k','.','f','u','n','c','t','i','o','n','_','d','e','f','.','f','u','n','c','t','i','o','n','_','d','e','f','_','r','a','w','.','b','l','o','c','k','.','a','s','s','i','g','n','.','v','a','r']⟩

/-- the class-scope rule hides the class variable `ab.x` from a method body; the library fall-back finds `abc.y` through the
    base class `ab` — and both survive the renaming -/
example :
    findBySymbolic demoTbl [['l']] demoNode [['x']] = .ok none ∧
    findBySymbolic demoTbl [['l']] demoNode [['a','b','c'], ['y']] = .ok (some (⟨['l'], [['a','b'], ['y']]⟩,
        ⟨false, false, ['f','i','l','e','_','i','n','p','u','t','.','c','l','a','s','s','_','d','e','f','.','c','l','a','s','s','_','d','e','f','_','r','a','w','.','b','l','o','c','k','.','a','n','n','o','_','a','s','s','i','g','n'], ['l'], none, []⟩)) ∧
    findBySymbolic (Tbl.map rUnderscore demoTbl) [['l']] (demoNode.map rUnderscore) [['a','b','c','_'], ['y','_']]
      = Res.map rUnderscore (findBySymbolic demoTbl [['l']] demoNode [['a','b','c'], ['y']]) := by
  decide +kernel

/-! ## Part 2: the string layer refines the abstract layer -/

open Tranp.ScopeStr in
/-- The codec: for well-formed keys `ModuleDSN.expanded` inverts the encoding (so it is injective), and `ModuleDSN.full_joined`
    / `local_joined` / `expand_elements` compute the encodings of list append / identity. -/
theorem string_refines_dsn (k : Key Str Str) (hk : KeyOk k) (es : List Str) (he : Idents es) :
    expanded (encKey k) = (k.mod, k.path) ∧
    fullJoined (encKey k) es = encKey (k.join es) ∧
    fullJoined (encKey k) [encName es] = encKey (k.join es) ∧
    expandElements (encName es) = es ∧
    (∀ k', KeyOk k' → encKey k = encKey k' → k = k') :=
  ⟨expanded_encKey hk, fullJoined_encKey_names hk es he, fullJoined_encKey_name hk es he, expandElements_encName he,
    fun k' hk' h => encKey_inj k k' hk hk' h⟩

open Tranp.ScopeStr in
/-- `__make_scopes` on strings = encoding of the abstract scopes. This includes the proof that the string-LENGTH test
    `len(node.scope) <= len(scope.dsn)` of `__allow_scope` is safe in its context (the scope is a prefix of `node.scope`
    and names are non-empty), and that the class-scope rule only looks at entry paths. -/
theorem string_refines_scopes (db : Tbl Str Str) (hdb : TblOk db) (node : NodeInfo Str Str) (hn : KeyOk node.scope) :
    ScopeStr.makeScopes (encTbl db) (encNode node) = (Scope.makeScopes db node).map encKey :=
  makeScopes_enc hdb node hn

open Tranp.ScopeStr in
/-- `find_by_symbolic` on strings = encoding of the abstract lookup (scope walk, import, library, inheritance walk;
    `scope.elements[:-1]`, `split('#')`, `split('.')`, `DSN.join` are all delimiter-aware). -/
theorem string_refines_resolve (db : Tbl Str Str) (hdb : TblOk db) (libs : List Str) (hl : ∀ m ∈ libs, ModOk m)
    (node : NodeInfo Str Str) (hnode : KeyOk node.scope) (dn pn : List Str) (hd : Idents dn) (hpn : Idents pn) :
    ScopeStr.findBySymbolic (encTbl db) libs (encNode node) (encName dn) (encName pn) =
      encRes (Scope.findBySymbolic db libs node (dn ++ pn)) :=
  findBySymbolic_enc hdb libs hl node hnode dn pn hd hpn

open Tranp.ScopeStr in
/-- `by_standard` / `get_object` on strings = encoding of the abstract lookup. -/
theorem string_refines_standard (db : Tbl Str Str) (hdb : TblOk db) (libs : List Str) (hl : ∀ m ∈ libs, ModOk m)
    (word : Str) (hw : Ident word) :
    ScopeStr.findStandard (encTbl db) libs word = encRes (Scope.findStandard db libs word) :=
  findStandard_enc hdb libs hl word hw

open Tranp.ScopeStr in
/-- `Node.scope` / `namespace` / `fullyname` / `DeclThisVar.fullyname` on strings = encodings of the abstract ones. -/
theorem string_refines_names (mod : Str) (hm : ModOk mod) (chain : List (Anc Str)) (hc : ∀ a ∈ chain, AncOk a)
    (isDomain : Bool) (dn : List Str) (hd : Idents dn) (cls : Str) (hcls : Ident cls) (id : Int) :
    ScopeStr.scopeOf mod (chain.map encAnc) = encKey (Scope.scopeOf mod chain) ∧
    ScopeStr.namespaceOf mod (chain.map encAnc) = encKey (Scope.namespaceOf mod chain) ∧
    ScopeStr.fullynameOf mod (chain.map encAnc) isDomain (encName dn) cls id =
      encFullyname (Scope.fullynameOf mod chain isDomain dn cls id) ∧
    ScopeStr.fullynameThisVar (encKey (Scope.scopeOf mod chain)) (encName dn) =
      encKey (Scope.fullynameThisVar (Scope.scopeOf mod chain) dn) :=
  ⟨scopeOf_enc hm chain hc, namespaceOf_enc hm chain hc, fullynameOf_enc hm chain hc isDomain dn hd cls hcls id,
    fullynameThisVar_enc (scopeOf_keyOk hm chain hc) dn hd⟩

open Tranp.ScopeStr in
/-- **C08.string_refines** (the bundle): when every name is a non-empty string without `.` and `#` and every module path a
    non-empty string without `#`, the functions on the joined strings compute the encodings of the functions on element lists. -/
theorem string_refines (db : Tbl Str Str) (hdb : TblOk db) (libs : List Str) (hl : ∀ m ∈ libs, ModOk m)
    (node : NodeInfo Str Str) (hnode : KeyOk node.scope) (dn pn : List Str) (hd : Idents dn) (hpn : Idents pn)
    (chain : List (Anc Str)) (hc : ∀ a ∈ chain, AncOk a) (isDomain : Bool) (cls : Str) (hcls : Ident cls) (id : Int) :
    ScopeStr.findBySymbolic (encTbl db) libs (encNode node) (encName dn) (encName pn) =
      encRes (Scope.findBySymbolic db libs node (dn ++ pn)) ∧
    ScopeStr.makeScopes (encTbl db) (encNode node) = (Scope.makeScopes db node).map encKey ∧
    ScopeStr.scopeOf node.scope.mod (chain.map encAnc) = encKey (Scope.scopeOf node.scope.mod chain) ∧
    ScopeStr.namespaceOf node.scope.mod (chain.map encAnc) = encKey (Scope.namespaceOf node.scope.mod chain) ∧
    ScopeStr.fullynameOf node.scope.mod (chain.map encAnc) isDomain (encName dn) cls id =
      encFullyname (Scope.fullynameOf node.scope.mod chain isDomain dn cls id) :=
  ⟨string_refines_resolve db hdb libs hl node hnode dn pn hd hpn, string_refines_scopes db hdb node hnode,
    (string_refines_names node.scope.mod hnode.1 chain hc isDomain dn hd cls hcls id).1,
    (string_refines_names node.scope.mod hnode.1 chain hc isDomain dn hd cls hcls id).2.1,
    (string_refines_names node.scope.mod hnode.1 chain hc isDomain dn hd cls hcls id).2.2.1⟩

/-- non-vacuity of Part 2: the demo table, node and names are well-formed, and the two layers agree on a real lookup -/
example : ScopeStr.TblOk demoTbl ∧ ScopeStr.KeyOk demoNode.scope ∧ ScopeStr.Idents [['a','b','c'], ['y']] := by
  decide +kernel


example :
    ScopeStr.findBySymbolic (ScopeStr.encTbl demoTbl) [['l']] (ScopeStr.encNode demoNode) ['a','b','c','.','y'] [] =
      ScopeStr.encRes (Scope.findBySymbolic demoTbl [['l']] demoNode [['a','b','c'], ['y']]) ∧
    ScopeStr.makeScopes (ScopeStr.encTbl demoTbl) (ScopeStr.encNode demoNode) = [['m','#','a','b','.','f'], ['m']] := by
  decide +kernel

/-! ### declaration merging (`VarsCollector._merged`, repaired in 526fc7c: element-wise scope prefix) -/

open Tranp.ScopeStr in
/-- `_merged` and `_collect_impl` on the joined strings = encodings of merging on element lists, for all well-formed
    declarations (this statement was FALSE for the bare `startswith` the code used before 526fc7c; the former witnesses are
    the regression examples below and corpus/C08). -/
theorem string_refines_merging (decl add : List (DVar Str Str)) (h : ∀ v ∈ decl ++ add, DVarOk v)
    (block : List (Stmt (DVar Str Str))) (hb : Stmt.AllBlock DVarOk block) :
    ScopeStr.merged (decl.map encDVar) (add.map encDVar) = (Scope.merged decl add).map encDVar ∧
    ScopeStr.collect (Stmt.mapBlock encDVar block) = (Scope.collect block).map encDVar := by
  constructor
  · exact mergedG_map_on DVar.fullyname Scope.related DVarS.fullyname ScopeStr.related encDVar DVarOk
      encDVar_key_iff related_enc decl add (fun x hx => h x (by simp [hx])) (fun x hx => h x (by simp [hx]))
  · have := collectBlockG_map_on DVar.fullyname Scope.related DVarS.fullyname ScopeStr.related encDVar DVarOk
      encDVar_key_iff related_enc [] block (by intro x hx; simp at hx) hb
    simpa [ScopeStr.collect, Scope.collect] using this

def mkVar (scope : List Str) (name : Str) : DVar Str Str :=
  ⟨⟨['m'], scope ++ [name]⟩, [name], ⟨['m'], scope⟩⟩

/-- former witness 1: two SIBLING loops `for@10` and `for@107` of one function declare `x` -/
def witnessIds : List (DVar Str Str) × List (DVar Str Str) :=
  ([mkVar [['f'], ['f','o','r','@','1','0']] ['x']], [mkVar [['f'], ['f','o','r','@','1','0','7']] ['x']])

/-- former witness 2: scopes `m#ab` and `m#abc` -/
def witnessNames : List (DVar Str Str) × List (DVar Str Str) :=
  ([mkVar [['a','b']] ['x']], [mkVar [['a','b','c']] ['x']])

/-- regression: on both former witnesses the two layers agree now, and the second declaration is kept -/
example :
    ScopeStr.merged (witnessIds.1.map ScopeStr.encDVar) (witnessIds.2.map ScopeStr.encDVar) =
      (Scope.merged witnessIds.1 witnessIds.2).map ScopeStr.encDVar ∧
    (Scope.merged witnessIds.1 witnessIds.2).length = 2 ∧
    ScopeStr.merged (witnessNames.1.map ScopeStr.encDVar) (witnessNames.2.map ScopeStr.encDVar) =
      (Scope.merged witnessNames.1 witnessNames.2).map ScopeStr.encDVar ∧
    (ScopeStr.merged (witnessNames.1.map ScopeStr.encDVar) (witnessNames.2.map ScopeStr.encDVar)).length = 2 := by
  decide +kernel

/-- non-vacuity: a nested block of well-formed declarations; the inner re-declaration of `x` is merged away -/
example :
    (∀ v ∈ witnessIds.1 ++ witnessIds.2, ScopeStr.DVarOk v) ∧
    Stmt.AllBlock ScopeStr.DVarOk [Stmt.mk [[mkVar [['f']] ['x']]] [[Stmt.mk [[mkVar [['f'], ['i','f','@','3']] ['x']]] []]]] ∧
    (Scope.collect [Stmt.mk [[mkVar [['f']] ['x']]] [[Stmt.mk [[mkVar [['f'], ['i','f','@','3']] ['x']]] []]]]).length = 1 := by
  refine ⟨by decide +kernel, ?_, by decide +kernel⟩
  simp only [Stmt.AllBlock, Stmt.All, Stmt.AllBlocks, and_true]
  decide +kernel


/-! ## Part 3: class naming, member lookup by name, fragment post-processing -/

section
variable {M N N' : Type} [DecidableEq M] [DecidableEq N] [DecidableEq N']
open Tranp.Naming

/-- `ClassDomainNaming.domain_name / accessible_name / fullyname` (alias table, `Embed.alias`, enclosing classes) commute
    with every injective renaming of the user names (alias texts are not names). -/
theorem equivariant_naming (r : N → N') (hr : Function.Injective r) (aliases : Option (Aliases M N)) (tbl : Aliases M N)
    (t : Bool) (ancestors : List (Cls M N)) (c : Cls M N) (mod : M) :
    domainName (aliases.map (Aliases.map r)) t (c.map r) = (domainName aliases t c).map r ∧
    accessibleName (Aliases.map r tbl) t (ancestors.map (Cls.map r)) (c.map r) = (accessibleName tbl t ancestors c).map (DomOut.map r) ∧
    (Naming.fullyname (Aliases.map r tbl) (ancestors.map (Cls.map r)) (c.map r) mod).2 =
      (Naming.fullyname tbl ancestors c mod).2.map (DomOut.map r) :=
  ⟨domainName_map r hr aliases t c, accessibleName_map r hr tbl t ancestors c, accessibleName_map r hr tbl false ancestors c⟩

/-- `Enum.var_value`: lookup of a member by its name commutes with every injective renaming. -/
theorem equivariant_member_lookup {V : Type} (r : N → N') (hr : Function.Injective r) (vars : List (N × V)) (name : N) :
    varValue (vars.map (fun nv => (r nv.1, nv.2))) (r name) = varValue vars name :=
  varValue_map r hr vars name

end

open Tranp.NamingStr Tranp.ScopeStr in
/-- Class naming on strings = the dotted string of the abstract pieces, for well-formed keys and non-empty names. -/
theorem string_refines_naming (tbl : Naming.Aliases Str Str) (htbl : ∀ kv ∈ tbl, KeyOk kv.1) (t : Bool)
    (ancestors : List (Naming.Cls Str Str)) (ha : ∀ a ∈ ancestors, ClsOk a) (c : Naming.Cls Str Str) (hc : ClsOk c)
    (mod : Str) (hm : mod ≠ []) :
    NamingStr.domainName (some (encAliases tbl)) t (encCls c) = encOut (Naming.domainName (some tbl) t c) ∧
    NamingStr.domainName none t (encCls c) = encOut (Naming.domainName none t c) ∧
    NamingStr.accessibleName (encAliases tbl) t (ancestors.map encCls) (encCls c) = encPieces (Naming.accessibleName tbl t ancestors c) ∧
    NamingStr.fullyname (encAliases tbl) (ancestors.map encCls) (encCls c) mod =
      dsnJoin [mod, encPieces (Naming.fullyname tbl ancestors c mod).2] :=
  ⟨domainName_enc tbl htbl t c hc, domainName_noHandler_enc t c, accessibleName_enc tbl htbl t ancestors ha c hc,
    fullyname_enc tbl htbl ancestors ha c hc mod hm⟩

/-- the string layer of the member lookup IS the abstract lookup at `N := Str` (whole-name equality, no decoding involved) -/
theorem string_refines_member_lookup {V : Type} (vars : List (Str × V)) (name : Str) :
    NamingStr.varValue vars name = Naming.varValue vars name := rfl

def clsBox : Naming.Cls Str Str := ⟨⟨['m'], [['B','o','x']]⟩, ['B','o','x'], none⟩
def clsItem : Naming.Cls Str Str := ⟨⟨['m'], [['B','o','x'], ['I','t','e','m']]⟩, ['I','t','e','m'], none⟩
def clsBoxItem : Naming.Cls Str Str := ⟨⟨['m'], [['B','o','x'], ['B','o','x','I','t','e','m']]⟩, ['B','o','x','I','t','e','m'], none⟩

/-- non-vacuity + regression: `Box.Item` and `Box.BoxItem` are both qualified with their namespace -/
example :
    NamingStr.accessibleName [] true [NamingStr.encCls clsBox] (NamingStr.encCls clsItem) = ['B','o','x','.','I','t','e','m'] ∧
    NamingStr.accessibleName [] true [NamingStr.encCls clsBox] (NamingStr.encCls clsBoxItem) = ['B','o','x','.','B','o','x','I','t','e','m'] ∧
    NamingStr.ClsOk clsBox ∧ NamingStr.ClsOk clsBoxItem := by
  refine ⟨by decide +kernel, by decide +kernel, ?_, ?_⟩ <;> (unfold NamingStr.ClsOk; decide +kernel)

/-- REGRESSION for a seeded mutation: the refinement is FALSE for the variant of `accessible_name` that skips the namespace when
    `domain_name.startswith(namespace)` (bare prefix): the nested class `Box.BoxItem` loses its namespace. -/
def naming_startswith_statement : Prop :=
  ∀ (ancestors : List (Naming.Cls Str Str)) (c : Naming.Cls Str Str), (∀ a ∈ ancestors, NamingStr.ClsOk a) → NamingStr.ClsOk c →
    NamingStr.accessibleNameBroken [] true (ancestors.map NamingStr.encCls) (NamingStr.encCls c) =
      NamingStr.encPieces (Naming.accessibleName [] true ancestors c)

theorem naming_startswith_counterexample : ¬ naming_startswith_statement := by
  intro h
  have h1 := h [clsBox] clsBoxItem (by intro a ha; simp at ha; subst ha; unfold NamingStr.ClsOk; decide +kernel)
    (by unfold NamingStr.ClsOk; decide +kernel)
  revert h1
  decide +kernel

/-- REGRESSION for a seeded mutation: looking a member up by SUFFIX (`var_name.endswith(member)`) is not the lookup by name:
    with members `RED`, `DARK_RED` the request `DARK_RED` finds `RED`. -/
theorem member_lookup_suffix_counterexample :
    ¬ ∀ (vars : List (Str × Nat)) (name : Str), NamingStr.varValueBroken vars name = NamingStr.varValue vars name := by
  intro h
  have h1 := h [(['R','E','D'], 1), (['D','A','R','K','_','R','E','D'], 2)] ['D','A','R','K','_','R','E','D']
  revert h1
  decide +kernel

example : Naming.varValue [(['R','E','D'], 1), (['D','A','R','K','_','R','E','D'], 2)] ['D','A','R','K','_','R','E','D'] = some 2 := by
  decide +kernel

/-- `DSN.relativefy` as a function (dsn.py:111-126): the bare `origin.split(starts)[1]` is not "the path after `starts`". -/
def relativefy_statement : Prop :=
  ∀ starts rest : Str, starts ≠ [] → rest ≠ [] → (∀ c ∈ starts ++ rest, c ≠ '#') →
    (∀ e ∈ Str.splitOn '.' starts ++ Str.splitOn '.' rest, e ≠ []) →
    NamingStr.relativefy (starts ++ '.' :: rest) starts = some rest

theorem relativefy_counterexample : ¬ relativefy_statement := by
  intro h
  have h1 := h ['a','b'] ['a','b','.','c'] (by decide) (by decide) (by decide +kernel) (by decide +kernel)
  revert h1
  decide +kernel

/-! ### fragment post-processing (`PatternParser`): well-formed fragments are taken apart at their last operator, whatever the
    identifiers are spelled like — so the functions commute with every renaming of identifier tokens -/

open Tranp.Fragment in
/-- `break_relay('recv<op>ident')` = `(recv, op)` for every identifier `ident` and every non-empty one-line receiver. -/
theorem fragment_relay (recv ident : Str) (op : Op) (hr : recv ≠ []) (hn : '\n' ∉ recv) (hi : Word ident) :
    breakRelay (recv ++ op.text ++ ident) = some (recv, op.text) :=
  breakRelay_wf recv ident op hr hn hi

open Tranp.Fragment in
/-- `break_dict_iterator('recv<op>method()')` = `(recv, op, method)` for `op ∈ {->, .}`. -/
theorem fragment_dict_iterator (recv m : Str) (op : Op) (hop : op ≠ .scope) (hr : recv ≠ []) (hn : '\n' ∉ recv) (hm : Word m) :
    breakDictIterator (recv ++ op.text ++ m ++ ['(', ')']) = some (recv, op.text, m) :=
  breakDictIterator_wf recv m op hop hr hn hm

open Tranp.Fragment in
/-- `sub_cvar_relay` / `sub_cvar_to` remove a trailing `<op>name()` exactly when `name` IS `on` / one of the cast words —
    a method whose name merely ends with such a word (`xon`, `draw`) is left alone. -/
theorem fragment_cvar_suffix (recv ident : Str) (op : Op) (hi : Word ident) :
    subCvarRelay (recv ++ op.text ++ ident ++ ['(', ')']) =
      (if onWord.contains ident then recv else recv ++ op.text ++ ident ++ ['(', ')']) ∧
    subCvarTo (recv ++ op.text ++ ident ++ ['(', ')']) =
      (if castWords.contains ident then recv else recv ++ op.text ++ ident ++ ['(', ')']) :=
  ⟨subCallSuffix_call onWord recv ident op hi, subCallSuffix_call castWords recv ident op hi⟩

open Tranp.Fragment in
/-- `pluck_class_var_name('<type> <name> = …')` = `name` for a type without white space. -/
theorem fragment_class_var_name (ty name rest : Str) (hty : ∀ c ∈ ty, isSpace c = false) (hn : Word name) :
    pluckClassVarName (ty ++ ' ' :: name ++ ' ' :: '=' :: rest) = name :=
  pluckClassVarName_simple ty name rest hty hn

open Tranp.Fragment in
/-- non-vacuity: `p.xon()` keeps its call, `p.on()` loses it, `a->b.items()` splits at the last operator -/
example :
    Word ['x','o','n'] ∧
    subCvarRelay ['p','.','x','o','n','(',')'] = ['p','.','x','o','n','(',')'] ∧
    subCvarRelay ['p','.','o','n','(',')'] = ['p'] ∧
    subCvarTo ['p','-','>','d','r','a','w','(',')'] = ['p','-','>','d','r','a','w','(',')'] ∧
    breakDictIterator ['a','-','>','b','.','i','t','e','m','s','(',')'] = some (['a','-','>','b'], ['.'], ['i','t','e','m','s']) ∧
    breakRelay ['a',':',':','b','-','>','c'] = some (['a',':',':','b'], ['-','>']) ∧
    pluckClassVarName ['i','n','t',' ','n',' ','=',' ','0',';'] = ['n'] := by
  decide +kernel


open Tranp.Fragment in
/-- `is_initializer_call` accepts only a value that starts with the type name FOLLOWED BY `(`: a callee whose name merely begins
    with the (rendered) type name — `Widget_build(2)`, `int_of(1)` — is never taken for a constructor call. -/
theorem initializer_call_callee (value varType : Str) (h : isInitializerCall value varType = some true) :
    Str.startsWith value (varType ++ ['(']) = true ∧ lastBlockPrefix value = some varType := by
  unfold isInitializerCall at h
  split at h
  · simp at h
  · rename_i hc
    simp only [Bool.or_eq_true, Bool.not_eq_true', not_or, Bool.not_eq_false] at hc
    refine ⟨hc.1, ?_⟩
    cases hp : lastBlockPrefix value with
    | none => rw [hp] at h; simp at h
    | some p => rw [hp] at h; simp at h; rw [h]

open Tranp.Fragment in
/-- REGRESSION for a seeded mutation: without the `(` in the prefix test, `Widget_build(2)` passes for the type `Widget`. -/
theorem initializer_call_prefix_counterexample :
    ¬ ∀ value varType : Str, isInitializerCallBroken value varType = isInitializerCall value varType := by
  intro h
  have h1 := h ['W','i','d','g','e','t','_','b','u','i','l','d','(','2',')'] ['W','i','d','g','e','t']
  revert h1
  decide +kernel

open Tranp.Fragment in
example :
    isInitializerCall ['A','(','1',')'] ['A'] = some true ∧
    isInitializerCall ['A','(','1',')','.','d','(',')'] ['A'] = some false ∧
    isInitializerCall ['A','B','(','1',')'] ['A'] = some false ∧
    isInitializerCall ['A','(','B','(','1',')',')'] ['A'] = some true := by
  decide +kernel


/-! ## Part 4: generated regular expressions and the generated site table -/

open Tranp.Regex in
/-- **regex_identifier_closed**: in every pattern tranp applies to rendered C++ text (as translated from the source on this
    run), every character test other than a fixed literal treats all identifier characters `[A-Za-z0-9_]` alike — a set
    contains all of them or none (`[\w\d]`, `[^;]`, `\s`, …; `[a-zA-Z\d]` would not), and no `[^c]` excludes one. -/
theorem regex_identifier_closed : ∀ nr ∈ Generated.C08Regex.all, nr.2.identClosed = true := by
  decide +kernel

open Tranp.Regex in
/-- What closedness buys: matching a generated pattern gives the same result (same end offset, same group spans) on a text and
    on the same text with its identifier characters permuted by any `σ` that fixes the identifier characters the pattern spells
    out (`__init__`, `this`, `return`, `on`, …) — for ALL texts. (Spelling-independence; a renaming that also changes the LENGTH
    of a name is covered by `fragment_*` for the modelled helpers and by the search.) -/
theorem regex_charmap_invariant (σ : Char → Char) (hσ : IdentMap σ) (name : String) (r : Re)
    (hr : (name, r) ∈ Generated.C08Regex.all) (hlit : ∀ x ∈ r.literalWordChars, σ x = x) (s : Str) :
    fullmatch r (s.map σ) = fullmatch r s :=
  fullmatch_map σ hσ r (Re.respects_of_closed hσ r (regex_identifier_closed (name, r) hr) hlit) s

/-- non-vacuity: swapping `a` and `b` is an identifier map; `SuperCall` spells out `_ i n t` only -/
def swapAB : Char → Char := fun c => if c = 'a' then 'b' else if c = 'b' then 'a' else c

example : Regex.IdentMap swapAB ∧
    (∀ x ∈ Generated.C08Regex.CppViewHelper_SuperInitializer_SuperCall.literalWordChars, swapAB x = x) ∧
    ("CppViewHelper.SuperInitializer.SuperCall", Generated.C08Regex.CppViewHelper_SuperInitializer_SuperCall) ∈ Generated.C08Regex.all := by
  refine ⟨⟨?_, ?_, ?_⟩, by decide +kernel, by decide +kernel⟩
  · intro c hc; unfold swapAB; split
    · decide
    · split
      · decide
      · exact hc
  · intro c hc; unfold swapAB
    have ha : c ≠ 'a' := by intro e; subst e; revert hc; decide
    have hb : c ≠ 'b' := by intro e; subst e; revert hc; decide
    simp [ha, hb]
  · intro x y h
    unfold swapAB at h
    by_cases hxa : x = 'a' <;> by_cases hxb : x = 'b' <;> by_cases hya : y = 'a' <;> by_cases hyb : y = 'b' <;> simp_all <;> first | exact absurd h.symm hyb | exact absurd h.symm hya

/-- REGRESSION for a seeded mutation: the class `[a-zA-Z\d]` (no underscore) is not identifier-closed. -/
example : (Regex.CharSet.mk false [.range 'a' 'z', .range 'A' 'Z', .digit]).identClosed = false := by decide +kernel

open Tranp.Generated.C08Sites in
/-- The generated site table (every string-inspecting call / `in` / `re` use / `sorted()`-like call of the anchored files,
    cpp_view_helper.py, syntax/node/definition/*.py, and every string test of the Jinja templates, with the verdict of the
    audit) contains exactly these defective sites — the substring tests of list_sort.j2 with the lambda parameter name
    (reproduced on the real code, proposed/C08-list-sort-substring-replace.md, a listed known finding; the template calls itself a
    limited conversion). The `Iterator` / `ItemsView` prefix tests of _method_body.j2 were repaired in 3ee1aa1. Every other site has
    a verdict that does not depend on the spelling of user identifiers, and none is unaudited (the translator refuses unknown sites). -/
theorem site_table_defects :
    (sites.filter (fun s => s.verdict = .defect)).map (fun s => s.file) =
      ["data/cpp/template/func_call/list_sort.j2", "data/cpp/template/func_call/list_sort.j2"] := by
  decide +kernel

open Tranp.Generated.C08Sites in
/-- REGRESSION (fixed 448468e): the table as it was before the repair — the two `startswith('const')` sites of
    cpp_view_helper.py carried the verdict `defect`. -/
example :
    let old : List Site := [
      ⟨"rogw/tranp/implements/cpp/view/cpp_view_helper.py", "CppViewHelper.Param.var_type_origin", "str.startswith", "self.var_type.startswith('const')", .defect⟩,
      ⟨"rogw/tranp/implements/cpp/view/cpp_view_helper.py", "CppViewHelper.VarType.annotated", "str.startswith", "var_type.startswith('const')", .defect⟩]
    (old.filter (fun s => s.verdict = .defect)).length = 2 := by
  decide +kernel

/-! ## Part 5: the C++ view helpers decide by whole names (cpp_view_helper.py) -/

open Tranp.ViewHelper in
/-- `VarType.annotated('<type name><rest>', annotations, immutable_types)` for every rendered type name (`Box`, `Box::Item`,
    `constant`, `std::vector`) followed by anything that does not continue the name (`<int>`, `*`, `&`, blank, nothing):
    unchanged under `Embed::mutable`; `const …&` / `const …*` under `Embed::immutable` or when the WHOLE name is listed as an
    immutable type; unchanged otherwise. The spelling of the name enters through list membership only — in particular a name
    that merely begins with `const` is not taken for a qualified type (the defect repaired in 448468e). -/
theorem view_annotated_whole_name (ty rest : Str) (annos imm : List Str) (hty : TypeName ty) (hrest : Stops rest)
    (hc : ty ≠ ['c','o','n','s','t'] ∨ rest.head? ≠ some ' ') :
    annotated (ty ++ rest) annos imm = .ok (
      if annos.contains annoMutable then ty ++ rest
      else if annos.contains annoImmutable || imm.contains ty then toImmutable (ty ++ rest)
      else ty ++ rest) :=
  annotated_typeName ty rest annos imm hty hrest hc

open Tranp.ViewHelper in
/-- REGRESSION (fixed 448468e): with the qualifier test written without its blank, the class `constant` annotated
    `Embed::immutable` keeps its by-value type. -/
theorem view_annotated_const_prefix_counterexample :
    ¬ ∀ (vt : Str) (annos imm : List Str), annotatedBroken vt annos imm = annotated vt annos imm := by
  intro h
  have h1 := h ['c','o','n','s','t','a','n','t'] [annoImmutable] []
  revert h1
  decide +kernel

open Tranp.ViewHelper in
/-- `Param.var_type_origin`: the base type of `<name>`, `<name><…>`, `<name>…*`, `<name>…&` and of `const <name>…` is the
    whole type name, for every type name other than the word `const` itself. -/
theorem view_var_type_origin (ty rest : Str) (hty : TypeName ty) (hc : ty ≠ ['c','o','n','s','t'])
    (hrest : rest = [] ∨ rest.head? = some '<' ∨ (Stops rest ∧ endsWithRefOrPtr (ty ++ rest) = true)) :
    varTypeOrigin (ty ++ rest) = .ok ty ∧
    (Stops rest → varTypeOrigin (constBlank ++ ty ++ rest) = .ok ty) :=
  ⟨varTypeOrigin_typeName ty rest hty hc hrest, fun hs => varTypeOrigin_const ty rest hty hs⟩

open Tranp.ViewHelper Tranp.Fragment in
/-- `SuperInitializer.parse('<Base>::__init__(<args>);')` = (`Base`, `args`) for every identifier `Base` and every argument text
    without `;` — the base-class name is returned verbatim, whatever it is spelled like. -/
theorem view_super_initializer (base args : Str) (hb : Word base) (ha : ';' ∉ args) :
    superInitParse (base ++ superCallMid ++ args ++ [')', ';']) = .ok (base, args) :=
  superInitParse_wf base args hb ha

open Tranp.ViewHelper Tranp.Fragment in
/-- non-vacuity: `constant` and `Box::Item` are type names, `<int>&` stops them; the three helpers on concrete texts, and the
    hand-written scanners agree there with the compositions over the generated patterns -/
example :
    TypeName ['c','o','n','s','t','a','n','t'] ∧ TypeName ['B','o','x',':',':','I','t','e','m'] ∧ Stops ['<','i','n','t','>','&'] ∧
    annotated ['c','o','n','s','t','a','n','t'] [annoImmutable] [] = .ok ['c','o','n','s','t',' ','c','o','n','s','t','a','n','t','&'] ∧
    Gen.annotated ['c','o','n','s','t','a','n','t'] [annoImmutable] [] = annotated ['c','o','n','s','t','a','n','t'] [annoImmutable] [] ∧
    varTypeOrigin ['c','o','n','s','t',' ','B','o','x','<','i','n','t','>','&'] = .ok ['B','o','x'] ∧
    Gen.varTypeOrigin ['c','o','n','s','t',' ','B','o','x','<','i','n','t','>','&'] = .ok ['B','o','x'] ∧
    Word ['B','a','s','e','_','2'] ∧
    superInitParse (['B','a','s','e','_','2'] ++ superCallMid ++ ['a',',',' ','b'] ++ [')', ';']) = .ok (['B','a','s','e','_','2'], ['a',',',' ','b']) ∧
    Gen.superInitParse (['B','a','s','e','_','2'] ++ superCallMid ++ ['a',',',' ','b'] ++ [')', ';']) = .ok (['B','a','s','e','_','2'], ['a',',',' ','b']) := by
  decide +kernel

/-! ### the capture list of a lambda / closure (`Lambda.ref_vars`, `Closure.ref_vars`, `make_lambda_binds`) -/

section
variable {N N' : Type} [DecidableEq N] [DecidableEq N']

/-- The referenced variables that are not the lambda's own parameters, and the capture list built from them (first reference
    first, every name once), commute with every injective renaming: which variables are captured depends on which names are
    EQUAL to a parameter's name, not on how any two names are spelled relative to each other. -/
theorem equivariant_capture (r : N → N') (hr : Function.Injective r) (params refs : List N) :
    Capture.refVars (params.map r) (refs.map r) = (Capture.refVars params refs).map r ∧
    Capture.binds (params.map r) (refs.map r) = (Capture.binds params refs).map r :=
  ⟨Capture.refVars_map r hr params refs, Capture.binds_map r hr params refs⟩

end

section
variable {N N' : Type} [DecidableEq N] [DecidableEq N']

/-- The type parameters a generic function / method / class method is rendered with (`Function.templates`, `Method.templates`:
    type variables of parameters and return type in order of FIRST USE, a method without those of its class) commute with every
    injective renaming — the C++ `template<typename …>` header follows the signature, not the alphabet. -/
theorem equivariant_templates (r : N → N') (hr : Function.Injective r) (klass used : List N) :
    Capture.templatesOf (klass.map r) (used.map r) = (Capture.templatesOf klass used).map r :=
  Capture.binds_map r hr klass used

end

/-- swapping the two one-letter names `a` and `b` -/
def swapNames : Str → Str := fun s => if s = ['a'] then ['b'] else if s = ['b'] then ['a'] else s

theorem swapNames_injective : Function.Injective swapNames := by
  intro x y h
  unfold swapNames at h
  by_cases hxa : x = ['a'] <;> by_cases hxb : x = ['b'] <;> by_cases hya : y = ['a'] <;> by_cases hyb : y = ['b'] <;>
    simp_all

/-- REGRESSION (seeded mutation): ordering the type variables by name (`sorted(…, key=domain_name)`) is NOT equivariant — the
    injective renaming that swaps `a` and `b` turns the header `<a, b>` of `def f(x: b, y: a)` into `<a, b>` again instead of `<b, a>`. -/
theorem templates_sorted_counterexample :
    ¬ ∀ (r : Str → Str), Function.Injective r → ∀ klass used : List Str,
      Capture.templatesSorted (klass.map r) (used.map r) = (Capture.templatesSorted klass used).map r := by
  intro h
  have h1 := h swapNames swapNames_injective [] [['b'], ['a']]
  revert h1
  decide +kernel

/-- non-vacuity: `def zip_with(self, left: T2, right: T1) -> Pair[T2, T1]` in `class Shelf(Generic[T0])` has the header `<T2, T1>` -/
example : Capture.templatesOf [['T','0']] [['T','0'], ['T','2'], ['T','1'], ['T','2'], ['T','1']] = [['T','2'], ['T','1']] := by
  decide +kernel

/-- REGRESSION (seeded mutation): with the parameters removed by `startswith(<parameter names>)` a captured variable whose name
    begins with a parameter's name (`factor_bias` beside the parameter `factor`) drops out of the capture list. -/
theorem capture_prefix_counterexample :
    ¬ ∀ params refs : List Str, Capture.refVarsBroken params refs = Capture.refVars params refs := by
  intro h
  have h1 := h [['f','a','c','t','o','r']] [['f','a','c','t','o','r'], ['f','a','c','t','o','r','_','b','i','a','s'], ['g','a','i','n']]
  revert h1
  decide +kernel

/-- non-vacuity: `lambda factor: factor + factor_bias + gain + gain` captures `factor_bias, gain` -/
example : Capture.binds [['f','a','c','t','o','r']]
    [['f','a','c','t','o','r'], ['f','a','c','t','o','r','_','b','i','a','s'], ['g','a','i','n'], ['g','a','i','n']] =
    [['f','a','c','t','o','r','_','b','i','a','s'], ['g','a','i','n']] := by decide +kernel

/-! ## Part 6: every member-name comparison of py2cpp.py is tied to the receiver's type (generated table) -/

/-- a word a user class may give to one of its members (dunder names are reserved) -/
def userWord (w : Str) : Bool := !(w.take 2 == ['_', '_'])

open Tranp.Generated.C08Names in
/-- **name_sites_guarded**: in the table generated from py2cpp.py on this run, every comparison of a MEMBER name (`….prop.tokens`,
    `….prop.domain_name`) with constant words of which at least one can be the name of a user member (`items`, `keys`, `values`,
    `pop`, `copy`, `sort`, `split`, `on`, `raw`, `name`, `value`, …) stands under a type guard — `type_is`, `cvars.contains`,
    `cvars.equals`, `isinstance(<x>.types, …)` or a predicate of Py2Cpp that is itself such a site. A user class that happens to
    use one of these spellings is therefore treated like any other class; dropping a guard (a seeded mutation: `for … in
    bag.items()` of a user class rendered as a dict iteration) makes this theorem false. -/
theorem name_sites_guarded :
    ∀ s ∈ sites, s.role = .member → s.dynamic = false → s.words.any userWord = true → s.guards ≠ [] := by
  decide +kernel

open Tranp.Generated.C08Names in
/-- non-vacuity: the table has member sites with user words (the `for` statement over `items / keys / values`) and sites that
    compare with reserved words only (`__init__`) -/
example :
    (sites.filter (fun s => s.role = .member && s.words.any userWord)).length ≥ 10 ∧
    (sites.filter (fun s => s.fn = "on_for" && s.role = .member)).map (fun s => (s.words, s.guards)) =
      [([['i','t','e','m','s'], ['k','e','y','s'], ['v','a','l','u','e','s']], ["type_is"])] ∧
    (sites.filter (fun s => s.role = .member && !s.words.any userWord)).length ≥ 1 := by
  decide +kernel

end Tranp.C08
