/-
  Property C06 — Non-forced runs leave every output equal to a forced run.
  Property theorems only; helper lemmas live in Tranp/Lemmas/Runner.lean, witnesses in Tranp/Lemmas/RunnerWitness.lean.

  Reading guide (model: Tranp/Model/Runner.lean). `headerSlice` is the `find`/`rfind` slicing of `MetaHeader.try_from_content`,
  `tryFromContent loads av` the whole classmethod over an abstract `json.loads`, `Header.toJson` / `toHeaderStr` the real
  `json.dumps(..., separators=(',', ':'))` printer. `runStep E w argForce` is `Runner._run_impl` (targets selected up front,
  `effForce` = `args.force or config.get('force', False)`), `forcedRun` writes every module, `exec` runs a history of
  edit / run / run -f / rm-output / set-dirs / set-force operations. `E.out` is the transpiler body (may read every source),
  `E.hash` / `E.md5` are md5 on sources / header texts, `σ` is the type of source texts.
  `NoEarly Tag pre`: the tag does not occur starting inside `pre`. `Header.Normal av h`: `h.version` is truthy or is the
  substituted `Versions.app` (every header `MetaHeader.__init__` can hold).
-/
import Tranp.Lemmas.RunnerWitness
import Tranp.Lemmas.RunnerLoads
import Tranp.Lemmas.RunnerPaths
import Tranp.Generated.RunnerHeader

namespace Tranp.C06
open Tranp Tranp.Runner

/-! ## the header written into an output is read back to the same value -/

/-- JSON safety, proved on the printer: `to_json()` never contains a raw line break … -/
theorem json_no_newline (h : Header) : '\n' ∉ h.toJson := toJson_no_newline h

example : (Header.make ['1'] (.str ['a', '\n', '"', '}']) .null none).toJson =
    "{\"version\":\"1\",\"module\":\"a\\n\\\"}\",\"transpiler\":null}".toList := by decide +kernel

/-- … and ends with the closing brace of its top-level object. -/
theorem json_ends_with_brace (h : Header) : ∃ x, h.toJson = x ++ ['}'] := toJson_last h

/-- The text handed to `from_json` is exactly `' ' ++ to_json()`: for every header, every body and every prefix in which the
    tag does not start (the `find`/`rfind` slicing picks the first tag, the first line break after it and the last `}` before that). -/
theorem header_slice (pre body : Str) (h : Header) (hpre : NoEarly Tag pre) :
    headerSlice (pre ++ h.toHeaderStr ++ '\n' :: body) = some (' ' :: h.toJson) := by
  unfold Header.toHeaderStr
  exact headerSlice_line pre h.toJson body hpre (toJson_no_newline h) (toJson_last h)

example : NoEarly Tag [] ∧ NoEarly Tag ['/', '/', ' '] ∧ ¬ NoEarly Tag (['x'] ++ Tag) := by decide

/-- Round trip: `try_from_content(pre + to_header_str() + '\n' + body)` is the header itself, provided `json.loads` decodes
    this header's JSON text (the parser is not modelled; stated per header, so the hypothesis is satisfiable by any decoder). -/
theorem header_rt (loads : Str → Except Err Json) (av pre body : Str) (h : Header)
    (hpre : NoEarly Tag pre) (hloads : loads (' ' :: h.toJson) = .ok h.toJsonVal) (hn : h.Normal av) :
    tryFromContent loads av (pre ++ h.toHeaderStr ++ '\n' :: body) = .ok (some h) :=
  tryFromContent_line loads av pre body h hpre hloads hn

example : ∃ (loads : Str → Except Err Json) (h : Header),
    loads (' ' :: h.toJson) = .ok h.toJsonVal ∧ h.Normal ['1'] ∧ falsy h.module = false :=
  ⟨tableLoads wTable, curHeader (wEnv outDep) wV1 true mC, w_loadsSound outDep wV1 (by simp [wVers]) true mC (by simp), curHeader_normal _ _ _ _, rfl⟩

/-- **Round trip without a hypothesis on the decoder.** With `json.loads` := `loadsCodec` (Model/RunnerLoads.lean: leading white
    space skipped, then the JSON codec parser of Model/JsonCodec.lean, tied to CPython's decoder by the streams of C15 and by
    the stream `loads` of this property) `try_from_content(pre + to_header_str() + '\n' + body)` is the header itself — for
    every header over the model's JSON values (no floats), every body and every prefix in which the tag does not start. The
    runner model's `json.dumps` printer is proved equal to the codec's printer (`dumps_eq`), the codec's parser inverts it. -/
theorem header_rt_codec (av pre body : Str) (h : Header) (hpre : NoEarly Tag pre) (hn : h.Normal av) :
    tryFromContent loadsCodec av (pre ++ h.toHeaderStr ++ '\n' :: body) = .ok (some h) :=
  header_rt loadsCodec av pre body h hpre (loads_dumps _) hn

example : tryFromContent loadsCodec ['1'] (['/', '/', ' '] ++ (curHeader (wEnv outDep) wV1 true mC).toHeaderStr ++ '\n' :: ['x']) =
    .ok (some (curHeader (wEnv outDep) wV1 true mC)) :=
  header_rt_codec _ _ _ _ (by decide) (curHeader_normal _ _ _ _)

/-- … and the decoder hypothesis `LoadsSound` of the history theorems (`fixpoint_fresh_partial`, `version_bump`, …) holds for
    every environment whose `json.loads` is that decoder — all module lists, all versions, all source states. -/
theorem loads_codec_sound {σ : Type} (E : Env σ) (hE : E.loads = loadsCodec) (mods : List Str) (vs : List Vers) :
    LoadsSound E mods vs :=
  loadsSound_codec E hE mods vs

example : ∃ E : Env Bool, E.loads = loadsCodec ∧ LoadsSound E [mB, mC] wVers :=
  ⟨{ wEnv outDep with loads := loadsCodec }, rfl, loads_codec_sound _ rfl _ _⟩

/-- full statement without the line break after the header (a file that consists of the header line only) -/
def header_rt_no_newline_statement : Prop :=
  ∀ (pre : Str) (h : Header), NoEarly Tag pre → headerSlice (pre ++ h.toHeaderStr) = some (' ' :: h.toJson)

/-- … is false: `find('\n')` answers -1, which `rfind` takes as "up to the last character", so the closing brace is cut off
    (`json.loads` then raises). The template always emits the line break, so the runner never writes such a file. -/
theorem header_rt_no_newline_counterexample : ¬ header_rt_no_newline_statement := by
  intro h
  have := h ['/', '/', ' '] (Header.make ['1'] .null .null none) (by decide)
  revert this
  decide +kernel

example : headerSlice (Tag ++ [':', ' ', '{', '}']) = some [] ∧
    headerSlice (Tag ++ [':', ' ', '{', '{', '}', '}']) = some [' ', '{', '{', '}'] := by decide +kernel

/-! ## which modules a run regenerates -/

/-- `regenerated ↔ force ∨ no file ∨ no header ∨ header ≠ current`: when target selection succeeds, a module is a target
    exactly if it is listed and the effective force flag is set or its output is `Stale`; the targets keep the module order. -/
theorem regen {σ : Type} (E : Env σ) (w : World σ) (argForce : Bool) (ts : List Str) (h : targets E w argForce = .ok ts) :
    ts.Sublist w.mods ∧ ∀ m, m ∈ ts ↔ m ∈ w.mods ∧ (effForce w.cfg argForce = true ∨ Stale E w m) := by
  unfold targets at h
  cases hf : effForce w.cfg argForce with
  | true =>
    simp only [hf, if_true, Except.ok.injEq] at h
    subst h
    exact ⟨List.Sublist.refl _, fun m => by simp⟩
  | false =>
    simp only [hf, Bool.false_eq_true, if_false] at h
    refine ⟨selectFrom_sublist E w w.mods ts h, fun m => ?_⟩
    rw [selectFrom_mem E w w.mods ts h m, canTranspile_true_iff]
    simp

example : targets (wEnv outDep) (exec (wEnv outDep) wWorld wOps) false = .ok [mC] ∧
    targets (wEnv outDep) (exec (wEnv outDep) wWorld wOps) true = .ok [mB, mC] := by decide +kernel

/-- Files that need no regeneration are left untouched: a path the Writer was not invoked with keeps its bytes and its
    modification time, and the Writer is invoked only with output paths of selected targets. -/
theorem untouched {σ : Type} (E : Env σ) (w : World σ) (argForce : Bool) :
    (∀ p, p ∉ (runStep E w argForce).written → (runStep E w argForce).world.files p = w.files p) ∧
    (∀ ts, targets E w argForce = .ok ts → ∀ p ∈ (runStep E w argForce).written, ∃ m ∈ ts, outputFilepath w.cfg m = .ok p) := by
  unfold runStep
  cases ht : targets E w argForce with
  | error e => exact ⟨fun _ _ => rfl, fun ts h => by cases h⟩
  | ok ts =>
    refine ⟨fun p hp => writeAll_untouched E ts w p hp, fun ts' h => ?_⟩
    injection h with h; subst h
    exact writeAll_written E ts w

example : (runStep (wEnv outDep) (exec (wEnv outDep) wWorld wOps) false).written = [['/', 'o', '/', 'c', '.', 'h']] ∧
    ((runStep (wEnv outDep) (exec (wEnv outDep) wWorld wOps) false).world.files ['/', 'o', '/', 'b', '.', 'h']).map (·.mtime) = some 0 := by
  decide +kernel

/-! ## the decision compares exactly the header fields read from the source (Generated/RunnerHeader.lean) -/

/-- The model implements the statements the translator reads from the repository on every run: `Runner.can_transpile` builds
    the current header from `module_meta_factory(module_path.path)` and `transpiler.meta` and answers `new_meta != old_meta`;
    `__eq__` compares the identities, the identity is the md5 of `to_json()`, `to_json` serialises version / module /
    transpiler with the compact separators, `from_json` hands over the same keys, the factory looks the module up by `index`
    and records `sources.hash(filepath)` and the path; the tag, the TypedDict fields and `Config.force` are the model's; `Writer` keeps one
    buffer (`put` appends) and `_flush` replaces the file as a whole (`open(filepath, mode='wb')` truncates: `World.write`).
    (A change of any of these source shapes changes the generated table and fails this theorem.) -/
theorem generated_shapes :
    Generated.RunnerHeader.canTranspile =
      [['o', 'l', 'd', '_', 'm', 'e', 't', 'a', ' ', '=', ' ', 's', 'e', 'l', 'f', '.', 't', 'r', 'y', '_', 'l', 'o', 'a', 'd', '_', 'm', 'e', 't', 'a', '_', 'h', 'e', 'a', 'd', 'e', 'r', '(', 'm', 'o', 'd', 'u', 'l', 'e', '_', 'p', 'a', 't', 'h', ')'], ['i', 'f', ' ', 'n', 'o', 't', ' ', 'o', 'l', 'd', '_', 'm', 'e', 't', 'a', ':'], ['r', 'e', 't', 'u', 'r', 'n', ' ', 'T', 'r', 'u', 'e'], ['e', 'n', 'd'],
       ['n', 'e', 'w', '_', 'm', 'e', 't', 'a', ' ', '=', ' ', 'M', 'e', 't', 'a', 'H', 'e', 'a', 'd', 'e', 'r', '(', 's', 'e', 'l', 'f', '.', 'm', 'o', 'd', 'u', 'l', 'e', '_', 'm', 'e', 't', 'a', '_', 'f', 'a', 'c', 't', 'o', 'r', 'y', '(', 'm', 'o', 'd', 'u', 'l', 'e', '_', 'p', 'a', 't', 'h', '.', 'p', 'a', 't', 'h', ')', ',', ' ', 's', 'e', 'l', 'f', '.', 't', 'r', 'a', 'n', 's', 'p', 'i', 'l', 'e', 'r', '.', 'm', 'e', 't', 'a', ')'],
       ['r', 'e', 't', 'u', 'r', 'n', ' ', 'n', 'e', 'w', '_', 'm', 'e', 't', 'a', ' ', '!', '=', ' ', 'o', 'l', 'd', '_', 'm', 'e', 't', 'a']] ∧
    Generated.RunnerHeader.newMetaArgs = [['s', 'e', 'l', 'f', '.', 'm', 'o', 'd', 'u', 'l', 'e', '_', 'm', 'e', 't', 'a', '_', 'f', 'a', 'c', 't', 'o', 'r', 'y', '(', 'm', 'o', 'd', 'u', 'l', 'e', '_', 'p', 'a', 't', 'h', '.', 'p', 'a', 't', 'h', ')'], ['s', 'e', 'l', 'f', '.', 't', 'r', 'a', 'n', 's', 'p', 'i', 'l', 'e', 'r', '.', 'm', 'e', 't', 'a']] ∧
    Generated.RunnerHeader.eq =
      [['i', 'f', ' ', 't', 'y', 'p', 'e', '(', 'o', 't', 'h', 'e', 'r', ')', ' ', 'i', 's', ' ', 'n', 'o', 't', ' ', 'M', 'e', 't', 'a', 'H', 'e', 'a', 'd', 'e', 'r', ':'], ['r', 'a', 'i', 's', 'e', ' ', 'E', 'r', 'r', 'o', 'r', 's', '.', 'N', 'e', 'v', 'e', 'r', '(', 'o', 't', 'h', 'e', 'r', ',', ' ', '\'', 'N', 'o', 't', ' ', 'a', 'l', 'l', 'o', 'w', 'e', 'd', ' ', 'c', 'o', 'm', 'p', 'a', 'r', 'i', 's', 'o', 'n', '\'', ')'], ['e', 'n', 'd'],
       ['r', 'e', 't', 'u', 'r', 'n', ' ', 's', 'e', 'l', 'f', '.', 'i', 'd', 'e', 'n', 't', 'i', 't', 'y', ' ', '=', '=', ' ', 'o', 't', 'h', 'e', 'r', '.', 'i', 'd', 'e', 'n', 't', 'i', 't', 'y']] ∧
    Generated.RunnerHeader.identity = [['r', 'e', 't', 'u', 'r', 'n', ' ', 'h', 'a', 's', 'h', 'l', 'i', 'b', '.', 'm', 'd', '5', '(', 's', 'e', 'l', 'f', '.', 't', 'o', '_', 'j', 's', 'o', 'n', '(', ')', '.', 'e', 'n', 'c', 'o', 'd', 'e', '(', '\'', 'u', 't', 'f', '-', '8', '\'', ')', ')', '.', 'h', 'e', 'x', 'd', 'i', 'g', 'e', 's', 't', '(', ')']] ∧
    Generated.RunnerHeader.toJsonKeys =
      [(kVersion, ['s', 'e', 'l', 'f', '.', 'a', 'p', 'p', '_', 'v', 'e', 'r', 's', 'i', 'o', 'n']), (kModule, ['s', 'e', 'l', 'f', '.', 'm', 'o', 'd', 'u', 'l', 'e', '_', 'm', 'e', 't', 'a']), (kTranspiler, ['s', 'e', 'l', 'f', '.', 't', 'r', 'a', 'n', 's', 'p', 'i', 'l', 'e', 'r', '_', 'm', 'e', 't', 'a'])] ∧
    Generated.RunnerHeader.toJsonSeparators = ['(', '\'', ',', '\'', ',', ' ', '\'', ':', '\'', ')'] ∧
    Generated.RunnerHeader.initAssigns =
      [(['s', 'e', 'l', 'f', '.', 'a', 'p', 'p', '_', 'v', 'e', 'r', 's', 'i', 'o', 'n'], ['a', 'p', 'p', '_', 'v', 'e', 'r', 's', 'i', 'o', 'n', ' ', 'o', 'r', ' ', 'V', 'e', 'r', 's', 'i', 'o', 'n', 's', '.', 'a', 'p', 'p']), (['s', 'e', 'l', 'f', '.', 'm', 'o', 'd', 'u', 'l', 'e', '_', 'm', 'e', 't', 'a'], ['m', 'o', 'd', 'u', 'l', 'e', '_', 'm', 'e', 't', 'a']),
       (['s', 'e', 'l', 'f', '.', 't', 'r', 'a', 'n', 's', 'p', 'i', 'l', 'e', 'r', '_', 'm', 'e', 't', 'a'], ['t', 'r', 'a', 'n', 's', 'p', 'i', 'l', 'e', 'r', '_', 'm', 'e', 't', 'a'])] ∧
    Generated.RunnerHeader.fromJsonKeys = [kModule, kTranspiler, kVersion] ∧
    Generated.RunnerHeader.tag = Tag ∧
    Generated.RunnerHeader.toHeaderStr = [['r', 'e', 't', 'u', 'r', 'n', ' ', 'f', '\'', '{', 's', 'e', 'l', 'f', '.', 'T', 'a', 'g', '}', ':', ' ', '{', 's', 'e', 'l', 'f', '.', 't', 'o', '_', 'j', 's', 'o', 'n', '(', ')', '}', '\'']] ∧
    Generated.RunnerHeader.tryFromContent =
      [['h', 'e', 'a', 'd', 'e', 'r', '_', 'b', 'e', 'g', 'i', 'n', ' ', '=', ' ', 'c', 'o', 'n', 't', 'e', 'n', 't', '.', 'f', 'i', 'n', 'd', '(', 'M', 'e', 't', 'a', 'H', 'e', 'a', 'd', 'e', 'r', '.', 'T', 'a', 'g', ')'], ['i', 'f', ' ', 'h', 'e', 'a', 'd', 'e', 'r', '_', 'b', 'e', 'g', 'i', 'n', ' ', '=', '=', ' ', '-', '1', ':'], ['r', 'e', 't', 'u', 'r', 'n', ' ', 'N', 'o', 'n', 'e'], ['e', 'n', 'd'],
       ['j', 's', 'o', 'n', '_', 'b', 'e', 'g', 'i', 'n', ' ', '=', ' ', 'h', 'e', 'a', 'd', 'e', 'r', '_', 'b', 'e', 'g', 'i', 'n', ' ', '+', ' ', 'l', 'e', 'n', '(', 'M', 'e', 't', 'a', 'H', 'e', 'a', 'd', 'e', 'r', '.', 'T', 'a', 'g', ')', ' ', '+', ' ', '1'], ['l', 'i', 'n', 'e', '_', 'b', 'r', 'e', 'a', 'k', ' ', '=', ' ', 'c', 'o', 'n', 't', 'e', 'n', 't', '.', 'f', 'i', 'n', 'd', '(', '\'', '\\', 'n', '\'', ',', ' ', 'j', 's', 'o', 'n', '_', 'b', 'e', 'g', 'i', 'n', ')'],
       ['j', 's', 'o', 'n', '_', 'e', 'n', 'd', ' ', '=', ' ', 'c', 'o', 'n', 't', 'e', 'n', 't', '.', 'r', 'f', 'i', 'n', 'd', '(', '\'', '}', '\'', ',', ' ', 'j', 's', 'o', 'n', '_', 'b', 'e', 'g', 'i', 'n', ',', ' ', 'l', 'i', 'n', 'e', '_', 'b', 'r', 'e', 'a', 'k', ')', ' ', '+', ' ', '1'], ['r', 'e', 't', 'u', 'r', 'n', ' ', 'c', 'l', 's', '.', 'f', 'r', 'o', 'm', '_', 'j', 's', 'o', 'n', '(', 'c', 'o', 'n', 't', 'e', 'n', 't', '[', 'j', 's', 'o', 'n', '_', 'b', 'e', 'g', 'i', 'n', ':', 'j', 's', 'o', 'n', '_', 'e', 'n', 'd', ']', ')']] ∧
    Generated.RunnerHeader.moduleMetaFields = [kHash, kPath] ∧
    Generated.RunnerHeader.transpilerMetaFields = [kVersion, kModule] ∧
    Generated.RunnerHeader.factoryHandler =
      [['i', 'n', 'd', 'e', 'x', ' ', '=', ' ', '[', 'm', 'o', 'd', 'u', 'l', 'e', '_', 'p', 'a', 't', 'h', '.', 'p', 'a', 't', 'h', ' ', 'f', 'o', 'r', ' ', 'm', 'o', 'd', 'u', 'l', 'e', '_', 'p', 'a', 't', 'h', ' ', 'i', 'n', ' ', 'm', 'o', 'd', 'u', 'l', 'e', '_', 'p', 'a', 't', 'h', 's', ']', '.', 'i', 'n', 'd', 'e', 'x', '(', 'm', 'o', 'd', 'u', 'l', 'e', '_', 'p', 'a', 't', 'h', ')'], ['t', 'a', 'r', 'g', 'e', 't', '_', 'm', 'o', 'd', 'u', 'l', 'e', '_', 'p', 'a', 't', 'h', ' ', '=', ' ', 'm', 'o', 'd', 'u', 'l', 'e', '_', 'p', 'a', 't', 'h', 's', '[', 'i', 'n', 'd', 'e', 'x', ']'],
       ['f', 'i', 'l', 'e', 'p', 'a', 't', 'h', ' ', '=', ' ', 'm', 'o', 'd', 'u', 'l', 'e', '_', 'p', 'a', 't', 'h', '_', 't', 'o', '_', 'f', 'i', 'l', 'e', 'p', 'a', 't', 'h', '(', 't', 'a', 'r', 'g', 'e', 't', '_', 'm', 'o', 'd', 'u', 'l', 'e', '_', 'p', 'a', 't', 'h', '.', 'p', 'a', 't', 'h', ',', ' ', 'f', '\'', '.', '{', 't', 'a', 'r', 'g', 'e', 't', '_', 'm', 'o', 'd', 'u', 'l', 'e', '_', 'p', 'a', 't', 'h', '.', 'l', 'a', 'n', 'g', 'u', 'a', 'g', 'e', '}', '\'', ')'],
       ['r', 'e', 't', 'u', 'r', 'n', ' ', '{', '\'', 'h', 'a', 's', 'h', '\'', ':', ' ', 's', 'o', 'u', 'r', 'c', 'e', 's', '.', 'h', 'a', 's', 'h', '(', 'f', 'i', 'l', 'e', 'p', 'a', 't', 'h', ')', ',', ' ', '\'', 'p', 'a', 't', 'h', '\'', ':', ' ', 'm', 'o', 'd', 'u', 'l', 'e', '_', 'p', 'a', 't', 'h', '}']] ∧
    Generated.RunnerHeader.py2cppMeta = [(kVersion, ['V', 'e', 'r', 's', 'i', 'o', 'n', 's', '.', 'p', 'y', '2', 'c', 'p', 'p']), (kModule, ['t', 'o', '_', 'f', 'u', 'l', 'l', 'y', 'n', 'a', 'm', 'e', '(', 'P', 'y', '2', 'C', 'p', 'p', ')'])] ∧
    Generated.RunnerHeader.tryLoadMetaHeader =
      [['f', 'i', 'l', 'e', 'p', 'a', 't', 'h', ' ', '=', ' ', 's', 'e', 'l', 'f', '.', 'o', 'u', 't', 'p', 'u', 't', '_', 'f', 'i', 'l', 'e', 'p', 'a', 't', 'h', '(', 'm', 'o', 'd', 'u', 'l', 'e', '_', 'p', 'a', 't', 'h', ')'], ['i', 'f', ' ', 'n', 'o', 't', ' ', 's', 'e', 'l', 'f', '.', 's', 'o', 'u', 'r', 'c', 'e', 's', '.', 'e', 'x', 'i', 's', 't', 's', '(', 'f', 'i', 'l', 'e', 'p', 'a', 't', 'h', ')', ':'], ['r', 'e', 't', 'u', 'r', 'n', ' ', 'N', 'o', 'n', 'e'], ['e', 'n', 'd'],
       ['r', 'e', 't', 'u', 'r', 'n', ' ', 'M', 'e', 't', 'a', 'H', 'e', 'a', 'd', 'e', 'r', '.', 't', 'r', 'y', '_', 'f', 'r', 'o', 'm', '_', 'c', 'o', 'n', 't', 'e', 'n', 't', '(', 's', 'e', 'l', 'f', '.', 's', 'o', 'u', 'r', 'c', 'e', 's', '.', 'l', 'o', 'a', 'd', '(', 'f', 'i', 'l', 'e', 'p', 'a', 't', 'h', ')', ')']] ∧
    Generated.RunnerHeader.runImpl =
      [['t', 'a', 'r', 'g', 'e', 't', '_', 'p', 'a', 't', 'h', 's', ' ', '=', ' ', 's', 'e', 'l', 'f', '.', 'm', 'o', 'd', 'u', 'l', 'e', '_', 'p', 'a', 't', 'h', 's', ' ', 'i', 'f', ' ', 's', 'e', 'l', 'f', '.', 'c', 'o', 'n', 'f', 'i', 'g', '.', 'f', 'o', 'r', 'c', 'e', ' ', 'e', 'l', 's', 'e', ' ', '[', 'm', 'o', 'd', 'u', 'l', 'e', '_', 'p', 'a', 't', 'h', ' ', 'f', 'o', 'r', ' ', 'm', 'o', 'd', 'u', 'l', 'e', '_', 'p', 'a', 't', 'h', ' ', 'i', 'n', ' ', 's', 'e', 'l', 'f', '.', 'm', 'o', 'd', 'u', 'l', 'e', '_', 'p', 'a', 't', 'h', 's', ' ', 'i', 'f', ' ', 's', 'e', 'l', 'f', '.', 'c', 'a', 'n', '_', 't', 'r', 'a', 'n', 's', 'p', 'i', 'l', 'e', '(', 'm', 'o', 'd', 'u', 'l', 'e', '_', 'p', 'a', 't', 'h', ')', ']'],
       ['f', 'o', 'r', ' ', 'm', 'o', 'd', 'u', 'l', 'e', '_', 'p', 'a', 't', 'h', ' ', 'i', 'n', ' ', 't', 'a', 'r', 'g', 'e', 't', '_', 'p', 'a', 't', 'h', 's', ':'], ['c', 'o', 'n', 't', 'e', 'n', 't', ' ', '=', ' ', 's', 'e', 'l', 'f', '.', 't', 'r', 'a', 'n', 's', 'p', 'i', 'l', 'e', 'r', '.', 't', 'r', 'a', 'n', 's', 'p', 'i', 'l', 'e', '(', 's', 'e', 'l', 'f', '.', 'b', 'y', '_', 'e', 'n', 't', 'r', 'y', 'p', 'o', 'i', 'n', 't', '(', 'm', 'o', 'd', 'u', 'l', 'e', '_', 'p', 'a', 't', 'h', ')', ')'],
       ['w', 'r', 'i', 't', 'e', 'r', ' ', '=', ' ', 'W', 'r', 'i', 't', 'e', 'r', '(', 's', 'e', 'l', 'f', '.', 'o', 'u', 't', 'p', 'u', 't', '_', 'f', 'i', 'l', 'e', 'p', 'a', 't', 'h', '(', 'm', 'o', 'd', 'u', 'l', 'e', '_', 'p', 'a', 't', 'h', ')', ')'], ['w', 'r', 'i', 't', 'e', 'r', '.', 'p', 'u', 't', '(', 'c', 'o', 'n', 't', 'e', 'n', 't', ')'], ['w', 'r', 'i', 't', 'e', 'r', '.', 'f', 'l', 'u', 's', 'h', '(', ')'], ['e', 'n', 'd']] ∧
    Generated.RunnerHeader.configForce = ['s', 'e', 'l', 'f', '.', 'f', 'o', 'r', 'c', 'e', ' ', '=', ' ', 'a', 'r', 'g', 's', '.', 'f', 'o', 'r', 'c', 'e', ' ', 'o', 'r', ' ', 'c', 'o', 'n', 'f', 'i', 'g', '.', 'g', 'e', 't', '(', '\'', 'f', 'o', 'r', 'c', 'e', '\'', ',', ' ', 'F', 'a', 'l', 's', 'e', ')'] ∧
    Generated.RunnerHeader.writerInit =
      [['s', 'e', 'l', 'f', '.', '_', '_', 'f', 'i', 'l', 'e', 'p', 'a', 't', 'h', ' ', '=', ' ', 'f', 'i', 'l', 'e', 'p', 'a', 't', 'h'], ['s', 'e', 'l', 'f', '.', '_', '_', 'c', 'o', 'n', 't', 'e', 'n', 't', ' ', '=', ' ', '\'', '\'']] ∧
    Generated.RunnerHeader.writerPut =
      [['s', 'e', 'l', 'f', '.', '_', '_', 'c', 'o', 'n', 't', 'e', 'n', 't', ' ', '+', '=', ' ', 't', 'e', 'x', 't']] ∧
    Generated.RunnerHeader.writerFlush =
      [['a', 'b', 's', '_', 'f', 'i', 'l', 'e', 'p', 'a', 't', 'h', ' ', '=', ' ', 'o', 's', '.', 'p', 'a', 't', 'h', '.', 'a', 'b', 's', 'p', 'a', 't', 'h', '(', 's', 'e', 'l', 'f', '.', '_', '_', 'f', 'i', 'l', 'e', 'p', 'a', 't', 'h', ')'], ['d', 'i', 'r', 'p', 'a', 't', 'h', ' ', '=', ' ', 'o', 's', '.', 'p', 'a', 't', 'h', '.', 'd', 'i', 'r', 'n', 'a', 'm', 'e', '(', 'a', 'b', 's', '_', 'f', 'i', 'l', 'e', 'p', 'a', 't', 'h', ')'], ['i', 'f', ' ', 'n', 'o', 't', ' ', 'o', 's', '.', 'p', 'a', 't', 'h', '.', 'e', 'x', 'i', 's', 't', 's', '(', 'd', 'i', 'r', 'p', 'a', 't', 'h', ')', ':'], ['o', 's', '.', 'm', 'a', 'k', 'e', 'd', 'i', 'r', 's', '(', 'd', 'i', 'r', 'p', 'a', 't', 'h', ')'], ['e', 'n', 'd'], ['t', 'r', 'y', ':'], ['s', 'e', 'l', 'f', '.', '_', 'f', 'l', 'u', 's', 'h', '(', 'a', 'b', 's', '_', 'f', 'i', 'l', 'e', 'p', 'a', 't', 'h', ')'], ['e', 'x', 'c', 'e', 'p', 't', ' ', 'P', 'e', 'r', 'm', 'i', 's', 's', 'i', 'o', 'n', 'E', 'r', 'r', 'o', 'r', ':'], ['t', 'i', 'm', 'e', '.', 's', 'l', 'e', 'e', 'p', '(', '0', '.', '1', ')'], ['s', 'e', 'l', 'f', '.', '_', 'f', 'l', 'u', 's', 'h', '(', 'a', 'b', 's', '_', 'f', 'i', 'l', 'e', 'p', 'a', 't', 'h', ')'], ['e', 'n', 'd']] ∧
    Generated.RunnerHeader.writerFlushImpl =
      [['w', 'i', 't', 'h', ' ', 'o', 'p', 'e', 'n', '(', 'f', 'i', 'l', 'e', 'p', 'a', 't', 'h', ',', ' ', 'm', 'o', 'd', 'e', '=', '\'', 'w', 'b', '\'', ')', ' ', 'a', 's', ' ', 'f', ':'], ['f', '.', 'w', 'r', 'i', 't', 'e', '(', 's', 'e', 'l', 'f', '.', '_', '_', 'c', 'o', 'n', 't', 'e', 'n', 't', '.', 'e', 'n', 'c', 'o', 'd', 'e', '(', '\'', 'u', 't', 'f', '-', '8', '\'', ')', ')'], ['e', 'n', 'd']] := by
  decide +kernel

example : Generated.RunnerHeader.currentInputs.map (·.2) =
    [['V', 'e', 'r', 's', 'i', 'o', 'n', 's', '.', 'a', 'p', 'p'], ['s', 'o', 'u', 'r', 'c', 'e', 's', '.', 'h', 'a', 's', 'h', '(', 'f', 'i', 'l', 'e', 'p', 'a', 't', 'h', ')'], ['m', 'o', 'd', 'u', 'l', 'e', '_', 'p', 'a', 't', 'h', '.', 'p', 'a', 't', 'h'], ['V', 'e', 'r', 's', 'i', 'o', 'n', 's', '.', 'p', 'y', '2', 'c', 'p', 'p'], ['t', 'o', '_', 'f', 'u', 'l', 'l', 'y', 'n', 'a', 'm', 'e', '(', 'P', 'y', '2', 'C', 'p', 'p', ')']] := by
  decide +kernel

/-- The header the model builds has exactly the generated compared fields — no more, no fewer — and they carry the current
    inputs: application version, md5 of the module's own source, module path, transpiler version, transpiler module. -/
theorem compared_fields_generated {σ : Type} (E : Env σ) (v : Vers) (s : σ) (m : Str) :
    (curHeader E v s m).toJsonVal.leafPaths = Generated.RunnerHeader.comparedFields ∧
    Generated.RunnerHeader.comparedFields.map (curHeader E v s m).toJsonVal.getPath =
      [some (.str v.app), some (.str (E.hash s)), some (.str m), some (.str v.py2cpp), some (.str E.tModule)] := by
  constructor <;> rfl

example : Generated.RunnerHeader.comparedFields.length = 5 ∧
    Generated.RunnerHeader.currentInputs.length = Generated.RunnerHeader.comparedFields.length := by decide

/-- A skipped module (`can_transpile` answers False) has an output file whose header parses and has the identity of the header
    built from the current inputs; and when md5 does not collide on these two texts and `json.loads` decodes both, EVERY generated
    compared field of the stored header equals the current input (so dropping a field from the comparison breaks this theorem). -/
theorem skip_implies_equal_header_inputs {σ : Type} (E : Env σ) (w : World σ) (m : Str) (h : canTranspile E w m = .ok false) :
    ∃ p f old, outputFilepath w.cfg m = .ok p ∧ w.files p = some f ∧
      tryFromContent E.loads w.ver.app f.content = .ok (some old) ∧
      E.md5 (curHeader E w.ver (w.src m) m).toJson = E.md5 old.toJson ∧
      ((E.md5 (curHeader E w.ver (w.src m) m).toJson = E.md5 old.toJson → (curHeader E w.ver (w.src m) m).toJson = old.toJson) →
        E.loads (' ' :: old.toJson) = .ok old.toJsonVal →
        E.loads (' ' :: (curHeader E w.ver (w.src m) m).toJson) = .ok (curHeader E w.ver (w.src m) m).toJsonVal →
        Generated.RunnerHeader.comparedFields.map old.toJsonVal.getPath =
          [some (.str w.ver.app), some (.str (E.hash (w.src m))), some (.str m), some (.str w.ver.py2cpp), some (.str E.tModule)]) := by
  obtain ⟨p, f, old, hp, hf, ht, hmd5⟩ := canTranspile_false_decision E w m h
  refine ⟨p, f, old, hp, hf, ht, hmd5, fun hinj hlo hlc => ?_⟩
  have htj := hinj hmd5
  rw [htj, hlo] at hlc
  injection hlc with hval
  rw [hval]
  exact (compared_fields_generated E w.ver (w.src m) m).2

example : canTranspile (wEnv outDep) (exec (wEnv outDep) wWorld [.run false]) mB = .ok false ∧
    (∀ a b : Str, (wEnv outDep).md5 a = (wEnv outDep).md5 b → a = b) ∧
    (wEnv outDep).loads (' ' :: (curHeader (wEnv outDep) wV1 false mB).toJson) = .ok (curHeader (wEnv outDep) wV1 false mB).toJsonVal :=
  ⟨by decide +kernel, fun _ _ h => h, w_loadsSound outDep wV1 (by simp [wVers]) false mB (by simp)⟩

/-- The five compared header fields are computed from five pairwise DIFFERENT sources (read from `Py2Cpp.meta`,
    `module_meta_factory` and `MetaHeader.__init__` on every run): the application version constant, the md5 of the module's own
    file, the module path, the transpiler version constant and the transpiler's class name — in particular the two version
    fields read two different constants, so a release that changes either one changes the header. -/
theorem compared_inputs_distinct :
    Generated.RunnerHeader.currentInputs.map (·.2) =
      [['V', 'e', 'r', 's', 'i', 'o', 'n', 's', '.', 'a', 'p', 'p'], ['s', 'o', 'u', 'r', 'c', 'e', 's', '.', 'h', 'a', 's', 'h', '(', 'f', 'i', 'l', 'e', 'p', 'a', 't', 'h', ')'], ['m', 'o', 'd', 'u', 'l', 'e', '_', 'p', 'a', 't', 'h', '.', 'p', 'a', 't', 'h'], ['V', 'e', 'r', 's', 'i', 'o', 'n', 's', '.', 'p', 'y', '2', 'c', 'p', 'p'], ['t', 'o', '_', 'f', 'u', 'l', 'l', 'y', 'n', 'a', 'm', 'e', '(', 'P', 'y', '2', 'C', 'p', 'p', ')']] ∧
    (Generated.RunnerHeader.currentInputs.map (·.2)).Nodup ∧
    Generated.RunnerHeader.currentInputs.map (·.1) = Generated.RunnerHeader.comparedFields.map (Str.join ['.']) := by
  decide +kernel

/-- The shipped version constants (read from data/version.py) satisfy the non-emptiness the history theorems ask of a release. -/
theorem shipped_versions_nonempty : VersNonEmpty [⟨Generated.RunnerHeader.versionsApp, Generated.RunnerHeader.versionsPy2cpp⟩] := by
  intro v hv
  simp only [List.mem_cons, List.not_mem_nil, or_false] at hv
  subst hv
  decide

example : Generated.RunnerHeader.versionsApp = ['1', '.', '0', '.', '0'] := by decide

/-! ## the output path is absolute -/

/-- **`output_filepath` answers with an absolute path** whenever the working directory is absolute (it always is: `os.getcwd()`):
    for every configuration and module path. The existence check, the header read-back (the source loader resolves RELATIVE
    paths against the working directory, then the tranp root, then its library directory) and the Writer therefore mean one
    and the same file; a relative answer would let a same-named file under the tranp root stand in for a missing output. -/
theorem output_path_absolute (cfg : Cfg) (m p : Str) (hcwd : Str.startsWith cfg.cwd ['/'] = true)
    (h : outputFilepath cfg m = .ok p) : Str.startsWith p ['/'] = true := by
  unfold outputFilepath at h
  split at h
  · cases h
  · rename_i q _
    cases h
    unfold abspath
    apply normpath_absolute
    split
    · assumption
    · rename_i hq
      obtain ⟨t, ht⟩ := (startsWith_slash_iff _).mp hcwd
      unfold osJoin
      simp only [hq, Bool.false_eq_true, ↓reduceIte]
      split
      · rw [ht]; simp [Str.startsWith]
      · rw [ht]; simp [Str.startsWith]

example : outputFilepath ⟨[['a', 'p', 'p', '/', ':', 'o', 'u', 't'], ['.', '/']], ['h'], none, ['/', 'w']⟩ ['a', 'p', 'p', '.', 'x'] = .ok ['/', 'w', '/', 'o', 'u', 't', '/', 'x', '.', 'h'] := by
  decide +kernel

/-! ## `-f` -/

/-- The command-line flag forces regeneration whatever the config file says (`args.force or config.get('force', False)`):
    `run -f` is the forced run — every module is transpiled and written. -/
theorem force_flag {σ : Type} (E : Env σ) (w : World σ) :
    effForce w.cfg true = true ∧ runStep E w true = forcedRun E w := by
  refine ⟨by simp [effForce], ?_⟩
  simp [runStep, targets, effForce, forcedRun]

example : effForce ⟨[], [], some false, []⟩ true = true ∧ effForce ⟨[], [], none, []⟩ true = true := ⟨rfl, rfl⟩

/-- Without the flag the config file decides: a plain run is forced exactly when the file says `force: true`. -/
theorem force_config (cfg : Cfg) : effForce cfg false = true ↔ cfg.forceCfg = some true := by
  unfold effForce
  cases h : cfg.forceCfg with
  | none => simp
  | some b => cases b <;> simp

example : effForce ⟨[], [], some true, []⟩ false = true ∧ effForce ⟨[], [], some false, []⟩ false = false ∧
    effForce ⟨[], [], none, []⟩ false = false := ⟨rfl, rfl, rfl⟩

/-! ## the fix-point law -/

/-- full statement: after any history from an empty output tree — md5 free of collisions, `json.loads` sound on the written
    headers, non-empty version strings (`Sound`), output paths pairwise distinct under every configuration and releases with
    versions of `vs` (`Hist`) — a plain run leaves the contents a forced run leaves. -/
def fixpoint_statement : Prop :=
  ∀ (σ : Type) (E : Env σ) (vs : List Vers) (w0 : World σ) (ops : List (Op σ)),
    HashInj E → Sound E w0.mods vs → Hist vs w0 ops →
    SameContents (runStep E (exec E w0 ops) false).world.files (forcedRun E (exec E w0 ops)).world.files

/-- … is false: the header records the hash of the module's own source only, the output depends on imported modules.
    Witness: `b` imports `c`; run; edit `c`; a plain run keeps `b`'s output, a forced run rewrites it. -/
theorem fixpoint_counterexample : ¬ fixpoint_statement := by
  intro h
  have := h Bool (wEnv outDep) wVers wWorld wOps (wHash_inj _) ⟨w_idInj _ _ _, w_loadsSound _, wVers_nonEmpty⟩
    ⟨fun _ => rfl, w_noOverlap, w_dirsOK, w_versOK⟩ ['/', 'o', '/', 'b', '.', 'h']
  revert this
  decide +kernel

example : HashInj (wEnv outDep) ∧ Sound (wEnv outDep) wWorld.mods wVers ∧ Hist wVers wWorld wOps :=
  ⟨wHash_inj _, ⟨w_idInj _ _ _, w_loadsSound _, wVers_nonEmpty⟩, ⟨fun _ => rfl, w_noOverlap, w_dirsOK, w_versOK⟩⟩

/-- The law holds for ALL histories (edit / run / run -f / rm-output / set-dirs / set-force / set-version) and ANY transpiler body
    on every path that is not stale. `deps m` bounds what the body of `m` reads (its import closure, `OutDeps`); a path is
    stale (`StalePath`) when the plain run skips its module although a module of `deps m` was edited since that file was
    written (ghost field `prov`) — exactly the known finding. Needed besides: the forced run can transpile the stale modules. -/
theorem fixpoint_fresh_partial {σ : Type} (E : Env σ) (deps : Str → List Str) (vs : List Vers) (w0 : World σ) (ops : List (Op σ))
    (hdeps : OutDeps E deps) (hself : ∀ m, m ∈ deps m) (hs : Sound E w0.mods vs) (hh : Hist vs w0 ops) (argForce : Bool)
    (hok : ∀ m ∈ (exec E w0 ops).mods, ∀ p, outputFilepath (exec E w0 ops).cfg m = .ok p → StalePath E deps (exec E w0 ops) p →
      ∃ c, render E (exec E w0 ops).ver (exec E w0 ops).src m = .ok c) :
    SameExcept (StalePath E deps (exec E w0 ops))
      (runStep E (exec E w0 ops) argForce).world.files (forcedRun E (exec E w0 ops)).world.files := by
  have hg := good_of_hist E vs w0 ops hh
  have hm := hg.mods
  exact runStep_same_except E deps vs (exec E w0 ops) hdeps hself (by rw [hm]; exact hs.loadsSound) (by rw [hm]; exact hs.idInj)
    hs.nonEmpty hg.ver (by rw [hm]; exact hg.noOverlap) (by rw [hm]; exact hg.inv) hok argForce

example : OutDeps (wEnv outDep) wDeps ∧ (∀ m, m ∈ wDeps m) ∧
    StalePath (wEnv outDep) wDeps (exec (wEnv outDep) wWorld wOps) ['/', 'o', '/', 'b', '.', 'h'] ∧
    ¬ StalePath (wEnv outDep) wDeps (exec (wEnv outDep) wWorld wOps) ['/', 'o', '/', 'c', '.', 'h'] := by
  refine ⟨w_outDeps, w_depsSelf, ⟨mB, by decide, by decide +kernel, by decide +kernel, ?_⟩, ?_⟩
  · exact ⟨fun _ => false, by rfl, mC, by decide, by decide +kernel⟩
  · rintro ⟨m, hm, hp, hc, _⟩
    have hm' : m = mB ∨ m = mC := by simpa [exec, wOps, wWorld, step, runStep_frame] using hm
    rcases hm' with rfl | rfl
    · revert hp; decide +kernel
    · revert hc; decide +kernel

/-- Corollary: when no module of the import closure of any skipped module was edited since its output was written, the plain
    run leaves exactly the contents of the forced run. -/
theorem fixpoint_fresh {σ : Type} (E : Env σ) (deps : Str → List Str) (vs : List Vers) (w0 : World σ) (ops : List (Op σ))
    (hdeps : OutDeps E deps) (hself : ∀ m, m ∈ deps m) (hs : Sound E w0.mods vs) (hh : Hist vs w0 ops) (argForce : Bool)
    (hfresh : ∀ p, ¬ StalePath E deps (exec E w0 ops) p) :
    SameContents (runStep E (exec E w0 ops) argForce).world.files (forcedRun E (exec E w0 ops)).world.files := by
  intro p
  exact fixpoint_fresh_partial E deps vs w0 ops hdeps hself hs hh argForce
    (fun m _ q _ hst => absurd hst (hfresh q)) p (hfresh p)

example : ∀ p, ¬ StalePath (wEnv outDep) wDeps (exec (wEnv outDep) wWorld [.run false, .edit mB true]) p := by
  rintro p ⟨m, hm, hp, hc, snap, hsnap, d, hd, hne⟩
  have hm' : m = mB ∨ m = mC := by simpa [exec, wWorld, step, runStep_frame] using hm
  rcases hm' with rfl | rfl
  · revert hc; decide +kernel
  · have hpc : p = ['/', 'o', '/', 'c', '.', 'h'] := by
      have : outputFilepath wCfg mC = .ok ['/', 'o', '/', 'c', '.', 'h'] := by decide +kernel
      have hcfg : (exec (wEnv outDep) wWorld [.run false, .edit mB true]).cfg = wCfg := by simp [exec, step, runStep_frame, wWorld]
      rw [hcfg, this] at hp
      injection hp with hp; exact hp.symm
    subst hpc
    have hd' : d = mC := by simpa [wDeps, mB, mC] using hd
    subst hd'
    have hs' : (exec (wEnv outDep) wWorld [.run false, .edit mB true]).prov ['/', 'o', '/', 'c', '.', 'h'] = some (fun _ => false) := by
      rfl
    rw [hs'] at hsnap
    injection hsnap with hsnap
    subst hsnap
    revert hne
    decide +kernel

/-- Corollary (the former partial theorem): with own-source-only outputs (`OwnSource`) and a collision-free source hash no path
    is ever stale, so the law holds for all histories. -/
theorem fixpoint_partial {σ : Type} (E : Env σ) (bodyOf : Str → σ → Except Err Text) (vs : List Vers) (w0 : World σ) (ops : List (Op σ))
    (hown : OwnSource E bodyOf) (hh : HashInj E) (hs : Sound E w0.mods vs) (hist : Hist vs w0 ops) (argForce : Bool) :
    SameContents (runStep E (exec E w0 ops) argForce).world.files (forcedRun E (exec E w0 ops)).world.files := by
  have hg := good_of_hist E vs w0 ops hist
  have hm := hg.mods
  apply fixpoint_fresh E (fun m => [m]) vs w0 ops (outDeps_own E bodyOf hown) (fun m => by simp) hs hist argForce
  intro p
  exact no_stalePath_own E vs (exec E w0 ops) hh (by rw [hm]; exact hs.loadsSound) (by rw [hm]; exact hs.idInj) hs.nonEmpty hg.ver
    (by rw [hm]; exact hg.inv) p

example : OwnSource (wEnv outOwn) bodyOwn ∧ HashInj (wEnv outOwn) ∧ Sound (wEnv outOwn) wWorld.mods wVers ∧ Hist wVers wWorld wOps :=
  ⟨fun _ _ => rfl, wHash_inj _, ⟨w_idInj _ _ _, w_loadsSound _, wVers_nonEmpty⟩, ⟨fun _ => rfl, w_noOverlap, w_dirsOK, w_versOK⟩⟩

/-- `fixpoint_partial` without the hypothesis that the output paths are pairwise distinct -/
def fixpoint_shared_path_statement : Prop :=
  ∀ (σ : Type) (E : Env σ) (bodyOf : Str → σ → Except Err Text) (vs : List Vers) (w0 : World σ) (ops : List (Op σ)),
    OwnSource E bodyOf → HashInj E → Sound E w0.mods vs → (∀ p, w0.files p = none) → VersOK vs w0 ops →
    SameContents (runStep E (exec E w0 ops) false).world.files (forcedRun E (exec E w0 ops)).world.files

/-- … is false: when two modules share a path the targets, being selected before anything is written, make every plain run
    rewrite the module whose header is *not* in the file — the file flips, while a forced run always ends with the last module. -/
theorem fixpoint_shared_path_counterexample : ¬ fixpoint_shared_path_statement := by
  intro h
  have := h Bool (wEnvFor [cM1, cM2] outOwn) bodyOwn wVers cWorld [.run false] (fun _ _ => rfl) (wHashFor_inj _ _)
    ⟨wFor_idInj _ _ _ _, wFor_loadsSound _ _ cTable_nodup, wVers_nonEmpty⟩ (fun _ => rfl)
    ⟨by simp [wVers, cWorld], fun v hv => by simp at hv⟩ ['/', 'w', '/', 'o', 'u', 't', '/', 'x', '.', 'h']
  revert this
  decide +kernel

example : OwnSource (wEnvFor [cM1, cM2] outOwn) bodyOwn ∧ ¬ NoOverlap cWorld.cfg cWorld.mods :=
  ⟨fun _ _ => rfl, by decide +kernel⟩

/-! ## a new release regenerates everything -/

/-- After ANY history, a release whose versions (application or transpiler) differ from every version used so far makes the
    plain run the forced run: every existing header records another version, so every module is a target. -/
theorem version_bump {σ : Type} (E : Env σ) (vs : List Vers) (w0 : World σ) (ops : List (Op σ)) (v : Vers)
    (hh : Hist vs w0 ops) (hs : Sound E w0.mods (v :: vs)) (hnew : v ∉ vs) :
    runStep E (exec E w0 (ops ++ [.setVer v])) false = forcedRun E (exec E w0 (ops ++ [.setVer v])) := by
  have hg := good_of_hist E vs w0 ops hh
  have hexec : exec E w0 (ops ++ [.setVer v]) = { exec E w0 ops with ver := v } := by
    simp [exec, List.foldl_append, step]
  rw [hexec]
  have hm : ({ exec E w0 ops with ver := v } : World σ).mods = w0.mods := hg.mods
  have hinv : Inv E ({ exec E w0 ops with ver := v } : World σ).mods vs { exec E w0 ops with ver := v } := by
    rw [hm]; exact inv_of_eq E _ vs _ _ rfl rfl hg.inv
  have := targets_all_of_new_version E vs { exec E w0 ops with ver := v } (by rw [hm]; exact hs.loadsSound) (by rw [hm]; exact hs.idInj)
    hs.nonEmpty hnew (by rw [hm]; exact hg.noOverlap) hinv
  unfold runStep forcedRun
  rcases this with h | h
  · rw [h]
  · simp [targets, h]

example : Hist [wV1] wWorld [.run false] ∧ Sound (wEnv outDep) wWorld.mods (wV2 :: [wV1]) ∧ wV2 ∉ [wV1] ∧
    targets (wEnv outDep) (exec (wEnv outDep) wWorld ([.run false] ++ [.setVer wV2])) false = .ok [mB, mC] ∧
    targets (wEnv outDep) (exec (wEnv outDep) wWorld [.run false]) false = .ok [] := by
  refine ⟨⟨fun _ => rfl, w_noOverlap, fun ds h => by simp at h, by simp [wWorld], fun v h => by simp at h⟩, ?_, by decide, by decide +kernel, by decide +kernel⟩
  exact sound_mono _ _ wVers _ (fun v hv => by simp only [List.mem_cons, List.not_mem_nil, or_false] at hv; rcases hv with rfl | rfl <;> simp [wVers]) ⟨w_idInj _ _ _, w_loadsSound _, wVers_nonEmpty⟩

/-! ## the header records the hash of the module's own file -/

/-- `module_meta_factory` finds the module by its exact path: for every module list without duplicate paths the meta of a listed
    module records the md5 of exactly that module's file (and the module's path). -/
theorem meta_lookup_exact (hashFile : Str → Str) (mps : List ModPath) (hnd : (mps.map (·.path)).Nodup) (mp : ModPath) (hm : mp ∈ mps) :
    factoryMeta hashFile mps mp.path =
      .ok (.obj [(kHash, .str (hashFile (moduleToFilepath mp.path ('.' :: mp.language)))), (kPath, .str mp.path)]) := by
  simp [factoryMeta, metaFile, metaLookup_exact mps hnd mp hm]

example : factoryMeta id [mpShapeUtils, mpShape] mpShape.path =
    .ok (.obj [(kHash, .str ['s', 'h', 'a', 'p', 'e', '.', 'p', 'y']), (kPath, .str mpShape.path)]) := by rfl

/-- With duplicates the FIRST entry of that path decides (`list.index`); a path that is not listed raises ValueError. -/
theorem meta_lookup_first (mps : List ModPath) (m : Str) :
    (∀ mp, metaLookup mps m = .ok mp → mp.path = m ∧ ∃ pre post, mps = pre ++ mp :: post ∧ ∀ x ∈ pre, x.path ≠ m) ∧
    ((∀ x ∈ mps, x.path ≠ m) ↔ metaLookup mps m = .error .valueError) :=
  ⟨fun mp h => metaLookup_first mps m mp h, metaLookup_absent mps m⟩

example : metaLookup [⟨['a'], ['p', 'y']⟩, ⟨['a'], ['x']⟩] ['a'] = .ok ⟨['a'], ['p', 'y']⟩ ∧
    metaLookup [⟨['a'], ['p', 'y']⟩] ['b'] = .error .valueError := by decide

/-- regression example — the lookup by substring containment (`metaLookupSubstr`, NOT the code): -/
def meta_lookup_substring_statement : Prop :=
  ∀ (mps : List ModPath) (mp : ModPath), (mps.map (·.path)).Nodup → mp ∈ mps → metaLookupSubstr mps mp.path = .ok mp

/-- … does not find the listed module: `shape` gets the entry of `shape_utils` listed before it (and so its hash). -/
theorem meta_lookup_substring_counterexample : ¬ meta_lookup_substring_statement := by
  intro h
  have := h [mpShapeUtils, mpShape] mpShape (by decide) (by decide)
  revert this
  decide

example : metaLookupSubstr [mpShapeUtils, mpShape] mpShape.path = .ok mpShapeUtils ∧
    metaLookup [mpShapeUtils, mpShape] mpShape.path = .ok mpShape := by decide

/-! ## distinct modules never share an output path -/

/-- The decidable check `NoOverlap cfg mods` says exactly: every listed module has an output path and modules at different
    positions of the list have different paths. -/
theorem paths_iff (cfg : Cfg) (mods : List Str) :
    NoOverlap cfg mods ↔
      (∀ m ∈ mods, ∃ p, outputFilepath cfg m = .ok p) ∧ mods.Pairwise (fun a b => outputFilepath cfg a ≠ outputFilepath cfg b) :=
  noOverlapFrom_iff cfg mods

example : NoOverlap exampleCfg exampleMods := by decide +kernel

/-- A fallback-only `output_dirs` (the shipped `['./']`) never lets two modules share a path: for ALL clean module paths
    (dotted, no slash, no empty component), every fallback directory string, every absolute working directory and every
    extension without a slash, `output_filepath` is defined and injective. -/
theorem paths_fallback_only (cfg : Cfg) (d : Str) (hd : cfg.dirs = [d])
    (hcwd : Str.startsWith cfg.cwd ['/'] = true) (hext : '/' ∉ extension cfg.lang) (m1 m2 : Str) (h1 : CleanMod m1) (h2 : CleanMod m2) :
    (∃ p, outputFilepath cfg m1 = .ok p) ∧ (outputFilepath cfg m1 = outputFilepath cfg m2 → m1 = m2) :=
  ⟨outputFilepath_fallback_ok cfg d hd m1, outputFilepath_fallback_inj cfg d hd hcwd hext m1 m2 h1 h2⟩

example : exampleCfg.dirs = [['.', '/']] ∧ Str.startsWith exampleCfg.cwd ['/'] = true ∧ '/' ∉ extension exampleCfg.lang ∧
    CleanMod ['a', 'p', 'p', '.', 'x'] ∧ ¬ CleanMod ['a', '.', '.', 'x'] := by
  refine ⟨rfl, rfl, by decide, ⟨by decide, by decide⟩, fun h => ?_⟩
  exact absurd rfl (h.2 [] (by decide))

/-- Hence the path hypothesis of the history theorems (`Hist.noOverlap`, `DirsOK`) is discharged for every fallback-only
    `output_dirs` — the shipped configuration — and every duplicate-free list of clean module paths. -/
theorem paths_fallback_only_noOverlap (cfg : Cfg) (d : Str) (hd : cfg.dirs = [d])
    (hcwd : Str.startsWith cfg.cwd ['/'] = true) (hext : '/' ∉ extension cfg.lang)
    (mods : List Str) (hnd : mods.Nodup) (hclean : ∀ m ∈ mods, CleanMod m) : NoOverlap cfg mods :=
  noOverlap_fallback_only cfg d hd hcwd hext mods hnd hclean

example : [cM1, cM2].Nodup ∧ ∀ m ∈ [cM1, cM2], CleanMod m := by
  refine ⟨by decide, fun m hm => ?_⟩
  simp only [List.mem_cons, List.not_mem_nil, or_false] at hm
  rcases hm with rfl | rfl <;> exact ⟨by decide, by decide⟩

/-- full statement: distinct module paths have distinct output paths under every configuration -/
def paths_statement : Prop :=
  ∀ (cfg : Cfg) (m1 m2 : Str), m1 ≠ m2 → outputFilepath cfg m1 ≠ outputFilepath cfg m2

/-- … is false: with the prefix rule `app/:out` and the fallback `out`, `app.x` and `x` both go to `out/x.h`. -/
theorem paths_counterexample : ¬ paths_statement := by
  intro h
  exact h cCfg cM1 cM2 (by decide) (by decide +kernel)

example : outputFilepath cCfg cM1 = .ok ['/', 'w', '/', 'o', 'u', 't', '/', 'x', '.', 'h'] ∧ ¬ NoOverlap cCfg [cM1, cM2] := by
  decide +kernel

end Tranp.C06
