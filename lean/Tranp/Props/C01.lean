/-
  Property C01 — Transpiled C++ behaves like the Python source (operator core).
  Property theorems only; helper lemmas live in Tranp/Lemmas/Emit.lean, Tranp/Lemmas/Prec.lean and Tranp/Lemmas/EmitSem.lean.
-/
import Tranp.Lemmas.Emit
import Tranp.Lemmas.EmitSem

namespace Tranp.C01
open Tranp Tranp.Emit Tranp.Prec Tranp.Generated.CppTemplates

/-! ## the tie of the model's operator enumeration to the generated tables -/

/-- The operators, levels and kinds the model enumerates are exactly the expression ladder read from data/grammar.lark. -/
theorem ladder_eq : modelLadder = ladder := by decide

/-- `emit` is defined for every operator the ladder can produce: whatever the operand types / the dict flag, some branch of
    the generated binary_operator.j2 / binary_in.j2 is selected and it mentions both operands; likewise unary, ternary, group. -/
theorem ops_total :
    (∀ (op : BOp) (lty rty : Ty), isIn op = false →
      ∃ shape, select { strs := [(sOperator, op.tok), (sLeftTy, lty.name), (sRightTy, rty.name)] } binaryOperator = some shape
        ∧ Piece.var sLeft ∈ shape ∧ Piece.var sRight ∈ shape) ∧
    (∀ (op : BOp) (dict : Bool), isIn op = true →
      ∃ shape, select { strs := [(sOperator, op.tok)], flags := if dict then [sRightIsDict] else [] } binaryIn = some shape
        ∧ Piece.var sLeft ∈ shape ∧ Piece.var sRight ∈ shape) ∧
    (∀ v : Vars, select v unaryOperator = some [.var sOperator, .var sValue]) ∧
    (∀ v : Vars, ∃ shape, select v ternaryOperator = some shape ∧ Piece.var sCondition ∈ shape ∧ Piece.var sPrimary ∈ shape ∧ Piece.var sSecondary ∈ shape) ∧
    (∀ v : Vars, ∃ shape, select v group = some shape ∧ Piece.var sExpression ∈ shape) := by
  refine ⟨?_, ?_, fun _ => rfl, fun _ => ⟨_, rfl, by decide, by decide, by decide⟩, fun _ => ⟨_, rfl, by decide⟩⟩
  · intro op lty rty h
    refine ⟨_, select_binary op lty rty, ?_, ?_⟩ <;> cases op <;> cases lty <;> cases rty <;> first | decide | cases h
  · intro op dict h
    cases op <;> first | (cases dict <;> exact ⟨_, rfl, by decide, by decide⟩) | cases h

example : (allBOps.filter isIn).map BOp.tok = [['i', 'n'], ['n', 'o', 't', '.', 'i', 'n']] := by decide

/-- The emitter's own precedence table (`CppOperatorPrecedences`, translated from py2cpp.py) agrees with the C++ grammar table
    `cppTable` on every infix operator of the core: its entry is the level of the operator's C++ symbol (+1); unary `!` gets the
    translated `unary` value, above every binary entry. -/
theorem emitter_table_agrees :
    (∀ (op : BOp) (s : Str), op.cpp = some s →
      lookup op.tok cppPrecBinary = some op.prec ∧ cppOps.bin op.code = some (op.prec - 1) ∧ op.prec < cppPrecUnary) ∧
    precOf ['!'] = cppPrecUnary ∧ cppOps.pre bangCode = some (cppPrecUnary - 1) := by
  refine ⟨fun op s h => ?_, rfl, rfl⟩
  have := prec_facts h
  exact ⟨this.1, this.2.1, by have := this.2.2.2; simp only [cppPrecUnary]; omega⟩

/-! ## grouping -/

/-- C++'s own parse of the emitted tokens is a tree, and — up to parentheses — it is the tree Python's grammar gives the node. -/
def Regroups (n : Node) : Prop := ∃ e p, pyExpr n = some p ∧ parse cppOps (toks n) = some e ∧ strip e = strip p

/-- The grouping sentence of the property for the operator core, with the one exclusion stated explicitly: comparison chains
    (`a < b < c`, emitted verbatim — known finding `chain-compare`). -/
def group_statement : Prop := ∀ n : Node, core n = true → wf n = true → cmpChainFree n = true → Regroups n

/-- **Grouping by construction** (repaired emitter, /repo 0598c93 + 5807b18): for every grammar-producible operator node of
    the core without a comparison chain, C++ maximal munch merges no emitted tokens, the C++ table parses the emitted tokens,
    and the result is Python's grouping up to the parentheses the guards added. -/
theorem group : group_statement := by
  intro n hc hw hf
  refine ⟨cppExprL n, pyExprL n, by simp [pyExpr, hc, hf], ?_, strip_cppExprL n⟩
  have ht : toks n = print (cppExprL n) := by
    simp only [toks, emit, cppLex_emitRaw n hc hw, emit_print n hc]
  rw [ht]
  exact parse_print_NF cppOps _ (nf_cpp n hc hw hf)

def wA : Node := .atom 1 ['a']
def wB : Node := .atom 2 ['b']
def wC : Node := .atom 3 ['c']
/-- `a & b == c` -/
def w1 : Node := .chain 3 .int (.chain 6 .int wA (.cons .band false .int wB .nil)) (.cons .eq false .int wC .nil)
/-- `not a == b` -/
def w2 : Node := .notCompare (.chain 3 .int wA (.cons .eq false .int wB .nil))
/-- `a | b < c` -/
def w3 : Node := .chain 3 .int (.chain 4 .int wA (.cons .bor false .int wB .nil)) (.cons .lt false .int wC .nil)
/-- `a < b < c` -/
def w4 : Node := .chain 3 .int wA (.cons .lt false .int wB (.cons .lt false .int wC .nil))
/-- `- -a` -/
def w5 : Node := .factor .neg (.factor .neg wA)

/-- non-vacuity and regression: the former counterexamples of the grouping sentence (DESIGN §7 F1, fused sign) now regroup -/
example : Regroups w1 ∧ Regroups w2 ∧ Regroups w3 ∧ Regroups w5 :=
  ⟨group w1 (by decide) (by decide) (by decide), group w2 (by decide) (by decide) (by decide),
   group w3 (by decide) (by decide) (by decide), group w5 (by decide) (by decide) (by decide)⟩
example : String.ofList (text (emitRaw w1)) = "(a & b) == c" := by decide
example : String.ofList (text (emitRaw w2)) = "!(a == b)" := by decide
example : String.ofList (text (emitRaw w3)) = "(a | b) < c" := by decide
example : String.ofList (text (emitRaw w5)) = "-(-a)" := by decide

/-- The grouping sentence without the exclusion. It stays false: a comparison chain has no C++ tree with Python's grouping. -/
def group_statement_full : Prop := ∀ n : Node, core n = true → wf n = true → Regroups n

/-- `a < b < c` (F2, known finding `chain-compare`; replayed on the real code by corpus/C01/f2-chain-compare.json):
    the emitted text is `a < b < c`, which C++ parses as `(a < b) < c`. -/
theorem group_full_counterexample : ¬ group_statement_full := by
  intro h
  obtain ⟨e, p, hp, _, _⟩ := h w4 (by decide) (by decide)
  have hnone : pyExpr w4 = none := by decide
  rw [hnone] at hp; cases hp

example : String.ofList (text (emitRaw w4)) = "a < b < c" := by decide
example : parse cppOps (toks w4) = some (.bin (symCode ['<']) (.bin (symCode ['<']) (.atom 1) (.atom 2)) (.atom 3)) := by decide

/-! ## why the guards are needed: the flat text -/

/-- Printing Python's grouping *without* the guards (what the emitter did before 0598c93) is re-parsed by C++ into the same
    tree exactly when no parent/child slot of the node is in `badPairs`, the table computed from the two precedence tables. -/
theorem flat_iff (n : Node) (hc : core n = true) (hw : wf n = true) :
    parse cppOps (print (pyExprL n)) = some (pyExprL n) ↔ ∀ x ∈ slots n, x ∉ badPairs := by
  have hpy := (nf_iff_pairs pyOps (pyExprL n)).mp (nf_py n hc hw).1
  rw [parse_print_iff, nf_iff_pairs]
  constructor
  · intro h x hx hmem
    have := ((mem_badSlots pyOps cppOps vocabulary x).mp hmem).2.2.2
    rw [h x hx] at this
    cases this
  · intro h x hx
    have hv := pairs_heads (pyExprL n) x hx
    have hvoc := heads_vocabulary n hc
    cases hcpp : slotOk cppOps x.1 x.2.1 x.2.2 with
    | true => rfl
    | false =>
      exact absurd ((mem_badSlots pyOps cppOps vocabulary x).mpr
        ⟨hvoc _ hv.1, by
          rcases hv.2 with h' | h'
          · simp [h']
          · exact List.mem_cons_of_mem _ (hvoc _ h'), hpy x hx, hcpp⟩) (h x hx)

/-- the table of bad parent/child slots is not empty: e.g. `&` as left child of `==`; the flat `a & b == c` regroups -/
example : (Head.bin (symCode ['=', '=']), Side.left, Head.bin (symCode ['&'])) ∈ badPairs := by decide
example : badPairs.length = 60 := by decide
example : parse cppOps (print (pyExprL w1)) = some (.bin (symCode ['&']) (.atom 1) (.bin (symCode ['=', '=']) (.atom 2) (.atom 3))) := by decide

/-! ## meaning -/

/-- **Semantics.** Whenever the node has a C++ tree with Python's grouping (`pyExpr n = some e`: operator core, no comparison
    chain) and the Python evaluation stays inside the agreement subset of the property statement (`denotePy` returns a value:
    32-bit ints, `%` on a non-negative dividend and positive divisor, no `/`, shift counts 0..31, booleans under
    `and`/`or`/`not`), C++ evaluates that tree without undefined behaviour to the same value (bools as 0/1):
    floor-`%` = truncating `%` there, `and`/`or` skip exactly the evaluations `&&`/`||` skip, `is` on bools is `==`,
    `<<` does not wrap, `bool & bool` is the int 0/1 of the Python bool. -/
theorem sem (n : Node) (ρ : Env) (e : Expr) (v : Val) (he : pyExpr n = some e) (hv : denotePy ρ n = .ok v) :
    denoteCpp ρ e = .ok v.repr := by
  simp only [pyExpr] at he
  split at he
  · next hc =>
    simp only [Bool.and_eq_true] at hc
    cases he
    exact sem_node ρ n v hc.1 hv
  · cases he

/-- non-vacuity: `(a + b) % c` at a = 7, b = 5, c = 4 is inside the subset and both sides give 0;
    at a = -7 Python's floor-`%` (= 1) and C++'s truncating `%` (= -2) differ — that evaluation is outside the subset -/
example :
    let n : Node := .chain 9 .int (.group (.chain 8 .int (.atom 1 ['a']) (.cons .add false .int (.atom 2 ['b']) .nil))) (.cons .mod false .int (.atom 3 ['c']) .nil)
    let ρ : Env := fun i => if i = 1 then .int 7 else if i = 2 then .int 5 else .int 4
    let ρ' : Env := fun i => if i = 1 then .int (-7) else if i = 2 then .int 5 else .int 4
    denotePy ρ n = .ok (.int 0) ∧ (pyExpr n).map (denoteCpp ρ) = some (.ok 0) ∧ inSubset n ρ' = false
      ∧ (pyExpr n).map (denoteCpp ρ') = some (.ok (-2)) := by decide

/-- **Agreement by construction**, the conjunction of `group` and `sem`: for every grammar-producible core node without a
    comparison chain, the token text tranp emits is parsed by C++ into a tree whose C++ value is the Python value, for every
    environment on which the Python evaluation stays inside the subset. -/
theorem agree (n : Node) (ρ : Env) (v : Val) (hc : core n = true) (hw : wf n = true) (hf : cmpChainFree n = true)
    (hv : denotePy ρ n = .ok v) : ∃ e, parse cppOps (toks n) = some e ∧ denoteCpp ρ e = .ok v.repr := by
  obtain ⟨e, p, hp, hparse, hs⟩ := group n hc hw hf
  refine ⟨e, hparse, ?_⟩
  rw [← denoteCpp_strip, hs, denoteCpp_strip]
  exact sem n ρ p v hp hv

/-- F1 repaired, semantically: on a = b = c = 0 Python's `a & b == c` is True and the C++ parse of the emitted `(a & b) == c` gives 1;
    the flat text `a & b == c` gave 0 -/
example : denotePy (fun _ => .int 0) w1 = .ok (.bool true) ∧ (parse cppOps (toks w1)).map (denoteCpp (fun _ => .int 0)) = some (.ok 1)
    ∧ (parse cppOps (print (pyExprL w1))).map (denoteCpp (fun _ => .int 0)) = some (.ok 0) := by
  decide

end Tranp.C01
