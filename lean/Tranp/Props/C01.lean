/-
  Property C01 — Transpiled C++ behaves like the Python source (operator core).
  Property theorems only; helper lemmas live in Tranp/Lemmas/Emit.lean, Tranp/Lemmas/Prec.lean and Tranp/Lemmas/EmitSem.lean.
-/
import Tranp.Lemmas.Emit
import Tranp.Lemmas.EmitSem
import Tranp.Lemmas.EmitWNode
import Tranp.Lemmas.EmitSemW
import Tranp.Lemmas.EmitStmt

namespace Tranp.C01
open Tranp Tranp.Emit Tranp.Prec Tranp.Generated.CppTemplates

/-! ## the tie of the model's operator enumeration to the generated tables -/

/-- The operators, levels and kinds the model enumerates are exactly the expression ladder read from data/grammar.lark. -/
theorem ladder_eq : modelLadder = ladder := by decide

/-- `emit` is defined for every operator the ladder can produce: whatever the operand types / the dict flag, some branch of
    the generated binary_operator.j2 / binary_in.j2 is selected and it mentions both operands; likewise unary, ternary, group. -/
theorem ops_total :
    (∀ (op : BOp) (lty rty : Ty), isIn op = false →
      ∃ shape, select { strs := [(sOperator, op.tok), (sLeftTy, lty.name), (sRightTy, rty.name)] } binaryOperator = some shape
        ∧ Piece.var sLeft ∈ shape ∧ Piece.var sRight ∈ shape) ∧
    (∀ (op : BOp) (dict : Bool), isIn op = true →
      ∃ shape, select { strs := [(sOperator, op.tok)], flags := if dict then [sRightIsDict] else [] } binaryIn = some shape
        ∧ Piece.var sLeft ∈ shape ∧ Piece.var sRight ∈ shape) ∧
    (∀ v : Vars, select v unaryOperator = some [.var sOperator, .var sValue]) ∧
    (∀ v : Vars, ∃ shape, select v ternaryOperator = some shape ∧ Piece.var sCondition ∈ shape ∧ Piece.var sPrimary ∈ shape ∧ Piece.var sSecondary ∈ shape) ∧
    (∀ v : Vars, ∃ shape, select v group = some shape ∧ Piece.var sExpression ∈ shape) := by
  refine ⟨?_, ?_, fun _ => rfl, fun _ => ⟨_, rfl, by decide, by decide, by decide⟩, fun _ => ⟨_, rfl, by decide⟩⟩
  · intro op lty rty h
    refine ⟨_, select_binary op lty rty, ?_, ?_⟩ <;> cases op <;> cases lty <;> cases rty <;> first | decide | cases h
  · intro op dict h
    cases op <;> first | (cases dict <;> exact ⟨_, rfl, by decide, by decide⟩) | cases h

example : (allBOps.filter isIn).map BOp.tok = [['i', 'n'], ['n', 'o', 't', '.', 'i', 'n']] := by decide

/-- The emitter's own precedence table (`CppOperatorPrecedences`, translated from py2cpp.py) agrees with the C++ grammar table
    `cppTable` on every infix operator of the core: its entry is the level of the operator's C++ symbol (+1); unary `!` gets the
    translated `unary` value, above every binary entry. -/
theorem emitter_table_agrees :
    (∀ (op : BOp) (s : Str), op.cpp = some s →
      lookup op.tok cppPrecBinary = some op.prec ∧ cppOps.bin op.code = some (op.prec - 1) ∧ op.prec < cppPrecUnary) ∧
    precOf ['!'] = cppPrecUnary ∧ cppOps.pre bangCode = some (cppPrecUnary - 1) := by
  refine ⟨fun op s h => ?_, rfl, rfl⟩
  have := prec_facts h
  exact ⟨this.1, this.2.1, by have := this.2.2.2; simp only [cppPrecUnary]; omega⟩

/-! ## grouping -/

/-- C++'s own parse of the emitted tokens is a tree, and — up to parentheses — it is the tree Python's grammar gives the node. -/
def Regroups (n : Node) : Prop := ∃ e p, pyExpr n = some p ∧ parse cppOps (toks n) = some e ∧ strip e = strip p

/-- The grouping sentence of the property for the operator core, with the one exclusion stated explicitly: comparison chains
    (`a < b < c`, emitted verbatim — known finding `chain-compare`). -/
def group_statement : Prop := ∀ n : Node, core n = true → wf n = true → cmpChainFree n = true → Regroups n

/-- **Grouping by construction** (repaired emitter, /repo 0598c93 + 5807b18): for every grammar-producible operator node of
    the core without a comparison chain, C++ maximal munch merges no emitted tokens, the C++ table parses the emitted tokens,
    and the result is Python's grouping up to the parentheses the guards added. -/
theorem group : group_statement := by
  intro n hc hw hf
  refine ⟨cppExprL n, pyExprL n, by simp [pyExpr, hc, hf], ?_, strip_cppExprL n⟩
  have ht : toks n = print (cppExprL n) := by
    simp only [toks, emit, cppLex_emitRaw n hc hw, emit_print n hc]
  rw [ht]
  exact parse_print_NF cppOps _ (nf_cpp n hc hw hf)

def wA : Node := .atom 1 ['a']
def wB : Node := .atom 2 ['b']
def wC : Node := .atom 3 ['c']
/-- `a & b == c` -/
def w1 : Node := .chain 3 .int (.chain 6 .int wA (.cons .band false .int wB .nil)) (.cons .eq false .int wC .nil)
/-- `not a == b` -/
def w2 : Node := .notCompare (.chain 3 .int wA (.cons .eq false .int wB .nil))
/-- `a | b < c` -/
def w3 : Node := .chain 3 .int (.chain 4 .int wA (.cons .bor false .int wB .nil)) (.cons .lt false .int wC .nil)
/-- `a < b < c` -/
def w4 : Node := .chain 3 .int wA (.cons .lt false .int wB (.cons .lt false .int wC .nil))
/-- `- -a` -/
def w5 : Node := .factor .neg (.factor .neg wA)

/-- non-vacuity and regression: the former counterexamples of the grouping sentence (DESIGN §7 F1, fused sign) now regroup -/
example : Regroups w1 ∧ Regroups w2 ∧ Regroups w3 ∧ Regroups w5 :=
  ⟨group w1 (by decide) (by decide) (by decide), group w2 (by decide) (by decide) (by decide),
   group w3 (by decide) (by decide) (by decide), group w5 (by decide) (by decide) (by decide)⟩
example : String.ofList (text (emitRaw w1)) = "(a & b) == c" := by decide
example : String.ofList (text (emitRaw w2)) = "!(a == b)" := by decide
example : String.ofList (text (emitRaw w3)) = "(a | b) < c" := by decide
example : String.ofList (text (emitRaw w5)) = "-(-a)" := by decide

/-- The grouping sentence without the exclusion. It stays false: a comparison chain has no C++ tree with Python's grouping. -/
def group_statement_full : Prop := ∀ n : Node, core n = true → wf n = true → Regroups n

/-- `a < b < c` (F2, known finding `chain-compare`; replayed on the real code by corpus/C01/f2-chain-compare.json):
    the emitted text is `a < b < c`, which C++ parses as `(a < b) < c`. -/
theorem group_chain_counterexample : ¬ group_statement_full := by
  intro h
  obtain ⟨e, p, hp, _, _⟩ := h w4 (by decide) (by decide)
  have hnone : pyExpr w4 = none := by decide
  rw [hnone] at hp; cases hp

example : String.ofList (text (emitRaw w4)) = "a < b < c" := by decide
example : parse cppOps (toks w4) = some (.bin (symCode ['<']) (.bin (symCode ['<']) (.atom 1) (.atom 2)) (.atom 3)) := by decide

/-! ## the whole operator language: ternary, `in` / `not in`, float `%` -/

/-- Python's grouping of a node in the vocabulary of the emitted text; a comparison chain has none (C++ has no n-ary comparison) -/
def pyXOpt (n : Node) : Option X := if cmpChainFree n then some (pyX n) else none

/-- C++ — the wrapper grammar of Model/EmitW.lean around `Prec.parse cppTable`: conditional expressions, postfix calls and
    member access — reads the emitted tokens as a tree, and that tree is Python's grouping up to redundant parentheses. -/
def RegroupsW (n : Node) : Prop := ∃ x p, pyXOpt n = some p ∧ ParsesTo (toksW n) x ∧ stripX x = stripX p

/-- the grouping sentence for every operator node — binary, unary, ternary (`c ? a : b`), `in` / `not in` (call forms),
    float `%` (`fmod(l, r)`) — with the one exclusion stated explicitly: comparison chains (known finding `chain-compare`).
    `coreW` only removes `<>` (no Python 3 operator) and an `in` whose container is a unary expression (untypable). -/
def group_full_statement : Prop := ∀ n : Node, coreW n = true → wf n = true → cmpChainFree n = true → RegroupsW n

/-- **Grouping by construction, whole operator language.** -/
theorem group_full : group_full_statement := by
  intro n hc hw hf
  refine ⟨xOf n, pyX n, by simp [pyXOpt, hf], ?_, stripX_node n hw⟩
  rw [toksW_eq n hc hw (cppLexW_emitRaw n hc hw)]
  exact parsesTo_print (xOf n) (nfX_node n hc hw hf)

/-- non-vacuity: `a if b not in c + c else (a if b else c)` (ternary, list `not in` with a guarded container, nested ternary)
    and the float chain `a * b % c` (`fmod(a * b, c)`) -/
example :
    let a : Node := .atom 1 ['a']; let b : Node := .atom 2 ['b']; let c : Node := .atom 3 ['c']
    RegroupsW (.ternary a (.chain 3 .int b (.cons .notIn false .other (.chain 8 .other c (.cons .add false .other c .nil)) .nil)) (.group (.ternary a b c)))
    ∧ RegroupsW (.chain 9 .float a (.cons .mul false .int b (.cons .mod true .float c .nil))) :=
  ⟨group_full _ (by decide) (by decide) (by decide), group_full _ (by decide) (by decide) (by decide)⟩

example : String.ofList (text (emitRaw (.ternary wA (.chain 3 .int wB (.cons .notIn false .other (.chain 8 .other wC (.cons .add false .other wC .nil)) .nil)) (.group (.ternary wA wB wC)))))
    = "(std::find((c + c).begin(), (c + c).end(), b) == (c + c).end()) ? a : (b ? a : c)" := by decide

/-- without the exclusion the sentence stays false (`a < b < c`) -/
theorem group_full_chain_counterexample : ¬ (∀ n : Node, coreW n = true → wf n = true → RegroupsW n) := by
  intro h
  obtain ⟨x, p, hp, _, _⟩ := h w4 (by decide) (by decide)
  have hnone : pyXOpt w4 = none := by decide
  rw [hnone] at hp; cases hp

/-! ## why the guards are needed: the flat text -/

/-- Printing Python's grouping *without* the guards (what the emitter did before 0598c93) is re-parsed by C++ into the same
    tree exactly when no parent/child slot of the node is in `badPairs`, the table computed from the two precedence tables. -/
theorem flat_iff (n : Node) (hc : core n = true) (hw : wf n = true) :
    parse cppOps (print (pyExprL n)) = some (pyExprL n) ↔ ∀ x ∈ slots n, x ∉ badPairs := by
  have hpy := (nf_iff_pairs pyOps (pyExprL n)).mp (nf_py n hc hw).1
  rw [parse_print_iff, nf_iff_pairs]
  constructor
  · intro h x hx hmem
    have := ((mem_badSlots pyOps cppOps vocabulary x).mp hmem).2.2.2
    rw [h x hx] at this
    cases this
  · intro h x hx
    have hv := pairs_heads (pyExprL n) x hx
    have hvoc := heads_vocabulary n hc
    cases hcpp : slotOk cppOps x.1 x.2.1 x.2.2 with
    | true => rfl
    | false =>
      exact absurd ((mem_badSlots pyOps cppOps vocabulary x).mpr
        ⟨hvoc _ hv.1, by
          rcases hv.2 with h' | h'
          · simp [h']
          · exact List.mem_cons_of_mem _ (hvoc _ h'), hpy x hx, hcpp⟩) (h x hx)

/-- the table of bad parent/child slots is not empty: e.g. `&` as left child of `==`; the flat `a & b == c` regroups -/
example : (Head.bin (symCode ['=', '=']), Side.left, Head.bin (symCode ['&'])) ∈ badPairs := by decide
example : badPairs.length = 60 := by decide
example : parse cppOps (print (pyExprL w1)) = some (.bin (symCode ['&']) (.atom 1) (.bin (symCode ['=', '=']) (.atom 2) (.atom 3))) := by decide

/-! ## meaning -/

/-- **Semantics.** Whenever the node has a C++ tree with Python's grouping (`pyExpr n = some e`: operator core, no comparison
    chain) and the Python evaluation stays inside the agreement subset of the property statement (`denotePy` returns a value:
    32-bit ints, `%` on a non-negative dividend and positive divisor, no `/`, shift counts 0..31, booleans under
    `and`/`or`/`not`), C++ evaluates that tree without undefined behaviour to the same value (bools as 0/1):
    floor-`%` = truncating `%` there, `and`/`or` skip exactly the evaluations `&&`/`||` skip, `is` on bools is `==`,
    `<<` does not wrap, `bool & bool` is the int 0/1 of the Python bool. -/
theorem sem (n : Node) (ρ : Env) (e : Expr) (v : Val) (he : pyExpr n = some e) (hv : denotePy ρ n = .ok v) :
    denoteCpp ρ e = .ok v.repr := by
  simp only [pyExpr] at he
  split at he
  · next hc =>
    simp only [Bool.and_eq_true] at hc
    cases he
    exact sem_node ρ n v hc.1 hv
  · cases he

/-- non-vacuity: `(a + b) % c` at a = 7, b = 5, c = 4 is inside the subset and both sides give 0;
    at a = -7 Python's floor-`%` (= 1) and C++'s truncating `%` (= -2) differ — that evaluation is outside the subset -/
example :
    let n : Node := .chain 9 .int (.group (.chain 8 .int (.atom 1 ['a']) (.cons .add false .int (.atom 2 ['b']) .nil))) (.cons .mod false .int (.atom 3 ['c']) .nil)
    let ρ : Env := fun i => if i = 1 then .int 7 else if i = 2 then .int 5 else .int 4
    let ρ' : Env := fun i => if i = 1 then .int (-7) else if i = 2 then .int 5 else .int 4
    denotePy ρ n = .ok (.int 0) ∧ (pyExpr n).map (denoteCpp ρ) = some (.ok 0) ∧ inSubset n ρ' = false
      ∧ (pyExpr n).map (denoteCpp ρ') = some (.ok (-2)) := by decide

/-- **Agreement by construction**, the conjunction of `group` and `sem`: for every grammar-producible core node without a
    comparison chain, the token text tranp emits is parsed by C++ into a tree whose C++ value is the Python value, for every
    environment on which the Python evaluation stays inside the subset. -/
theorem agree (n : Node) (ρ : Env) (v : Val) (hc : core n = true) (hw : wf n = true) (hf : cmpChainFree n = true)
    (hv : denotePy ρ n = .ok v) : ∃ e, parse cppOps (toks n) = some e ∧ denoteCpp ρ e = .ok v.repr := by
  obtain ⟨e, p, hp, hparse, hs⟩ := group n hc hw hf
  refine ⟨e, hparse, ?_⟩
  rw [← denoteCpp_strip, hs, denoteCpp_strip]
  exact sem n ρ p v hp hv

/-- F1 repaired, semantically: on a = b = c = 0 Python's `a & b == c` is True and the C++ parse of the emitted `(a & b) == c` gives 1;
    the flat text `a & b == c` gave 0 -/
example : denotePy (fun _ => .int 0) w1 = .ok (.bool true) ∧ (parse cppOps (toks w1)).map (denoteCpp (fun _ => .int 0)) = some (.ok 1)
    ∧ (parse cppOps (print (pyExprL w1))).map (denoteCpp (fun _ => .int 0)) = some (.ok 0) := by
  decide

/-! ## meaning, whole operator language, floats abstract -/

/-- **Semantics, whole operator language** (ternary, mixed int/float arithmetic with promotion, float `/`, the `fmod` branch of the
    `%` template), floats abstract: for every interpretation `ops` of the float operations in which floor-`%` and `fmod` agree on a
    non-negative dividend and a positive divisor, whenever the Python evaluation of a grammar-producible node stays inside the
    agreement subset — and the type tags the emitter used at each `%` describe the operand values — the C++ value of the tree with
    Python's grouping is the Python value. -/
theorem sem_full {F : Type} (ops : FOps F) (hlaw : ModLaw ops) (ρ : PEnv F) (n : Node) (v : PVal F)
    (hc : coreS n = true) (hw : wf n = true) (hv : pyEval ops ρ n = .ok v) : cEvalX ops ρ (pyX n) = .ok v.repr :=
  semX ops hlaw ρ n v hc hw hv

/-- **Agreement by construction, whole operator language**: `group_full` + `sem_full`. The emitted token text, as the C++
    grammar reads it, evaluates to the Python value. -/
theorem agree_full {F : Type} (ops : FOps F) (hlaw : ModLaw ops) (ρ : PEnv F) (n : Node) (v : PVal F)
    (hc : coreS n = true) (hw : wf n = true) (hf : cmpChainFree n = true) (hv : pyEval ops ρ n = .ok v) :
    ∃ x, ParsesTo (toksW n) x ∧ cEvalX ops ρ x = .ok v.repr := by
  obtain ⟨x, p, hp, hparse, hs⟩ := group_full n (coreW_of_coreS n hc) hw hf
  refine ⟨x, hparse, ?_⟩
  simp only [pyXOpt, hf, ↓reduceIte, Option.some.injEq] at hp
  subst hp
  rw [← cEvalX_strip, hs, cEvalX_strip]
  exact sem_full ops hlaw ρ n v hc hw hv

/-- a toy interpretation of the float operations over `Int` (non-vacuity of the hypotheses only) -/
def toyOps : FOps Int where
  ofInt := id
  add := (· + ·)
  sub := (· - ·)
  mul := (· * ·)
  div := fun x y => x / y
  neg := fun x => -x
  fmod := Int.tmod
  pyMod := fun x y => x % y
  lt := fun x y => decide (x < y)
  le := fun x y => decide (x ≤ y)
  eq := fun x y => decide (x = y)
  isZero := fun x => decide (x = 0)
  nonneg := fun x => decide (0 ≤ x)
  pos := fun x => decide (0 < x)

theorem toyOps_law : ModLaw toyOps := by
  intro x y hx hy
  simp only [toyOps, decide_eq_true_eq] at hx hy
  exact (Int.tmod_eq_emod_of_nonneg hx).symm

/-- non-vacuity: `(x % c * a) if p else -x` with a float `x`: ternary, promotion, `fmod` -/
example :
    let n : Node := .ternary (.chain 9 .float (.atom 1 ['x']) (.cons .mod false .int (.atom 3 ['c']) (.cons .mul false .int (.atom 2 ['a']) .nil)))
      (.atom 4 ['p']) (.factor .neg (.atom 1 ['x']))
    let ρ : PEnv Int := fun i => if i = 1 then .flt 7 else if i = 2 then .int 3 else if i = 3 then .int 4 else .bool true
    String.ofList (text (emitRaw n)) = "p ? fmod(x, c) * a : -x" ∧
      ∃ x, ParsesTo (toksW n) x ∧ cEvalX toyOps ρ x = .ok (.f 9) := by
  refine ⟨by decide, ?_⟩
  exact agree_full toyOps toyOps_law _ _ (.flt 9) (by decide) (by decide) (by decide) (by decide)

/-- `x % a % b` with a float `x` and ints `a`, `b`, every element tagged with its true type -/
def wFmod : Node := .chain 9 .float (.atom 1 ['x']) (.cons .mod false .int (.atom 2 ['a']) (.cons .mod false .int (.atom 3 ['b']) .nil))

/-- **Regression of the repaired defect `fmod:left-type`** (6063966). Before the repair `proc_binary_operation_expression` kept the
    type of the previous *right element* as the type of the accumulated left operand, so the second `%` of `x % a % b` was rendered
    with the integer template: `fmod(x, a) % b`, ill-formed for every float `x`. With `Ty.acc` (floating point once an element
    was) the emitted text is `fmod(fmod(x, a), b)`, the node is inside `agree_full` (so every in-subset Python value is the C++
    value of the emitted tokens), and the tag check of `pyEval` accepts it for every float `x` and ints `a`, `b`
    (corpus/C01/fmod-left-type.json now agrees). -/
theorem fmod_left_type_regression :
    String.ofList (text (emitRaw wFmod)) = "fmod(fmod(x, a), b)" ∧
    (∀ {F : Type} (ops : FOps F), ModLaw ops → ∀ (ρ : PEnv F) (v : PVal F), pyEval ops ρ wFmod = .ok v →
      ∃ x, ParsesTo (toksW wFmod) x ∧ cEvalX ops ρ x = .ok v.repr) ∧
    (∀ {F : Type} (ops : FOps F) (ρ : PEnv F) (x : F) (a b : Int), ρ 1 = .flt x → ρ 2 = .int a → ρ 3 = .int b →
      pyEval ops ρ wFmod ≠ .error .tagMismatch) ∧
    pyEval toyOps (fun i => if i = 1 then .flt 7 else if i = 2 then .int 4 else .int 2) wFmod = .ok (.flt 1) := by
  refine ⟨by decide, ?_, ?_, by decide⟩
  · intro F ops hlaw ρ v hv
    exact agree_full ops hlaw ρ wFmod v (by decide) (by decide) (by decide) hv
  · intro F ops ρ x a b hx ha hb
    have e1 : ∀ (y : F) (c : Int), pyBin2 ops .mod (.flt y) (.int c) =
        if (ops.nonneg y && ops.pos (ops.ofInt c)) = true then .ok (.flt (ops.pyMod y (ops.ofInt c))) else .error .outOfSubset := by
      intro y c; simp [pyBin2, PVal.toVal, PVal.toF, pyBinF]
    simp only [wFmod, pyEval, pyEvalRest, hx, ha, hb, pchk]
    by_cases h2 : inI32 a = true <;> by_cases h3 : inI32 b = true <;>
      by_cases h4 : (ops.nonneg x && ops.pos (ops.ofInt a)) = true <;>
      by_cases h5 : (ops.nonneg (ops.pyMod x (ops.ofInt a)) && ops.pos (ops.ofInt b)) = true <;>
      simp [h2, h3, h4, h5, e1, Ty.acc, Ty.isFloat, PVal.isF] <;> split <;> simp

/-! ## statements core: `v = e`, `return e`, `if/elif/else`, `while` over the operator core -/

/-- **Which assignment declares.** `VarsCollector` (one pass over the function body, a name is merged into an earlier declaration
    of the same or an enclosing block — `annotate`, the model of `_collect_impl`/`_merged`) marks as declarations exactly the
    assignments whose name is not declared in an open C++ block at that point (`annotV`): every name is declared at most once per
    C++ scope chain, at its first assignment in it. -/
theorem stmt_decl (params : List Var) (b : Block) : annotate params b = annotV [params] b := annotate_eq params b

/-- **The translated statement templates are the C++ statement forms `cExec` reads.** Every line `emitLines` produces is an instance
    of one of these templates (translated from data/cpp/template/{assign,statement,flow}/… on every run) with `emitRaw e` / the
    variable name in its holes. Read as C++ (`readForm`): the declare template is a declaration `T v = e;` with the receiver left
    and the value right of `=`, the assign and aug-assign templates are (compound) assignment statements, `return e;`, the if /
    else-if / else heads open (and, for the latter two, first close) a compound statement around the condition hole, the while head is
    `while (c) {`, the for head declares `symbol` with `auto` from `begin`, tests `symbol < size` and increments the SAME
    `symbol` by `step`, `break;`, `continue;`, and every closing line is `}` — the form `cStmt` / `cFor` / `cArms` give the
    corresponding `AStmt` constructor, operand for operand. (A template that turns into another statement form — `while` into `if`,
    `continue;` into `break;`, swapped for-sections — fails here.) -/
theorem stmt_forms :
    readForm stmtDeclare = some (.declare sVarType sReceiver sValue) ∧
    readForm stmtAssign = some (.assign sReceiver sValue) ∧
    readForm stmtAug = some (.compound sReceiver sOperator sValue) ∧
    readForm stmtReturn = some (.ret sReturnValue) ∧
    readForm stmtIfHead = some (.ifHead sCondition) ∧
    readForm stmtElifHead = some (.elifHead sCondition) ∧
    readForm stmtElseHead = some .elseHead ∧
    readForm stmtWhileHead = some (.whileHead sCondition) ∧
    readForm stmtForRangeHead = some (.forHead sSymbol sBegin sSymbol sSize sSymbol sStep) ∧
    readForm stmtBreak = some .brk ∧
    readForm stmtContinue = some .cont ∧
    stmtIfTail = ['}'] ∧ stmtWhileTail = ['}'] ∧ stmtForRangeTail = ['}'] := by decide

/-- the reader is not a constant: a `while` head is no `if` head, `continue;` is no `break;` -/
example : readForm stmtWhileHead ≠ readForm stmtIfHead ∧ readForm stmtContinue ≠ readForm stmtBreak ∧ readForm [.tok ['}']] = none := by decide

/-- **Statements agree.** For every function body of the core (`v = e`, `v op= e`, `return e`, `if/elif/else`, `while`,
    `for v in range(begin, stop, step)`, `break`, `continue`; expressions of the operator core on 32-bit ints and bools) that satisfies the static
    condition `scopeOK` —
    * every name read — and every target of an augmented assignment — is *visible* in the C++ block structure (a parameter, or first assigned earlier in the same or an enclosing
      block: Python's function-level scoping is never needed beyond C++'s block scoping),
    * for a `for`: the loop variable is a fresh name, the body assigns neither the loop variable nor any name `stop` / `step` read
      (the emitted `for (auto v = begin; v < stop; v += step)` re-evaluates them and keeps `v` across iterations), `v < stop` is an
      operator node of the core in which `stop` needs no parentheses (`for_test_reparses`: then the pasted loop test IS that node's
      text; the C++ reading of the loop test is the parse of the pasted tokens), the step is positive, begin fits 32 bits —
    and every terminating Python execution (range evaluated once, loop variable rebound on each iteration) that stays InSubset and
    returns `r`: the C++ reading of the emitted statements (declaration at the first assignment per `VarsCollector`, plain assignment
    afterwards, `{ … }` and `for (…)` opening and closing scopes, emitted expression text parsed by the C++ grammar) returns `r` with
    the same fuel. `break` / `continue` leave the blocks up to the innermost enclosing loop — in C++ every block left that way ends the
    lifetime of its names (`popOut`), `continue` in the emitted `for` goes to the increment `v += step`, in Python to the next value
    of the range; no extra condition is needed for them. Each clause of the condition is necessary: `stmt_scope_counterexample`, `range_reevaluated_counterexample`,
    `range_loopvar_counterexamples`. -/
theorem stmt_agree (lits : Lits) (params : List Var) (args : Store) (b : Block) (fuel : Nat) (r : Int)
    (hargs : ∀ v, params.contains v = (args.get v).isSome)
    (hscope : scopeOK lits [params] b = true)
    (hpy : pyExec lits fuel args b = .ok (.returned r)) :
    cExec lits fuel [args] (annotate params b) = .ok (.returned r) := by
  have hi : Inv [params] args [args] := by
    refine ⟨.cons hargs .nil, ⟨fun _ _ => rfl, trivial⟩, ?_⟩
    intro v i hg
    simp only [Frames.get] at hg
    cases h : Store.get args v with
    | some j => simpa [h] using hg
    | none => simp [h] at hg
  obtain ⟨out', hc, hr⟩ := (sim lits fuel).1 [params] args [args] b _ hscope hi hpy
  rw [stmt_decl, hc]
  cases out' with
  | returned r' => cases hr; rfl
  | _ => cases hr

/-- `def f(a): s = 0; i = 0; while i < a: t = i * i; s = s + t; i = i + 1;  if s > 9: return s  else: return -s`
    (atoms: a=1 s=2 i=3 t=4, literals 0=10 1=11 9=12) -/
def wLoop : Block :=
  let at_ (i : Nat) (c : Char) : Node := .atom i [c]
  let bin (op : BOp) (l r : Node) : Node := .chain op.level .int l (.cons op false .int r .nil)
  .cons (.assign 2 ['s'] (at_ 10 '0')) (.cons (.assign 3 ['i'] (at_ 10 '0'))
  (.cons (.while_ (bin .lt (at_ 3 'i') (at_ 1 'a'))
      (.cons (.assign 4 ['t'] (bin .mul (at_ 3 'i') (at_ 3 'i')))
      (.cons (.assign 2 ['s'] (bin .add (at_ 2 's') (at_ 4 't')))
      (.cons (.assign 3 ['i'] (bin .add (at_ 3 'i') (at_ 11 '1'))) .nil))))
  (.cons (.ifs (.one (bin .gt (at_ 2 's') (at_ 12 '9')) (.cons (.ret (at_ 2 's')) .nil)) true
      (.cons (.ret (.factor .neg (at_ 2 's'))) .nil)) .nil)))

def wLits : Lits := fun i => if i = 10 then some (.int 0) else if i = 11 then some (.int 1) else if i = 12 then some (.int 9) else none

/-- non-vacuity: the loop program is in scope, its emission declares `s`, `i` once at function level and `t` in the loop body, and
    Python returns 14 for `a = 4` -/
example :
    scopeOK wLits [[1]] wLoop = true ∧
    (emitLines (fun _ => ['i', 'n', 't']) (annotate [1] wLoop)).map String.ofList =
      ["int s = 0;", "int i = 0;", "while (i < a) {", "int t = i * i;", "s = s + t;", "i = i + 1;", "}",
       "if (s > 9) {", "return s;", "} else {", "return -s;", "}"] ∧
    pyExec wLits 40 [(1, 4)] wLoop = .ok (.returned 14) ∧
    cExec wLits 40 [[(1, 4)]] (annotate [1] wLoop) = .ok (.returned 14) := by
  refine ⟨by decide, by decide, by decide, ?_⟩
  exact stmt_agree wLits [1] [(1, 4)] wLoop 40 14 (by intro v; by_cases h : v = 1 <;> simp [Store.get, h, eq_comm]) (by decide) (by decide)

/-- `def f(a): if a > 0: v = 1  else: v = 2;  return v` (atoms a=1 v=2, literals 0=10 1=11 2=12) -/
def wHazard : Block :=
  let at_ (i : Nat) (c : Char) : Node := .atom i [c]
  .cons (.ifs (.one (.chain BOp.gt.level .int (at_ 1 'a') (.cons .gt false .int (at_ 10 '0') .nil)) (.cons (.assign 2 ['v'] (at_ 11 '1')) .nil)) true
      (.cons (.assign 2 ['v'] (at_ 12 '2')) .nil))
  (.cons (.ret (at_ 2 'v')) .nil)

def wHazLits : Lits := fun i => if i = 10 then some (.int 0) else if i = 11 then some (.int 1) else if i = 12 then some (.int 2) else none

/-- **The scope condition is not vacuous** (the hazard "first assigned inside a nested block, used after it"): the program is valid
    Python and returns 1 for `a = 5`; `scopeOK` fails; the statements the collector logic would emit declare `v` in each branch
    block and read it after both blocks are closed — the C++ reading is ill-formed (`v` undeclared). The real emitter refuses
    such programs (`UnresolvedSymbol`; finding `reject:block-scoped-name`, corpus/C01/probe-reject-block-scoped-name.json). -/
theorem stmt_scope_counterexample :
    scopeOK wHazLits [[1]] wHazard = false ∧
    pyExec wHazLits 9 [(1, 5)] wHazard = .ok (.returned 1) ∧
    (emitLines (fun _ => ['i', 'n', 't']) (annotate [1] wHazard)).map String.ofList =
      ["if (a > 0) {", "int v = 1;", "} else {", "int v = 2;", "}", "return v;"] ∧
    cExec wHazLits 9 [[(1, 5)]] (annotate [1] wHazard) = .error .ub := by
  refine ⟨by decide, by decide, by decide, by decide⟩

/-! ## `for … in range(…)`: the three ways the C-style loop is not Python's iteration -/

/-- `(atom id text)`, `l op r` on ints -/
def wAt (i : Nat) (c : Char) : Node := .atom i [c]
def wBin (op : BOp) (l r : Node) : Node := .chain op.level .int l (.cons op false .int r .nil)

/-- literals of the examples below: atoms 10, 11, 12 are `0`, `1`, `5` -/
def wForLits : Lits := fun i => if i = 10 then some (.int 0) else if i = 11 then some (.int 1) else if i = 12 then some (.int 5) else none

/-- `def f(n): t = 0;  for i in range(0, n, 1): t = t + i * i;  return t`   (n=1 t=2 i=3) -/
def wFor : Block :=
  .cons (.assign 2 ['t'] (wAt 10 '0'))
  (.cons (.forRange 3 ['i'] (wAt 10 '0') (wAt 1 'n') (wAt 11 '1')
      (.cons (.assign 2 ['t'] (wBin .add (wAt 2 't') (wBin .mul (wAt 3 'i') (wAt 3 'i')))) .nil))
  (.cons (.ret (wAt 2 't')) .nil))

/-- non-vacuity of `stmt_agree` on a for loop: in scope, emitted through flow/for/range.j2, 0+1+4+9 = 14 on both sides -/
example :
    scopeOK wForLits [[1]] wFor = true ∧
    (emitLines (fun _ => ['i', 'n', 't']) (annotate [1] wFor)).map String.ofList =
      ["int t = 0;", "for (auto i = 0; i < n; i += 1) {", "t = t + i * i;", "}", "return t;"] ∧
    cExec wForLits 30 [[(1, 4)]] (annotate [1] wFor) = .ok (.returned 14) := by
  refine ⟨by decide, by decide, ?_⟩
  exact stmt_agree wForLits [1] [(1, 4)] wFor 30 14 (by intro v; by_cases h : v = 1 <;> simp [Store.get, h, eq_comm]) (by decide) (by decide)

/-- `def f(n): t = 1;  for i in range(0, n, 1): t += i; t *= 2;   return t` -/
def wAug : Block :=
  .cons (.assign 2 ['t'] (wAt 11 '1'))
  (.cons (.forRange 3 ['i'] (wAt 10 '0') (wAt 1 'n') (wAt 11 '1')
      (.cons (.aug 2 ['t'] .add (wAt 3 'i')) (.cons (.aug 2 ['t'] .mul (wBin .add (wAt 11 '1') (wAt 11 '1'))) .nil)))
  (.cons (.ret (wAt 2 't')) .nil))

/-- non-vacuity with augmented assignments (assign/aug_assign.j2): ((1+0)*2+1)*2+2)*2 = 16 for n = 3 -/
example :
    (emitLines (fun _ => ['i', 'n', 't']) (annotate [1] wAug)).map String.ofList =
      ["int t = 1;", "for (auto i = 0; i < n; i += 1) {", "t += i;", "t *= 1 + 1;", "}", "return t;"] ∧
    cExec wForLits 30 [[(1, 3)]] (annotate [1] wAug) = .ok (.returned 16) := by
  refine ⟨by decide, ?_⟩
  exact stmt_agree wForLits [1] [(1, 3)] wAug 30 16 (by intro v; by_cases h : v = 1 <;> simp [Store.get, h, eq_comm]) (by decide) (by decide)

/-- `def f(a): s = 0; k = 0; while k < 9: k += 1; (if k == 2: t = k; continue); (if k > a: break); s += k;   for i in range(0, a, 1): (if i == 1: continue); (if i == 3: u = s; s = u + 100; break); s += i;   return s`
    (atoms a=1 s=2 k=3 t=4 i=5 u=6, literals 0=10 1=11 2=12 3=13 9=14 100=15) -/
def wJump : Block :=
  let one (c : Node) (b : Block) : Stmt := .ifs (.one c b) false .nil
  .cons (.assign 2 ['s'] (wAt 10 '0')) (.cons (.assign 3 ['k'] (wAt 10 '0'))
  (.cons (.while_ (wBin .lt (wAt 3 'k') (wAt 14 '9'))
      (.cons (.aug 3 ['k'] .add (wAt 11 '1'))
      (.cons (one (wBin .eq (wAt 3 'k') (wAt 12 '2')) (.cons (.assign 4 ['t'] (wAt 3 'k')) (.cons .cont .nil)))
      (.cons (one (wBin .gt (wAt 3 'k') (wAt 1 'a')) (.cons .brk .nil))
      (.cons (.aug 2 ['s'] .add (wAt 3 'k')) .nil)))))
  (.cons (.forRange 5 ['i'] (wAt 10 '0') (wAt 1 'a') (wAt 11 '1')
      (.cons (one (wBin .eq (wAt 5 'i') (wAt 11 '1')) (.cons .cont .nil))
      (.cons (one (wBin .eq (wAt 5 'i') (wAt 13 '3')) (.cons (.assign 6 ['u'] (wAt 2 's')) (.cons (.assign 2 ['s'] (wBin .add (wAt 6 'u') (.atom 15 ['1', '0', '0']))) (.cons .brk .nil))))
      (.cons (.aug 2 ['s'] .add (wAt 5 'i')) .nil))))
  (.cons (.ret (wAt 2 's')) .nil))))

def wJumpLits : Lits := fun i =>
  if i = 10 then some (.int 0) else if i = 11 then some (.int 1) else if i = 12 then some (.int 2) else if i = 13 then some (.int 3)
  else if i = 14 then some (.int 9) else if i = 15 then some (.int 100) else none

/-- non-vacuity of `stmt_agree` with `break` / `continue` (statement/break.j2, statement/continue.j2) in a `while` and in a `for`,
    each leaving a block that has declared a name of its own: for a = 5 the while loop adds 1+3+4+5 (2 skipped, left at k = 6), the
    for loop adds 0+2 (1 skipped) and leaves at i = 3 with +100: 115 on both sides -/
example :
    scopeOK wJumpLits [[1]] wJump = true ∧
    (emitLines (fun _ => ['i', 'n', 't']) (annotate [1] wJump)).map String.ofList =
      ["int s = 0;", "int k = 0;", "while (k < 9) {", "k += 1;", "if (k == 2) {", "int t = k;", "continue;", "}", "if (k > a) {", "break;", "}", "s += k;", "}",
       "for (auto i = 0; i < a; i += 1) {", "if (i == 1) {", "continue;", "}", "if (i == 3) {", "int u = s;", "s = u + 100;", "break;", "}", "s += i;", "}",
       "return s;"] ∧
    pyExec wJumpLits 60 [(1, 5)] wJump = .ok (.returned 115) ∧
    cExec wJumpLits 60 [[(1, 5)]] (annotate [1] wJump) = .ok (.returned 115) := by
  refine ⟨by decide, by decide, by decide, ?_⟩
  exact stmt_agree wJumpLits [1] [(1, 5)] wJump 60 115 (by intro v; by_cases h : v = 1 <;> simp [Store.get, h, eq_comm]) (by decide) (by decide)

/-- `def f(n): t = 0;  for i in range(0, n, 1):  (if n < 5: n = n + 1);  t = t + 1;   return t` -/
def wReeval : Block :=
  .cons (.assign 2 ['t'] (wAt 10 '0'))
  (.cons (.forRange 3 ['i'] (wAt 10 '0') (wAt 1 'n') (wAt 11 '1')
      (.cons (.ifs (.one (wBin .lt (wAt 1 'n') (wAt 12 '5')) (.cons (.assign 1 ['n'] (wBin .add (wAt 1 'n') (wAt 11 '1'))) .nil)) false .nil)
      (.cons (.assign 2 ['t'] (wBin .add (wAt 2 't') (wAt 11 '1'))) .nil)))
  (.cons (.ret (wAt 2 't')) .nil))

/-- **Known finding `range:args-reevaluated`, as a fact about the emitted form.** The body changes `n`, which `stop` reads: the
    program is valid Python and iterates `range(0, 2, 1)` twice; the emitted loop tests `i < n` again on every iteration and
    runs five times. `scopeOK` fails exactly on the clause "the body assigns nothing `stop` reads". -/
theorem range_reevaluated_counterexample :
    scopeOK wForLits [[1]] wReeval = false ∧
    (emitLines (fun _ => ['i', 'n', 't']) (annotate [1] wReeval)).map String.ofList =
      ["int t = 0;", "for (auto i = 0; i < n; i += 1) {", "if (n < 5) {", "n = n + 1;", "}", "t = t + 1;", "}", "return t;"] ∧
    pyExec wForLits 30 [(1, 2)] wReeval = .ok (.returned 2) ∧
    cExec wForLits 30 [[(1, 2)]] (annotate [1] wReeval) = .ok (.returned 5) := by
  refine ⟨by decide, by decide, by decide, by decide⟩

/-- `def f(n): i = 5;  for i in range(0, n, 1): t = i;   return i`  — the loop variable is an already declared name -/
def wShadow : Block :=
  .cons (.assign 3 ['i'] (wAt 12 '5'))
  (.cons (.forRange 3 ['i'] (wAt 10 '0') (wAt 1 'n') (wAt 11 '1') (.cons (.assign 2 ['t'] (wAt 3 'i')) .nil))
  (.cons (.ret (wAt 3 'i')) .nil))

/-- `def f(n): t = 0;  for i in range(0, n, 1): i = i + 1; t = t + i;   return t`  — the body assigns the loop variable -/
def wLoopVar : Block :=
  .cons (.assign 2 ['t'] (wAt 10 '0'))
  (.cons (.forRange 3 ['i'] (wAt 10 '0') (wAt 1 'n') (wAt 11 '1')
      (.cons (.assign 3 ['i'] (wBin .add (wAt 3 'i') (wAt 11 '1'))) (.cons (.assign 2 ['t'] (wBin .add (wAt 2 't') (wAt 3 'i'))) .nil)))
  (.cons (.ret (wAt 2 't')) .nil))

/-- **The two loop-variable clauses are necessary** (findings `range:loopvar-shadowed`, `range:loopvar-assigned`): (1) `for i` over an
    already declared `i`: Python rebinds the one function-level `i` (returns 2 for n = 3), the emitted `for (auto i = 0; …)` declares a
    new `i` that shadows it and the outer one still holds 5; (2) the body assigns `i`: Python's next iteration takes the next value
    of the range regardless (1+2+3+4 = 10 for n = 4), the emitted loop continues from what the body left (1+3 = 4). -/
theorem range_loopvar_counterexamples :
    (scopeOK wForLits [[1]] wShadow = false ∧
      pyExec wForLits 30 [(1, 3)] wShadow = .ok (.returned 2) ∧ cExec wForLits 30 [[(1, 3)]] (annotate [1] wShadow) = .ok (.returned 5)) ∧
    (scopeOK wForLits [[1]] wLoopVar = false ∧
      (emitLines (fun _ => ['i', 'n', 't']) (annotate [1] wLoopVar)).map String.ofList =
        ["int t = 0;", "for (auto i = 0; i < n; i += 1) {", "i = i + 1;", "t = t + i;", "}", "return t;"] ∧
      pyExec wForLits 30 [(1, 4)] wLoopVar = .ok (.returned 10) ∧ cExec wForLits 30 [[(1, 4)]] (annotate [1] wLoopVar) = .ok (.returned 4)) := by
  refine ⟨⟨by decide, by decide, by decide⟩, ⟨by decide, by decide, by decide, by decide⟩⟩

/-- the operators the model gives an augmented assignment are operators of the grammar's `aug_assign_op` (translated from
    data/grammar.lark): `op.tok ++ "="` is one of its terminals; the grammar's remaining ones (`@= /= **= //=`) are outside the
    int core. -/
theorem aug_ops_in_grammar : ∀ op ∈ augOps, (op.tok ++ ['=']) ∈ augAssignOps := by decide

/-! ## the loop test of the for statement -/

/-- **The pasted loop test re-parses with the whole stop.** flow/for/range.j2 pastes the stop text after `v < ` without the guard
    `proc_binary_operation_expression` gives a right operand (the section of the translated template between the two `;` is
    `{{ symbol }} < {{ size }}`). For every stop that would NOT be parenthesised as a right operand of `<`
    (`is_regrouped_operand(stop, '<')` false) the pasted tokens are exactly the emitted tokens of the operator node `v < stop`,
    so — `group` — C++ parses them into the comparison of `v` with the whole of `stop`, Python's grouping of `v < stop`. -/
theorem for_test_reparses (v : Var) (name : Str) (s0 : Node) (hreg : isRegrouped s0 BOp.lt.tok = false)
    (hc : core (condNode v name s0) = true) (hw : wf (condNode v name s0) = true) (hf : cmpChainFree (condNode v name s0) = true) :
    condPieces = [.var sSymbol, .sp, .tok ['<'], .sp, .var sSize] ∧
    (cppLex (pastedCond v name s0)).map CTok.toPrec = toks (condNode v name s0) ∧
    Regroups (condNode v name s0) := by
  refine ⟨condPieces_eq, ?_, group _ hc hw hf⟩
  simp only [toks, emit, pastedCond_eq v name s0 hreg]

/-- `i < a & b` — a stop that needs the parentheses: atoms i=3 a=1 b=2 -/
def wFlatStop : Node := wBin .band (wAt 1 'a') (wAt 2 'b')

/-- **The hypothesis is necessary (known finding `flat:range-arg`, as a fact about the pasted text).** For the stop `a & b`
    the pasted loop test is `i < a & b`, which is not the text of the node `i < (a & b)` and which C++ parses as `(i < a) & b`. -/
theorem for_test_flat_counterexample :
    isRegrouped wFlatStop BOp.lt.tok = true ∧
    String.ofList (text (pastedCond 3 ['i'] wFlatStop)) = "i < a & b" ∧
    String.ofList (text (emitRaw (condNode 3 ['i'] wFlatStop))) = "i < (a & b)" ∧
    parse cppOps ((cppLex (pastedCond 3 ['i'] wFlatStop)).map CTok.toPrec) =
      some (.bin (BOp.code .band) (.bin (BOp.code .lt) (.atom 3) (.atom 1)) (.atom 2)) := by
  refine ⟨by decide, by decide, by decide, by decide⟩

/-! ## which operand a parenthesis decision looks at -/

/-- **The guard of an operand is decided from that operand and its own operator** (`proc_binary_operation_expression`,
    py2cpp.py:1486-1501: `operands[index + 1]` is guarded against `operators[index]`, the first operand against `operators[0]`):
    in the fold over a chain, step `k` parenthesises the `k`-th right element iff `is_regrouped_operand(that element, the operator
    in front of it)` — nothing of the neighbouring steps enters. (A shifted pairing — seeded mutation C01-7 zipped the operands with
    the operators off by one — changes this equation's right-hand side, i.e. the emitted text the stream `emit` compares.) -/
theorem paren_decision_uses_own_operand (prim : List RTok) (pty : Ty) (op : BOp) (dict : Bool) (ty : Ty) (e : Node) (rest : Rest)
    (lv : Nat) (fty : Ty) (first : Node) :
    emitRest prim pty (.cons op dict ty e rest) =
      emitRest (renderBinary op dict pty ty prim (guardIf (isRegrouped e op.tok) (emitRaw e))) (pty.acc ty) rest ∧
    emitRaw (.chain lv fty first (.cons op dict ty e rest)) =
      emitRest (guardIf (isRegrouped first op.tok) (emitRaw first)) fty (.cons op dict ty e rest) := by
  constructor
  · simp only [emitRest]
  · simp only [emitRaw, Rest.firstTok]

end Tranp.C01
