/-
  Property C01 — Transpiled C++ behaves like the Python source (operator core).
  Property theorems only; helper lemmas live in Tranp/Lemmas/Emit.lean, Tranp/Lemmas/Prec.lean and Tranp/Lemmas/EmitSem.lean.
-/
import Tranp.Lemmas.Emit
import Tranp.Lemmas.EmitSem

namespace Tranp.C01
open Tranp Tranp.Emit Tranp.Prec Tranp.Generated.CppTemplates

/-! ## the tie of the model's operator enumeration to the generated tables -/

/-- The operators, levels and kinds the model enumerates are exactly the expression ladder read from data/grammar.lark. -/
theorem ladder_eq : modelLadder = ladder := by decide

/-- `emit` is defined for every operator the ladder can produce: whatever the operand types / the dict flag, some branch of
    the generated binary_operator.j2 / binary_in.j2 is selected and it mentions both operands; likewise unary, ternary, group. -/
theorem ops_total :
    (∀ (op : BOp) (lty rty : Ty), isIn op = false →
      ∃ shape, select { strs := [(sOperator, op.tok), (sLeftTy, lty.name), (sRightTy, rty.name)] } binaryOperator = some shape
        ∧ Piece.var sLeft ∈ shape ∧ Piece.var sRight ∈ shape) ∧
    (∀ (op : BOp) (dict : Bool), isIn op = true →
      ∃ shape, select { strs := [(sOperator, op.tok)], flags := if dict then [sRightIsDict] else [] } binaryIn = some shape
        ∧ Piece.var sLeft ∈ shape ∧ Piece.var sRight ∈ shape) ∧
    (∀ v : Vars, select v unaryOperator = some [.var sOperator, .var sValue]) ∧
    (∀ v : Vars, ∃ shape, select v ternaryOperator = some shape ∧ Piece.var sCondition ∈ shape ∧ Piece.var sPrimary ∈ shape ∧ Piece.var sSecondary ∈ shape) ∧
    (∀ v : Vars, ∃ shape, select v group = some shape ∧ Piece.var sExpression ∈ shape) := by
  refine ⟨?_, ?_, fun _ => rfl, fun _ => ⟨_, rfl, by decide, by decide, by decide⟩, fun _ => ⟨_, rfl, by decide⟩⟩
  · intro op lty rty h
    refine ⟨_, select_binary op lty rty, ?_, ?_⟩ <;> cases op <;> cases lty <;> cases rty <;> first | decide | cases h
  · intro op dict h
    cases op <;> first | (cases dict <;> exact ⟨_, rfl, by decide, by decide⟩) | cases h

example : (allBOps.filter isIn).map BOp.tok = [['i', 'n'], ['n', 'o', 't', '.', 'i', 'n']] := by decide

/-! ## grouping -/

/-- C++'s own parse of the emitted tokens is a tree, and it is the tree Python's grammar gives the node. -/
def Regroups (n : Node) : Prop := ∃ e, pyExpr n = some e ∧ parse cppOps (toks n) = some e

/-- **Characterisation.** For every grammar-producible operator node of the core: the C++ re-parse of the emitted tokens is
    Python's grouping ⇔ the node has no bad pair (no comparison chain, no fused `--`/`++`, no parent/child slot in the
    table `badPairs` computed from the two precedence tables). -/
theorem group_iff (n : Node) (hc : core n = true) (hw : wf n = true) : Regroups n ↔ noBadPair n = true := by
  have hprint := emit_print n hc
  have hpy := (nf_iff_pairs pyOps (pyExprL n)).mp (nf_py n hc hw).1
  constructor
  · rintro ⟨e, he, hp⟩
    simp only [pyExpr] at he
    split at he
    · next hcc =>
      simp only [Bool.and_eq_true] at hcc
      cases he
      obtain ⟨ht, hnf⟩ := (parse_eq_some_iff cppOps _ _).mp hp
      have hlen : (cppLex (emitRaw n)).length = (unspaced (emitRaw n)).length := by
        have h1 := congrArg List.length ht
        have h2 := congrArg List.length hprint
        simp only [toks, emit, List.length_map] at h1 h2
        omega
      have hfuse := cppLex_eq_of_length _ hlen
      have hslots := (nf_iff_pairs cppOps (pyExprL n)).mp hnf
      simp only [noBadPair, Bool.and_eq_true, List.all_eq_true, Bool.not_eq_true', noFuse, beq_iff_eq]
      refine ⟨⟨hcc.2, hfuse⟩, fun x hx => ?_⟩
      cases hcon : badPairs.contains x with
      | false => rfl
      | true =>
        exfalso
        have hmem : x ∈ badPairs := by simpa using hcon
        have := ((mem_badSlots pyOps cppOps vocabulary x).mp hmem).2.2.2
        rw [hslots x hx] at this
        cases this
    · cases he
  · intro h
    simp only [noBadPair, Bool.and_eq_true, List.all_eq_true, Bool.not_eq_true', noFuse, beq_iff_eq] at h
    obtain ⟨⟨hcf, hfuse⟩, hslots⟩ := h
    refine ⟨pyExprL n, by simp [pyExpr, hc, hcf], ?_⟩
    have ht : toks n = print (pyExprL n) := by simp only [toks, emit, hfuse, hprint]
    rw [ht]
    apply parse_print_NF
    rw [nf_iff_pairs]
    intro x hx
    have hv := pairs_heads (pyExprL n) x hx
    have hvoc := heads_vocabulary n hc
    cases hcpp : slotOk cppOps x.1 x.2.1 x.2.2 with
    | true => rfl
    | false =>
      exfalso
      have hmem : x ∈ badPairs := (mem_badSlots pyOps cppOps vocabulary x).mpr
        ⟨hvoc _ hv.1, by
          rcases hv.2 with h | h
          · simp [h]
          · exact List.mem_cons_of_mem _ (hvoc _ h), hpy x hx, hcpp⟩
      have := hslots x hx
      simp [hmem] at this

/-- non-vacuity of `group_iff`, both ways: `(a & b) == c` regroups correctly, and it has no bad pair -/
example : Regroups (.chain 3 .int (.group (.chain 6 .int (.atom 1 ['a']) (.cons .band false .int (.atom 2 ['b']) .nil)))
    (.cons .eq false .int (.atom 3 ['c']) .nil)) :=
  (group_iff _ (by decide) (by decide)).mpr (by decide)

/-- the table of bad parent/child slots is not empty on the pinned tree: e.g. `&` as left child of `==` -/
example : (Head.bin (symCode ['=', '=']), Side.left, Head.bin (symCode ['&'])) ∈ badPairs := by decide
example : badPairs.length = 60 := by decide

/-- The full statement of the property's grouping sentence (kept visible): *every* operator node the grammar can produce
    is regrouped by C++ the way Python groups it. It is false on the pinned tree (`group_counterexample`); it becomes true
    once the emitter parenthesises every bad pair (proposed/C01-operator-precedence.diff). -/
def group_statement : Prop := ∀ n : Node, core n = true → wf n = true → Regroups n

def wA : Node := .atom 1 ['a']
def wB : Node := .atom 2 ['b']
def wC : Node := .atom 3 ['c']
/-- `a & b == c` -/
def w1 : Node := .chain 3 .int (.chain 6 .int wA (.cons .band false .int wB .nil)) (.cons .eq false .int wC .nil)
/-- `not a == b` -/
def w2 : Node := .notCompare (.chain 3 .int wA (.cons .eq false .int wB .nil))
/-- `a | b < c` -/
def w3 : Node := .chain 3 .int (.chain 4 .int wA (.cons .bor false .int wB .nil)) (.cons .lt false .int wC .nil)
/-- `a < b < c` -/
def w4 : Node := .chain 3 .int wA (.cons .lt false .int wB (.cons .lt false .int wC .nil))
/-- `- -a` -/
def w5 : Node := .factor .neg (.factor .neg wA)

/-- The four witnesses of DESIGN §7 F1/F2 (and the fused sign): grammar-producible core nodes that C++ does not regroup like Python. -/
theorem group_witnesses : ¬ Regroups w1 ∧ ¬ Regroups w2 ∧ ¬ Regroups w3 ∧ ¬ Regroups w4 ∧ ¬ Regroups w5 := by
  refine ⟨?_, ?_, ?_, ?_, ?_⟩ <;> (rw [group_iff _ (by decide) (by decide)]; decide)

theorem group_counterexample : ¬ group_statement :=
  fun h => group_witnesses.1 (h w1 (by decide) (by decide))

/-- what C++ makes of `a & b == c`: `a & (b == c)` (the concrete regrouped parse; replayed on the real code as corpus/C01/f1-bitand-over-compare.json) -/
example : parse cppOps (toks w1) = some (.bin (symCode ['&']) (.atom 1) (.bin (symCode ['=', '=']) (.atom 2) (.atom 3))) := by decide
example : String.ofList (text (emitRaw w1)) = "a & b == c" := by decide
example : String.ofList (text (emitRaw w2)) = "!a == b" := by decide
example : String.ofList (text (emitRaw w4)) = "a < b < c" := by decide
example : String.ofList (text (emitRaw w5)) = "--a" := by decide

/-! ## meaning -/

/-- **Semantics.** Whenever the node has a C++ tree with Python's grouping (`pyExpr n = some e`: operator core, no comparison
    chain) and the Python evaluation stays inside the agreement subset of the property statement (`denotePy` returns a value:
    32-bit ints, `%` on a non-negative dividend and positive divisor, no `/`, shift counts 0..31, booleans under
    `and`/`or`/`not`), C++ evaluates that tree without undefined behaviour to the same value (bools as 0/1):
    floor-`%` = truncating `%` there, `and`/`or` skip exactly the evaluations `&&`/`||` skip, `is` on bools is `==`,
    `<<` does not wrap, `bool & bool` is the int 0/1 of the Python bool. -/
theorem sem (n : Node) (ρ : Env) (e : Expr) (v : Val) (he : pyExpr n = some e) (hv : denotePy ρ n = .ok v) :
    denoteCpp ρ e = .ok v.repr := by
  simp only [pyExpr] at he
  split at he
  · next hc =>
    simp only [Bool.and_eq_true] at hc
    cases he
    exact sem_node ρ n v hc.1 hv
  · cases he

/-- non-vacuity: `(a + b) % c` at a = 7, b = 5, c = 4 is inside the subset and both sides give 0;
    at a = -7 Python's floor-`%` (= 1) and C++'s truncating `%` (= -2) differ — that evaluation is outside the subset -/
example :
    let n : Node := .chain 9 .int (.group (.chain 8 .int (.atom 1 ['a']) (.cons .add false .int (.atom 2 ['b']) .nil))) (.cons .mod false .int (.atom 3 ['c']) .nil)
    let ρ : Env := fun i => if i = 1 then .int 7 else if i = 2 then .int 5 else .int 4
    let ρ' : Env := fun i => if i = 1 then .int (-7) else if i = 2 then .int 5 else .int 4
    denotePy ρ n = .ok (.int 0) ∧ (pyExpr n).map (denoteCpp ρ) = some (.ok 0) ∧ inSubset n ρ' = false
      ∧ (pyExpr n).map (denoteCpp ρ') = some (.ok (-2)) := by decide

/-- **Agreement by construction**, the conjunction of `group_iff` and `sem`: for a grammar-producible core node without a bad
    pair, the token text tranp emits is parsed by C++ into a tree whose C++ value is the Python value, for every environment
    on which the Python evaluation stays inside the subset. -/
theorem agree (n : Node) (ρ : Env) (v : Val) (hc : core n = true) (hw : wf n = true) (hb : noBadPair n = true)
    (hv : denotePy ρ n = .ok v) : ∃ e, parse cppOps (toks n) = some e ∧ denoteCpp ρ e = .ok v.repr := by
  obtain ⟨e, he, hp⟩ := (group_iff n hc hw).mpr hb
  exact ⟨e, hp, sem n ρ e v he hv⟩

example : ∃ e, parse cppOps (toks (.chain 3 .int (.group (.chain 6 .int wA (.cons .band false .int wB .nil))) (.cons .eq false .int wC .nil))) = some e
    ∧ denoteCpp (fun _ => .int 0) e = .ok 1 :=
  agree _ _ (.bool true) (by decide) (by decide) (by decide) (by decide)

/-- the semantic face of F1: on a = b = c = 0 Python's `a & b == c` is True, the C++ parse of the emitted text gives 0
    (the replay corpus/C01/f1-bitand-over-compare.json shows exactly this pair on the real code: python=True c++=False) -/
example : denotePy (fun _ => .int 0) w1 = .ok (.bool true) ∧ (parse cppOps (toks w1)).map (denoteCpp (fun _ => .int 0)) = some (.ok 0) := by
  decide

end Tranp.C01
