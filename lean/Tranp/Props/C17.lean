/-
  Property C17 — Folding constant expressions gives the value Python gives.

  `execImpl` = LiteralEvaluator.exec on tranp's node tree (flat operator chains, strings with their quotes),
  `evalPy`   = CPython on CPython's grouping of the same tokens (`toPy`), `float` abstract (`FloatOps F`, any interpretation).
  Guards (each a switch of `Mode`; `Mode.py` = CPython itself, a switch set = that region raises `excluded` / is computed naively):
    H1 naiveDiv    int / int is float(a) / float(b)            H4 lowerHex   no `0X…` literal
    H2 plainStr    string tokens are plain '…' / "…"           H5a arityLe1  casts have at most one argument
    H3 noStrOfStr  str() is not applied to a string            H5b arityGe1  casts have at least one argument
  A guard "holds for e" when CPython's own result on e equals the result of the guarded mode (`hscope` below): the cut-out
  region is not entered before the first exception. Helper lemmas: Tranp/Lemmas/Evaluator.lean.
-/
import Tranp.Lemmas.Evaluator

namespace Tranp.C17
open Tranp Tranp.Evaluator

/-- the guards agreement needs: H1, H2, H3, H5a -/
def agreeMode : Mode := ⟨true, true, true, false, true, false⟩

/-- If CPython (regions H1–H5 cut out) evaluates `e` to `v'`, the folder returns a value of the same type and content, or
    refuses (an application error that is not a wrapped Python exception, or the recursion limit): for every expression,
    environment, fuel and every interpretation of `float`. -/
theorem sound {F : Type} (ops : FloatOps F) (env : Env) (fuel : Nat) (e : Expr) (venv : VEnv F) (v' : V F)
    (hc : Cons .strict ops env venv) (hp : evalPy .strict ops env.known venv (toPy e) = .ok v') :
    (∃ v, execImpl ops env fuel e = .ok v ∧ Sim v v') ∨ (∃ er, execImpl ops env fuel e = .error er ∧ Refusal er) := by
  have h := sound_core .strict ops env Refusal rfl rfl rfl rfl (fun _ h => h) (by intro h; cases h) (by intro h; cases h) fuel e venv v' hc hp
  cases hx : execImpl ops env fuel e with
  | ok v => rw [hx] at h; exact Or.inl ⟨v, rfl, h⟩
  | error er => rw [hx] at h; exact Or.inr ⟨er, rfl, h⟩

/-- non-vacuity of `sound`: `(1 + 0x1f - 1.5) * 2` evaluates on both sides (to the same term). -/
example :
    let e : Expr := .chain ['o','n','_','t','e','r','m']
      (.group (.chain ['o','n','_','s','u','m'] (.integer ['1']) [(['+'], .integer ['0','x','1','f']), (['-'], .float ['1','.','5'])]))
      [(['*'], .integer ['2'])]
    evalPy .strict freeOps [] [] (toPy e) = .ok (.float (.mul (.sub (.ofInt 32) (.parse ['1','.','5'])) (.ofInt 2)))
    ∧ execImpl freeOps ⟨[], []⟩ 9 e = .ok (.float (.mul (.sub (.ofInt 32) (.parse ['1','.','5'])) (.ofInt 2))) := by
  decide

/-- **agree**: a value of the folder and a value of CPython are the same value of the same type (strings by content),
    whenever `e` stays inside the guards H1, H2, H3, H5a (`hscope`: CPython's own result is the guarded result). -/
theorem agree {F : Type} (ops : FloatOps F) (env : Env) (fuel : Nat) (e : Expr) (venvPy venvG : VEnv F) (v v' : V F)
    (hc : Cons agreeMode ops env venvG)
    (hscope : evalPy .py ops env.known venvPy (toPy e) = evalPy agreeMode ops env.known venvG (toPy e))
    (hi : execImpl ops env fuel e = .ok v) (hp : evalPy .py ops env.known venvPy (toPy e) = .ok v') : Sim v v' := by
  rw [hscope] at hp
  have h := sound_core agreeMode ops env (fun _ => True) rfl rfl rfl rfl (fun _ _ => trivial) (fun _ => trivial) (fun _ => trivial)
    fuel e venvG v' hc hp
  rw [hi] at h
  exact h

/-- non-vacuity of `agree`: members `A = 7 % -3`, `B = str(A) + '.' + "5"`, evaluated for `B` with `A` bound. -/
example :
    let a : Expr := .chain ['o','n','_','t','e','r','m'] (.integer ['7']) [(['%'], .factor ['-'] (.integer ['3']))]
    let b : Expr := .chain ['o','n','_','s','u','m'] (.call ['s','t','r'] [.var ['A'] none]) [(['+'], .string ['\'','.','\'']), (['+'], .string ['"','5','"'])]
    let env : Env := ⟨[(['A'], a), (['B'], b)], [['s','t','r']]⟩
    let venv := bindAll agreeMode freeOps env.known [] [(['A'], a)]
    bindAll .py freeOps env.known [] [(['A'], a)] = venv
    ∧ evalPy .py freeOps env.known venv (toPy b) = evalPy agreeMode freeOps env.known venv (toPy b)
    ∧ execImpl freeOps env 9 b = .ok (.str ['"','-','2','.','5','"'])
    ∧ evalPy .py freeOps env.known venv (toPy b) = .ok (.str ['-','2','.','5']) := by
  decide

/-- **refuse**: when the folder fails, it refuses (OperationNotAllowed, UnresolvedSymbol, an error of type inference, the
    recursion limit) or CPython raises on `e` as well — inside all guards H1–H5. With `sound`: a different value is never produced. -/
theorem refuse {F : Type} (ops : FloatOps F) (env : Env) (fuel : Nat) (e : Expr) (venvPy venvG : VEnv F) (er : Err)
    (hc : Cons .strict ops env venvG)
    (hscope : evalPy .py ops env.known venvPy (toPy e) = evalPy .strict ops env.known venvG (toPy e))
    (hi : execImpl ops env fuel e = .error er) :
    Refusal er ∨ ∃ y, evalPy .py ops env.known venvPy (toPy e) = .error y := by
  cases hp : evalPy .py ops env.known venvPy (toPy e) with
  | error y => exact Or.inr ⟨y, rfl⟩
  | ok v' =>
    rw [hscope] at hp
    have h := sound_core .strict ops env Refusal rfl rfl rfl rfl (fun _ h => h) (by intro h; cases h) (by intro h; cases h) fuel e venvG v' hc hp
    rw [hi] at h
    exact Or.inl h

/-- non-vacuity of `refuse`: `1 % 0` fails on both sides, `'a' * 2` is refused although CPython evaluates it. -/
example :
    let e1 : Expr := .chain ['o','n','_','t','e','r','m'] (.integer ['1']) [(['%'], .integer ['0'])]
    let e2 : Expr := .chain ['o','n','_','t','e','r','m'] (.string ['\'','a','\'']) [(['*'], .integer ['2'])]
    execImpl freeOps ⟨[], []⟩ 9 e1 = .error (.fatal .zeroDivision) ∧ evalPy .py freeOps [] [] (toPy e1) = .error .zeroDivision
    ∧ evalPy .py freeOps [] [] (toPy e1) = evalPy .strict freeOps [] [] (toPy e1)
    ∧ execImpl freeOps ⟨[], []⟩ 9 e2 = .error .notAllowed ∧ evalPy .py freeOps [] [] (toPy e2) = .ok (.str ['a', 'a']) := by
  decide

/-- **chain**: CPython's left-nested tree for a flat chain `first op₁ e₁ op₂ e₂ …` evaluates like the left fold over the chain
    (operand, then operation, left to right; the first exception wins). -/
theorem chain {F : Type} (m : Mode) (ops : FloatOps F) (known : List Str) (venv : VEnv F) (handler : Str) (first : Expr)
    (rest : List (Str × Expr)) :
    evalPy m ops known venv (toPy (.chain handler first rest))
      = (evalPy m ops known venv (toPy first) >>= fun a => pyFold m ops known venv a rest) := by
  simp only [toPy]
  exact chain_eq m ops known venv rest (toPy first)

/-- non-vacuity of `chain`: `10 - 3 - 2` is `(10 - 3) - 2 = 5`, not `10 - (3 - 2)`. -/
example :
    evalPy .py freeOps [] [] (toPy (.chain ['o','n','_','s','u','m'] (.integer ['1','0']) [(['-'], .integer ['3']), (['-'], .integer ['2'])]))
      = .ok (.int 5) := by
  decide

/-- Executing the Enum bodies top to bottom (`bindAll`) yields an environment consistent with the folder's member lookup,
    when member keys are distinct — the hypothesis `Cons` of the theorems above is satisfiable by every such module. -/
theorem consistent_bindAll {F : Type} (m : Mode) (ops : FloatOps F) (env : Env)
    (hnd : (env.members.map Prod.fst).Nodup) (i : Nat) :
    Cons m ops env (bindAll m ops env.known [] (env.members.take i)) := by
  have hmem : ∀ k e, (k, e) ∈ env.members.take i → env.members.lookup k = some e := by
    intro k e h
    exact lookup_of_mem_nodup hnd (List.mem_of_mem_take h)
  exact cons_bindAll m ops env (env.members.take i) [] Cons.nil hmem

example : ([(['A'], Expr.integer ['1']), (['B'], Expr.var ['A'] none)].map Prod.fst).Nodup := by decide

/-! ## the guards are necessary -/

/-- agreement under the guards of `m` only -/
def agreeUnder (m : Mode) : Prop :=
  ∀ (ops : FloatOps FTerm) (env : Env) (fuel : Nat) (e : Expr) (venv : VEnv FTerm) (v v' : V FTerm),
    Cons m ops env venv → execImpl ops env fuel e = .ok v → evalPy m ops env.known venv (toPy e) = .ok v' → Sim v v'

/-- the property as stated, without any guard -/
def agree_unguarded_statement : Prop := agreeUnder .py

/-- H3 is necessary: `str('x')` folds to `"'x'"` — content `'x'` with the quotes — where CPython gives `x`. -/
theorem strcast_counterexample : ¬ agreeUnder { Mode.strict with noStrOfStr := false } := by
  intro h
  have := h freeOps ⟨[], [['s','t','r']]⟩ 5 (.call ['s','t','r'] [.string ['\'','x','\'']]) []
    (.str ['"','\'','x','\'','"']) (.str ['x']) Cons.nil (by decide) (by decide)
  exact not_sim_str (by decide) this

/-- the unguarded statement is false on the current code (same witness) -/
theorem agree_unguarded_counterexample : ¬ agree_unguarded_statement := by
  intro h
  have := h freeOps ⟨[], [['s','t','r']]⟩ 5 (.call ['s','t','r'] [.string ['\'','x','\'']]) []
    (.str ['"','\'','x','\'','"']) (.str ['x']) Cons.nil (by decide) (by decide)
  exact not_sim_str (by decide) this

/-- H2 is necessary: `'''a''' + 'b'` folds to `'''a''b'` (content `''a''b`), CPython gives `ab`. -/
theorem triple_counterexample : ¬ agreeUnder { Mode.strict with plainStr := false } := by
  intro h
  have := h freeOps ⟨[], []⟩ 5
    (.chain ['o','n','_','s','u','m'] (.string ['\'','\'','\'','a','\'','\'','\'']) [(['+'], .string ['\'','b','\''])]) []
    (.str ['\'','\'','\'','a','\'','\'','b','\'']) (.str ['a','b']) Cons.nil (by decide) (by decide)
  exact not_sim_str (by decide) this

/-- H1 is necessary: in an interpretation where `a / b` on ints is not `float(a) / float(b)` (CPython rounds the exact
    quotient once; the free term algebra keeps the two apart) `18014398509481985 / 3` differs. -/
theorem truediv_counterexample : ¬ agreeUnder { Mode.strict with naiveDiv := false } := by
  intro h
  have := h freeOps ⟨[], []⟩ 5
    (.chain ['o','n','_','t','e','r','m'] (.integer ['1','8','0','1','4','3','9','8','5','0','9','4','8','1','9','8','5']) [(['/'], .integer ['3'])]) []
    (.float (.div (.ofInt 18014398509481985) (.ofInt 3))) (.float (.truediv 18014398509481985 3)) Cons.nil (by decide) (by decide)
  cases this

/-- H5a is necessary: `int('12', 16)` folds to 12 (only `arguments[0]` is read), CPython gives 18. -/
theorem arity_counterexample : ¬ agreeUnder { Mode.strict with arityLe1 := false } := by
  intro h
  have := h freeOps ⟨[], [['i','n','t']]⟩ 5 (.call ['i','n','t'] [.string ['\'','1','2','\''], .integer ['1','6']]) []
    (.int 12) (.int 18) Cons.nil (by decide) (by decide)
  cases this

/-- "CPython has a value ⇒ the folder has that value or refuses", under the guards of `m` only -/
def soundUnder (m : Mode) : Prop :=
  ∀ (ops : FloatOps FTerm) (env : Env) (fuel : Nat) (e : Expr) (venv : VEnv FTerm) (v' : V FTerm),
    Cons m ops env venv → evalPy m ops env.known venv (toPy e) = .ok v' →
    (∃ v, execImpl ops env fuel e = .ok v ∧ Sim v v') ∨ (∃ er, execImpl ops env fuel e = .error er ∧ Refusal er)

/-- H4 is necessary for `refuse`: `0X1F` is 31 in CPython, the folder raises a wrapped ValueError (`startswith('0x')`). -/
theorem upperhex_counterexample : ¬ soundUnder { Mode.strict with lowerHex := false } := by
  intro h
  have := h freeOps ⟨[], []⟩ 5 (.integer ['0','X','1','F']) [] (.int 31) Cons.nil (by decide)
  have hx : execImpl freeOps ⟨[], []⟩ 5 (.integer ['0','X','1','F']) = .error (.fatal .valueError) := by decide
  rw [hx] at this
  rcases this with ⟨v, h1, _⟩ | ⟨er, h1, h2⟩
  · cases h1
  · cases h1; cases h2

/-- H5b is necessary for `refuse`: `int()` is 0 in CPython, the folder raises a wrapped IndexError (`arguments[0]`). -/
theorem noarg_counterexample : ¬ soundUnder { Mode.strict with arityGe1 := false } := by
  intro h
  have := h freeOps ⟨[], [['i','n','t']]⟩ 5 (.call ['i','n','t'] []) [] (.int 0) Cons.nil (by decide)
  have hx : execImpl freeOps ⟨[], [['i','n','t']]⟩ 5 (.call ['i','n','t'] []) = .error (.fatal .indexError) := by decide
  rw [hx] at this
  rcases this with ⟨v, h1, _⟩ | ⟨er, h1, h2⟩
  · cases h1
  · cases h1; cases h2

end Tranp.C17
