/-
  Property C17 — Folding constant expressions gives the value Python gives.

  `execImpl` = LiteralEvaluator.exec on tranp's node tree (flat operator chains, strings with their quotes),
  `evalPy`   = CPython on CPython's grouping of the same tokens (`toPy`), `float` abstract (`FloatOps F`, any interpretation).

  State after the repairs c8f7860 (str() un-quotes), 8fac22f (triple-quoted / prefixed tokens refused), e338962 (int / int on the
  ints), b7e37da (casts take exactly one argument): agreement needs NO guard any more. Two boundaries are left:
    * H4 `lowerHex` — a `0X…` literal is a number in CPython and a wrapped ValueError in the folder (`startswith('0x')`): an application
      error, allowed by the property, but the reason `refuse` carries a guard (`upperhex_counterexample`);
    * H6 `noEsc` — string tokens with a backslash. `agree` covers them: a folder string is a raw body between quotes, CPython's
      string is its decoding (`decodeEsc`), `_cat` joins TEXTS, which commutes with decoding exactly when `_joins_escape` lets the
      join through (`join_decodes`, `catSafe_decodes`; `escape_counterexample` is the hazard plain `_cat` had before 05486b1).
      `sound` / `refuse` and the output theorems cut them out: `int('\x31')` is 1 in CPython and a wrapped ValueError in the folder
      (an application error, allowed), and the C++ reader of an inlined text is modelled for plain contents only.
      `\uhhhh` and `\Uhhhhhhhh` are decoded as well (every scalar value a `Char` holds); tokens with `\N{…}` or a lone surrogate
      stay outside `evalPy` (`unsupported`).
  Second observation point (the text py2cpp inlines for `Enum.Member.value`, Tranp/Model/EmitValue.lean): `output_agree`,
  `output_sound` (no guard on the expression; the type answer of Reflections must fit CPython's value).
  Helper lemmas: Tranp/Lemmas/Evaluator.lean, Tranp/Lemmas/EmitValue.lean.
-/
import Tranp.Lemmas.Evaluator
import Tranp.Lemmas.EmitValue
import Tranp.Lemmas.Escape
import Tranp.Lemmas.PyInt
import Tranp.Lemmas.CppLiteral

namespace Tranp.C17
open Tranp Tranp.Evaluator

/-- what the theorems need to know about the abstract float interpretation: `str(x)` contains no backslash, and `float(text)` rejects
    a text that contains one (both true of CPython; the free interpretation used in the examples has them too). -/
def FloatText {F : Type} (ops : FloatOps F) : Prop :=
  (∀ x, (ops.toStr x).contains '\\' = false) ∧ (∀ s, s.contains '\\' = true → ops.parse s = .error .valueError)

example : FloatText freeOps := ⟨fun _ => rfl, fun s h => by simp only [freeOps, h, if_true]⟩

/-- If CPython evaluates `e` to `v'` (no `0X…` literal and no string token with a backslash on the way), the folder returns a value of the same type and content, or
    refuses (an application error that is not a wrapped Python exception, or the recursion limit): for every expression,
    environment, fuel and every interpretation of `float`. -/
theorem sound {F : Type} (ops : FloatOps F) (hops : FloatText ops) (env : Env) (fuel : Nat) (e : Expr) (venv : VEnv F) (v' : V F)
    (hc : Cons .strict ops env venv) (hp : evalPy .strict ops env.known venv (toPy e) = .ok v') :
    (∃ v, execImpl ops env fuel e = .ok v ∧ Sim .strict v v') ∨ (∃ er, execImpl ops env fuel e = .error er ∧ Refusal er) := by
  have h := sound_core .strict ops env Refusal (fun _ h => h) (by intro h; cases h) (by intro h; cases h) hops.1 hops.2 fuel e venv v' hc hp
  cases hx : execImpl ops env fuel e with
  | ok v => rw [hx] at h; exact Or.inl ⟨v, rfl, h⟩
  | error er => rw [hx] at h; exact Or.inr ⟨er, rfl, h⟩

/-- non-vacuity of `sound`: `(1 + 0x1f - 1.5) * 2` evaluates on both sides (to the same term). -/
example :
    let e : Expr := .chain ['o','n','_','t','e','r','m']
      (.group (.chain ['o','n','_','s','u','m'] (.integer ['1']) [(['+'], .integer ['0','x','1','f']), (['-'], .float ['1','.','5'])]))
      [(['*'], .integer ['2'])]
    evalPy .strict freeOps [] [] (toPy e) = .ok (.float (.mul (.sub (.ofInt 32) (.parse ['1','.','5'])) (.ofInt 2)))
    ∧ execImpl freeOps ⟨[], []⟩ 9 e = .ok (.float (.mul (.sub (.ofInt 32) (.parse ['1','.','5'])) (.ofInt 2))) := by
  decide

/-- **agree** (no guard): a value of the folder and a value of CPython are the same value of the same type — a string of the folder
    is a raw body between two quote characters and CPython's string is what that body DECODES to (`decodeEsc`: octal, `\xhh`,
    `\uhhhh`, `\Uhhhhhhhh`, one-character and unknown escapes; tokens with `\N{…}` or a lone surrogate are outside `evalPy`) — for
    every expression, environment,
    fuel and interpretation of `float` with `FloatText`. -/
theorem agree {F : Type} (ops : FloatOps F) (hops : FloatText ops) (env : Env) (fuel : Nat) (e : Expr) (venv : VEnv F) (v v' : V F)
    (hc : Cons .py ops env venv)
    (hi : execImpl ops env fuel e = .ok v) (hp : evalPy .py ops env.known venv (toPy e) = .ok v') : Sim .py v v' := by
  have h := sound_core .py ops env (fun _ => True) (fun _ _ => trivial) (fun _ => trivial) (fun _ => trivial) hops.1 hops.2 fuel e venv v' hc hp
  rw [hi] at h
  exact h

/-- non-vacuity of `agree`: members `A = 7 % -3`, `B = str(A) + '.' + "5"`, evaluated for `B` with `A` bound. -/
example :
    let a : Expr := .chain ['o','n','_','t','e','r','m'] (.integer ['7']) [(['%'], .factor ['-'] (.integer ['3']))]
    let b : Expr := .chain ['o','n','_','s','u','m'] (.call ['s','t','r'] [.var ['A'] none]) [(['+'], .string ['\'','.','\'']), (['+'], .string ['"','5','"'])]
    let env : Env := ⟨[(['A'], a), (['B'], b)], [['s','t','r']]⟩
    let venv := bindAll .py freeOps env.known [] [(['A'], a)]
    execImpl freeOps env 9 b = .ok (.str ['"','-','2','.','5','"'])
    ∧ evalPy .py freeOps env.known venv (toPy b) = .ok (.str ['-','2','.','5']) := by
  decide

/-- non-vacuity of `agree` on escaped strings: `'a\n' + "\x41b"` folds to the token `'a\n\x41b'`, CPython has `a`, newline, `A`, `b`
    (6 raw characters against 4 decoded ones: `Sim` relates them through `decodeEsc`); `int('\x31')` is 1 in CPython and a wrapped
    ValueError in the folder (no value to disagree with). -/
example :
    let e : Expr := .chain ['o','n','_','s','u','m'] (.string ['\'','a','\\','n','\'']) [(['+'], .string ['"','\\','x','4','1','b','"'])]
    let i : Expr := .call ['i','n','t'] [.string ['\'','\\','x','3','1','\'']]
    execImpl freeOps ⟨[], [['i','n','t']]⟩ 5 e = .ok (.str ['\'','a','\\','n','\\','x','4','1','b','\''])
    ∧ evalPy .py freeOps [['i','n','t']] [] (toPy e) = .ok (.str ['a','\n','A','b'])
    ∧ execImpl freeOps ⟨[], [['i','n','t']]⟩ 5 i = .error (.fatal .valueError)
    ∧ evalPy .py freeOps [['i','n','t']] [] (toPy i) = .ok (.int 1) := by
  decide

/-- non-vacuity of `agree` on `\u` / `\U` escapes: `'\u00e9' + "t\U0001F600"` folds to the token `'\u00e9t\U0001F600'` (18 raw
    characters), CPython has the three characters `é`, `t`, U+1F600; `'\ud800'` (a lone surrogate) is outside `evalPy`. -/
example :
    let e : Expr := .chain ['o','n','_','s','u','m'] (.string ['\'','\\','u','0','0','e','9','\''])
      [(['+'], .string ['"','t','\\','U','0','0','0','1','F','6','0','0','"'])]
    execImpl freeOps ⟨[], []⟩ 5 e = .ok (.str ['\'','\\','u','0','0','e','9','t','\\','U','0','0','0','1','F','6','0','0','\''])
    ∧ evalPy .py freeOps [] [] (toPy e) = .ok (.str [Char.ofNat 0xe9, 't', Char.ofNat 0x1f600])
    ∧ evalPy .py freeOps [] [] (.strLit ['\'','\\','u','d','8','0','0','\'']) = .error .unsupported := by
  decide

/-- **refuse**: when the folder fails, it refuses (OperationNotAllowed, UnresolvedSymbol, an error of type inference, the
    recursion limit) or CPython raises on `e` as well — as long as no `0X…` literal is evaluated (`hscope`: CPython's own result is
    the result with that region cut out). With `sound`/`agree`: a different value is never produced. -/
theorem refuse {F : Type} (ops : FloatOps F) (hops : FloatText ops) (env : Env) (fuel : Nat) (e : Expr) (venvPy venvG : VEnv F) (er : Err)
    (hc : Cons .strict ops env venvG)
    (hscope : evalPy .py ops env.known venvPy (toPy e) = evalPy .strict ops env.known venvG (toPy e))
    (hi : execImpl ops env fuel e = .error er) :
    Refusal er ∨ ∃ y, evalPy .py ops env.known venvPy (toPy e) = .error y := by
  cases hp : evalPy .py ops env.known venvPy (toPy e) with
  | error y => exact Or.inr ⟨y, rfl⟩
  | ok v' =>
    rw [hscope] at hp
    have h := sound_core .strict ops env Refusal (fun _ h => h) (by intro h; cases h) (by intro h; cases h) hops.1 hops.2 fuel e venvG v' hc hp
    rw [hi] at h
    exact Or.inl h

/-- non-vacuity of `refuse`: `1 % 0` fails on both sides; `'a' * 2`, `'''a''' + 'b'`, `int()`, `int('12', 16)` are refused
    although CPython evaluates them. -/
example :
    let e1 : Expr := .chain ['o','n','_','t','e','r','m'] (.integer ['1']) [(['%'], .integer ['0'])]
    let e2 : Expr := .chain ['o','n','_','t','e','r','m'] (.string ['\'','a','\'']) [(['*'], .integer ['2'])]
    let e3 : Expr := .chain ['o','n','_','s','u','m'] (.string ['\'','\'','\'','a','\'','\'','\'']) [(['+'], .string ['\'','b','\''])]
    let e4 : Expr := .call ['i','n','t'] []
    let e5 : Expr := .call ['i','n','t'] [.string ['\'','1','2','\''], .integer ['1','6']]
    let env : Env := ⟨[], [['i','n','t']]⟩
    execImpl freeOps env 9 e1 = .error (.fatal .zeroDivision) ∧ evalPy .py freeOps env.known [] (toPy e1) = .error .zeroDivision
    ∧ evalPy .py freeOps env.known [] (toPy e1) = evalPy .strict freeOps env.known [] (toPy e1)
    ∧ execImpl freeOps env 9 e2 = .error .notAllowed ∧ evalPy .py freeOps env.known [] (toPy e2) = .ok (.str ['a', 'a'])
    ∧ execImpl freeOps env 9 e3 = .error .notAllowed ∧ evalPy .py freeOps env.known [] (toPy e3) = .ok (.str ['a', 'b'])
    ∧ execImpl freeOps env 9 e4 = .error .notAllowed ∧ evalPy .py freeOps env.known [] (toPy e4) = .ok (.int 0)
    ∧ execImpl freeOps env 9 e5 = .error .notAllowed ∧ evalPy .py freeOps env.known [] (toPy e5) = .ok (.int 18) := by
  decide

/-- boundary of the triple-quote test (`len(string) >= 6`): the EMPTY triple-quoted tokens `''''''` / `""""""` (six quote characters;
    read as a plain token they would have four quotes as content) are refused, alone, under `+` and under `str()`, while CPython has
    the empty string; the one-character bodies `'''a'''` and `"""'"""` likewise; the plain empty tokens `''` / `""` fold. -/
example :
    let t1 : Expr := .string ['\'','\'','\'','\'','\'','\'']
    let t2 : Expr := .string ['"','"','"','"','"','"']
    let e : Expr := .chain ['o','n','_','s','u','m'] (.string ['\'','x','\'']) [(['+'], t2)]
    let c : Expr := .call ['s','t','r'] [t1]
    let env : Env := ⟨[], [['s','t','r']]⟩
    execImpl freeOps env 5 t1 = .error .notAllowed ∧ evalPy .py freeOps env.known [] (toPy t1) = .ok (.str [])
    ∧ execImpl freeOps env 5 t2 = .error .notAllowed ∧ evalPy .py freeOps env.known [] (toPy t2) = .ok (.str [])
    ∧ execImpl freeOps env 5 e = .error .notAllowed ∧ evalPy .py freeOps env.known [] (toPy e) = .ok (.str ['x'])
    ∧ execImpl freeOps env 5 c = .error .notAllowed ∧ evalPy .py freeOps env.known [] (toPy c) = .ok (.str [])
    ∧ execImpl freeOps env 5 (.string ['"','"','"','\'','"','"','"']) = .error .notAllowed
    ∧ execImpl freeOps env 5 (.chain ['o','n','_','s','u','m'] (.string ['\'','\'']) [(['+'], .string ['"','"'])]) = .ok (.str ['\'','\''])
    ∧ evalPy .py freeOps env.known [] (.binop ['+'] (.strLit ['\'','\'']) (.strLit ['"','"'])) = .ok (.str []) := by
  decide

/-- regression of the repaired defects (former counterexample witnesses): `str('x')` is `"x"`, `18014398509481985 / 3` is
    CPython's own true division of the two ints. -/
example :
    execImpl freeOps ⟨[], [['s','t','r']]⟩ 5 (.call ['s','t','r'] [.string ['\'','x','\'']]) = .ok (.str ['"','x','"'])
    ∧ execImpl freeOps ⟨[], []⟩ 5
        (.chain ['o','n','_','t','e','r','m'] (.integer ['1','8','0','1','4','3','9','8','5','0','9','4','8','1','9','8','5']) [(['/'], .integer ['3'])])
      = .ok (.float (.truediv 18014398509481985 3)) := by
  decide

/-- **chain**: CPython's left-nested tree for a flat chain `first op₁ e₁ op₂ e₂ …` evaluates like the left fold over the chain
    (operand, then operation, left to right; the first exception wins). -/
theorem chain {F : Type} (m : Mode) (ops : FloatOps F) (known : List Str) (venv : VEnv F) (handler : Str) (first : Expr)
    (rest : List (Str × Expr)) :
    evalPy m ops known venv (toPy (.chain handler first rest))
      = (evalPy m ops known venv (toPy first) >>= fun a => pyFold m ops known venv a rest) := by
  simp only [toPy]
  exact chain_eq m ops known venv rest (toPy first)

/-- non-vacuity of `chain`: `10 - 3 - 2` is `(10 - 3) - 2 = 5`, not `10 - (3 - 2)`. -/
example :
    evalPy .py freeOps [] [] (toPy (.chain ['o','n','_','s','u','m'] (.integer ['1','0']) [(['-'], .integer ['3']), (['-'], .integer ['2'])]))
      = .ok (.int 5) := by
  decide

/-- Executing the Enum bodies top to bottom (`bindAll`) yields an environment consistent with the folder's member lookup,
    when member keys are distinct — the hypothesis `Cons` of the theorems above is satisfiable by every such module. -/
theorem consistent_bindAll {F : Type} (m : Mode) (ops : FloatOps F) (env : Env)
    (hnd : (env.members.map Prod.fst).Nodup) (i : Nat) :
    Cons m ops env (bindAll m ops env.known [] (env.members.take i)) := by
  have hmem : ∀ k e, (k, e) ∈ env.members.take i → env.members.lookup k = some e := by
    intro k e h
    exact lookup_of_mem_nodup hnd (List.mem_of_mem_take h)
  exact cons_bindAll m ops env (env.members.take i) [] Cons.nil hmem

example : ([(['A'], Expr.integer ['1']), (['B'], Expr.var ['A'] none)].map Prod.fst).Nodup := by decide

/-- the member lookup is by the EXACT key (`Enum.var_value`: `var.symbol.domain_name == var_name`, pinned by the translator): with the
    members `F.SUB = 0x10`, `F.B = 2`, `F.UB = 3` declared in this order, `F.B.value << 1` folds to 4 (a lookup by suffix would take
    `SUB` and give 32) and `F.UB.value * 10 + F.SUB.value` to 46 — on both sides. -/
example :
    let env : Env := ⟨[(['F','.','S','U','B'], .integer ['0','x','1','0']), (['F','.','B'], .integer ['2']), (['F','.','U','B'], .integer ['3'])], [['F']]⟩
    let x : Expr := .chain ['o','n','_','s','h','i','f','t','_','b','i','t','w','i','s','e'] (.value ['F'] ['F','.','B'] none) [(['<','<'], .integer ['1'])]
    let y : Expr := .chain ['o','n','_','s','u','m']
      (.chain ['o','n','_','t','e','r','m'] (.value ['F'] ['F','.','U','B'] none) [(['*'], .integer ['1','0'])]) [(['+'], .value ['F'] ['F','.','S','U','B'] none)]
    let venv := bindAll .py freeOps env.known [] env.members
    execImpl freeOps env 9 x = .ok (.int 4) ∧ evalPy .py freeOps env.known venv (toPy x) = .ok (.int 4)
    ∧ execImpl freeOps env 9 y = .ok (.int 46) ∧ evalPy .py freeOps env.known venv (toPy y) = .ok (.int 46) := by
  decide

/-! ## the two boundaries that are left -/

/-- "CPython has a value ⇒ the folder has that value or refuses", with the region of `m` cut out -/
def soundUnder (m : Mode) : Prop :=
  ∀ (ops : FloatOps FTerm) (env : Env) (fuel : Nat) (e : Expr) (venv : VEnv FTerm) (v' : V FTerm),
    Cons m ops env venv → evalPy m ops env.known venv (toPy e) = .ok v' →
    (∃ v, execImpl ops env fuel e = .ok v ∧ Sim m v v') ∨ (∃ er, execImpl ops env fuel e = .error er ∧ Refusal er)

/-- `sound` / `refuse` without the guard H4 -/
def sound_unguarded_statement : Prop := soundUnder .py

/-- H4 is necessary for `sound` and `refuse`: `0X1F` is 31 in CPython, the folder raises a wrapped ValueError
    (an application error — the property itself is not violated). -/
theorem upperhex_counterexample : ¬ sound_unguarded_statement := by
  intro h
  have := h freeOps ⟨[], []⟩ 5 (.integer ['0','X','1','F']) [] (.int 31) Cons.nil (by decide)
  have hx : execImpl freeOps ⟨[], []⟩ 5 (.integer ['0','X','1','F']) = .error (.fatal .valueError) := by decide
  rw [hx] at this
  rcases this with ⟨v, h1, _⟩ | ⟨er, h1, h2⟩
  · cases h1
  · cases h1; cases h2

/-- the law `_cat` would need for tokens with escapes: decoding the joined bodies = joining the decoded bodies -/
def cat_commutes_with_decoding_statement : Prop :=
  ∀ l r : Str, allowString l = true → allowString r = true → decodeEsc (unq (cat l r)) = decodeEsc (unq l) ++ decodeEsc (unq r)

/-- … is false for plain `_cat` (the hazard behind the former finding `escape-merge-concat`, repaired in 05486b1): `'\1' + '2'`
    would join to the body `\12`, one character (newline), where CPython has the two characters `\x01` `2`. -/
theorem escape_counterexample : ¬ cat_commutes_with_decoding_statement := by
  intro h
  have := h ['\'','\\','1','\''] ['\'','2','\''] (by decide) (by decide)
  revert this
  decide

/-- **join_decodes**: the law holds for every pair of bodies except when the left one ends inside an escape sequence the right
    one continues (`joinsEscape`: for bodies of valid tokens, `\o` / `\oo` at the end and an octal digit next) — for octal,
    `\xhh`, `\uhhhh`, `\Uhhhhhhhh` and the one-character escapes, all body texts. -/
theorem join_decodes (l r : Str) (h : joinsEscape l r = false) : decodeEsc (l ++ r) = decodeEsc l ++ decodeEsc r := by
  unfold decodeEsc
  rw [decodeGo_append, decodeGo_eq .normal l, List.append_assoc]
  congr 1
  apply decodeGo_settled
  unfold joinsEscape at h
  cases hst : endState .normal l with
  | normal => exact Or.inl rfl
  | oct v n =>
    refine Or.inr ⟨v, n, rfl, ?_⟩
    rw [hst] at h
    cases r with
    | nil => trivial
    | cons c cs => simpa using h
  | backslash => rw [hst] at h; cases h
  | hex k need seen v => rw [hst] at h; cases h

/-- non-vacuity of `join_decodes`: `a\n` + `b`, `\\` + `1` (an escaped backslash, then a digit) and `\123` + `4` join safely. -/
example : joinsEscape ['a','\\','n'] ['b'] = false ∧ joinsEscape ['\\','\\'] ['1'] = false ∧ joinsEscape ['\\','1','2','3'] ['4'] = false
    ∧ joinsEscape ['\\','1'] ['2'] = true ∧ joinsEscape ['\\','1'] ['8'] = false := by
  decide

/-- **catSafe_decodes**: the shipped join rule (`assert … and not self._joins_escape(left, right)`, then `_cat`; `step` uses it)
    satisfies the law: whatever it returns decodes to the concatenation of what the two operands decode to. -/
theorem catSafe_decodes (l r s : Str) (hl : allowString l = true) (h : catSafe l r = .ok s) :
    decodeEsc (unq s) = decodeEsc (unq l) ++ decodeEsc (unq r) := by
  unfold catSafe at h
  split at h
  · cases h
  · rename_i hj
    cases h
    rw [unq_cat hl]
    exact join_decodes _ _ (by simpa using hj)

/-- non-vacuity of `catSafe_decodes` and regression of 05486b1: `'\1' + '2'` is refused — also as an expression of the folder —,
    `'a\n' + "b"` is joined as before. -/
example : catSafe ['\'','\\','1','\''] ['\'','2','\''] = .error .notAllowed
    ∧ catSafe ['\'','a','\\','n','\''] ['"','b','"'] = .ok ['\'','a','\\','n','b','\'']
    ∧ execImpl freeOps ⟨[], []⟩ 5 (.chain ['o','n','_','s','u','m'] (.string ['\'','\\','1','\'']) [(['+'], .string ['\'','2','\''])])
        = .error .notAllowed
    ∧ execImpl freeOps ⟨[], []⟩ 5 (.chain ['o','n','_','s','u','m'] (.string ['\'','a','\\','n','\'']) [(['+'], .string ['"','b','"'])])
        = .ok (.str ['\'','a','\\','n','b','\'']) := by
  decide

/-! ## the grammar of `int(<string>)` -/

/-- **pyInt_accepts_iff**: the model of Python's `int(str)` for base 10 (what both evaluators apply to the un-quoted content of a
    string argument) accepts exactly the texts `blanks sign? digit (_? digit)* blanks` and returns the value they denote; blanks are
    C `isspace` plus the Unicode White_Space characters beyond ASCII (`wsCodes`), a digit is any Unicode decimal digit (category Nd:
    `digVal 10` over the generated table `Generated/UnicodeDigits.decimalZeros`, scripts may be mixed). Everything else —
    float-looking text, `1__0`, `_1`, `1_`, the empty text, a sign after a blank-separated digit — is a ValueError. -/
theorem pyInt_accepts_iff (s : Str) (n : Int) : pyInt 10 s = .ok n ↔ IntText s n :=
  ⟨pyInt_sound, pyInt_complete⟩

/-- … and `pyInt` has no other answer than a value or ValueError. -/
theorem pyInt_rejects (s : Str) : (∃ n, pyInt 10 s = .ok n) ∨ pyInt 10 s = .error .valueError := by
  cases h : pyInt 10 s with
  | ok n => exact Or.inl ⟨n, rfl⟩
  | error e =>
    refine Or.inr ?_
    unfold pyInt at h
    split at h
    simp only [Nat.reduceEqDiff, if_false] at h
    split at h
    · cases h
    · cases h; rfl

/-- non-vacuity: `' +9_007_199_254_740_993 '` is accepted with its exact value, `2.7`, `1__0`, `1_` and `\x1c12` are rejected. -/
example :
    pyInt 10 [' ','+','9','_','0','0','7','_','1','9','9','_','2','5','4','_','7','4','0','_','9','9','3',' '] = .ok 9007199254740993
    ∧ pyInt 10 [Char.ofNat 0x2003, '-', '1', '2', Char.ofNat 0x85] = .ok (-12)
    ∧ pyInt 10 ['2','.','7'] = .error .valueError ∧ pyInt 10 ['1','_','_','0'] = .error .valueError
    ∧ pyInt 10 ['1','_'] = .error .valueError ∧ pyInt 10 [Char.ofNat 0x1c, '1', '2'] = .error .valueError := by
  decide

/-- non-vacuity beyond ASCII: ARABIC-INDIC `١٢` is 12, a FULLWIDTH digit after an ASCII one and an underscore (`1_２`) is 12 as well,
    SUPERSCRIPT TWO (category No, not a decimal digit) and ROMAN NUMERAL ONE are rejected. -/
example :
    pyInt 10 [Char.ofNat 0x661, Char.ofNat 0x662] = .ok 12
    ∧ pyInt 10 ['1', '_', Char.ofNat 0xff12] = .ok 12
    ∧ pyInt 10 ['-', Char.ofNat 0x1d7d7] = .ok (-9)
    ∧ pyInt 10 [Char.ofNat 0xb2] = .error .valueError ∧ pyInt 10 [Char.ofNat 0x2160] = .error .valueError := by
  decide

/-- the evaluator's `int('<text>')` folds to `n` exactly for the texts of the grammar (`[1:-1]` of the token, then `int`). -/
theorem int_cast_accepts_iff {F : Type} (ops : FloatOps F) (s : Str) (n : Int) :
    onFuncCall ops ['i','n','t'] [.str s] = .ok (.int n) ↔ IntText (unq s) n := by
  rw [← pyInt_accepts_iff]
  simp only [onFuncCall, Generated.EvalOps.castArity, List.length_singleton, ne_eq, not_true_eq_false, if_false, if_true]
  cases h : pyInt 10 (unq s) <;> simp [liftPy, Except.map]

/-! ## the enum value text in the output (py2cpp.py:850-860) -/

/-- the mode of the output theorems: string tokens with a backslash cut out (the C++ reader of the inlined text is modelled for
    plain contents only), `0X…` literals allowed -/
def outMode : Mode := ⟨false, true⟩

/-- **output_agree**: whenever CPython evaluates the member value to `v'` and the type answer of Reflections fits `v'`
    (`str` exactly for strings, a bare-printed name exactly for numbers), the text `on_relay` inlines for `Enum.Member.value`,
    read back (decimal text or literal token, optionally in parentheses; text between double quotes; a float as Python's `str(x)` or a
    token `float()` reads as `x`), denotes `v'` with the same type — for every expression, environment, fuel and interpretation of
    `float`. No guard on the expression (since 61fd1e4 a string literal as whole value goes through the evaluator as well); one on
    the VALUE: a string value contains no double quote (`hq`; relay/literalize.j2 prints the content raw, `quote_in_value_counterexample`). -/
theorem output_agree {F : Type} (ops : FloatOps F) (hops : FloatText ops) (env : Env) (fuel : Nat) (mem : Member) (ti : TyInfo) (venv : VEnv F)
    (v' : V F) (text : Str)
    (hty : mem.ty = .ok ti) (hfit : ti.fits v') (hq : ∀ c, v' = .str c → c.contains '"' = false)
    (hc : Cons outMode ops env venv) (hp : evalPy outMode ops env.known venv (toPy mem.value) = .ok v')
    (he : emitValue ops env fuel mem = .ok text) : Denotes ops text v' := by
  have h := emit_core outMode ops env (fun _ => True) (fun _ _ => trivial) (fun _ => trivial) rfl hops.1 hops.2 fuel mem ti venv v' hty hfit hq hc hp
  rw [he] at h
  exact h

/-- non-vacuity of `output_agree` and regression of the seeded mutation: `B = -(7 % -3)` is inlined as `2`, `C = -A` with
    `A = 0x10` as `(-16)`, `D = str(A) + 'x'` as `"16x"`, the token `0x10` itself as `0x10`. -/
example :
    let a : Expr := .integer ['0','x','1','0']
    let b : Expr := .factor ['-'] (.group (.chain ['o','n','_','t','e','r','m'] (.integer ['7']) [(['%'], .factor ['-'] (.integer ['3']))]))
    let c : Expr := .factor ['-'] (.var ['A'] none)
    let d : Expr := .chain ['o','n','_','s','u','m'] (.call ['s','t','r'] [.var ['A'] none]) [(['+'], .string ['\'','x','\''])]
    let env : Env := ⟨[(['A'], a), (['B'], b), (['C'], c), (['D'], d)], [['s','t','r']]⟩
    let num : Except TyErr TyInfo := .ok ⟨['i','n','t'], false⟩
    let str : Except TyErr TyInfo := .ok ⟨['s','t','d',':',':','s','t','r','i','n','g'], true⟩
    emitValue freeOps env 9 ⟨a, num⟩ = .ok ['0','x','1','0']
    ∧ emitValue freeOps env 9 ⟨b, num⟩ = .ok ['2']
    ∧ emitValue freeOps env 9 ⟨c, num⟩ = .ok ['(','-','1','6',')']
    ∧ emitValue freeOps env 9 ⟨d, str⟩ = .ok ['"','1','6','x','"']
    ∧ evalPy .py freeOps env.known (bindAll .py freeOps env.known [] [(['A'], a)]) (toPy c) = .ok (.int (-16)) := by
  decide

/-- **output_sound**: … and when `on_relay` fails instead, it is a refusal (an application error that is not a wrapped Python
    exception: OperationNotAllowed, UnresolvedSymbol, an error of type inference, the recursion limit) — with `0X…` literals cut out. -/
theorem output_sound {F : Type} (ops : FloatOps F) (hops : FloatText ops) (env : Env) (fuel : Nat) (mem : Member) (ti : TyInfo) (venv : VEnv F) (v' : V F)
    (hty : mem.ty = .ok ti) (hfit : ti.fits v') (hq : ∀ c, v' = .str c → c.contains '"' = false)
    (hc : Cons .strict ops env venv) (hp : evalPy .strict ops env.known venv (toPy mem.value) = .ok v') :
    (∃ text, emitValue ops env fuel mem = .ok text ∧ Denotes ops text v') ∨ (∃ er, emitValue ops env fuel mem = .error er ∧ Refusal er) := by
  have h := emit_core .strict ops env Refusal (fun _ h => h) (by intro h; cases h) rfl hops.1 hops.2 fuel mem ti venv v' hty hfit hq hc hp
  cases hx : emitValue ops env fuel mem with
  | ok text => rw [hx] at h; exact Or.inl ⟨text, rfl, h⟩
  | error er => rw [hx] at h; exact Or.inr ⟨er, rfl, h⟩

/-- non-vacuity of `output_sound`: `'a' * 2` as member value is refused although CPython has `'aa'`. -/
example :
    emitValue freeOps ⟨[], []⟩ 9 ⟨.chain ['o','n','_','t','e','r','m'] (.string ['\'','a','\'']) [(['*'], .integer ['2'])], .ok ⟨['s'], true⟩⟩
      = .error .notAllowed := by
  decide

/-- `output_agree` without the guard on double quotes in a string value -/
def output_agree_unguarded_statement : Prop :=
  ∀ (ops : FloatOps FTerm) (env : Env) (fuel : Nat) (mem : Member) (ti : TyInfo) (venv : VEnv FTerm) (v' : V FTerm) (text : Str),
    mem.ty = .ok ti → ti.fits v' → Cons outMode ops env venv → evalPy outMode ops env.known venv (toPy mem.value) = .ok v' →
    emitValue ops env fuel mem = .ok text → Denotes ops text v'

/-- … is false on the current code (finding `output-unescaped-double-quote`): the enum value `'say "hi"'` (also `"x" + 'say "hi"'`,
    where `_cat` keeps the left quote — the CONTENT `xsay "hi"` is right, `agree`) is inlined as `"say "hi""`, which is not one
    C++ string literal. The single quote of `'a' + "it's"` is harmless: `"ait's"`. -/
theorem quote_in_value_counterexample : ¬ output_agree_unguarded_statement := by
  intro h
  have := h freeOps ⟨[], []⟩ 5 ⟨.string ['\'','s','a','y',' ','"','h','i','"','\''], .ok ⟨['s'], true⟩⟩ ⟨['s'], true⟩ [] (.str ['s','a','y',' ','"','h','i','"'])
    ['"','s','a','y',' ','"','h','i','"','"'] rfl ⟨rfl, by decide⟩ Cons.nil (by decide) (by decide)
  have h2 := (denotes_str_inv freeOps this).2
  revert h2
  decide

/-- the mixed-quote joins: `'a' + "it's"` folds to the token `'ait's'` whose content (`[1:-1]`) is CPython's `ait's`, and is
    inlined as `"ait's"` (`agree` / `catSafe_decodes` hold for every pair of quote characters: `Quoted` allows different ones). -/
example :
    let e : Expr := .chain ['o','n','_','s','u','m'] (.string ['\'','a','\'']) [(['+'], .string ['"','i','t','\'','s','"'])]
    execImpl freeOps ⟨[], []⟩ 5 e = .ok (.str ['\'','a','i','t','\'','s','\''])
    ∧ evalPy .py freeOps [] [] (toPy e) = .ok (.str ['a','i','t','\'','s'])
    ∧ emitValue freeOps ⟨[], []⟩ 5 ⟨e, .ok ⟨['s'], true⟩⟩ = .ok ['"','a','i','t','\'','s','"'] := by
  decide

/-- regression of 61fd1e4 (former `lone_literal_counterexample`): a string literal as the WHOLE enum value goes through the
    evaluator — `'''a'''` and `r'a'` are refused (they used to be inlined as `"''a''"` / `"'a"`), a plain `'a'` is inlined as `"a"`. -/
example :
    let str : Except TyErr TyInfo := .ok ⟨['s','t','d',':',':','s','t','r','i','n','g'], true⟩
    emitValue freeOps ⟨[], []⟩ 5 ⟨.string ['\'','\'','\'','a','\'','\'','\''], str⟩ = .error .notAllowed
    ∧ emitValue freeOps ⟨[], []⟩ 5 ⟨.string ['r','\'','a','\''], str⟩ = .error .notAllowed
    ∧ emitValue freeOps ⟨[], []⟩ 5 ⟨.string ['\'','a','\''], str⟩ = .ok ['"','a','"'] := by
  decide

/-! ## the C++ reading of an inlined string value (relay/literalize.j2 prints the raw body of the token between double quotes) -/

/-- **cpp_reads_python**: on every body `cppSafe` accepts — no unescaped `"`, no raw line feed, only escapes both languages define
    (octal and `\xhh` below 0x80, no hexadecimal digit right after `\xhh`, `\uhhhh`, `\Uhhhhhhhh`, n t r a b f v \ ' ") — the C++
    narrow string literal `"body"` denotes exactly the UTF-8 encoding of the string CPython reads from `'body'`. -/
theorem cpp_reads_python (body : Str) (h : cppSafe body = true) : cppBytes body = some (utf8s (decodeEsc body)) :=
  cpp_sim body .normal h

/-- non-vacuity of `cpp_reads_python`: `a\n\x41\101` + `é` + `\u00e9\U0001F600` + `\"` is safe and is read as the bytes
    `61 0a 41 41 c3a9 c3a9 f09f9880 22` by both. -/
example :
    let body : Str := ['a','\\','n','\\','x','4','1','\\','1','0','1', Char.ofNat 0xe9, '\\','u','0','0','e','9',
      '\\','U','0','0','0','1','F','6','0','0','\\','"']
    cppSafe body = true
    ∧ cppBytes body = some [0x61, 0x0a, 0x41, 0x41, 0xc3, 0xa9, 0xc3, 0xa9, 0xf0, 0x9f, 0x98, 0x80, 0x22]
    ∧ utf8s (decodeEsc body) = [0x61, 0x0a, 0x41, 0x41, 0xc3, 0xa9, 0xc3, 0xa9, 0xf0, 0x9f, 0x98, 0x80, 0x22] := by
  decide

/-- the same without the guard: every body CPython decodes (no `"` in it) is read alike by C++ -/
def cpp_reads_python_unguarded_statement : Prop :=
  ∀ body : Str, escOk body = true → body.contains '"' = false → cppBytes body = some (utf8s (decodeEsc body))

/-- … is false (finding `output-python-escape-in-cpp-literal`): `a\d` is the three characters `a`, `\`, `d` in Python and not a
    defined literal in ISO C++ (g++ reads `ad`, with a warning). -/
theorem cpp_escape_counterexample : ¬ cpp_reads_python_unguarded_statement := by
  intro h
  have := h ['a','\\','d'] (by decide) (by decide)
  revert this
  decide

/-- the other classes of the finding: `\x41b` is `Ab` in Python and an out-of-range escape in C++ (`\x` takes every hexadecimal
    digit); `\xe9` and `\351` are `é` (UTF-8 `c3 a9`) in Python and the single byte `e9` in C++; `\?` is two characters in Python and
    `?` in C++; an unescaped `"` ends the C++ literal (`output-unescaped-double-quote`). -/
example :
    cppBytes ['\\','x','4','1','b'] = none ∧ decodeEsc ['\\','x','4','1','b'] = ['A','b']
    ∧ cppBytes ['\\','x','e','9'] = some [0xe9] ∧ utf8s (decodeEsc ['\\','x','e','9']) = [0xc3, 0xa9]
    ∧ cppBytes ['\\','3','5','1'] = some [0xe9] ∧ utf8s (decodeEsc ['\\','3','5','1']) = [0xc3, 0xa9]
    ∧ cppBytes ['\\','?'] = some [0x3f] ∧ utf8s (decodeEsc ['\\','?']) = [0x5c, 0x3f]
    ∧ cppBytes ['s','a','y',' ','"','h','i','"'] = none := by
  decide

/-- **output_string_cpp**: the string case of the second observation point WITH escapes: when the folder returns the token `s`
    for the member value and CPython evaluates it to the string `c`, the text `on_relay` inlines is `"` + `s[1:-1]` + `"`, and —
    if `cppSafe` accepts that body — a C++ compiler reads it as the UTF-8 encoding of `c`. (`output_agree` covers the bodies
    without backslash; this one needs no guard on the expression either, only `cppSafe` on the inlined body.) -/
theorem output_string_cpp {F : Type} (ops : FloatOps F) (hops : FloatText ops) (env : Env) (fuel : Nat) (mem : Member) (ti : TyInfo)
    (venv : VEnv F) (s c : Str)
    (hty : mem.ty = .ok ti) (hfit : ti.fits (.str c : V F)) (hc : Cons .py ops env venv)
    (hi : execImpl ops env fuel mem.value = .ok (.str s)) (hp : evalPy .py ops env.known venv (toPy mem.value) = .ok (.str c))
    (hsafe : cppSafe (unq s) = true) :
    emitValue ops env fuel mem = .ok ('"' :: (unq s ++ ['"'])) ∧ cppBytes (unq s) = some (utf8s c) := by
  have hsim := agree ops hops env fuel mem.value venv _ _ hc hi hp
  cases hsim with
  | @str _ raw _ hq hd _ =>
    obtain ⟨q, q', _, _, rfl⟩ := hq
    have hu : ∀ raw : Str, unq (q :: (raw ++ [q'])) = raw := by
      intro raw; simp [unq]
    rw [hu] at hsafe ⊢
    refine ⟨?_, by rw [cpp_reads_python _ hsafe, hd]⟩
    obtain ⟨his, hnum⟩ := hfit
    have hlit : literalOf ops env fuel mem.value = .ok (q :: (raw ++ [q'])) := by
      cases fuel with
      | zero => simp [execImpl] at hi
      | succ f =>
        cases hv : mem.value with
        | integer tok =>
          rw [hv] at hi
          simp only [execImpl, onInteger] at hi
          split at hi <;> exact absurd hi (liftPy_map_ne_str _ _ (by intro n h; cases h))
        | float tok =>
          rw [hv] at hi
          simp only [execImpl, onFloat] at hi
          exact absurd hi (liftPy_map_ne_str _ _ (by intro n h; cases h))
        | _ => rw [hv] at hi; simp [literalOf, hi, Except.map, pyStrOf]
    have hnum' : ¬ ti.varType ∈ Generated.RelayLiteralize.numericTypes := by simpa using hnum
    simp [emitValue, hty, hlit, his, renderLiteralize, hnum', hu, Generated.RelayLiteralize.quote, bind, Except.bind, pure, Except.pure]

/-- non-vacuity of `output_string_cpp`: the member `'caf\u00e9' + "\t!"` is inlined as `"caf\u00e9\t!"`, whose body is safe. -/
example :
    let e : Expr := .chain ['o','n','_','s','u','m'] (.string ['\'','c','a','f','\\','u','0','0','e','9','\''])
      [(['+'], .string ['"','\\','t','!','"'])]
    let mem : Member := ⟨e, .ok ⟨['s','t','d',':',':','s','t','r','i','n','g'], true⟩⟩
    execImpl freeOps ⟨[], []⟩ 5 e = .ok (.str ['\'','c','a','f','\\','u','0','0','e','9','\\','t','!','\''])
    ∧ evalPy .py freeOps [] [] (toPy e) = .ok (.str ['c','a','f',Char.ofNat 0xe9,'\t','!'])
    ∧ cppSafe ['c','a','f','\\','u','0','0','e','9','\\','t','!'] = true
    ∧ emitValue freeOps ⟨[], []⟩ 5 mem = .ok ['"','c','a','f','\\','u','0','0','e','9','\\','t','!','"'] := by
  decide

end Tranp.C17
