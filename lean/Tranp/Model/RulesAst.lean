/-
  Tranp.Model.RulesAst — executable model of rule (de)serialisation (property C12).

  Modelled code (rog-works/tranp):
    rogw/tranp/implements/syntax/tranp/rule.py   Pattern.make (:95-118), Rules.from_ast / ASTSerializer (:244-253, :407-629),
                                                 Prettier (:632-746, incl. fix 87005c8), Rules.org_symbols / pretty
    rogw/tranp/bin/gram_check.py                 App.render_rules (:104-124) incl. the two escape fix-ups

  `toAst` and `Canon` are specification-side definitions (the Python has no `to_ast`): `toAst g` is the tuple tree
  the meta-grammar assigns to `g`, `Canon g` says `g` is in the image of `from_ast` on well-shaped trees.
-/
import Tranp.Model.Engine

namespace Tranp.RulesAst
open Tranp Tranp.Engine

/-! ## small string helpers (Python `str` methods used here) -/

/-- `s.split(sep)` for a non-empty separator. -/
def splitStr (sep : Str) (s : Str) : List Str :=
  go s [] (s.length + 1)
where
  /-- `cur` = current piece, reversed; every step consumes at least one character, `fuel` > |remaining| -/
  go : Str → Str → Nat → List Str
    | [], cur, _ => [cur.reverse]
    | _, cur, 0 => [cur.reverse]
    | c :: cs, cur, fuel + 1 =>
      if sep ≠ [] ∧ Str.startsWith (c :: cs) sep then cur.reverse :: go ((c :: cs).drop sep.length) [] fuel
      else go cs (c :: cur) fuel

/-- `new.join(s.split(old))` = `s.replace(old, new)` -/
def replaceStr (old new s : Str) : Str := joinStr new (splitStr old s)

def isWordChar (c : Char) : Bool := c.isAlphanum || c = '_'

/-- `s[1:-1]` -/
def inner (s : Str) : Str := (s.drop 1).dropLast

def lastChar? (s : Str) : Option Char := s.getLast?

/-! ## Pattern.make (rule.py:95-118) -/

def spaceCode (c : Char) : Option Char :=
  if c = 't' then some '\t' else if c = 'f' then some (Char.ofNat 12) else if c = 'r' then some '\r' else if c = 'n' then some '\n' else none

def make (s : Str) : Except Err Pat :=
  if s.head? = some '"' ∧ lastChar? s = some '"' then
    let cand := inner s
    match cand with
    | ['\\', c] =>
      match spaceCode c with
      | some code => .ok (.pattern [code] .terminal .equals)
      | none => .ok (.pattern cand .terminal .equals)
    | _ => .ok (.pattern cand .terminal .equals)
  else if s.head? = some '/' ∧ lastChar? s = some '/' then .ok (.pattern (inner s) .terminal .regexp)
  else if s ≠ [] ∧ s.all isWordChar then .ok (.pattern s .symbol .noComp)     -- re.fullmatch(r'\w[\w\d]*', s), ASCII
  else .error .assertionError

/-! ## ASTSerializer (rule.py:407-629) -/

def entryName : TEntry → Str
  | .token n _ => n
  | .tree n _ => n

/-- `_children`: `as_a(list, entry[1])` -/
def childrenOf : TEntry → Except Err (List TEntry)
  | .tree _ cs => .ok cs
  | .token _ _ => .error .assertionError

/-- `_fetch_token(tree, index, expected, allow_empty)`; `idx = none` is index -1. Returns (name, value). -/
def fetchToken (cs : List TEntry) (idx : Option Nat) (expected : Str) (allowEmpty : Bool) : Except Err (Str × Str) :=
  let e? := match idx with
    | some i => cs[i]?
    | none => cs.getLast?
  match e? with
  | none => .error .indexError
  | some (.tree _ _) => .error .assertionError        -- _as_token
  | some (.token n v) => if n == expected || allowEmpty then .ok (n, v) else .error .assertionError

def nSymbol : Str := ['s', 'y', 'm', 'b', 'o', 'l']
def nString : Str := ['s', 't', 'r', 'i', 'n', 'g']
def nRegexp : Str := ['r', 'e', 'g', 'e', 'x', 'p']
def nTerms : Str := ['t', 'e', 'r', 'm', 's']
def nTermsOr : Str := ['t', 'e', 'r', 'm', 's', '_', 'o', 'r']
def nExprOpt : Str := ['e', 'x', 'p', 'r', '_', 'o', 'p', 't']
def nExprRep : Str := ['e', 'x', 'p', 'r', '_', 'r', 'e', 'p']
def nRepeat : Str := ['r', 'e', 'p', 'e', 'a', 't']
def nUnwrap : Str := ['u', 'n', 'w', 'r', 'a', 'p']
def nRule : Str := ['r', 'u', 'l', 'e']
def nEntry : Str := ['e', 'n', 't', 'r', 'y']

/-- `Repeators(rep_value)` after `assert not repeated or rep_value in '*+?'` (substring test!) -/
def repOf (repeated : Bool) (v : Str) : Except Err Rep :=
  if !repeated then .ok .noRepeat
  else if v = ['*'] then .ok .overZero
  else if v = ['+'] then .ok .overOne
  else if v = ['?'] then .ok .oneOrZero
  else if v = [] ∨ v = ['*', '+'] ∨ v = ['+', '?'] ∨ v = ['*', '+', '?'] then .error .valueError   -- passes the assert, no such enum value
  else .error .assertionError

mutual
/-- `_for_expr` (rule.py:456-482) with its four tree cases inlined. -/
def forExpr : TEntry → Except Err Pat
  | .token n v =>
    if n == nSymbol then make v
    else if n == nString || n == nRegexp then make v
    else .error .assertionError
  | .tree n cs =>
    if n == nTerms then
      match forExprList cs with
      | .ok ps => .ok (.group ps .and .noRepeat)
      | .error e => .error e
    else if n == nTermsOr then
      match forExprList cs with
      | .ok ps => .ok (.group ps .or .noRepeat)
      | .error e => .error e
    else if n == nExprOpt then
      match forExprList cs with
      | .ok ps => .ok (.group ps .and .oneOrEmpty)
      | .error e => .error e
    else if n == nExprRep then
      match fetchToken cs none nRepeat true with
      | .error e => .error e
      | .ok (rn, rv) =>
        match repOf (rn == nRepeat) rv with
        | .error e => .error e
        | .ok rep =>
          match forExprInit cs with
          | .ok ps => .ok (.group ps .and rep)
          | .error e => .error e
    else .error .assertionError
def forExprList : List TEntry → Except Err (List Pat)
  | [] => .ok []
  | c :: cs =>
    match forExpr c with
    | .error e => .error e
    | .ok p =>
      match forExprList cs with
      | .error e => .error e
      | .ok ps => .ok (p :: ps)
/-- `[cls._for_expr(children[i]) for i in range(len(children) - 1)]`: all children but the last -/
def forExprInit : List TEntry → Except Err (List Pat)
  | [] => .ok []
  | [_] => .ok []
  | c :: c' :: cs =>
    match forExpr c with
    | .error e => .error e
    | .ok p =>
      match forExprInit (c' :: cs) with
      | .error e => .error e
      | .ok ps => .ok (p :: ps)
end

/-- `_for_rule_name` (rule.py:440-453) -/
def forRuleName (cs : List TEntry) : Except Err Str :=
  match fetchToken cs (some 0) nSymbol false with
  | .error e => .error e
  | .ok (_, sv) =>
    match fetchToken cs (some 1) nUnwrap true with
    | .error e => .error e
    | .ok (un, uv) => if un == nUnwrap then .ok (sv ++ ['['] ++ uv ++ [']']) else .ok sv

/-- `_for_rule` (rule.py:425-437) -/
def forRule : TEntry → Except Err (Str × Pat)
  | .token _ _ => .error .assertionError               -- _as_tree(child)
  | .tree n cs =>
    if n != nRule then .error .assertionError
    else
      match forRuleName cs with
      | .error e => .error e
      | .ok name =>
        match cs[2]? with
        | none => .error .indexError
        | some c =>
          match forExpr c with
          | .error e => .error e
          | .ok p => .ok (name, p)

def forRules : List TEntry → Except Err (List (Str × Pat))
  | [] => .ok []
  | c :: cs =>
    match forRule c with
    | .error e => .error e
    | .ok r =>
      match forRules cs with
      | .error e => .error e
      | .ok rs => .ok (r :: rs)

/-- `dict([...])`: later duplicates overwrite the value, the first position is kept. -/
def dictOf (rs : List (Str × Pat)) : Rules := rs.foldl (fun acc kv => insert acc kv.1 kv.2) []

/-- `Rules.from_ast` = `ASTSerializer.restore` (rule.py:410-422) -/
def fromAst (t : TEntry) : Except Err Rules :=
  if entryName t != nEntry then .error .assertionError
  else
    match childrenOf t with
    | .error e => .error e
    | .ok cs =>
      match forRules cs with
      | .error e => .error e
      | .ok rs => .ok (dictOf rs)

/-! ## Prettier (rule.py:632-742) -/

def repValue : Rep → Str
  | .overZero => ['*']
  | .overOne => ['+']
  | .oneOrZero => ['?']
  | .oneOrEmpty => ['[', ']']
  | .noRepeat => ['o', 'f', 'f']

/-- `_deco_repeat` (rule.py:730-746): a no-repeat group gets no decoration here. -/
def decoRepeat (s : Str) : Rep → Str
  | .noRepeat => s
  | .oneOrEmpty => ['['] ++ s ++ [']']
  | rep => ['('] ++ s ++ [')'] ++ repValue rep

mutual
def prettyPat : Pat → Str
  | .pattern e _ .regexp => ['/'] ++ e ++ ['/']
  | .pattern e _ .equals => ['"'] ++ e ++ ['"']
  | .pattern e _ .noComp => e
  -- `_pretty_patterns_and` (rule.py:702-716, after fix 87005c8): a one-entry AND group without repeat marker is the image of
  -- `( e )` under from_ast and is printed with its parentheses
  | .group [e] .and .noRepeat => ['('] ++ prettyPat e ++ [')']
  | .group es .and rep => decoRepeat (joinStr [' '] (prettyPatList es)) rep
  | .group es .or rep => decoRepeat (joinStr [' ', '|', ' '] (prettyPatList es)) rep
def prettyPatList : List Pat → List Str
  | [] => []
  | p :: ps => prettyPat p :: prettyPatList ps
end

/-- `Prettier._pretty_rule` -/
def prettyRule (kv : Str × Pat) : Str := kv.1 ++ [' ', ':', '=', ' '] ++ prettyPat kv.2

/-- `Rules.pretty()` -/
def pretty (R : Rules) : Str := joinStr ['\n'] (R.map prettyRule)

/-! ## gram_check.App.render_rules (gram_check.py:104-124) -/

def renderHead : Str :=
  ['f','r','o','m',' ','r','o','g','w','.','t','r','a','n','p','.','i','m','p','l','e','m','e','n','t','s','.','s','y','n','t','a','x','.','t','r','a','n','p','.','r','u','l','e',' ','i','m','p','o','r','t',' ','R','u','l','e','s','\n','\n','\n','d','e','f',' ']

def renderMid : Str :=
  ['(',')',' ','-','>',' ','R','u','l','e','s',':','\n','\t','r','e','t','u','r','n',' ','R','u','l','e','s','.','f','r','o','m','_','a','s','t','(','\n','\t','\t']

def renderTail : Str := ['\n','\t',')','\n']

/-- `render_rules(tree)` for the output file stem `filename`. -/
def renderRules (filename : Str) (tree : Ast) : Str :=
  let rendered := joinStr ['\n', '\t', '\t'] (Str.splitOn '\n' (Ast.pretty ['\t'] tree))
  -- XXX 文字列のエスケープを修正
  let rendered := replaceStr ['\\'] ['\\', '\\'] rendered
  let rendered := replaceStr ['\\', '\\', '\''] ['\\', '\''] rendered
  renderHead ++ filename ++ renderMid ++ rendered ++ renderTail

/-! ## specification side: the tuple tree of a rule set -/

/-- text of a terminal/symbol pattern as `Prettier._pretty_pattern` prints it (and as `Pattern.make` reads it back) -/
def patToken : Pat → TEntry
  | .pattern e _ .regexp => .token nRegexp (['/'] ++ e ++ ['/'])
  | .pattern e _ .equals => .token nString (['"'] ++ e ++ ['"'])
  | .pattern e _ .noComp => .token nSymbol e
  | .group _ _ _ => .token [] []

mutual
def toAstPat : Pat → TEntry
  | .pattern e r c => patToken (.pattern e r c)
  | .group es .or _ => .tree nTermsOr (toAstPatList es)
  | .group [e] .and .noRepeat => .tree nExprRep [toAstPat e, .token emptyName []]         -- a bare group "( e )"
  | .group es .and .noRepeat => .tree nTerms (toAstPatList es)
  | .group es .and .oneOrEmpty => .tree nExprOpt (toAstPatList es)
  | .group es .and rep => .tree nExprRep (toAstPatList es ++ [.token nRepeat (repValue rep)])
def toAstPatList : List Pat → List TEntry
  | [] => []
  | p :: ps => toAstPat p :: toAstPatList ps
end

/-- split `name[1]` / `name[*]` / `name` into the symbol and the unwrap token -/
def splitKey (k : Str) : Str × TEntry :=
  match k.reverse with
  | ']' :: u :: '[' :: rsym => (rsym.reverse, .token nUnwrap [u])
  | _ => (k, .token emptyName [])

def toAstRule (kv : Str × Pat) : TEntry :=
  let (sym, unwrap) := splitKey kv.1
  .tree nRule [.token nSymbol sym, unwrap, toAstPat kv.2]

def toAst (R : Rules) : TEntry := .tree nEntry (R.map toAstRule)

/-- Expression of a string terminal that survives `Pattern.make ∘ Prettier`: not one of the two-character escapes. -/
def plainString (e : Str) : Bool :=
  match e with
  | ['\\', c] => (spaceCode c).isNone
  | _ => true

mutual
/-- `g` is in the image of `from_ast` on trees the meta-grammar produces. -/
def canonPat : Pat → Bool
  | .pattern e .symbol .noComp => e ≠ [] && e.all isWordChar
  | .pattern e .terminal .equals => plainString e
  | .pattern _ .terminal .regexp => true
  | .pattern _ _ _ => false
  | .group es .or rep => rep = .noRepeat && decide (2 ≤ es.length) && canonPatList es
  | .group es .and .noRepeat => decide (1 ≤ es.length) && canonPatList es
  | .group es .and _ => decide (es.length = 1) && canonPatList es
def canonPatList : List Pat → Bool
  | [] => true
  | p :: ps => canonPat p && canonPatList ps
end

/-- a rule key `sym`, `sym[1]` or `sym[*]` with a word symbol -/
def canonKey (k : Str) : Bool :=
  let (sym, unwrap) := splitKey k
  sym ≠ [] && sym.all isWordChar &&
    (match unwrap with
     | .token n [u] => n = nUnwrap && (u = '1' || u = '*')
     | .token n [] => n = emptyName
     | _ => false)

def distinctKeys : Rules → Bool
  | [] => true
  | kv :: rest => !hasKey rest kv.1 && distinctKeys rest

def Canon (R : Rules) : Prop := (R.all fun kv => canonKey kv.1 && canonPat kv.2) = true ∧ distinctKeys R = true

instance (R : Rules) : Decidable (Canon R) := by unfold Canon; infer_instance

end Tranp.RulesAst
