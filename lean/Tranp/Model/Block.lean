/-
  Tranp.Model.Block — executable model of the fragment splitting helpers (property C18).

  Real code (all line numbers: /repo at the pinned tree):
    rogw/tranp/view/helper/block.py
      BlockParser._all_pair            :111   (table: Tranp/Generated/BlockPairs.lean, written by translate/gen_block_pairs.py)
      BlockParser.parse                :113-124
      BlockParser._parse               :126-154
      BlockParser._analyze_entry       :156-195
      BlockParser._skip_other_block    :197-226
      BlockParser._parse_block         :228-252
      BlockParser.parse_bracket        :254-271
      BlockParser.parse_pair           :273-287
      BlockParser.break_last_block     :314-343
      BlockParser.break_separator      :345-374
    rogw/tranp/view/helper/decorator.py
      DecoratorHelper._parse           :20-44
    rogw/tranp/implements/cpp/view/cpp_view_helper.py
      CppViewHelper.Param.parse        :42-65
    rogw/tranp/implements/cpp/transpiler/py2cpp.py   (the production callers named in the property's anchors)
      Py2Cpp.on_throw                  :748-759   throw argument splitting
      Py2Cpp.on_dict_comp              :1381-1388 dict-comprehension projection splitting
      Py2Cpp.is_initializer_call       :693-698   "the whole right-hand side is a constructor call of the type"
      PatternParser.pluck_func_call_arguments :1790-1804 (used by proc_for_enumerate :513 and the comp templates),
        .break_indexer :1855-1869, .pluck_cvar_new :1871-1885
      (Py2Cpp.proc_for_range split `range(a, b)` with these helpers until /repo ed1a7d7, which takes the arguments from the
       syntax tree instead; `splitCallArguments` below keeps that former composition as a statement about the helpers only)
    rogw/tranp/view/helper/decorator.py
      DecoratorHelper.any / any_args   :96-104, 116-124;  DecoratorQuery.any / any_args / contains :189-197, 209-217, 229-241
  (tree after the four C18 repairs 3111a97, d6d867d, eb33d21, f350973)

  Conventions: Python `str` = `Str` = `List Char`; `text[b:e]` = `slice`; every Python exception that the code can raise on
  `str` arguments is an explicit `Except.error` (`IndexError`; `ValueError` for `str.index`); `while` loops whose index jumps
  (`index = _skip_other_block(...)`) are recursions on a fuel argument, `Err.Fuel` is the "loop did not finish" result and is
  shown never to occur (Lemmas/Block.lean, and checked by the correspondence streams).
  Imports nothing but `Tranp.Str` and the generated table.
-/
import Tranp.Str
import Tranp.Generated.BlockPairs

namespace Tranp.Block
open Tranp Tranp.Generated.BlockPairs

/-! ## errors and small string helpers -/

inductive Err
  | IndexError
  | ValueError
  /-- model artefact: recursion fuel exhausted (never produced, see `*_fuel` lemmas) -/
  | Fuel
  deriving DecidableEq, Repr

deriving instance DecidableEq for Except

def Err.toString : Err → String
  | .IndexError => "IndexError"
  | .ValueError => "ValueError"
  | .Fuel => "model-fuel-exhausted"

/-- `s[i]` (non-negative `i`): `IndexError` when out of range. -/
def charAt (s : Str) (i : Nat) : Except Err Char :=
  match s[i]? with
  | some c => .ok c
  | none => .error .IndexError

/-- `s[b:e]` for non-negative `b`, `e` (empty when `e ≤ b`, clamped at the end). -/
def slice (s : Str) (b e : Nat) : Str := (s.take e).drop b

/-- `s.strip(' ')`. -/
def strip (s : Str) : Str := Str.stripBy (fun c => c = ' ') s

/-- `c in s` for a one-character `c`. -/
def has (s : Str) (c : Char) : Bool := s.contains c

/-! ## the token table

`other_tokens` is always a concatenation of two-character pairs; the Python looks a character up with
`other_tokens.find(c)`, tests `other_index % 2 == 0` and reads `other_tokens[other_index + 1]` (block.py:212-216).
On a list of pairs that is: the first pair that contains `c` decides — `c` equal to its first character is an
opener (with that pair's second character as the closer to push), otherwise `c` is a closer. -/

inductive Tok
  | none
  | opener (close : Char)
  | closer
  deriving DecidableEq, Repr

def classify : List (Char × Char) → Char → Tok
  | [], _ => .none
  | (o, cl) :: ps, c => if c = o then .opener cl else if c = cl then .closer else classify ps c

/-- `''.join(pairs)` as a character list (for `in` tests the pair list itself is used through `classify`). -/
def tokChars (ps : List (Char × Char)) : Str := ps.flatMap fun p => [p.1, p.2]

/-- `[pair for pair in cls._all_pair if pair != brackets]` (block.py:179). -/
def otherPairs (brackets : Str) : List (Char × Char) := allPairs.filter fun p => [p.1, p.2] ≠ brackets

/-- `''.join([pair[0] for pair in cls._all_pair])` (block.py:352). -/
def openTokens : Str := allPairs.map (·.1)

/-! ## `_skip_other_block` (block.py:197-223) -/

/-- `other_closes[-1] in '"\''` (block.py:215): the two quote characters are written out in the code, not taken from the table. -/
def isQuoteChar (c : Char) : Bool := has ['"', '\''] c

/-- One iteration's effect on `other_closes` (top of the Python list = head here), block.py:211-219. -/
def skipStep (toks : List (Char × Char)) (st : List Char) (c : Char) : List Char :=
  match classify toks c with
  | .none => st                                   -- `if text[index] in other_tokens` is false
  | k =>
    if st.head? = some c then st.tail             -- `len(other_closes) > 0 and other_closes[-1] == other_tokens[other_index]` → pop
    else if (st.head?.map isQuoteChar).getD false then st   -- inside a string: `elif len(other_closes) > 0 and other_closes[-1] in '"\''` → pass
    else match k with
      | .opener cl => cl :: st                    -- `elif other_index % 2 == 0` → append(other_tokens[other_index + 1])
      | _ => st

/-- Number of characters the loop of `_skip_other_block` consumes from the suffix `s` when it is entered with the closer
    stack `st` (`st = []` at the call). block.py:210-221: process one character, `index += 1`, stop when the stack is empty. -/
def skipLen (toks : List (Char × Char)) : List Char → Str → Nat
  | _, [] => 0
  | st, c :: cs =>
    let st' := skipStep toks st c
    if st'.isEmpty then 1 else 1 + skipLen toks st' cs

/-- `_skip_other_block(text, other_tokens, begin)`: the returned index. -/
def skipOther (toks : List (Char × Char)) (text : Str) (begin : Nat) : Nat :=
  begin + skipLen toks [] (text.drop begin)

/-! ## `break_separator` (block.py:342-371) -/

/-- The `while index < len(text)` loop; `s` is always `text[index:]`. -/
def sepLoop (text d : Str) : Nat → Str → Nat → Nat → List Str → Except Err (List Str)
  | 0, _, _, _, _ => .error .Fuel
  | _ + 1, [], index, begin, blocks =>
    -- block.py:368-371
    .ok (if begin < index then blocks ++ [strip (slice text begin index)] else blocks)
  | fuel + 1, c :: cs, index, begin, blocks =>
    if has openTokens c then
      -- block.py:358-360
      let n := skipLen allPairs [] (c :: cs)
      sepLoop text d fuel ((c :: cs).drop n) (index + n) begin blocks
    else
      match d with
      | [] => .error .IndexError                  -- `delimiter[0]`
      | d0 :: _ =>
        -- block.py:362-366
        if c = d0 ∧ index + d.length < text.length ∧ Str.startsWith (c :: cs) d then
          sepLoop text d fuel cs (index + 1) (index + d.length) (blocks ++ [strip (slice text begin index)])
        else
          sepLoop text d fuel cs (index + 1) begin blocks

/-- `BlockParser.break_separator(text, delimiter)`. -/
def breakSeparator (text d : Str) : Except Err (List Str) :=
  sepLoop text d (text.length + 1) text 0 0 []

/-! ## `break_last_block` (block.py:311-340) -/

/-- The loop at block.py:325-337 with `brackets[0] = o`, `brackets[1] = cl`; returns `ranges`. -/
def lastLoop (o cl : Char) : Str → Nat → Nat → Nat → List (Nat × Nat) → List (Nat × Nat)
  | [], _, _, _, ranges => ranges
  | c :: cs, index, begin, stack, ranges =>
    if c = o ∧ stack = 0 then lastLoop o cl cs (index + 1) (index + 1) (stack + 1) ranges
    else if c = o ∧ stack > 0 then lastLoop o cl cs (index + 1) begin (stack + 1) ranges
    else if c = cl ∧ stack = 1 then lastLoop o cl cs (index + 1) begin (stack - 1) (ranges ++ [(begin, index)])
    else if c = cl ∧ stack > 1 then lastLoop o cl cs (index + 1) begin (stack - 1) ranges
    else lastLoop o cl cs (index + 1) begin stack ranges

/-- `BlockParser.break_last_block(text, brackets)`.
    `brackets[0]`/`brackets[1]` are evaluated inside the loop only; with fewer than two characters every input still ends
    in `IndexError`: an empty `brackets` fails at the first character or (empty text) at `ranges[-1]`; a one-character
    `brackets` fails at the first text character different from it (`brackets[1]`), and a text made of that character
    alone never closes a range, so `ranges[-1]` fails. -/
def breakLastBlock (text brackets : Str) : Except Err (Str × Str) :=
  match brackets with
  | o :: cl :: _ =>
    match (lastLoop o cl text 0 0 0 []).getLast? with
    | none => .error .IndexError                  -- `ranges[-1]` on an empty list
    | some (lastBegin, lastEnd) => .ok (slice text 0 (lastBegin - 1), slice text lastBegin lastEnd)
  | _ => .error .IndexError

/-! ## `_analyze_entry`, `_parse`, `_parse_block`, `parse` (block.py:113-249) -/

inductive Kinds
  | Element | Block | End
  deriving DecidableEq, Repr

/-- Result of `_analyze_entry`: (kind, entry begin, block begin / element end); `End` carries only the position. -/
inductive Ana
  | block (entryBegin index : Nat)
  | element (entryBegin index : Nat)
  | fin (index : Nat)
  deriving DecidableEq, Repr

/-- The scan loop block.py:180-195; `s = text[index:]`. -/
def anaLoop (b0 : Char) (endTokens : Str) (other : List (Char × Char)) : Nat → Str → Nat → Nat → Except Err Ana
  | 0, _, _, _ => .error .Fuel
  | _ + 1, [], index, _ => .ok (.fin index)
  | fuel + 1, c :: cs, index, entryBegin =>
    if classify other c ≠ .none then
      let n := skipLen other [] (c :: cs)
      anaLoop b0 endTokens other fuel ((c :: cs).drop n) (index + n) entryBegin
    else if c = b0 then .ok (.block entryBegin index)
    else if has endTokens c then .ok (.element entryBegin index)
    else anaLoop b0 endTokens other fuel cs (index + 1) (if has [' ', '\n', '\t'] c then index + 1 else entryBegin)

/-- `_analyze_entry(text, brackets, delimiter, begin)`. -/
def analyzeEntry (text brackets delimiter : Str) (begin : Nat) : Except Err Ana := do
  let c ← charAt text begin
  let b0 ← charAt brackets 0
  if c = b0 then return .block begin begin
  let b1 ← charAt brackets 1
  if c = b1 then return .fin begin
  let index := if has delimiter c then begin + 1 else begin
  anaLoop b0 (brackets ++ delimiter) (otherPairs brackets) (text.length + 1) (text.drop index) index index

inductive Entry
  | mk (begin end_ depth : Nat) (kind : Kinds) (entries : List Entry)

namespace Entry
def begin : Entry → Nat | mk b _ _ _ _ => b
def end_ : Entry → Nat | mk _ e _ _ _ => e
def depth : Entry → Nat | mk _ _ d _ _ => d
def kind : Entry → Kinds | mk _ _ _ k _ => k
def entries : Entry → List Entry | mk _ _ _ _ es => es
/-- `Entry.unders` (block.py:32-42): the entries and *their* entries — two levels, not a full walk. -/
def unders (e : Entry) : List Entry := e.entries.flatMap fun x => x :: x.entries
end Entry

mutual
/-- The loop of `_parse` (block.py:141-154). -/
def parseLoop (text brackets delimiter : Str) : Nat → Nat → Nat → List Entry → Except Err (Nat × List Entry)
  | 0, _, _, _ => .error .Fuel
  | fuel + 1, index, depth, entries =>
    if index < text.length then do
      match ← analyzeEntry text brackets delimiter index with
      | .block entryBegin indexForKind =>
        let (end_, inEntries) ← blockLoop text brackets delimiter fuel (indexForKind + 1) depth []
        parseLoop text brackets delimiter fuel end_ depth (entries ++ [Entry.mk entryBegin end_ depth .Block inEntries])
      | .element entryBegin indexForKind =>
        parseLoop text brackets delimiter fuel indexForKind depth (entries ++ [Entry.mk entryBegin indexForKind depth .Element []])
      | .fin i => .ok (i, entries)
    else .ok (index, entries)
/-- The loop of `_parse_block` (block.py:240-249). -/
def blockLoop (text brackets delimiter : Str) : Nat → Nat → Nat → List Entry → Except Err (Nat × List Entry)
  | 0, _, _, _ => .error .Fuel
  | fuel + 1, index, depth, entries =>
    if index < text.length then do
      let c ← charAt text index
      let b1 ← charAt brackets 1
      if c = b1 then .ok (index + 1, entries)
      else
        let (inProgress, inEntries) ← parseLoop text brackets delimiter fuel index (depth + 1) []
        blockLoop text brackets delimiter fuel inProgress depth (entries ++ inEntries)
    else .ok (index, entries)
end

/-- Every loop iteration either ends its loop or moves the index forward, so `2·len + 4` nested iterations suffice;
    the model takes twice that. -/
def parseFuel (text : Str) : Nat := 4 * text.length + 16

/-- `BlockParser.parse(text, brackets, delimiter)`: `cls._parse(text, brackets, delimiter, 0, 0)[1][0]`. -/
def parse (text brackets delimiter : Str) : Except Err Entry := do
  let (_, entries) ← parseLoop text brackets delimiter (parseFuel text) 0 0 []
  match entries with
  | e :: _ => .ok e
  | [] => .error .IndexError

/-- `text.index(sub, start)`: `ValueError` when `sub` does not occur at or behind `start`. -/
def indexFrom (text sub : Str) (start : Nat) : Except Err Nat :=
  match Str.find (text.drop start) sub with
  | some i => .ok (i + start)
  | none => .error .ValueError

/-- `text[-1:e]` (the slice the Python takes when `_analyze_entry` answers `End`, whose third component is -1). -/
def sliceLast (text : Str) (e : Nat) : Str :=
  if text = [] then [] else slice text (text.length - 1) e

/-- The loop body of `parse_bracket` (block.py:267-269): the block's bracket position is the third component of
    `_analyze_entry(text, brackets, '', entry.begin)` (-1 for `End`, hence `text[-1:end]`). -/
def bracketStep (text brackets : Str) (blocks : List Str) (e : Entry) : Except Err (List Str) :=
  if e.kind = .Block then
    (analyzeEntry text brackets [] e.begin).bind fun a =>
      match a with
      | .block _ blockBegin => .ok (blocks ++ [slice text blockBegin e.end_])
      | .element _ blockBegin => .ok (blocks ++ [slice text blockBegin e.end_])
      | .fin _ => .ok (blocks ++ [sliceLast text e.end_])
  else .ok blocks

/-- `BlockParser.parse_bracket(text, brackets)` (block.py:264-271). -/
def parseBracket (text brackets : Str) : Except Err (List Str) :=
  (parse text brackets []).bind fun root => (root :: root.unders).foldlM (bracketStep text brackets) []

/-- insertion used by `sortByDepth`: the new element goes *before* the elements with an equal key. -/
def insertByDepth (e : Entry) : List Entry → List Entry
  | [] => [e]
  | x :: xs => if e.depth ≤ x.depth then e :: x :: xs else x :: insertByDepth e xs

/-- `sorted(..., key=lambda entry: entry.depth)` — stable: inserting from the right keeps equal keys in input order. -/
def sortByDepth (es : List Entry) : List Entry := es.foldr insertByDepth []

/-- `[(unders[i*2], unders[i*2+1]) for i in range(int(len(unders)/2)) if same depth]`. -/
def pairUp : List Entry → List (Entry × Entry)
  | a :: b :: rest => if a.depth = b.depth then (a, b) :: pairUp rest else pairUp rest
  | _ => []

/-- `BlockParser.parse_pair(text, brackets, delimiter)` (block.py:281-284). -/
def parsePair (text brackets delimiter : Str) : Except Err (List (Str × Str)) := do
  let root ← parse text brackets delimiter
  let unders := sortByDepth root.unders
  .ok ((pairUp unders).map fun kv => (slice text kv.1.begin kv.1.end_, slice text kv.2.begin kv.2.end_))

/-! ## `DecoratorHelper._parse` (decorator.py:20-42) -/

/-- `dict.__setitem__` on an insertion-ordered dict: an existing key keeps its position, the value is overwritten. -/
def dictSet (m : List (Str × Str)) (k v : Str) : List (Str × Str) :=
  if m.any (·.1 = k) then m.map (fun kv => if kv.1 = k then (k, v) else kv) else m ++ [(k, v)]

/-- The body of the `for index, arg in enumerate(...)` loop (decorator.py:36-42): the (key, value) it stores.
    A label is recognised only at a *top-level* `=` (`break_separator(arg, '=')` has more than one piece); key and value are
    sliced from `arg` at the first `=` behind the first piece. -/
def decoKV (index : Nat) (arg : Str) : Except Err (Str × Str) :=
  (breakSeparator arg ['=']).bind fun labelValue =>
  match labelValue with
  | first :: _ :: _ =>
    (indexFrom arg first 0).bind fun at0 =>
    (indexFrom arg ['='] (at0 + first.length)).bind fun assignAt =>
    .ok (slice arg 0 assignAt, arg.drop (assignAt + 1))
  | _ => .ok (Str.natToDec index, arg)

def decoArgsFrom : Nat → List Str → List (Str × Str) → Except Err (List (Str × Str))
  | _, [], m => .ok m
  | i, a :: as, m => (decoKV i a).bind fun kv => decoArgsFrom (i + 1) as (dictSet m kv.1 kv.2)

def decoArgs (pieces : List Str) : Except Err (List (Str × Str)) := decoArgsFrom 0 pieces []

/-- `DecoratorHelper._parse(decorator)` → (path, args, join_args). -/
def decoParse (decorator : Str) : Except Err (Str × List (Str × Str) × Str) :=
  match Str.find decorator ['('] with
  | none => .ok (decorator, [], [])
  | some argsBegin =>
    let path := slice decorator 0 argsBegin
    let joinArgs := slice decorator (argsBegin + 1) (decorator.length - 1)
    (breakSeparator joinArgs [',']).bind fun pieces =>
    (decoArgs pieces).bind fun args =>
    .ok (path, args, joinArgs)

/-! ## `CppViewHelper.Param.parse` (cpp_view_helper.py:56-61) -/

/-- `param, default_value` (cpp_view_helper.py:56-61): the first piece and everything behind the first top-level `=`. -/
def paramSplit (parameter : Str) : List Str → Except Err (Str × Str)
  | p :: _ :: _ => do
    let at0 ← indexFrom parameter p 0
    let assignAt ← indexFrom parameter ['='] (at0 + p.length)
    .ok (p, strip (parameter.drop (assignAt + 1)))
  | [p] => .ok (p, [])
  | [] => .error .IndexError                       -- `param_default[0]`

/-- `type_symbol.pop()` and `' '.join(type_symbol)` (cpp_view_helper.py:62-65). -/
def paramFinish (typeSymbol : List Str) (defaultValue : Str) : Except Err (Str × Str × Str) :=
  match typeSymbol.getLast? with
  | none => .error .IndexError                     -- `type_symbol.pop()` on an empty list
  | some symbol => .ok (Str.join [' '] typeSymbol.dropLast, symbol, defaultValue)

/-- → (var_type, symbol, default_value). -/
def paramParse (parameter : Str) : Except Err (Str × Str × Str) :=
  (breakSeparator parameter ['=']).bind fun paramDefault =>
  (paramSplit parameter paramDefault).bind fun pd =>
  (breakSeparator pd.1 [' ']).bind fun typeSymbol =>
  paramFinish typeSymbol pd.2

/-! ## The production callers in py2cpp.py -/

/-- `PatternParser.pluck_func_call_arguments(func_call)`: `break_last_block(func_call, '()')[1]`. -/
def pluckFuncCallArguments (funcCall : Str) : Except Err Str :=
  (breakLastBlock funcCall ['(', ')']).bind fun r => .ok r.2

/-- `PatternParser.break_indexer(indexer)`: `break_last_block(indexer, '[]')`. -/
def breakIndexer (indexer : Str) : Except Err (Str × Str) := breakLastBlock indexer ['[', ']']

/-- `PatternParser.pluck_cvar_new(argument)`: `break_last_block(argument, '()')`. -/
def pluckCvarNew (argument : Str) : Except Err (Str × Str) := breakLastBlock argument ['(', ')']

/-- NOT a production call site any more. Until /repo ed1a7d7 `Py2Cpp.proc_for_range` computed (begin, size, step) as
    `break_separator(pluck_func_call_arguments(for_in), ',')` with tuple unpacking (`ValueError` for another number of
    pieces); the fix takes the arguments from the syntax tree because a `<` inside an argument (`a << 1`, `a < b`) opens a
    `<>` block for the scanner and swallows the commas. The composition is kept as a definition about the two helpers:
    `splitCallArguments 'f(a, b)' 2 = ('a', 'b', '1')`; `argsNum` is the number of arguments expected. -/
def splitCallArguments (callText : Str) (argsNum : Nat) : Except Err (Str × Str × Str) :=
  (pluckFuncCallArguments callText).bind fun joinArgs =>
  if argsNum = 1 then .ok (['0'], joinArgs, ['1'])
  else (breakSeparator joinArgs [',']).bind fun pieces =>
    if argsNum = 2 then
      match pieces with
      | [b, s] => .ok (b, s, ['1'])
      | _ => .error .ValueError
    else
      match pieces with
      | [b, s, st] => .ok (b, s, st)
      | _ => .error .ValueError

/-- `Py2Cpp.is_initializer_call(value, var_type)` (py2cpp.py:693-698): `value` starts with `var_type(`, ends with `)` and the
    prefix of its last parenthesis group is `var_type` (`A(1).dup()` is not an initializer call). -/
def isInitializerCall (value varType : Str) : Except Err Bool :=
  if !(Str.startsWith value (varType ++ ['('])) || !(Str.endsWith value [')']) then .ok false
  else (breakLastBlock value ['(', ')']).bind fun r => .ok (decide (r.1 = varType))

/-- `Py2Cpp.on_throw` for a call (py2cpp.py:743-747): `calls = throws[:end_calls]` and the argument pieces of
    `throws[end_calls + 1:-1]` (`find` = -1 when there is no `(`: both slices then run to the last character). -/
def throwParts (throws : Str) : Except Err (Str × List Str) :=
  match Str.find throws ['('] with
  | none => (breakSeparator throws.dropLast [',']).bind fun args => .ok (throws.dropLast, args)
  | some endCalls =>
    (breakSeparator (slice throws (endCalls + 1) (throws.length - 1)) [',']).bind fun args =>
      .ok (slice throws 0 endCalls, args)

/-- `Py2Cpp.on_dict_comp` (py2cpp.py:1377): `projection_key, projection_value = break_separator(projection[1:-1], ',')`. -/
def dictCompProjection (projection : Str) : Except Err (Str × Str) :=
  (breakSeparator (slice projection 1 (projection.length - 1)) [',']).bind fun pieces =>
    match pieces with
    | [k, v] => .ok (k, v)
    | _ => .error .ValueError

/-! ## The query API of `DecoratorHelper` / `DecoratorQuery` (the parts without regular expressions) -/

/-- The text in front of the first `(` (the whole text when there is none): `decorator[:args_begin]`. -/
def pathOf (decorator : Str) : Str :=
  match Str.find decorator ['('] with
  | none => decorator
  | some i => slice decorator 0 i

/-- `DecoratorHelper.path` (lazy `_parse`; an empty path is re-parsed on every access, which gives the same value). -/
def decoPath (decorator : Str) : Except Err Str := (decoParse decorator).bind fun r => .ok r.1
/-- `DecoratorHelper.join_args`. -/
def decoJoinArgs (decorator : Str) : Except Err Str := (decoParse decorator).bind fun r => .ok r.2.2
/-- `DecoratorHelper.any(*paths)`: `self.path in paths`. -/
def decoAny (decorator : Str) (paths : List Str) : Except Err Bool :=
  (decoPath decorator).bind fun p => .ok (paths.contains p)
/-- `DecoratorHelper.any_args(subject)`: `self.join_args.find(subject) != -1`. -/
def decoAnyArgs (decorator subject : Str) : Except Err Bool :=
  (decoJoinArgs decorator).bind fun a => .ok (Str.find a subject).isSome
/-- `DecoratorQuery.any(*path)`: the decorators whose path is one of `paths`, in order (the list comprehension evaluates
    `helper.any` decorator by decorator). -/
def queryAny : List Str → List Str → Except Err (List Str)
  | [], _ => .ok []
  | d :: ds, paths => (decoAny d paths).bind fun b => (queryAny ds paths).bind fun r => .ok (if b then d :: r else r)
/-- `DecoratorQuery.any_args(subject)`. -/
def queryAnyArgs : List Str → Str → Except Err (List Str)
  | [], _ => .ok []
  | d :: ds, subject => (decoAnyArgs d subject).bind fun b => (queryAnyArgs ds subject).bind fun r => .ok (if b then d :: r else r)
/-- `DecoratorQuery.contains(*path)`: stops at the first hit (later decorators are not parsed). -/
def queryContains : List Str → List Str → Except Err Bool
  | [], _ => .ok false
  | d :: ds, paths => (decoAny d paths).bind fun b => if b then .ok true else queryContains ds paths

/-! ## The fragment grammar -/

/-- The four bracket kinds of `_all_pair`. -/
inductive BK
  | sq | par | cur | ang
  deriving DecidableEq, Repr

def BK.open : BK → Char
  | .sq => '[' | .par => '(' | .cur => '{' | .ang => '<'
def BK.close : BK → Char
  | .sq => ']' | .par => ')' | .cur => '}' | .ang => '>'

/-- The two quote kinds of `_all_pair`. -/
inductive QK
  | dq | sq
  deriving DecidableEq, Repr

def QK.ch : QK → Char
  | .dq => '"' | .sq => '\''

/-- Bracket-balanced fragments: a sequence of items — a plain character (identifier/number characters, blanks and the
    delimiters `, : =` are all "atoms"), a quoted string, or a bracket group with a fragment inside — nested arbitrarily. -/
inductive Frag
  | nil
  | atom (c : Char) (rest : Frag)
  | str (q : QK) (body : Str) (rest : Frag)
  | group (k : BK) (inner : Frag) (rest : Frag)
  deriving DecidableEq, Repr

namespace Frag

def render : Frag → Str
  | nil => []
  | atom c r => c :: render r
  | str q b r => q.ch :: (b ++ q.ch :: render r)
  | group k i r => k.open :: (render i ++ k.close :: render r)

/-- top-level concatenation -/
def append : Frag → Frag → Frag
  | nil, g => g
  | atom c r, g => atom c (append r g)
  | str q b r, g => str q b (append r g)
  | group k i r, g => group k i (append r g)

instance : Append Frag := ⟨append⟩

/-- `f₁ d f₂ d … fₙ` with the delimiter as a top-level atom. -/
def join (d : Char) : List Frag → Frag
  | [] => nil
  | [f] => f
  | f :: g :: fs => f ++ atom d (join d (g :: fs))

/-- All characters of `_all_pair`. -/
def special : Str := tokChars allPairs

/-- Well-formedness with a condition `p` on the characters of string bodies: atoms are never bracket/quote characters,
    a string body never contains its own quote ("simple quoted string") and satisfies `p`. -/
def wf (p : Char → Bool) : Frag → Bool
  | nil => true
  | atom c r => !has special c && wf p r
  | str q b r => b.all (fun c => c != q.ch && p c) && wf p r
  | group _ i r => wf p i && wf p r

/-- String bodies contain no bracket and no quote character (they may contain delimiters and blanks). -/
def Clean (f : Frag) : Prop := wf (fun c => !has special c) f = true

/-- Arbitrary simple quoted strings (brackets and the other quote kind allowed inside). -/
def Simple (f : Frag) : Prop := wf (fun _ => true) f = true

/-- String bodies do not contain the brackets of kind `k` (other brackets and quotes allowed). -/
def CleanFor (k : BK) (f : Frag) : Prop := wf (fun c => c != k.open && c != k.close) f = true

instance (f : Frag) : Decidable (Clean f) := by unfold Clean; infer_instance
instance (f : Frag) : Decidable (Simple f) := by unfold Simple; infer_instance
instance (k : BK) (f : Frag) : Decidable (CleanFor k f) := by unfold CleanFor; infer_instance

/-- No top-level atom equal to `d`. -/
def noTop (d : Char) : Frag → Bool
  | nil => true
  | atom c r => c != d && noTop d r
  | str _ _ r => noTop d r
  | group _ _ r => noTop d r

/-- The fragments between the top-level occurrences of the delimiter `d`, with the boundary rule of
    `break_separator`: a delimiter in the very last position is not a cut. Always at least one fragment. -/
def topSplit (d : Char) : Frag → List Frag
  | nil => [nil]
  | atom c r =>
    if c = d ∧ r ≠ nil then nil :: topSplit d r
    else match topSplit d r with
      | p :: ps => atom c p :: ps
      | [] => [atom c nil]
  | str q b r =>
    match topSplit d r with
    | p :: ps => str q b p :: ps
    | [] => [str q b nil]
  | group k i r =>
    match topSplit d r with
    | p :: ps => group k i p :: ps
    | [] => [group k i nil]

end Frag

/-- What `break_separator(render f, d)` has to return: the top-level pieces, each stripped of surrounding blanks;
    the empty fragment gives no piece at all (block.py:368), an empty *first* piece is kept. -/
def sepSpec (d : Char) (f : Frag) : List Str :=
  if f = .nil then [] else (f.topSplit d).map fun p => strip p.render

end Tranp.Block
