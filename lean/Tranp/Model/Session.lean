/-
  Tranp.Model.Session — executable model of one long-lived tranp process (property C04).

  Modelled code (rog-works/tranp):
    rogw/tranp/module/modules.py              Modules.load / __load_libraries / __load_dependencies / unload   (:58-121)
    rogw/tranp/providers/module.py            ModuleLoader.load / unload / preprocess                          (:65-95)
    rogw/tranp/syntax/ast/entrypoints.py      Entrypoints.load / unload                                        (:50-71)
    rogw/tranp/providers/syntax/entrypoints.py  entrypoint_loader: one DI container per module → one Nodes / NodeResolver
                                              per module, so all node memo tables live and die with the entrypoint
    rogw/tranp/implements/syntax/lark/parser.py  __load_entry: in-memory modules parsed every time, on-disk modules through
                                              CacheProvider.__instances (cache/cache.py:227-236)
    rogw/tranp/syntax/node/{resolver,query,node}.py + cache/memo2.py   __insts / __memo / _memo: memo tables of pure
                                              functions of the module's tree (`Ep.memo`)
    rogw/tranp/semantics/reflection/db.py     SymbolDB: __setitem__ / items / has_module / completed / on_complete /
                                              unload / import_json (keys are strings `module#local`, tagged by ModuleDSN.parsed)
    rogw/tranp/dsn/module.py, dsn/dsn.py      ModuleDSN.full_joined / parsed, DSN.join
    rogw/tranp/semantics/processors/*.py      RestoreSymbols, ExpandModules, SymbolExtends/ResolveUnknown, StoreSymbols
    rogw/tranp/semantics/reflection/persistent.py  SymbolDBPersistor.stored / store / restore (symbol files written and read
                                              back inside the same session)
    rogw/tranp/implements/cpp/transpiler/py2cpp.py  transpile: __stack_on_depends push / pop without try-finally (:139-151)
    rogw/tranp/semantics/procedure.py         Procedure.exec: __stacks push / pop without try-finally (:55-70)
    rogw/tranp/bin/transpile.py               Runner._run_impl (:303-310), Interactive.rebuild_module (:433-443)

  The language-dependent, pure part (parsing, the node-level functions, what ExpandModules inserts, what the
  renderer emits) is a parameter `Lang`; the theorems of Props/C04.lean hold for every `Lang`.
  `Desc`/`descLang` at the end is the concrete instance used by the driver and by the counterexample theorems.
-/
import Tranp.Str

namespace Tranp.Session
open Tranp

abbrev ModPath := Str
abbrev Key := Str

/-- Exceptions (same enum as `harness.common.exc_enum`). -/
inductive Err where
  | syntax            -- Errors.Syntax (on-disk module rejected by lark)
  | lark              -- raw lark exception (unused since repo fix 12dd004: in-memory parse errors are wrapped)
  | fileNotFound      -- FileNotFoundError from the source loader (unused since 12dd004: wrapped by the same handler)
  | symbolNotDefined  -- Errors.SymbolNotDefined
  | never             -- Errors.Never ('Already processing', restore_symbols.py:33-34)
  | unresolvedSymbol  -- Errors.UnresolvedSymbol (render time)
  | fatal             -- Errors.Fatal (render time)
  | loadFatal         -- Errors.Fatal (load time: a non-tranp exception inside Modules.load, modules.py:89-91)
  | recursion         -- RecursionError (model fuel exhausted)
  | other
deriving DecidableEq, Repr

def Err.toString : Err → String
  | .syntax => "Errors.Syntax"
  | .lark => "Other:lark"
  | .fileNotFound => "Other:builtins.FileNotFoundError"
  | .symbolNotDefined => "Errors.SymbolNotDefined"
  | .never => "Errors.Never"
  | .unresolvedSymbol => "Errors.UnresolvedSymbol"
  | .fatal => "Errors.Fatal"
  | .loadFatal => "Errors.Fatal"
  | .recursion => "RecursionError"
  | .other => "Other"

instance exceptDecEq {ε α : Type} [DecidableEq ε] [DecidableEq α] : DecidableEq (Except ε α) := fun a b =>
  match a, b with
  | .ok x, .ok y => if h : x = y then isTrue (by rw [h]) else isFalse (by intro e; cases e; exact h rfl)
  | .error x, .error y => if h : x = y then isTrue (by rw [h]) else isFalse (by intro e; cases e; exact h rfl)
  | .ok _, .error _ => isFalse (by intro e; cases e)
  | .error _, .ok _ => isFalse (by intro e; cases e)

/-! ## association lists (Python dicts with insertion order) -/

section Assoc
variable {K V : Type} [DecidableEq K]

/-- `d.get(k)` -/
def alookup : List (K × V) → K → Option V
  | [], _ => none
  | (k', v) :: rest, k => if k' = k then some v else alookup rest k

/-- `k in d` -/
def ahas (d : List (K × V)) (k : K) : Bool := (alookup d k).isSome

/-- `d[k] = v`: overwrite in place, else append -/
def aset : List (K × V) → K → V → List (K × V)
  | [], k, v => [(k, v)]
  | (k', v') :: rest, k, v => if k' = k then (k', v) :: rest else (k', v') :: aset rest k v

/-- `del d[k]` (no-op when absent) -/
def aerase (d : List (K × V)) (k : K) : List (K × V) := d.filter (fun kv => kv.1 ≠ k)

/-- `if k not in d: d[k] = v` -/
def aadd (d : List (K × V)) (k : K) (v : V) : List (K × V) := if ahas d k then d else d ++ [(k, v)]

def aaddAll (d : List (K × V)) (rows : List (K × V)) : List (K × V) := rows.foldl (fun d kv => aadd d kv.1 kv.2) d

/-- `if x not in xs: xs.append(x)` -/
def addIfAbsent (xs : List K) (x : K) : List K := if x ∈ xs then xs else xs ++ [x]

end Assoc

/-! ## ModuleDSN (dsn/module.py, dsn/dsn.py) -/

/-- `DSN.join(*parts, delimiter=d)`: empty parts are dropped (dsn.py:29-38) -/
def dsnJoin (d : Char) (parts : List Str) : Str := Str.join [d] (parts.filter (fun p => p ≠ []))

/-- `ModuleDSN.full_joined(dsn, elem)` (module.py:33-51) -/
def fullJoined (dsn elem : Str) : Key :=
  if '#' ∈ dsn then dsnJoin '.' [dsn, elem] else dsnJoin '#' [dsn, dsnJoin '.' [elem]]

/-- `ModuleDSN.parsed(key)[0]` (module.py:90-99): the text before the first `#` -/
def modOf (k : Key) : ModPath :=
  match Str.splitOn '#' k with
  | p :: _ => p
  | [] => []

/-! ## the pure, language-dependent part -/

/-- What the session machine needs to know about the language.
    `NV` = value of a node-level pure function (class of a path, fullyname, children …), `V` = a symbol. -/
structure Lang (Src Tree NV V Text : Type) where
  /-- lark: `none` = rejected -/
  parse : Src → Option Tree
  /-- `entrypoint.imports` → `import_path.tokens`, in source order -/
  imports : Tree → List ModPath
  /-- the node-level functions that NodeResolver / Nodes / Node memoise -/
  query : Tree → Str → NV
  /-- the queries a pass over the module asks (they end up in the memo tables) -/
  trace : Tree → List Str
  /-- ExpandModules for module `m`: sees the module only through the (memoised) node functions and the symbol table
      only through lookups; returns the local names it inserts, in order, and the error that stopped it -/
  expand : ModPath → (Str → NV) → (Key → Option V) → List (Str × V) × Option Err
  /-- SymbolExtends + ResolveUnknown: attach the lazily evaluated attributes to a symbol of the module -/
  extend : V → V
  /-- Py2Cpp over the module: result, the entries left on the top dependency frame and the partial results left on the
      top procedure frame when it fails -/
  render : ModPath → (Str → NV) → (Key → Option V) → Except Err Text × List Str × List Text

/-- static part of a process: the files on disk, the library path list, the in-memory module's name -/
structure Env (Src : Type) where
  disk : ModPath → Option Src
  libs : List ModPath
  main : ModPath

/-- one loaded entrypoint: the tree it was built from and its node memo tables -/
structure Ep (Tree NV : Type) where
  tree : Tree
  memo : List (Str × NV)

structure State (Src Tree NV V Text : Type) where
  /-- `WrapSourceProvider.source_code` -/
  mainSrc : Src
  /-- `Modules.__modules` (keys, insertion order) -/
  mods : List ModPath := []
  /-- `Entrypoints.__entrypoints` -/
  eps : List (ModPath × Ep Tree NV) := []
  /-- `CacheProvider.__instances`: in-process AST cache of on-disk modules -/
  ast : List (ModPath × Tree) := []
  /-- `SymbolDB.__items` (`__paths` is `modOf` of the key) -/
  db : List (Key × V) := []
  /-- `SymbolDB.__completed` -/
  completed : List ModPath := []
  /-- symbol files written by StoreSymbols during this session (private cache directory, empty at start) -/
  stored : List (ModPath × List (Key × V)) := []
  /-- modules whose imports have all been loaded: `Module.depends_on` was called (modules.py:112-113, module.py:62-68) -/
  ident : List ModPath := []
  /-- `Py2Cpp.__stack_on_depends` -/
  deps : List (List Str) := []
  /-- `Procedure.__stacks` -/
  proc : List (List Text) := []

inductive Op (Src : Type) where
  | load (m : ModPath)
  | transpile (m : ModPath)
  | unload (m : ModPath)
  /-- Interactive: new source for the in-memory module, rebuild, transpile -/
  | resubmit (src : Src)

section Machine
variable {Src Tree NV V Text : Type} (L : Lang Src Tree NV V Text) (E : Env Src)

abbrev St (_L : Lang Src Tree NV V Text) := State Src Tree NV V Text

/-- a node function as the code sees it: memo table first, the pure function on a miss -/
def Ep.nf (ep : Ep Tree NV) : Str → NV := fun q => (alookup ep.memo q).getD (L.query ep.tree q)

/-- a pass over the module fills the memo tables with what it asked -/
def Ep.touch (ep : Ep Tree NV) : Ep Tree NV :=
  { ep with memo := ep.memo ++ (L.trace ep.tree).map (fun q => (q, Ep.nf L ep q)) }

/-- `db.items(m)` -/
def tableOf (db : List (Key × V)) (m : ModPath) : List (Key × V) := db.filter (fun kv => modOf kv.1 = m)

/-- `db.has_module(m)` (db.py:114-123) -/
def hasModule (db : List (Key × V)) (m : ModPath) : Bool := db.any (fun kv => modOf kv.1 = m)

/-- `Module.in_storage()` -/
def onDisk (m : ModPath) : Bool := (E.disk m).isSome

/-- `SyntaxParserOfLark.__load_entry` (lark/parser.py:73-102) -/
def parseModule (s : St L) (p : ModPath) : Except Err Tree × St L :=
  match E.disk p with
  | none =>
    -- not in storage: taken from the source provider and parsed every time; every exception of that branch — lark's, and
    -- the FileNotFoundError of the provider for a module that is neither a file nor the in-memory module — is
    -- wrapped into Errors.Syntax (parser.py:88-92, since fix 12dd004)
    if p = E.main then
      match L.parse s.mainSrc with
      | some t => (.ok t, s)
      | none => (.error .syntax, s)
    else (.error .syntax, s)
  | some src =>
    match alookup s.ast p with
    | some t => (.ok t, s)
    | none =>
      match L.parse src with
      | some t => (.ok t, { s with ast := s.ast ++ [(p, t)] })
      | none => (.error .syntax, s)

/-- `Entrypoints.load` (entrypoints.py:59-62) -/
def epLoad (s : St L) (p : ModPath) : Except Err Unit × St L :=
  if ahas s.eps p then (.ok (), s) else
  match parseModule L E s p with
  | (.ok t, s1) => (.ok (), { s1 with eps := s1.eps ++ [(p, ⟨t, []⟩)] })
  | (.error e, s1) => (.error e, s1)

/-- `Module.__collect_hashes` (module.py:97-118, since c3eaa55): depth-first over the import closure with a visited set
    (`hashes`, keyed by file). `ws` = modules still to visit (in `__depends` order), `vis` = visited files.
    A module whose `__depends` is set (`dset`) is followed through its imports that are files; a module that is still in the
    middle of being loaded (an import cycle) contributes the files of ITS direct imports without following them, and
    `sources.hash` raises FileNotFoundError (→ Errors.Fatal, modules.py:89-91) for one that is not a file. -/
def identWalk (s : St L) (dset : List ModPath) : Nat → List ModPath → List ModPath → Except Err Unit
  | _, [], _ => .ok ()
  | 0, _ :: _, _ => .error .recursion
  | f + 1, x :: rest, vis =>
    if x ∈ vis then identWalk s dset f rest vis else                           -- `if self.filepath in hashes: return`
    match alookup s.eps x with
    | none => .error .other
    | some ep =>
      if x ∈ dset then
        identWalk s dset f ((L.imports ep.tree).filter (fun d => onDisk E d) ++ rest) (x :: vis)
      else
        match (L.imports ep.tree).foldl (fun (acc : Option (List ModPath)) d' =>
            match acc with
            | none => none
            | some v => if d' ∈ v then some v else if onDisk E d' then some (d' :: v) else none) (some (x :: vis)) with
        | none => .error .loadFatal                                             -- FileNotFoundError
        | some vis' => identWalk s dset f rest vis'

/-- number of steps `identWalk` can take: every registered module is expanded at most once -/
def identFuel (s : St L) : Nat := s.eps.foldl (fun n e => n + (L.imports e.2.tree).length + 2) 2

/-- `Module.identity()` of `p` as RestoreSymbols → `persistor.stored` → `_gen_filepath` calls it (module.py:71-95).
    `ident` = the modules whose `depends_on` has been called (modules.py:113, right before the preprocess). -/
def identStep (s : St L) (p : ModPath) : Except Err Unit × St L :=
  if !onDisk E p then (.ok (), s) else          -- not in storage: `str(id(self))`
  let s' : St L := { s with ident := addIfAbsent s.ident p }
  (identWalk L E s' s'.ident (identFuel L s') [p] [], s')

/-- the processors (providers/semantics.py:36-42) after the identity has been computed -/
def preprocessCore (s : St L) (p : ModPath) : Except Err Unit × St L :=
  -- RestoreSymbols (restore_symbols.py:33-40)
  if hasModule s.db p then (.error .never, s) else
  match (if onDisk E p then alookup s.stored p else none) with
  | some rows =>
    -- persistor.restore → db.import_json (db.py:169-180); the keys are absent, so `self[key] = …` appends;
    -- the remaining processors are skipped
    (.ok (), { s with db := aaddAll s.db rows,
                      completed := rows.foldl (fun c kv => addIfAbsent c (modOf kv.1)) s.completed })
  | none =>
    match alookup s.eps p with
    | none => (.error .other, s)
    | some ep =>
      -- ExpandModules (expand_modules.py:58-85): `if fullyname not in db: db[fullyname] = …`
      let r := L.expand p (Ep.nf L ep) (alookup s.db)
      let s1 : St L := { s with db := aaddAll s.db (r.1.map (fun lv => (fullJoined p lv.1, lv.2))),
                                eps := aset s.eps p (Ep.touch L ep) }
      match r.2 with
      | some e => (.error e, s1)
      | none =>
        -- SymbolExtends, ResolveUnknown: `for _, raw in db.items(module.path): raw.mod_on(…)`
        let s2 : St L := { s1 with db := s1.db.map (fun kv => if modOf kv.1 = p then (kv.1, L.extend kv.2) else kv) }
        -- StoreSymbols (store_symbols.py:30-31, persistent.py:78-87,126-135)
        let s3 : St L := { s2 with completed := addIfAbsent s2.completed p }
        if onDisk E p && !(ahas s3.stored p) then
          (.ok (), { s3 with stored := s3.stored ++ [(p, tableOf s3.db p)] })
        else (.ok (), s3)

/-- `ModuleLoader.preprocess` (providers/module.py:86-95): RestoreSymbols first checks `has_module`, then asks the persistor,
    which computes the module identity; then the processors run -/
def preprocess (s : St L) (p : ModPath) : Except Err Unit × St L :=
  if hasModule s.db p then (.error .never, s) else
  match identStep L E s p with
  | (.error e, s1) => (.error e, s1)
  | (.ok _, s1) => preprocessCore L E s1 p

/-- removal of one module: `ModuleLoader.unload` → `Entrypoints.unload`, `SymbolDB.unload`; `del __modules[m]`
    (modules.py:134-136, providers/module.py:76-84, entrypoints.py:64-71, db.py:144-156) -/
def unloadOne (s : St L) (m : ModPath) : St L :=
  { s with eps := aerase s.eps m,
           completed := s.completed.filter (fun x => x ≠ m),
           db := s.db.filter (fun kv => modOf kv.1 ≠ m),
           ident := s.ident.filter (fun x => x ≠ m),
           mods := s.mods.filter (fun x => x ≠ m) }

/-- `Modules.__dependent_paths(m)` (modules.py:141-158): the registered modules that import `m`; every non-library module
    when `m` is a library module -/
def dependents (s : St L) (m : ModPath) : List ModPath :=
  s.mods.filter (fun x =>
    (match alookup s.eps x with | some ep => decide (m ∈ L.imports ep.tree) | none => false) ||
    (decide (m ∈ E.libs) && !decide (x ∈ E.libs)))

/-- `Modules.unload` (modules.py:127-139): the module, then recursively everything that depends on it.
    Fuel = number of registered modules suffices (every level removes one); with less the cascade stops. -/
def unloadF : Nat → St L → ModPath → St L
  | 0, s, _ => s
  | f + 1, s, m =>
    if m ∈ s.mods then (dependents L E (unloadOne L s m) m).foldl (fun s d => unloadF f s d) (unloadOne L s m) else s

def unload (s : St L) (m : ModPath) : St L := unloadF L E s.mods.length s m

/-- `Modules.load(p)` (modules.py:59-93); `rec` loads a list of modules (the libraries, the imports), `rollback` is
    `Modules.unload` with its cascade. A module whose imports or processors raise is unloaded again (:83-86), so nothing
    half-loaded stays registered. (`except Exception → Errors.Fatal` (:89-91) changes the class of non-tranp exceptions only;
    the model has none in this function except its own fuel exhaustion.) -/
def loadOne (rec : List ModPath → St L → Except Err Unit × St L) (rollback : St L → ModPath → St L) (p : ModPath) (s : St L) :
    Except Err Unit × St L :=
  match (if p ∈ s.mods then (.ok (), s) else if p ∈ E.libs then (.ok (), s) else rec E.libs s) with   -- :74-75, :103-104 libralies()
  | (.error e, s0) => (.error e, s0)
  | (.ok _, s0) =>
    if p ∈ s0.mods then (.ok (), s0) else                                    -- :78 the library load may have loaded p itself
    match epLoad L E s0 p with                                               -- :79 loader.load → entrypoints.load
    | (.error e, s1) => (.error e, s1)
    | (.ok _, s1) =>
      let s2 : St L := { s1 with mods := addIfAbsent s1.mods p }             -- :79 registered before its imports
      match alookup s2.eps p with
      | none => (.error .other, rollback s2 p)
      | some ep =>
        match rec (L.imports ep.tree) s2 with                                -- :81
        | (.error e, s3) => (.error e, rollback s3 p)                        -- :83-86
        | (.ok _, s3) =>
          match preprocess L E s3 p with                                     -- :82
          | (.error e, s4) => (.error e, rollback s4 p)                      -- :83-86
          | (.ok _, s4) => (.ok (), s4)

/-- `[Modules.load(p) for p in ps]`; every call and every list step consumes one unit of fuel (RecursionError when exhausted) -/
def loadAll : Nat → List ModPath → St L → Except Err Unit × St L
  | _, [], s => (.ok (), s)
  | 0, _ :: _, s => (.error .recursion, s)
  | f + 1, p :: ps, s =>
    match loadOne L E (loadAll f) (unload L E) p s with
    | (.error e, s') => (.error e, s')
    | (.ok _, s') => loadAll f ps s'

/-- `transpiler.transpile(modules.load(m).entrypoint)` (Runner.by_entrypoint, py2cpp.py:139-151, procedure.py:55-70).
    Both stacks get a fresh top frame; it is popped only when no exception passes through. -/
def transpile (f : Nat) (s : St L) (m : ModPath) : Except Err Text × St L :=
  match loadAll L E f [m] s with
  | (.error e, s1) => (.error e, s1)
  | (.ok _, s1) =>
    match alookup s1.eps m with
    | none => (.error .other, s1)
    | some ep =>
      let r := L.render m (Ep.nf L ep) (alookup s1.db)
      let s2 : St L := { s1 with eps := aset s1.eps m (Ep.touch L ep) }
      match r.1 with
      | .ok text => (.ok text, s2)
      | .error e => (.error e, { s2 with deps := r.2.1 :: s2.deps, proc := r.2.2 :: s2.proc })

/-- `Interactive.rebuild_module` + transpile (bin/transpile.py:419-443) -/
def resubmit (f : Nat) (s : St L) (src : Src) : Except Err Text × St L :=
  transpile L E f (unload L E { s with mainSrc := src } E.main) E.main

/-- one operation; `ok none` for operations without a text -/
def step (f : Nat) (s : St L) : Op Src → Except Err (Option Text) × St L
  | .load m => match loadAll L E f [m] s with
    | (.ok _, s') => (.ok none, s')
    | (.error e, s') => (.error e, s')
  | .transpile m => match transpile L E f s m with
    | (.ok t, s') => (.ok (some t), s')
    | (.error e, s') => (.error e, s')
  | .unload m => (.ok none, unload L E s m)
  | .resubmit src => match resubmit L E f s src with
    | (.ok t, s') => (.ok (some t), s')
    | (.error e, s') => (.error e, s')

/-- the state after a history -/
def run (f : Nat) (s : St L) : List (Op Src) → St L
  | [] => s
  | op :: ops => run f (step L E f s op).2 ops

/-- `Runner._run_impl` (bin/transpile.py:303-310): targets in list order, no exception handling: the first failure ends the run -/
def runner (f : Nat) (s : St L) : List ModPath → List (ModPath × Except Err Text) × St L
  | [] => ([], s)
  | m :: ms =>
    match transpile L E f s m with
    | (.ok t, s') => let r := runner f s' ms; ((m, .ok t) :: r.1, r.2)
    | (.error e, s') => ([(m, .error e)], s')

end Machine

/-! ## a concrete language: module descriptors

  The generated pool modules of harness/c04.py have the shape

      from M import N            (for every entry of `imports`; an empty N is a bare dependency edge, used for the library stubs)
      class C:                   (for every entry of `classes`)
          def f(self, x: int) -> int:      (for every method; body `return x`, or `b = B(); return b.g(x)` for a `call`,
                                            or `return undefined_name` for `badName`, or a lambda capturing four locals for `lam`)
      def attach(self, v: int) -> int: return v      (when `crash`: a free function with a `self` parameter)
      v: int = 0 / v: Nope = 0   (for every entry of `vars`; `false` = the annotation does not resolve)
      print(n)                   (for every entry of `exprs`: expression statements, nothing is declared)

  `descLang` says which symbol keys ExpandModules inserts for such a module (calibrated against the real code by the
  `session` correspondence stream) and when the renderer succeeds. -/

structure Method where
  name : Str
  call : Option (ModPath × Str × Str) := none
  badName : Bool := false
  /-- body `y = x; z = x; w = x; f = lambda: y + z + w + x; return f()` (a lambda capturing four names) -/
  lam : Bool := false
deriving DecidableEq, Repr

structure Cls where
  name : Str
  methods : List Method := []
deriving DecidableEq, Repr

structure Desc where
  syntaxOk : Bool := true
  imports : List (ModPath × Str) := []
  classes : List Cls := []
  vars : List (Str × Bool) := []
  /-- further keys without structure (library stubs: only their number is observed) -/
  extra : Nat := 0
  /-- library symbols the renderer resolves by name for a method (`type`, `int`) / for an annotated variable (`int`) -/
  stdMethod : List Key := []
  stdVar : List Key := []
  /-- library symbols the renderer needs for this module whatever its shape (the library stubs themselves) -/
  stdAlways : List Key := []
  /-- a module-level function whose first parameter is called `self`: collecting the variables of the functions dies with an
      unexpected exception (ValueError in the node model), which `Modules.load` turns into `Errors.Fatal` (modules.py:89-91) -/
  crash : Bool := false
  /-- top-level expression statements `print(n)` after everything else: they declare nothing (no symbol key), the text shows them -/
  exprs : List Nat := []
deriving DecidableEq, Repr

def rootQ : Str := ['f','i','l','e','_','i','n','p','u','t']

def dot (a b : Str) : Str := a ++ '.' :: b

/-- expanded.classes (expand_modules.py:67-70): every class and every method is a ClassDef symbol -/
def Desc.classRows (p : ModPath) (d : Desc) : List (Str × Str) :=
  d.classes.flatMap (fun c =>
    c.methods.map (fun m => (dot c.name m.name, 'c' :: fullJoined p (dot c.name m.name))) ++ [(c.name, 'c' :: fullJoined p c.name)])
  ++ (List.range d.extra).map (fun i => ('_' :: Str.natToDec i, ['o']))

/-- expanded.imports (expand_modules.py:73-78): `raw = db[import_path#name]` raises SymbolNotDefined when absent -/
def expandImports (look : Key → Option Str) : List (ModPath × Str) → List (Str × Str) → List (Str × Str) × Option Err
  | [], acc => (acc, none)
  | (m, n) :: rest, acc =>
    if n = [] then expandImports look rest acc else
    match look (fullJoined m n) with
    | none => (acc, some .symbolNotDefined)
    | some v => expandImports look rest (acc ++ [(n, 'i' :: v)])

/-- decl_vars of the functions (expand_modules.py:108-109): parameters and locals -/
def Desc.fnVarRows (d : Desc) : List (Str × Str) :=
  d.classes.flatMap (fun c => c.methods.flatMap (fun m =>
    [(dot (dot c.name m.name) ['s','e','l','f'], ['v']), (dot (dot c.name m.name) ['x'], ['v'])]
    ++ (match m.call with | some _ => [(dot (dot c.name m.name) ['b'], ['v'])] | none => [])
    ++ (if m.lam then [(dot (dot c.name m.name) ['y'], ['v']), (dot (dot c.name m.name) ['z'], ['v']),
          (dot (dot c.name m.name) ['w'], ['v']), (dot (dot c.name m.name) ['f'], ['v'])] else [])))

/-- decl_vars of the entrypoint, in source order; an unresolvable annotation raises SymbolNotDefined (expand_modules.py:126-147) -/
def expandVars : List (Str × Bool) → List (Str × Str) → List (Str × Str) × Option Err
  | [], acc => (acc, none)
  | (v, ok) :: rest, acc => if ok then expandVars rest (acc ++ [(v, ['v'])]) else (acc, some .symbolNotDefined)

def descExpand (p : ModPath) (nf : Str → Desc) (look : Key → Option Str) : List (Str × Str) × Option Err :=
  let d := nf rootQ
  -- the class symbols are inserted before the imports are resolved: a module that imports one of its own classes finds it
  let own := (d.classRows p).map (fun lv => (fullJoined p lv.1, lv.2))
  let look' : Key → Option Str := fun k => (alookup own k).orElse (fun _ => look k)
  let r1 := expandImports look' d.imports (d.classRows p)
  match r1.2 with
  | some e => (r1.1, some e)
  -- after the imports (a missing imported name wins), before the variables of the entrypoint (an unresolvable annotation loses)
  | none => if d.crash then (r1.1, some .loadFatal) else expandVars d.vars (r1.1 ++ d.fnVarRows)

def extended (v : Str) : Bool := v.getLast? = some '!'

abbrev Methods := List (Cls × Method)

def Desc.methods (d : Desc) : Methods := d.classes.flatMap (fun c => c.methods.map (fun m => (c, m)))

/-- a method needs its function symbol with the attributes SymbolExtends attaches -/
def descOwnOk (p : ModPath) (ms : Methods) (look : Key → Option Str) : Bool :=
  ms.all (fun cm => match look (fullJoined p (dot cm.1.name cm.2.name)) with | some v => extended v | none => false)

/-- `b.g(x)` on an imported class resolves `M#B.g` by name in the symbol table -/
def descCallsOk (ms : Methods) (look : Key → Option Str) : Bool :=
  ms.all (fun cm => match cm.2.call with | some (m, b, g) => (look (fullJoined m (dot b g))).isSome | none => true)

/-- annotations are resolved again at render time: the library classes behind `int` / the function type -/
def descStdOk (d : Desc) (ms : Methods) (look : Key → Option Str) : Bool :=
  (ms.isEmpty || d.stdMethod.all (fun k => (look k).isSome)) && (!(d.vars.any (fun v => v.2)) || d.stdVar.all (fun k => (look k).isSome))
    && d.stdAlways.all (fun k => (look k).isSome)

def descBody (p : ModPath) (ms : Methods) (look : Key → Option Str) : Str :=
  ms.flatMap (fun cm =>
    (look (fullJoined p (dot cm.1.name cm.2.name))).getD [] ++
    (match cm.2.call with | some (m, b, g) => (look (fullJoined m (dot b g))).getD [] | none => []) ++ [';'])

def descIncl (p : ModPath) (d : Desc) (look : Key → Option Str) : Str :=
  d.imports.flatMap (fun mn => (look (fullJoined p mn.2)).getD [] ++ [','])

/-- the expression statements of the module in the text (no symbol is looked up for them) -/
def descExprs (d : Desc) : Str := d.exprs.flatMap (fun n => 'e' :: Str.natToDec n)

def descRender (p : ModPath) (nf : Str → Desc) (look : Key → Option Str) : Except Err Str × List Str × List Str :=
  let d := nf rootQ
  let ms := d.methods
  -- `v: Nope` (only reachable in a half-loaded module) is resolved again at render time
  if d.vars.any (fun v => !v.2) then (.error .unresolvedSymbol, [], [p])
  else if !descStdOk d ms look then (.error .unresolvedSymbol, [], [p])
  else if !descOwnOk p ms look then (.error .fatal, [], [p])
  else if !descCallsOk ms look then (.error .unresolvedSymbol, [], [p])
  else if ms.any (fun cm => cm.2.badName) then (.error .unresolvedSymbol, [], [p])
  else (.ok (p ++ ':' :: (descBody p ms look ++ descIncl p d look ++ descExprs d)), [], [])

def descLang : Lang Desc Desc Desc Str Str where
  parse d := if d.syntaxOk then some d else none
  imports d := d.imports.map (fun mn => mn.1)
  query t _ := t
  trace _ := [rootQ]
  expand := descExpand
  extend v := v ++ ['!']
  render := descRender

end Tranp.Session
