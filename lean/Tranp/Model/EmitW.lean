/-
  Tranp.Model.EmitW — the C++ expression grammar around the operator core (property C01, `group_full`).

  A client-side wrapper over `Tranp.Prec` (which stays untouched): the infix/prefix core is still parsed by `Prec.parse cppOps`,
  the wrapper adds what the emitted text of ternary / `in` / float `%` needs:

      X ::= O | O '?' X ':' X                       conditional-expression (right associative, looser than `||`; [expr.cond])
      O ::= infix/prefix expression over primaries  (Prec.parse cppOps on the skeleton: primaries become numbered atoms)
      primary ::= base suffix*                      postfix-expression ([expr.post])
      base ::= atom | name | '(' X ')'
      suffix ::= '.' name | '(' X,* ')'

  `parseX` is a fuel-bounded recursive descent over flat tokens; `printX` prints a tree. Trusted like `cppTable` (ISO C++20 §7.6),
  validated against g++ by the `cpptable` / `sem` streams.
-/
import Tranp.Model.Emit

namespace Tranp.Emit

/-- flat C++ tokens as the wrapper sees them -/
inductive WTok where
  | atom (id : Nat)
  | name (s : Str)
  | op (code : Nat)
  | lp | rp | quest | colon | comma | dot
deriving DecidableEq, Repr, Inhabited

/-- emitted token → wrapper token: known operator symbols become `op`, punctuation its own token, every other symbol
    (`contains`, `std::find`, `begin`, `end`, `fmod`, …) a `name` -/
def CTok.toW : CTok → WTok
  | .atom id _ => .atom id
  | .sym s =>
    if s = ['('] then .lp else if s = [')'] then .rp else if s = ['?'] then .quest else if s = [':'] then .colon
    else if s = [','] then .comma else if s = ['.'] then .dot
    else if symCode s = 0 then .name s else .op (symCode s)

mutual
/-- conditional level -/
inductive X where
  | plain (o : O)
  | tern (c : O) (a b : X)
/-- operator level: an infix/prefix tree whose leaves are postfix primaries -/
inductive O where
  | leaf (b : B) (s : Sufs)
  | bin (o : Nat) (l r : O)
  | pre (o : Nat) (e : O)
/-- base of a primary -/
inductive B where
  | atom (id : Nat)
  | name (s : Str)
  | paren (x : X)
/-- postfix suffixes, left to right -/
inductive Sufs where
  | nil
  | member (name : Str) (rest : Sufs)
  | call (args : Args) (rest : Sufs)
/-- call arguments -/
inductive Args where
  | nil
  | cons (x : X) (rest : Args)
end

deriving instance DecidableEq for X, O, B, Sufs, Args

instance : Inhabited O := ⟨.leaf (.atom 0) .nil⟩
instance : Inhabited X := ⟨.plain default⟩

mutual
def printX : X → List WTok
  | .plain o => printO o
  | .tern c a b => printO c ++ .quest :: (printX a ++ .colon :: printX b)
def printO : O → List WTok
  | .leaf b s => printB b ++ printSufs s
  | .bin o l r => printO l ++ .op o :: printO r
  | .pre o e => .op o :: printO e
def printB : B → List WTok
  | .atom id => [.atom id]
  | .name s => [.name s]
  | .paren x => .lp :: (printX x ++ [.rp])
def printSufs : Sufs → List WTok
  | .nil => []
  | .member n rest => .dot :: .name n :: printSufs rest
  | .call args rest => .lp :: (printArgs args ++ .rp :: printSufs rest)
def printArgs : Args → List WTok
  | .nil => []
  | .cons x .nil => printX x
  | .cons x (.cons y rest) => printX x ++ .comma :: printArgs (.cons y rest)
end

/-! ## skeleton of an operator-level tree: primaries numbered left to right -/

def O.count : O → Nat
  | .leaf _ _ => 1
  | .bin _ l r => l.count + r.count
  | .pre _ e => e.count

/-- the `Prec.Expr` with the `k`-th, `k+1`-th … primaries as atoms -/
def O.skel : O → Nat → Prec.Expr
  | .leaf _ _, k => .atom k
  | .bin o l r, k => .bin o (l.skel k) (r.skel (k + l.count))
  | .pre o e, k => .pre o (e.skel k)

def O.leaves : O → List (B × Sufs)
  | .leaf b s => [(b, s)]
  | .bin _ l r => l.leaves ++ r.leaves
  | .pre _ e => e.leaves

/-- inverse of `skel`: atoms index into the list of primaries; a `paren` cannot occur in a skeleton -/
def rebuild (leaves : List (B × Sufs)) : Prec.Expr → Option O
  | .atom i => match leaves[i]? with
    | some (b, s) => some (.leaf b s)
    | none => none
  | .bin o l r => match rebuild leaves l, rebuild leaves r with
    | some l', some r' => some (.bin o l' r')
    | _, _ => none
  | .pre o e => (rebuild leaves e).map (.pre o)
  | .paren _ => none

/-! ## the parser -/

mutual
def parseX (fuel : Nat) (ts : List WTok) : Option (X × List WTok) :=
  match fuel with
  | 0 => none
  | f + 1 =>
    match parseO f ts with
    | some (c, .quest :: r1) =>
      match parseX f r1 with
      | some (a, .colon :: r2) =>
        match parseX f r2 with
        | some (b, r3) => some (.tern c a b, r3)
        | none => none
      | _ => none
    | some (o, r) => some (.plain o, r)
    | none => none
/-- scan the operator-level token run, parse its skeleton with the C++ table, put the primaries back -/
def parseO (fuel : Nat) (ts : List WTok) : Option (O × List WTok) :=
  match fuel with
  | 0 => none
  | f + 1 =>
    match scan f ts 0 with
    | some (pt, leaves, r) =>
      match Prec.parse cppOps pt with
      | some e => (rebuild leaves e).map fun o => (o, r)
      | none => none
    | none => none
/-- operators and primaries up to the first token that can continue neither (`?` `:` `,` `)` `.` or the end) -/
def scan (fuel : Nat) (ts : List WTok) (k : Nat) : Option (List Prec.Tok × List (B × Sufs) × List WTok) :=
  match fuel with
  | 0 => none
  | f + 1 =>
    match ts with
    | .op c :: r => (scan f r k).map fun (pt, ls, r') => (.op c :: pt, ls, r')
    | .atom id :: r =>
      match parseSufs f r with
      | some (s, r1) => (scan f r1 (k + 1)).map fun (pt, ls, r') => (.atom k :: pt, (.atom id, s) :: ls, r')
      | none => none
    | .name n :: r =>
      match parseSufs f r with
      | some (s, r1) => (scan f r1 (k + 1)).map fun (pt, ls, r') => (.atom k :: pt, (.name n, s) :: ls, r')
      | none => none
    | .lp :: r =>
      match parseX f r with
      | some (x, .rp :: r0) =>
        match parseSufs f r0 with
        | some (s, r1) => (scan f r1 (k + 1)).map fun (pt, ls, r') => (.atom k :: pt, (.paren x, s) :: ls, r')
        | none => none
      | _ => none
    | _ => some ([], [], ts)
def parseSufs (fuel : Nat) (ts : List WTok) : Option (Sufs × List WTok) :=
  match fuel with
  | 0 => none
  | f + 1 =>
    match ts with
    | .dot :: .name n :: r => (parseSufs f r).map fun (s, r') => (.member n s, r')
    | .lp :: .rp :: r => (parseSufs f r).map fun (s, r') => (.call .nil s, r')
    | .lp :: r =>
      match parseArgs f r with
      | some (args, .rp :: r0) => (parseSufs f r0).map fun (s, r') => (.call args s, r')
      | _ => none
    | _ => some (.nil, ts)
/-- one or more comma separated arguments -/
def parseArgs (fuel : Nat) (ts : List WTok) : Option (Args × List WTok) :=
  match fuel with
  | 0 => none
  | f + 1 =>
    match parseX f ts with
    | some (x, .comma :: r) => (parseArgs f r).map fun (as, r') => (.cons x as, r')
    | some (x, r) => some (.cons x .nil, r)
    | none => none
end

/-- `ts` is read by the C++ grammar as `x`: every sufficiently large fuel gives exactly this tree and consumes all tokens -/
def ParsesTo (ts : List WTok) (x : X) : Prop := ∃ f0, ∀ f, f0 ≤ f → parseX f ts = some (x, [])

/-! ## normal form and parenthesis-insensitive comparison -/

def O.head : O → Prec.Head
  | .leaf _ _ => .leaf
  | .bin o _ _ => .bin o
  | .pre o _ => .pre o

mutual
/-- every infix/prefix slot is in C++ normal form (like `Prec.nf cppOps` on the skeleton), recursively in all nested expressions -/
def nfX : X → Bool
  | .plain o => nfO o
  | .tern c a b => nfO c && nfX a && nfX b
def nfO : O → Bool
  | .leaf b s => nfB b && nfSufs s
  | .bin o l r => Prec.slotOk cppOps (.bin o) .left l.head && Prec.slotOk cppOps (.bin o) .right r.head && nfO l && nfO r
  | .pre o e => Prec.slotOk cppOps (.pre o) .operand e.head && nfO e
def nfB : B → Bool
  | .atom _ => true
  | .name _ => true
  | .paren x => nfX x
def nfSufs : Sufs → Bool
  | .nil => true
  | .member _ rest => nfSufs rest
  | .call args rest => nfArgs args && nfSufs rest
def nfArgs : Args → Bool
  | .nil => true
  | .cons x rest => nfX x && nfArgs rest
end

mutual
/-- drop redundant parentheses: a parenthesised primary without suffixes standing for a plain operator expression -/
def stripX : X → X
  | .plain o => .plain (stripO o)
  | .tern c a b => .tern (stripO c) (stripX a) (stripX b)
def stripO : O → O
  | .leaf (.paren (.plain o)) .nil => stripO o
  | .leaf b s => .leaf (stripB b) (stripSufs s)
  | .bin o l r => .bin o (stripO l) (stripO r)
  | .pre o e => .pre o (stripO e)
def stripB : B → B
  | .atom id => .atom id
  | .name s => .name s
  | .paren x => .paren (stripX x)
def stripSufs : Sufs → Sufs
  | .nil => .nil
  | .member n rest => .member n (stripSufs rest)
  | .call args rest => .call (stripArgs args) (stripSufs rest)
def stripArgs : Args → Args
  | .nil => .nil
  | .cons x rest => .cons (stripX x) (stripArgs rest)
end

/-- strip inside, keep the top constructor -/
def stripKeepO : O → O
  | .leaf b s => .leaf (stripB b) (stripSufs s)
  | .bin o l r => .bin o (stripO l) (stripO r)
  | .pre o e => .pre o (stripO e)

/-- drop one redundant pair of parentheses at the top -/
def unwrapTop : O → O
  | .leaf (.paren (.plain o)) .nil => o
  | o => o

/-! ## the tree the emitted text of a node spells -/

def Sufs.append : Sufs → Sufs → Sufs
  | .nil, t => t
  | .member n rest, t => .member n (rest.append t)
  | .call args rest, t => .call args (rest.append t)

def leafO (b : B) : O := .leaf b .nil
def parenO (x : X) : O := .leaf (.paren x) .nil
def guardO (b : Bool) (o : O) : O := if b then parenO (.plain o) else o

/-- an operator-level tree as a primary with more suffixes: a leaf takes them directly, anything else needs parentheses -/
def sufO (o : O) (t : Sufs) : O :=
  match o with
  | .leaf b s => .leaf b (s.append t)
  | o => .leaf (.paren (.plain o)) t

def nContains : Str := ['c', 'o', 'n', 't', 'a', 'i', 'n', 's']
def nBegin : Str := ['b', 'e', 'g', 'i', 'n']
def nEnd : Str := ['e', 'n', 'd']
def nFind : Str := ['s', 't', 'd', ':', ':', 'f', 'i', 'n', 'd']
def nFmod : Str := ['f', 'm', 'o', 'd']

def arg1 (o : O) : Args := .cons (.plain o) .nil

/-- binary_in.j2, the four call forms (`l` = left operand, `r` = the container) -/
def inForm (op : BOp) (dict : Bool) (l r : O) : O :=
  if dict then
    let c := sufO r (.member nContains (.call (arg1 l) .nil))
    if op == .in_ then c else parenO (.plain (.pre bangCode c))
  else
    let fnd := O.leaf (.name nFind) (.call (.cons (.plain (sufO r (.member nBegin (.call .nil .nil))))
      (.cons (.plain (sufO r (.member nEnd (.call .nil .nil)))) (.cons (.plain l) .nil))) .nil)
    parenO (.plain (.bin (symCode (if op == .in_ then ['!', '='] else ['=', '='])) fnd (sufO r (.member nEnd (.call .nil .nil)))))

/-- one step of the chain fold (py2cpp.py:1481-1484 + the branch the template takes) -/
def stepO (op : BOp) (dict : Bool) (lty rty : Ty) (l r : O) : O :=
  if isIn op then inForm op dict l r
  else if op == .mod && (lty.isFloat || rty.isFloat) then .leaf (.name nFmod) (.call (.cons (.plain l) (.cons (.plain r) .nil)) .nil)
  else .bin op.code l r

mutual
/-- `g = true`: the tree of the emitted text (with the emitter's guard parentheses); `g = false`: Python's grouping of the node.
    A ternary node is not an operator-level node (`wf`): it only occurs where `xOfG` is used. -/
def oOfG (g : Bool) : Node → O
  | .atom id _ => leafO (.atom id)
  | .group e => parenO (xOfG g e)
  | .factor op e => .pre op.code (guardO (g && sameSign op e) (oOfG g e))
  | .notCompare e => .pre bangCode (guardO (g && isRegrouped e ['!']) (oOfG g e))
  | .chain _ fty first rest =>
    oRestG g (guardO (g && (match rest.firstTok with | some o => isRegrouped first o | none => false)) (oOfG g first)) fty rest
  | .ternary _ _ _ => leafO (.atom 0)
def xOfG (g : Bool) : Node → X
  | .ternary p c s => .tern (oOfG g c) (xOfG g p) (xOfG g s)
  | .atom id _ => .plain (leafO (.atom id))
  | .group e => .plain (parenO (xOfG g e))
  | .factor op e => .plain (.pre op.code (guardO (g && sameSign op e) (oOfG g e)))
  | .notCompare e => .plain (.pre bangCode (guardO (g && isRegrouped e ['!']) (oOfG g e)))
  | .chain _ fty first rest =>
    .plain (oRestG g (guardO (g && (match rest.firstTok with | some o => isRegrouped first o | none => false)) (oOfG g first)) fty rest)
def oRestG (g : Bool) (acc : O) (pty : Ty) : Rest → O
  | .nil => acc
  | .cons op dict ty e rest =>
    -- the parentheses around the container of an `in` belong to the call form itself, also in Python's tree
    oRestG g (stepO op dict pty ty acc (guardO ((g || isIn op) && isRegrouped e op.tok) (oOfG g e))) (pty.acc ty) rest
end

/-- the emitted tree -/
def xOf (n : Node) : X := xOfG true n
/-- Python's grouping of the node, in the same vocabulary -/
def pyX (n : Node) : X := xOfG false n

/-- wrapper tokens of a node's emitted text -/
def toksW (n : Node) : List WTok := (emit n).map CTok.toW

def Node.isTern : Node → Bool
  | .ternary _ _ _ => true
  | _ => false
def Node.isFactor : Node → Bool
  | .factor _ _ => true
  | _ => false
def Node.isNot : Node → Bool
  | .notCompare _ => true
  | _ => false

mutual
/-- operator nodes the C++ side has a counterpart for: every operator has a C++ symbol or is `in`/`not.in`, and the container
    of an `in` is not a unary expression (`a in -d` has no typing) -/
def coreW : Node → Bool
  | .atom _ _ => true
  | .group e => coreW e
  | .factor _ e => coreW e
  | .notCompare e => coreW e
  | .chain _ _ first rest => coreW first && coreWRest rest
  | .ternary p c s => coreW p && coreW c && coreW s
def coreWRest : Rest → Bool
  | .nil => true
  | .cons op _ _ e rest =>
    (op.cpp.isSome || (isIn op && !e.isFactor && !e.isNot)) && coreW e && coreWRest rest
end

end Tranp.Emit
